package sim

import (
	"encoding/base64"
	"encoding/binary"
	"encoding/json"
	"fmt"
	"os"
	"regexp"
	"strconv"
	"testing"
	"time"

	_ "ontosim/props"
	"ontosim/simkit"
)

// known_findings.json entry.
type knownEntry struct {
	Property  string `json:"property"`
	Status    string `json:"status"` // "known" | "fixed"
	Oracle    string `json:"oracle"`
	Signature string `json:"signature"` // regexp matched against Failure.Sig (anchored)
	What      string `json:"what"`
	Commit    string `json:"commit,omitempty"`
	re        *regexp.Regexp
}

func loadKnown(path, prop string) []*knownEntry {
	b, err := os.ReadFile(path)
	if err != nil {
		return nil
	}
	var doc struct {
		Findings []*knownEntry `json:"findings"`
	}
	if err := json.Unmarshal(b, &doc); err != nil {
		fmt.Fprintf(os.Stderr, "HARNESS: cannot parse %s: %v\n", path, err)
		os.Exit(2)
	}
	var out []*knownEntry
	for _, e := range doc.Findings {
		if e.Property != prop || e.Status != "known" { // a fixed entry suppresses nothing
			continue
		}
		e.re = regexp.MustCompile("^(?:" + e.Signature + ")$")
		out = append(out, e)
	}
	return out
}

func envInt(name string, def int64) int64 {
	if s := os.Getenv(name); s != "" {
		v, err := strconv.ParseInt(s, 10, 64)
		if err == nil {
			return v
		}
		u, err := strconv.ParseUint(s, 10, 64)
		if err == nil {
			return int64(u)
		}
	}
	return def
}

type violationOut struct {
	Failure *simkit.Failure `json:"failure"`
	Replay  string          `json:"replay"`
}

type knownOut struct {
	Oracle    string         `json:"oracle"`
	Signature string         `json:"signature"`
	What      string         `json:"what"`
	Count     int            `json:"count"`
	Example   string         `json:"example"`
	Sigs      map[string]int `json:"signatures_seen"`
}

type workerOut struct {
	Prop        string                   `json:"prop"`
	Worker      int                      `json:"worker"`
	Runs        int                      `json:"runs"`
	NonTrivial  int                      `json:"nontrivial"`
	NTHashes    string                   `json:"nontrivial_hashes_b64"`
	StateHashes string                   `json:"state_hashes_b64"`
	Faults      map[string]int           `json:"faults"`
	Probes      map[string]int           `json:"probes"`
	SimSeconds  float64                  `json:"sim_seconds"`
	Choices     int64                    `json:"choices"`
	Events      int64                    `json:"events"`
	Samples     []map[string]interface{} `json:"samples"`
	Violations  []violationOut           `json:"violations"`
	Known       map[string]*knownOut     `json:"known"`
	HarnessErrs []string                 `json:"harness_errors"`
	WallS       float64                  `json:"wall_s"`
}

func b64u64(set map[uint64]struct{}) string {
	buf := make([]byte, 0, 8*len(set))
	var tmp [8]byte
	for k := range set {
		binary.LittleEndian.PutUint64(tmp[:], k)
		buf = append(buf, tmp[:]...)
	}
	return base64.StdEncoding.EncodeToString(buf)
}

// TestSim is the worker entry point; bin/check drives it through environment variables.
func TestSim(t *testing.T) {
	propID := os.Getenv("VERIF_PROP")
	if propID == "" {
		t.Skip("VERIF_PROP not set")
	}
	p := simkit.Lookup(propID)
	if p == nil {
		fmt.Fprintf(os.Stderr, "HARNESS: unknown property %s\n", propID)
		os.Exit(2)
	}
	tier := os.Getenv("VERIF_TIER")
	if tier == "" {
		tier = "quick"
	}
	if rp := os.Getenv("VERIF_REPLAY"); rp != "" {
		doReplay(t, p, rp)
		return
	}
	seed := uint64(envInt("VERIF_SEED", 1))
	worker := int(envInt("VERIF_WORKER", 0))
	maxRuns := int(envInt("VERIF_RUNS", 1<<40))
	budget := time.Duration(envInt("VERIF_BUDGET_S", 30)) * time.Second
	outPath := os.Getenv("VERIF_OUT")
	replayDir := os.Getenv("VERIF_REPLAY_DIR")
	if replayDir == "" {
		replayDir = "/verif/replays"
	}
	known := loadKnown(os.Getenv("VERIF_KNOWN"), propID)
	matchKnown := func(f *simkit.Failure) *knownEntry {
		for _, e := range known {
			if e.Oracle == f.Oracle && e.re.MatchString(f.Sig) {
				return e
			}
		}
		return nil
	}
	isKnown := func(f *simkit.Failure) bool { return matchKnown(f) != nil }

	out := &workerOut{Prop: propID, Worker: worker, Faults: map[string]int{}, Probes: map[string]int{}, Known: map[string]*knownOut{}}
	nt := map[uint64]struct{}{}
	states := map[uint64]struct{}{}
	noteKnown := func(f *simkit.Failure) {
		e := matchKnown(f)
		k := e.Oracle + "/" + e.Signature
		ko := out.Known[k]
		if ko == nil {
			ko = &knownOut{Oracle: e.Oracle, Signature: e.Signature, What: e.What, Example: f.Sig + ": " + f.Detail, Sigs: map[string]int{}}
			out.Known[k] = ko
		}
		ko.Count++
		ko.Sigs[f.Sig]++
	}
	var hashLog *os.File
	if hp := os.Getenv("VERIF_TRACEHASH_OUT"); hp != "" {
		hashLog, _ = os.Create(hp)
		defer hashLog.Close()
	}
	savedKnown := map[string]bool{}
	start := time.Now()
	runStart := int(envInt("VERIF_RUN_START", 0))
	for i := runStart; i < runStart+maxRuns; i++ {
		if i > runStart && time.Since(start) > budget {
			break
		}
		runSeed := simkit.Mix(seed, uint64(worker), uint64(i))
		if rs := os.Getenv("VERIF_RUN_SEED"); rs != "" {
			runSeed, _ = strconv.ParseUint(rs, 10, 64)
		}
		tape := simkit.NewTape(runSeed)
		if outPath != "" {
			// which run is executing: read by bin/check if the process is aborted by the runtime
			os.WriteFile(outPath+".cur", []byte(fmt.Sprintf("%d %d", i, runSeed)), 0644)
		}
		var o simkit.Outcome
		t.Run(fmt.Sprintf("w%d-r%d", worker, i), func(st *testing.T) {
			o = simkit.Execute(st, p, tier, tape, isKnown, false, nil)
		})
		c := o.Ctx
		out.Runs++
		if hashLog != nil {
			fo := ""
			if o.Failure != nil {
				fo = o.Failure.Key()
			}
			fmt.Fprintf(hashLog, "%d %d %s %d %d %s\n", i, runSeed, c.TraceHash(), tape.Pos(), c.TraceLen(), fo)
		}
		out.SimSeconds += c.SimSeconds
		out.Choices += int64(tape.Pos())
		out.Events += int64(c.TraceLen())
		for k, v := range c.Faults {
			out.Faults[k] += v
		}
		for k, v := range c.Probes {
			out.Probes[k] += v
		}
		for _, s := range c.States() {
			states[s] = struct{}{}
		}
		if c.IsNonTrivial() {
			out.NonTrivial++
			nt[c.TraceHash64()] = struct{}{}
		}
		if len(out.Samples) < 2 && c.IsNonTrivial() {
			tr := c.Trace()
			if len(tr) > 60 {
				tr = append(append([]string{}, tr[:40]...), fmt.Sprintf("... (%d more events)", len(tr)-40))
			}
			out.Samples = append(out.Samples, map[string]interface{}{"run_seed": runSeed, "choices": tape.Pos(), "faults": c.Faults, "trace": tr})
		}
		for _, kf := range c.Known {
			noteKnown(kf)
			// keep one (unminimised) example replay per actual signature and worker
			if os.Getenv("VERIF_KEEP_KNOWN") != "" && !savedKnown[kf.Sig] {
				savedKnown[kf.Sig] = true
				slug := regexp.MustCompile(`[^A-Za-z0-9]+`).ReplaceAllString(kf.Sig, "-")
				rf := &simkit.ReplayFile{Property: propID, Oracle: kf.Oracle, Signature: kf.Sig, Detail: kf.Detail,
					Seed: seed, RunSeed: runSeed, Tier: tier, Tape: tape.Values(), TapeOrig: tape.Pos(),
					TraceHash: c.TraceHash(), Faults: c.Faults, Trace: c.Trace()}
				os.MkdirAll(replayDir, 0755)
				simkit.WriteReplay(fmt.Sprintf("%s/%s-known-%s-w%d.json", replayDir, propID, slug, worker), rf)
			}
		}
		if o.HarnessErr != "" {
			out.HarnessErrs = append(out.HarnessErrs, fmt.Sprintf("run_seed=%d: %s", runSeed, o.HarnessErr))
			if len(out.HarnessErrs) > 5 {
				break
			}
			continue
		}
		if o.Failure == nil {
			continue
		}
		if isKnown(o.Failure) {
			noteKnown(o.Failure)
			continue
		}
		// A new violation: minimise, write the replay file, verify it replays, stop.
		vals := tape.Values()
		min, nShrink := vals, 0
		if !p.NoShrink && os.Getenv("VERIF_NOSHRINK") == "" {
			min, nShrink = simkit.Shrink(t, p, tier, runSeed, vals, o.Failure, nil, isKnown)
		}
		var ro simkit.Outcome
		t.Run("minimised", func(st *testing.T) {
			ro = simkit.Execute(st, p, tier, simkit.ReplayTape(runSeed, min), isKnown, false, nil)
		})
		fail := o.Failure
		rc := c
		if ro.Failure != nil && ro.Failure.Oracle == fail.Oracle && ro.Failure.Sig == fail.Sig {
			fail, rc = ro.Failure, ro.Ctx
		} else {
			// shrinking did not hold (or the failure is not replayable in-process):
			// report the original execution with its full tape and trace.
			min = vals
		}
		rf := &simkit.ReplayFile{Property: propID, Oracle: fail.Oracle, Signature: fail.Sig, Detail: fail.Detail,
			Seed: seed, RunSeed: runSeed, Tier: tier, Tape: min, TapeFull: vals, TapeOrig: len(vals), ShrinkRun: nShrink,
			TraceHash: rc.TraceHash(), Faults: rc.Faults, Trace: rc.Trace()}
		path := fmt.Sprintf("%s/%s-%d-w%d-r%d.json", replayDir, propID, seed, worker, i)
		os.MkdirAll(replayDir, 0755)
		if err := simkit.WriteReplay(path, rf); err != nil {
			out.HarnessErrs = append(out.HarnessErrs, "cannot write replay: "+err.Error())
		}
		out.Violations = append(out.Violations, violationOut{Failure: fail, Replay: path})
		break
	}
	out.NTHashes = b64u64(nt)
	out.StateHashes = b64u64(states)
	out.WallS = time.Since(start).Seconds()
	if outPath != "" {
		b, _ := json.Marshal(out)
		if err := os.WriteFile(outPath, b, 0644); err != nil {
			fmt.Fprintf(os.Stderr, "HARNESS: %v\n", err)
			os.Exit(2)
		}
	}
}

func doReplay(t *testing.T, p *simkit.Prop, path string) {
	rf, err := simkit.ReadReplay(path)
	if err != nil {
		fmt.Fprintf(os.Stderr, "HARNESS: cannot read replay file: %v\n", err)
		os.Exit(2)
	}
	// other known-finding classes stay soft (as in the original run); the class
	// being replayed is always treated as a violation
	known := loadKnown(os.Getenv("VERIF_KNOWN"), p.ID)
	isKnown := func(f *simkit.Failure) bool {
		if f.Oracle == rf.Oracle && f.Sig == rf.Signature {
			return false
		}
		for _, e := range known {
			if e.Oracle == f.Oracle && e.re.MatchString(f.Sig) {
				return true
			}
		}
		return false
	}
	var o simkit.Outcome
	tape := simkit.ReplayTape(rf.RunSeed, rf.Tape)
	if rf.ProcessAbort {
		// the recorded run killed the process: there is no recorded tape, the run seed regenerates it
		tape = simkit.NewTape(rf.RunSeed)
	}
	t.Run("replay", func(st *testing.T) {
		o = simkit.Execute(st, p, rf.Tier, tape, isKnown, false, rf.Param)
	})
	res := map[string]interface{}{"expected_oracle": rf.Oracle, "expected_signature": rf.Signature, "expected_trace_hash": rf.TraceHash}
	if o.HarnessErr != "" {
		fmt.Printf("REPLAY-HARNESS-ERROR %s\n", o.HarnessErr)
		os.Exit(2)
	}
	if o.Failure != nil {
		res["oracle"] = o.Failure.Oracle
		res["signature"] = o.Failure.Sig
		res["trace_hash"] = o.Ctx.TraceHash()
		res["detail"] = o.Failure.Detail
	}
	b, _ := json.Marshal(res)
	fmt.Printf("REPLAY-RESULT %s\n", b)
	if o.Failure != nil && o.Failure.Oracle == rf.Oracle && o.Failure.Sig == rf.Signature {
		same := o.Ctx.TraceHash() == rf.TraceHash
		fmt.Printf("REPRODUCED property=%s oracle=%s trace_identical=%v\n", p.ID, rf.Oracle, same)
		for _, l := range o.Ctx.Trace() {
			fmt.Println("  | " + l)
		}
		os.Exit(1)
	}
	fmt.Printf("NOT-REPRODUCED property=%s\n", p.ID)
	os.Exit(3)
}

// TestMeta prints the static description of a property for the evidence file.
func TestMeta(t *testing.T) {
	p := simkit.Lookup(os.Getenv("VERIF_PROP"))
	if p == nil {
		t.Skip("VERIF_PROP not set")
	}
	b, _ := json.Marshal(map[string]interface{}{"rule": p.Rule, "real": p.Real, "stub": p.Stub,
		"assumptions": p.Assumptions, "expected_probes": p.ExpectedProbes, "desc": p.Desc})
	fmt.Printf("META %s\n", b)
}
