package props

import (
	"bytes"
	"crypto/sha256"
	"encoding/binary"
	"fmt"
	"math/bits"
	"os"
	"sort"
	"sync/atomic"

	"github.com/ontio/ontology/common"
	"github.com/ontio/ontology/merkle"

	"ontosim/simkit"
	"ontosim/world"
)

// C26: the block-root compact merkle tree (merkle.CompactMerkleTree on a file
// hash store) against an RFC 6962 reference built from the plain leaf list,
// over histories of appends, clean reopens and reopens after a crash inside an
// append (torn / garbage tail in the hash file).
func init() {
	simkit.Register(&simkit.Prop{
		ID:             "C26",
		Desc:           "compact merkle tree on a file hash store: roots, inclusion/consistency proofs, single alterations rejected, reload changes nothing",
		Rule:           "a run = one tree on a real file grown leaf by leaf to a tape-chosen size (small: 1..64, 64 exactly in a quarter of the small runs; medium: 65..1100; large: 4090..4105, about one run in 12) with at most 3 tape-placed reopens (clean via NewTree or UnMarshal; after a lost append whose file tail is cut at a tape-chosen byte and/or followed by garbage; garbage tail; file shorter than committed, which must disable the store). After every append the root is compared with the reference root, the real full-tree hasher and the root predicted before the append. Small runs are exhaustive: at every size n all (leaf,n) inclusion proofs, after every reopen and at the end ALL (leaf,size<=n) inclusion proofs and ALL (m<=n) consistency proofs, each checked by the real verifier and by a recursive reference verifier, and at the end each with every single alteration (each proof element, element dropped/added/swapped, index, size, leaf, root; old/new size and roots for consistency) which must be rejected unless the reference verifier accepts the altered claim too. Medium/large runs do the same on tape-sampled pairs biased to powers of two +-1 and the ends. non-trivial = at least one reopen with an append after it and final size >= 2; distinct = distinct event-trace hash",
		Real:           []string{"merkle.CompactMerkleTree (AppendHash/Append, Root, GetRootWithNewLeaf(s), InclusionProof, ConsistencyProof, Marshal/UnMarshal)", "merkle.fileHashStore on a real tmpfs file", "merkle.MerkleVerifier", "merkle.TreeHasher.HashFullTreeWithLeafHash", "merkle.MerkleLeafPath/MerkleProve"},
		Stub:           []string{"the caller that persists (tree size, compact hashes) after every append (ledger state store) is the harness", "crash = the harness drops the in-memory tree and edits the file tail"},
		Assumptions:    []string{"process-death model for the hash file: bytes of completed appends survive, the append in flight leaves any prefix of its bytes or garbage beyond the committed length", "size or index alterations that leave the audit-path shape unchanged (e.g. leaf 0 of 3 presented as leaf 0 of 4) are accepted by every RFC 6962 verifier and are not counted as violations (probe altered_claim_still_valid)", "consistency proofs are defined for 0 < m <= n; m = 0 is only required not to panic"},
		ExpectedProbes: []string{"reopen_clean", "reopen_torn_tail", "reopen_garbage_tail", "short_file_rejected", "exhaustive_64", "size_over_4096", "altered_claim_still_valid", "duplicate_leaves"},
		Run:            runC26,
	})
}

var c26Seq int64

type c26State struct {
	c        *simkit.Ctx
	path     string
	store    merkle.HashStore
	tree     *merkle.CompactMerkleTree
	ref      *c26Ref
	data     [][]byte // raw leaf data, data[i] hashes to ref.leaves[i]
	ver      *merkle.MerkleVerifier
	salt     uint32
	dup      bool
	phase    string // signature: which kind of history the tree has seen
	savedN   uint32
	savedH   []common.Uint256
	savedBuf []byte
	stillOK  int
}

// committedLen is the hash-file length a tree of n leaves needs: every complete
// subtree of 2^k leaves stores 2^(k+1)-1 nodes.
func c26CommittedLen(n uint32) int64 {
	return (2*int64(n) - int64(bits.OnesCount32(n))) * 32
}

func (s *c26State) leafData(i uint32) []byte {
	j := i
	if s.dup && i > 0 && (i*2654435761+s.salt)%5 == 0 {
		j = (i*40503 + s.salt) % i // an earlier leaf again
	}
	var b [12]byte
	binary.LittleEndian.PutUint32(b[:], s.salt)
	binary.LittleEndian.PutUint32(b[4:], j)
	binary.LittleEndian.PutUint32(b[8:], j*j+7)
	h := sha256.Sum256(b[:])
	return h[:8+int(j%25)]
}

func (s *c26State) save() {
	s.savedN = s.tree.TreeSize()
	s.savedH = append([]common.Uint256(nil), s.tree.Hashes()...)
	s.savedBuf, _ = s.tree.Marshal()
}

func (s *c26State) fail(oracle, format string, a ...interface{}) {
	s.c.Fail(oracle, s.phase, format, a...)
}

// appendOne appends the next leaf to the real tree and the reference and checks
// every root the API exposes.
func (s *c26State) appendOne() {
	n := s.ref.size()
	d := s.leafData(n)
	lh := c26LeafHash(d)
	pred := s.tree.GetRootWithNewLeaf(lh)
	var pred2 common.Uint256
	two := (n+s.salt)%7 == 0 && n < 200
	if two {
		pred2 = s.tree.GetRootWithNewLeaves([]common.Uint256{lh, c26LeafHash(s.leafData(n + 1))})
	}
	var audit []common.Uint256
	if (n+s.salt)%3 == 0 {
		audit = s.tree.Append(d)
	} else {
		audit = s.tree.AppendHash(lh)
	}
	s.ref.leaves = append(s.ref.leaves, lh)
	s.data = append(s.data, d)
	n++
	want := s.ref.root(n)
	if got := s.tree.Root(); got != want {
		s.fail("root-differs", "size %d: incremental root %x != reference full-tree root %x", n, got, want)
	}
	if s.tree.TreeSize() != n {
		s.fail("root-differs", "tree size %d after %d appends", s.tree.TreeSize(), n)
	}
	if pred != want {
		s.fail("predicted-root-differs", "GetRootWithNewLeaf at size %d predicted %x, reference root of %d is %x", n-1, pred, n, want)
	}
	if n <= 64 || n&(n-1) == 0 || (n+s.salt)%97 == 0 {
		if full := (merkle.TreeHasher{}).HashFullTreeWithLeafHash(s.ref.leaves[:n]); full != want {
			s.fail("full-tree-hasher-differs", "HashFullTreeWithLeafHash of %d leaves %x != reference %x", n, full, want)
		}
	}
	if two {
		tmp := append(append([]common.Uint256(nil), s.ref.leaves...), c26LeafHash(s.leafData(n)))
		r2 := &c26Ref{leaves: tmp, memo: map[uint64]common.Uint256{}}
		if w := r2.root(n + 1); pred2 != w {
			s.fail("predicted-root-differs", "GetRootWithNewLeaves(2) at size %d predicted %x, reference %x", n-1, pred2, w)
		}
	}
	// the audit path returned by the append is the inclusion path of the new leaf
	if err := s.ver.VerifyLeafHashInclusion(lh, n-1, audit, want, n); err != nil {
		s.fail("append-audit-path-rejected", "audit path returned by append %d does not verify: %v", n, err)
	}
	s.save()
}

func (s *c26State) closeStore() {
	if s.store != nil {
		s.store.Close()
		s.store = nil
	}
}

// reopen builds a new store and tree from the committed (size, hashes).
func (s *c26State) reopen(viaUnmarshal bool) error {
	st, err := merkle.NewFileHashStore(s.path, s.savedN)
	if err != nil {
		s.store = nil
		// exactly what the ledger does: keep going with persistence disabled
		s.tree = merkle.NewTree(s.savedN, append([]common.Uint256(nil), s.savedH...), nil)
		return err
	}
	s.store = st
	if viaUnmarshal {
		s.tree = merkle.NewTree(0, nil, st)
		s.c.Must(s.tree.UnMarshal(s.savedBuf), "UnMarshal of own Marshal output")
	} else {
		s.tree = merkle.NewTree(s.savedN, append([]common.Uint256(nil), s.savedH...), st)
	}
	return nil
}

func c26Flip(h common.Uint256, k uint32) common.Uint256 {
	h[(k/8)%32] ^= 1 << (k % 8)
	return h
}

type c26Claim struct {
	class string
	leaf  common.Uint256
	m, n  uint32
	proof []common.Uint256
	root  common.Uint256
}

// checkInclusion: the tree's proof for leaf m in the tree of the first n leaves.
func (s *c26State) checkInclusion(m, n uint32, alter bool) []common.Uint256 {
	proof, err := s.tree.InclusionProof(m, n)
	if err != nil {
		s.fail("inclusion-proof-unavailable", "InclusionProof(%d,%d) at tree size %d: %v", m, n, s.tree.TreeSize(), err)
	}
	leaf, root := s.ref.leaves[m], s.ref.root(n)
	if (m+n)%2 == 0 {
		err = s.ver.VerifyLeafHashInclusion(leaf, m, proof, root, n)
	} else {
		err = s.ver.VerifyLeafInclusion(s.data[m], m, proof, root, n)
	}
	if err != nil {
		s.fail("inclusion-proof-rejected", "proof of leaf %d in size %d (tree size %d) rejected by MerkleVerifier: %v", m, n, s.tree.TreeSize(), err)
	}
	if !c26RefVerifyInclusion(leaf, m, n, proof, root) {
		s.fail("inclusion-proof-wrong", "proof of leaf %d in size %d is not the RFC 6962 audit path (reference verifier rejects), len %d", m, n, len(proof))
	}
	if !alter {
		return proof
	}
	k := m*131 + n*17 + s.salt
	var cl []c26Claim
	add := func(class string, leaf common.Uint256, m, n uint32, p []common.Uint256, root common.Uint256) {
		cl = append(cl, c26Claim{class, leaf, m, n, p, root})
	}
	for i := range proof {
		p := append([]common.Uint256(nil), proof...)
		p[i] = c26Flip(p[i], k+uint32(i)*37)
		add("element", leaf, m, n, p, root)
	}
	if len(proof) > 0 {
		add("element-dropped", leaf, m, n, proof[1:], root)
		add("element-dropped", leaf, m, n, proof[:len(proof)-1], root)
		if len(proof) > 1 {
			i := int(k) % (len(proof) - 1)
			if proof[i] != proof[i+1] {
				p := append([]common.Uint256(nil), proof...)
				p[i], p[i+1] = p[i+1], p[i]
				add("element-swapped", leaf, m, n, p, root)
			}
		}
	}
	add("element-added", leaf, m, n, append(append([]common.Uint256(nil), proof...), c26Flip(root, k)), root)
	add("element-added", leaf, m, n, append([]common.Uint256{leaf}, proof...), root)
	for _, m2 := range []uint32{m ^ 1, m + 1, m - 1, m ^ 2, k % n, n, m + n, ^uint32(0)} {
		if m2 != m {
			add("index", leaf, m2, n, proof, root)
		}
	}
	for _, n2 := range []uint32{n + 1, n - 1, n * 2, n / 2, n + 2, m, m + 1, 0, ^uint32(0), 1 + k%(2*n)} {
		if n2 != n {
			add("size", leaf, m, n2, proof, root)
		}
	}
	add("leaf", c26Flip(leaf, k+3), m, n, proof, root)
	if o := s.ref.leaves[(m+1)%n]; o != leaf {
		add("leaf", o, m, n, proof, root)
	}
	add("root", leaf, m, n, proof, c26Flip(root, k+5))
	if o := s.ref.root(n - 1); o != root {
		add("root", leaf, m, n, proof, o)
	}
	if n < s.ref.size() {
		add("root", leaf, m, n, proof, s.ref.root(n+1))
	}
	for _, x := range cl {
		real := s.ver.VerifyLeafHashInclusion(x.leaf, x.m, x.proof, x.root, x.n) == nil
		if !real {
			continue
		}
		if c26RefVerifyInclusion(x.leaf, x.m, x.n, x.proof, x.root) {
			s.stillOK++
			continue
		}
		s.c.Fail("altered-inclusion-accepted", "altered-"+x.class, "honest claim (leaf %d, size %d); with %s altered to (index %d, size %d, proof len %d) MerkleVerifier accepts, the reference verifier rejects", m, n, x.class, x.m, x.n, len(x.proof))
	}
	return proof
}

type c26Cons struct {
	class  string
	m, n   uint32
	ro, rn common.Uint256
	proof  []common.Uint256
}

// checkConsistency: the tree's consistency proof between sizes m <= n.
func (s *c26State) checkConsistency(m, n uint32, alter bool) []common.Uint256 {
	proof := s.tree.ConsistencyProof(m, n)
	ro, rn := s.ref.root(m), s.ref.root(n)
	if err := s.ver.VerifyConsistency(m, n, ro, rn, proof); err != nil {
		s.fail("consistency-proof-rejected", "consistency proof %d -> %d (tree size %d) rejected by MerkleVerifier: %v", m, n, s.tree.TreeSize(), err)
	}
	if m == 0 {
		return proof
	}
	if !c26RefVerifyConsistency(m, n, ro, rn, proof) {
		s.fail("consistency-proof-wrong", "consistency proof %d -> %d is not the RFC 6962 proof (reference verifier rejects), len %d", m, n, len(proof))
	}
	if !alter {
		return proof
	}
	k := m*131 + n*17 + s.salt
	var cl []c26Cons
	add := func(class string, m, n uint32, ro, rn common.Uint256, p []common.Uint256) {
		cl = append(cl, c26Cons{class, m, n, ro, rn, p})
	}
	if m < n {
		for i := range proof {
			p := append([]common.Uint256(nil), proof...)
			p[i] = c26Flip(p[i], k+uint32(i)*37)
			add("element", m, n, ro, rn, p)
		}
		if len(proof) > 0 {
			add("element-dropped", m, n, ro, rn, proof[1:])
			add("element-dropped", m, n, ro, rn, proof[:len(proof)-1])
		}
		add("element-added", m, n, ro, rn, append(append([]common.Uint256(nil), proof...), c26Flip(rn, k)))
		add("element-added", m, n, ro, rn, append([]common.Uint256{ro}, proof...))
		add("root", m, n, c26Flip(ro, k+1), rn, proof)
		add("root", m, n, ro, c26Flip(rn, k+2), proof)
		if m > 1 && s.ref.root(m-1) != ro {
			add("root", m, n, s.ref.root(m-1), rn, proof)
		}
		if n < s.ref.size() {
			add("root", m, n, ro, s.ref.root(n+1), proof)
		}
		for _, m2 := range []uint32{m + 1, m - 1, m ^ 1, m * 2, 1 + k%n} {
			if m2 != m && m2 >= 1 && m2 <= n && s.ref.root(m2) != rn {
				add("size", m2, n, ro, rn, proof)
			}
		}
		for _, n2 := range []uint32{n + 1, n - 1, n * 2, n + 2, ^uint32(0)} {
			if n2 != n && n2 >= m {
				add("size", m, n2, ro, rn, proof)
			}
		}
	}
	for _, x := range cl {
		real := s.ver.VerifyConsistency(x.m, x.n, x.ro, x.rn, x.proof) == nil
		if !real {
			continue
		}
		if c26RefVerifyConsistency(x.m, x.n, x.ro, x.rn, x.proof) {
			s.stillOK++
			continue
		}
		s.c.Fail("altered-consistency-accepted", "altered-"+x.class, "honest claim (%d -> %d); with %s altered to (%d -> %d, proof len %d) MerkleVerifier accepts, the reference verifier rejects", m, n, x.class, x.m, x.n, len(x.proof))
	}
	return proof
}

// leafPathCheck: the level-by-level MerkleLeafPath/MerkleProve pair of
// merkle_hasher.go over the first n leaves.
func (s *c26State) leafPathCheck(n uint32) {
	hashes := s.ref.leaves[:n]
	root := s.ref.root(n)
	for i := uint32(0); i < n; i++ {
		first := i
		for j := uint32(0); j < i; j++ {
			if hashes[j] == hashes[i] {
				first = j
				break
			}
		}
		path, err := merkle.MerkleLeafPath(s.data[i], hashes)
		if err != nil {
			s.fail("leaf-path-unavailable", "MerkleLeafPath leaf %d of %d: %v", i, n, err)
		}
		v, err := merkle.MerkleProve(path, root)
		if err != nil || !bytes.Equal(v, s.data[i]) {
			s.fail("leaf-path-rejected", "MerkleProve of leaf %d (first occurrence %d) of %d against the reference root: %v", i, first, n, err)
		}
		if (i+s.salt)%4 != 0 {
			continue
		}
		// alterations: a value byte, every sibling hash, every direction flag, the root
		vlen := 1 + len(s.data[i]) // one length byte (data < 0xFD bytes) + data
		for pos := 1; pos < len(path); pos++ {
			alt := append([]byte(nil), path...)
			class := "element"
			if pos < vlen {
				class = "leaf"
				if pos != 1+int(i+s.salt)%(vlen-1) {
					continue
				}
				alt[pos] ^= 0x10
			} else if (pos-vlen)%33 == 0 {
				class = "direction"
				alt[pos] ^= 1 // a flipped direction is the same claim only when both children are equal
			} else {
				if (pos-vlen)%33 != 1+int(i+s.salt+uint32(pos))%32 {
					continue
				}
				alt[pos] ^= 0x04
			}
			if _, err := merkle.MerkleProve(alt, root); err == nil {
				if class == "direction" && s.dup {
					s.stillOK++
					continue
				}
				s.c.Fail("altered-leaf-path-accepted", "altered-"+class, "MerkleProve accepts the path of leaf %d of %d with byte %d (%s) altered", i, n, pos, class)
			}
		}
		if _, err := merkle.MerkleProve(path, c26Flip(root, i)); err == nil {
			s.c.Fail("altered-leaf-path-accepted", "altered-root", "MerkleProve accepts the path of leaf %d of %d against an altered root", i, n)
		}
	}
}

type c26Pair struct{ m, n uint32 }

// samplePairs draws (m,n), 0 <= m <= n <= size, biased to powers of two +-1 and the ends.
func (s *c26State) samplePairs(count int, incl bool) []c26Pair {
	t := s.c.Tape
	size := s.ref.size()
	pick := func(hi uint32) uint32 { // value in [0,hi]
		switch t.Pick(3, 2, 4, 3) {
		case 0:
			return hi - uint32(t.Choose(int(min(hi, 3))+1))
		case 1:
			return uint32(t.Choose(int(min(hi, 3)) + 1))
		case 2:
			p := uint32(1) << uint(t.Choose(bits.Len32(hi)+1))
			v := p + uint32(t.Choose(3)) - 1
			if v > hi {
				v = hi
			}
			return v
		default:
			return uint32(t.Choose(int(hi) + 1))
		}
	}
	var out []c26Pair
	if size == 0 {
		return nil // an empty tree has no (leaf, size) pairs to sample
	}
	for i := 0; i < count; i++ {
		n := pick(size)
		if n == 0 {
			n = size
		}
		var m uint32
		if incl {
			m = pick(n - 1)
		} else {
			m = pick(n)
		}
		out = append(out, c26Pair{m, n})
	}
	return out
}

// verifyAll checks proofs from the current tree: exhaustively for small trees,
// on tape-sampled pairs otherwise. It returns the proofs so that a reload can
// be compared.
func (s *c26State) verifyAll(exhaustive, alter bool, samples int) map[[3]uint32][]common.Uint256 {
	out := map[[3]uint32][]common.Uint256{}
	size := s.ref.size()
	if exhaustive {
		for n := uint32(1); n <= size; n++ {
			for m := uint32(0); m < n; m++ {
				out[[3]uint32{0, m, n}] = s.checkInclusion(m, n, alter && (m+n+s.salt)%4 == 0)
			}
			for m := uint32(0); m <= n; m++ {
				out[[3]uint32{1, m, n}] = s.checkConsistency(m, n, alter && (m+n+s.salt)%4 == 0)
			}
		}
		return out
	}
	for _, p := range s.samplePairs(samples, true) {
		out[[3]uint32{0, p.m, p.n}] = s.checkInclusion(p.m, p.n, alter)
	}
	for _, p := range s.samplePairs(samples*2/3, false) {
		out[[3]uint32{1, p.m, p.n}] = s.checkConsistency(p.m, p.n, alter)
	}
	return out
}

// collect asks the tree for proofs without judging them: all pairs of a small
// tree, tape-sampled pairs otherwise.
func (s *c26State) collect(exhaustive bool, samples int) map[[3]uint32][]common.Uint256 {
	out := map[[3]uint32][]common.Uint256{}
	get := func(kind, m, n uint32) {
		if kind == 0 {
			p, err := s.tree.InclusionProof(m, n)
			if err != nil {
				s.fail("inclusion-proof-unavailable", "InclusionProof(%d,%d) at tree size %d: %v", m, n, s.tree.TreeSize(), err)
			}
			out[[3]uint32{0, m, n}] = p
		} else {
			out[[3]uint32{1, m, n}] = s.tree.ConsistencyProof(m, n)
		}
	}
	if exhaustive {
		for n := uint32(1); n <= s.ref.size(); n++ {
			for m := uint32(0); m <= n; m++ {
				if m < n {
					get(0, m, n)
				}
				get(1, m, n)
			}
		}
		return out
	}
	for _, p := range s.samplePairs(samples, true) {
		get(0, p.m, p.n)
	}
	for _, p := range s.samplePairs(samples, false) {
		get(1, p.m, p.n)
	}
	return out
}

// compareAfterReload: every proof collected before the reload must come out of
// the reloaded tree identically and still verify.
func (s *c26State) compareAfterReload(before map[[3]uint32][]common.Uint256, how string) {
	keys := make([][3]uint32, 0, len(before))
	for k := range before {
		keys = append(keys, k)
	}
	sort.Slice(keys, func(i, j int) bool {
		a, b := keys[i], keys[j]
		if a[2] != b[2] {
			return a[2] < b[2]
		}
		if a[1] != b[1] {
			return a[1] < b[1]
		}
		return a[0] < b[0]
	})
	for _, key := range keys {
		old := before[key]
		var now []common.Uint256
		if key[0] == 0 {
			now = s.checkInclusion(key[1], key[2], false)
		} else {
			now = s.checkConsistency(key[1], key[2], false)
		}
		same := len(now) == len(old)
		for i := 0; same && i < len(old); i++ {
			same = now[i] == old[i]
		}
		if !same {
			kind := "inclusion"
			if key[0] == 1 {
				kind = "consistency"
			}
			s.fail("proof-changed-after-reload", "%s proof (%d,%d) differs after %s: %d elements before, %d after", kind, key[1], key[2], how, len(old), len(now))
		}
	}
}

func runC26(c *simkit.Ctx) {
	t := c.Tape
	s := &c26State{c: c, ref: newC26Ref(), ver: merkle.NewMerkleVerifier(), phase: "no-reopen"}
	s.path = fmt.Sprintf("%s/c26-%d.db", world.Scratch(), atomic.AddInt64(&c26Seq, 1))
	os.Remove(s.path)
	c.Defer(func() { s.closeStore(); os.Remove(s.path) })

	mode := t.Pick(8, 3, 1)
	var target uint32
	switch mode {
	case 0:
		target = uint32(1 + t.Choose(64))
		if t.Prob(1, 4) {
			target = 64
		}
	case 1:
		target = uint32(65 + t.Choose(1036))
	default:
		target = uint32(4090 + t.Choose(16))
	}
	exhaustive := mode == 0
	s.salt = uint32(t.Choose(1 << 30))
	s.dup = t.Prob(1, 5)
	if s.dup {
		c.Probe("duplicate_leaves")
	}
	c.Logf("mode=%d target=%d salt=%d dup=%v", mode, target, s.salt, s.dup)

	c.Must(s.reopen(false), "create hash store")
	s.save()
	reopens, appendedAfter, reopened := 0, false, false
	// reopen points: tape-chosen sizes at which the process "restarts"
	points := map[uint32]int{}
	for i, k := 0, t.Choose(4); i < k; i++ {
		points[uint32(t.Choose(int(target)+1))] = 1 + t.Pick(4, 4, 2, 1)
	}

	for {
		n := s.ref.size()
		if kind, ok := points[n]; ok && reopens < 3 {
			delete(points, n)
			reopens++
			before := s.collect(exhaustive && n <= 64, 6)
			beforeRoot := s.tree.Root()
			how := ""
			switch kind {
			case 1:
				how = "clean reopen"
				s.phase = "clean-reopen"
				s.closeStore()
				c.Probe("reopen_clean")
				c.Fault("clean_reopen")
			case 2:
				// the process dies inside the append of a leaf that never commits:
				// the file keeps a prefix of that append's bytes
				how = "reopen after a lost append"
				s.phase = "torn-tail-reopen"
				lost := c26Flip(c26LeafHash(s.leafData(n)), 77)
				s.tree.AppendHash(lost)
				s.closeStore()
				pre, post := c26CommittedLen(n), c26CommittedLen(n+1)
				cut := pre + int64(t.Choose(int(post-pre)+1))
				c.Must(os.Truncate(s.path, cut), "truncate hash file")
				g := c26Garbage(t, s.path, t.Choose(3)*t.Choose(41))
				c.Probe("reopen_torn_tail")
				c.Fault("torn_tail")
				how = fmt.Sprintf("reopen after a lost append (file cut at committed+%d of %d, +%d garbage bytes)", cut-pre, post-pre, g)
			case 3:
				s.phase = "garbage-tail-reopen"
				s.closeStore()
				g := c26Garbage(t, s.path, 1+t.Choose(70))
				c.Probe("reopen_garbage_tail")
				c.Fault("garbage_tail")
				how = fmt.Sprintf("reopen with %d garbage bytes after the committed length", g)
			case 4:
				s.closeStore()
				if c26CommittedLen(n) == 0 {
					how = "clean reopen"
					s.phase = "clean-reopen"
					break
				}
				s.phase = "short-file-reopen"
				short := c26CommittedLen(n) - 1 - int64(t.Choose(int(min(c26CommittedLen(n), 64))))
				c.Must(os.Truncate(s.path, short), "truncate hash file")
				c.Fault("short_file")
				how = fmt.Sprintf("reopen with the file %d bytes shorter than committed", c26CommittedLen(n)-short)
			}
			err := s.reopen(t.Bool())
			c.Logf("size %d: %s -> store err=%v", n, how, err)
			if s.tree.Root() != beforeRoot || s.tree.TreeSize() != n {
				s.fail("root-changed-after-reload", "after %s: size %d root %x, before size %d root %x", how, s.tree.TreeSize(), s.tree.Root(), n, beforeRoot)
			}
			if err != nil {
				if kind != 4 {
					s.fail("reopen-fails", "%s at size %d fails: %v", how, n, err)
				}
				// legitimately disabled: roots keep working, proofs are refused, nothing panics
				c.Probe("short_file_rejected")
				if _, perr := s.tree.InclusionProof(0, n); perr == nil {
					s.fail("proof-without-store", "InclusionProof succeeds although the hash store was rejected")
				}
				if p := s.tree.ConsistencyProof(1, n); p != nil {
					s.fail("proof-without-store", "ConsistencyProof returns %d elements although the hash store was rejected", len(p))
				}
				for i := 0; i < 1+t.Choose(6) && s.ref.size() < target+3; i++ {
					s.appendOne()
				}
				c.Logf("disabled store: roots still equal the reference up to size %d", s.ref.size())
				c.State("disabled", s.ref.size())
				if s.ref.size() >= 2 {
					c.NonTrivial()
				}
				return
			}
			reopened = true
			c.State("reopen", kind, n, mode)
			s.compareAfterReload(before, how)
			continue
		}
		if n >= target {
			break
		}
		s.appendOne()
		if reopened {
			appendedAfter = true
		}
		n++
		if exhaustive {
			for m := uint32(0); m < n; m++ {
				s.checkInclusion(m, n, false)
			}
		}
		if n == 4097 {
			c.Probe("size_over_4096")
		}
	}
	n := s.ref.size()
	c.Logf("final size %d root %x", n, s.tree.Root())
	s.verifyAll(exhaustive, true, 24)
	if exhaustive {
		s.leafPathCheck(n)
		if n == 64 {
			c.Probe("exhaustive_64")
		}
	} else if n > 0 {
		s.leafPathCheck(uint32(1 + t.Choose(int(min(n, 48)))))
	}
	if s.stillOK > 0 {
		c.Probe("altered_claim_still_valid")
	}
	// Last check of the run (a known finding must not mask anything above): same
	// size, same root, empty proof is an honest claim; a larger new size with the
	// same two roots is a false one.
	if n >= 1 && s.store != nil {
		m := uint32(1 + t.Choose(int(n)))
		r := s.ref.root(m)
		for _, n2 := range []uint32{m + 1, m * 2} {
			if s.ver.VerifyConsistency(m, n2, r, r, nil) == nil {
				c.FailSoft("altered-consistency-accepted", "equal-roots-different-sizes", "honest claim (%d -> %d, equal roots, empty proof); with the new size altered to %d MerkleVerifier.VerifyConsistency accepts (it returns nil for equal roots before looking at the sizes)", m, m, n2)
				break
			}
		}
	}
	c.State("final", n, reopens)
	if reopened && appendedAfter && n >= 2 {
		c.NonTrivial()
	}
}

// c26Garbage appends n tape-chosen bytes to the file and returns n.
func c26Garbage(t *simkit.Tape, path string, n int) int {
	if n <= 0 {
		return 0
	}
	f, err := os.OpenFile(path, os.O_WRONLY|os.O_APPEND, 0644)
	if err != nil {
		panic(simkit.HarnessError{Msg: "open hash file for garbage: " + err.Error()})
	}
	defer f.Close()
	b := make([]byte, n)
	fill := byte(t.Choose(256))
	for i := range b {
		b[i] = fill ^ byte(i*151)
	}
	if _, err := f.Write(b); err != nil {
		panic(simkit.HarnessError{Msg: "write garbage: " + err.Error()})
	}
	return n
}
