package props

import (
	"encoding/hex"
	"encoding/json"
	"fmt"
	"os"
	"sort"
	"strings"

	"github.com/ontio/ontology/common"
	"github.com/ontio/ontology/core/payload"
	"github.com/ontio/ontology/core/store"
	"github.com/ontio/ontology/core/store/ledgerstore"
	"github.com/ontio/ontology/core/types"
	cutils "github.com/ontio/ontology/core/utils"
	"github.com/ontio/ontology/smartcontract/event"

	"ontosim/simkit"
	"ontosim/world"
)

// C15: the result of a contract invocation does not depend on Go's map
// iteration order. No seed controls that order, so it is sampled: the same
// program runs many times in fresh engines on the same state, and for real on
// two ledgers.
func init() {
	simkit.Register(&simkit.Prop{
		ID:   "C15",
		Desc: "NeoVM programs over maps / nested containers give the same success flag, return value, notifications, gas, write set and state root in every execution (repeated pre-execution, repeated block execution, two twin ledgers)",
		Rule: "a run = two twin solo ledgers with one small storage contract, and 1..5 generated NeoVM programs (hand-assembled; locals in an alt-stack array) in 1..3 blocks: each starts with a map literal of 2..8 entries (keys: small integers, byte strings, booleans whose VM map keys differ, in tape-chosen insertion order; values: primitives, nested arrays / structs / maps up to 6 levels, references to other locals without reference cycles) followed by 2..11 statements from: assignment of a new value, SETITEM / REMOVE on a map, KEYS, VALUES, HASKEY, PICKITEM, Runtime.Serialize, Serialize+Deserialize, Runtime.Notify of a local or of [KEYS, VALUES], ARRAYSIZE with arithmetic, APPEND / REVERSE / REMOVE on arrays and structs, an order-sensitive SHA1 fold over an array, iteration over KEYS with PICKITEM folding serialised key and value, an arithmetic fold ((acc*31+key) mod p) over KEYS, Storage.Put of the serialised value through the deployed contract with read-back, and (one program in six) a map of 1023..1066 scrambled integer keys built in a loop and serialised directly or inside an array (both sides of MAX_ARRAY_SIZE=1024, which bounds KEYS / VALUES but not Serialize); the return value is the serialisation of all locals. Every program is pre-executed R=16 times (64 in a replay) on the same state through LedgerStore.PreExecuteContractWithParam (raw gas), then its block is executed 6 times (32 in a replay) on each of the two ledgers through ExecuteBlock and committed; oracle: identical success flag, return value, notifications and gas over the pre-executions; identical per-transaction state, gas, notifications, write set, change hash and state root over all block executions on both ledgers; identical stores at the end. In one run of four the last program is of the deep class: one map value is nested to about the serialisation depth limit (8..11 arrays, directly or inside a nested map) or is the map itself. Non-trivial = some program that contains a map with >= 2 entries and an order-sensitive consumer of it (KEYS / VALUES / Serialize / Notify / iteration / fold / storage put) executed successfully; distinct = distinct event-trace hash",
		Real: []string{"vm/neovm (executor, value stack, types: map/array/struct values, Serialize/Deserialize, cycle and depth detector)", "smartcontract/service/neovm (Invoke loop, APPCALL, Runtime.Serialize/Deserialize/Notify, Storage.Put/Get, gas)", "core/store/ledgerstore (PreExecuteContract, ExecuteBlock, SubmitBlock, state roots) on two ledgers", "smartcontract/storage + overlaydb + goleveldb on SimDisk"},
		Stub: []string{"solo block producer in the harness (both ledgers execute the same blocks)", "no transaction pool; wasm JIT stub archive"},
		Assumptions: []string{
			"Go's map iteration order is not controlled by any seed: it is sampled by repetition, so an order dependence over a two-entry map escapes R independent executions with probability about 2^-(R-1); the deep class found below is skewed (about 15%/85%), R=16 misses it in about 7% of the programs that have it",
			"a replay re-executes with R=64 (detected through the VERIF_REPLAY environment variable; R is not part of the trace)",
			"error texts of failing executions are not compared, only the fact of failing",
		},
		ExpectedProbes: []string{"c15_op_KEYS", "c15_op_VALUES", "c15_op_Serialize", "c15_op_Deserialize", "c15_op_Notify", "c15_op_fold", "c15_op_iterate", "c15_op_StoragePut", "c15_op_wide", "c15_prog_ok", "c15_prog_fails_always", "c15_deep_program", "c15_deep_diverged", "c15_gas_charged", "c15_three_programs_in_block"},
		Run:            runC15,
	})
}

type c15Stop struct{}

type c15Exec struct {
	ok     bool
	gas    uint64
	ret    string
	notify string
}

func (e c15Exec) field(i int) string {
	switch i {
	case 0:
		return fmt.Sprint(e.ok)
	case 1:
		return e.ret
	case 2:
		return e.notify
	}
	return fmt.Sprint(e.gas)
}

var c15Fields = [...]string{"success-flag", "return-value", "notifications", "gas"}

func c15Notifies(c *simkit.Ctx, ns []*event.NotifyEventInfo) string {
	var parts []string
	for _, n := range ns {
		b, err := json.Marshal(n.States)
		c.Must(err, "marshal notify")
		parts = append(parts, fmt.Sprintf("%x:%s", n.ContractAddress[:4], b))
	}
	return strings.Join(parts, ";")
}

// c15Spread: the smallest and the largest of the distinct values (stable under resampling).
func c15Spread(vals []string) (string, string, bool) {
	s := append([]string(nil), vals...)
	sort.Strings(s)
	return s[0], s[len(s)-1], s[0] != s[len(s)-1]
}

func c15Clip(a, b string) (string, string) {
	i := 0
	for i < len(a) && i < len(b) && a[i] == b[i] {
		i++
	}
	from := i - 24
	if from < 0 {
		from = 0
	}
	cut := func(s string) string {
		to := from + 120
		if to > len(s) {
			to = len(s)
		}
		pre := ""
		if from > 0 {
			pre = fmt.Sprintf("..(+%d)", from)
		}
		post := ""
		if to < len(s) {
			post = ".."
		}
		return pre + s[from:to] + post
	}
	return cut(a), cut(b)
}

type c15Run struct {
	c      *simkit.Ctx
	t      *simkit.Tape
	a, b   *world.Chain
	store  common.Address
	nonce  uint32
	ts     uint32
	r, rb  int
	okProg bool
}

func (r *c15Run) seal(m *types.MutableTransaction) *types.Transaction {
	r.c.Must(world.Sign(m, r.a.Book), "sign")
	tx, err := world.Seal(m)
	r.c.Must(err, "seal")
	return tx
}

func runC15(c *simkit.Ctx) {
	c.Bubble(func() {
		t := c.Tape
		r := &c15Run{c: c, t: t, nonce: 1, r: 16, rb: 6}
		if os.Getenv("VERIF_REPLAY") != "" {
			r.r, r.rb = 64, 32
		}
		r.a = world.NewSoloChain(c, "a")
		r.b = r.a.Twin("b")
		c.Must(r.a.Open(), "open a")
		c.Must(r.b.Open(), "open b")
		r.ts = r.a.Now
		// ---- block 1: the storage contract
		code := c15StoreContract(c)
		r.store = common.AddressFromVmCode(code)
		m, err := cutils.NewDeployTransaction(code, "c15", "1", "sim", "-", "storage", payload.NEOVM_TYPE)
		c.Must(err, "deploy tx")
		m.GasPrice, m.GasLimit, m.Nonce, m.Payer = 0, 100000000, r.nonce, r.a.Book.Address
		r.nonce++
		r.ts += 10
		blk := r.a.MakeBlock([]*types.Transaction{r.seal(m)}, r.ts, 1)
		for _, ch := range []*world.Chain{r.a, r.b} {
			res, err := ch.Commit(blk)
			if err != nil || res.Notify[0].State != event.CONTRACT_STATE_SUCCESS {
				c.Harness("deploy of the storage contract fails on %s: %v", ch.Name, err)
			}
		}

		nProg := 1 + t.Pick(3, 4, 3, 2, 1)
		deepLast := t.Prob(1, 4)
		func() {
			defer func() {
				if x := recover(); x != nil {
					if _, ok := x.(c15Stop); !ok {
						panic(x)
					}
					c.Logf("run ends after a known finding")
				}
			}()
			done := 0
			for done < nProg {
				n := 1 + t.Pick(3, 2, 1)
				if n > nProg-done {
					n = nProg - done
				}
				if deepLast && done+n == nProg && n > 1 {
					n-- // the deep program gets a block of its own, the last one
				}
				deep := deepLast && done+n == nProg && n == 1
				r.block(n, deep, done)
				done += n
			}
		}()
		// ---- the two ledgers hold the same data
		sa, err := r.a.Snap(true)
		c.Must(err, "snap a")
		sb, err := r.b.Snap(true)
		c.Must(err, "snap b")
		if len(c.Known) == 0 {
			for _, name := range world.Stores {
				if sa.Digest[name] != sb.Digest[name] {
					c.Fail("stores-differ-between-twins", "end/"+name, "store %q differs between the two ledgers after the same blocks (a=left): %v", name, simkit.DiffKV(sa.KV[name], sb.KV[name], 4))
				}
			}
		}
		if r.okProg {
			c.NonTrivial()
		}
	})
}

// block generates n programs, pre-executes each, executes them in one block
// on both ledgers.
func (r *c15Run) block(n int, deep bool, first int) {
	c := r.c
	t := r.t
	var progs []*c15Program
	var txs []*types.Transaction
	split := false
	if n >= 3 {
		c.Probe("c15_three_programs_in_block")
	}
	for i := 0; i < n; i++ {
		p := c15Generate(c, r.store, deep)
		gasPrice := uint64([]int{0, 500}[t.Pick(2, 1)])
		if gasPrice > 0 {
			c.Probe("c15_gas_charged")
		}
		if deep {
			c.Probe("c15_deep_program")
		}
		m := world.InvokeTx(p.code, gasPrice, 200000000, r.nonce, r.a.Book.Address)
		r.nonce++
		tx := r.seal(m)
		c.Logf("program %d (gas price %d%s):", first+i, gasPrice, map[bool]string{true: ", deep class", false: ""}[deep])
		for _, d := range p.desc {
			c.Logf("    %s", d)
		}
		c.Logf("    code %s", hex.EncodeToString(p.code))
		for _, op := range p.ops {
			c.Probe("c15_op_" + op)
		}
		progs = append(progs, p)
		txs = append(txs, tx)
		split = r.preexec(first+i, p, tx) || split
	}
	// ---- the block, several times on each ledger
	r.ts += uint32(1 + t.Choose(30))
	blk := r.a.MakeBlock(txs, r.ts, uint64(r.nonce))
	if split {
		// known class (a deep program, alone in the last block): the same block is
		// executed until both outcomes have been seen on the two ledgers; it is not
		// committed, the ledgers would part
		seen := map[byte]string{}
		for k := 0; k < c15MaxSamples && len(seen) < 2; k++ {
			ch := []*world.Chain{r.a, r.b}[k%2]
			res, err := ch.Store.ExecuteBlock(blk)
			if err != nil {
				c.Fail("block-refused", "execute", "ExecuteBlock of block %d fails on %s: %v", blk.Header.Height, ch.Name, err)
			}
			if _, ok := seen[res.Notify[0].State]; !ok {
				seen[res.Notify[0].State] = ch.Name + " " + res.MerkleRoot.ToHexString()
			}
		}
		if len(seen) == 2 {
			fork := "the state roots are equal here (no fee, no write), the stored receipts differ"
			if c15Root(seen[event.CONTRACT_STATE_FAIL]) != c15Root(seen[event.CONTRACT_STATE_SUCCESS]) {
				fork = "two nodes end with different state roots"
			}
			c.FailSoft("serialize-depth-check-depends-on-map-order", "block/deep-value-in-map", "program %d, alone in block %d, succeeds in some executions of the block and fails in others (both ledgers sampled; state root %s when it fails, %s when it succeeds: %s): Runtime.Serialize of a map whose value is nested to the depth limit (or is the map itself) is accepted or rejected depending on which map entry the depth/cycle detector visits", first, blk.Header.Height, c15Root(seen[event.CONTRACT_STATE_FAIL]), c15Root(seen[event.CONTRACT_STATE_SUCCESS]), fork)
			panic(c15Stop{})
		}
	}
	type sample struct {
		who string
		res store.ExecuteResult
	}
	var samples []sample
	for _, ch := range []*world.Chain{r.a, r.b} {
		for k := 0; k < r.rb-1; k++ {
			res, err := ch.Store.ExecuteBlock(blk)
			if err != nil {
				c.Fail("block-refused", "execute", "ExecuteBlock of block %d fails on %s: %v", blk.Header.Height, ch.Name, err)
			}
			samples = append(samples, sample{ch.Name, res})
		}
	}
	// per-transaction outcome, then write set / hashes
	txField := func(res store.ExecuteResult, i, f int) string {
		nt := res.Notify[i]
		switch f {
		case 0:
			return fmt.Sprint(nt.State == event.CONTRACT_STATE_SUCCESS)
		case 1:
			return fmt.Sprint(nt.GasConsumed)
		}
		return c15Notifies(c, nt.Notify)
	}
	blockField := func(res store.ExecuteResult, f int) string {
		switch f {
		case 0:
			var sb strings.Builder
			res.WriteSet.ForEach(func(k, v []byte) { fmt.Fprintf(&sb, "%x=%x;", k, v) })
			return sb.String()
		case 1:
			return res.Hash.ToHexString()
		}
		return res.MerkleRoot.ToHexString()
	}
	check := func(samples []sample, scope string) {
		for _, s := range samples {
			if len(s.res.Notify) != len(txs) {
				c.Harness("block %d: %d transactions, %d notifies", blk.Header.Height, len(txs), len(s.res.Notify))
			}
		}
		for i := range txs {
			for f, fname := range []string{"success-flag", "gas", "notifications"} {
				var vals []string
				for _, s := range samples {
					vals = append(vals, txField(s.res, i, f))
				}
				lo, hi, differ := c15Spread(vals)
				if !differ {
					continue
				}
				lo, hi = c15Clip(lo, hi)
				if progs[i].deepClass && f == 0 {
					c.Probe("c15_deep_diverged")
					c.FailSoft("serialize-depth-check-depends-on-map-order", "block/deep-value-in-map", "program %d in block %d sometimes succeeds and sometimes fails when the same block is executed again (%s): Runtime.Serialize of a map whose value is nested to the depth limit (or is the map itself) is accepted or rejected depending on which map entry the depth/cycle detector visits", first+i, blk.Header.Height, scope)
					panic(c15Stop{})
				}
				c.Fail("block-execution-differs", scope+"/"+fname, "program %d in block %d: %s differs between executions of the same block (%s): %s | %s", first+i, blk.Header.Height, fname, scope, lo, hi)
			}
		}
		for f, fname := range []string{"write-set", "change-hash", "state-root"} {
			var vals []string
			for _, s := range samples {
				vals = append(vals, blockField(s.res, f))
			}
			lo, hi, differ := c15Spread(vals)
			if differ {
				lo, hi = c15Clip(lo, hi)
				c.Fail("block-execution-differs", scope+"/"+fname, "block %d: %s differs between executions of the same block (%s): %s | %s", blk.Header.Height, fname, scope, lo, hi)
			}
		}
	}
	for _, ch := range []*world.Chain{r.a, r.b} {
		res, err := ch.Commit(blk)
		if err != nil {
			c.Fail("block-refused", "commit", "block %d is refused by %s: %v", blk.Header.Height, ch.Name, err)
		}
		samples = append(samples, sample{ch.Name, res})
	}
	var onA []sample
	for _, s := range samples {
		if s.who == r.a.Name {
			onA = append(onA, s)
		}
	}
	check(onA, "same-ledger")
	check(samples, "twin-ledgers")
	ra, err := r.a.Store.GetStateMerkleRoot(blk.Header.Height)
	c.Must(err, "state root a")
	rb, err := r.b.Store.GetStateMerkleRoot(blk.Header.Height)
	c.Must(err, "state root b")
	if ra != rb {
		c.Fail("state-root-differs", "twin-ledgers", "state merkle root of height %d: %x on a, %x on b", blk.Header.Height, ra, rb)
	}
	last := samples[len(samples)-1].res
	for i := range txs {
		okTx := last.Notify[i].State == event.CONTRACT_STATE_SUCCESS
		c.Logf("  block %d program %d => %s gas %d", blk.Header.Height, first+i, map[bool]string{true: "ok", false: "FAIL"}[okTx], last.Notify[i].GasConsumed)
	}
	c.State("c15", blockField(last, 1))
}

// preexec runs the program R times in fresh engines on the same state.
func (r *c15Run) preexec(idx int, p *c15Program, tx *types.Transaction) (split bool) {
	c := r.c
	var ex []c15Exec
	firstErr := ""
	nOK := 0
	// deep class: sampled until both outcomes have been seen (or, practically, cannot be),
	// so that the trace of the run does not depend on luck
	for k := 0; k < r.r || (p.boundary && k < c15MaxSamples && (nOK == 0 || nOK == k)); k++ {
		// as PreExecuteContract, but the gas is reported as counted (not raised to the minimum fee)
		res, err := r.a.Store.PreExecuteContractWithParam(tx, ledgerstore.PrexecuteParam{MinGas: false})
		e := c15Exec{ok: err == nil}
		if err != nil && k == 0 {
			firstErr = err.Error()
		}
		if err == nil {
			nOK++
			if res.State != event.CONTRACT_STATE_SUCCESS {
				c.Harness("PreExecuteContract returns no error and state %d", res.State)
			}
			b, jerr := json.Marshal(res.Result)
			c.Must(jerr, "marshal result")
			e.gas, e.ret, e.notify = res.Gas, string(b), c15Notifies(c, res.Notify)
		}
		ex = append(ex, e)
	}
	// the known class first needs to be told apart: programs of the deep class
	// whose executions split into failures and mutually identical successes
	okAll := true
	for _, e := range ex {
		if !e.ok {
			okAll = false
		}
	}
	// fields 1..3 are compared over the successful executions only (a failed one has no result)
	diffField := -1
	var lo, hi string
	for f := len(c15Fields) - 1; f >= 0; f-- {
		var vals []string
		for _, e := range ex {
			if f > 0 && !e.ok {
				continue
			}
			vals = append(vals, e.field(f))
		}
		if len(vals) == 0 {
			continue
		}
		if l, h, differ := c15Spread(vals); differ && (diffField < 0 || f > 0) {
			diffField, lo, hi = f, l, h // a difference among the successes outranks the success flag
		}
	}
	switch {
	case diffField < 0:
		if okAll {
			c.Probe("c15_prog_ok")
			c.Logf("  program %d: pre-executions identical: ok gas %d ret %s notify %s", idx, ex[0].gas, c15Short(ex[0].ret), c15Short(ex[0].notify))
			if p.nontriv {
				r.okProg = true
			}
		} else {
			c.Probe("c15_prog_fails_always")
			c.Logf("  program %d: pre-executions identical: fails (%s)", idx, c15Short(firstErr))
		}
	case diffField == 0 && p.deepClass:
		// successes agree among themselves (fields 1..3 were compared over the successful ones only)
		c.Probe("c15_deep_diverged")
		c.FailSoft("serialize-depth-check-depends-on-map-order", "preexec/deep-value-in-map", "program %d sometimes succeeds and sometimes fails in repeated pre-execution on the same state: Runtime.Serialize of a map whose value is nested to the depth limit (or is the map itself) is accepted or rejected depending on which map entry the depth/cycle detector visits", idx)
		c.Logf("  program %d: pre-executions split into successes and failures", idx)
		return true
	default:
		l, h := c15Clip(lo, hi)
		c.Fail("preexec-result-differs", "preexec/"+c15Fields[diffField], "program %d: %s differs between pre-executions on the same state: %s | %s", idx, c15Fields[diffField], l, h)
	}
	return false
}

// c15MaxSamples bounds the adaptive sampling of deep-class programs.
const c15MaxSamples = 400

func c15Root(s string) string {
	if i := strings.IndexByte(s, ' '); i >= 0 {
		return s[i+1:]
	}
	return s
}

func c15Short(s string) string {
	if len(s) > 200 {
		return fmt.Sprintf("%s..(%d)", s[:196], len(s))
	}
	return s
}
