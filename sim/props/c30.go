package props

import (
	"encoding/json"
	"fmt"
	"sort"

	"github.com/ontio/ontology/common"
	"github.com/ontio/ontology/common/config"
	"github.com/ontio/ontology/consensus/vbft"
	vconfig "github.com/ontio/ontology/consensus/vbft/config"
	"github.com/ontio/ontology/core/ledger"
	"github.com/ontio/ontology/core/store/overlaydb"
	gov "github.com/ontio/ontology/smartcontract/service/native/governance"

	"ontosim/simkit"
	"ontosim/world"
)

// C30: the consensus configuration derived from a set of peer stakes is the
// same for every ordering of the input peers, contains exactly the K
// highest-staked peers, and gives each of them at least one slot in the
// position table with slot counts non-increasing in stake.
func init() {
	simkit.Register(&simkit.Prop{
		ID:   "C30",
		Desc: "chain configuration is a deterministic function of the stake set: order-independent, exactly the K highest-staked, >= 1 slot each, slots non-increasing in stake",
		Rule: "a run = the governance history generator of C11 with a node-centred mix (register/quit/black nodes, add/reduce initPos, authorize/unauthorize, updateConfig changing K between 7 and the number of nodes, genesis stakes equal/unequal/zero). At the start, after every governance view change and before every commitDpos of the main phase (the state in which a block-count epoch end would find the contract) the chain configuration is derived from the governance state exactly as consensus/vbft getChainConfig does (GetVbftConfigInfo + GetPeersConfig + GetGovernanceView + vconfig.GenesisChainConfig on the state/write set) 8 times (Go map iteration order differs between evaluations) and vconfig.GenesisChainConfig is applied to the reversed and 4 tape-chosen permutations of the peer list: all results must be equal; Peers must be exactly K nodes, every one with stake >= every left-out node's stake; every chosen node has >= 1 PosTable slot; a node with strictly more stake never has fewer slots; PosTable only names chosen nodes. " +
			"Each run first applies the same checks to 3 tape-generated pools (7..16 peers, K, L, stakes zero/equal/near-equal/unequal/extreme within the ONT supply) passed straight to GenesisChainConfig. non-trivial = at least 3 view changes checked with at least one pool holding more nodes than K or a tie in stake at the cut; distinct = distinct event-trace hash",
		Real:           []string{"consensus/vbft/config GenesisChainConfig", "consensus/vbft GetPeersConfig / GetVbftConfigInfo / GetGovernanceView (body of getChainConfig)", "smartcontract/service/native/governance (peer pool, commitDpos ranking)", "core/genesis + ledgerstore (VBFT genesis and headers carrying NewChainConfig)"},
		Stub:           []string{"block producer (harness)", "after the warp: direct transaction execution on an overlay at a pretended height (see C10)", "wasm JIT (stub archive)"},
		Assumptions:    []string{"with equal stakes at the cut any K highest-staked set satisfies the statement; which of the tied nodes is chosen is only required to be the same for every input order"},
		ExpectedProbes: []string{"config_checked", "more_nodes_than_K", "tie_at_cut", "zero_stake_chosen", "K_above_7", "unequal_slots", "pure_pool_checked", "checked_before_commit", "ok_updateConfig", "ok_registerCandidate", "ok_quitNode"},
		Run:            runC30,
	})
}

func runC30(c *simkit.Ctx) {
	c.Bubble(func() {
		for i := 0; i < 3; i++ {
			c30Pure(c)
		}
		w := newGovWorld(c, govProfile{Name: "C30", WStake: 30, WNode: 30, WFee: 4, WAdmin: 18, WInvalid: 4, WCommit: 20, MaxSteps: 40})
		checked, rich := 0, false
		check := func(where string) {
			if c30CheckGov(w, where) {
				rich = true
			}
			checked++
		}
		w.beforeEpochEnd = func() { c.Probe("checked_before_commit"); check("before commitDpos") }
		w.onBlock = func(b *govBlock) {
			if b.Post.View != b.Pre.View {
				check("after view change")
			}
		}
		w.guarded(func() {
			check("genesis")
			w.run()
		})
		c.Logf("end: commits=%d configs checked=%d ok: %s", w.commits, checked, w.summary())
		if checked >= 4 && rich {
			c.NonTrivial()
		}
	})
}

type c30Peer struct {
	Index uint32
	ID    string
	Stake uint64
}

// c30CheckGov derives the chain configuration from the governance state the
// way the consensus does and checks it; true when the pool was a telling one
// (more nodes than K, or a tie at the cut).
func c30CheckGov(w *govWorld, where string) bool {
	c := w.c
	var memdb *overlaydb.MemDB
	if w.eng != nil {
		memdb = w.eng.overlay.GetWriteSet()
	}
	blk := w.height() + 1
	ledger.DefLedger = w.ch.Ledger
	// The statement quantifies over valid K. A pending updateConfig (taken into
	// account by GetVbftConfigInfo before commitDpos applies it) can name a K
	// larger than the number of nodes left after a quitNode/blackNode; the
	// derivation then indexes past the peer list. Outside the property's domain:
	// recorded as a probe, not judged.
	if vc, err := vbft.GetVbftConfigInfo(memdb); err == nil {
		n := 0
		for _, it := range w.st.Pool {
			if it.Status == gov.CandidateStatus || it.Status == gov.ConsensusStatus {
				n++
			}
		}
		if n < int(vc.K) {
			c.Probe("K_exceeds_nodes_skipped")
			pv := c30Recover(func() { w.ch.GovChainConfig(memdb, blk) })
			if pv != nil {
				c.Probe("K_exceeds_nodes_derivation_panics")
			}
			c.Logf("chain config %s: K=%d exceeds the %d candidate/consensus nodes: not a valid configuration, not judged (derivation panics: %v)", where, vc.K, n, pv != nil)
			return false
		}
	}
	var first []byte
	var cfg0 *vconfig.ChainConfig
	for i := 0; i < 8; i++ {
		var cc *vconfig.ChainConfig
		var err error
		pv := c30Recover(func() { cc, err = w.ch.GovChainConfig(memdb, blk) })
		if pv != nil {
			n, k := 0, w.st.Cfg.K
			for _, it := range w.st.Pool {
				if it.Status == gov.CandidateStatus || it.Status == gov.ConsensusStatus {
					n++
				}
			}
			c.Fail("chain-config-panics", c30PanicSig(pv), "%s (h%d view %d): deriving the chain configuration from the governance state panics: %v (%d candidate/consensus nodes, K=%d in force; the consensus calls this in makeProposal without recover)", where, blk, w.st.View, pv, n, k)
		}
		if err != nil {
			c.Fail("chain-config-error", "governance-state", "%s (h%d view %d): %v", where, blk, w.st.View, err)
		}
		b, err := json.Marshal(cc)
		c.Must(err, "marshal chain config")
		if i == 0 {
			first, cfg0 = b, cc
		} else if string(b) != string(first) {
			c.Fail("config-differs-between-evaluations", "map-order", "%s (h%d view %d): evaluation %d of the chain configuration differs from the first:\n%s\n%s", where, blk, w.st.View, i+1, first, b)
		}
	}
	vcfg, err := vbft.GetVbftConfigInfo(memdb)
	c.Must(err, "vbft config info")
	peers, err := vbft.GetPeersConfig(memdb)
	c.Must(err, "peers config")
	gv, err := vbft.GetGovernanceView(memdb)
	c.Must(err, "governance view")
	sort.Slice(peers, func(i, j int) bool { return peers[i].Index < peers[j].Index })
	// the stake set, read from the contract's peer pool by the harness itself:
	// every candidate/consensus node with initPos + totalPos
	var pool []c30Peer
	for _, it := range w.st.Pool {
		if it.Status == gov.CandidateStatus || it.Status == gov.ConsensusStatus {
			pool = append(pool, c30Peer{it.Index, it.PeerPubkey, it.InitPos + it.TotalPos})
		}
	}
	sort.Slice(pool, func(i, j int) bool { return pool[i].Index < pool[j].Index })
	c30Permutations(c, vcfg, peers, gv.TxHash, blk, cfg0, where)
	cfg0.View = gv.View
	telling := c30Structure(c, pool, vcfg.K, cfg0, fmt.Sprintf("%s (h%d view %d)", where, blk, w.st.View))
	c.Probe("config_checked")
	if vcfg.K > 7 {
		c.Probe("K_above_7")
	}
	c.Logf("chain config %s: view=%d K=%d of %d nodes, posTable=%d slots", where, gv.View, vcfg.K, len(pool), len(cfg0.PosTable))
	return telling
}

func c30Recover(f func()) (pv interface{}) {
	defer func() {
		if r := recover(); r != nil {
			if _, ours := r.(simkit.HarnessError); ours {
				panic(r)
			}
			pv = r
		}
	}()
	f()
	return nil
}

func c30PanicSig(pv interface{}) string {
	s := fmt.Sprint(pv)
	for i, ch := range s { // cut at the first digit: "index out of range [7] with length 7"
		if ch >= '0' && ch <= '9' {
			return s[:i]
		}
	}
	return s
}

func c30Copy(ps []*config.VBFTPeerStakeInfo, order []int) []*config.VBFTPeerStakeInfo {
	out := make([]*config.VBFTPeerStakeInfo, len(ps))
	for i, j := range order {
		cp := *ps[j]
		out[i] = &cp
	}
	return out
}

// c30Permutations: GenesisChainConfig on the reversed and on tape-chosen
// orders of the peer list must equal the reference result.
func c30Permutations(c *simkit.Ctx, vcfg *config.VBFTConfig, peers []*config.VBFTPeerStakeInfo, txhash common.Uint256, blk uint32, ref *vconfig.ChainConfig, where string) {
	n := len(peers)
	refc := *ref
	refc.View = 1
	want, err := json.Marshal(&refc)
	c.Must(err, "marshal")
	orders := [][]int{make([]int, n), make([]int, n)}
	for i := 0; i < n; i++ {
		orders[0][i] = i
		orders[1][i] = n - 1 - i
	}
	for k := 0; k < 4; k++ {
		orders = append(orders, c.Tape.Perm(n))
	}
	for _, o := range orders {
		var cc *vconfig.ChainConfig
		var err error
		if pv := c30Recover(func() { cc, err = vconfig.GenesisChainConfig(vcfg, c30Copy(peers, o), txhash, blk) }); pv != nil {
			c.Fail("chain-config-panics", c30PanicSig(pv), "%s: GenesisChainConfig panics on input order %v: %v", where, o, pv)
		}
		if err != nil {
			c.Fail("chain-config-error", "permutation", "%s: GenesisChainConfig fails on input order %v: %v", where, o, err)
		}
		got, err := json.Marshal(cc)
		c.Must(err, "marshal")
		if string(got) != string(want) {
			c.Fail("config-depends-on-input-order", "permutation", "%s: peers in order %v (by index) give a different chain configuration:\n%s\nreference:\n%s", where, o, got, want)
		}
	}
}

// c30Structure checks one configuration against the stake set it was derived
// from; true when the pool is a telling one.
func c30Structure(c *simkit.Ctx, pool []c30Peer, k uint32, cc *vconfig.ChainConfig, where string) bool {
	byIdx := map[uint32]c30Peer{}
	for _, p := range pool {
		byIdx[p.Index] = p
	}
	if uint32(len(cc.Peers)) != k || cc.N != k {
		c.Fail("not-k-peers", "count", "%s: K=%d but the configuration has %d peers (N=%d)", where, k, len(cc.Peers), cc.N)
	}
	chosen := map[uint32]bool{}
	minIn := ^uint64(0)
	for _, p := range cc.Peers {
		q, ok := byIdx[p.Index]
		if !ok || q.ID != p.ID {
			c.Fail("unknown-peer-chosen", "membership", "%s: configuration names peer index %d id %s which is not in the stake set", where, p.Index, p.ID)
		}
		if chosen[p.Index] {
			c.Fail("not-k-peers", "duplicate", "%s: peer %d chosen twice", where, p.Index)
		}
		chosen[p.Index] = true
		if q.Stake < minIn {
			minIn = q.Stake
		}
		if q.Stake == 0 {
			c.Probe("zero_stake_chosen")
		}
	}
	tie := false
	for _, p := range pool {
		if chosen[p.Index] {
			continue
		}
		if p.Stake > minIn {
			c.Fail("not-the-k-highest", "membership", "%s: peer %d with stake %d is left out while a chosen peer has only %d", where, p.Index, p.Stake, minIn)
		}
		if p.Stake == minIn {
			tie = true
		}
	}
	slots := map[uint32]int{}
	for _, idx := range cc.PosTable {
		if !chosen[idx] {
			c.Fail("postable-names-outsider", "postable", "%s: PosTable contains index %d which is not a chosen peer", where, idx)
		}
		slots[idx]++
	}
	uneq := false
	for a := range chosen {
		if slots[a] < 1 {
			c.Fail("peer-without-slot", "postable", "%s: chosen peer %d (stake %d) has no slot in PosTable", where, a, byIdx[a].Stake)
		}
		for b := range chosen {
			if byIdx[a].Stake > byIdx[b].Stake && slots[a] < slots[b] {
				c.Fail("slots-not-monotone", "postable", "%s: peer %d with stake %d has %d slots, peer %d with stake %d has %d", where, a, byIdx[a].Stake, slots[a], b, byIdx[b].Stake, slots[b])
			}
			if slots[a] != slots[b] {
				uneq = true
			}
		}
	}
	if uneq {
		c.Probe("unequal_slots")
	}
	if len(pool) > int(k) {
		c.Probe("more_nodes_than_K")
	}
	if tie {
		c.Probe("tie_at_cut")
	}
	return len(pool) > int(k) || tie
}

// c30Pure: a generated pool handed straight to GenesisChainConfig.
func c30Pure(c *simkit.Ctx) {
	t := c.Tape
	n := t.Range(7, 16)
	k := uint32(t.Range(4, n))
	if k > 12 {
		k = 12
	}
	cmax := (k - 1) / 2
	cc := uint32(1 + t.Choose(int(cmax)))
	l := k * uint32(2+t.Choose(31))
	vcfg := &config.VBFTConfig{N: uint32(n), C: cc, K: k, L: l, BlockMsgDelay: 10000, HashMsgDelay: 10000, PeerHandshakeTimeout: 10, MaxBlockChangeView: 1000}
	mode := t.Pick(2, 2, 2, 2, 1, 1)
	base := uint64(1 + t.Choose(1000000))
	var peers []*config.VBFTPeerStakeInfo
	pool := make([]c30Peer, n)
	for i := 0; i < n; i++ {
		var s uint64
		switch mode {
		case 0: // unequal
			s = uint64(t.Choose(5000000))
		case 1: // all equal
			s = base
		case 2: // few distinct values: many ties
			s = base * uint64(t.Choose(3))
		case 3: // near-equal
			s = base + uint64(t.Choose(3))
		case 4: // all zero
			s = 0
		case 5: // extremes within the ONT supply (1e9): larger stakes cannot exist
			s = []uint64{0, 1, 2, 999999999, 1000000000}[t.Choose(5)]
		}
		id := fmt.Sprintf("02%062x", 1000+i*7919%977) // distinct, well-formed looking ids
		peers = append(peers, &config.VBFTPeerStakeInfo{Index: uint32(i + 1), PeerPubkey: id, InitPos: s})
		pool[i] = c30Peer{uint32(i + 1), id, s}
	}
	var txhash common.Uint256
	copy(txhash[:], t.Bytes(4))
	blk := uint32(t.Choose(1000000))
	where := fmt.Sprintf("generated pool n=%d K=%d C=%d L=%d mode=%d", n, k, cc, l, mode)
	order := make([]int, n)
	for i := range order {
		order[i] = i
	}
	var ref *vconfig.ChainConfig
	var err error
	if pv := c30Recover(func() { ref, err = vconfig.GenesisChainConfig(vcfg, c30Copy(peers, order), txhash, blk) }); pv != nil {
		c.Fail("chain-config-panics", "pure/"+c30PanicSig(pv), "%s stakes %v: GenesisChainConfig panics: %v", where, pool, pv)
	}
	if err != nil {
		if l/k-1 == 0 {
			return // L == K is refused ("L is equal or less than K"): not a configuration
		}
		c.Fail("chain-config-error", "pure", "%s: %v", where, err)
	}
	c30Permutations(c, vcfg, peers, txhash, blk, ref, where)
	c30Structure(c, pool, k, ref, where)
	c.Probe("pure_pool_checked")
	c.Logf("%s: ok, posTable=%d", where, len(ref.PosTable))
}

var _ = world.PubHex
