package props

import (
	"ontosim/simkit"
	"ontosim/world"
)

func init() {
	simkit.Register(&simkit.Prop{
		ID:   "C29",
		Desc: "each round selects well-formed proposer/endorser/committer sets, identically on every node",
		Rule: "a run = N=4 or N=7 real vbft servers sealing 3..6 heights under message reordering and clock skips; the VRF seed of every round is whatever the real proposers produce; at every quiescent point every honest node's participant configuration of its current round is checked: C+1 distinct proposers, >= 2C+1 distinct endorsers, >= 2C+1 distinct committers, all members of the chain configuration, and identical to what every other node selected for that height. non-trivial = >= 3 distinct heights checked; distinct = distinct event-trace hash; states = distinct (height, selection) pairs",
		Real: vbftReal, Stub: vbftStub,
		Assumptions:   []string{"coverage is the VRF seeds and the genesis position tables the simulation produces, not all seeds/configurations (DESIGN 7, C29)"},
		MaxShrinkRuns: 60,
		Run:           runC29,
	})
}

func runC29(c *simkit.Ctx) {
	c.Bubble(func() {
		t := c.Tape
		n, cf := 4, 1
		if t.Bool() {
			n, cf = 7, 2
		}
		o := vbftOpts{N: n, C: cf, MaxSteps: 12000, TargetHeight: uint32(3 + t.Choose(4)), Byz: -1}
		o.Reorder = []int{0, 300, 700}[t.Choose(3)]
		o.TimeSkip = []int{0, 5, 20}[t.Choose(3)]
		c.Logf("config N=%d C=%d target=%d reorder=%d skip=%d", n, cf, o.TargetHeight, o.Reorder, o.TimeSkip)
		net := world.NewVbftNet(c, n, cf)
		for _, nd := range net.Nodes {
			c.Must(net.StartNode(nd), "start vbft server")
		}
		seen := map[string]string{}
		o.Inv = func(net *world.VbftNet, step int) { checkParticipants(c, net, seen) }
		st := runVbft(c, net, o)
		c.Logf("end: steps=%d maxHeight=%d rounds-checked=%d", st.Steps, st.MaxHeight, len(seen))
		if len(seen) >= 3 {
			c.NonTrivial()
		}
	})
}
