package props

import (
	"fmt"

	"github.com/ontio/ontology/common"
	"github.com/ontio/ontology/common/config"
	"github.com/ontio/ontology/consensus/vbft"
	vconfig "github.com/ontio/ontology/consensus/vbft/config"

	"ontosim/simkit"
	"ontosim/world"
)

func init() {
	simkit.Register(&simkit.Prop{
		ID:   "C29",
		Desc: "each round selects well-formed proposer/endorser/committer sets, identically on every node",
		Rule: "a run = N=4 or N=7 real vbft servers sealing 3..6 heights under message reordering and clock skips; the VRF seed of every round is whatever the real proposers produce; at every quiescent point every honest node's participant configuration of its current round is checked: C+1 distinct proposers, >= 2C+1 distinct endorsers, >= 2C+1 distinct committers, all members of the chain configuration, and identical to what every other node selected for that height. Before that, each run applies the same well-formedness and determinism checks to 3 generated configurations (real GenesisChainConfig over 4..40 peers, equal / unequal / whale-and-dust stakes, position tables of 2K..128K slots) with 1..12 tape-chosen seeds each, calling the real selection (calcParticipantPeers) directly. non-trivial = >= 3 distinct heights checked; distinct = distinct event-trace hash; states = distinct (height, selection) pairs",
		Real: vbftReal, Stub: vbftStub,
		Assumptions:   []string{"inside the simulation the coverage is the VRF seeds and the genesis position tables the run produces; the generated-configuration part is plain seeded input generation (no schedule or fault dimension)"},
		MaxShrinkRuns: 60,
		Run:           runC29,
	})
}

// c29Generated: the selection applied to generated configurations and seeds
// (plain seeded input generation, no simulator dimension): chain configurations
// derived by the real GenesisChainConfig from 4..40 peers with equal / unequal /
// whale-and-dust stakes and position tables of 2K..128K slots (more slots than
// the 512 draws a seed provides), 1..12 seeds each.
func c29Generated(c *simkit.Ctx) {
	t := c.Tape
	k := uint32(t.Pick(3, 0, 0, 4, 1, 1, 1, 1, 1, 1, 1)*3 + 4) // 4, 13, 16, ... 34: any K >= 4
	if t.Prob(1, 3) {
		k = uint32(4 + t.Choose(37))
	}
	cf := uint32(1 + t.Choose(int((k-1)/3)))
	mult := uint32(2 + t.Choose(31))
	if t.Prob(1, 4) {
		mult = []uint32{64, 80, 100, 128}[t.Choose(4)]
	}
	n := int(k) + t.Choose(4)
	vcfg := &config.VBFTConfig{N: uint32(n), C: cf, K: k, L: k * mult, BlockMsgDelay: 10000, HashMsgDelay: 10000, PeerHandshakeTimeout: 10, MaxBlockChangeView: 1000}
	mode := t.Pick(2, 2, 3, 1)
	var peers []*config.VBFTPeerStakeInfo
	var stakes []uint64
	for i := 0; i < n; i++ {
		var s uint64
		switch mode {
		case 0:
			s = 100000
		case 1:
			s = uint64(1 + t.Choose(5000000))
		case 2: // a few whales, the rest dust
			if i < 1+int(cf) || t.Prob(1, 5) {
				s = uint64(1000000 + t.Choose(9000000))
			} else {
				s = uint64(1 + t.Choose(20))
			}
		case 3:
			s = uint64(t.Choose(3))
		}
		stakes = append(stakes, s)
		peers = append(peers, &config.VBFTPeerStakeInfo{Index: uint32(i + 1), PeerPubkey: fmt.Sprintf("02%062x", 1000+i*7919%977), InitPos: s})
	}
	var txhash common.Uint256
	chain, err := vconfig.GenesisChainConfig(vcfg, peers, txhash, 0)
	if err != nil {
		c.Probe("generated_config_refused")
		return
	}
	members := map[uint32]bool{}
	for _, p := range chain.Peers {
		members[p.Index] = true
	}
	distinct := func(xs []uint32) int {
		m := map[uint32]bool{}
		for _, x := range xs {
			m[x] = true
		}
		return len(m)
	}
	where := fmt.Sprintf("generated configuration K=%d C=%d L=%d stakes=%v", k, cf, len(chain.PosTable), stakes)
	for i, ns := 0, 1+t.Choose(12); i < ns; i++ {
		var vrf vconfig.VRFValue
		copy(vrf[:], t.Bytes(len(vrf)))
		var ps, es, cs []uint32
		if pv := c30Recover(func() { ps, es, cs = vbft.SimCalcParticipants(vrf, chain) }); pv != nil {
			c.Fail("selection-panics", "generated/"+c30PanicSig(pv), "%s seed %x: participant selection panics: %v", where, vrf[:8], pv)
		}
		desc := fmt.Sprintf("P=%v E=%v C=%v", ps, es, cs)
		c.Probe("generated_selection_checked")
		if len(chain.PosTable) > 512 {
			c.Probe("generated_table_over_512_slots")
		}
		if len(ps) != int(cf)+1 || distinct(ps) != len(ps) {
			c.Fail("proposer-set-malformed", "generated", "%s seed %x: %s", where, vrf[:8], desc)
		}
		if distinct(es) < 2*int(cf)+1 {
			c.Fail("endorser-set-malformed", "generated", "%s seed %x: %s", where, vrf[:8], desc)
		}
		if distinct(cs) < 2*int(cf)+1 {
			c.Fail("committer-set-malformed", "generated", "%s seed %x: %s", where, vrf[:8], desc)
		}
		for _, set := range [][]uint32{ps, es, cs} {
			for _, x := range set {
				if !members[x] {
					c.Fail("participant-not-member", "generated", "%s seed %x: %d is not a peer of the configuration: %s", where, vrf[:8], x, desc)
				}
			}
		}
		ps2, es2, cs2 := vbft.SimCalcParticipants(vrf, chain)
		if d2 := fmt.Sprintf("P=%v E=%v C=%v", ps2, es2, cs2); d2 != desc {
			c.Fail("selection-not-deterministic", "generated", "%s seed %x: %s then %s", where, vrf[:8], desc, d2)
		}
	}
}

func runC29(c *simkit.Ctx) {
	for i := 0; i < 3; i++ {
		c29Generated(c)
	}
	c.Bubble(func() {
		t := c.Tape
		n, cf := 4, 1
		if t.Bool() {
			n, cf = 7, 2
		}
		o := vbftOpts{N: n, C: cf, MaxSteps: 12000, TargetHeight: uint32(3 + t.Choose(4)), Byz: -1}
		o.Reorder = []int{0, 300, 700}[t.Choose(3)]
		o.TimeSkip = []int{0, 5, 20}[t.Choose(3)]
		c.Logf("config N=%d C=%d target=%d reorder=%d skip=%d", n, cf, o.TargetHeight, o.Reorder, o.TimeSkip)
		net := world.NewVbftNet(c, n, cf)
		for _, nd := range net.Nodes {
			c.Must(net.StartNode(nd), "start vbft server")
		}
		seen := map[string]string{}
		o.Inv = func(net *world.VbftNet, step int) { checkParticipants(c, net, seen) }
		st := runVbft(c, net, o)
		c.Logf("end: steps=%d maxHeight=%d rounds-checked=%d", st.Steps, st.MaxHeight, len(seen))
		if len(seen) >= 3 {
			c.NonTrivial()
		}
	})
}
