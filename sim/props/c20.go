package props

import (
	"bytes"
	"fmt"

	"github.com/ontio/ontology-crypto/keypair"
	"github.com/ontio/ontology/account"
	"github.com/ontio/ontology/common"
	"github.com/ontio/ontology/core/signature"
	"github.com/ontio/ontology/core/types"
	"github.com/ontio/ontology/vm/neovm"

	"ontosim/simkit"
	"ontosim/world"
)

func init() {
	simkit.Register(&simkit.Prop{
		ID:             "C20",
		Desc:           "block encoding round-trips and binds the transaction list",
		Rule:           "a run = 6..30 blocks with 0..14 generated signed transactions and 1..4 bookkeeper signatures, each sent as bytes and altered in flight by a tape-chosen fault: none / transactions reordered / one duplicated / the last 1, 2 or 4 repeated at the end (same merkle root when the tree level is odd) / one dropped / one replaced by another valid transaction / transaction count field changed / a byte flipped in a tape-chosen header field (version, previous hash, transactions root, block root, timestamp, height, consensus data, consensus payload, next bookkeeper) / bookkeeper list or signatures changed only / a length prefix or count of the header (consensus payload, bookkeeper list and items, signature list and items) re-encoded non-minimally / random byte flip / truncation. For every byte string the decoder (BlockFromRawBytes) accepts: ToArray() equals the consumed prefix of the input; the header's transaction root equals the merkle root of the decoded transactions' hashes; no transaction hash occurs twice; if only bookkeepers/signatures were changed the block hash is unchanged; if any other header field was changed the block hash differs from the original. non-trivial = >= 2 accepted altered blocks evaluated and >= 2 rejected; distinct = distinct event-trace hash",
		Real:           []string{"core/types block and header codecs", "core/types transaction codec", "common.ComputeMerkleRoot"},
		Stub:           []string{"block producer and corrupting link (harness)"},
		Assumptions:    []string{"the only simulator dimension is in-flight corruption by a faulty peer; exploration over generated corruptions, not all byte strings"},
		ExpectedProbes: []string{"accepted_altered", "rejected_altered", "sig_only_change_accepted", "header_field_change_accepted"},
		Run:            runC20,
	})
}

func c20Tx(c *simkit.Ctx, w *clWorld) *types.Transaction {
	t := c.Tape
	p := w.parties[t.Choose(len(w.parties))]
	w.nonce++
	mt := world.InvokeTx(append([]byte{byte(neovm.PUSH1)}, t.Bytes(t.Choose(12))...), 0, 20000, w.nonce, p.addr(c))
	raw := clAssemble(c, mt, []clSigSet{clSignSet(c, p, mt.Hash(), true)})
	tx, err := types.TransactionFromRawBytes(raw)
	c.Must(err, "own tx")
	return tx
}

func runC20(c *simkit.Ctx) {
	t := c.Tape
	w := newClWorld(c, -1)
	var books []*account.Account
	for i := 0; i < 4; i++ {
		books = append(books, account.NewAccount(""))
	}
	n := 6 + t.Choose(25)
	evaluated, rejected := 0, 0
	for i := 0; i < n; i++ {
		var txs []*types.Transaction
		for k, ntx := 0, t.Pick(1, 2, 2, 2, 2, 2, 3, 1, 1, 1, 2, 1, 2, 1, 1); k < ntx; k++ {
			txs = append(txs, c20Tx(c, w))
		}
		hdr := &types.Header{Version: uint32(t.Choose(2)), Timestamp: uint32(1600000000 + t.Choose(1000000)), Height: uint32(1 + t.Choose(100000)),
			ConsensusData: t.Uint64(), ConsensusPayload: t.Bytes(t.Choose(20))}
		copy(hdr.PrevBlockHash[:], t.Bytes(32))
		copy(hdr.BlockRoot[:], t.Bytes(32))
		copy(hdr.NextBookkeeper[:], t.Bytes(20))
		blk := &types.Block{Header: hdr, Transactions: txs}
		blk.RebuildMerkleRoot()
		h := blk.Hash()
		nb := 1 + t.Choose(4)
		for k := 0; k < nb; k++ {
			sg, err := signature.Sign(books[k], h[:])
			c.Must(err, "sign block")
			hdr.Bookkeepers = append(hdr.Bookkeepers, books[k].PublicKey)
			hdr.SigData = append(hdr.SigData, sg)
		}
		raw := blk.ToArray()
		if _, err := types.BlockFromRawBytes(append([]byte(nil), raw...)); err != nil {
			c.Harness("own block does not decode: %v", err)
		}
		// byte layout of the unsigned header
		unsignedLen := 4 + 32 + 32 + 32 + 4 + 4 + 8 + 1 + len(hdr.ConsensusPayload) + 20
		fields := []struct {
			name     string
			off, len int
		}{{"version", 0, 4}, {"prev-hash", 4, 32}, {"tx-root", 36, 32}, {"block-root", 68, 32}, {"timestamp", 100, 4}, {"height", 104, 4},
			{"consensus-data", 108, 8}, {"consensus-payload", 117, len(hdr.ConsensusPayload)}, {"next-bookkeeper", 117 + len(hdr.ConsensusPayload), 20}}
		fault := t.Pick(2, 3, 2, 2, 2, 2, 5, 3, 2, 1, 3, 4)
		name := []string{"none", "reorder-txs", "duplicate-tx", "drop-tx", "replace-tx", "tx-count-field", "header-field", "signers-only", "flip-byte", "truncate", "repeat-trailing-txs", "nonminimal-varint"}[fault]
		in := append([]byte(nil), raw...)
		rebuild := func(newTxs []*types.Transaction) []byte {
			// header bytes unchanged (root not updated), transaction list as given
			sink := common.NewZeroCopySink(nil)
			hdr.Serialization(sink)
			sink.WriteUint32(uint32(len(newTxs)))
			for _, tx := range newTxs {
				tx.Serialization(sink)
			}
			return sink.Bytes()
		}
		headerChanged, sigOnly := false, false
		switch fault {
		case 1:
			if len(txs) >= 2 {
				p := t.Perm(len(txs))
				var nt []*types.Transaction
				for _, k := range p {
					nt = append(nt, txs[k])
				}
				in = rebuild(nt)
			}
		case 2:
			if len(txs) >= 1 {
				in = rebuild(append(append([]*types.Transaction{}, txs...), txs[t.Choose(len(txs))]))
			}
		case 3:
			if len(txs) >= 1 {
				k := t.Choose(len(txs))
				in = rebuild(append(append([]*types.Transaction{}, txs[:k]...), txs[k+1:]...))
			}
		case 4:
			if len(txs) >= 1 {
				nt := append([]*types.Transaction{}, txs...)
				nt[t.Choose(len(nt))] = c20Tx(c, w)
				in = rebuild(nt)
			}
		case 5:
			hl := len(raw) - func() int {
				s := common.NewZeroCopySink(nil)
				for _, tx := range txs {
					tx.Serialization(s)
				}
				return len(s.Bytes())
			}() - 4
			in[hl] ^= byte(1 + t.Choose(7))
		case 6:
			f := fields[t.Choose(len(fields))]
			if f.len > 0 {
				in[f.off+t.Choose(f.len)] ^= byte(1 + t.Choose(255))
				headerChanged = true
				name += "/" + f.name
			}
		case 7:
			// change only the signer section: drop / duplicate / swap bookkeepers and signatures, alter a signature
			h2 := *hdr
			switch t.Choose(4) {
			case 0:
				h2.Bookkeepers = hdr.Bookkeepers[:len(hdr.Bookkeepers)-1]
				h2.SigData = hdr.SigData[:len(hdr.SigData)-1]
			case 1:
				h2.Bookkeepers = append(append([]keypair.PublicKey{}, hdr.Bookkeepers...), hdr.Bookkeepers[0])
				h2.SigData = append(append([][]byte{}, hdr.SigData...), hdr.SigData[0])
			case 2:
				sg := append([]byte(nil), hdr.SigData[0]...)
				sg[len(sg)-1] ^= 1
				h2.SigData = append([][]byte{sg}, hdr.SigData[1:]...)
			default:
				h2.Bookkeepers = nil
				h2.SigData = nil
			}
			b2 := &types.Block{Header: &h2, Transactions: txs}
			in = b2.ToArray()
			sigOnly = true
		case 8:
			in[t.Choose(len(in))] ^= byte(1 + t.Choose(255))
		case 9:
			in = in[:t.Choose(len(in))]
		case 11:
			// a length prefix or count of the header re-encoded non-minimally
			var pos []int
			pos = append(pos, 116) // consensus payload length
			p := unsignedLen
			pos = append(pos, p) // bookkeeper count
			p++
			for range hdr.Bookkeepers {
				pos = append(pos, p)
				p += 1 + int(raw[p])
			}
			pos = append(pos, p) // signature count
			p++
			for range hdr.SigData {
				pos = append(pos, p)
				p += 1 + int(raw[p])
			}
			if txStart := len(raw) - func() int {
				sk := common.NewZeroCopySink(nil)
				for _, tx := range txs {
					tx.Serialization(sk)
				}
				return len(sk.Bytes())
			}() - 4; p != txStart {
				c.Harness("header walk ended at %d, transactions start at %d", p, txStart)
			}
			q := pos[t.Choose(len(pos))]
			v := in[q]
			enc := [][]byte{{0xfd, v, 0}, {0xfe, v, 0, 0, 0}, {0xff, v, 0, 0, 0, 0, 0, 0, 0}}[t.Choose(3)]
			in = append(append(append([]byte{}, in[:q]...), enc...), in[q+1:]...)
			name += fmt.Sprintf("/at-%d", q-unsignedLen)
		case 10:
			// the last 1, 2 or 4 transactions once more (the merkle tree repeats the
			// last node of an odd level, so such a list can have the same root)
			if k := 1 << uint(t.Choose(3)); k <= len(txs) {
				in = rebuild(append(append([]*types.Transaction{}, txs...), txs[len(txs)-k:]...))
				name += fmt.Sprintf("/%d-of-%d", k, len(txs))
			}
		}
		_ = unsignedLen
		c.Logf("block %d txs=%d signers=%d fault=%s len=%d", i, len(txs), nb, name, len(in))
		dec, err := types.BlockFromRawBytes(append([]byte(nil), in...))
		if err != nil {
			c.Probe("rejected_altered")
			rejected++
			if fault == 0 {
				c.Harness("unaltered block rejected: %v", err)
			}
			continue
		}
		if fault != 0 {
			c.Probe("accepted_altered")
		}
		evaluated++
		// the decoder reads a block from the front of a stream (the p2p Block message
		// continues after it), so the re-encoding must equal the bytes it consumed
		if out := dec.ToArray(); !bytes.HasPrefix(in, out) {
			c.Fail("reencoding-differs", name, "accepted input of %d bytes, re-encodes to %d bytes that are not the consumed prefix", len(in), len(out))
		} else if len(out) != len(in) {
			c.Probe("trailing_bytes_left_unconsumed")
		}
		var hashes []common.Uint256
		seen := map[common.Uint256]bool{}
		for _, tx := range dec.Transactions {
			hh := tx.Hash()
			if seen[hh] {
				c.Fail("duplicate-transaction-accepted", name, "transaction %x twice in an accepted block", hh)
			}
			seen[hh] = true
			hashes = append(hashes, hh)
		}
		if root := common.ComputeMerkleRoot(hashes); root != dec.Header.TransactionsRoot {
			c.Fail("transaction-root-mismatch-accepted", name, "header root %x, list root %x", dec.Header.TransactionsRoot, root)
		}
		if sigOnly {
			c.Probe("sig_only_change_accepted")
			if dec.Hash() != h {
				c.Fail("hash-depends-on-signers", name, "changing only bookkeepers/signatures changed the block hash %x -> %x", h, dec.Hash())
			}
		}
		if headerChanged {
			c.Probe("header_field_change_accepted")
			if dec.Hash() == h {
				c.Fail("hash-ignores-header-field", name, "a changed header field left the block hash %x unchanged", h)
			}
		}
	}
	if evaluated >= 2 && rejected >= 2 {
		c.NonTrivial()
	}
}
