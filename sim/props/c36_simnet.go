package props

import (
	"fmt"
	"io"
	"net"
	"sort"
	"sync"
	"time"
)

// A tiny cooperative network for C36: in-memory duplex pipes whose every
// Read/Write (and every Dial, task start and close) parks the calling
// goroutine at a gate. The bubble's root goroutine is the scheduler: after
// synctest.Wait() every other goroutine sits at a gate (or has ended); the
// tape releases exactly one enabled gate, so between two decisions one
// goroutine runs from its gate to its next gate.

type c36Gate struct {
	task, side int // side 0: the controller's goroutine of the task, 1: the scripted remote peer
	op         int // per-goroutine operation counter (diagnostic part of the key)
	kind       string
	enabled    func() bool // evaluated by the scheduler while everything is parked
	ch         chan struct{}
}

type c36Sched struct {
	mu      sync.Mutex
	parked  []*c36Gate
	current int // task whose gate was released last (read by the dialer)
	steps   int
}

// park blocks the caller until the scheduler releases this gate.
func (s *c36Sched) park(task, side, op int, kind string, enabled func() bool) {
	g := &c36Gate{task: task, side: side, op: op, kind: kind, enabled: enabled, ch: make(chan struct{})}
	s.mu.Lock()
	s.parked = append(s.parked, g)
	s.mu.Unlock()
	<-g.ch
}

// enabledGates returns the parked gates that may run now, in a stable order.
// Only called by the scheduler when the bubble is quiescent.
func (s *c36Sched) enabledGates() (en []*c36Gate, blocked int) {
	s.mu.Lock()
	defer s.mu.Unlock()
	sort.Slice(s.parked, func(i, j int) bool {
		a, b := s.parked[i], s.parked[j]
		if a.task != b.task {
			return a.task < b.task
		}
		if a.side != b.side {
			return a.side < b.side
		}
		return a.op < b.op
	})
	for _, g := range s.parked {
		if g.enabled == nil || g.enabled() {
			en = append(en, g)
		} else {
			blocked++
		}
	}
	return
}

func (s *c36Sched) release(g *c36Gate) {
	s.mu.Lock()
	for i, x := range s.parked {
		if x == g {
			s.parked = append(s.parked[:i], s.parked[i+1:]...)
			break
		}
	}
	s.current = g.task
	s.steps++
	s.mu.Unlock()
	close(g.ch)
}

// c36Pipe is the shared state of one duplex connection.
type c36Pipe struct {
	buf    [2][]byte // buf[e]: bytes readable by end e
	closed [2]bool   // closed[e]: end e called Close
}

type c36Addr string

func (a c36Addr) Network() string { return "tcp" }
func (a c36Addr) String() string  { return string(a) }

// c36Conn is one end of a pipe; it implements net.Conn.
type c36Conn struct {
	s          *c36Sched
	p          *c36Pipe
	end        int
	task, side int
	ops        int
	local      c36Addr
	remote     c36Addr
	abortAt    int // >0: the abortAt-th Read/Write of this end closes the connection instead (scripted misbehaving remote)
	aborted    bool
	deadline   time.Time
}

func c36NewPipe(s *c36Sched, task int, ctrlAddr, remoteAddr string) (ctrlEnd, remoteEnd *c36Conn) {
	p := &c36Pipe{}
	ctrlEnd = &c36Conn{s: s, p: p, end: 0, task: task, side: 0, local: c36Addr(ctrlAddr), remote: c36Addr(remoteAddr)}
	remoteEnd = &c36Conn{s: s, p: p, end: 1, task: task, side: 1, local: c36Addr(remoteAddr), remote: c36Addr(ctrlAddr)}
	return
}

func (c *c36Conn) abortNow() bool {
	c.ops++
	if c.abortAt > 0 && c.ops >= c.abortAt {
		c.s.mu.Lock()
		c.p.closed[c.end] = true
		c.aborted = true
		c.s.mu.Unlock()
		return true
	}
	return false
}

func (c *c36Conn) Read(b []byte) (int, error) {
	if len(b) == 0 {
		return 0, nil
	}
	p, e := c.p, c.end
	c.s.park(c.task, c.side, c.ops, "read", func() bool {
		return len(p.buf[e]) > 0 || p.closed[e] || p.closed[1-e]
	})
	if c.abortNow() {
		return 0, io.ErrClosedPipe
	}
	c.s.mu.Lock()
	defer c.s.mu.Unlock()
	if p.closed[e] {
		return 0, io.ErrClosedPipe
	}
	if len(p.buf[e]) > 0 {
		n := copy(b, p.buf[e])
		p.buf[e] = p.buf[e][n:]
		return n, nil
	}
	return 0, io.EOF
}

func (c *c36Conn) Write(b []byte) (int, error) {
	p, e := c.p, c.end
	c.s.park(c.task, c.side, c.ops, "write", nil)
	if c.abortNow() {
		return 0, io.ErrClosedPipe
	}
	c.s.mu.Lock()
	defer c.s.mu.Unlock()
	if p.closed[e] || p.closed[1-e] {
		return 0, io.ErrClosedPipe
	}
	p.buf[1-e] = append(p.buf[1-e], b...)
	return len(b), nil
}

// Close is not a gate: it only flips a flag that enables the peer's pending
// Read (which then returns EOF when the scheduler picks it).
func (c *c36Conn) Close() error {
	c.s.mu.Lock()
	defer c.s.mu.Unlock()
	if c.p.closed[c.end] {
		return fmt.Errorf("simconn: already closed")
	}
	c.p.closed[c.end] = true
	return nil
}

func (c *c36Conn) isClosed() bool {
	c.s.mu.Lock()
	defer c.s.mu.Unlock()
	return c.p.closed[c.end]
}

func (c *c36Conn) LocalAddr() net.Addr  { return c.local }
func (c *c36Conn) RemoteAddr() net.Addr { return c.remote }

// Deadlines are recorded only: the scheduler never advances the fake clock
// while a handshake is in flight, so no deadline can expire.
func (c *c36Conn) SetDeadline(t time.Time) error      { c.deadline = t; return nil }
func (c *c36Conn) SetReadDeadline(t time.Time) error  { c.deadline = t; return nil }
func (c *c36Conn) SetWriteDeadline(t time.Time) error { c.deadline = t; return nil }
