package props

// NeoVM code for C44: a storage contract that can migrate and destroy itself,
// and the transaction-script fragments that call it.

import (
	"github.com/ontio/ontology/common"
	vm "github.com/ontio/ontology/vm/neovm"

	"ontosim/simkit"
)

// call modes (top of the caller's stack; the arguments are below it)
const (
	c44ModePut            = 1 // [value key]                     Storage.Put(ctx, key, value)
	c44ModeDelete         = 2 // [key]                           Storage.Delete(ctx, key)
	c44ModeDestroy        = 3 // []                              Contract.Destroy
	c44ModeMigrate        = 4 // [desc email author ver name vmtype code]   Contract.Migrate
	c44ModeMigrateThenPut = 5 // [value key desc .. code]        Contract.Migrate, then Storage.Put with the executing (old) context
	c44ModeDestroyThenPut = 6 // [value key]                     Contract.Destroy, then Storage.Put
	c44ModeGet            = 7 // [key]                           Runtime.Notify(Storage.Get(ctx, key))
	c44ModeCtxMigratePut  = 8 // [value key desc .. code]        context taken BEFORE Contract.Migrate, Storage.Put with it afterwards
)

// c44ContractCode is the contract; id makes distinct instances (the two
// trailing bytes are never executed).
func c44ContractCode(c *simkit.Ctx, id byte) []byte {
	a := newC05Asm()
	next := func(mode int64, label string) {
		a.op(vm.DUP).pushInt(mode).op(vm.NUMEQUAL).jump(vm.JMPIFNOT, label).op(vm.DROP)
	}
	next(c44ModePut, "m2")
	a.syscall("System.Storage.GetContext").syscall("System.Storage.Put").op(vm.RET)
	a.label("m2")
	next(c44ModeDelete, "m3")
	a.syscall("System.Storage.GetContext").syscall("System.Storage.Delete").op(vm.RET)
	a.label("m3")
	next(c44ModeDestroy, "m4")
	a.syscall("System.Contract.Destroy").op(vm.RET)
	a.label("m4")
	next(c44ModeMigrate, "m5")
	a.syscall("Ontology.Contract.Migrate").op(vm.DROP, vm.RET)
	a.label("m5")
	next(c44ModeMigrateThenPut, "m6")
	a.syscall("Ontology.Contract.Migrate").op(vm.DROP)
	a.syscall("System.Storage.GetContext").syscall("System.Storage.Put").op(vm.RET)
	a.label("m6")
	next(c44ModeDestroyThenPut, "m7")
	a.syscall("System.Contract.Destroy")
	a.syscall("System.Storage.GetContext").syscall("System.Storage.Put").op(vm.RET)
	a.label("m7")
	next(c44ModeGet, "m8")
	a.syscall("System.Storage.GetContext").syscall("System.Storage.Get").syscall("System.Runtime.Notify").op(vm.RET)
	a.label("m8")
	next(c44ModeCtxMigratePut, "bad")
	a.syscall("System.Storage.GetContext").op(vm.TOALTSTACK)
	a.syscall("Ontology.Contract.Migrate").op(vm.DROP)
	a.op(vm.FROMALTSTACK).syscall("System.Storage.Put").op(vm.RET)
	a.label("bad")
	a.op(vm.THROW)
	a.raw(0x01, id)
	return a.bytes(c)
}

func c44Addr(c *simkit.Ctx, id byte) common.Address {
	return common.AddressFromVmCode(c44ContractCode(c, id))
}

// fragments of a transaction script; each leaves the caller's stack as it was
// (APPCALL hands the callee a copy of the stack; the callee returns nothing).
func c44Drop(a *c05Asm, n int) {
	for i := 0; i < n; i++ {
		a.op(vm.DROP)
	}
}

func c44FragPut(a *c05Asm, contract common.Address, mode int64, key, value []byte) {
	a.push(value).push(key).pushInt(mode).appcall(contract)
	c44Drop(a, 3)
}

func c44FragKey(a *c05Asm, contract common.Address, mode int64, key []byte) {
	a.push(key).pushInt(mode).appcall(contract)
	c44Drop(a, 2)
}

func c44FragDestroy(a *c05Asm, contract common.Address) {
	a.pushInt(c44ModeDestroy).appcall(contract)
	c44Drop(a, 1)
}

func c44PushDeployArgs(a *c05Asm, code []byte) {
	a.push([]byte("d")).push([]byte("e")).push([]byte("a")).push([]byte("v")).push([]byte("n")).pushInt(1).push(code)
}

func c44FragMigrate(a *c05Asm, contract common.Address, newCode []byte) {
	c44PushDeployArgs(a, newCode)
	a.pushInt(c44ModeMigrate).appcall(contract)
	c44Drop(a, 8)
}

// c44FragMigratePut: mode is c44ModeMigrateThenPut or c44ModeCtxMigratePut.
func c44FragMigratePut(a *c05Asm, contract common.Address, mode int64, newCode, key, value []byte) {
	a.push(value).push(key)
	c44PushDeployArgs(a, newCode)
	a.pushInt(mode).appcall(contract)
	c44Drop(a, 10)
}

// c44FragCreate deploys from inside a script (Ontology.Contract.Create).
func c44FragCreate(a *c05Asm, code []byte) {
	c44PushDeployArgs(a, code)
	a.syscall("Ontology.Contract.Create").op(vm.DROP)
}
