package props

import (
	"bytes"
	"encoding/json"
	"fmt"

	"github.com/ontio/ontology-crypto/keypair"
	"github.com/ontio/ontology/account"
	"github.com/ontio/ontology/common"
	"github.com/ontio/ontology/common/config"
	vconfig "github.com/ontio/ontology/consensus/vbft/config"
	"github.com/ontio/ontology/core/genesis"
	"github.com/ontio/ontology/core/ledger"
	"github.com/ontio/ontology/core/signature"
	"github.com/ontio/ontology/core/store/ledgerstore"
	"github.com/ontio/ontology/core/types"

	"ontosim/simkit"
	"ontosim/world"
)

func init() {
	simkit.Register(&simkit.Prop{
		ID:             "C32",
		Desc:           "synced block headers carry signatures of more than C consensus peers",
		Rule:           "a run = a syncing node on a VBFT-genesis chain (N=4,C=1 or N=7,C=2) that receives 4..14 next-height headers / blocks from a Byzantine sync peer as BYTES (real header codec / p2p Block message codec) through AddHeaders or AddBlock; the header content is a well-formed VBFT block of the right height, the signer section is tape-chosen: C+1 or more distinct members with valid signatures, exactly C valid signers plus members listed without / with invalid / with foreign signatures, one member listed twice, a non-member, signatures in another order than keys, fewer signatures than keys. Oracle: the ledger ACCEPTS (header height or block height advances, header retrievable) only if at least C+1 DISTINCT members of the chain configuration governing that height have a valid signature over the header hash. non-trivial = >= 1 accepted and >= 1 rejected; distinct = distinct event-trace hash",
		Real:           []string{"core/store/ledgerstore AddHeaders / AddBlock / verifyHeader", "core/signature.VerifyMultiSignature", "core/types header codec, p2pserver/message/types Block message codec", "consensus/vbft/config block info", "core/genesis with a VBFT configuration"},
		Stub:           []string{"Byzantine sync peer and honest block source (harness builds VBFT blocks by hand)", "sync driver"},
		Assumptions:    []string{"the simulator dimension is forgery by a faulty sync peer; the chain configuration stays the genesis one (no epoch change)"},
		ExpectedProbes: []string{"accepted", "rejected"},
		Run:            runC32,
	})
}

func runC32(c *simkit.Ctx) {
	c.Bubble(func() {
		t := c.Tape
		n, cf := 4, 1
		if t.Bool() {
			n, cf = 7, 2
		}
		world.Init()
		var peers []*account.Account
		for i := 0; i < n; i++ {
			peers = append(peers, account.NewAccount(""))
		}
		outsider := account.NewAccount("")
		world.VbftConfig(peers, uint32(cf))
		books, err := config.DefConfig.GetBookkeepers()
		c.Must(err, "bookkeepers")
		gen, err := genesis.BuildGenesisBlock(books, config.DefConfig.Genesis)
		c.Must(err, "genesis")
		disk := simkit.NewDisk()
		dir := world.NewDataDir(disk)
		st, err := ledgerstore.NewLedgerStore(dir, 0)
		c.Must(err, "ledger")
		c.Defer(func() { st.Close(); world.ReleaseDataDir(dir) })
		c.Must(st.InitLedgerStoreWithGenesisBlock(gen, books), "init ledger")
		ledger.DefLedger = &ledger.Ledger{LedgerStore: st}

		member := map[string]bool{}
		for _, p := range peers {
			member[vconfig.PubkeyID(p.PublicKey)] = true
		}
		accepted, rejected := 0, 0
		ts := gen.Header.Timestamp
		steps := 4 + t.Choose(11)
		for i := 0; i < steps; i++ {
			h := st.GetCurrentBlockHeight() + 1
			useHeaders := t.Bool() && st.GetCurrentHeaderHeight() == st.GetCurrentBlockHeight()
			ts += uint32(1 + t.Choose(10))
			info := &vconfig.VbftBlockInfo{Proposer: uint32(1 + t.Choose(n)), VrfValue: t.Bytes(8), VrfProof: t.Bytes(8), LastConfigBlockNum: 0}
			payload, _ := json.Marshal(info)
			hdr := &types.Header{Version: 0, PrevBlockHash: st.GetCurrentBlockHash(), TransactionsRoot: common.UINT256_EMPTY,
				BlockRoot: st.GetBlockRootWithNewTxRoots(h, []common.Uint256{common.UINT256_EMPTY}), Timestamp: ts, Height: h,
				ConsensusData: uint64(t.Choose(1 << 20)), ConsensusPayload: payload}
			hash := hdr.Hash()
			sign := func(a *account.Account) []byte {
				sg, err := signature.Sign(a, hash[:])
				c.Must(err, "sign header")
				return sg
			}
			perm := t.Perm(n)
			kind := t.Pick(3, 3, 2, 2, 2, 2, 2, 2)
			name := []string{"c+1-valid", "c-valid-plus-unsigned-members", "c-valid-plus-invalid-signatures", "member-listed-twice", "non-member", "signatures-reordered", "c-valid-plus-foreign-signatures", "all-valid"}[kind]
			switch kind {
			case 0, 7:
				k := cf + 1
				if kind == 7 {
					k = n
				}
				for _, j := range perm[:k] {
					hdr.Bookkeepers = append(hdr.Bookkeepers, peers[j].PublicKey)
					hdr.SigData = append(hdr.SigData, sign(peers[j]))
				}
			case 1: // C valid signers first, further members only listed
				for idx, j := range perm[:cf+1+t.Choose(n-cf)] {
					hdr.Bookkeepers = append(hdr.Bookkeepers, peers[j].PublicKey)
					if idx < cf {
						hdr.SigData = append(hdr.SigData, sign(peers[j]))
					}
				}
			case 2:
				for idx, j := range perm[:cf+1] {
					hdr.Bookkeepers = append(hdr.Bookkeepers, peers[j].PublicKey)
					sg := sign(peers[j])
					if idx >= cf {
						sg[len(sg)-1] ^= 0x40
					}
					hdr.SigData = append(hdr.SigData, sg)
				}
			case 3:
				for k := 0; k < cf+1; k++ {
					hdr.Bookkeepers = append(hdr.Bookkeepers, peers[perm[0]].PublicKey)
					hdr.SigData = append(hdr.SigData, sign(peers[perm[0]]))
				}
			case 4:
				for _, j := range perm[:cf] {
					hdr.Bookkeepers = append(hdr.Bookkeepers, peers[j].PublicKey)
					hdr.SigData = append(hdr.SigData, sign(peers[j]))
				}
				hdr.Bookkeepers = append(hdr.Bookkeepers, outsider.PublicKey)
				hdr.SigData = append(hdr.SigData, sign(outsider))
			case 5:
				for _, j := range perm[:cf+1] {
					hdr.Bookkeepers = append(hdr.Bookkeepers, peers[j].PublicKey)
				}
				for k := cf; k >= 0; k-- {
					hdr.SigData = append(hdr.SigData, sign(peers[perm[k]]))
				}
			case 6:
				for idx, j := range perm[:cf+1] {
					hdr.Bookkeepers = append(hdr.Bookkeepers, peers[j].PublicKey)
					if idx < cf {
						hdr.SigData = append(hdr.SigData, sign(peers[j]))
					} else {
						hdr.SigData = append(hdr.SigData, sign(outsider))
					}
				}
			}
			// independent count of distinct members with a valid signature
			valid := map[string]bool{}
			for _, bk := range hdr.Bookkeepers {
				id := vconfig.PubkeyID(bk)
				if !member[id] {
					continue
				}
				for _, sg := range hdr.SigData {
					if signature.Verify(bk, hash[:], sg) == nil {
						valid[id] = true
						break
					}
				}
			}
			enough := len(valid) >= cf+1
			via := "AddBlock"
			var ok bool
			if useHeaders {
				via = "AddHeaders"
				// headers travel as bytes
				sink := common.NewZeroCopySink(nil)
				hdr.Serialization(sink)
				dec, err := types.HeaderFromRawBytes(sink.Bytes())
				c.Must(err, "decode own header")
				before := st.GetCurrentHeaderHeight()
				err = st.AddHeaders([]*types.Header{dec})
				ok = err == nil && st.GetCurrentHeaderHeight() == before+1
			} else {
				blk := &types.Block{Header: hdr}
				dec, root, _ := blockWire(c, blk, common.UINT256_EMPTY)
				before := st.GetCurrentBlockHeight()
				err := st.AddBlock(dec, nil, root)
				ok = err == nil && st.GetCurrentBlockHeight() == before+1
			}
			c.Logf("height %d N=%d C=%d via=%s kind=%s listed=%d sigs=%d distinct-valid-members=%d -> accepted=%v", h, n, cf, via, name, len(hdr.Bookkeepers), len(hdr.SigData), len(valid), ok)
			if ok {
				accepted++
				c.Probe("accepted")
				if !enough {
					c.FailSoft("header-accepted-with-at-most-C-valid-signers", name, "%s accepted the header of height %d with valid signatures of only %d distinct consensus peers (N=%d, C=%d, need %d); %d bookkeepers listed, %d signatures",
						via, h, len(valid), n, cf, cf+1, len(hdr.Bookkeepers), len(hdr.SigData))
				}
				if useHeaders {
					// complete the block so the chain moves on
					blk := &types.Block{Header: hdr}
					dec, root, _ := blockWire(c, blk, common.UINT256_EMPTY)
					if err := st.AddBlock(dec, nil, root); err != nil {
						c.Logf("block for accepted header refused: %v", err)
						return
					}
				}
			} else {
				rejected++
				c.Probe("rejected")
				if enough && (kind == 0 || kind == 7) {
					c.Probe("honest_header_rejected")
				}
			}
		}
		if accepted >= 1 && rejected >= 1 {
			c.NonTrivial()
		}
	})
}

var _ = bytes.Equal
var _ = fmt.Sprint
var _ = keypair.SerializePublicKey
