package props

import (
	"bytes"
	"encoding/json"
	"fmt"

	"github.com/ontio/ontology-crypto/keypair"
	"github.com/ontio/ontology/account"
	"github.com/ontio/ontology/common"
	"github.com/ontio/ontology/common/config"
	vconfig "github.com/ontio/ontology/consensus/vbft/config"
	"github.com/ontio/ontology/core/genesis"
	"github.com/ontio/ontology/core/ledger"
	"github.com/ontio/ontology/core/signature"
	"github.com/ontio/ontology/core/store/ledgerstore"
	"github.com/ontio/ontology/core/types"

	"ontosim/simkit"
	"ontosim/world"
)

func init() {
	simkit.Register(&simkit.Prop{
		ID:             "C32",
		Desc:           "synced block headers carry signatures of more than C consensus peers",
		Rule:           "a run = a syncing node on a VBFT-genesis chain (N=4,C=1 or N=7,C=2) that receives 4..14 next-height headers / blocks from a Byzantine sync peer as BYTES (real header codec / p2p Block message codec) through AddHeaders or AddBlock; the header content is a well-formed VBFT block of the right height, the signer section is tape-chosen: C+1 or more distinct members with valid signatures, exactly C valid signers plus members listed without / with invalid / with foreign signatures, one member listed twice, a non-member, signatures in another order than keys, fewer signatures than keys. Oracle: the ledger ACCEPTS (header height or block height advances, header retrievable) only if at least C+1 DISTINCT members of the chain configuration in force for that height (the latest one announced by an accepted header below it) have a valid signature over the header hash. non-trivial = >= 1 accepted and >= 1 rejected; distinct = distinct event-trace hash",
		Real:           []string{"core/store/ledgerstore AddHeaders / AddBlock / verifyHeader", "core/signature.VerifyMultiSignature", "core/types header codec, p2pserver/message/types Block message codec", "consensus/vbft/config block info", "core/genesis with a VBFT configuration"},
		Stub:           []string{"Byzantine sync peer and honest block source (harness builds VBFT blocks by hand)", "sync driver"},
		Assumptions:    []string{"the simulator dimension is forgery by a faulty sync peer; the chain configuration stays the genesis one (no epoch change)"},
		ExpectedProbes: []string{"accepted", "rejected", "epoch_changed"},
		Run:            runC32,
	})
}

// c32Cfg is a chain configuration in force: its peers, its C and the height of
// the header that announced it.
type c32Cfg struct {
	height uint32
	peers  []*account.Account
	c      int
}

func (g *c32Cfg) member(id string) bool {
	for _, p := range g.peers {
		if vconfig.PubkeyID(p.PublicKey) == id {
			return true
		}
	}
	return false
}

func c32ChainConfig(peers []*account.Account, cf int, view uint32) *vconfig.ChainConfig {
	cc := &vconfig.ChainConfig{Version: 1, View: view, N: uint32(len(peers)), C: uint32(cf), BlockMsgDelay: 10000, HashMsgDelay: 10000, PeerHandshakeTimeout: 10, MaxBlockChangeView: 100000}
	for i, p := range peers {
		cc.Peers = append(cc.Peers, &vconfig.PeerConfig{Index: uint32(i + 1), ID: vconfig.PubkeyID(p.PublicKey)})
		cc.PosTable = append(cc.PosTable, uint32(i+1), uint32(i+1))
	}
	return cc
}

func runC32(c *simkit.Ctx) {
	c.Bubble(func() {
		t := c.Tape
		n, cf := 4, 1
		if t.Bool() {
			n, cf = 7, 2
		}
		world.Init()
		var peers []*account.Account
		for i := 0; i < n; i++ {
			peers = append(peers, account.NewAccount(""))
		}
		var attackers []*account.Account
		for i := 0; i < 7; i++ {
			attackers = append(attackers, account.NewAccount(""))
		}
		world.VbftConfig(peers, uint32(cf))
		books, err := config.DefConfig.GetBookkeepers()
		c.Must(err, "bookkeepers")
		gen, err := genesis.BuildGenesisBlock(books, config.DefConfig.Genesis)
		c.Must(err, "genesis")
		disk := simkit.NewDisk()
		dir := world.NewDataDir(disk)
		st, err := ledgerstore.NewLedgerStore(dir, 0)
		c.Must(err, "ledger")
		c.Defer(func() { st.Close(); world.ReleaseDataDir(dir) })
		c.Must(st.InitLedgerStoreWithGenesisBlock(gen, books), "init ledger")
		ledger.DefLedger = &ledger.Ledger{LedgerStore: st}

		gov := &c32Cfg{height: 0, peers: peers, c: cf} // governs the next header
		var old []*c32Cfg                              // superseded configurations
		var pending []*types.Header                    // accepted headers whose block is not stored yet
		accepted, rejected := 0, 0
		ts := gen.Header.Timestamp
		tipHash := func() common.Uint256 {
			if len(pending) > 0 {
				return pending[len(pending)-1].Hash()
			}
			return st.GetCurrentBlockHash()
		}
		// mkHeader: a well-formed unsigned VBFT header on top of prev at height h
		mkHeader := func(h uint32, prev common.Uint256, info *vconfig.VbftBlockInfo) *types.Header {
			ts += uint32(1 + t.Choose(10))
			payload, _ := json.Marshal(info)
			cur := st.GetCurrentBlockHeight()
			return &types.Header{Version: 0, PrevBlockHash: prev, TransactionsRoot: common.UINT256_EMPTY,
				BlockRoot: st.GetBlockRootWithNewTxRoots(cur+1, make([]common.Uint256, h-cur)), Timestamp: ts, Height: h,
				ConsensusData: uint64(t.Choose(1 << 20)), ConsensusPayload: payload}
		}
		signWith := func(hdr *types.Header, who []*account.Account) {
			hash := hdr.Hash()
			for _, a := range who {
				sg, err := signature.Sign(a, hash[:])
				c.Must(err, "sign header")
				hdr.Bookkeepers = append(hdr.Bookkeepers, a.PublicKey)
				hdr.SigData = append(hdr.SigData, sg)
			}
		}
		// validMembers: distinct members of cfg with a valid signature on hdr
		validMembers := func(hdr *types.Header, g *c32Cfg) int {
			hash := hdr.Hash()
			valid := map[string]bool{}
			for _, bk := range hdr.Bookkeepers {
				id := vconfig.PubkeyID(bk)
				if !g.member(id) {
					continue
				}
				for _, sg := range hdr.SigData {
					if c16SigValid(bk, hash[:], sg) {
						valid[id] = true
						break
					}
				}
			}
			return len(valid)
		}
		// deliver: the header (or a block with it) reaches the ledger; reports acceptance
		deliver := func(hdr *types.Header, asBlock bool) (bool, string) {
			if asBlock {
				dec, root, _ := blockWire(c, &types.Block{Header: hdr}, common.UINT256_EMPTY)
				before := st.GetCurrentBlockHeight()
				err := st.AddBlock(dec, nil, root)
				return err == nil && st.GetCurrentBlockHeight() == before+1 && st.GetCurrentBlockHash() == hdr.Hash(), "AddBlock"
			}
			sink := common.NewZeroCopySink(nil)
			hdr.Serialization(sink)
			dec, err := types.HeaderFromRawBytes(sink.Bytes())
			c.Must(err, "decode own header")
			before := st.GetCurrentHeaderHeight()
			err = st.AddHeaders([]*types.Header{dec})
			return err == nil && st.GetCurrentHeaderHeight() == before+1, "AddHeaders"
		}
		noteAccepted := func(hdr *types.Header, viaBlock bool, info *vconfig.VbftBlockInfo, newPeers []*account.Account) {
			accepted++
			c.Probe("accepted")
			if !viaBlock {
				pending = append(pending, hdr)
			}
			if info.NewChainConfig != nil && newPeers != nil {
				old = append(old, gov)
				gov = &c32Cfg{height: hdr.Height, peers: newPeers, c: int(info.NewChainConfig.C)}
				c.Probe("epoch_changed")
			}
		}
		steps := 5 + t.Choose(14)
		for i := 0; i < steps; i++ {
			// complete a pending header's block now and then (always when three are pending)
			if len(pending) > 0 && (len(pending) >= 3 || t.Prob(1, 2)) {
				hdr := pending[0]
				ok, _ := deliver(hdr, true)
				c.Logf("block for synced header %d -> stored=%v", hdr.Height, ok)
				if !ok {
					c.Probe("block_for_synced_header_refused")
					return
				}
				pending = pending[1:]
				continue
			}
			g := gov
			gn := len(g.peers)
			h := st.GetCurrentBlockHeight() + uint32(len(pending)) + 1
			asBlock := len(pending) == 0 && t.Bool()
			info := &vconfig.VbftBlockInfo{Proposer: uint32(1 + t.Choose(gn)), VrfValue: t.Bytes(8), VrfProof: t.Bytes(8), LastConfigBlockNum: g.height}
			var newPeers []*account.Account
			if t.Prob(1, 5) {
				// epoch change: some peers retire, new ones join
				keep := t.Perm(gn)[:gn-1-t.Choose(2)]
				for _, k := range keep {
					newPeers = append(newPeers, g.peers[k])
				}
				for len(newPeers) < 4 || (len(newPeers) < 7 && t.Bool()) {
					newPeers = append(newPeers, account.NewAccount(""))
				}
				info.NewChainConfig = c32ChainConfig(newPeers, (len(newPeers)-1)/3, uint32(len(old)+2))
				info.LastConfigBlockNum = h // as the real proposer does for a configuration block
			}
			perm := t.Perm(gn)
			kind := t.Pick(3, 3, 2, 2, 2, 2, 2, 2, 3, 3)
			name := []string{"c+1-valid", "c-valid-plus-unsigned-members", "c-valid-plus-invalid-signatures", "member-listed-twice", "non-member", "signatures-reordered", "c-valid-plus-foreign-signatures", "all-valid", "retired-configuration-signers", "rejected-forged-configuration-then-its-signers"}[kind]
			if kind == 8 && len(old) == 0 {
				kind, name = 0, "c+1-valid"
			}
			var hdr *types.Header
			switch kind {
			case 8:
				// the header names a superseded configuration and is signed by that one's peers
				og := old[t.Choose(len(old))]
				info.LastConfigBlockNum = og.height
				info.NewChainConfig, newPeers = nil, nil
				hdr = mkHeader(h, tipHash(), info)
				var who []*account.Account
				for _, p := range og.peers { // retired peers first
					if !g.member(vconfig.PubkeyID(p.PublicKey)) {
						who = append(who, p)
					}
				}
				for _, p := range og.peers {
					if g.member(vconfig.PubkeyID(p.PublicKey)) && len(who) < og.c+1 {
						who = append(who, p)
					}
				}
				signWith(hdr, who)
			case 9:
				// step 1: a header announcing the attackers as the next configuration, carried by too few
				// valid signatures - for the next height, or as another block for a height whose genuine
				// header is already synced; it must be refused. step 2: a header naming that height as its
				// configuration, signed by the attackers
				x, prev := h, tipHash()
				viaBlock := asBlock
				if len(pending) > 0 && t.Bool() {
					x, prev, viaBlock = pending[0].Height, st.GetCurrentBlockHash(), true
				}
				atk := attackers[:4+t.Choose(4)]
				finfo := &vconfig.VbftBlockInfo{Proposer: 1, VrfValue: t.Bytes(8), VrfProof: t.Bytes(8), LastConfigBlockNum: g.height,
					NewChainConfig: c32ChainConfig(atk, (len(atk)-1)/3, 99)}
				forged := mkHeader(x, prev, finfo)
				var who []*account.Account
				for _, j := range perm[:t.Choose(g.c+1)] {
					who = append(who, g.peers[j])
				}
				signWith(forged, append(who, atk[0]))
				ok1, via1 := deliver(forged, viaBlock)
				c.Logf("height %d forged configuration header via %s with %d valid member signatures -> accepted=%v", x, via1, len(who), ok1)
				if ok1 {
					accepted++
					c.FailSoft("header-accepted-with-at-most-C-valid-signers", "forged-configuration", "%s accepted a header of height %d announcing a new configuration with valid signatures of only %d governing peers (C=%d)", via1, x, len(who), g.c)
					return
				}
				rejected++
				c.Probe("rejected")
				info.LastConfigBlockNum = x
				info.NewChainConfig, newPeers = nil, nil
				hdr = mkHeader(h, tipHash(), info)
				signWith(hdr, atk)
			default:
				hdr = mkHeader(h, tipHash(), info)
				hash := hdr.Hash()
				sign := func(a *account.Account) []byte {
					sg, err := signature.Sign(a, hash[:])
					c.Must(err, "sign header")
					return sg
				}
				cfv := g.c
				switch kind {
				case 0, 7:
					k := cfv + 1
					if kind == 7 {
						k = gn
					}
					for _, j := range perm[:k] {
						hdr.Bookkeepers = append(hdr.Bookkeepers, g.peers[j].PublicKey)
						hdr.SigData = append(hdr.SigData, sign(g.peers[j]))
					}
				case 1: // C valid signers first, further members only listed
					for idx, j := range perm[:cfv+1+t.Choose(gn-cfv)] {
						hdr.Bookkeepers = append(hdr.Bookkeepers, g.peers[j].PublicKey)
						if idx < cfv {
							hdr.SigData = append(hdr.SigData, sign(g.peers[j]))
						}
					}
				case 2:
					for idx, j := range perm[:cfv+1] {
						hdr.Bookkeepers = append(hdr.Bookkeepers, g.peers[j].PublicKey)
						sg := sign(g.peers[j])
						if idx >= cfv {
							sg[len(sg)-1] ^= 0x40
						}
						hdr.SigData = append(hdr.SigData, sg)
					}
				case 3:
					for k := 0; k < cfv+1; k++ {
						hdr.Bookkeepers = append(hdr.Bookkeepers, g.peers[perm[0]].PublicKey)
						hdr.SigData = append(hdr.SigData, sign(g.peers[perm[0]]))
					}
				case 4: // C valid members, then a non-member; sometimes only the non-member signs
					onlyOutsider := t.Bool()
					for _, j := range perm[:cfv] {
						hdr.Bookkeepers = append(hdr.Bookkeepers, g.peers[j].PublicKey)
						if !onlyOutsider {
							hdr.SigData = append(hdr.SigData, sign(g.peers[j]))
						}
					}
					if onlyOutsider { // one more listed member so that C+1 members are listed
						hdr.Bookkeepers = append(hdr.Bookkeepers, g.peers[perm[cfv]].PublicKey)
					}
					hdr.Bookkeepers = append(hdr.Bookkeepers, attackers[0].PublicKey)
					hdr.SigData = append(hdr.SigData, sign(attackers[0]))
				case 5:
					for _, j := range perm[:cfv+1] {
						hdr.Bookkeepers = append(hdr.Bookkeepers, g.peers[j].PublicKey)
					}
					for k := cfv; k >= 0; k-- {
						hdr.SigData = append(hdr.SigData, sign(g.peers[perm[k]]))
					}
				case 6:
					for idx, j := range perm[:cfv+1] {
						hdr.Bookkeepers = append(hdr.Bookkeepers, g.peers[j].PublicKey)
						if idx < cfv {
							hdr.SigData = append(hdr.SigData, sign(g.peers[j]))
						} else {
							hdr.SigData = append(hdr.SigData, sign(attackers[1]))
						}
					}
				}
			}
			valid := validMembers(hdr, g)
			enough := valid >= g.c+1
			ok, via := deliver(hdr, asBlock)
			c.Logf("height %d N=%d C=%d (configuration of height %d) via=%s kind=%s new-config=%v names-config=%d listed=%d sigs=%d distinct-valid-members=%d -> accepted=%v",
				h, gn, g.c, g.height, via, name, info.NewChainConfig != nil, info.LastConfigBlockNum, len(hdr.Bookkeepers), len(hdr.SigData), valid, ok)
			if ok {
				if !enough {
					accepted++
					c.FailSoft("header-accepted-with-at-most-C-valid-signers", name, "%s accepted the header of height %d with valid signatures of only %d distinct peers of the configuration in force (announced at height %d: N=%d, C=%d, need %d); %d bookkeepers listed, %d signatures, the header names the configuration of height %d",
						via, h, valid, g.height, gn, g.c, g.c+1, len(hdr.Bookkeepers), len(hdr.SigData), info.LastConfigBlockNum)
					// a recorded finding: the model follows the ledger's chain and the run goes on
					c.Probe("continued_after_known_finding")
					accepted--
				}
				noteAccepted(hdr, asBlock, info, newPeers)
			} else {
				rejected++
				c.Probe("rejected")
				if enough && (kind == 0 || kind == 7) {
					c.Probe("honest_header_rejected")
				}
			}
		}
		if accepted >= 1 && rejected >= 1 {
			c.NonTrivial()
		}
	})
}

var _ = bytes.Equal
var _ = fmt.Sprint
var _ = keypair.SerializePublicKey
