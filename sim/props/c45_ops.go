package props

// The ONT ID contract's methods as data: how each call's arguments are laid
// out, what authorises it, which other preconditions it has and what it does
// to the model when the node reports success.

import (
	"bytes"
	"fmt"

	"github.com/ontio/ontology-crypto/keypair"
	"github.com/ontio/ontology/common"
)

// what a call does
const (
	oidRegPk = iota
	oidRegAttrs
	oidRegCtrl
	oidAddKey
	oidRmKeyPk
	oidRmKeyIdx
	oidAddAttrs
	oidRmAttr
	oidRevoke
	oidRmCtrl
	oidSetRec
	oidUpdRec
	oidRmRec
	oidAddRecOld
	oidChgRecOld
	oidAddAuthKey
	oidSetAuth
	oidRmAuth
	oidAddSvc
	oidUpdSvc
	oidRmSvc
	oidAddCtx
	oidRmCtx
	oidVerifySig
	oidVerifyCtrl
	oidAddProof
)

// how a call is authorised
const (
	oidByNewKey      = iota // registration: the key being registered witnesses
	oidByIndex              // a live authentication key of the identity, by index
	oidByOpKey              // a live authentication key of the identity, by value (or the old recovery address where allowed)
	oidByCtrl               // the identity's controller
	oidByArgCtrl            // registration with controller: the controller given in the call
	oidByRec                // the identity's recovery group
	oidByOldRec             // the identity's old-style recovery address
	oidByIndexNoAuth        // verifySignature: any live key
	oidByNobody             // never succeeds
)

type oidMethod struct {
	name   string
	what   int
	how    int
	oldRec bool // by-value calls that also accept the old recovery address
}

var oidMethods = []oidMethod{
	{"regIDWithPublicKey", oidRegPk, oidByNewKey, false},
	{"regIDWithAttributes", oidRegAttrs, oidByNewKey, false},
	{"regIDWithController", oidRegCtrl, oidByArgCtrl, false},
	{"addKey", oidAddKey, oidByOpKey, true},
	{"addKeyByIndex", oidAddKey, oidByIndex, false},
	{"addKeyByController", oidAddKey, oidByCtrl, false},
	{"addKeyByRecovery", oidAddKey, oidByRec, false},
	{"removeKey", oidRmKeyPk, oidByOpKey, true},
	{"removeKeyByIndex", oidRmKeyPk, oidByIndex, false},
	{"removeKeyByController", oidRmKeyIdx, oidByCtrl, false},
	{"removeKeyByRecovery", oidRmKeyIdx, oidByRec, false},
	{"addAttributes", oidAddAttrs, oidByOpKey, false},
	{"addAttributesByIndex", oidAddAttrs, oidByIndex, false},
	{"addAttributesByController", oidAddAttrs, oidByCtrl, false},
	{"removeAttribute", oidRmAttr, oidByOpKey, false},
	{"removeAttributeByIndex", oidRmAttr, oidByIndex, false},
	{"removeAttributeByController", oidRmAttr, oidByCtrl, false},
	{"revokeID", oidRevoke, oidByIndex, false},
	{"revokeIDByController", oidRevoke, oidByCtrl, false},
	{"removeController", oidRmCtrl, oidByIndex, false},
	{"setRecovery", oidSetRec, oidByIndex, false},
	{"updateRecovery", oidUpdRec, oidByRec, false},
	{"removeRecovery", oidRmRec, oidByIndex, false},
	{"addRecovery", oidAddRecOld, oidByOpKey, false},
	{"changeRecovery", oidChgRecOld, oidByOldRec, false},
	{"addNewAuthKey", oidAddAuthKey, oidByIndex, false},
	{"addNewAuthKeyByRecovery", oidAddAuthKey, oidByRec, false},
	{"addNewAuthKeyByController", oidAddAuthKey, oidByCtrl, false},
	{"setAuthKey", oidSetAuth, oidByIndex, false},
	{"setAuthKeyByRecovery", oidSetAuth, oidByRec, false},
	{"setAuthKeyByController", oidSetAuth, oidByCtrl, false},
	{"removeAuthKey", oidRmAuth, oidByIndex, false},
	{"removeAuthKeyByRecovery", oidRmAuth, oidByRec, false},
	{"removeAuthKeyByController", oidRmAuth, oidByCtrl, false},
	{"addService", oidAddSvc, oidByIndex, false},
	{"updateService", oidUpdSvc, oidByIndex, false},
	{"removeService", oidRmSvc, oidByIndex, false},
	{"addContext", oidAddCtx, oidByIndex, false},
	{"removeContext", oidRmCtx, oidByIndex, false},
	{"verifySignature", oidVerifySig, oidByIndexNoAuth, false},
	{"verifyController", oidVerifyCtrl, oidByCtrl, false},
	{"addProof", oidAddProof, oidByNobody, false},
}

func oidMethodByName(n string) *oidMethod {
	for i := range oidMethods {
		if oidMethods[i].name == n {
			return &oidMethods[i]
		}
	}
	return nil
}

// oidOp is one generated call.
type oidOp struct {
	m  *oidMethod
	id []byte
	// arguments (which ones are used depends on the method)
	pk    []byte    // public key being registered / added / removed
	kctrl []byte    // "controller" label of an added key
	hasKC bool      // the optional trailing label is present
	kidx  uint64    // index of the key acted upon
	attrs []oidAttr // attributes to add
	path  []byte    // attribute to remove
	group []byte    // controller (registration) or recovery group (set/update)
	addr  []byte    // old-style recovery address (20 bytes unless malformed)
	svc   oidSvc    // service
	ctxs  [][]byte  // contexts
	// authorisation claims
	signIdx uint64      // by index
	opKey   []byte      // by value
	proof   oidProof    // controller proof
	rsig    []oidSigner // recovery signers
	oldRec  []byte      // changeRecovery: claimed old recovery address
	// the accounts that sign the transaction
	signers []*oidAcct
}

func oidAttrFields(as []oidAttr) [][]byte {
	out := [][]byte{oidUint(uint64(len(as)))}
	for _, a := range as {
		out = append(out, a.key, a.typ, a.val)
	}
	return out
}

// authField is the argument carrying the authorisation claim.
func (o *oidOp) authField() []byte {
	switch o.m.how {
	case oidByIndex, oidByIndexNoAuth:
		return oidUint(o.signIdx)
	case oidByOpKey:
		return o.opKey
	case oidByCtrl, oidByArgCtrl:
		return o.proof.field()
	case oidByRec:
		return oidEncodeSigners(o.rsig)
	case oidByOldRec:
		return o.oldRec
	}
	return nil
}

// fields lays the call's arguments out in the order the method reads them.
func (o *oidOp) fields() [][]byte {
	f := [][]byte{o.id}
	switch o.m.what {
	case oidRegPk:
		return append(f, o.pk)
	case oidRegAttrs:
		f = append(f, o.pk)
		return append(f, oidAttrFields(o.attrs)...)
	case oidRegCtrl:
		return append(f, o.group, o.authField())
	case oidAddKey:
		f = append(f, o.pk, o.authField())
		if o.hasKC {
			f = append(f, o.kctrl)
		}
		return f
	case oidRmKeyPk:
		return append(f, o.pk, o.authField())
	case oidRmKeyIdx, oidSetAuth, oidRmAuth:
		return append(f, oidUint(o.kidx), o.authField())
	case oidAddAttrs:
		f = append(f, oidAttrFields(o.attrs)...)
		return append(f, o.authField())
	case oidRmAttr:
		return append(f, o.path, o.authField())
	case oidRevoke, oidRmCtrl, oidRmRec, oidVerifySig, oidVerifyCtrl:
		return append(f, o.authField())
	case oidSetRec, oidUpdRec:
		return append(f, o.group, o.authField())
	case oidAddRecOld, oidChgRecOld:
		return append(f, o.addr, o.authField())
	case oidAddAuthKey:
		return append(f, o.pk, o.kctrl, o.authField())
	case oidAddSvc, oidUpdSvc:
		return append(f, o.svc.id, o.svc.typ, o.svc.ep, o.authField())
	case oidRmSvc:
		return append(f, o.svc.id, o.authField())
	case oidAddCtx, oidRmCtx:
		f = append(f, oidUint(uint64(len(o.ctxs))))
		f = append(f, o.ctxs...)
		return append(f, o.authField())
	case oidAddProof:
		return append(f, []byte("proof"))
	}
	return f
}

func (o *oidOp) String() string {
	s := o.m.name + "(" + oidShort(o.id)
	switch o.m.what {
	case oidRegPk, oidRmKeyPk:
		s += " key=" + oidShort(o.pk)
	case oidRegAttrs:
		s += fmt.Sprintf(" key=%s attrs=%d", oidShort(o.pk), len(o.attrs))
	case oidRegCtrl, oidSetRec, oidUpdRec:
		if g := oidParseGroup(o.group, 0); g != nil && !oidIsID(o.group) {
			s += " group=" + g.String()
		} else {
			s += " ctrl=" + oidShort(o.group)
		}
	case oidAddKey, oidAddAuthKey:
		s += " key=" + oidShort(o.pk)
		if o.hasKC || o.m.what == oidAddAuthKey {
			s += " label=" + oidShort(o.kctrl)
		}
	case oidRmKeyIdx, oidSetAuth, oidRmAuth:
		s += " key#" + oidItoa(o.kidx)
	case oidAddAttrs:
		s += " attrs="
		for i, a := range o.attrs {
			if i > 0 {
				s += ","
			}
			s += string(a.key)
		}
	case oidRmAttr:
		s += " attr=" + string(o.path)
	case oidAddRecOld, oidChgRecOld:
		s += " addr=" + oidShort(o.addr)
	case oidAddSvc, oidUpdSvc, oidRmSvc:
		s += " svc=" + string(o.svc.id)
	case oidAddCtx, oidRmCtx:
		s += fmt.Sprintf(" ctx=%d", len(o.ctxs))
	}
	switch o.m.how {
	case oidByIndex, oidByIndexNoAuth:
		s += " by#" + oidItoa(o.signIdx)
	case oidByOpKey:
		s += " byKey=" + oidShort(o.opKey)
	case oidByCtrl, oidByArgCtrl:
		s += " proof=" + o.proof.String()
	case oidByRec:
		s += " recSigners=" + oidSignersString(o.rsig)
	case oidByOldRec:
		s += " oldRec=" + oidShort(o.oldRec)
	}
	return s + ") signed=" + oidNames(o.signers)
}

func oidKeyOK(pk []byte) bool {
	_, err := keypair.DeserializePublicKey(pk)
	return err == nil
}

// oidVerdict is the model's view of a call.
type oidVerdict struct {
	authorised bool   // witnessed as the property demands for this call
	revoked    bool   // the target identity has been revoked
	pre        string // another reason the call should fail ("" = none)
	mutates    bool   // the call changes the identity when it succeeds
}

// judge evaluates a call against the model (state before the call).
func (m *oidModel) judge(o *oidOp) oidVerdict {
	w := oidWitOf(o.signers)
	x := m.get(o.id)
	v := oidVerdict{revoked: x.state == oidRevoked, mutates: true}
	isReg := o.m.what == oidRegPk || o.m.what == oidRegAttrs || o.m.what == oidRegCtrl
	// ---- authorisation
	switch o.m.how {
	case oidByNewKey:
		v.authorised = w.hasKey(o.pk)
	case oidByArgCtrl:
		v.authorised = m.ctrlAuth(o.group, &o.proof, w)
	case oidByIndex:
		v.authorised = x.state == oidValid && m.keyAuth(o.id, o.signIdx, w)
	case oidByIndexNoAuth:
		v.authorised = x.state == oidValid && m.keyProved(o.id, o.signIdx, w)
	case oidByOpKey:
		v.authorised = x.state == oidValid && (m.ownerAuth(x, o.opKey, w) || (o.m.oldRec && m.oldRecAuth(x, o.opKey, w)))
	case oidByCtrl:
		v.authorised = x.state == oidValid && m.ctrlAuth(x.ctrl, &o.proof, w)
	case oidByRec:
		v.authorised = x.state == oidValid && m.recAuth(x, o.rsig, w)
	case oidByOldRec:
		v.authorised = x.state == oidValid && m.oldRecAuth(x, o.oldRec, w)
	}
	// ---- other preconditions (only used to predict, never to accuse)
	switch {
	case !oidValidIDLen(o.id):
		v.pre = "bad-id"
	case isReg && !oidIsID(o.id):
		v.pre = "bad-id"
	case isReg && x.state != oidNone:
		v.pre = "already-registered"
	case !isReg && x.state != oidValid:
		v.pre = "not-registered"
	}
	if v.pre != "" {
		return v
	}
	switch o.m.what {
	case oidRegPk, oidRegAttrs:
		if !oidKeyOK(o.pk) {
			v.pre = "bad-key"
		}
	case oidAddKey, oidAddAuthKey:
		if !oidKeyOK(o.pk) {
			v.pre = "bad-key"
		} else if x.findKey(o.pk) >= 0 {
			v.pre = "duplicate-key"
		}
		if o.m.name == "addKey" && x.recVer == 1 {
			// nothing: the old-recovery lookup error is ignored by addKey
		}
	case oidRmKeyPk:
		i := x.findKey(o.pk)
		if i < 0 {
			v.pre = "no-such-key"
		} else if x.keys[i].revoked {
			v.pre = "key-already-revoked"
		}
		if o.m.name == "removeKey" && x.recVer == 1 {
			v.pre = "new-style-recovery-set"
		}
	case oidRmKeyIdx:
		i := uint32(o.kidx)
		if i == 0 {
			v.pre = "index-zero"
		} else if int64(i) > int64(len(x.keys)) {
			v.pre = "no-such-key"
		} else if x.keys[i-1].revoked {
			v.pre = "key-already-revoked"
		}
	case oidSetAuth, oidRmAuth:
		i := uint32(o.kidx)
		if i < 1 || int64(i) > int64(len(x.keys)) {
			v.pre = "no-such-key"
		} else if x.keys[i-1].revoked {
			v.pre = "key-already-revoked"
		}
	case oidAddAttrs:
		n := len(x.attrs)
		for i, a := range o.attrs {
			if x.findAttr(a.key) < 0 {
				dup := false
				for _, b := range o.attrs[:i] {
					if bytes.Equal(a.key, b.key) {
						dup = true
					}
				}
				if !dup {
					n++
				}
			}
		}
		if n > 100 {
			v.pre = "too-many-attributes"
		}
	case oidRmAttr:
		if x.findAttr(o.path) < 0 {
			v.pre = "no-such-attribute"
		}
	case oidSetRec, oidUpdRec:
		if o.m.what == oidSetRec && x.recVer == 1 {
			v.pre = "recovery-already-set"
		}
		if o.m.what == oidUpdRec && x.recVer != 1 {
			v.pre = "no-recovery"
		}
		g := oidParseGroup(o.group, 0)
		if g == nil {
			v.pre = "bad-group"
		} else {
			for _, mem := range g.flat() {
				y := m.ids[string(mem)]
				if !oidValidIDLen(mem) || y == nil || y.state != oidValid || len(y.keys) == 0 {
					v.pre = "group-member-not-usable"
				}
			}
		}
	case oidAddRecOld:
		if len(o.addr) != common.ADDR_LEN {
			v.pre = "bad-address"
		} else if x.recVer == 0 && len(x.rec) > 0 {
			v.pre = "recovery-already-set"
		}
	case oidChgRecOld:
		if len(o.addr) != common.ADDR_LEN || len(o.oldRec) != common.ADDR_LEN {
			v.pre = "bad-address"
		} else if x.recVer != 0 {
			v.pre = "no-recovery"
		}
	case oidRmRec, oidRmCtrl, oidRevoke:
	case oidAddSvc:
		if x.findSvc(o.svc.id) >= 0 {
			v.pre = "duplicate-service"
		}
	case oidUpdSvc, oidRmSvc:
		if x.findSvc(o.svc.id) < 0 {
			v.pre = "no-such-service"
		}
	case oidVerifySig, oidVerifyCtrl:
		v.mutates = false
	case oidAddProof:
		v.pre = "unsupported"
		v.mutates = false
	}
	return v
}

// apply performs the effect of a successful call on the model.
func (m *oidModel) apply(o *oidOp, ts uint32) {
	x := m.get(o.id)
	touch := func() { x.updated = ts }
	label := func() []byte {
		if o.hasKC {
			return o.kctrl
		}
		return o.id
	}
	switch o.m.what {
	case oidRegPk:
		*x = oidIdent{state: oidValid, recVer: -1, created: ts}
		x.keys = []*oidKey{{pub: o.pk, ctrl: o.id, pkList: true, auth: true}}
	case oidRegAttrs:
		*x = oidIdent{state: oidValid, recVer: -1, created: ts}
		x.keys = []*oidKey{{pub: o.pk, ctrl: o.id, pkList: true, auth: false}}
		for _, a := range o.attrs {
			x.putAttr(a)
		}
	case oidRegCtrl:
		*x = oidIdent{state: oidValid, recVer: -1, created: ts, ctrl: o.group}
	case oidAddKey:
		x.keys = append(x.keys, &oidKey{pub: o.pk, ctrl: label(), pkList: true, auth: false})
		touch()
	case oidAddAuthKey:
		x.keys = append(x.keys, &oidKey{pub: o.pk, ctrl: o.kctrl, pkList: false, auth: true})
		touch()
	case oidRmKeyPk:
		if i := x.findKey(o.pk); i >= 0 {
			x.keys[i].revoked = true
		}
		touch()
	case oidRmKeyIdx:
		if i := uint32(o.kidx); i >= 1 && int64(i) <= int64(len(x.keys)) {
			x.keys[i-1].revoked = true
		}
		touch()
	case oidSetAuth, oidRmAuth:
		if i := uint32(o.kidx); i >= 1 && int64(i) <= int64(len(x.keys)) {
			x.keys[i-1].auth = o.m.what == oidSetAuth
		}
		touch()
	case oidAddAttrs:
		for _, a := range o.attrs {
			x.putAttr(a)
		}
		touch()
	case oidRmAttr:
		if i := x.findAttr(o.path); i >= 0 {
			x.attrs = append(x.attrs[:i:i], x.attrs[i+1:]...)
		}
		touch()
	case oidRevoke:
		x.revoke()
	case oidRmCtrl:
		x.ctrl = nil
		touch()
	case oidSetRec, oidUpdRec:
		x.recVer, x.rec = 1, o.group
		touch()
	case oidRmRec:
		x.recVer, x.rec = -1, nil
		touch()
	case oidAddRecOld, oidChgRecOld:
		x.recVer, x.rec = 0, o.addr // the old calls leave the update time alone
	case oidAddSvc:
		x.svcs = append(x.svcs, o.svc)
		touch()
	case oidUpdSvc:
		if i := x.findSvc(o.svc.id); i >= 0 {
			x.svcs[i] = o.svc
		}
		touch()
	case oidRmSvc:
		if i := x.findSvc(o.svc.id); i >= 0 {
			x.svcs = append(x.svcs[:i:i], x.svcs[i+1:]...)
		}
		touch()
	case oidAddCtx:
		for _, c := range o.ctxs {
			if bytes.Equal(c, []byte("https://www.w3.org/ns/did/v1")) || bytes.Equal(c, []byte("https://ontid.ont.io/did/v1")) {
				continue
			}
			if !x.hasCtx(c) {
				x.ctxs = append(x.ctxs, c)
			}
		}
		touch()
	case oidRmCtx:
		var keep [][]byte
		for _, c := range x.ctxs {
			drop := false
			for _, d := range o.ctxs {
				if bytes.Equal(c, d) {
					drop = true
				}
			}
			if !drop {
				keep = append(keep, c)
			}
		}
		x.ctxs = keep
		touch()
	}
}
