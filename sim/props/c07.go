package props

import (
	"fmt"
	"math/big"
	"sort"
	"strings"

	ethcomm "github.com/ethereum/go-ethereum/common"
	ethtypes "github.com/ethereum/go-ethereum/core/types"
	"github.com/ontio/ontology/common"
	"github.com/ontio/ontology/core/types"
	nutils "github.com/ontio/ontology/smartcontract/service/native/utils"

	"ontosim/simkit"
	"ontosim/world"
)

// C07: EVM transactions conserve ONG and advance the sender nonce by one.
func init() {
	simkit.Register(&simkit.Prop{
		ID:   "C07",
		Desc: "EIP-155 transactions move ONG only between sender, value recipients and the fee receiver (total over all ONG balance keys unchanged), cost the sender at most gasLimit*gasPrice+value, bump the sender nonce by exactly one on success and on failure; a block with a wrong-nonce transaction is refused and leaves every store unchanged",
		Rule: "a run = one solo ledger (EVM chain id 12345); 4 secp256k1 senders funded by native ONG transferV2 from the bookkeeper (amounts 0 / a few wei / fee scale / large), 2 universal contracts created in a setup block; then 2..10 blocks of 1..3 EIP-155 transactions (value transfers to senders, key-less addresses, contracts, the governance and ONG contract addresses; creations with 7 constructor variants incl. revert / invalid / endless loop / selfdestruct / empty code; calls into the universal contract: nested CALL with value, SELFDESTRUCT to a chosen beneficiary incl. the contract itself, SSTORE set/clear, SSTORE+REVERT, INVALID, endless loop, LOG0..LOG4, CALL+REVERT, CALL+SELFDESTRUCT), gas price 0/1/500/2500 GWei, gas limit below/at/just above the intrinsic gas up to generous, values 0 / small / balance-fee-1..+1 / balance+1 / huge, optionally a native funding transfer in the same block, clean restarts; about one block in six contains a transaction with a nonce below or above the account nonce or signed for another chain id. After every block the state store is dumped and all ONG balance keys are summed. non-trivial = at least one transaction succeeded in the EVM, one failed in the EVM, and one block with a wrong nonce was refused; distinct = distinct event-trace hash",
		Real: []string{"core/store/ledgerstore (ExecuteBlock, executeBlock, handleTransaction, HandleEIP155Transaction, SubmitBlock, recovery)", "smartcontract/service/evm (ApplyTransaction, StateTransition: preCheck, buyGas, refundGas, fee receiver)", "vm/evm interpreter (Call, Create, SELFDESTRUCT, CALL, SSTORE refunds, LOGn)", "smartcontract/storage (StateDB, CacheDB, snapshots)", "native ong (OngBalanceHandle, transferV2)", "core/types (TransactionFromEIP155, EIP155 payload codec)", "goleveldb on SimDisk"},
		Stub: []string{"solo block producer (harness builds/signs blocks like consensus/solo)", "no transaction pool: the ledger executes whatever the block contains", "wasm JIT (stub archive)"},
		Assumptions: []string{
			"'recipients of value transfers' of a transaction = its `to` / created address, every CALL target and every SELFDESTRUCT beneficiary in the calldata the harness generated (nested calldata included)",
			"'rejects' is judged by effect: ExecuteBlock must refuse the block and the logical content of all four stores, height and block hash stay the same; the transactions are then dropped",
			"a transaction signed for another chain id is treated like a wrong-nonce one (separate oracle id)",
			"the mainnet-only branches (buyGas before height 15380000, the one-off refund at height 13920628) are out of reach: chain id 12345, heights < 100",
		},
		ExpectedProbes: []string{"evm_ok", "evm_failed", "create_ok", "create_failed", "inner_call", "selfdestruct", "selfdestruct_to_self", "sstore", "sstore_clear", "revert", "invalid", "loop", "log", "gas_below_intrinsic", "gas_at_intrinsic", "value_exceeds_balance", "balance_below_gas_cost", "balance_exact", "nonce_low_refused", "nonce_high_refused", "chainid_refused", "chainid_refused_by_codec", "restart", "fund_in_evm_block", "multi_tx_same_sender", "failed_tx_nonce_bumped", "ok_tx_nonce_bumped", "fee_paid"},
		Run:            runC07,
	})
}

type c07Tx struct {
	desc     string
	k        *c07Key
	etx      *ethtypes.Transaction
	tx       *types.Transaction
	gasLimit uint64
	gasPrice *big.Int
	value    *big.Int
	movers   map[common.Address]bool
	bad      string // "", "nonce-low", "nonce-high", "chain-id"
	burnSelf bool   // may SELFDESTRUCT with the executing contract as beneficiary
	creates  *ethcomm.Address
	ctor     int
	probes   []string
}

type c07Run struct {
	c         *simkit.Ctx
	ch        *world.Chain
	keys      []*c07Key
	others    []ethcomm.Address // addresses without key or code
	contracts []ethcomm.Address // universal contracts created so far (may have self-destructed since)
	names     map[common.Address]string
	nonce     map[ethcomm.Address]uint64 // model: number of applied transactions per sender
	ontNonce  uint32
	ts        uint32
	view      *tokView
	total     *big.Int
	tag       byte

	ok, failed, refused bool
}

func (r *c07Run) name(a common.Address) string {
	if n, ok := r.names[a]; ok {
		return n
	}
	return tokShort(a)
}

func (r *c07Run) bal(a common.Address) *big.Int { return tokGet(r.view.bal[tokONG], a) }

var c07Prices = []int64{0, 1, 500, 2500}

func runC07(c *simkit.Ctx) {
	c.Bubble(func() {
		t := c.Tape
		tokCheckLayout(c)
		r := &c07Run{c: c, names: map[common.Address]string{}, nonce: map[ethcomm.Address]uint64{}}
		r.ch = world.NewSoloChain(c, "evm")
		c.Must(r.ch.Open(), "open")
		world.Quiesce()
		for i := 0; i < 4; i++ {
			k := c07NewKey(c, "c07", i)
			r.keys = append(r.keys, k)
			r.names[k.addr] = k.name
		}
		for i := 0; i < 2; i++ {
			var a ethcomm.Address
			copy(a[:], ethcomm.LeftPadBytes([]byte{0xee, byte(i + 1), 0x77}, 20))
			a[0] = 0xd0 + byte(i)
			r.others = append(r.others, a)
			r.names[common.Address(a)] = fmt.Sprintf("R%d", i)
		}
		r.names[r.ch.Book.Address] = "BK"
		r.names[nutils.GovernanceContractAddress] = "GOV"
		r.names[nutils.OngContractAddress] = "ONGC"
		r.names[nutils.OntContractAddress] = "ONTC"
		r.ts = r.ch.Now
		r.ontNonce = 1
		_, r.view = tokDumpView(c, r.ch)
		r.total = tokSum(r.view.bal[tokONG])
		c.Logf("genesis: total ONG %s in %d balance keys", r.total, len(r.view.bal[tokONG]))

		// ---- setup: fund the senders, create two universal contracts (gas price 0)
		var setup []*types.Transaction
		for i, k := range r.keys {
			amt := r.fundAmount(i == 0)
			if amt.Sign() > 0 {
				setup = append(setup, c07Fund(c, r.ch, k.addr, amt, r.ontNonce))
				r.ontNonce++
				c.Logf("fund %s with %s wei", k.name, amt)
			}
		}
		r.block(nil, setup, false)
		var creates []*c07Tx
		for i := 0; i < 2; i++ {
			x := r.newTx(r.keys[0])
			x.value, x.gasPrice, x.gasLimit = new(big.Int), new(big.Int), 400000
			r.finishCreate(x, uint64(i), c07CtorOK, ethcomm.Address{})
			creates = append(creates, x)
		}
		r.block(creates, nil, false)
		if len(r.contracts) != 2 {
			c.Harness("setup: %d universal contracts created, want 2", len(r.contracts))
		}

		nBlocks := t.Range(2, 2+t.Pick(3, 5, 4)*4)
		for b := 0; b < nBlocks; b++ {
			r.genBlock()
			if t.Prob(1, 8) {
				r.restart()
			}
		}
		r.restart()
		if r.ok && r.failed && r.refused {
			c.NonTrivial()
		}
	})
}

// fundAmount: 0 is nothing; otherwise a few wei, around the fee scale, or large.
func (r *c07Run) fundAmount(generous bool) *big.Int {
	t := r.c.Tape
	if generous {
		return new(big.Int).Mul(big.NewInt(int64(50+t.Choose(50))), big.NewInt(1e18))
	}
	switch t.Pick(1, 2, 4, 4) {
	case 0:
		return new(big.Int)
	case 1:
		return big.NewInt(int64(1 + t.Choose(1000000)))
	case 2:
		// between 1e13 and ~1e18 wei: the scale of gasLimit*gasPrice
		v := big.NewInt(int64(1 + t.Choose(100000)))
		return v.Mul(v, big.NewInt(1e13))
	default:
		return new(big.Int).Mul(big.NewInt(int64(1+t.Choose(100))), big.NewInt(1e18))
	}
}

func c07Intrinsic(data []byte, create bool) uint64 {
	g := uint64(21000)
	if create {
		g = 53000
	}
	for _, b := range data {
		if b == 0 {
			g += 4
		} else {
			g += 16
		}
	}
	return g
}

// pickTarget: an address that can receive ONG.
func (r *c07Run) pickTarget(self *ethcomm.Address) ethcomm.Address {
	t := r.c.Tape
	switch t.Pick(3, 3, 3, 1, 1, 1, 2) {
	case 0:
		return r.keys[t.Choose(len(r.keys))].eth
	case 1:
		return r.others[t.Choose(len(r.others))]
	case 2:
		if len(r.contracts) > 0 {
			return r.contracts[t.Choose(len(r.contracts))]
		}
		return r.others[0]
	case 3:
		return ethcomm.Address(nutils.GovernanceContractAddress)
	case 4:
		return ethcomm.Address(r.ch.Book.Address)
	case 5:
		return ethcomm.Address(nutils.OngContractAddress)
	default:
		if self != nil {
			return *self
		}
		return r.keys[0].eth
	}
}

func (r *c07Run) isContract(a ethcomm.Address) bool {
	for _, x := range r.contracts {
		if x == a {
			return true
		}
	}
	return false
}

// smallValue: 0, a few wei, or up to the given balance.
func (r *c07Run) innerValue(holder ethcomm.Address) *big.Int {
	t := r.c.Tape
	switch t.Pick(2, 3, 2, 1) {
	case 0:
		return new(big.Int)
	case 1:
		return big.NewInt(int64(1 + t.Choose(1000)))
	case 2:
		b := r.bal(common.Address(holder))
		v := new(big.Int).Add(b, big.NewInt(int64(t.Choose(3))-1))
		if v.Sign() < 0 {
			v.SetInt64(0)
		}
		return v
	default:
		return new(big.Int).Lsh(big.NewInt(1), uint(60+t.Choose(120)))
	}
}

// genCall generates calldata for the universal contract `self`.
func (r *c07Run) genCall(x *c07Tx, self ethcomm.Address, depth int) ([]byte, string) {
	t := r.c.Tape
	sel := t.Pick(2, 6, 4, 2, 1, 1, 4, 1, 1, 1, 2, 0, 0, 1, 2)
	switch sel {
	case c07SelCall, c07SelCallRevert, c07SelCallDestruct:
		to := r.pickTarget(&self)
		val := r.innerValue(self)
		var inner []byte
		innerDesc := ""
		if r.isContract(to) && depth < 2 && t.Bool() {
			inner, innerDesc = r.genCall(x, to, depth+1)
			innerDesc = " [" + innerDesc + "]"
		}
		x.movers[common.Address(to)] = true
		x.probes = append(x.probes, "inner_call")
		if sel == c07SelCallDestruct {
			x.probes = append(x.probes, "selfdestruct")
			if to == self {
				x.burnSelf = true
			}
		}
		return c07Calldata(byte(sel), inner, to[:], c07Word(val)), fmt.Sprintf("%s(%s,%s)%s", c07SelNames[sel], r.name(common.Address(to)), val, innerDesc)
	case c07SelDestruct:
		to := r.pickTarget(&self)
		x.movers[common.Address(to)] = true
		x.probes = append(x.probes, "selfdestruct")
		if to == self {
			x.burnSelf = true
		}
		return c07Calldata(byte(sel), nil, to[:]), fmt.Sprintf("selfdestruct(%s)", r.name(common.Address(to)))
	case c07SelStore, c07SelStoreRevert:
		key := byte(t.Choose(3))
		val := byte(t.Pick(2, 2, 1) * 7 % 10) // 0, 7, 4
		if sel == c07SelStore {
			x.probes = append(x.probes, "sstore")
			if val == 0 {
				x.probes = append(x.probes, "sstore_clear")
			}
		} else {
			x.probes = append(x.probes, "revert")
		}
		return c07Calldata(byte(sel), nil, []byte{key}, []byte{val}), fmt.Sprintf("%s(%d,%d)", c07SelNames[sel], key, val)
	case c07SelInvalid:
		x.probes = append(x.probes, "invalid")
	case c07SelLoop:
		x.probes = append(x.probes, "loop")
	case c07SelLog0, c07SelLog1, c07SelLog2, c07SelLogs:
		x.probes = append(x.probes, "log")
		return c07Calldata(byte(sel), nil, []byte{byte(1 + t.Choose(9))}, []byte{0xb0}, []byte{0xc0}), c07SelNames[sel]
	}
	return []byte{byte(sel)}, c07SelNames[sel]
}

// txShape picks gas price, gas limit and value for a transaction of sender k.
func (r *c07Run) txShape(x *c07Tx, data []byte, create bool) {
	t := r.c.Tape
	x.gasPrice = new(big.Int).Mul(big.NewInt(c07Prices[t.Pick(2, 2, 3, 3)]), big.NewInt(c07GWei))
	intr := c07Intrinsic(data, create)
	switch t.Pick(6, 1, 1, 1, 3, 2) {
	case 0:
		x.gasLimit = 400000
	case 1:
		x.gasLimit = intr - 1 - uint64(t.Choose(2000))
		x.probes = append(x.probes, "gas_below_intrinsic")
	case 2:
		x.gasLimit = intr
		x.probes = append(x.probes, "gas_at_intrinsic")
	case 3:
		x.gasLimit = intr + uint64(1+t.Choose(3000))
	case 4:
		x.gasLimit = 60000 + uint64(t.Choose(40000))
	default:
		x.gasLimit = 150000
	}
	cost := new(big.Int).Mul(new(big.Int).SetUint64(x.gasLimit), x.gasPrice)
	bal := r.bal(x.k.addr)
	switch t.Pick(3, 4, 3, 1, 1) {
	case 0:
		x.value = new(big.Int)
	case 1:
		x.value = big.NewInt(int64(1 + t.Choose(100000)))
	case 2:
		// around what is left after paying for the gas
		if bal.Cmp(cost) >= 0 {
			d := int64(t.Choose(3)) - 1
			x.value = new(big.Int).Sub(bal, cost)
			x.value.Add(x.value, big.NewInt(d))
			if x.value.Sign() < 0 {
				x.value.SetInt64(0)
			}
			if d == 0 {
				x.probes = append(x.probes, "balance_exact")
			}
		} else {
			x.value = big.NewInt(int64(t.Choose(2)))
		}
	case 3:
		x.value = new(big.Int).Add(bal, big.NewInt(1))
	default:
		x.value = new(big.Int).Lsh(big.NewInt(1), uint(64+t.Choose(150)))
	}
	if bal.Cmp(cost) < 0 {
		x.probes = append(x.probes, "balance_below_gas_cost")
	}
	if x.value.Sign() > 0 && new(big.Int).Add(cost, x.value).Cmp(bal) > 0 {
		x.probes = append(x.probes, "value_exceeds_balance")
	}
}

func (r *c07Run) newTx(k *c07Key) *c07Tx {
	return &c07Tx{k: k, movers: map[common.Address]bool{}, ctor: -1}
}

// seal signs with the chain id the descriptor asks for and wraps the result.
func (r *c07Run) seal(x *c07Tx, to *ethcomm.Address, data []byte, nonce uint64) {
	chain := c07ChainID()
	if x.bad == "chain-id" {
		chain = big.NewInt(chain.Int64() + 1 + int64(r.c.Tape.Choose(3)))
	}
	x.etx = c07EthTx(r.c, x.k, chain, nonce, to, x.value, x.gasLimit, x.gasPrice, data)
	tx, err := c07Wrap(x.etx)
	if err != nil {
		r.c.Harness("wrap %s: %v", x.desc, err)
	}
	if tx.Payer != x.k.addr || tx.Hash() != common.Uint256(x.etx.Hash()) {
		r.c.Harness("wrapped transaction has payer %x hash %x", tx.Payer, tx.Hash())
	}
	x.tx = tx
	x.desc = fmt.Sprintf("%s n=%d gp=%sG gl=%d v=%s %s", x.k.name, nonce, new(big.Int).Div(x.gasPrice, big.NewInt(c07GWei)), x.gasLimit, x.value, x.desc)
	if x.bad != "" {
		x.desc += " BAD:" + x.bad
	}
}

func (r *c07Run) finishCreate(x *c07Tx, nonce uint64, ctor int, ben ethcomm.Address) {
	r.tag++
	x.ctor = ctor
	created := c07CreateAddr(x.k.eth, nonce)
	x.creates = &created
	x.movers[common.Address(created)] = true
	x.desc = "create/" + c07CtorNames[ctor]
	if ctor == c07CtorDestruct || ctor == c07CtorLogOK {
		x.desc += "(" + r.name(common.Address(ben)) + ")"
	}
	if ctor == c07CtorDestruct {
		x.movers[common.Address(ben)] = true
		x.probes = append(x.probes, "selfdestruct")
		if ben == created {
			x.burnSelf = true
		}
	}
	r.seal(x, nil, c07InitCode(ctor, r.tag, ben), nonce)
}

// genTx generates one transaction of sender k with the given nonce.
func (r *c07Run) genTx(k *c07Key, nonce uint64, bad string) *c07Tx {
	t := r.c.Tape
	x := r.newTx(k)
	x.bad = bad
	switch t.Pick(4, 6, 3) {
	case 0: // plain value transfer
		to := r.pickTarget(nil)
		var data []byte
		if t.Prob(1, 4) {
			data = t.Bytes(1 + t.Choose(8))
		}
		x.movers[common.Address(to)] = true
		x.desc = "transfer->" + r.name(common.Address(to))
		if r.isContract(to) {
			data = nil // empty calldata: selector 0, the contract just accepts
		}
		r.txShape(x, data, false)
		r.seal(x, &to, data, nonce)
	case 1: // call into a universal contract
		to := r.contracts[t.Choose(len(r.contracts))]
		x.movers[common.Address(to)] = true
		data, d := r.genCall(x, to, 0)
		x.desc = "call " + r.name(common.Address(to)) + "." + d
		r.txShape(x, data, false)
		r.seal(x, &to, data, nonce)
	default: // creation
		ctor := t.Pick(4, 1, 1, 1, 2, 1, 1)
		created := c07CreateAddr(k.eth, nonce)
		ben := r.pickTarget(&created)
		r.tag++
		r.txShape(x, c07InitCode(ctor, r.tag, ben), true)
		r.tag--
		r.finishCreate(x, nonce, ctor, ben)
	}
	return x
}

// genBlock generates and applies one block.
func (r *c07Run) genBlock() {
	t := r.c.Tape
	n := 1 + t.Pick(5, 3, 2)
	badIdx := -1
	if t.Prob(1, 6) {
		badIdx = t.Choose(n)
	}
	pending := map[ethcomm.Address]uint64{}
	for _, k := range r.keys {
		pending[k.eth] = r.nonce[k.eth]
	}
	var txs []*c07Tx
	for i := 0; i < n; i++ {
		k := r.keys[t.Pick(4, 3, 2, 2)]
		nonce := pending[k.eth]
		bad := ""
		if i == badIdx {
			bad = []string{"nonce-low", "nonce-high", "chain-id"}[t.Pick(2, 2, 1)]
			if bad == "nonce-low" && nonce == 0 {
				bad = "nonce-high"
			}
			switch bad {
			case "nonce-low":
				d := uint64(1)
				if nonce > 1 && t.Bool() {
					d = nonce // replay of the very first nonce
				}
				nonce -= d
			case "nonce-high":
				nonce += uint64(1 + t.Choose(3))
			}
		}
		x := r.genTx(k, nonce, bad)
		if bad == "chain-id" {
			// a node started through main.go also checks the chain id when it decodes
			// a transaction (types.CheckChainID); the harness default is the SDK's (off)
			types.CheckChainID = true
			_, werr := c07Wrap(x.etx)
			types.CheckChainID = false
			if werr == nil {
				r.c.Fail("wrong-chainid-accepted", "codec", "TransactionFromEIP155 with CheckChainID accepts a transaction signed for chain id %s", x.etx.ChainId())
			}
			r.c.Probe("chainid_refused_by_codec")
		}
		if bad == "" {
			pending[k.eth]++
		}
		txs = append(txs, x)
	}
	var native []*types.Transaction
	nativeFirst := false
	if t.Prob(1, 4) {
		k := r.keys[t.Choose(len(r.keys))]
		amt := r.fundAmount(false)
		if amt.Sign() > 0 {
			native = append(native, c07Fund(r.c, r.ch, k.addr, amt, r.ontNonce))
			r.ontNonce++
			nativeFirst = t.Bool()
			r.c.Logf("native: fund %s with %s wei (first=%v)", k.name, amt, nativeFirst)
			r.c.Probe("fund_in_evm_block")
		}
	}
	r.block(txs, native, nativeFirst)
}

// block applies one block and evaluates the oracles.
func (r *c07Run) block(evm []*c07Tx, native []*types.Transaction, nativeFirst bool) {
	c := r.c
	var txs []*types.Transaction
	if nativeFirst {
		txs = append(txs, native...)
	}
	off := len(txs)
	bad := ""
	burn := false
	for _, x := range evm {
		txs = append(txs, x.tx)
		if x.bad != "" {
			bad = x.bad
		}
		burn = burn || x.burnSelf
		c.Logf("tx %s", x.desc)
	}
	if !nativeFirst {
		txs = append(txs, native...)
	}
	var before *world.Snapshot
	if bad != "" {
		var err error
		before, err = r.ch.Snap(true)
		c.Must(err, "snapshot")
	}
	r.ts += uint32(1 + c.Tape.Choose(30))
	height := r.ch.Height() + 1
	blk := r.ch.MakeBlock(txs, r.ts, uint64(height))
	res, err := r.ch.Commit(blk)
	world.Quiesce()

	if bad != "" {
		oracle := "wrong-nonce-accepted"
		if bad == "chain-id" {
			oracle = "wrong-chainid-accepted"
		}
		if err == nil {
			c.Fail(oracle, bad, "block %d containing a %s transaction was executed and committed", height, bad)
		}
		after, serr := r.ch.Snap(true)
		c.Must(serr, "snapshot")
		if after.Height != before.Height || after.Hash != before.Hash {
			c.Fail("refused-block-changes-state", bad, "block %d refused (%v) but the ledger moved from height %d to %d", height, err, before.Height, after.Height)
		}
		for _, name := range world.Stores {
			if after.Digest[name] != before.Digest[name] {
				c.Fail("refused-block-changes-state", bad+"/"+name, "block %d refused (%v) but store %q changed: %v", height, err, name, simkit.DiffKV(before.KV[name], after.KV[name], 4))
			}
		}
		for _, k := range r.keys {
			if n := c07Nonce(c, r.ch, k.eth); n != r.nonce[k.eth] {
				c.Fail("refused-block-changes-state", bad+"/nonce", "block %d refused but %s's nonce is %d, was %d", height, k.name, n, r.nonce[k.eth])
			}
		}
		c.Logf("block %d refused (%s)", height, bad)
		c.Probe(map[string]string{"nonce-low": "nonce_low_refused", "nonce-high": "nonce_high_refused", "chain-id": "chainid_refused"}[bad])
		if bad != "chain-id" {
			r.refused = true
		}
		return
	}
	if err != nil {
		c.Fail("valid-block-refused", "evm-block", "block %d (every transaction has the account nonce and the chain id) is refused: %v", height, err)
	}
	if len(res.Notify) != len(txs) {
		c.Fail("valid-block-refused", "notify-count", "block %d: %d transactions, %d execution results", height, len(txs), len(res.Notify))
	}

	_, post := tokDumpView(c, r.ch)
	pre := r.view
	r.view = post
	sig := "evm-block"

	// per-transaction outcome
	senders := map[common.Address]bool{}
	allowed := map[common.Address]bool{nutils.GovernanceContractAddress: true}
	bound := map[common.Address]*big.Int{}
	count := map[ethcomm.Address]uint64{}
	anyFailed := map[ethcomm.Address]bool{}
	for i, x := range evm {
		nt := res.Notify[off+i]
		okTx := nt.State == 1
		c.Logf("  -> %s state=%d gasUsed=%d", x.k.name, nt.State, nt.GasStepUsed)
		if nt.GasStepUsed > x.gasLimit {
			c.Fail("gas-used-exceeds-limit", sig, "block %d tx %s: gas used %d > gas limit %d", height, x.desc, nt.GasStepUsed, x.gasLimit)
		}
		for _, p := range x.probes {
			c.Probe(p)
		}
		if x.burnSelf {
			c.Probe("selfdestruct_to_self")
		}
		if okTx {
			r.ok = true
			c.Probe("evm_ok")
		} else {
			r.failed = true
			anyFailed[x.k.eth] = true
			c.Probe("evm_failed")
		}
		if x.ctor >= 0 {
			if okTx {
				c.Probe("create_ok")
				if x.ctor == c07CtorOK || x.ctor == c07CtorLogOK {
					r.contracts = append(r.contracts, *x.creates)
					r.names[common.Address(*x.creates)] = fmt.Sprintf("U%d", len(r.contracts)-1)
				}
			} else {
				c.Probe("create_failed")
			}
		}
		senders[x.k.addr] = true
		allowed[x.k.addr] = true
		for a := range x.movers {
			allowed[a] = true
		}
		b := new(big.Int).Mul(new(big.Int).SetUint64(x.gasLimit), x.gasPrice)
		b.Add(b, x.value)
		if bound[x.k.addr] == nil {
			bound[x.k.addr] = new(big.Int)
		}
		bound[x.k.addr].Add(bound[x.k.addr], b)
		count[x.k.eth]++
		if count[x.k.eth] == 2 {
			c.Probe("multi_tx_same_sender")
		}
	}
	if len(native) > 0 {
		// native funding transfers: bookkeeper -> a sender
		allowed[r.ch.Book.Address] = true
		for _, k := range r.keys {
			allowed[k.addr] = true
		}
	}

	// 1. conservation over every ONG balance key of the state store
	sum := tokSum(post.bal[tokONG])
	if sum.Cmp(r.total) != 0 {
		d := new(big.Int).Sub(sum, r.total)
		r.total = sum
		if burn && d.Sign() < 0 {
			// the history contains a SELFDESTRUCT whose beneficiary is the
			// executing contract and ONG disappeared: its own class
			sig = "selfdestruct-to-self"
		}
		c.FailSoft("ong-total-changed", sig, "block %d: sum of all ONG balances changed by %s wei (%s)", height, d, r.blockDesc(evm))
	}
	// 2. only sender, value recipients, fee receiver move
	for _, a := range tokSortedAddrs(pre.bal[tokONG], post.bal[tokONG]) {
		was, is := tokGet(pre.bal[tokONG], a), tokGet(post.bal[tokONG], a)
		if was.Cmp(is) == 0 {
			continue
		}
		if !allowed[a] {
			c.Fail("bystander-balance-changed", sig, "block %d: balance of %s changed %s -> %s, it is neither sender, value recipient nor fee receiver (%s)", height, r.name(a), was, is, r.blockDesc(evm))
		}
		if a == nutils.GovernanceContractAddress && is.Cmp(was) > 0 {
			c.Probe("fee_paid")
		}
	}
	// 3. the sender pays at most gasLimit*gasPrice + value
	for _, a := range c07SortedAddrs(senders) {
		paid := new(big.Int).Sub(tokGet(pre.bal[tokONG], a), tokGet(post.bal[tokONG], a))
		if paid.Cmp(bound[a]) > 0 {
			c.Fail("sender-overcharged", sig, "block %d: %s paid %s wei, gasLimit*gasPrice+value of its transactions is %s (%s)", height, r.name(a), paid, bound[a], r.blockDesc(evm))
		}
	}
	// 4. nonce +1 per applied transaction, whatever the EVM outcome
	for _, k := range r.keys {
		want := r.nonce[k.eth] + count[k.eth]
		got := c07Nonce(c, r.ch, k.eth)
		if got != want {
			how := "all-succeeded"
			if anyFailed[k.eth] {
				how = "some-failed"
			}
			c.Fail("nonce-not-plus-one", how, "block %d: %s had nonce %d, %d of its transactions were applied, nonce is now %d (%s)", height, k.name, r.nonce[k.eth], count[k.eth], got, r.blockDesc(evm))
		}
		if count[k.eth] > 0 {
			if anyFailed[k.eth] {
				c.Probe("failed_tx_nonce_bumped")
			} else {
				c.Probe("ok_tx_nonce_bumped")
			}
		}
		r.nonce[k.eth] = want
	}
	c.Logf("block %d ok: total %s, %d balance keys", height, sum, len(post.bal[tokONG]))
	c.State("h", height, len(post.bal[tokONG]), sum.String())
}

func (r *c07Run) blockDesc(evm []*c07Tx) string {
	var s []string
	for _, x := range evm {
		s = append(s, x.desc)
	}
	return strings.Join(s, "; ")
}

func (r *c07Run) restart() {
	c := r.c
	before, err := r.ch.Snap(false)
	c.Must(err, "snapshot")
	r.ch.Close()
	world.Quiesce()
	r.ch.Disk.Restart()
	if err := r.ch.Open(); err != nil {
		c.Fail("reopen-fails", "clean-restart", "clean reopen at height %d fails: %v", before.Height, err)
	}
	world.Quiesce()
	after, err := r.ch.Snap(false)
	c.Must(err, "snapshot")
	c.Fault("clean_restart")
	c.Probe("restart")
	c.Logf("restart at height %d", after.Height)
	if after.Height != before.Height || after.Digest["states"] != before.Digest["states"] {
		c.Fail("restart-changes-state", "clean-restart", "clean restart: height %d->%d, state store %s->%s", before.Height, after.Height, before.Digest["states"], after.Digest["states"])
	}
	for _, k := range r.keys {
		if n := c07Nonce(c, r.ch, k.eth); n != r.nonce[k.eth] {
			c.Fail("nonce-not-plus-one", "after-restart", "%s: nonce %d after restart, %d transactions applied", k.name, n, r.nonce[k.eth])
		}
	}
}

func c07SortedAddrs(m map[common.Address]bool) []common.Address {
	out := make([]common.Address, 0, len(m))
	for a := range m {
		out = append(out, a)
	}
	sort.Slice(out, func(i, j int) bool { return string(out[i][:]) < string(out[j][:]) })
	return out
}
