package props

import (
	"bytes"
	"crypto/aes"
	"crypto/cipher"
	"crypto/sha256"
	"encoding/hex"
	"fmt"
	"os"
	"reflect"
	"sync/atomic"

	"github.com/ontio/ontology-crypto/ec"
	"github.com/ontio/ontology-crypto/keypair"
	s "github.com/ontio/ontology-crypto/signature"
	"github.com/ontio/ontology/account"
	"github.com/ontio/ontology/core/types"
	"golang.org/x/crypto/ed25519"
	"golang.org/x/crypto/scrypt"

	"ontosim/simkit"
	"ontosim/world"
)

// C38: after any sequence of wallet operations and a save + reload the wallet
// lists the same accounts with the same metadata, each account decrypts to the
// same key with its current password and with no other.
func init() {
	simkit.Register(&simkit.Prop{
		ID:             "C38",
		Desc:           "wallet file persistence and password binding of account.ClientImpl against a list-of-records model",
		Rule:           "a run = one real wallet file under the scratch directory, opened by the real ClientImpl, and 1..12 generated operations (create via NewAccount, add an externally encrypted account via ImportAccount (one in six in the legacy aes-256-ctr protection of old wallets), re-import a deleted / foreign account, delete with right or wrong password, set default, relabel from a small colliding label set, change password with right or wrong old password, change signature scheme, drop the client and reopen the file, open another wallet file with other key-derivation parameters in the same process, and - in cheap-scrypt wallets - change of the key-derivation scheme on an exported copy the way `account export --low-security` does it: WalletData.Clone, ToLowSecurity / ToDefaultSecurity with every account's password (one call in three with one wrong password for an account in an authenticated protection), Save, load by a second ClientImpl: a successful call and a refused one must both leave a file with the same accounts and metadata, each opening to the same key with its own password only); key types ECDSA P-224/256/384/521, SM2, Ed25519; most runs use a wallet whose scrypt section is cheap (so that hundreds of decryptions fit in a run), some the default parameters; after every operation and every reopen the account list, metadata and decryptability are compared with the model; non-trivial = at least 2 accounts existed at some point, at least one reopen happened after a mutation and at least one password or default/label/scheme change was applied; distinct = distinct event-trace hash",
		Real:           []string{"account (ClientImpl, WalletData Save/Load, AccountData, AccountMetadata)", "ontology-crypto keypair (key generation, scrypt + AES-GCM protected keys) and signature schemes", "core/types.AddressFromPubKey", "the file system (tmpfs scratch directory)"},
		Stub:           []string{"none: the harness is only the operation generator and the model"},
		Assumptions:    []string{"the outcome (error / success) of an operation is taken from the real client except where the property fixes it: a wrong password must be refused by GetAccount*, DeleteAccount and ChangePassword", "an account whose address is already in the wallet is never imported again (the API does not define that case)", "no crash faults: every Save completes"},
		ExpectedProbes: []string{"reopen", "delete_ok", "delete_default_refused", "delete_wrong_password_refused", "chpw_ok", "chpw_wrong_old_refused", "relabel_ok", "relabel_duplicate_refused", "setdefault_ok", "chsig_ok", "import_renamed", "reimport_deleted", "default_scrypt_wallet", "newaccount_real", "export_reencrypted", "export_refused_wrong_password", "export_refused_after_first_account"},
		Run:            runC38,
	})
}

var c38Seq int64

type c38Acct struct {
	addr, label, sigSch, pubKey, keyType, curve string
	isDefault                                   bool
	priv                                        []byte // serialized private key
	pw, prevPw                                  []byte
	broken                                      bool // already reported as undecryptable (known finding): skip decrypt checks
}

type c38World struct {
	c       *simkit.Ctx
	path    string
	cli     *account.ClientImpl
	model   []*c38Acct
	pool    []*c38Pooled // accounts outside the wallet that can be imported
	custom  bool         // wallet scrypt section differs from the library default
	scrypt  *keypair.ScryptParam
	lastOp  string
	reopens int
}

type c38Pooled struct {
	meta *account.AccountMetadata
	priv []byte
	pw   []byte
}

type c38KeyKind struct {
	name    string
	typ     keypair.KeyType
	curve   byte
	schemes []s.SignatureScheme
}

var c38ECDSASchemes = []s.SignatureScheme{s.SHA256withECDSA, s.SHA224withECDSA, s.SHA384withECDSA, s.SHA512withECDSA, s.SHA3_224withECDSA, s.SHA3_256withECDSA, s.SHA3_384withECDSA, s.SHA3_512withECDSA, s.RIPEMD160withECDSA}

var c38KeyKinds = []c38KeyKind{
	{"ecdsa-p256", keypair.PK_ECDSA, keypair.P256, c38ECDSASchemes},
	{"ecdsa-p224", keypair.PK_ECDSA, keypair.P224, c38ECDSASchemes},
	{"ecdsa-p384", keypair.PK_ECDSA, keypair.P384, c38ECDSASchemes},
	{"ecdsa-p521", keypair.PK_ECDSA, keypair.P521, c38ECDSASchemes},
	{"sm2", keypair.PK_SM2, keypair.SM2P256V1, []s.SignatureScheme{s.SM3withSM2}},
	{"ed25519", keypair.PK_EDDSA, keypair.ED25519, []s.SignatureScheme{s.SHA512withEDDSA}},
}

func (w *c38World) sig(suffix string) string {
	sg := w.lastOp
	if suffix != "" {
		sg += "/" + suffix
	}
	if w.custom {
		sg += "/custom-scrypt"
	}
	return sg
}

func (w *c38World) label() string {
	t := w.c.Tape
	labels := []string{"", "a", "b", "a_1", "w", "b_1"}
	if t.Prob(1, 6) {
		return "L" + hex.EncodeToString(t.Bytes(2))
	}
	return labels[t.Choose(len(labels))]
}

func (w *c38World) password() []byte {
	t := w.c.Tape
	pws := []string{"p1", "p2", "x", "passwordpassword"}
	if t.Prob(1, 5) {
		return append([]byte{byte(1 + t.Choose(255))}, t.Bytes(t.Choose(12))...)
	}
	return []byte(pws[t.Choose(len(pws))])
}

func (w *c38World) find(addr string) *c38Acct {
	for _, a := range w.model {
		if a.addr == addr {
			return a
		}
	}
	return nil
}

func (w *c38World) hasLabel(l string) bool {
	if l == "" {
		return false
	}
	for _, a := range w.model {
		if a.label == l {
			return true
		}
	}
	return false
}

func (w *c38World) open() {
	cli, err := account.NewClientImpl(w.path)
	if err != nil {
		w.c.Fail("reopen-fails", w.sig(""), "opening the wallet file fails: %v", err)
	}
	w.cli = cli
}

// freshKey generates a key pair outside the wallet and protects it with the
// wallet's scrypt parameters, like an SDK that prepares an account for import.
func (w *c38World) freshKey(kind c38KeyKind, scheme s.SignatureScheme, label string, pw []byte) *c38Pooled {
	pri, pub, err := keypair.GenerateKeyPair(kind.typ, kind.curve)
	w.c.Must(err, "c38 generate key")
	a20 := types.AddressFromPubKey(pub)
	addr := a20.ToBase58()
	prot, err := keypair.EncryptWithCustomScrypt(pri, addr, pw, w.scrypt)
	w.c.Must(err, "c38 encrypt key")
	if w.c.Tape.Prob(1, 6) {
		// an account exported by an old wallet: the legacy "aes-256-ctr" protection (salt from the
		// address, no authentication tag), which DecryptWithCustomScrypt still accepts
		var plain []byte
		switch k := pri.(type) {
		case *ec.PrivateKey:
			plain = k.D.Bytes()
		case ed25519.PrivateKey:
			plain = []byte(k)
		}
		if plain != nil {
			d1 := sha256.Sum256([]byte(addr))
			d2 := sha256.Sum256(d1[:])
			dkey, err := scrypt.Key(pw, d2[:4], w.scrypt.N, w.scrypt.R, w.scrypt.P, w.scrypt.DKLen)
			w.c.Must(err, "c38 scrypt")
			block, err := aes.NewCipher(dkey[len(dkey)-32:])
			w.c.Must(err, "c38 aes")
			ct := make([]byte, len(plain))
			cipher.NewCTR(block, dkey[:16]).XORKeyStream(ct, plain)
			prot.EncAlg, prot.Key, prot.Salt = "aes-256-ctr", ct, nil
			w.c.Probe("legacy_ctr_account")
		}
	}
	return &c38Pooled{
		meta: &account.AccountMetadata{Label: label, KeyType: prot.Alg, Curve: prot.Param["curve"], Address: addr,
			PubKey: hex.EncodeToString(keypair.SerializePublicKey(pub)), SigSch: scheme.Name(), Salt: prot.Salt, Key: prot.Key, EncAlg: prot.EncAlg, Hash: prot.Hash},
		priv: keypair.SerializePrivateKey(pri), pw: pw,
	}
}

func runC38(c *simkit.Ctx) {
	world.Init()
	t := c.Tape
	dir := fmt.Sprintf("%s/c38-%d", world.Scratch(), atomic.AddInt64(&c38Seq, 1))
	c.Must(os.MkdirAll(dir, 0755), "c38 scratch dir")
	c.Defer(func() { os.RemoveAll(dir) })
	w := &c38World{c: c, path: dir + "/wallet.dat", lastOp: "open"}

	// ---- wallet flavour
	defProb := 400
	if c.Tier == "thorough" {
		defProb = 60
	}
	maxOps := 12
	if t.Prob(1, defProb) {
		// no file yet: NewClientImpl starts an empty wallet with the default scrypt parameters (slow: ~0.3 s per key derivation)
		w.scrypt = keypair.GetScryptParameters()
		maxOps = 3
		c.Probe("default_scrypt_wallet")
	} else {
		params := []keypair.ScryptParam{{N: 16, R: 1, P: 1, DKLen: 64}, {N: 2, R: 1, P: 1, DKLen: 64}, {N: 64, R: 2, P: 2, DKLen: 64}, {N: 16, R: 1, P: 1, DKLen: 48}}
		p := params[t.Choose(len(params))]
		w.scrypt, w.custom = &p, true
		// an empty wallet file as another tool (or `account export --low-security`) writes it
		init := fmt.Sprintf(`{"name":"MyWallet","version":"1.1","scrypt":{"p":%d,"n":%d,"r":%d,"dkLen":%d},"accounts":[]}`, p.P, p.N, p.R, p.DKLen)
		c.Must(os.WriteFile(w.path, []byte(init), 0644), "c38 initial wallet file")
	}
	c.Logf("wallet scrypt n=%d r=%d p=%d dkLen=%d custom=%v", w.scrypt.N, w.scrypt.R, w.scrypt.P, w.scrypt.DKLen, w.custom)
	w.open()
	w.check("open")

	nOps := t.Range(1, maxOps)
	maxAccts, mutated, changed, reopenedAfterMutation := 0, false, false, false
	for i := 0; i < nOps; i++ {
		op := t.Pick(6, 3, 3, 2, 3, 3, 2, 3, 1, 1, 1, 1, 1)
		if len(w.model) == 0 && op != 7 {
			op = 0
		}
		switch op {
		case 0: // a new account
			kind := c38KeyKinds[t.Choose(len(c38KeyKinds))]
			scheme := kind.schemes[t.Choose(len(kind.schemes))]
			label, pw := w.label(), w.password()
			realNew := !w.custom || t.Prob(1, 100)
			if realNew {
				w.lastOp = "newaccount"
				c.Probe("newaccount_real")
				acc, err := w.cli.NewAccount(label, kind.typ, kind.curve, scheme, pw)
				c.Logf("op %d NewAccount(%q,%s,%s) -> err=%v", i, label, kind.name, scheme.Name(), err)
				if err != nil {
					break
				}
				pubHex := hex.EncodeToString(keypair.SerializePublicKey(acc.PublicKey))
				ktype, curve := c38AlgOf(acc.PrivateKey)
				w.model = append(w.model, &c38Acct{addr: acc.Address.ToBase58(), label: label, sigSch: scheme.Name(), pubKey: pubHex, keyType: ktype, curve: curve,
					isDefault: len(w.model) == 0, priv: keypair.SerializePrivateKey(acc.PrivateKey), pw: pw})
			} else {
				w.lastOp = "import"
				w.importPooled(i, w.freshKey(kind, scheme, label, pw), kind.name)
			}
			mutated = true
		case 1: // import an account that lives outside the wallet (deleted earlier, or foreign)
			if len(w.pool) == 0 {
				kind := c38KeyKinds[t.Choose(len(c38KeyKinds))]
				w.pool = append(w.pool, w.freshKey(kind, kind.schemes[t.Choose(len(kind.schemes))], w.label(), w.password()))
			}
			k := t.Choose(len(w.pool))
			p := w.pool[k]
			w.pool = append(w.pool[:k], w.pool[k+1:]...)
			w.lastOp = "import"
			if w.find(p.meta.Address) != nil {
				break
			}
			w.importPooled(i, p, "pooled")
			mutated = true
		case 2, 8: // delete (8: with a wrong password)
			a := w.model[t.Choose(len(w.model))]
			pw := a.pw
			wrong := op == 8
			if wrong {
				pw = c38OtherPassword(t, a.pw)
			}
			w.lastOp = "delete"
			// what the wallet exports for it just before (for a later re-import)
			meta := w.cli.GetAccountMetadataByAddress(a.addr)
			acc, err := w.cli.DeleteAccount(a.addr, pw)
			c.Logf("op %d DeleteAccount(%s wrongpw=%v default=%v) -> err=%v", i, a.addr, wrong, a.isDefault, err)
			switch {
			case err == nil && acc != nil && wrong && !a.broken:
				c.Fail("wrong-password-accepted", w.sig(""), "DeleteAccount(%s) succeeded with password %q, the account's password is %q", a.addr, pw, a.pw)
			case err == nil && acc != nil:
				c.Probe("delete_ok")
				for k, m := range w.model {
					if m == a {
						w.model = append(w.model[:k], w.model[k+1:]...)
						break
					}
				}
				if meta != nil && !a.broken {
					meta.IsDefault = false
					w.pool = append(w.pool, &c38Pooled{meta: meta, priv: a.priv, pw: a.pw})
				}
				mutated = true
			case a.isDefault:
				c.Probe("delete_default_refused")
			case wrong:
				c.Probe("delete_wrong_password_refused")
			}
		case 3: // set default
			a := w.model[t.Choose(len(w.model))]
			w.lastOp = "setdefault"
			err := w.cli.SetDefaultAccount(a.addr)
			c.Logf("op %d SetDefaultAccount(%s) -> err=%v", i, a.addr, err)
			if err == nil {
				if !a.isDefault {
					c.Probe("setdefault_ok")
					changed = true
				}
				for _, m := range w.model {
					m.isDefault = m == a
				}
				mutated = true
			}
		case 4: // relabel
			a := w.model[t.Choose(len(w.model))]
			l := w.label()
			w.lastOp = "relabel"
			err := w.cli.SetLabel(a.addr, l)
			c.Logf("op %d SetLabel(%s,%q) was %q -> err=%v", i, a.addr, l, a.label, err)
			if err == nil {
				if a.label != l {
					c.Probe("relabel_ok")
					changed = true
				}
				a.label = l
				mutated = true
			} else if w.hasLabel(l) {
				c.Probe("relabel_duplicate_refused")
			}
		case 5, 9: // change password (9: wrong old password)
			a := w.model[t.Choose(len(w.model))]
			if a.broken {
				break
			}
			old, nw := a.pw, w.password()
			wrong := op == 9
			if wrong {
				old = c38OtherPassword(t, a.pw)
			}
			w.lastOp = "chpw"
			err := w.cli.ChangePassword(a.addr, old, nw)
			c.Logf("op %d ChangePassword(%s wrongold=%v same=%v) -> err=%v", i, a.addr, wrong, bytes.Equal(old, nw), err)
			switch {
			case bytes.Equal(old, nw):
				// documented no-op, whatever the old password
			case err == nil && wrong:
				c.Fail("wrong-password-accepted", w.sig(""), "ChangePassword(%s) succeeded with old password %q, the account's password is %q", a.addr, old, a.pw)
			case err == nil:
				c.Probe("chpw_ok")
				a.prevPw, a.pw = a.pw, nw
				mutated, changed = true, true
			case wrong:
				c.Probe("chpw_wrong_old_refused")
			}
		case 6, 10: // change signature scheme (10: one of another key family)
			a := w.model[t.Choose(len(w.model))]
			var kind c38KeyKind
			for _, k := range c38KeyKinds {
				if (k.typ == keypair.PK_ECDSA && a.keyType == "ECDSA") || (k.typ == keypair.PK_SM2 && a.keyType == "SM2") || (k.typ == keypair.PK_EDDSA && a.keyType == "Ed25519") {
					kind = k
					break
				}
			}
			scheme := kind.schemes[t.Choose(len(kind.schemes))]
			if op == 10 {
				scheme = []s.SignatureScheme{s.SM3withSM2, s.SHA512withEDDSA, s.SHA256withECDSA}[t.Choose(3)]
			}
			w.lastOp = "chsig"
			err := w.cli.ChangeSigScheme(a.addr, scheme)
			c.Logf("op %d ChangeSigScheme(%s,%s) was %s -> err=%v", i, a.addr, scheme.Name(), a.sigSch, err)
			if err == nil {
				if a.sigSch != scheme.Name() {
					c.Probe("chsig_ok")
					changed = true
				}
				a.sigSch = scheme.Name()
				mutated = true
			}
		case 11: // the same process opens another wallet file with other key-derivation parameters (an import source)
			w.lastOp = "other-wallet-opened"
			op := []keypair.ScryptParam{{N: 4, R: 1, P: 1, DKLen: 64}, {N: 32, R: 2, P: 1, DKLen: 64}, {N: 8, R: 1, P: 2, DKLen: 48}}[t.Choose(3)]
			other := fmt.Sprintf("%s.other%d", w.path, i)
			c.Must(os.WriteFile(other, []byte(fmt.Sprintf(`{"name":"Other","version":"1.1","scrypt":{"p":%d,"n":%d,"r":%d,"dkLen":%d},"accounts":[]}`, op.P, op.N, op.R, op.DKLen)), 0644), "other wallet file")
			_, err := account.NewClientImpl(other)
			c.Logf("op %d another wallet (scrypt n=%d r=%d p=%d dkLen=%d) opened in this process -> err=%v", i, op.N, op.R, op.P, op.DKLen, err)
			c.Probe("other_wallet_opened")
		case 12: // export under another key-derivation scheme, as `account export --low-security` does: clone, re-encrypt, save, load
			if !w.custom {
				continue // every decryption costs 16384-round scrypt there
			}
			skip := false
			for _, a := range w.model {
				skip = skip || a.broken
			}
			if skip {
				continue
			}
			w.exportCopy(i)
			continue
		case 7: // drop the client object, reopen the file
			w.reopen(i)
			if mutated {
				reopenedAfterMutation = true
			}
			continue
		}
		if len(w.model) > maxAccts {
			maxAccts = len(w.model)
		}
		w.check(fmt.Sprintf("op %d", i))
	}
	// the final save + reload of the property statement
	w.reopen(nOps)
	if mutated {
		reopenedAfterMutation = true
	}
	if maxAccts >= 2 && reopenedAfterMutation && changed {
		c.NonTrivial()
	}
}

// exportCopy: WalletData.Clone + ToLowSecurity / ToDefaultSecurity with the
// accounts' passwords (one of them wrong in one call of three) + Save + load.
// A successful call gives a wallet file with the same accounts, each opening to
// the same key with its password only; a refused call leaves the copy as it
// was (all or nothing), which the same comparison shows after save and load.
func (w *c38World) exportCopy(i int) {
	c, t := w.c, w.c.Tape
	data := w.cli.GetWalletData().Clone()
	if len(data.Accounts) != len(w.model) {
		c.Fail("account-list-differs", "export/count", "op %d: the cloned wallet data has %d accounts, model has %d", i, len(data.Accounts), len(w.model))
	}
	var authed []int // accounts whose protection authenticates the password (not the legacy aes-256-ctr form)
	for k, ad := range data.Accounts {
		if ad.EncAlg != "aes-256-ctr" {
			authed = append(authed, k)
		}
	}
	wrongAt := -1
	if len(authed) > 0 && t.Prob(1, 3) {
		wrongAt = authed[t.Choose(len(authed))]
	}
	pws := make([][]byte, len(w.model))
	for k, a := range w.model {
		pws[k] = append([]byte(nil), a.pw...)
		if k == wrongAt {
			pws[k] = c38OtherPassword(t, a.pw)
		}
	}
	low := t.Prob(4, 5)
	var err error
	if low {
		err = data.ToLowSecurity(pws)
	} else {
		err = data.ToDefaultSecurity(pws)
	}
	c.Logf("op %d export copy (low=%v, %d accounts, wrong password at %d) -> err=%v", i, low, len(pws), wrongAt, err)
	switch {
	case wrongAt >= 0 && err == nil:
		c.Fail("wrong-password-accepted", "export/reencrypt", "op %d: re-encryption of the wallet copy succeeds although the password given for account #%d (%s) is %q, not %q", i, wrongAt+1, w.model[wrongAt].addr, pws[wrongAt], w.model[wrongAt].pw)
	case wrongAt < 0 && err != nil:
		c.Fail("decrypt-fails-current-password", "export/reencrypt", "op %d: re-encryption of the wallet copy with every account's current password fails: %v", i, err)
	case err == nil:
		c.Probe("export_reencrypted")
	default:
		c.Probe("export_refused_wrong_password")
		if wrongAt > 0 {
			c.Probe("export_refused_after_first_account")
		}
	}
	target := fmt.Sprintf("%s.export%d", w.path, i)
	c.Must(data.Save(target), "save exported wallet")
	defer os.Remove(target)
	cli, oerr := account.NewClientImpl(target)
	if oerr != nil || cli == nil {
		c.Fail("metadata-changed-by-reload", "export/load", "op %d: the exported wallet file does not load: %v", i, oerr)
	}
	what := map[bool]string{true: "re-encrypted", false: "refused (must be unchanged)"}[err == nil]
	if n := cli.GetAccountNum(); n != len(w.model) {
		c.Fail("account-list-differs", "export/count", "op %d: exported wallet (%s) lists %d accounts, the wallet %d", i, what, n, len(w.model))
	}
	for k, a := range w.model {
		m, live := cli.GetAccountMetadataByIndex(k+1), w.cli.GetAccountMetadataByIndex(k+1)
		if m == nil || live == nil || m.Address != live.Address || m.Label != live.Label || m.IsDefault != live.IsDefault || m.SigSch != live.SigSch || m.PubKey != live.PubKey || m.KeyType != live.KeyType || m.Curve != live.Curve {
			c.Fail("account-list-differs", "export/metadata", "op %d: exported wallet (%s) account #%d is %+v, in the wallet %+v", i, what, k+1, m, live)
		}
		acc, derr := cli.GetAccountByAddress(a.addr, a.pw)
		if derr != nil || acc == nil {
			c.Fail("decrypt-fails-current-password", "export/open", "op %d: exported wallet (%s; wrong password was given for account #%d): account #%d %s does not open with its current password %q: %v", i, what, wrongAt+1, k+1, a.addr, a.pw, derr)
		}
		if got := keypair.SerializePrivateKey(acc.PrivateKey); !bytes.Equal(got, a.priv) {
			c.Fail("decrypts-to-other-key", "export/open", "op %d: exported wallet (%s): account %s opens to private key %x, its key is %x", i, what, a.addr, got, a.priv)
		}
		if data.Accounts[k].EncAlg != "aes-256-ctr" {
			if acc, derr := cli.GetAccountByAddress(a.addr, c38OtherPassword(t, a.pw)); derr == nil && acc != nil {
				c.Fail("wrong-password-accepted", "export/open", "op %d: exported wallet (%s): account %s opens with a password that is not its own", i, what, a.addr)
			}
		}
	}
}

func c38AlgOf(pri keypair.PrivateKey) (alg, curve string) {
	// the strings the wallet stores (keypair.EncryptWithCustomScrypt)
	prot, err := keypair.EncryptWithCustomScrypt(pri, "x", []byte("x"), &keypair.ScryptParam{N: 2, R: 1, P: 1, DKLen: 64})
	if err != nil {
		return "", ""
	}
	return prot.Alg, prot.Param["curve"]
}

func c38OtherPassword(t *simkit.Tape, pw []byte) []byte {
	switch t.Choose(3) {
	case 0:
		return append(append([]byte{}, pw...), 'x')
	case 1:
		o := append([]byte{}, pw...)
		o[t.Choose(len(o))] ^= byte(1 << uint(t.Choose(8)))
		return o
	default:
		return []byte("another-password")
	}
}

// importPooled runs ImportAccount and applies its documented renaming rule to the model.
func (w *c38World) importPooled(i int, p *c38Pooled, what string) {
	c := w.c
	m := *p.meta
	err := w.cli.ImportAccount(&m)
	c.Logf("op %d ImportAccount(%s %q %s %s) -> err=%v", i, p.meta.Address, p.meta.Label, what, p.meta.SigSch, err)
	if err != nil {
		w.pool = append(w.pool, p)
		return
	}
	label := p.meta.Label
	if w.hasLabel(label) {
		label += "_1"
		c.Probe("import_renamed")
	}
	if what == "pooled" {
		c.Probe("reimport_deleted")
	}
	w.model = append(w.model, &c38Acct{addr: p.meta.Address, label: label, sigSch: p.meta.SigSch, pubKey: p.meta.PubKey, keyType: p.meta.KeyType, curve: p.meta.Curve,
		isDefault: len(w.model) == 0, priv: p.priv, pw: p.pw})
}

func (w *c38World) snapshot() []*account.AccountMetadata {
	var out []*account.AccountMetadata
	for i := 1; ; i++ {
		m := w.cli.GetAccountMetadataByIndex(i)
		if m == nil {
			return out
		}
		out = append(out, m)
	}
}

func (w *c38World) reopen(i int) {
	c := w.c
	before := w.snapshot()
	prev := w.lastOp
	w.cli = nil
	w.lastOp = "reopen-after-" + prev
	w.open()
	w.reopens++
	c.Probe("reopen")
	c.Logf("op %d reopen (%d accounts)", i, len(w.model))
	after := w.snapshot()
	if len(before) != len(after) {
		c.Fail("metadata-changed-by-reload", w.sig(""), "the wallet listed %d accounts before the client was dropped and lists %d after reopening the file", len(before), len(after))
	}
	for k := range before {
		if !reflect.DeepEqual(before[k], after[k]) {
			c.Fail("metadata-changed-by-reload", w.sig(""), "account #%d before drop: %+v\nafter reopen: %+v", k+1, *before[k], *after[k])
		}
	}
	w.check(fmt.Sprintf("reopen %d", i))
	w.lastOp = prev
}

// check compares the wallet with the model: list, order, metadata, default,
// and that each account opens with its current password only.
func (w *c38World) check(where string) {
	c, t := w.c, w.c.Tape
	if n := w.cli.GetAccountNum(); n != len(w.model) {
		c.Fail("account-list-differs", w.sig("count"), "%s: wallet reports %d accounts, model has %d", where, n, len(w.model))
	}
	if m := w.cli.GetAccountMetadataByIndex(len(w.model) + 1); m != nil {
		c.Fail("account-list-differs", w.sig("count"), "%s: wallet lists an account #%d (%s), model has %d", where, len(w.model)+1, m.Address, len(w.model))
	}
	var def *c38Acct
	for i, a := range w.model {
		m := w.cli.GetAccountMetadataByIndex(i + 1)
		if m == nil {
			c.Fail("account-list-differs", w.sig("count"), "%s: wallet has no account #%d, model has %s", where, i+1, a.addr)
		}
		if m.Address != a.addr {
			c.Fail("account-list-differs", w.sig("order"), "%s: account #%d is %s, model has %s", where, i+1, m.Address, a.addr)
		}
		if m.Label != a.label || m.IsDefault != a.isDefault || m.SigSch != a.sigSch || m.PubKey != a.pubKey || m.KeyType != a.keyType || m.Curve != a.curve {
			c.Fail("account-list-differs", w.sig("metadata"), "%s: account #%d %s has label=%q default=%v scheme=%s pubkey=%s type=%s curve=%s; model: label=%q default=%v scheme=%s pubkey=%s type=%s curve=%s",
				where, i+1, a.addr, m.Label, m.IsDefault, m.SigSch, m.PubKey, m.KeyType, m.Curve, a.label, a.isDefault, a.sigSch, a.pubKey, a.keyType, a.curve)
		}
		if ma := w.cli.GetAccountMetadataByAddress(a.addr); ma == nil || !reflect.DeepEqual(ma, m) {
			c.Fail("account-list-differs", w.sig("lookup"), "%s: lookup of %s by address gives %+v, by index %+v", where, a.addr, ma, *m)
		}
		if a.isDefault {
			def = a
		}
		c.State(i, a.label, a.isDefault, a.sigSch, a.keyType, a.curve, len(w.model))
	}
	dm := w.cli.GetDefaultAccountMetadata()
	switch {
	case def == nil && dm != nil:
		c.Fail("default-account-wrong", w.sig(""), "%s: wallet has default account %s, model has none", where, dm.Address)
	case def != nil && (dm == nil || dm.Address != def.addr):
		c.Fail("default-account-wrong", w.sig(""), "%s: wallet default account is %+v, model has %s", where, dm, def.addr)
	}
	// decryption: every account in a cheap wallet, one tape-chosen account otherwise
	subset := w.model
	if !w.custom && len(subset) > 1 {
		subset = []*c38Acct{w.model[t.Choose(len(w.model))]}
	}
	for _, a := range subset {
		if a.broken {
			continue
		}
		acc, err := w.cli.GetAccountByAddress(a.addr, a.pw)
		if err != nil || acc == nil {
			a.broken = true
			c.FailSoft("decrypt-fails-current-password", w.sig(""), "%s: account %s does not open with its current password %q: %v (wallet scrypt n=%d r=%d p=%d)", where, a.addr, a.pw, err, w.scrypt.N, w.scrypt.R, w.scrypt.P)
			continue
		}
		if got := keypair.SerializePrivateKey(acc.PrivateKey); !bytes.Equal(got, a.priv) {
			c.Fail("decrypts-to-other-key", w.sig(""), "%s: account %s opens to private key %x, the key it was created with is %x", where, a.addr, got, a.priv)
		}
		if acc.Address.ToBase58() != a.addr || acc.SigScheme.Name() != a.sigSch {
			c.Fail("decrypts-to-other-key", w.sig("account-fields"), "%s: account %s opens as address %s scheme %s, model has scheme %s", where, a.addr, acc.Address.ToBase58(), acc.SigScheme.Name(), a.sigSch)
		}
		var others [][]byte
		if a.prevPw != nil && !bytes.Equal(a.prevPw, a.pw) {
			others = append(others, a.prevPw)
		}
		if w.custom || len(others) == 0 {
			others = append(others, c38OtherPassword(t, a.pw))
		}
		for _, o := range others {
			if bytes.Equal(o, a.pw) {
				continue
			}
			if acc, err := w.cli.GetAccountByAddress(a.addr, o); err == nil && acc != nil {
				c.Fail("wrong-password-accepted", w.sig("open"), "%s: account %s opens with password %q, its current password is %q (previous %q)", where, a.addr, o, a.pw, a.prevPw)
			}
		}
	}
	if def != nil && !def.broken && w.custom {
		if acc, err := w.cli.GetDefaultAccount(def.pw); err != nil || acc == nil || acc.Address.ToBase58() != def.addr {
			c.Fail("default-account-wrong", w.sig("open"), "%s: GetDefaultAccount with the default account's password fails or returns another account: %v", where, err)
		}
	}
}
