package props

// NeoVM code for C05: a small storage contract and transaction scripts made
// of fragments that write state and then (usually) fault.

import (
	"bytes"
	"math/big"

	"github.com/ontio/ontology/common"
	cutils "github.com/ontio/ontology/core/utils"
	vm "github.com/ontio/ontology/vm/neovm"

	"ontosim/simkit"
)

// c05Asm is a two-pass mini assembler (only what the scripts need).
type c05Asm struct {
	buf    bytes.Buffer
	labels map[string]int
	fixups []c05Fixup
}

type c05Fixup struct {
	at    int // position of the jump opcode
	label string
}

func newC05Asm() *c05Asm { return &c05Asm{labels: map[string]int{}} }

func (a *c05Asm) op(ops ...vm.OpCode) *c05Asm {
	for _, o := range ops {
		a.buf.WriteByte(byte(o))
	}
	return a
}

func (a *c05Asm) raw(b ...byte) *c05Asm { a.buf.Write(b); return a }

func (a *c05Asm) push(data []byte) *c05Asm {
	vm.NewParamsBuilder(&a.buf).EmitPushByteArray(data)
	return a
}

func (a *c05Asm) pushInt(n int64) *c05Asm {
	vm.NewParamsBuilder(&a.buf).EmitPushInteger(big.NewInt(n))
	return a
}

func (a *c05Asm) syscall(name string) *c05Asm {
	a.buf.WriteByte(byte(vm.SYSCALL))
	a.buf.WriteByte(byte(len(name)))
	a.buf.WriteString(name)
	return a
}

func (a *c05Asm) appcall(addr common.Address) *c05Asm {
	a.buf.WriteByte(byte(vm.APPCALL))
	a.buf.Write(addr[:])
	return a
}

func (a *c05Asm) jump(op vm.OpCode, label string) *c05Asm {
	a.fixups = append(a.fixups, c05Fixup{a.buf.Len(), label})
	a.buf.WriteByte(byte(op))
	a.buf.Write([]byte{0, 0})
	return a
}

func (a *c05Asm) label(name string) *c05Asm { a.labels[name] = a.buf.Len(); return a }

func (a *c05Asm) bytes(c *simkit.Ctx) []byte {
	out := append([]byte(nil), a.buf.Bytes()...)
	for _, f := range a.fixups {
		tgt, ok := a.labels[f.label]
		if !ok {
			c.Harness("asm: unknown label %s", f.label)
		}
		off := int16(tgt - f.at) // the VM jumps to (position of the jump opcode + offset)
		out[f.at+1] = byte(off)
		out[f.at+2] = byte(uint16(off) >> 8)
	}
	return out
}

// storage-contract call modes (top of the caller's stack; below it key, value)
const (
	c05ModePutThenFault = 0 // put(key,value), then fault inside the contract
	c05ModePut          = 1 // put(key,value)
	c05ModeDestroy      = 2 // destroy the contract and all its storage
	c05ModeDelete       = 3 // delete(key)
)

// c05ContractCode is the storage contract; id makes distinct instances.
func c05ContractCode(c *simkit.Ctx, id byte) []byte {
	a := newC05Asm()
	a.op(vm.DUP, vm.PUSH2, vm.NUMEQUAL).jump(vm.JMPIFNOT, "notDestroy")
	a.syscall("System.Contract.Destroy").op(vm.RET)
	a.label("notDestroy")
	a.op(vm.DUP, vm.PUSH3, vm.NUMEQUAL).jump(vm.JMPIFNOT, "put")
	a.op(vm.DROP).syscall("System.Storage.GetContext").syscall("System.Storage.Delete").op(vm.RET)
	a.label("put")
	a.op(vm.TOALTSTACK).syscall("System.Storage.GetContext").syscall("System.Storage.Put")
	a.op(vm.FROMALTSTACK, vm.THROWIFNOT, vm.RET)
	a.raw(0x01, id) // never executed: makes the code (and so the address) unique
	return a.bytes(c)
}

// fragments of a transaction script
func c05FragCall(a *c05Asm, contract common.Address, mode int64, key, value []byte) {
	a.push(value).push(key).pushInt(mode).appcall(contract)
}

func c05FragNative(c *simkit.Ctx, a *c05Asm, contract common.Address, method string, params []interface{}) {
	code, err := cutils.BuildNativeInvokeCode(contract, 0, method, params)
	c.Must(err, "native invoke code")
	a.raw(code...)
	a.op(vm.DROP)
}

// c05FragCreate deploys a contract from inside a script (Ontology.Contract.Create).
func c05FragCreate(a *c05Asm, code []byte) {
	a.push([]byte("d")).push([]byte("e")).push([]byte("a")).push([]byte("v")).push([]byte("n")).pushInt(1).push(code)
	a.syscall("Ontology.Contract.Create").op(vm.DROP)
}

func c05FragPad(a *c05Asm, n int) {
	a.push(make([]byte, n)).op(vm.DROP)
}

// script endings
const (
	c05EndOK = iota
	c05EndThrow
	c05EndBadOpcode
	c05EndUnderflow
	c05EndDivZero
	c05EndOutOfGas
	c05EndNoContract
	c05EndPutWithoutContract
	c05EndBadSyscall
	c05NumEnds
)

var c05EndNames = [...]string{"ok", "throw", "bad-opcode", "stack-underflow", "div-by-zero", "out-of-gas-loop", "appcall-missing-contract", "put-without-contract", "unknown-syscall"}

func c05End(a *c05Asm, end int) {
	switch end {
	case c05EndThrow:
		a.op(vm.THROW)
	case c05EndBadOpcode:
		a.raw(0xFE)
	case c05EndUnderflow:
		a.pushInt(1000).op(vm.PICK)
	case c05EndDivZero:
		a.pushInt(7).pushInt(0).op(vm.DIV)
	case c05EndOutOfGas:
		a.label("spin").jump(vm.JMP, "spin")
	case c05EndNoContract:
		var missing common.Address
		for i := range missing {
			missing[i] = 0xEE
		}
		a.appcall(missing)
	case c05EndPutWithoutContract:
		a.push([]byte("v")).push([]byte("k")).syscall("System.Storage.GetContext").syscall("System.Storage.Put")
	case c05EndBadSyscall:
		a.syscall("System.Nothing.Here")
	}
}
