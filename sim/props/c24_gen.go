package props

import (
	"time"

	"github.com/ontio/ontology/account"
	"github.com/ontio/ontology/common"
	vconfig "github.com/ontio/ontology/consensus/vbft/config"
	"github.com/ontio/ontology/core/signature"
	ct "github.com/ontio/ontology/core/types"
	p2pcomm "github.com/ontio/ontology/p2pserver/common"
	mt "github.com/ontio/ontology/p2pserver/message/types"

	"ontosim/simkit"
	"ontosim/world"
)

// Generators of well-formed p2p messages of every registered type, all field
// contents drawn from the tape.

type c24Gen struct {
	c     *simkit.Ctx
	accts []*account.Account
	nonce uint32
}

func (g *c24Gen) acct() *account.Account {
	t := g.c.Tape
	if len(g.accts) < 3 && (len(g.accts) == 0 || t.Prob(1, 3)) {
		g.accts = append(g.accts, account.NewAccount(""))
		return g.accts[len(g.accts)-1]
	}
	return g.accts[t.Choose(len(g.accts))]
}

func (g *c24Gen) hash() (h common.Uint256) {
	t := g.c.Tape
	switch t.Choose(3) {
	case 0:
	case 1:
		h[t.Choose(32)] = byte(1 + t.Choose(255))
	default:
		copy(h[:], t.Bytes(32))
	}
	return
}

func (g *c24Gen) bytesN(max int) []byte {
	t := g.c.Tape
	n := t.Pick(3, 4, 2, 1)
	switch n {
	case 0:
		return nil
	case 1:
		n = 1 + t.Choose(8)
	case 2:
		n = 1 + t.Choose(80)
	default:
		n = 1 + t.Choose(max)
	}
	if n > max {
		n = max
	}
	return t.Bytes(n)
}

func (g *c24Gen) str(max int) string { return string(g.bytesN(max)) }

func (g *c24Gen) peerID() p2pcomm.PeerId {
	t := g.c.Tape
	if t.Bool() {
		return p2pcomm.PseudoPeerIdFromUint64(t.Uint64())
	}
	var id p2pcomm.PeerId
	_ = id.Deserialization(common.NewZeroCopySource(t.Bytes(20)))
	return id
}

func (g *c24Gen) tx() *ct.Transaction {
	t := g.c.Tape
	g.nonce++
	from := g.acct()
	var m *ct.MutableTransaction
	if t.Bool() {
		m = world.InvokeTx(append([]byte{0x51}, g.bytesN(60)...), t.Uint64()%100000, t.Uint64()%1000000, g.nonce, from.Address)
	} else {
		var err error
		m, err = world.TransferTx("ont", from.Address, g.acct().Address, t.Uint64()%1000, 0, 20000, g.nonce, from.Address)
		g.c.Must(err, "c24 transfer tx")
	}
	if t.Prob(2, 3) {
		g.c.Must(world.Sign(m, from), "c24 sign tx")
	}
	tx, err := world.Seal(m)
	g.c.Must(err, "c24 seal tx")
	return tx
}

func (g *c24Gen) header() *ct.Header {
	t := g.c.Tape
	h := &ct.Header{
		Version:          uint32(t.Choose(3)),
		PrevBlockHash:    g.hash(),
		TransactionsRoot: g.hash(),
		BlockRoot:        g.hash(),
		Timestamp:        uint32(t.Uint64()),
		Height:           uint32(t.Uint64()),
		ConsensusData:    t.Uint64(),
		ConsensusPayload: g.bytesN(300),
	}
	copy(h.NextBookkeeper[:], t.Bytes(20))
	for i, n := 0, t.Choose(4); i < n; i++ {
		h.Bookkeepers = append(h.Bookkeepers, g.acct().PublicKey)
	}
	for i, n := 0, t.Choose(4); i < n; i++ {
		h.SigData = append(h.SigData, g.bytesN(70))
	}
	return h
}

func (g *c24Gen) block() *ct.Block {
	t := g.c.Tape
	b := &ct.Block{Header: g.header()}
	for i, n := 0, t.Choose(4); i < n; i++ {
		b.Transactions = append(b.Transactions, g.tx())
	}
	b.RebuildMerkleRoot()
	return b
}

// c24Types lists every command the reader knows, plus one it does not.
var c24Types = []string{
	p2pcomm.PING_TYPE, p2pcomm.PONG_TYPE, p2pcomm.VERSION_TYPE, p2pcomm.VERACK_TYPE, p2pcomm.GetADDR_TYPE, p2pcomm.ADDR_TYPE,
	p2pcomm.GET_HEADERS_TYPE, p2pcomm.HEADERS_TYPE, p2pcomm.INV_TYPE, p2pcomm.GET_DATA_TYPE, p2pcomm.BLOCK_TYPE, p2pcomm.TX_TYPE,
	p2pcomm.CONSENSUS_TYPE, p2pcomm.NOT_FOUND_TYPE, p2pcomm.GET_BLOCKS_TYPE, p2pcomm.FINDNODE_TYPE, p2pcomm.FINDNODE_RESP_TYPE,
	p2pcomm.UPDATE_KADID_TYPE, p2pcomm.GET_SUBNET_MEMBERS_TYPE, p2pcomm.SUBNET_MEMBERS_TYPE, p2pcomm.SUBNET_OFFLINE_TYPE, "unknown",
}

// message builds a well-formed instance of the given command.
func (g *c24Gen) message(cmd string) mt.Message {
	t := g.c.Tape
	switch cmd {
	case p2pcomm.PING_TYPE:
		return &mt.Ping{Height: t.Uint64()}
	case p2pcomm.PONG_TYPE:
		return &mt.Pong{Height: t.Uint64()}
	case p2pcomm.VERSION_TYPE:
		v := &mt.Version{P: mt.VersionPayload{
			Version: uint32(t.Uint64()), Services: t.Uint64(), TimeStamp: int64(t.Uint64()), SyncPort: uint16(t.Uint64()),
			HttpInfoPort: uint16(t.Uint64()), ConsPort: uint16(t.Uint64()), Nonce: t.Uint64(), StartHeight: t.Uint64(),
			Relay: uint8(t.Choose(3)), IsConsensus: t.Bool(), SoftVersion: g.str(40),
		}}
		if t.Bool() {
			copy(v.P.Cap[:], t.Bytes(32))
		}
		return v
	case p2pcomm.VERACK_TYPE:
		return &mt.VerACK{}
	case p2pcomm.GetADDR_TYPE:
		return &mt.AddrReq{}
	case p2pcomm.ADDR_TYPE:
		a := &mt.Addr{}
		n := t.Pick(2, 5, 2, 1)
		switch n {
		case 1:
			n = 1 + t.Choose(4)
		case 2:
			n = 1 + t.Choose(p2pcomm.MAX_ADDR_NODE_CNT)
		case 3:
			n = p2pcomm.MAX_ADDR_NODE_CNT
		}
		for i := 0; i < n; i++ {
			pa := p2pcomm.PeerAddr{Time: int64(t.Uint64()), Services: t.Uint64(), Port: uint16(t.Uint64()), ConsensusPort: uint16(t.Uint64()), ID: g.peerID()}
			copy(pa.IpAddr[:], t.Bytes(16))
			a.NodeAddrs = append(a.NodeAddrs, pa)
		}
		return a
	case p2pcomm.GET_HEADERS_TYPE:
		return &mt.HeadersReq{Len: uint8(t.Choose(256)), HashStart: g.hash(), HashEnd: g.hash()}
	case p2pcomm.GET_BLOCKS_TYPE:
		return &mt.BlocksReq{HeaderHashCount: uint8(t.Choose(256)), HashStart: g.hash(), HashStop: g.hash()}
	case p2pcomm.HEADERS_TYPE:
		h := &mt.BlkHeader{}
		for i, n := 0, t.Choose(5); i < n; i++ {
			h.BlkHdr = append(h.BlkHdr, g.header())
		}
		return h
	case p2pcomm.INV_TYPE:
		inv := &mt.Inv{P: mt.InvPayload{InvType: common.InventoryType(t.Choose(4))}}
		n := t.Pick(2, 5, 2, 1)
		switch n {
		case 1:
			n = 1 + t.Choose(4)
		case 2:
			n = 1 + t.Choose(p2pcomm.MAX_INV_BLK_CNT)
		case 3:
			n = p2pcomm.MAX_INV_BLK_CNT
		}
		for i := 0; i < n; i++ {
			inv.P.Blk = append(inv.P.Blk, g.hash())
		}
		return inv
	case p2pcomm.GET_DATA_TYPE:
		return &mt.DataReq{DataType: common.InventoryType(t.Choose(4)), Hash: g.hash()}
	case p2pcomm.BLOCK_TYPE:
		b := &mt.Block{Blk: g.block(), MerkleRoot: g.hash()}
		if t.Bool() {
			cm := &ct.CrossChainMsg{Version: byte(t.Choose(3)), Height: uint32(t.Uint64()), StatesRoot: g.hash()}
			for i, n := 0, t.Choose(4); i < n; i++ {
				cm.SigData = append(cm.SigData, g.bytesN(70))
			}
			b.CCMsg = cm
		}
		return b
	case p2pcomm.TX_TYPE:
		return &mt.Trn{Txn: g.tx()}
	case p2pcomm.CONSENSUS_TYPE:
		return &mt.Consensus{Cons: mt.ConsensusPayload{
			Version: uint32(t.Uint64()), PrevHash: g.hash(), Height: uint32(t.Uint64()), BookkeeperIndex: uint16(t.Uint64()),
			Timestamp: uint32(t.Uint64()), Data: g.bytesN(400), Owner: g.acct().PublicKey, Signature: g.bytesN(70),
		}}
	case p2pcomm.NOT_FOUND_TYPE:
		return &mt.NotFound{Hash: g.hash()}
	case p2pcomm.FINDNODE_TYPE:
		return &mt.FindNodeReq{TargetID: g.peerID()}
	case p2pcomm.FINDNODE_RESP_TYPE:
		r := &mt.FindNodeResp{TargetID: g.peerID(), Success: t.Bool(), Address: g.str(30)}
		for i, n := 0, t.Choose(5); i < n; i++ {
			r.CloserPeers = append(r.CloserPeers, p2pcomm.PeerIDAddressPair{ID: g.peerID(), Address: g.str(30)})
		}
		return r
	case p2pcomm.UPDATE_KADID_TYPE:
		return &mt.UpdatePeerKeyId{KadKeyId: p2pcomm.RandPeerKeyId()}
	case p2pcomm.GET_SUBNET_MEMBERS_TYPE:
		if !t.Bool() {
			// request from a seed node: no key, no signature
			return &mt.SubnetMembersRequest{From: g.peerID(), To: g.peerID()}
		}
		r, err := mt.NewMembersRequest(g.peerID(), g.peerID(), g.acct())
		g.c.Must(err, "c24 members request")
		if t.Prob(1, 4) {
			// another (still unexpired) timestamp, signed like NewMembersRequest does
			r.Timestamp = uint32(time.Now().Unix()) - uint32(t.Choose(3000)) + uint32(t.Choose(3))*1000
			if r.Timestamp == 0 {
				r.Timestamp = 1
			}
			sink := common.NewZeroCopySink(nil)
			r.From.Serialization(sink)
			r.To.Serialization(sink)
			sink.WriteUint32(r.Timestamp)
			sig, err := signature.Sign(g.accts[0], sink.Bytes())
			g.c.Must(err, "c24 sign members request")
			r.PubKey, r.Sig = g.accts[0].PublicKey, sig
		}
		return r
	case p2pcomm.SUBNET_MEMBERS_TYPE:
		m := &mt.SubnetMembers{}
		for i, n := 0, t.Choose(6); i < n; i++ {
			m.Members = append(m.Members, mt.MemberInfo{PubKey: g.str(70), Addr: g.str(30)})
		}
		return m
	case p2pcomm.SUBNET_OFFLINE_TYPE:
		n := 1 + t.Choose(4)
		var nodes []*account.Account
		m := &mt.OfflineWitnessMsg{Timestamp: uint32(t.Uint64()), View: uint32(t.Uint64())}
		for i := 0; i < n; i++ {
			a := g.acct()
			nodes = append(nodes, a)
			m.NodePubKeys = append(m.NodePubKeys, vconfig.PubkeyID(a.PublicKey))
		}
		prop := nodes[t.Choose(n)]
		m.Proposer = vconfig.PubkeyID(prop.PublicKey)
		g.c.Must(m.AddProposeSig(prop), "c24 propose sig")
		for i, k := 0, t.Choose(3); i < k; i++ {
			var idx []uint8
			for j, l := 0, t.Choose(3); j < l; j++ {
				idx = append(idx, uint8(t.Choose(n)))
			}
			g.c.Must(m.VoteFor(nodes[t.Choose(n)], idx), "c24 vote")
		}
		return m
	default:
		cmd := "x" + string(rune('a'+t.Choose(26)))
		if t.Bool() {
			cmd = "abcdefghijkl" // all 12 command bytes used
		}
		return &mt.UnknownMessage{Cmd: cmd, Payload: g.bytesN(200)}
	}
}
