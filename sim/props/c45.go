package props

import (
	"bytes"
	"crypto/sha256"
	"encoding/json"
	"fmt"

	"github.com/ontio/ontology/common"
	"github.com/ontio/ontology/core/types"
	"github.com/ontio/ontology/smartcontract/event"
	nutils "github.com/ontio/ontology/smartcontract/service/native/utils"

	"ontosim/simkit"
	"ontosim/world"
)

// C45: only an ONT ID's authorised keys or controllers can change it; a
// revoked identity can never be registered or modified again.
func init() {
	simkit.Register(&simkit.Prop{
		ID:   "C45",
		Desc: "ONT ID contract: every successful change of an identity is witnessed by one of its live authentication keys, its controller or its recovery as configured; revoked identities stay dead; storage and queries equal a model advanced by successful calls only",
		Rule: "a run = one solo ledger (network id 3: new ONT ID methods active from genesis), 6 single-key accounts, 3 identities did:ont:<address> (plus, rarely, an outsider / malformed id), 6..40 calls of the 42 registered ONT ID methods (register with key / attributes / single or group controller incl. nested groups; add/remove key by key, index, controller, recovery; auth-key add/set/remove; attributes; old and new recovery; controller removal; services; contexts; revoke; verifySignature / verifyController) in blocks of 1..5 transactions; each call's claimed key index / operator key / controller proof / recovery signers is biased towards what the model says is valid but may be stale, revoked, without authentication right, out of range, truncating (2^32+i) or of the wrong kind; the signer set (0..3 accounts) is chosen independently: the claimed keys, those plus a stranger, a random set, nobody, or the claimed keys minus one. After every transaction the node's verdict is compared with the model's authorisation verdict; after every block the whole ONT ID storage is decoded independently (key lists with revoked/authentication flags, controller, recovery of both styles, state flag; a revoked identity must own nothing but its tombstone) and getDocumentJson / getPublicKeysJson / getKeyState / getAttributes / getControllerJson are pre-executed and compared with the model. Non-trivial = at least one successful change after registration, at least one unauthorised call refused that had no other reason to fail, and at least two blocks; distinct = distinct event-trace hash",
		Real: []string{"smartcontract/service/native/ontid (all registered methods)", "smartcontract/service/native/utils (linked list, storage items)", "smartcontract + NeoVM (Ontology.Native.Invoke, CheckWitness)", "core/store/ledgerstore (ExecuteBlock/SubmitBlock, event store, PreExecuteContract)", "smartcontract/storage CacheDB + overlaydb + goleveldb on SimDisk", "core/types transaction encoding and witness derivation"},
		Stub: []string{"solo block producer (harness builds/signs blocks like consensus/solo)", "no transaction pool / validators: blocks carry whatever the harness signs", "wasm JIT (stub archive)"},
		Assumptions: []string{
			"direction: the property is 'not witnessed as configured => the call fails'; 'authorised => succeeds' is only measured (probes predict_*), never asserted",
			"'as configured' includes: the recovery group (new style), the old-style recovery address for addKey/removeKey/changeRecovery, a group whose threshold is 0 (anyone), and registration, which is authorised by the key being registered (regIDWithPublicKey/Attributes: any valid ONT ID string may be claimed by any key) or by the controller named in the call",
			"key indexes are taken modulo 2^32 as the contract does; a group proof must list only signers whose claimed key witnessed",
			"verifySignature / verifyController answering true without the witness they stand for is counted as a violation although they change nothing (they are the mechanism other contracts rely on)",
			"a disagreement between storage/queries and the model after a block is a violation: the model moves only on successful calls, so the identity then changed (or failed to change) otherwise than by an authorised call",
			"the deprecated getPublicKeys / getDDO cannot parse the new key-list format and are only probed",
		},
		ExpectedProbes: []string{"ok_regIDWithPublicKey", "ok_regIDWithAttributes", "ok_regIDWithController", "ok_addKey", "ok_addKeyByIndex", "ok_addKeyByController", "ok_addKeyByRecovery",
			"ok_removeKey", "ok_removeKeyByIndex", "ok_removeKeyByController", "ok_removeKeyByRecovery", "ok_addAttributes", "ok_addAttributesByIndex", "ok_addAttributesByController",
			"ok_removeAttribute", "ok_removeAttributeByIndex", "ok_removeAttributeByController", "ok_revokeID", "ok_revokeIDByController", "ok_removeController", "ok_setRecovery", "ok_updateRecovery",
			"ok_removeRecovery", "ok_addRecovery", "ok_changeRecovery", "ok_addNewAuthKey", "ok_addNewAuthKeyByRecovery", "ok_addNewAuthKeyByController", "ok_setAuthKey", "ok_setAuthKeyByRecovery",
			"ok_setAuthKeyByController", "ok_removeAuthKey", "ok_removeAuthKeyByRecovery", "ok_removeAuthKeyByController", "ok_addService", "ok_updateService", "ok_removeService", "ok_addContext",
			"ok_removeContext", "ok_verifySignature", "ok_verifyController", "group_controller", "nested_group", "refused_unwitnessed", "refused_revoked_key", "refused_key_without_auth_right",
			"refused_on_revoked_identity", "refused_reregistration_of_revoked", "refused_group_below_threshold", "old_recovery_used", "truncated_index_used", "threshold0_group"},
		Run:           runC45,
		MaxShrinkRuns: 500,
	})
}

type c45Run struct {
	c      *simkit.Ctx
	ch     *world.Chain
	accts  []*oidAcct
	ids    [][]byte // the three identities
	extra  [][]byte // outsider and malformed ids
	m      *oidModel
	nonce  uint32
	blocks int
	okMut  int
	refuse int
}

func runC45(c *simkit.Ctx) {
	c.Bubble(func() {
		t := c.Tape
		r := &c45Run{c: c, m: newOidModel()}
		r.ch = world.NewSoloChain(c, "n")
		c.Must(r.ch.Open(), "open")
		r.accts = oidNewAccts(6)
		for i := 0; i < 3; i++ {
			r.ids = append(r.ids, oidOf(r.accts[i].addr))
		}
		r.extra = [][]byte{oidOf(r.accts[5].addr), []byte("did:ont:abc"), {}}
		r.nonce = 1
		nOps := t.Range(6, 6+t.Pick(2, 5, 3)*17)
		if nOps > 40 {
			nOps = 40
		}
		done := 0
		for done < nOps {
			k := 1 + t.Pick(3, 4, 3, 2, 1)
			if k > nOps-done {
				k = nOps - done
			}
			var ops []*oidOp
			for i := 0; i < k; i++ {
				ops = append(ops, r.gen())
			}
			r.runBlock(ops)
			done += k
		}
		r.checkState("final", true, nil)
		if r.okMut > 0 && r.refuse > 0 && r.blocks >= 2 {
			c.NonTrivial()
		}
	})
}

// ---------------------------------------------------------------- generation

func (r *c45Run) acctByPub(pub []byte) *oidAcct {
	for _, a := range r.accts {
		if bytes.Equal(a.pub, pub) {
			return a
		}
	}
	return nil
}

func (r *c45Run) acctByAddr(b []byte) *oidAcct {
	for _, a := range r.accts {
		if bytes.Equal(a.addr[:], b) {
			return a
		}
	}
	return nil
}

// pickIndex chooses a key index of identity id, biased towards a live
// authentication key.
func (r *c45Run) pickIndex(id []byte) uint64 { return r.pickIndexW(id, 13) }

func (r *c45Run) pickIndexW(id []byte, wLive int) uint64 {
	t := r.c.Tape
	x := r.m.get(id)
	live := x.liveAuthIndexes()
	switch t.Pick(wLive, 4, 2, 1) {
	case 0:
		if len(live) > 0 {
			return uint64(live[t.Choose(len(live))])
		}
		return 1
	case 1:
		return uint64(t.Choose(len(x.keys) + 2))
	case 2: // a key that exists but is revoked or has no authentication right
		var weak []int
		for i, k := range x.keys {
			if k.revoked || !k.auth {
				weak = append(weak, i+1)
			}
		}
		if len(weak) > 0 {
			return uint64(weak[t.Choose(len(weak))])
		}
		return uint64(len(x.keys) + 1)
	default: // only the low 32 bits of an index count
		i := uint64(1)
		if len(live) > 0 {
			i = uint64(live[t.Choose(len(live))])
		}
		return 1<<32 + i
	}
}

func (r *c45Run) pickID() []byte {
	return r.ids[r.c.Tape.Choose(len(r.ids))]
}

// pickSigners builds a signer list for a group, biased towards meeting it.
func (r *c45Run) pickSigners(g *oidGroup) []oidSigner {
	t := r.c.Tape
	var out []oidSigner
	if g != nil {
		for _, mem := range g.flat() {
			if t.Prob(1, 4) {
				continue
			}
			out = append(out, oidSigner{id: mem, index: r.pickIndexW(mem, 40)})
		}
	}
	if t.Prob(1, 10) {
		id := r.pickID()
		out = append(out, oidSigner{id: id, index: r.pickIndex(id)})
	}
	return out
}

// pickProof builds a controller proof for controller ctrl.
func (r *c45Run) pickProof(ctrl []byte) oidProof {
	t := r.c.Tape
	switch {
	case ctrl != nil && oidIsID(ctrl):
		if t.Prob(1, 8) {
			return oidProof{signers: r.pickSigners(&oidGroup{members: []interface{}{ctrl}, threshold: 1})}
		}
		return oidProof{single: true, index: r.pickIndex(ctrl)}
	case ctrl != nil:
		if t.Prob(1, 10) {
			return oidProof{single: true, index: uint64(t.Choose(3))}
		}
		return oidProof{signers: r.pickSigners(oidParseGroup(ctrl, 0))}
	}
	if t.Bool() {
		return oidProof{single: true, index: r.pickIndex(r.pickID())}
	}
	id := r.pickID()
	return oidProof{signers: []oidSigner{{id: id, index: r.pickIndex(id)}}}
}

// pickGroup builds a group (or, for a controller, possibly a single id).
func (r *c45Run) pickGroup(self []byte, allowSingle bool) []byte {
	t := r.c.Tape
	// members: prefer registered identities that own keys
	var good [][]byte
	for _, id := range r.ids {
		x := r.m.get(id)
		if x.state == oidValid && len(x.keys) > 0 && !bytes.Equal(id, self) {
			good = append(good, id)
		}
	}
	member := func() []byte {
		if len(good) > 0 && !t.Prob(1, 6) {
			return good[t.Choose(len(good))]
		}
		return r.pickID()
	}
	if allowSingle && t.Pick(1, 1) == 0 {
		return member()
	}
	n := 1 + t.Pick(3, 5, 2)
	g := &oidGroup{}
	for i := 0; i < n; i++ {
		g.members = append(g.members, member())
	}
	if t.Prob(1, 6) { // one nested group
		sub := &oidGroup{members: []interface{}{member(), member()}, threshold: uint64(1 + t.Choose(2))}
		g.members = append(g.members, sub)
		r.c.Probe("nested_group")
	}
	switch t.Pick(12, 1, 1) {
	case 0:
		g.threshold = uint64(1 + t.Choose(len(g.members)))
	case 1:
		g.threshold = 0
		r.c.Probe("threshold0_group")
	default:
		g.threshold = uint64(len(g.members) + 1) // not a valid group
	}
	b := g.encode()
	if t.Prob(1, 25) && len(b) > 2 {
		b = b[:len(b)-2] // truncated encoding
	}
	return b
}

func (r *c45Run) pickPub() []byte {
	t := r.c.Tape
	if t.Prob(1, 16) {
		return append([]byte{0x02}, t.Bytes(4)...) // not a key
	}
	return r.accts[t.Choose(len(r.accts))].pub
}

var c45AttrKeys = []string{"a", "b", "c", "dd"}

func (r *c45Run) pickAttrs() []oidAttr {
	t := r.c.Tape
	n := 1 + t.Pick(5, 3, 1)
	var out []oidAttr
	for i := 0; i < n; i++ {
		v := []byte(fmt.Sprintf("v%d", t.Choose(5)))
		if t.Prob(1, 8) {
			v = bytes.Repeat([]byte{'x'}, 300)
		}
		out = append(out, oidAttr{key: []byte(c45AttrKeys[t.Choose(len(c45AttrKeys))]), typ: []byte([]string{"t", "string"}[t.Choose(2)]), val: v})
	}
	return out
}

// methodWeight biases the choice of method by the state of the target.
func (r *c45Run) methodWeight(md *oidMethod, x *oidIdent) int {
	isReg := md.what == oidRegPk || md.what == oidRegAttrs || md.what == oidRegCtrl
	switch x.state {
	case oidNone:
		switch md.what {
		case oidRegPk:
			return 60
		case oidRegAttrs:
			return 12
		case oidRegCtrl:
			return 60
		}
		return 1
	case oidRevoked:
		if isReg {
			return 6
		}
		return 2
	}
	w := 6
	switch md.how {
	case oidByCtrl:
		w = 2
		if x.ctrl != nil {
			w = 18
		}
	case oidByRec:
		w = 2
		if x.recVer == 1 {
			w = 20
		}
	case oidByOldRec:
		w = 2
		if x.recVer == 0 {
			w = 20
		}
	case oidByIndex, oidByOpKey:
		if len(x.liveAuthIndexes()) == 0 {
			w = 2
		}
	}
	if (md.what == oidAddKey || md.what == oidAddAuthKey) && len(x.keys) == 0 {
		w *= 2
	}
	switch md.what {
	case oidRevoke:
		w = (w + 3) / 4
	case oidAddProof:
		w = 1
	case oidSetRec, oidAddRecOld:
		w += 4
	case oidRmCtrl, oidRmRec:
		w = (w + 1) / 2
	case oidUpdSvc, oidRmSvc:
		if len(x.svcs) > 0 {
			w *= 4
		}
	case oidRmAttr:
		if len(x.attrs) > 0 {
			w *= 3
		}
	}
	if isReg {
		w = 2
	}
	return w
}

func (r *c45Run) gen() *oidOp {
	t := r.c.Tape
	o := &oidOp{}
	// target
	if t.Prob(1, 20) {
		o.id = r.extra[t.Choose(len(r.extra))]
	} else {
		o.id = r.ids[t.Pick(4, 3, 3)]
	}
	x := r.m.get(o.id)
	// method
	ws := make([]int, len(oidMethods))
	for i := range oidMethods {
		ws[i] = r.methodWeight(&oidMethods[i], x)
	}
	o.m = &oidMethods[t.Pick(ws...)]
	// arguments
	switch o.m.what {
	case oidRegPk, oidRegAttrs:
		o.pk = r.pickPub()
		if t.Prob(3, 4) { // the identity's "own" key, when it is one of ours
			for i, id := range r.ids {
				if bytes.Equal(id, o.id) {
					o.pk = r.accts[i].pub
				}
			}
		}
		if o.m.what == oidRegAttrs {
			o.attrs = r.pickAttrs()
		}
	case oidRegCtrl:
		o.group = r.pickGroup(o.id, true)
	case oidAddKey, oidAddAuthKey:
		o.pk = r.pickPub()
		o.hasKC = t.Prob(1, 3)
		o.kctrl = o.id
		if o.hasKC || o.m.what == oidAddAuthKey {
			if t.Bool() {
				o.kctrl = r.pickID()
			}
		}
	case oidRmKeyPk:
		o.pk = r.pickPub()
		if len(x.keys) > 0 && t.Prob(4, 5) {
			o.pk = x.keys[t.Choose(len(x.keys))].pub
		}
	case oidRmKeyIdx, oidSetAuth, oidRmAuth:
		o.kidx = uint64(t.Choose(len(x.keys) + 2))
		if len(x.keys) > 0 && t.Prob(3, 4) {
			o.kidx = uint64(1 + t.Choose(len(x.keys)))
		}
	case oidAddAttrs:
		o.attrs = r.pickAttrs()
	case oidRmAttr:
		o.path = []byte(c45AttrKeys[t.Choose(len(c45AttrKeys))])
		if len(x.attrs) > 0 && t.Prob(3, 4) {
			o.path = x.attrs[t.Choose(len(x.attrs))].key
		}
	case oidSetRec, oidUpdRec:
		o.group = r.pickGroup(o.id, false)
	case oidAddRecOld, oidChgRecOld:
		o.addr = r.accts[3+t.Choose(3)].addr[:]
		if t.Prob(1, 20) {
			o.addr = o.addr[:19]
		}
	case oidAddSvc, oidUpdSvc, oidRmSvc:
		o.svc = oidSvc{id: []byte([]string{"s1", "s2"}[t.Choose(2)]), typ: []byte("T"), ep: []byte(fmt.Sprintf("http://e/%d", t.Choose(4)))}
	case oidAddCtx, oidRmCtx:
		all := []string{"ctx1", "ctx2", "https://www.w3.org/ns/did/v1"}
		n := 1 + t.Choose(3)
		for i := 0; i < n; i++ {
			o.ctxs = append(o.ctxs, []byte(all[t.Choose(len(all))]))
		}
	}
	// authorisation claim
	switch o.m.how {
	case oidByIndex, oidByIndexNoAuth:
		o.signIdx = r.pickIndex(o.id)
		if o.signIdx > 1<<32 {
			r.c.Probe("truncated_index_used")
		}
	case oidByOpKey:
		live := x.liveAuthIndexes()
		switch t.Pick(13, 3, 2, 2) {
		case 0:
			o.opKey = r.accts[t.Choose(len(r.accts))].pub
			if len(live) > 0 {
				o.opKey = x.keys[live[t.Choose(len(live))]-1].pub
			}
		case 1:
			o.opKey = r.accts[t.Choose(len(r.accts))].pub
		case 2:
			o.opKey = r.accts[3+t.Choose(3)].addr[:]
			if x.recVer == 0 {
				o.opKey = x.rec
			}
		default:
			o.opKey = r.accts[t.Choose(len(r.accts))].pub
			if len(x.keys) > 0 {
				o.opKey = x.keys[t.Choose(len(x.keys))].pub
			}
		}
	case oidByCtrl:
		o.proof = r.pickProof(x.ctrl)
	case oidByArgCtrl:
		o.proof = r.pickProof(o.group)
	case oidByRec:
		var g *oidGroup
		if x.recVer == 1 {
			g = oidParseGroup(x.rec, 0)
		}
		o.rsig = r.pickSigners(g)
		if g == nil && len(o.rsig) == 0 {
			id := r.pickID()
			o.rsig = []oidSigner{{id: id, index: r.pickIndex(id)}}
		}
	case oidByOldRec:
		o.oldRec = r.accts[3+t.Choose(3)].addr[:]
		if x.recVer == 0 && t.Prob(5, 6) {
			o.oldRec = x.rec
		}
	}
	o.signers = r.pickTxSigners(o)
	return o
}

// claimed lists the accounts holding the keys a call claims to act with.
func (r *c45Run) claimed(o *oidOp) []*oidAcct {
	var out []*oidAcct
	add := func(a *oidAcct) {
		if a == nil {
			return
		}
		for _, b := range out {
			if a == b {
				return
			}
		}
		out = append(out, a)
	}
	keyAt := func(id []byte, idx uint64) {
		x := r.m.get(id)
		if i := uint32(idx); i >= 1 && int64(i) <= int64(len(x.keys)) {
			add(r.acctByPub(x.keys[i-1].pub))
		}
	}
	sigs := func(s []oidSigner) {
		for _, v := range s {
			keyAt(v.id, v.index)
		}
	}
	switch o.m.how {
	case oidByNewKey:
		add(r.acctByPub(o.pk))
	case oidByIndex, oidByIndexNoAuth:
		keyAt(o.id, o.signIdx)
	case oidByOpKey:
		add(r.acctByPub(o.opKey))
		add(r.acctByAddr(o.opKey))
	case oidByCtrl, oidByArgCtrl:
		if o.proof.single {
			ctrl := r.m.get(o.id).ctrl
			if o.m.how == oidByArgCtrl {
				ctrl = o.group
			}
			if ctrl != nil {
				keyAt(ctrl, o.proof.index)
			}
		} else {
			sigs(o.proof.signers)
		}
	case oidByRec:
		sigs(o.rsig)
	case oidByOldRec:
		add(r.acctByAddr(o.oldRec))
	}
	return out
}

// pickTxSigners chooses who signs the transaction, independently of what the
// call claims.
func (r *c45Run) pickTxSigners(o *oidOp) []*oidAcct {
	t := r.c.Tape
	cl := r.claimed(o)
	if len(cl) > 3 {
		cl = cl[:3]
	}
	random := func(max int) []*oidAcct {
		k := t.Choose(max + 1)
		perm := t.Perm(len(r.accts))
		var out []*oidAcct
		for i := 0; i < k; i++ {
			out = append(out, r.accts[perm[i]])
		}
		return out
	}
	switch t.Pick(12, 2, 4, 1, 3) {
	case 0:
		return cl
	case 1:
		out := append([]*oidAcct(nil), cl...)
		for _, a := range random(1) {
			dup := false
			for _, b := range out {
				if a == b {
					dup = true
				}
			}
			if !dup && len(out) < 3 {
				out = append(out, a)
			}
		}
		return out
	case 2:
		return random(3)
	case 3:
		return nil
	default: // one claimed key does not sign; a stranger signs instead of a single claimed key
		if len(cl) == 0 {
			return random(1)
		}
		drop := t.Choose(len(cl))
		var out []*oidAcct
		for i, a := range cl {
			if i != drop {
				out = append(out, a)
			}
		}
		if len(out) == 0 {
			for _, a := range random(1) {
				if a != cl[0] {
					out = append(out, a)
				}
			}
		}
		return out
	}
}

// ---------------------------------------------------------------- execution

func (r *c45Run) runBlock(ops []*oidOp) {
	c := r.c
	var txs []*types.Transaction
	ts := r.ch.Now + uint32(1+c.Tape.Choose(30))
	c.Logf("block %d ts=%d", r.ch.Height()+1, ts)
	for i, o := range ops {
		txs = append(txs, oidSeal(c, oidCode(nutils.OntIDContractAddress, o.m.name, o.fields()), r.nonce, o.signers))
		r.nonce++
		c.Logf("  tx%d %s", i, o.String())
	}
	blk := r.ch.MakeBlock(txs, ts, uint64(r.nonce))
	res, err := r.ch.Commit(blk)
	if err != nil {
		c.Fail("block-refused", "commit", "block %d with %d ONT ID calls is refused: %v", blk.Header.Height, len(txs), err)
	}
	r.blocks++
	if len(res.Notify) != len(txs) {
		c.Fail("notify-missing", "execute-result", "block %d: %d transactions, %d notifies", blk.Header.Height, len(txs), len(res.Notify))
	}
	anyOK := false
	touched := map[string]bool{}
	for i, o := range ops {
		n := oidNotify(c, r.ch, txs[i])
		if n.State != res.Notify[i].State {
			c.Fail("notify-differs", "event-store", "tx %d of block %d: stored state %d, executed state %d", i, blk.Header.Height, n.State, res.Notify[i].State)
		}
		ok := n.State == event.CONTRACT_STATE_SUCCESS
		v := r.m.judge(o)
		out := "FAIL"
		if ok {
			out = "ok"
		}
		c.Logf("  tx%d => %s", i, out)
		touched[string(o.id)] = true
		if !ok && len(n.Notify) != 0 {
			c.Fail("failed-call-left-events", o.m.name, "block %d tx %d: %s failed but left %d events", blk.Header.Height, i, o.String(), len(n.Notify))
		}
		if ok {
			anyOK = true
			if v.revoked {
				c.Fail("revoked-identity-modified", o.m.name, "block %d tx %d: %s succeeded although %s had been revoked", blk.Header.Height, i, o.String(), oidShort(o.id))
			}
			if !v.authorised {
				c.Fail("unauthorised-success", o.m.name, "block %d tx %d: %s succeeded; the model finds it not witnessed as %s requires (%s)", blk.Header.Height, i, o.String(), oidShort(o.id), r.describeAuth(o))
			}
			c.Probe("ok_" + o.m.name)
			r.probeKinds(o)
			if v.pre != "" {
				c.Probe("predict_said_fail_node_ok")
				c.Logf("    (the model expected a failure: %s)", v.pre)
			} else {
				c.Probe("predict_ok_match")
			}
			if v.mutates {
				r.m.apply(o, ts)
				if o.m.what != oidRegPk && o.m.what != oidRegAttrs && o.m.what != oidRegCtrl {
					r.okMut++
				}
			}
		} else {
			switch {
			case !v.authorised || v.pre != "" || v.revoked:
				c.Probe("predict_fail_match")
			default:
				c.Probe("predict_said_ok_node_failed")
				c.Probe("unexplained_fail_" + o.m.name)
				c.Logf("    (the model saw no reason for this failure)")
			}
			r.probeRefusal(o, v)
		}
	}
	r.checkState(fmt.Sprintf("after block %d", blk.Header.Height), anyOK, touched)
	c.State("c45", r.digest())
}

func (r *c45Run) describeAuth(o *oidOp) string {
	x := r.m.get(o.id)
	s := fmt.Sprintf("state=%d keys=[", x.state)
	for i, k := range x.keys {
		if i > 0 {
			s += " "
		}
		s += oidShort(k.pub)
		if k.revoked {
			s += ":revoked"
		}
		if k.auth {
			s += ":auth"
		}
	}
	s += "]"
	if x.ctrl != nil {
		s += " controller=" + oidShort(x.ctrl)
	}
	if x.recVer >= 0 {
		s += fmt.Sprintf(" recovery(v%d)=%s", x.recVer, oidShort(x.rec))
	}
	return s
}

func (r *c45Run) probeKinds(o *oidOp) {
	c := r.c
	x := r.m.get(o.id)
	switch o.m.how {
	case oidByCtrl:
		if x.ctrl != nil && !oidIsID(x.ctrl) {
			c.Probe("group_controller")
		}
	case oidByArgCtrl:
		if !oidIsID(o.group) {
			c.Probe("group_controller")
		}
	case oidByOpKey:
		if r.m.oldRecAuth(x, o.opKey, oidWitOf(o.signers)) {
			c.Probe("old_recovery_used")
		}
	case oidByOldRec:
		c.Probe("old_recovery_used")
	}
}

// probeRefusal classifies refusals that had no reason but authorisation.
func (r *c45Run) probeRefusal(o *oidOp, v oidVerdict) {
	c := r.c
	x := r.m.get(o.id)
	if v.revoked {
		c.Probe("refused_on_revoked_identity")
		if o.m.how == oidByNewKey || o.m.how == oidByArgCtrl {
			c.Probe("refused_reregistration_of_revoked")
		}
		return
	}
	if v.authorised || v.pre != "" {
		return
	}
	r.refuse++
	switch o.m.how {
	case oidByIndex:
		i := uint32(o.signIdx)
		if i >= 1 && int64(i) <= int64(len(x.keys)) {
			k := x.keys[i-1]
			switch {
			case k.revoked:
				c.Probe("refused_revoked_key")
			case !k.auth:
				c.Probe("refused_key_without_auth_right")
			default:
				c.Probe("refused_unwitnessed")
			}
		}
	case oidByCtrl, oidByRec, oidByArgCtrl:
		var g *oidGroup
		sig := o.rsig
		switch o.m.how {
		case oidByCtrl:
			if x.ctrl != nil && !oidIsID(x.ctrl) {
				g = oidParseGroup(x.ctrl, 0)
			}
			sig = o.proof.signers
		case oidByArgCtrl:
			if !oidIsID(o.group) {
				g = oidParseGroup(o.group, 0)
			}
			sig = o.proof.signers
		case oidByRec:
			if x.recVer == 1 {
				g = oidParseGroup(x.rec, 0)
			}
		}
		if g != nil && !oidThresholdMet(g, sig) {
			c.Probe("refused_group_below_threshold")
		} else {
			c.Probe("refused_unwitnessed")
		}
	default:
		c.Probe("refused_unwitnessed")
	}
}

func (r *c45Run) digest() string {
	h := sha256.New()
	for i, id := range r.ids {
		x := r.m.get(id)
		fmt.Fprintf(h, "%d:%d c=%v r=%d|", i, x.state, x.ctrl != nil, x.recVer)
		for _, k := range x.keys {
			fmt.Fprintf(h, "%v%v%v,", k.revoked, k.auth, k.pkList)
		}
		fmt.Fprintf(h, "a%d s%d x%d;", len(x.attrs), len(x.svcs), len(x.ctxs))
	}
	return fmt.Sprintf("%x", h.Sum(nil)[:8])
}

// ---------------------------------------------------------------- state oracle

func (r *c45Run) stateFail(anyOK bool, what, format string, a ...interface{}) {
	oracle := "state-differs-from-model"
	if !anyOK {
		oracle = "failed-call-changed-state"
	}
	r.c.Fail(oracle, what, format, a...)
}

// checkState compares the ONT ID contract's storage and its query methods
// with the model.
func (r *c45Run) checkState(when string, anyOK bool, touched map[string]bool) {
	c := r.c
	kvs, err := r.ch.Disk.DumpStore("states")
	c.Must(err, "dump state store")
	stored, err := oidScan(kvs)
	if err != nil {
		c.Fail("undecodable-ontid-entry", "storage", "%s: %v", when, err)
	}
	for _, id := range oidSortedKeys(stored) {
		if r.m.ids[id] == nil || r.m.ids[id].state == oidNone {
			r.stateFail(anyOK, "unknown-identity", "%s: storage holds entries for %s, which no successful call registered", when, oidShort([]byte(id)))
		}
	}
	all := append(append([][]byte(nil), r.ids...), r.extra...)
	for _, id := range all {
		x := r.m.get(id)
		st := stored[string(id)]
		name := oidShort(id)
		switch x.state {
		case oidNone:
			if st != nil {
				r.stateFail(anyOK, "unknown-identity", "%s: storage holds entries for unregistered %s", when, name)
			}
		case oidRevoked:
			if st == nil || len(st.attr) != 0 || len(st.field) != 1 || !bytes.Equal(st.field[0], []byte{0, 1, oidRevoked}) {
				r.stateFail(anyOK, "revoked-identity-not-bare", "%s: revoked %s must own exactly its tombstone, storage has %s", when, name, oidStoredString(st))
			}
		case oidValid:
			r.checkStored(when, anyOK, id, x, st)
		}
		if touched == nil || touched[string(id)] {
			r.checkQueries(when, anyOK, id, x)
		}
	}
}

func oidStoredString(st *oidStored) string {
	if st == nil {
		return "nothing"
	}
	s := ""
	for f := 0; f < 256; f++ {
		if v, ok := st.field[byte(f)]; ok {
			s += fmt.Sprintf("field%d=%x ", f, v)
		}
	}
	return s + fmt.Sprintf("attrs=%d", len(st.attr))
}

// checkStored compares the stored key list, controller, recovery and flag of
// a valid identity with the model.
func (r *c45Run) checkStored(when string, anyOK bool, id []byte, x *oidIdent, st *oidStored) {
	name := oidShort(id)
	if st == nil || !bytes.Equal(st.field[0], []byte{0, 1, oidValid}) {
		r.stateFail(anyOK, "flag", "%s: %s should be registered, storage has %s", when, name, oidStoredString(st))
	}
	// keys
	var got []*oidKey
	if raw, ok := st.field[1]; ok {
		ver, val, ok := oidRawItem(raw)
		if !ok || ver != 1 {
			r.stateFail(anyOK, "keys", "%s: key list of %s is not a version-1 item: %x", when, name, raw)
		}
		src := common.NewZeroCopySource(val)
		for src.Len() > 0 {
			k := &oidKey{}
			var e1, e2, e3, i1, i2, i3 bool
			var ok1, ok2 bool
			k.pub, ok1 = oidReadBytes(src)
			k.revoked, i1, e1 = src.NextBool()
			k.ctrl, ok2 = oidReadBytes(src)
			k.pkList, i2, e2 = src.NextBool()
			k.auth, i3, e3 = src.NextBool()
			if !ok1 || !ok2 || e1 || e2 || e3 || i1 || i2 || i3 {
				r.stateFail(anyOK, "keys", "%s: key list of %s does not parse: %x", when, name, val)
			}
			got = append(got, k)
		}
	}
	if len(got) != len(x.keys) {
		r.stateFail(anyOK, "keys", "%s: %s has %d stored keys, the model %d", when, name, len(got), len(x.keys))
	}
	for i, k := range x.keys {
		g := got[i]
		if !bytes.Equal(g.pub, k.pub) || g.revoked != k.revoked || g.auth != k.auth || g.pkList != k.pkList || !bytes.Equal(g.ctrl, k.ctrl) {
			r.stateFail(anyOK, "keys", "%s: key %d of %s is stored as {%s revoked=%v auth=%v list=%v label=%s}, the model has {%s revoked=%v auth=%v list=%v label=%s}",
				when, i+1, name, oidShort(g.pub), g.revoked, g.auth, g.pkList, oidShort(g.ctrl), oidShort(k.pub), k.revoked, k.auth, k.pkList, oidShort(k.ctrl))
		}
	}
	// controller
	raw, has := st.field[4]
	if has != (x.ctrl != nil) {
		r.stateFail(anyOK, "controller", "%s: %s controller stored=%v, model=%v", when, name, has, x.ctrl != nil)
	}
	if has {
		_, val, ok := oidRawItem(raw)
		if !ok || !bytes.Equal(val, x.ctrl) {
			r.stateFail(anyOK, "controller", "%s: controller of %s is stored as %x, the model has %x", when, name, raw, x.ctrl)
		}
	}
	// recovery
	raw, has = st.field[3]
	if has != (x.recVer >= 0) {
		r.stateFail(anyOK, "recovery", "%s: %s recovery stored=%v, model version %d", when, name, has, x.recVer)
	}
	if has {
		ver, val, ok := oidRawItem(raw)
		if !ok || int(ver) != x.recVer || !bytes.Equal(val, x.rec) {
			r.stateFail(anyOK, "recovery", "%s: recovery of %s is stored as %x, the model has version %d %x", when, name, raw, x.recVer, x.rec)
		}
	}
	// attributes: one node per model attribute (order and values are checked through the queries)
	if len(st.attr) != len(x.attrs) {
		r.stateFail(anyOK, "attributes", "%s: %s has %d stored attribute nodes, the model %d", when, name, len(st.attr), len(x.attrs))
	}
}

// the JSON document of the contract, rebuilt from the model
type c45KeyJSON struct {
	Id           string `json:"id"`
	Type         string `json:"type"`
	Controller   string `json:"controller"`
	PublicKeyHex string `json:"publicKeyHex"`
}
type c45GroupJSON struct {
	Members   []interface{} `json:"members"`
	Threshold uint          `json:"threshold"`
}
type c45SvcJSON struct {
	Id              string `json:"id"`
	Type            string `json:"type"`
	ServiceEndpoint string `json:"serviceEndpoint"`
}
type c45AttrJSON struct {
	Key   string `json:"key"`
	Type  string `json:"type"`
	Value string `json:"value"`
}
type c45Doc struct {
	Contexts       []string       `json:"@context"`
	Id             string         `json:"id"`
	PublicKey      []*c45KeyJSON  `json:"publicKey"`
	Authentication []interface{}  `json:"authentication"`
	Controller     interface{}    `json:"controller"`
	Recovery       *c45GroupJSON  `json:"recovery"`
	Service        []*c45SvcJSON  `json:"service"`
	Attribute      []*c45AttrJSON `json:"attribute"`
	Created        uint32         `json:"created"`
	Updated        uint32         `json:"updated"`
	Proof          string         `json:"proof"`
}

func c45GroupToJSON(g *oidGroup) *c45GroupJSON {
	out := &c45GroupJSON{Members: make([]interface{}, len(g.members)), Threshold: uint(g.threshold)}
	for i, m := range g.members {
		switch t := m.(type) {
		case []byte:
			out.Members[i] = string(t)
		case *oidGroup:
			out.Members[i] = c45GroupToJSON(t)
		}
	}
	return out
}

func c45KeyJSONOf(id []byte, i int, k *oidKey) *c45KeyJSON {
	// all generated keys are compressed P-256 ECDSA keys
	return &c45KeyJSON{Id: fmt.Sprintf("%s#keys-%d", id, i+1), Type: "EcdsaSecp256r1VerificationKey2019", Controller: string(k.ctrl), PublicKeyHex: fmt.Sprintf("%x", k.pub)}
}

func (r *c45Run) expectDoc(id []byte, x *oidIdent) *c45Doc {
	d := &c45Doc{Id: string(id), Created: x.created, Updated: x.updated}
	d.Contexts = []string{"https://www.w3.org/ns/did/v1", "https://ontid.ont.io/did/v1"}
	for _, c := range x.ctxs {
		d.Contexts = append(d.Contexts, string(c))
	}
	d.PublicKey = []*c45KeyJSON{}
	d.Authentication = []interface{}{}
	for i, k := range x.keys {
		if k.revoked {
			continue
		}
		d.PublicKey = append(d.PublicKey, c45KeyJSONOf(id, i, k))
		if k.auth && !k.pkList {
			d.Authentication = append(d.Authentication, c45KeyJSONOf(id, i, k))
		}
		if k.auth && k.pkList {
			d.Authentication = append(d.Authentication, fmt.Sprintf("%s#keys-%d", id, i+1))
		}
	}
	if x.ctrl != nil {
		if oidIsID(x.ctrl) {
			d.Controller = string(x.ctrl)
		} else if g := oidParseGroup(x.ctrl, 0); g != nil {
			d.Controller = c45GroupToJSON(g)
		}
	}
	if x.recVer == 1 {
		if g := oidParseGroup(x.rec, 0); g != nil {
			d.Recovery = c45GroupToJSON(g)
		}
	}
	d.Service = []*c45SvcJSON{}
	for _, s := range x.svcs {
		d.Service = append(d.Service, &c45SvcJSON{Id: fmt.Sprintf("%s#%s", id, s.id), Type: string(s.typ), ServiceEndpoint: string(s.ep)})
	}
	for _, a := range x.attrs {
		d.Attribute = append(d.Attribute, &c45AttrJSON{Key: fmt.Sprintf("%s#%s", id, a.key), Type: string(a.typ), Value: string(a.val)})
	}
	return d
}

func (r *c45Run) query(method string, fields ...[]byte) ([]byte, bool) {
	b, ok, _ := oidQuery(r.c, r.ch, nutils.OntIDContractAddress, method, fields, nil)
	return b, ok
}

// checkQueries compares the contract's own query methods with the model.
func (r *c45Run) checkQueries(when string, anyOK bool, id []byte, x *oidIdent) {
	name := oidShort(id)
	if !oidValidIDLen(id) {
		return
	}
	doc, ok := r.query("getDocumentJson", id)
	if x.state != oidValid {
		if !ok || len(doc) != 0 {
			r.stateFail(anyOK, "document", "%s: getDocumentJson(%s) answers %q (ok=%v) for an identity in state %d", when, name, doc, ok, x.state)
		}
		ks, ok := r.query("getKeyState", id, oidUint(1))
		if !ok || len(ks) != 0 {
			r.stateFail(anyOK, "key-state", "%s: getKeyState(%s,1) answers %q (ok=%v) for an identity in state %d", when, name, ks, ok, x.state)
		}
		return
	}
	want, err := json.Marshal(r.expectDoc(id, x))
	r.c.Must(err, "marshal expected document")
	if !ok || !bytes.Equal(doc, want) {
		r.stateFail(anyOK, "document", "%s: getDocumentJson(%s) (ok=%v)\n   node : %s\n   model: %s", when, name, ok, doc, want)
	}
	// key states, one past the end included
	for i := 0; i <= len(x.keys); i++ {
		ks, ok := r.query("getKeyState", id, oidUint(uint64(i+1)))
		switch {
		case i == len(x.keys):
			if ok && len(ks) != 0 && string(ks) != "not exist" {
				r.stateFail(anyOK, "key-state", "%s: getKeyState(%s,%d) answers %q for a key that does not exist", when, name, i+1, ks)
			}
		case x.keys[i].revoked:
			if !ok || string(ks) != "revoked" {
				r.stateFail(anyOK, "key-state", "%s: getKeyState(%s,%d) answers %q (ok=%v), the model has a revoked key", when, name, i+1, ks, ok)
			}
		default:
			if !ok || string(ks) != "in use" {
				r.stateFail(anyOK, "key-state", "%s: getKeyState(%s,%d) answers %q (ok=%v), the model has a key in use", when, name, i+1, ks, ok)
			}
		}
	}
	// public keys
	pk, ok := r.query("getPublicKeysJson", id)
	wantPk, _ := json.Marshal(r.expectDoc(id, x).PublicKey)
	if !ok || !bytes.Equal(pk, wantPk) {
		r.stateFail(anyOK, "public-keys", "%s: getPublicKeysJson(%s) (ok=%v)\n   node : %s\n   model: %s", when, name, ok, pk, wantPk)
	}
	// controller
	cj, ok := r.query("getControllerJson", id)
	wantC, _ := json.Marshal(r.expectDoc(id, x).Controller)
	if !ok || !bytes.Equal(cj, wantC) {
		r.stateFail(anyOK, "controller", "%s: getControllerJson(%s) (ok=%v)\n   node : %s\n   model: %s", when, name, ok, cj, wantC)
	}
	// attributes, binary form
	at, ok := r.query("getAttributes", id)
	sink := common.NewZeroCopySink(nil)
	for _, a := range x.attrs {
		sink.WriteVarBytes(a.key)
		sink.WriteVarBytes(a.typ)
		sink.WriteVarBytes(a.val)
	}
	if !ok || !bytes.Equal(at, sink.Bytes()) {
		r.stateFail(anyOK, "attributes", "%s: getAttributes(%s) (ok=%v) = %x, the model has %x", when, name, ok, at, sink.Bytes())
	}
	// deprecated queries: only probed
	if _, ok := r.query("getPublicKeys", id); !ok {
		r.c.Probe("deprecated_getPublicKeys_fails")
	}
	if _, ok := r.query("getDDO", id); !ok {
		r.c.Probe("deprecated_getDDO_fails")
	}
}
