package props

import (
	"bytes"
	"fmt"

	"github.com/ontio/ontology-crypto/keypair"
	csig "github.com/ontio/ontology-crypto/signature"
	"github.com/ontio/ontology/common"
	"github.com/ontio/ontology/core/payload"
	"github.com/ontio/ontology/core/signature"
	"github.com/ontio/ontology/core/types"
	"github.com/ontio/ontology/core/validation"
	ontErrors "github.com/ontio/ontology/errors"
	tc "github.com/ontio/ontology/txnpool/common"
	"github.com/ontio/ontology/vm/neovm"

	"ontosim/simkit"
	"ontosim/world"
)

// C16, C19, C20: the only simulator dimension is in-flight corruption / forgery
// by a faulty client, relay or peer on the way to the node (DESIGN 7): a valid
// artefact is built, the tape alters it on the wire, the node's intake decides.

func init() {
	simkit.Register(&simkit.Prop{
		ID:             "C16",
		Desc:           "only correctly signed transactions paid by a signer are accepted",
		Rule:           "a run = 8..40 client transactions (1..3 signature sets, single keys of every scheme incl. Ethereum-type, m-of-n groups, canonical and hand-assembled scripts) each altered in flight by a tape-chosen fault: none / one byte anywhere / a byte inside a signature / a signature cut to 0..63 bytes / the payer / a signature set spliced in from another transaction / set duplicated / set dropped / m lowered in the script / a key listed twice with two signatures of the same signer / m signatures by fewer than m distinct members (a member signs twice, adjacent or not). The unaltered accepted transactions are then put into a real txnpool/common.TXPool and a faulty proposer's block carries, for each, the same unsigned body (same hash) with another signature section (garbage signature / an extra never-signing account's script with an arbitrary signature / a set dropped / signatures over another hash): TXPool.GetUnverifiedTxs decides which go to the validator, the rest count as verified; the same oracle applies to every transaction the block verification accepts. A third of the transactions reach the validator after the tx pool's sender-limit check (GetSignatureAddresses on the same object, as for the transactions of a proposed block). The node's intake (TransactionFromRawBytes + validation.VerifyTransaction) must accept only if an independent verifier accepts: every set has >= m DISTINCT listed keys with a valid signature over the transaction hash and the payer is an account of one of the sets. non-trivial = >= 1 altered transaction accepted-or-rejected with the oracle evaluated and >= 1 unaltered accepted; distinct = distinct event-trace hash",
		Real:           []string{"core/types transaction decoding", "core/validation.VerifyTransaction", "core/program script parsing", "core/signature, ontology-crypto"},
		Stub:           []string{"client and corrupting link (harness)", "independent verifier (harness; uses the repo's script PARSER for structure, its own distinct-key counting and ontology-crypto for signatures)"},
		Assumptions:    []string{"the direction checked is 'accepted only if' (soundness); an honest transaction being rejected is only counted (probe)", "script structure is taken from core/program.GetProgramInfo (trusted for structure, not for counting)"},
		ExpectedProbes: []string{"unaltered_accepted", "altered_rejected", "altered_still_accepted_and_valid"},
		Run:            runC16,
	})
}

// c16Oracle independently decides whether the decoded transaction is properly
// authorised. Returns "" if yes, else the reason.
func c16Oracle(tx *types.Transaction) string {
	hash := tx.Hash()
	if len(tx.Sigs) == 0 {
		return "no signature set"
	}
	payerOK := false
	for i, rs := range tx.Sigs {
		sig, err := rs.GetSig()
		if err != nil {
			return fmt.Sprintf("set %d: unparsable script", i)
		}
		m := int(sig.M)
		if m <= 0 || m > len(sig.PubKeys) {
			return fmt.Sprintf("set %d: bad threshold", i)
		}
		distinct := map[string]bool{}
		for _, pk := range sig.PubKeys {
			ser := string(keypair.SerializePublicKey(pk))
			if distinct[ser] {
				continue
			}
			for _, sg := range sig.SigData {
				if c16SigValid(pk, hash[:], sg) {
					distinct[ser] = true
					break
				}
			}
		}
		if len(distinct) < m {
			return fmt.Sprintf("set %d: only %d distinct keys with a valid signature, threshold %d of %d listed", i, len(distinct), m, len(sig.PubKeys))
		}
		// the account of this set, by either derivation in use
		var a1 common.Address
		if len(sig.PubKeys) == 1 {
			a1 = types.AddressFromPubKey(sig.PubKeys[0])
		} else {
			a1, _ = types.AddressFromMultiPubKeys(sig.PubKeys, m)
		}
		a2 := common.AddressFromVmCode(rs.Verify)
		if tx.Payer == a1 || tx.Payer == a2 {
			payerOK = true
		}
	}
	if !payerOK {
		return "payer is not an account of any signature set"
	}
	return ""
}

// c16SigValid verifies with the crypto library directly (not through the node's
// core/signature wrapper, which is part of what is being judged); a panic of the
// library on malformed input means "not valid".
func c16SigValid(pk keypair.PublicKey, data, sig []byte) (ok bool) {
	defer func() {
		if recover() != nil {
			ok = false
		}
	}()
	so, err := csig.Deserialize(sig)
	if err != nil {
		return false
	}
	return csig.Verify(pk, data, so)
}

// sigSection finds where the signature section starts in Ontology-format bytes.
func sigSectionStart(raw []byte) int {
	tx, err := types.TransactionFromRawBytes(append([]byte(nil), raw...))
	if err != nil || tx.IsEipTx() {
		return -1
	}
	mt, err := tx.IntoMutable()
	if err != nil {
		return -1
	}
	mt.Sigs = nil
	im, err := mt.IntoImmutable()
	if err != nil {
		return -1
	}
	return len(im.Raw) - 1
}

func runC16(c *simkit.Ctx) {
	func() {
		t := c.Tape
		w := newClWorld(c, -1)
		n := 8 + t.Choose(33)
		var prevSets []clSigSet
		var valid []c16Valid
		unalteredOK, evaluated := 0, 0
		for i := 0; i < n; i++ {
			// a valid Ontology-format transaction, keeping its parts
			ns := 1 + t.Choose(3)
			perm := t.Perm(len(w.parties))
			var signers []*clParty
			for k := 0; k < ns; k++ {
				signers = append(signers, w.parties[perm[k]])
			}
			payer := signers[0].addr(c)
			w.nonce++
			code := w.transferCode("ont", payer, w.parties[t.Choose(len(w.parties))].addr(c), uint64(1+t.Choose(9)))
			mt := world.InvokeTx(code, uint64(t.Choose(3))*500, 20000+uint64(t.Choose(3))*10000, w.nonce, payer)
			if t.Prob(1, 8) {
				mt.TxType = types.Deploy
				dc, err := payload.NewDeployCode([]byte{byte(neovm.PUSH1), byte(neovm.PUSH2), byte(t.Choose(256))}, payload.NEOVM_TYPE, "n", "v", "a", "e", "d")
				c.Must(err, "deploy code")
				mt.Payload = dc
			}
			hash := mt.Hash()
			var sets []clSigSet
			for _, p := range signers {
				sets = append(sets, clSignSet(c, p, hash, !t.Prob(1, 3)))
			}
			fault := t.Pick(3, 3, 3, 3, 2, 2, 2, 2, 3, 2)
			name := []string{"none", "flip-any-byte", "flip-signature-byte", "change-payer", "splice-foreign-set", "duplicate-set", "drop-set", "lower-m", "duplicate-key", "repeated-signer"}[fault]
			switch fault {
			case 4:
				if len(prevSets) > 0 {
					sets[t.Choose(len(sets))] = prevSets[t.Choose(len(prevSets))]
				}
			case 5:
				sets = append(sets, sets[t.Choose(len(sets))])
			case 6:
				k := t.Choose(len(sets))
				sets = append(append([]clSigSet{}, sets[:k]...), sets[k+1:]...)
			case 7, 8, 9:
				// rebuild one multi-sig set by hand
				var grp *clParty
				gi := -1
				for k, p := range signers {
					if len(p.accs) > 1 {
						grp, gi = p, k
					}
				}
				if grp == nil {
					// make the payer a 2-of-2 of the same key (the classic duplicate-key script)
					grp = &clParty{name: "dup", accs: signers[0].accs[:1], m: 1}
					gi = 0
				}
				switch fault {
				case 7: // script with threshold lowered to m-1 (>=1), only m-1 signatures
					m := grp.m - 1
					if m < 1 {
						m = 1
					}
					var keys [][]byte
					var sigs [][]byte
					for k, a := range grp.accs {
						keys = append(keys, keypair.SerializePublicKey(a.PublicKey))
						if k < m {
							sg, _ := signature.Sign(a, hash[:])
							sigs = append(sigs, sg)
						}
					}
					if len(keys) > 1 {
						sets[gi] = clSigSet{invoke: programFromSigs(sigs), verify: clVerifyScript(keys, m)}
					}
				case 8: // one key listed twice, threshold 2, the one signer signs twice
					a := grp.accs[0]
					k := keypair.SerializePublicKey(a.PublicKey)
					s1, _ := signature.Sign(a, hash[:])
					s2, _ := signature.Sign(a, hash[:])
					sets[gi] = clSigSet{invoke: programFromSigs([][]byte{s1, s2}), verify: clVerifyScript([][]byte{k, k}, 2)}
					// the payer becomes the account of that script so that only the key rule can reject it
					mt.Payer = common.AddressFromVmCode(sets[gi].verify)
					hash = mt.Hash()
					s1, _ = signature.Sign(a, hash[:])
					s2, _ = signature.Sign(a, hash[:])
					sets = []clSigSet{{invoke: programFromSigs([][]byte{s1, s2}), verify: clVerifyScript([][]byte{k, k}, 2)}}
				case 9: // m signatures by fewer than m distinct members: every position tape-chosen, at least one member twice (adjacent or not)
					if grp.m >= 2 && len(grp.accs) > 1 {
						var keys [][]byte
						for _, a := range grp.accs {
							keys = append(keys, keypair.SerializePublicKey(a.PublicKey))
						}
						who := make([]int, grp.m)
						for k := range who {
							who[k] = t.Choose(len(grp.accs))
						}
						who[grp.m-1] = who[t.Choose(grp.m-1)] // the last one repeats an earlier signer
						var sigs [][]byte
						for _, k := range who {
							sg, _ := signature.Sign(grp.accs[k], hash[:])
							sigs = append(sigs, sg)
						}
						sets[gi] = clSigSet{invoke: programFromSigs(sigs), verify: clVerifyScript(keys, grp.m)}
						c.Logf("repeated signer: m=%d n=%d signers by position %v", grp.m, len(grp.accs), who)
					}
				}
			}
			raw := clAssemble(c, mt, sets)
			prevSets = append(prevSets, sets...)
			if len(prevSets) > 6 {
				prevSets = prevSets[len(prevSets)-6:]
			}
			switch fault {
			case 1:
				raw[t.Choose(len(raw))] ^= byte(1 + t.Choose(255))
			case 2:
				if t.Prob(1, 3) {
					// a signature cut short (0..63 bytes) in one of the sets, script rebuilt around it
					k := t.Choose(len(sets))
					if info, err := (&types.RawSig{Invoke: sets[k].invoke, Verify: sets[k].verify}).GetSig(); err == nil && len(info.SigData) > 0 {
						sigs := append([][]byte{}, info.SigData...)
						j := t.Choose(len(sigs))
						cut := t.Choose(len(sigs[j]))
						if cut > 63 {
							cut = t.Choose(64)
						}
						sigs[j] = sigs[j][:cut]
						sets[k] = clSigSet{invoke: programFromSigs(sigs), verify: sets[k].verify}
						raw = clAssemble(c, mt, sets)
						name = "truncated-signature"
						break
					}
				}
				if st := sigSectionStart(raw); st >= 0 && st < len(raw)-4 {
					raw[st+1+t.Choose(len(raw)-st-1)] ^= byte(1 + t.Choose(255))
				}
			case 3:
				raw[22+t.Choose(20)] ^= byte(1 + t.Choose(255)) // version,type,nonce(4),price(8),limit(8) precede the payer
			}
			names := ""
			for _, p := range signers {
				names += p.name + ","
			}
			c.Logf("tx %d fault=%s signers=[%s] %d bytes", i, name, names, len(raw))
			viaBlock := t.Prob(1, 3)
			tx, why := acceptTxVia(raw, viaBlock)
			c.Logf("  -> sender-check-first=%v accepted=%v %s", viaBlock, tx != nil, why)
			if tx == nil {
				if fault == 0 {
					c.Probe("unaltered_rejected")
				} else {
					c.Probe("altered_rejected")
				}
				continue
			}
			evaluated++
			if fault == 0 {
				unalteredOK++
				c.Probe("unaltered_accepted")
				valid = append(valid, c16Valid{mt: mt, sets: sets, raw: raw, signers: signers})
			}
			if reason := c16Oracle(tx); reason != "" {
				c.FailSoft("accepted-without-valid-authorisation", name, "transaction altered by %q was accepted by the node, but %s", name, reason)
				continue
			}
			if fault != 0 {
				c.Probe("altered_still_accepted_and_valid")
			}
		}
		c16BlockIntake(c, w, valid)
		if unalteredOK >= 1 && evaluated >= 2 {
			c.NonTrivial()
		}
	}()
}

type c16Valid struct {
	mt      *types.MutableTransaction
	sets    []clSigSet
	raw     []byte
	signers []*clParty
}

// c16BlockIntake: the second way a transaction is accepted by a consensus node -
// inside a block proposed by another (possibly faulty) peer. The tx pool's
// GetUnverifiedTxs decides which transactions of the proposed block are sent to
// the validator at all; the others count as verified because the pool holds a
// verified transaction of the same hash. The hash of an Ontology-format
// transaction does not cover its signature section, so the proposer can put
// other signature sets under the body of a pooled transaction.
func c16BlockIntake(c *simkit.Ctx, w *clWorld, valid []c16Valid) {
	t := c.Tape
	if len(valid) == 0 {
		return
	}
	pool := tc.NewTxPool()
	height := uint32(5 + t.Choose(100))
	pooled := 0
	for _, v := range valid {
		tx, why := acceptTx(v.raw)
		if tx == nil {
			c.Harness("valid transaction rejected the second time: %s", why)
		}
		vh := height - uint32(t.Choose(2)) // verified at this height or one earlier (stateful re-check only)
		if pool.AddTxList(&tc.VerifiedTx{Tx: tx, VerifiedHeight: vh}) == ontErrors.ErrNoError {
			pooled++
		}
	}
	var blockTxs []*types.Transaction
	var names []string
	for _, v := range valid {
		sets := append([]clSigSet{}, v.sets...)
		variant := t.Pick(2, 3, 3, 2, 2)
		name := []string{"same-bytes", "garbage-signature", "foreign-script-with-garbage-signature", "drop-non-payer-set", "signature-of-other-hash"}[variant]
		switch variant {
		case 1:
			k := t.Choose(len(sets))
			inv := append([]byte(nil), sets[k].invoke...)
			inv[1+t.Choose(len(inv)-1)] ^= byte(1 + t.Choose(255))
			sets[k] = clSigSet{invoke: inv, verify: sets[k].verify}
		case 2:
			// an account that never signed: its canonical script, 64 arbitrary bytes as the signature
			victim := w.parties[t.Choose(len(w.parties))]
			fake := clSignSet(c, victim, sha256d(t.Bytes(8)), true)
			sets = append(sets, fake)
		case 3:
			if len(sets) > 1 {
				sets = sets[:len(sets)-1]
			}
		case 4:
			for k, p := range v.signers {
				sets[k] = clSignSet(c, p, sha256d(t.Bytes(8)), true)
			}
		}
		raw := clAssemble(c, v.mt, sets)
		tx, err := types.TransactionFromRawBytes(raw)
		if err != nil {
			continue
		}
		_ = tx.GetSignatureAddresses() // TXPoolServer.verifyBlock: sender-limit check first
		blockTxs = append(blockTxs, tx)
		names = append(names, name)
	}
	res := pool.GetUnverifiedTxs(blockTxs, height)
	toValidator := map[*types.Transaction]bool{}
	for _, tx := range res.UnverifiedTxs {
		toValidator[tx] = true
	}
	for i, tx := range blockTxs {
		accepted, how := true, "counted as verified (pool holds the hash)"
		if toValidator[tx] {
			how = "sent to the validator"
			accepted = validation.VerifyTransaction(tx) == ontErrors.ErrNoError
			c.Probe("block_tx_sent_to_validator")
		} else {
			c.Probe("block_tx_counted_verified_by_hash")
		}
		c.Logf("proposed block tx %d variant=%s: %s -> accepted=%v", i, names[i], how, accepted)
		if !accepted {
			c.Probe("block_tx_rejected")
			continue
		}
		if reason := c16Oracle(tx); reason != "" {
			c.FailSoft("accepted-without-valid-authorisation", "block-intake/"+names[i],
				"a transaction of a proposed block (variant %q: same unsigned body and hash as a verified pooled transaction, other signature section) is accepted by the consensus node's block verification - %s - but %s; executing the block gives it the witnesses %x",
				names[i], how, reason, tx.GetSignatureAddresses())
		}
	}
}

func programFromSigs(sigs [][]byte) []byte {
	b := neovm.NewParamsBuilder(new(bytes.Buffer))
	for _, sg := range sigs {
		b.EmitPushByteArray(sg)
	}
	return b.ToArray()
}
