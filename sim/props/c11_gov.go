package props

// Shared governance world for C10, C11 and C30: a VBFT-type private chain
// (7 genesis consensus peers) whose native governance contract is driven by a
// tape-generated history of transactions, with the contract's state re-read
// from storage (prefix iteration) after every block.

import (
	"bytes"
	"encoding/hex"
	"fmt"
	"os"
	"sort"
	"strings"

	"github.com/ontio/ontology-crypto/keypair"
	"github.com/ontio/ontology/account"
	"github.com/ontio/ontology/common"
	"github.com/ontio/ontology/common/config"
	"github.com/ontio/ontology/core/payload"
	cstates "github.com/ontio/ontology/core/states"
	"github.com/ontio/ontology/core/store"
	"github.com/ontio/ontology/core/store/leveldbstore"
	"github.com/ontio/ontology/core/store/overlaydb"
	"github.com/ontio/ontology/core/types"
	"github.com/ontio/ontology/smartcontract"
	"github.com/ontio/ontology/smartcontract/event"
	gov "github.com/ontio/ontology/smartcontract/service/native/governance"
	"github.com/ontio/ontology/smartcontract/service/native/ont"
	nutils "github.com/ontio/ontology/smartcontract/service/native/utils"
	"github.com/ontio/ontology/smartcontract/service/neovm"
	"github.com/ontio/ontology/smartcontract/storage"

	"ontosim/simkit"
	"ontosim/world"
)

// govState is the governance-relevant content of the ledger after a block,
// read from storage; maps over addresses/peers come from prefix iteration, so
// they do not depend on the harness's idea of who takes part.
type govState struct {
	Height     uint32
	View       uint32
	ViewHeight uint32
	OntGov     uint64 // ONT balance of the governance contract
	OngGov     uint64 // ONG balance of the governance contract (1e-9 ONG)
	SplitFee   uint64 // SPLIT_FEE counter
	TotalStake map[common.Address]uint64
	Penalty    map[string][2]uint64 // peer -> {InitPos, AuthorizePos}
	FeeAddr    map[common.Address]uint64
	Auth       map[string]*gov.AuthorizeInfo // peer|addr(hex)
	Pool       map[string]*gov.PeerPoolItem  // peer pool of the current view
	Cfg        *gov.Configuration
	GP         *gov.GlobalParam
	GP2        *gov.GlobalParam2
	GasAddr    common.Address
	Black      []string                  // node keys on the black list
	Ont, Ong   map[common.Address]uint64 // balances of the harness accounts
}

func (s *govState) sumStake() (uint64, bool) {
	var t uint64
	for _, v := range s.TotalStake {
		if t+v < t {
			return 0, false
		}
		t += v
	}
	return t, true
}

func (s *govState) sumPenalty() (uint64, bool) {
	var t uint64
	for _, v := range s.Penalty {
		for _, x := range v {
			if t+x < t {
				return 0, false
			}
			t += x
		}
	}
	return t, true
}

func (s *govState) sumFeeAddr() (uint64, bool) {
	var t uint64
	for _, v := range s.FeeAddr {
		if t+v < t {
			return 0, false
		}
		t += v
	}
	return t, true
}

func authKey(peer string, a common.Address) string { return peer + "|" + a.ToHexString() }

// auth returns the authorize record of (peer, address), zero if absent.
func (s *govState) auth(peer string, a common.Address) *gov.AuthorizeInfo {
	if x := s.Auth[authKey(peer, a)]; x != nil {
		return x
	}
	return &gov.AuthorizeInfo{PeerPubkey: peer, Address: a}
}

// govTxRes is one executed transaction of a block.
type govTxRes struct {
	Op     *govOp
	Tx     *types.Transaction
	OK     bool
	Notify []*event.NotifyEventInfo
}

// transfers returns the token transfer events of the transaction for the given
// token contract as (from, to, amount) in the address's base58 form.
type govXfer struct {
	From, To string
	Amount   uint64
}

func (r *govTxRes) transfers(token common.Address) []govXfer {
	var out []govXfer
	for _, n := range r.Notify {
		if n.ContractAddress != token {
			continue
		}
		st, ok := n.States.([]interface{})
		if !ok || len(st) < 4 {
			continue
		}
		if name, _ := st[0].(string); name != "transfer" {
			continue
		}
		from, _ := st[1].(string)
		to, _ := st[2].(string)
		amt, _ := st[3].(uint64)
		out = append(out, govXfer{from, to, amt})
	}
	return out
}

// govDebug (env GOV_DEBUG) prints pre-execution errors of generated
// transactions to stderr; development aid, never influences a run.
var govDebug = os.Getenv("GOV_DEBUG") != ""

type govBlock struct {
	Height    uint32
	Txs       []*govTxRes
	Pre, Post *govState
}

// settled reports whether an epoch was settled (governance view advanced) in
// the block, and which transaction did it.
func (b *govBlock) settled() (*govTxRes, bool) {
	if b.Post.View == b.Pre.View {
		return nil, false
	}
	for _, r := range b.Txs {
		if r.OK && r.Op.Settle {
			return r, true
		}
	}
	return nil, true
}

type govOp struct {
	Kind   string // statistics / probe name
	Desc   string
	Method string
	Param  interface{}
	Token  string           // "ont"/"ong": plain token transfer instead of a governance call
	Signer *account.Account // nil: admin multi-signature
	Short  bool             // admin signature set with one signature too few
	Settle bool             // may execute an epoch settlement (commitDpos / blackNode)
	Actor  common.Address   // address the operation acts for (withdraw bound, accounting)
	NoAcct bool             // token movements of this tx are not the acting address's own deposit/withdrawal (transferPenalty)
}

// govProfile: per-property workload mix.
type govProfile struct {
	Name string
	// relative weights of operation families in the main phase
	WStake, WNode, WFee, WAdmin, WCommit, WInvalid int
	MaxSteps                                       int
}

type govWorld struct {
	c    *simkit.Ctx
	t    *simkit.Tape
	ch   *world.VbftChain
	gov  common.Address
	prof govProfile

	nodes   []*account.Account // 7 genesis peers then 3 candidate nodes (node key = owner account)
	stakers []*account.Account
	dapp    *account.Account // gas (dapp) address
	sink    *account.Account // receiver of transferred penalties
	ghost   *account.Account // a well-formed node key that is never registered
	accts   []*account.Account
	name    map[common.Address]string
	byAddr  map[common.Address]*account.Account
	b58     map[string]common.Address

	nonce uint32
	ts    uint32
	st    *govState

	genesisRecorded uint64 // stake recorded by the genesis block without any ONT moving
	directFunded    uint64 // ONT the harness sent to the governance address by plain transfer
	deposited       map[common.Address]uint64
	withdrawn       map[common.Address]uint64
	settlements     int // epochs settled by the fee-split-to-SplitFeeAddress path (view > 6)
	commits         int
	okCount         map[string]int

	eng      *govEngine // nil: blocks on the ledger
	warpView uint32     // governance view at which the run leaves the ledger
	h0       uint32     // pretended height after the warp

	onBlock        func(b *govBlock)
	beforeEpochEnd func() // called before a commitDpos of the main phase (the state an epoch could end in)
}

func (w *govWorld) nm(a common.Address) string {
	if n, ok := w.name[a]; ok {
		return n
	}
	if a == w.gov {
		return "GOV"
	}
	return a.ToBase58()[:8]
}

func (w *govWorld) nodeName(pk string) string {
	for _, n := range w.nodes {
		if world.PubHex(n) == pk {
			return w.name[n.Address]
		}
	}
	if pk == world.PubHex(w.ghost) {
		return "GHOST"
	}
	return pk[:8]
}

func newGovWorld(c *simkit.Ctx, prof govProfile) *govWorld {
	t := c.Tape
	if c.Tier == "thorough" {
		prof.MaxSteps *= 2
	}
	w := &govWorld{c: c, t: t, prof: prof, gov: nutils.GovernanceContractAddress,
		name: map[common.Address]string{}, byAddr: map[common.Address]*account.Account{}, b58: map[string]common.Address{},
		deposited: map[common.Address]uint64{}, withdrawn: map[common.Address]uint64{}, okCount: map[string]int{}}
	// genesis stakes: the sample private-net pattern, all equal, all zero (mainnet style), or mixed with zeros
	var initPos []uint64
	switch t.Pick(6, 3, 1, 1) {
	case 0:
		initPos = nil
	case 1:
		initPos = []uint64{10000, 10000, 10000, 10000, 10000, 10000, 10000}
	case 2:
		initPos = []uint64{0, 0, 0, 0, 0, 0, 0}
	case 3:
		initPos = []uint64{0, 15000, 15000, 0, 70000, 10001, 10000}
	}
	mbcv := []uint32{6, 3000, 12, 25}[t.Pick(3, 2, 2, 1)]
	w.ch = world.NewVbftChain(c, "gov", 7, world.VbftOptions{InitPos: initPos, MaxBlockChangeView: mbcv})
	c.Must(w.ch.Open(), "open")
	for i, p := range w.ch.VBFT.Peers {
		w.genesisRecorded += p.InitPos
		w.nodes = append(w.nodes, w.ch.Peers[i])
		w.reg(w.ch.Peers[i], fmt.Sprintf("P%d", i+1))
		w.deposited[w.ch.Peers[i].Address] += p.InitPos
	}
	for i := 0; i < 3; i++ {
		a := account.NewAccount("")
		w.nodes = append(w.nodes, a)
		w.ch.AddKey(a)
		w.reg(a, fmt.Sprintf("N%d", i+1))
	}
	for i := 0; i < 5; i++ {
		a := account.NewAccount("")
		w.stakers = append(w.stakers, a)
		w.reg(a, fmt.Sprintf("S%d", i+1))
	}
	w.dapp = account.NewAccount("")
	w.reg(w.dapp, "DAPP")
	w.sink = account.NewAccount("")
	w.reg(w.sink, "SINK")
	w.ghost = account.NewAccount("")
	adm := w.ch.AdminAddr()
	w.name[adm] = "ADMIN"
	w.b58[adm.ToBase58()] = adm
	w.b58[w.gov.ToBase58()] = w.gov
	w.ts = w.ch.Now + 3600
	w.st = w.readState()
	c.Logf("genesis: initPos=%v maxBlockChangeView=%d view=%d recordedStake=%d ontGov=%d", initPos, mbcv, w.st.View, w.genesisRecorded, w.st.OntGov)
	return w
}

func (w *govWorld) reg(a *account.Account, name string) {
	w.accts = append(w.accts, a)
	w.name[a.Address] = name
	w.byAddr[a.Address] = a
	w.b58[a.Address.ToBase58()] = a.Address
}

// ---- state reading -------------------------------------------------------

// cache is a read view of the current state: the ledger's state store, or
// after the warp the overlay the engine executes on.
func (w *govWorld) cache() *storage.CacheDB {
	if w.eng != nil {
		return storage.NewCacheDB(w.eng.overlay)
	}
	return w.ch.Store.GetCacheDB()
}

func (w *govWorld) item(contract common.Address, key []byte) []byte {
	raw, err := w.cache().Get(append(append([]byte{}, contract[:]...), key...))
	w.c.Must(err, "storage read")
	if len(raw) == 0 {
		return nil
	}
	v, err := cstates.GetValueFromRawStorageItem(raw)
	w.c.Must(err, "raw storage item")
	return v
}

func (w *govWorld) balance(token, a common.Address) uint64 {
	v := w.item(token, a[:])
	if v == nil {
		return 0
	}
	x, err := common.NewZeroCopySource(v).ReadUint64()
	if err != nil {
		w.c.Harness("balance item of %s is not a uint64: %x", w.nm(a), v)
	}
	return x
}

// scan iterates the governance contract's storage under prefix.
func (w *govWorld) scan(prefix []byte, f func(key, val []byte)) {
	cdb := w.cache()
	full := append(append([]byte{}, w.gov[:]...), prefix...)
	it := cdb.NewIterator(full)
	defer it.Release()
	for has := it.First(); has; has = it.Next() {
		k := append([]byte(nil), it.Key()...)
		v, err := cstates.GetValueFromRawStorageItem(it.Value())
		if err != nil {
			w.c.Harness("raw storage item under %q: %v", prefix, err)
		}
		f(k[len(full):], append([]byte(nil), v...))
	}
	w.c.Must(it.Error(), "storage iterator")
}

func (w *govWorld) readState() *govState {
	c := w.c
	s := &govState{Height: w.height(), TotalStake: map[common.Address]uint64{}, Penalty: map[string][2]uint64{},
		FeeAddr: map[common.Address]uint64{}, Auth: map[string]*gov.AuthorizeInfo{}, Pool: map[string]*gov.PeerPoolItem{},
		Ont: map[common.Address]uint64{}, Ong: map[common.Address]uint64{}}
	gv := new(gov.GovernanceView)
	c.Must(gv.Deserialize(bytes.NewBuffer(w.item(w.gov, []byte(gov.GOVERNANCE_VIEW)))), "governance view")
	s.View, s.ViewHeight = gv.View, gv.Height
	pm := &gov.PeerPoolMap{}
	c.Must(pm.Deserialization(common.NewZeroCopySource(w.item(w.gov, append([]byte(gov.PEER_POOL), gov.GetUint32Bytes(gv.View)...)))), "peer pool")
	s.Pool = pm.PeerPoolMap
	s.Cfg = new(gov.Configuration)
	c.Must(s.Cfg.Deserialization(common.NewZeroCopySource(w.item(w.gov, []byte(gov.VBFT_CONFIG)))), "vbft config")
	s.GP = new(gov.GlobalParam)
	c.Must(s.GP.Deserialization(common.NewZeroCopySource(w.item(w.gov, []byte(gov.GLOBAL_PARAM)))), "global param")
	s.GP2 = &gov.GlobalParam2{MinAuthorizePos: 500, CandidateFeeSplitNum: s.GP.CandidateNum}
	if v := w.item(w.gov, []byte(gov.GLOBAL_PARAM2)); v != nil {
		c.Must(s.GP2.Deserialization(common.NewZeroCopySource(v)), "global param 2")
	}
	if v := w.item(w.gov, []byte(gov.SPLIT_FEE)); v != nil {
		x, err := gov.GetBytesUint64(v)
		c.Must(err, "split fee")
		s.SplitFee = x
	}
	if v := w.item(w.gov, []byte(gov.GAS_ADDRESS)); v != nil {
		g := new(gov.GasAddress)
		c.Must(g.Deserialization(common.NewZeroCopySource(v)), "gas address")
		s.GasAddr = g.Address
	}
	w.scan([]byte(gov.TOTAL_STAKE), func(k, v []byte) {
		ts := new(gov.TotalStake)
		c.Must(ts.Deserialization(common.NewZeroCopySource(v)), "total stake")
		s.TotalStake[ts.Address] = ts.Stake
	})
	w.scan([]byte(gov.PENALTY_STAKE), func(k, v []byte) {
		ps := new(gov.PenaltyStake)
		c.Must(ps.Deserialization(common.NewZeroCopySource(v)), "penalty stake")
		s.Penalty[ps.PeerPubkey] = [2]uint64{ps.InitPos, ps.AuthorizePos}
	})
	w.scan([]byte(gov.SPLIT_FEE_ADDRESS), func(k, v []byte) {
		fa := new(gov.SplitFeeAddress)
		c.Must(fa.Deserialization(common.NewZeroCopySource(v)), "split fee address")
		s.FeeAddr[fa.Address] = fa.Amount
	})
	w.scan(gov.AUTHORIZE_INFO_POOL, func(k, v []byte) {
		ai := new(gov.AuthorizeInfo)
		c.Must(ai.Deserialization(common.NewZeroCopySource(v)), "authorize info")
		s.Auth[authKey(ai.PeerPubkey, ai.Address)] = ai
	})
	w.scan([]byte(gov.BLACK_LIST), func(k, v []byte) {
		bl := new(gov.BlackListItem)
		c.Must(bl.Deserialization(common.NewZeroCopySource(v)), "black list item")
		s.Black = append(s.Black, bl.PeerPubkey)
	})
	s.OntGov = w.balance(nutils.OntContractAddress, w.gov)
	s.OngGov = w.balance(nutils.OngContractAddress, w.gov)
	for _, a := range w.accts {
		s.Ont[a.Address] = w.balance(nutils.OntContractAddress, a.Address)
		s.Ong[a.Address] = w.balance(nutils.OngContractAddress, a.Address)
	}
	adm := w.ch.AdminAddr()
	s.Ont[adm] = w.balance(nutils.OntContractAddress, adm)
	s.Ong[adm] = w.balance(nutils.OngContractAddress, adm)
	return s
}

// govEngine executes transactions after the "warp". The governance contract
// refuses changeMaxAuthorization, setPeerCost, withdrawFee, add-/reduceInitPos,
// setPromisePos and updateGlobalParam2 below block 414100 (NEW_VERSION_BLOCK, a
// constant for every network), and without changeMaxAuthorization nobody can
// authorize stake for a node; a chain of 414100 blocks per run is out of reach.
// So a run builds its first part as real blocks on the ledger and then copies
// the state store into an overlay on which the same transactions are executed
// by the real contract engine (smartcontract.SmartContract, NeoVM native
// invoke, exactly the non-charging path of ledgerstore.HandleInvokeTransaction)
// at a pretended block height.
type govEngine struct {
	mem      *leveldbstore.LevelDBStore
	overlay  *overlaydb.OverlayDB
	height   uint32
	gasTable map[string]uint64
}

func (w *govWorld) height() uint32 {
	if w.eng != nil {
		return w.eng.height
	}
	return w.ch.Height()
}

// warp switches from ledger blocks to engine execution at height h0.
func (w *govWorld) warp(h0 uint32) {
	kvs, err := w.ch.Disk.DumpStore("states")
	w.c.Must(err, "dump state store")
	mem := leveldbstore.NewMemLevelDBStore()
	w.c.Defer(func() { mem.Close() })
	mem.NewBatch()
	for _, kv := range kvs {
		mem.BatchPut(kv.K, kv.V)
	}
	w.c.Must(mem.BatchCommit(), "copy state store")
	gt := map[string]uint64{}
	neovm.GAS_TABLE.Range(func(k, v interface{}) bool { gt[k.(string)] = v.(uint64); return true })
	w.eng = &govEngine{mem: mem, overlay: overlaydb.NewOverlayDB(mem), height: h0, gasTable: gt}
	w.c.Logf("warp: ledger height %d view %d -> engine execution from height %d", w.ch.Height(), w.st.View, h0+1)
	w.c.Probe("warped_at_view_" + fmt.Sprint(w.st.View))
	pre := w.st
	w.st = w.readState()
	// the copy must read back exactly as the ledger did
	a, _ := pre.sumStake()
	b, _ := w.st.sumStake()
	if a != b || pre.OntGov != w.st.OntGov || pre.OngGov != w.st.OngGov || pre.View != w.st.View || len(pre.Auth) != len(w.st.Auth) {
		w.c.Harness("state copy differs from the ledger state")
	}
}

// exec runs one transaction; pv is the value of a panic raised by the contract
// code (nothing of the transaction is kept then).
func (e *govEngine) exec(w *govWorld, tx *types.Transaction, ts uint32) (ok bool, notify []*event.NotifyEventInfo, pv interface{}) {
	invoke := tx.Payload.(*payload.InvokeCode)
	cache := storage.NewCacheDB(e.overlay)
	sc := smartcontract.SmartContract{
		Config:       &smartcontract.Config{Time: ts, Height: e.height, Tx: tx},
		CacheDB:      cache,
		Store:        w.ch.Store,
		GasTable:     e.gasTable,
		Gas:          tx.GasLimit,
		WasmExecStep: config.DEFAULT_WASM_MAX_STEPCOUNT,
	}
	engine, err := sc.NewExecuteEngine(invoke.Code, tx.TxType)
	w.c.Must(err, "NewExecuteEngine")
	func() {
		defer func() {
			if r := recover(); r != nil {
				pv, err = r, fmt.Errorf("panic: %v", r)
			}
		}()
		_, err = engine.Invoke()
	}()
	if pv != nil {
		return false, nil, pv
	}
	if sc.IsInternalErr() {
		w.c.Harness("engine internal error: %v", err)
	}
	if e.overlay.Error() != nil {
		w.c.Harness("overlay error: %v", e.overlay.Error())
	}
	if err != nil {
		if govDebug {
			fmt.Fprintf(os.Stderr, "DEBUG engine h%d: %v\n", e.height, err)
		}
		return false, nil, nil
	}
	cache.Commit()
	return true, sc.Notifications, nil
}

// contractPanic reports a Go panic raised inside contract code while executing
// op. On a node nothing recovers it: the process dies while executing the
// block, on every node alike.
func (w *govWorld) contractPanic(op *govOp, height uint32, pv interface{}) {
	msg := fmt.Sprint(pv)
	if i := strings.IndexByte(msg, '\n'); i > 0 {
		msg = msg[:i]
	}
	w.c.Probe("contract_panic")
	w.c.FailSoft("contract-panics", op.Kind+"/"+msg, "h%d view %d: %s makes the governance contract panic: %v (no recover on the block execution path: every node executing the block crashes)", height, w.st.View, op.Desc, pv)
	// a known finding: the run ends here (a node would be dead), so that every
	// other violation's replay file is independent of the known-findings list
	panic(govStopRun{})
}

type govStopRun struct{}

// guarded runs f; a run ended by a known finding returns false.
func (w *govWorld) guarded(f func()) (completed bool) {
	defer func() {
		if r := recover(); r != nil {
			if _, ok := r.(govStopRun); ok {
				w.c.Logf("run ends after a known finding")
				return
			}
			panic(r)
		}
	}()
	f()
	return true
}

// ---- transactions and blocks --------------------------------------------

func (w *govWorld) build(op *govOp) *types.Transaction {
	c := w.c
	w.nonce++
	payer := w.ch.AdminAddr()
	if op.Signer != nil {
		payer = op.Signer.Address
	}
	var m *types.MutableTransaction
	var err error
	if op.Token != "" {
		m, err = world.NativeTx(world.TokenAddr(op.Token), 0, "transfer", []interface{}{op.Param}, 0, 2000000, w.nonce, payer)
	} else if op.Param == nil {
		m, err = world.NativeTx(w.gov, 0, op.Method, []interface{}{[]byte{}}, 0, 2000000, w.nonce, payer)
	} else {
		m, err = world.NativeTx(w.gov, 0, op.Method, []interface{}{op.Param}, 0, 2000000, w.nonce, payer)
	}
	c.Must(err, "build "+op.Method)
	switch {
	case op.Signer != nil:
		c.Must(world.Sign(m, op.Signer), "sign")
	case op.Short:
		keys := w.ch.AdminKeys()
		var signers []*account.Account
		for _, k := range keys[:w.ch.AdminM()-1] {
			signers = append(signers, w.ch.Keys[hex.EncodeToString(keypair.SerializePublicKey(k))])
		}
		c.Must(world.MultiSign(m, uint16(w.ch.AdminM()-1), keys, signers), "short admin sign")
	default:
		c.Must(w.ch.AdminSign(m), "admin sign")
	}
	tx, err := world.Seal(m)
	c.Must(err, "seal")
	return tx
}

// block executes the operations as one block and re-reads the state.
func (w *govWorld) block(ops ...*govOp) *govBlock {
	c := w.c
	var txs []*types.Transaction
	res := make([]*govTxRes, 0, len(ops))
	for _, op := range ops {
		tx := w.build(op)
		txs = append(txs, tx)
		res = append(res, &govTxRes{Op: op, Tx: tx})
	}
	w.ts += w.dt()
	var height uint32
	if w.eng != nil {
		w.eng.height++
		height = w.eng.height
		for i, r := range res {
			if govDebug {
				fmt.Fprintf(os.Stderr, "DEBUG %s\n", ops[i].Desc)
			}
			var pv interface{}
			r.OK, r.Notify, pv = w.eng.exec(w, r.Tx, w.ts)
			if pv != nil {
				w.contractPanic(r.Op, height, pv)
			}
		}
	} else {
		if govDebug {
			for i, tx := range txs {
				_, err := w.ch.Store.PreExecuteContract(tx)
				fmt.Fprintf(os.Stderr, "DEBUG %s: preexec err=%v\n", ops[i].Desc, err)
			}
		}
		blk := w.ch.MakeVbftBlock(txs, w.ts, uint64(w.nonce)<<8)
		height = blk.Header.Height
		var er store.ExecuteResult
		var err error
		var pv interface{}
		func() {
			defer func() {
				if r := recover(); r != nil {
					if _, ours := r.(simkit.HarnessError); ours {
						panic(r)
					}
					pv = r
				}
			}()
			er, err = w.ch.Commit(blk)
		}()
		if pv != nil {
			// ExecuteBlock unwound before anything was written: the block is dropped
			op := ops[0]
			for _, o := range ops {
				if o.Settle {
					op = o
					break
				}
			}
			w.contractPanic(op, height, pv)
			height--
		} else if err != nil {
			c.Harness("ledger refuses block %d: %v", blk.Header.Height, err)
		}
		byHash := map[common.Uint256]*event.ExecuteNotify{}
		for _, n := range er.Notify {
			byHash[n.TxHash] = n
		}
		for _, r := range res {
			if n := byHash[r.Tx.Hash()]; n != nil {
				r.OK = n.State == event.CONTRACT_STATE_SUCCESS
				r.Notify = n.Notify
			}
		}
	}
	b := &govBlock{Height: height, Txs: res, Pre: w.st, Post: w.readState()}
	w.st = b.Post
	for _, r := range res {
		okS := "fail"
		if r.OK {
			okS = "ok"
			w.okCount[r.Op.Kind]++
			c.Probe("ok_" + r.Op.Kind)
		} else {
			c.Probe("rejected_" + r.Op.Kind)
		}
		c.Logf("h%d %s -> %s", b.Height, r.Op.Desc, okS)
		w.account(r)
	}
	if b.Post.View != b.Pre.View {
		w.commits++
		if b.Pre.View > gov.NEW_VERSION_VIEW {
			w.settlements++
		}
	}
	st, _ := b.Post.sumStake()
	pn, _ := b.Post.sumPenalty()
	fa, _ := b.Post.sumFeeAddr()
	c.Logf("h%d ts=%d view=%d ontGov=%d stake=%d penalty=%d ongGov=%d splitFee=%d owed=%d", b.Height, w.ts, b.Post.View, b.Post.OntGov, st, pn, b.Post.OngGov, b.Post.SplitFee, fa)
	c.State(b.Post.View, len(b.Post.Pool), len(b.Post.Auth), len(b.Post.FeeAddr), len(b.Post.Penalty), b.Post.OntGov/1000, b.Post.Cfg.K)
	if w.onBlock != nil {
		w.onBlock(b)
	}
	return b
}

// account keeps the per-address ledger of ONT moved into and out of the
// governance contract, from the transfer events of successful transactions.
func (w *govWorld) account(r *govTxRes) {
	if !r.OK {
		return
	}
	g := w.gov.ToBase58()
	for _, x := range r.transfers(nutils.OntContractAddress) {
		if x.From == x.To {
			continue
		}
		if x.To == g {
			a, ok := w.b58[x.From]
			if !ok {
				w.c.Harness("ONT deposit from unknown address %s", x.From)
			}
			if r.Op.Token != "" {
				w.directFunded += x.Amount // plain transfer, not a governance deposit
			} else {
				w.deposited[a] += x.Amount
			}
		}
		if x.From == g {
			a, ok := w.b58[x.To]
			if !ok {
				w.c.Harness("ONT paid out to unknown address %s", x.To)
			}
			if !r.Op.NoAcct {
				w.withdrawn[a] += x.Amount
			}
		}
	}
}

// dt is the timestamp advance of the next block: seconds, sometimes hours,
// rarely months/years (large unbound-ONG income for the governance contract).
func (w *govWorld) dt() uint32 {
	switch w.t.Pick(24, 4, 2, 1) {
	case 0:
		return uint32(1 + w.t.Choose(40))
	case 1:
		return uint32(3600 + w.t.Choose(86400))
	case 2:
		return uint32(30*86400 + w.t.Choose(300*86400))
	default:
		return uint32(3*365*86400 + w.t.Choose(4*365*86400))
	}
}

func (w *govWorld) emptyBlocks(n int) {
	for i := 0; i < n; i++ {
		w.ts += 1
		if w.eng != nil {
			w.eng.height++
			continue
		}
		blk := w.ch.MakeVbftBlock(nil, w.ts, uint64(w.nonce)<<8|uint64(i&0xff))
		if _, err := w.ch.Commit(blk); err != nil {
			w.c.Harness("ledger refuses empty block %d: %v", blk.Header.Height, err)
		}
	}
	if n > 0 {
		w.c.Logf("%d empty blocks -> h%d", n, w.height())
		pre := w.st
		w.st = w.readState()
		if w.onBlock != nil {
			w.onBlock(&govBlock{Height: w.st.Height, Pre: pre, Post: w.st})
		}
	}
}

// ---- operation generators -------------------------------------------------

func (w *govWorld) pk(a *account.Account) string { return world.PubHex(a) }

// pickNode: a node of the run; valid prefers nodes that are in the pool with
// candidate/consensus status.
func (w *govWorld) pickNode(inPool bool) *account.Account {
	if inPool {
		var in []*account.Account
		for _, n := range w.nodes {
			if it := w.st.Pool[w.pk(n)]; it != nil && (it.Status == gov.CandidateStatus || it.Status == gov.ConsensusStatus) {
				in = append(in, n)
			}
		}
		if len(in) > 0 {
			return in[w.t.Choose(len(in))]
		}
	}
	return w.nodes[w.t.Choose(len(w.nodes))]
}

// maxAuth reads the node's MaxAuthorize attribute (0 when never set).
func (w *govWorld) maxAuth(pk string) uint64 {
	raw, err := hex.DecodeString(pk)
	w.c.Must(err, "node key")
	v := w.item(w.gov, append([]byte(gov.PEER_ATTRIBUTES), raw...))
	if v == nil {
		return 0
	}
	pa := new(gov.PeerAttributes)
	w.c.Must(pa.Deserialization(common.NewZeroCopySource(v)), "peer attributes")
	return pa.MaxAuthorize
}

func (w *govWorld) opTransfer(token string, from *account.Account, fromAddr, to common.Address, amt uint64) *govOp {
	return &govOp{Kind: token + "Transfer", Token: token, Signer: from, Actor: fromAddr,
		Param: []*ont.TransferState{{From: fromAddr, To: to, Value: amt}},
		Desc:  fmt.Sprintf("%s transfer %s->%s %d", token, w.nm(fromAddr), w.nm(to), amt)}
}

func (w *govWorld) opAuthorize() *govOp {
	t := w.t
	s := w.stakers[t.Choose(len(w.stakers))]
	n := 1 + t.Pick(8, 1)
	var peers []string
	var poss []uint32
	var d []string
	for i := 0; i < n; i++ {
		node := w.pickNode(true)
		it := w.st.Pool[w.pk(node)]
		unit := uint64(w.st.GP2.MinAuthorizePos)
		room := uint64(0)
		if it != nil {
			lim := uint64(w.st.GP.PosLimit) * it.InitPos
			if m := w.maxAuth(w.pk(node)); m < lim {
				lim = m
			}
			if it.TotalPos < lim {
				room = lim - it.TotalPos
			}
		}
		if have := w.st.Ont[s.Address]; have < room {
			room = have
		}
		units := room / unit // how many units still fit
		var pos uint64
		switch t.Pick(4, 5, 2, 1, 1, 1) {
		case 0:
			pos = unit
		case 1:
			pos = unit * uint64(1+t.Choose(int(units%100000)+1))
			if pos > room && room >= unit {
				pos = units * unit
			}
		case 2:
			pos = units * unit // fill the node
			if pos == 0 {
				pos = unit
			}
		case 3:
			pos = unit*uint64(1+t.Choose(40)) + 1 + uint64(t.Choose(int(unit))) // not a multiple (valid when the unit is 1)
		case 4:
			pos = (w.st.Ont[s.Address]/unit + 1) * unit // more than the staker owns
		case 5:
			pos = (units + 1) * unit // one unit more than the node may take
		}
		if pos > 0xffffffff {
			pos = 0xffffffff
		}
		peers = append(peers, w.pk(node))
		poss = append(poss, uint32(pos))
		d = append(d, fmt.Sprintf("%s:%d", w.nodeName(w.pk(node)), pos))
	}
	return &govOp{Kind: "authorizeForPeer", Method: gov.AUTHORIZE_FOR_PEER, Signer: s, Actor: s.Address,
		Param: &gov.AuthorizeForPeerParam{Address: s.Address, PeerPubkeyList: peers, PosList: poss},
		Desc:  fmt.Sprintf("authorizeForPeer %s %v", w.nm(s.Address), d)}
}

// heldPositions lists (staker, node) pairs with a record in the authorize pool.
func (w *govWorld) heldPositions(f func(*gov.AuthorizeInfo) bool) []*gov.AuthorizeInfo {
	var ks []string
	for k, ai := range w.st.Auth {
		if f(ai) {
			ks = append(ks, k)
		}
	}
	sort.Strings(ks)
	out := make([]*gov.AuthorizeInfo, len(ks))
	for i, k := range ks {
		out[i] = w.st.Auth[k]
	}
	return out
}

func (w *govWorld) opUnAuthorize() *govOp {
	t := w.t
	held := w.heldPositions(func(ai *gov.AuthorizeInfo) bool { return ai.ConsensusPos+ai.CandidatePos+ai.NewPos > 0 })
	var s *account.Account
	var peer string
	var total uint64
	if len(held) > 0 && !t.Prob(1, 8) {
		ai := held[t.Choose(len(held))]
		s, peer, total = w.byAddr[ai.Address], ai.PeerPubkey, ai.ConsensusPos+ai.CandidatePos+ai.NewPos
	}
	if s == nil {
		s = w.stakers[t.Choose(len(w.stakers))]
		peer = w.pk(w.pickNode(true))
		ai := w.st.auth(peer, s.Address)
		total = ai.ConsensusPos + ai.CandidatePos + ai.NewPos
	}
	unit := uint64(w.st.GP2.MinAuthorizePos)
	var pos uint64
	switch t.Pick(4, 4, 1, 1) {
	case 0:
		pos = total / unit * unit
		if pos == 0 {
			pos = unit
		}
	case 1:
		pos = unit * uint64(1+t.Choose(1+int(total/unit)))
	case 2:
		pos = total + unit // more than held
	case 3:
		pos = 1
	}
	if pos > 0xffffffff {
		pos = 0xffffffff
	}
	return &govOp{Kind: "unAuthorizeForPeer", Method: gov.UNAUTHORIZE_FOR_PEER, Signer: s, Actor: s.Address,
		Param: &gov.AuthorizeForPeerParam{Address: s.Address, PeerPubkeyList: []string{peer}, PosList: []uint32{uint32(pos)}},
		Desc:  fmt.Sprintf("unAuthorizeForPeer %s %s:%d (holds %d)", w.nm(s.Address), w.nodeName(peer), pos, total)}
}

func (w *govWorld) opWithdraw() *govOp {
	t := w.t
	held := w.heldPositions(func(ai *gov.AuthorizeInfo) bool { return ai.WithdrawUnfreezePos > 0 })
	if len(held) == 0 && w.eng != nil && !t.Prob(1, 6) {
		return w.opAuthorize() // nothing to withdraw anywhere yet
	}
	var a *account.Account
	var peers []string
	var amts []uint32
	var d []string
	add := func(peer string, free uint64) {
		var x uint64
		switch t.Pick(5, 2, 2, 1) {
		case 0:
			x = free
		case 1:
			x = uint64(t.Choose(int(free%1000000000) + 1))
		case 2:
			x = free + 1 + uint64(t.Choose(1000)) // more than is unfrozen
		case 3:
			x = 0
		}
		if x > 0xffffffff {
			x = 0xffffffff
		}
		peers = append(peers, peer)
		amts = append(amts, uint32(x))
		d = append(d, fmt.Sprintf("%s:%d/%d", w.nodeName(peer), x, free))
	}
	if len(held) > 0 && !t.Prob(1, 12) {
		ai := held[t.Choose(len(held))]
		a = w.byAddr[ai.Address]
		add(ai.PeerPubkey, ai.WithdrawUnfreezePos)
		if t.Prob(1, 5) { // a second entry, possibly the same node again
			o := held[t.Choose(len(held))]
			if o.Address == ai.Address {
				add(o.PeerPubkey, o.WithdrawUnfreezePos)
			}
		}
	} else {
		a = w.accts[t.Choose(len(w.accts))]
		peer := w.pk(w.pickNode(false))
		add(peer, w.st.auth(peer, a.Address).WithdrawUnfreezePos)
	}
	return &govOp{Kind: "withdraw", Method: gov.WITHDRAW, Signer: a, Actor: a.Address,
		Param: &gov.WithdrawParam{Address: a.Address, PeerPubkeyList: peers, WithdrawList: amts},
		Desc:  fmt.Sprintf("withdraw %s %v", w.nm(a.Address), d)}
}

func (w *govWorld) opRegister() *govOp {
	t := w.t
	// prefer a candidate node that is not in the pool
	var out []*account.Account
	for _, n := range w.nodes {
		if w.st.Pool[w.pk(n)] == nil {
			out = append(out, n)
		}
	}
	var n *account.Account
	if len(out) > 0 && !t.Prob(1, 10) {
		n = out[t.Choose(len(out))]
	} else {
		n = w.nodes[t.Choose(len(w.nodes))]
	}
	minStake := uint64(w.st.GP.MinInitStake)
	var pos uint64
	switch t.Pick(4, 3, 3, 1, 1) {
	case 0:
		pos = minStake
	case 1:
		pos = minStake + uint64(t.Choose(50001))
	case 2:
		pos = []uint64{10000, 20000, 30000, 40000}[t.Choose(4)] // ties with genesis stakes
	case 3:
		pos = minStake - 1
	case 4:
		pos = w.st.Ont[n.Address] + 1
	}
	if pos > 0xffffffff {
		pos = 0xffffffff
	}
	return &govOp{Kind: "registerCandidate", Method: gov.REGISTER_CANDIDATE, Signer: n, Actor: n.Address,
		Param: &gov.RegisterCandidateParam{PeerPubkey: w.pk(n), Address: n.Address, InitPos: uint32(pos), Caller: []byte("did:ont:" + n.Address.ToBase58()), KeyNo: 1},
		Desc:  fmt.Sprintf("registerCandidate %s initPos=%d", w.nm(n.Address), pos)}
}

func (w *govWorld) opQuit() *govOp {
	n := w.pickNode(true)
	return &govOp{Kind: "quitNode", Method: gov.QUIT_NODE, Signer: n, Actor: n.Address,
		Param: &gov.QuitNodeParam{PeerPubkey: w.pk(n), Address: n.Address},
		Desc:  fmt.Sprintf("quitNode %s", w.nm(n.Address))}
}

func (w *govWorld) opInitPos() *govOp {
	t := w.t
	n := w.pickNode(true)
	it := w.st.Pool[w.pk(n)]
	if t.Bool() {
		pos := []uint64{1, 500, 10000, uint64(1 + t.Choose(30000))}[t.Choose(4)]
		return &govOp{Kind: "addInitPos", Method: gov.ADD_INIT_POS, Signer: n, Actor: n.Address,
			Param: &gov.ChangeInitPosParam{PeerPubkey: w.pk(n), Address: n.Address, Pos: uint32(pos)},
			Desc:  fmt.Sprintf("addInitPos %s %d", w.nm(n.Address), pos)}
	}
	var have uint64
	if it != nil {
		have = it.InitPos
	}
	var pos uint64
	switch t.Pick(3, 3, 1, 1) {
	case 0:
		pos = 1 + uint64(t.Choose(2000))
	case 1:
		pos = have / 2
	case 2:
		pos = have
	case 3:
		pos = have + 1
	}
	if pos == 0 {
		pos = 1
	}
	if pos > 0xffffffff {
		pos = 0xffffffff
	}
	return &govOp{Kind: "reduceInitPos", Method: gov.REDUCE_INIT_POS, Signer: n, Actor: n.Address,
		Param: &gov.ChangeInitPosParam{PeerPubkey: w.pk(n), Address: n.Address, Pos: uint32(pos)},
		Desc:  fmt.Sprintf("reduceInitPos %s %d (initPos %d)", w.nm(n.Address), pos, have)}
}

func (w *govWorld) pct() uint32 {
	switch w.t.Pick(3, 2, 3, 1) {
	case 0:
		return 0
	case 1:
		return 100
	case 2:
		return uint32(w.t.Choose(101))
	default:
		return 101 + uint32(w.t.Choose(200)) // out of range
	}
}

func (w *govWorld) opNodeAttr(n *account.Account) *govOp {
	t := w.t
	if n == nil {
		n = w.pickNode(true)
	}
	switch t.Pick(3, 1, 2) {
	case 0:
		pc, sc := w.pct(), w.pct()
		return &govOp{Kind: "setFeePercentage", Method: gov.SET_FEE_PERCENTAGE, Signer: n, Actor: n.Address,
			Param: &gov.SetFeePercentageParam{PeerPubkey: w.pk(n), Address: n.Address, PeerCost: pc, StakeCost: sc},
			Desc:  fmt.Sprintf("setFeePercentage %s peerCost=%d stakeCost=%d", w.nm(n.Address), pc, sc)}
	case 1:
		pc := w.pct()
		return &govOp{Kind: "setPeerCost", Method: gov.SET_PEER_COST, Signer: n, Actor: n.Address,
			Param: &gov.SetPeerCostParam{PeerPubkey: w.pk(n), Address: n.Address, PeerCost: pc},
			Desc:  fmt.Sprintf("setPeerCost %s %d", w.nm(n.Address), pc)}
	default:
		var lim uint64
		if it := w.st.Pool[w.pk(n)]; it != nil {
			lim = uint64(w.st.GP.PosLimit) * it.InitPos
		}
		var m uint64
		switch t.Pick(5, 2, 1, 1) {
		case 0:
			m = lim
		case 1:
			m = uint64(t.Choose(int(lim%1000000000) + 1))
		case 2:
			m = 0
		case 3:
			m = lim + 1
		}
		if m > 0xffffffff {
			m = 0xffffffff
		}
		return &govOp{Kind: "changeMaxAuthorization", Method: gov.CHANGE_MAX_AUTHORIZATION, Signer: n, Actor: n.Address,
			Param: &gov.ChangeMaxAuthorizationParam{PeerPubkey: w.pk(n), Address: n.Address, MaxAuthorize: uint32(m)},
			Desc:  fmt.Sprintf("changeMaxAuthorization %s %d (limit %d)", w.nm(n.Address), m, lim)}
	}
}

func (w *govWorld) opWithdrawFee(a *account.Account) *govOp {
	if a == nil {
		// prefer a creditor
		var cs []common.Address
		for x, v := range w.st.FeeAddr {
			if v > 0 && w.byAddr[x] != nil {
				cs = append(cs, x)
			}
		}
		sort.Slice(cs, func(i, j int) bool { return bytes.Compare(cs[i][:], cs[j][:]) < 0 })
		if len(cs) > 0 && !w.t.Prob(1, 6) {
			a = w.byAddr[cs[w.t.Choose(len(cs))]]
		} else {
			a = w.accts[w.t.Choose(len(w.accts))]
		}
	}
	return &govOp{Kind: "withdrawFee", Method: gov.WITHDRAW_FEE, Signer: a, Actor: a.Address,
		Param: &gov.WithdrawFeeParam{Address: a.Address},
		Desc:  fmt.Sprintf("withdrawFee %s (owed %d)", w.nm(a.Address), w.st.FeeAddr[a.Address])}
}

func (w *govWorld) opWithdrawOng() *govOp {
	a := w.accts[w.t.Choose(len(w.accts))]
	return &govOp{Kind: "withdrawOng", Method: gov.WITHDRAW_ONG, Signer: a, Actor: a.Address,
		Param: &gov.WithdrawOngParam{Address: a.Address},
		Desc:  fmt.Sprintf("withdrawOng %s", w.nm(a.Address))}
}

// opOngIncome: somebody who owns ONG pays some to the governance address (fee
// income arriving between settlements) or to another account.
func (w *govWorld) opOngIncome() *govOp {
	t := w.t
	var rich []*account.Account
	for _, a := range w.accts {
		if w.st.Ong[a.Address] > 0 {
			rich = append(rich, a)
		}
	}
	var from *account.Account
	if len(rich) > 0 {
		from = rich[t.Choose(len(rich))]
	} else {
		from = w.accts[t.Choose(len(w.accts))]
	}
	have := w.st.Ong[from.Address]
	var amt uint64
	switch t.Pick(3, 3, 2, 1) {
	case 0:
		amt = 1 + uint64(t.Choose(1000))
	case 1:
		amt = have / uint64(1+t.Choose(7))
	case 2:
		amt = have
	case 3:
		amt = have + 1
	}
	to := w.gov
	if t.Prob(1, 3) {
		to = w.accts[t.Choose(len(w.accts))].Address
	}
	return w.opTransfer("ong", from, from.Address, to, amt)
}

func (w *govWorld) opCommit(admin bool) *govOp {
	op := &govOp{Kind: "commitDpos", Method: gov.COMMIT_DPOS, Settle: true, Actor: w.ch.AdminAddr(), Desc: "commitDpos by ADMIN"}
	if !admin {
		s := w.stakers[w.t.Choose(len(w.stakers))]
		op.Signer, op.Actor = s, s.Address
		op.Kind = "commitDposAtEpochEnd"
		op.Desc = fmt.Sprintf("commitDpos by %s (%d blocks since view change, max %d)", w.nm(s.Address), w.height()+1-w.st.ViewHeight, w.st.Cfg.MaxBlockChangeView)
	}
	return op
}

func (w *govWorld) genCurve() []uint32 {
	t := w.t
	yi := make([]uint32, 101)
	switch t.Pick(2, 1, 1, 1) {
	case 0: // linear
		k := uint32(1 + t.Choose(20000))
		for i := range yi {
			yi[i] = uint32(i) * k
		}
	case 1: // flat
		v := uint32(1 + t.Choose(1000000))
		for i := range yi {
			yi[i] = v
		}
	case 2: // all weight to tiny stakes
		for i := range yi {
			yi[i] = uint32(1000000 / (i + 1))
		}
		yi[0] = 0
	case 3: // random, large
		for i := range yi {
			yi[i] = uint32(t.Choose(1 << 30))
		}
	}
	return yi
}

func (w *govWorld) opAdmin() *govOp {
	t := w.t
	adm := w.ch.AdminAddr()
	switch t.Pick(4, 2, 3, 3, 1, 2, 2, 2, 2, 1) {
	case 0: // blackNode
		n := w.pickNode(!t.Prob(1, 6))
		list := []string{w.pk(n)}
		d := w.nm(n.Address)
		if t.Prob(1, 6) {
			m := w.pickNode(true)
			list = append(list, w.pk(m))
			d += "," + w.nm(m.Address)
		}
		return &govOp{Kind: "blackNode", Method: gov.BLACK_NODE, Settle: true, Actor: adm,
			Param: &gov.BlackNodeParam{PeerPubkeyList: list}, Desc: "blackNode " + d}
	case 1:
		pk := w.pk(w.pickNode(false))
		if len(w.st.Black) > 0 && !t.Prob(1, 5) {
			pk = w.st.Black[t.Choose(len(w.st.Black))]
		}
		return &govOp{Kind: "whiteNode", Method: gov.WHITE_NODE, Actor: adm,
			Param: &gov.WhiteNodeParam{PeerPubkey: pk}, Desc: "whiteNode " + w.nodeName(pk)}
	case 2:
		return w.opGlobalParam()
	case 3:
		return w.opGlobalParam2()
	case 4:
		return &govOp{Kind: "updateSplitCurve", Method: gov.UPDATE_SPLIT_CURVE, Actor: adm,
			Param: &gov.SplitCurve{Yi: w.genCurve()}, Desc: "updateSplitCurve"}
	case 5:
		return w.opUpdateConfig()
	case 6:
		n := w.pickNode(true)
		var v uint64
		if it := w.st.Pool[w.pk(n)]; it != nil {
			v = it.InitPos / uint64(1+t.Choose(4))
		}
		if t.Prob(1, 3) {
			v = 1
		}
		return &govOp{Kind: "setPromisePos", Method: gov.SET_PROMISE_POS, Actor: adm,
			Param: &gov.PromisePos{PeerPubkey: w.pk(n), PromisePos: v}, Desc: fmt.Sprintf("setPromisePos %s %d", w.nm(n.Address), v)}
	case 7:
		// transferPenalty of a node that has a penalty record, else any
		var ps []string
		for k := range w.st.Penalty {
			ps = append(ps, k)
		}
		sort.Strings(ps)
		peer := w.pk(w.pickNode(false))
		if len(ps) > 0 {
			peer = ps[t.Choose(len(ps))]
		}
		return &govOp{Kind: "transferPenalty", Method: gov.TRANSFER_PENALTY, Actor: adm, NoAcct: true,
			Param: &gov.TransferPenaltyParam{PeerPubkey: peer, Address: w.sink.Address}, Desc: "transferPenalty " + w.nodeName(peer) + " -> SINK"}
	case 8:
		a := w.dapp.Address
		d := "DAPP"
		if t.Prob(1, 4) {
			a, d = common.ADDRESS_EMPTY, "none"
		}
		return &govOp{Kind: "setGasAddress", Method: gov.SET_GAS_ADDRESS, Actor: adm,
			Param: &gov.GasAddress{Address: a}, Desc: "setGasAddress " + d}
	default:
		// deprecated admin paths of the pre-self-governance registration
		n := w.pickNode(false)
		switch t.Choose(3) {
		case 0:
			return &govOp{Kind: "approveCandidate", Method: gov.APPROVE_CANDIDATE, Actor: adm,
				Param: &gov.ApproveCandidateParam{PeerPubkey: w.pk(n)}, Desc: "approveCandidate " + w.nm(n.Address)}
		case 1:
			return &govOp{Kind: "rejectCandidate", Method: gov.REJECT_CANDIDATE, Actor: adm,
				Param: &gov.RejectCandidateParam{PeerPubkey: w.pk(n)}, Desc: "rejectCandidate " + w.nm(n.Address)}
		default:
			return &govOp{Kind: "unRegisterCandidate", Method: gov.UNREGISTER_CANDIDATE, Signer: n, Actor: n.Address,
				Param: &gov.UnRegisterCandidateParam{PeerPubkey: w.pk(n), Address: n.Address}, Desc: "unRegisterCandidate " + w.nm(n.Address)}
		}
	}
}

func (w *govWorld) opGlobalParam() *govOp {
	t := w.t
	g := *w.st.GP
	g.CandidateFee = []uint64{0, 1000000000, 500000000000}[t.Pick(6, 2, 1)]
	switch t.Pick(3, 1, 1, 3) {
	case 0:
		g.A = 50
	case 1:
		g.A = 0
	case 2:
		g.A = 100
	case 3:
		g.A = uint32(t.Choose(101))
	}
	g.B = 100 - g.A
	g.PosLimit = []uint32{20, 1, 5, 100}[t.Pick(5, 1, 2, 1)]
	g.Yita = []uint32{5, 1, 10, 50}[t.Pick(4, 2, 2, 1)]
	g.Penalty = []uint32{5, 0, 100, uint32(t.Choose(101))}[t.Pick(3, 1, 2, 3)]
	g.MinInitStake = []uint32{10000, 1, 5000, 30000}[t.Pick(5, 1, 1, 1)]
	g.CandidateNum = []uint32{49, 4 * w.st.Cfg.K, 4*w.st.Cfg.K + 3}[t.Pick(6, 1, 1)]
	if t.Prob(1, 8) { // one field the contract must refuse
		switch t.Choose(7) {
		case 0:
			g.A = 101
		case 1:
			g.PosLimit = 0
		case 2:
			g.Yita = 0
		case 3:
			g.Penalty = 101
		case 4:
			g.CandidateNum = 4*w.st.Cfg.K - 1
		case 5:
			g.CandidateFee = 999999999
		default:
			g.MinInitStake = 0
		}
	}
	return &govOp{Kind: "updateGlobalParam", Method: gov.UPDATE_GLOBAL_PARAM, Actor: w.ch.AdminAddr(), Param: &g,
		Desc: fmt.Sprintf("updateGlobalParam fee=%d minInit=%d candNum=%d posLimit=%d A=%d B=%d yita=%d penalty=%d", g.CandidateFee, g.MinInitStake, g.CandidateNum, g.PosLimit, g.A, g.B, g.Yita, g.Penalty)}
}

func (w *govWorld) opGlobalParam2() *govOp {
	t := w.t
	g := &gov.GlobalParam2{}
	g.MinAuthorizePos = []uint32{500, 1, 100, 7}[t.Pick(5, 2, 2, 1)]
	k := w.st.Cfg.K
	g.CandidateFeeSplitNum = []uint32{w.st.GP.CandidateNum, k, k + 1, k + 2}[t.Pick(4, 2, 2, 2)]
	g.DappFee = []uint32{0, 10, 50, 100, uint32(t.Choose(101))}[t.Pick(3, 2, 2, 2, 3)]
	if t.Prob(1, 10) { // one field the contract must refuse
		switch t.Choose(3) {
		case 0:
			g.MinAuthorizePos = 0
		case 1:
			g.CandidateFeeSplitNum = k - 1
		default:
			g.DappFee = 101
		}
	}
	return &govOp{Kind: "updateGlobalParam2", Method: gov.UPDATE_GLOBAL_PARAM2, Actor: w.ch.AdminAddr(), Param: g,
		Desc: fmt.Sprintf("updateGlobalParam2 minAuthorizePos=%d feeSplitNum=%d dappFee=%d", g.MinAuthorizePos, g.CandidateFeeSplitNum, g.DappFee)}
}

func (w *govWorld) opUpdateConfig() *govOp {
	t := w.t
	n := 0
	for _, it := range w.st.Pool {
		if it.Status == gov.CandidateStatus || it.Status == gov.ConsensusStatus {
			n++
		}
	}
	cfg := *w.st.Cfg
	switch t.Pick(3, 3, 1, 1) {
	case 0:
		if n >= 7 {
			cfg.K = uint32(n) // every node a consensus node
		}
	case 1:
		if n >= 7 {
			cfg.K = uint32(7 + t.Choose(n-6)) // 7..n
		}
	case 2:
		cfg.K = 7
	case 3:
		cfg.K = uint32(n + 1) // more than there are nodes
	}
	cfg.N = cfg.K + uint32(t.Choose(3))
	cfg.C = (cfg.K - 1) / 3
	if t.Prob(1, 4) {
		cfg.C = (cfg.K - 1) / 2
	}
	cfg.L = cfg.K * uint32(16+t.Choose(3)*8)
	cfg.MaxBlockChangeView = 10000 + uint32(t.Choose(2))*50000
	return &govOp{Kind: "updateConfig", Method: gov.UPDATE_CONFIG, Actor: w.ch.AdminAddr(), Param: &cfg,
		Desc: fmt.Sprintf("updateConfig N=%d C=%d K=%d L=%d maxBlockChangeView=%d (%d nodes)", cfg.N, cfg.C, cfg.K, cfg.L, cfg.MaxBlockChangeView, n)}
}

// opInvalid: an otherwise plausible operation signed by the wrong party, or
// aimed at a node key that is not registered.
func (w *govWorld) opInvalid() *govOp {
	t := w.t
	switch t.Pick(3, 2, 2, 2) {
	case 0: // user operation signed by somebody else
		var op *govOp
		switch t.Choose(5) {
		case 0:
			op = w.opWithdraw()
		case 1:
			op = w.opUnAuthorize()
		case 2:
			op = w.opWithdrawFee(nil)
		case 3:
			op = w.opQuit()
		default:
			op = w.opInitPos()
		}
		for i := 0; i < 4; i++ {
			o := w.accts[t.Choose(len(w.accts))]
			if o.Address != op.Actor {
				op.Signer = o
				break
			}
		}
		op.Kind += "_wrongSigner"
		op.Desc += " SIGNED BY " + w.nm(op.Signer.Address)
		return op
	case 1: // admin operation signed by a user, or by too few peers
		op := w.opAdmin()
		if op.Signer != nil {
			return op
		}
		if t.Bool() {
			op.Signer = w.accts[t.Choose(len(w.accts))]
			op.Desc += " SIGNED BY " + w.nm(op.Signer.Address)
		} else {
			op.Short = true
			op.Desc += fmt.Sprintf(" SIGNED BY %d OF %d PEERS", w.ch.AdminM()-1, len(w.ch.Peers))
		}
		op.Kind += "_wrongSigner"
		return op
	case 2: // unknown node
		s := w.stakers[t.Choose(len(w.stakers))]
		g := w.pk(w.ghost)
		if t.Bool() {
			return &govOp{Kind: "authorizeForPeer_unknownNode", Method: gov.AUTHORIZE_FOR_PEER, Signer: s, Actor: s.Address,
				Param: &gov.AuthorizeForPeerParam{Address: s.Address, PeerPubkeyList: []string{g}, PosList: []uint32{500}},
				Desc:  fmt.Sprintf("authorizeForPeer %s GHOST:500", w.nm(s.Address))}
		}
		return &govOp{Kind: "withdraw_unknownNode", Method: gov.WITHDRAW, Signer: s, Actor: s.Address,
			Param: &gov.WithdrawParam{Address: s.Address, PeerPubkeyList: []string{g}, WithdrawList: []uint32{1}},
			Desc:  fmt.Sprintf("withdraw %s GHOST:1", w.nm(s.Address))}
	default: // commitDpos by a user before the epoch has ended (valid once it has)
		return w.opCommit(false)
	}
}

// ---- run phases ------------------------------------------------------------

// setup: block 1 distributes ONT from the genesis holder (the peers'
// multi-signature address) and funds the governance contract with the stake
// the genesis block recorded; then parameters and node attributes are set from
// the tape.
func (w *govWorld) setup() {
	t := w.t
	adm := w.ch.AdminAddr()
	var sts []*ont.TransferState
	for _, s := range w.stakers {
		sts = append(sts, &ont.TransferState{From: adm, To: s.Address, Value: 3000000})
	}
	for _, n := range w.nodes {
		sts = append(sts, &ont.TransferState{From: adm, To: n.Address, Value: 200000})
	}
	fund := &govOp{Kind: "fund", Token: "ont", Actor: adm, Param: sts, Desc: "ADMIN distributes ONT to stakers and node owners"}
	ops := []*govOp{fund}
	if w.genesisRecorded > 0 {
		ops = append(ops, w.opTransfer("ont", nil, adm, w.gov, w.genesisRecorded))
		ops[1].Desc = fmt.Sprintf("ADMIN funds the genesis stake: ont transfer ADMIN->GOV %d", w.genesisRecorded)
	}
	b := w.block(ops...)
	for _, r := range b.Txs {
		if !r.OK {
			w.c.Harness("setup transfer failed: %s", r.Op.Desc)
		}
	}
	// parameters that can be set from the first block on
	ops = nil
	if !t.Prob(1, 8) {
		ops = append(ops, w.opGlobalParam())
	}
	if t.Prob(2, 3) {
		ops = append(ops, &govOp{Kind: "setGasAddress", Method: gov.SET_GAS_ADDRESS, Actor: adm,
			Param: &gov.GasAddress{Address: w.dapp.Address}, Desc: "setGasAddress DAPP"})
	}
	for i := 0; i < 7; i++ {
		if n := w.nodes[i]; !t.Prob(1, 4) {
			pc, sc := w.pct(), w.pct()
			ops = append(ops, &govOp{Kind: "setFeePercentage", Method: gov.SET_FEE_PERCENTAGE, Signer: n, Actor: n.Address,
				Param: &gov.SetFeePercentageParam{PeerPubkey: w.pk(n), Address: n.Address, PeerCost: pc, StakeCost: sc},
				Desc:  fmt.Sprintf("setFeePercentage %s peerCost=%d stakeCost=%d", w.nm(n.Address), pc, sc)})
		}
	}
	if len(ops) > 0 {
		w.block(ops...)
	}
}

// lateSetup follows the warp: what the contract allows only from block 414100
// on — extended parameters, and the nodes opening themselves for stake.
func (w *govWorld) lateSetup() {
	t := w.t
	var ops []*govOp
	if t.Prob(3, 4) {
		ops = append(ops, w.opGlobalParam2())
	}
	for _, n := range w.nodes {
		it := w.st.Pool[w.pk(n)]
		if it == nil {
			continue
		}
		if !t.Prob(1, 6) {
			lim := uint64(w.st.GP.PosLimit) * it.InitPos
			if lim > 0xffffffff {
				lim = 0xffffffff
			}
			ops = append(ops, &govOp{Kind: "changeMaxAuthorization", Method: gov.CHANGE_MAX_AUTHORIZATION, Signer: n, Actor: n.Address,
				Param: &gov.ChangeMaxAuthorizationParam{PeerPubkey: w.pk(n), Address: n.Address, MaxAuthorize: uint32(lim)},
				Desc:  fmt.Sprintf("changeMaxAuthorization %s %d", w.nm(n.Address), lim)})
		}
		if t.Prob(1, 3) { // genesis peers have no promise record: reduceInitPos needs one
			v := it.InitPos / uint64(1+t.Choose(4))
			ops = append(ops, &govOp{Kind: "setPromisePos", Method: gov.SET_PROMISE_POS, Actor: w.ch.AdminAddr(),
				Param: &gov.PromisePos{PeerPubkey: w.pk(n), PromisePos: v}, Desc: fmt.Sprintf("setPromisePos %s %d", w.nm(n.Address), v)})
		}
	}
	if len(ops) > 0 {
		w.block(ops...)
	}
}

func (w *govWorld) maybeWarp() {
	if w.eng == nil && w.st.View >= w.warpView {
		w.warp(w.h0)
		w.lateSetup()
	}
}

// commitEpoch ends the epoch: with the admin's witness, or — when the chain's
// MaxBlockChangeView is small — by letting the epoch run out and having an
// ordinary account call commitDpos.
func (w *govWorld) commitEpoch() *govBlock {
	t := w.t
	mb := w.st.Cfg.MaxBlockChangeView
	atEnd := mb <= 30 && t.Prob(1, 3)
	if atEnd {
		next := w.height() + 1
		if next-w.st.ViewHeight < mb {
			w.emptyBlocks(int(mb - (next - w.st.ViewHeight)))
		}
	}
	if w.beforeEpochEnd != nil {
		w.beforeEpochEnd()
	}
	return w.block(w.opCommit(!atEnd))
}

// step generates and executes one block of the main phase.
func (w *govWorld) step() {
	t := w.t
	p := w.prof
	var ops []*govOp
	gen := func() *govOp {
		switch t.Pick(p.WStake, p.WNode, p.WFee, p.WAdmin, p.WInvalid) {
		case 0:
			switch t.Pick(5, 3, 4) {
			case 0:
				return w.opAuthorize()
			case 1:
				return w.opUnAuthorize()
			default:
				return w.opWithdraw()
			}
		case 1:
			reg := 3
			if len(w.st.Pool) < len(w.nodes) {
				reg = 7
			}
			switch t.Pick(reg, 2, 2, 3) {
			case 0:
				return w.opRegister()
			case 1:
				return w.opQuit()
			case 2:
				return w.opInitPos()
			default:
				return w.opNodeAttr(nil)
			}
		case 2:
			switch t.Pick(4, 1, 3) {
			case 0:
				return w.opWithdrawFee(nil)
			case 1:
				return w.opWithdrawOng()
			default:
				return w.opOngIncome()
			}
		case 3:
			return w.opAdmin()
		default:
			return w.opInvalid()
		}
	}
	if t.Pick(100-p.WCommit, p.WCommit) == 1 {
		w.commitEpoch()
		return
	}
	op := gen()
	if op.Settle {
		// an operation that may settle the epoch gets a block of its own, or shares
		// it only with a second commit attempt (two settlements in one block are refused)
		if t.Prob(1, 6) {
			w.block(op, w.opCommit(true))
		} else {
			w.block(op)
		}
		return
	}
	ops = append(ops, op)
	for len(ops) < 4 && t.Prob(1, 3) {
		o := gen()
		if o.Settle {
			break
		}
		ops = append(ops, o)
	}
	w.block(ops...)
}

// run drives a whole history: setup on the ledger; quick epochs until view 7
// (the contract pays the fee split straight out until then; only later epochs
// credit SplitFeeAddress); the warp to engine execution at a tape-chosen view
// (1, 3, 7, or 8 = after the first SplitFeeAddress settlement on the ledger);
// then the main phase.
func (w *govWorld) run() {
	t := w.t
	w.warpView = []uint32{1, 7, 3, 8}[t.Pick(3, 2, 1, 1)]
	w.h0 = []uint32{500000, gov.NEW_VERSION_BLOCK - 1, 3000000, gov.NEW_WITHDRAW_BLOCK - 3}[t.Pick(3, 2, 2, 1)]
	w.setup()
	w.maybeWarp()
	for w.st.View <= gov.NEW_VERSION_VIEW {
		v := w.st.View
		for k := t.Pick(3, 4, 2, 1); k > 0; k-- {
			w.stepNoCommit()
		}
		w.block(w.opCommit(true))
		if w.st.View == v {
			// the admin's commit failed (e.g. fewer nodes than K): let the main phase deal with it
			break
		}
		w.maybeWarp()
	}
	if w.eng == nil {
		if w.warpView > gov.NEW_VERSION_VIEW+1 && w.st.View == gov.NEW_VERSION_VIEW+1 {
			// the first settlement by the SplitFeeAddress path as a real block on the ledger
			w.block(w.opCommit(true))
		}
		w.warpView = 0
		w.maybeWarp()
	}
	steps := t.Range(4, w.prof.MaxSteps)
	for i := 0; i < steps; i++ {
		w.step()
	}
}

func (w *govWorld) stepNoCommit() {
	t := w.t
	var op *govOp
	if w.eng == nil {
		switch t.Pick(4, 2, 2, 1) {
		case 0:
			op = w.opRegister()
		case 1:
			op = w.opNodeAttr(nil)
		case 2:
			op = w.opOngIncome()
		default:
			op = w.opQuit()
		}
	} else {
		switch t.Pick(6, 2, 1, 1, 1) {
		case 0:
			op = w.opAuthorize()
		case 1:
			op = w.opRegister()
		case 2:
			op = w.opUnAuthorize()
		case 3:
			op = w.opNodeAttr(nil)
		default:
			op = w.opOngIncome()
		}
	}
	w.block(op)
}

func (w *govWorld) summary() string {
	var ks []string
	for k := range w.okCount {
		ks = append(ks, k)
	}
	sort.Strings(ks)
	var sb strings.Builder
	for _, k := range ks {
		fmt.Fprintf(&sb, "%s=%d ", k, w.okCount[k])
	}
	return sb.String()
}
