package props

import (
	"fmt"
	"github.com/ontio/ontology/core/store"
	"math/big"
	"strings"

	ethcomm "github.com/ethereum/go-ethereum/common"
	"github.com/ethereum/go-ethereum/common/bitutil"
	ethtypes "github.com/ethereum/go-ethereum/core/types"
	ethcrypto "github.com/ethereum/go-ethereum/crypto"
	"github.com/ontio/ontology/core/store/ledgerstore"
	"github.com/ontio/ontology/core/types"
	"github.com/ontio/ontology/smartcontract/event"
	nutils "github.com/ontio/ontology/smartcontract/service/native/utils"

	"ontosim/simkit"
	"ontosim/world"
)

// C43: block log blooms never miss a log of the block; the per-section bit
// index agrees with the per-block blooms.
func init() {
	simkit.Register(&simkit.Prop{
		ID:   "C43",
		Desc: "for every committed block the stored bloom tests positive for the address and every topic of every EVM log of the block (logs the generator knows the contracts emitted, logs in the execution result, logs in the persisted event records); for every completed 4096-block section, bit i of the stored section index equals bit i of the 4096 stored block blooms, for all 2048 bits",
		Rule: "a run = one solo ledger, 2 funded EVM senders, 3 universal log contracts. Short runs (most): 6..60 blocks, about two thirds carrying 1..4 EIP-155 transactions that emit LOG0..LOG4 / three logs at once / a log from a nested call / a log from a constructor, with topics from a small pool, tape-chosen 32-byte values and addresses; gas price 0 or 500 GWei and values (ONG Transfer logs of the native ONG address); reverting and out-of-gas transactions in between; clean restarts; for a sixth of the log-carrying blocks the process dies at a tape-chosen disk call inside the commit (optionally torn), is restarted, and gets the block again if it was lost. Long runs (1 in 30 quick, 1 in 5 thorough; thorough: one or two sections): 4096*k + 1..40 blocks, mostly empty, a log-carrying block about every 40 blocks plus the last blocks before and the first after each boundary, clean restarts mid-section, shortly before and right after a section boundary (tape-chosen distance 0..3). Blooms of all log-carrying blocks are re-read after every restart and at the end. non-trivial = at least 3 log-carrying blocks with at least 5 logs checked and a restart, or a completed section checked; distinct = distinct event-trace hash",
		Real: []string{"core/store/ledgerstore (executeBlock bloom construction, saveBlockToBlockStore, BlockStore.SaveBloomData / GetBloomData / LoadBloomBits, PutBloomIndex / ReadBloomBits, event store, recovery)", "smartcontract/service/evm + vm/evm (LOGn, receipts, ONG transfer logs)", "smartcontract/event (ExecuteNotifyFromEthReceipt, NotifyEventInfoToEvmLog)", "go-ethereum core/bloombits generator + bitutil compression", "goleveldb on SimDisk"},
		Stub: []string{"solo block producer (harness builds/signs blocks like consensus/solo)", "log filter / matcher of http/ethrpc/filters: not run; the oracle reads the same two data sets the matcher reads", "wasm JIT (stub archive)"},
		Assumptions: []string{
			"bloom bit positions are computed by the harness (keccak256, three 11-bit indexes, bit idx in byte 255-idx/8) and cross-checked once per query against go-ethereum's BloomLookup",
			"a section is complete when its last block is committed; its index must exist from then on",
		},
		ExpectedProbes: []string{"log0", "log1", "log2", "log3", "log4", "logs3", "nested_log", "ctor_log", "ong_transfer_log", "failed_tx_in_block", "multi_tx_block", "restart", "restart_near_boundary", "section_checked", "section_has_logs", "recheck_after_restart", "long_run"},
		Run:            runC43,
		// a failing long run costs seconds per execution: bound the shrinker
		MaxShrinkRuns: 100,
	})
}

type c43Log struct {
	addr   ethcomm.Address
	topics []ethcomm.Hash
	src    string
}

type c43Tx struct {
	desc   string
	tx     *types.Transaction
	expect []c43Log // logs a successful execution emits
	probes []string
}

type c43Run struct {
	c      *simkit.Ctx
	ch     *world.Chain
	keys   []*c07Key
	nonce  map[ethcomm.Address]uint64
	us     []ethcomm.Address
	pool   [][]byte
	ts     uint32
	ont    uint32
	logs   map[uint32][]c43Log // height -> every log known for the block
	order  []uint32            // heights with logs, ascending
	emptyA uint32              // first height of the current stretch of unlogged empty blocks
	emptyN int

	logBlocks, logsChecked, restarts, sections int
}

// c43BloomIdx: the three bit indexes of a datum.
func c43BloomIdx(d []byte) [3]uint {
	h := ethcrypto.Keccak256(d)
	var out [3]uint
	for k := 0; k < 3; k++ {
		out[k] = (uint(h[2*k])<<8 | uint(h[2*k+1])) & 2047
	}
	return out
}

func c43Bit(b *ethtypes.Bloom, idx uint) byte { return b[255-idx/8] >> (idx % 8) & 1 }

func c43Test(c *simkit.Ctx, b *ethtypes.Bloom, d []byte) bool {
	ok := true
	for _, i := range c43BloomIdx(d) {
		if c43Bit(b, i) == 0 {
			ok = false
		}
	}
	if lib := b.Test(d); lib != ok {
		c.Harness("bloom test of %x: harness says %v, go-ethereum says %v", d, ok, lib)
	}
	return ok
}

func runC43(c *simkit.Ctx) {
	c.Bubble(func() {
		t := c.Tape
		r := &c43Run{c: c, nonce: map[ethcomm.Address]uint64{}, logs: map[uint32][]c43Log{}}
		r.ch = world.NewSoloChain(c, "bloom")
		c.Must(r.ch.Open(), "open")
		world.Quiesce()
		r.ts = r.ch.Now
		r.keys = []*c07Key{c07NewKey(c, "c43", 0), c07NewKey(c, "c43", 1)}
		r.pool = [][]byte{{1}, {2}, {0xff}, ethcrypto.Keccak256([]byte("Transfer(address,address,uint256)")), r.keys[0].eth[:], r.keys[1].eth[:]}

		long := 0
		if c.Tier == "thorough" {
			if t.Prob(1, 5) {
				long = 1 + t.Choose(2)
			}
		} else if t.Prob(1, 30) {
			long = 1
		}

		// setup: fund, create three log contracts
		var setup []*types.Transaction
		for _, k := range r.keys {
			r.ont++
			setup = append(setup, c07Fund(c, r.ch, k.addr, new(big.Int).Mul(big.NewInt(1000), big.NewInt(1e18)), r.ont))
		}
		r.commit(nil, setup)
		var cr []*c43Tx
		for i := 0; i < 3; i++ {
			cr = append(cr, r.createTx(r.keys[0], false))
		}
		r.commit(cr, nil)
		for i := 0; i < 3; i++ {
			u := c07CreateAddr(r.keys[0].eth, uint64(i))
			if acc, err := r.ch.Store.GetEthAccount(u); err != nil || acc == nil || acc.IsEmptyContract() {
				c.Harness("log contract %d not deployed: %v", i, err)
			}
			r.us = append(r.us, u)
		}

		if long == 0 {
			n := t.Range(6, 6+t.Pick(4, 4, 2)*27)
			for i := 0; i < n; i++ {
				if t.Pick(1, 2) == 1 {
					r.logBlock()
				} else {
					r.emptyBlock()
				}
				if t.Prob(1, 10) {
					r.restart(false)
				}
			}
		} else {
			c.Probe("long_run")
			r.longRun(long)
		}
		r.flushEmpty()
		r.recheckAll("end of chain")
		r.checkSections()
		r.restart(false)
		r.checkSections()
		if (r.logBlocks >= 3 && r.logsChecked >= 5 && r.restarts >= 1) || r.sections >= 1 {
			c.NonTrivial()
		}
	})
}

// longRun crosses `sections` section boundaries.
func (r *c43Run) longRun(sections int) {
	t := r.c.Tape
	const S = ledgerstore.BloomBitsBlocks
	for s := 1; s <= sections; s++ {
		boundary := uint32(s * S) // first height of the next section
		// restart points: one somewhere in the section, one 0..3 blocks before the
		// boundary, one 0..3 blocks after it
		mid := r.ch.Height() + 1 + uint32(t.Choose(int(boundary-r.ch.Height()-10)))
		pre := boundary - 1 - uint32(t.Choose(4))
		post := boundary + uint32(t.Choose(4))
		doMid, doPre, doPost := t.Prob(2, 3), t.Prob(2, 3), t.Prob(2, 3)
		for r.ch.Height() < post+1 {
			h := r.ch.Height() + 1
			near := h+6 > boundary && h < boundary+4
			if near && t.Prob(1, 2) || !near && t.Prob(1, 40) {
				r.logBlock()
			} else {
				r.emptyBlock()
			}
			h = r.ch.Height()
			if (h == mid && doMid) || (h == pre && doPre) || (h == post && doPost) {
				if h != mid {
					r.c.Probe("restart_near_boundary")
				}
				r.restart(true)
			}
			if h == boundary-1 || h == boundary {
				r.checkSections()
			}
		}
	}
	tail := 1 + t.Choose(40)
	for i := 0; i < tail; i++ {
		if t.Prob(1, 4) {
			r.logBlock()
		} else {
			r.emptyBlock()
		}
	}
}

func (r *c43Run) topic() []byte {
	t := r.c.Tape
	switch t.Pick(3, 2, 1) {
	case 0:
		return r.pool[t.Choose(len(r.pool))]
	case 1:
		return t.Bytes(32)
	default:
		return r.us[t.Choose(len(r.us))][:]
	}
}

func c43Hash(b []byte) ethcomm.Hash { return ethcomm.BytesToHash(b) }

// logCall builds calldata making contract u emit logs.
func (r *c43Run) logCall(x *c43Tx, u ethcomm.Address, depth int) ([]byte, string) {
	t := r.c.Tape
	a, b, cc, d := r.topic(), r.topic(), r.topic(), r.topic()
	sel := []int{c07SelLog1, c07SelLog0, c07SelLog2, c07SelLog3, c07SelLog4, c07SelLogs, c07SelCall}[t.Pick(3, 1, 3, 2, 2, 3, 2)]
	if sel == c07SelCall && depth > 0 {
		sel = c07SelLog2
	}
	name := fmt.Sprintf("U%d.", r.uIndex(u))
	switch sel {
	case c07SelLog0:
		x.expect = append(x.expect, c43Log{addr: u, src: "generated"})
		x.probes = append(x.probes, "log0")
	case c07SelLog1:
		x.expect = append(x.expect, c43Log{addr: u, topics: []ethcomm.Hash{c43Hash(a)}, src: "generated"})
		x.probes = append(x.probes, "log1")
	case c07SelLog2:
		x.expect = append(x.expect, c43Log{addr: u, topics: []ethcomm.Hash{c43Hash(a), c43Hash(b)}, src: "generated"})
		x.probes = append(x.probes, "log2")
	case c07SelLog3:
		x.expect = append(x.expect, c43Log{addr: u, topics: []ethcomm.Hash{c43Hash(a), c43Hash(b), c43Hash(cc)}, src: "generated"})
		x.probes = append(x.probes, "log3")
	case c07SelLog4:
		x.expect = append(x.expect, c43Log{addr: u, topics: []ethcomm.Hash{c43Hash(a), c43Hash(b), c43Hash(cc), c43Hash(d)}, src: "generated"})
		x.probes = append(x.probes, "log4")
	case c07SelLogs:
		x.expect = append(x.expect, c43Log{addr: u, topics: []ethcomm.Hash{c43Hash(a)}, src: "generated"},
			c43Log{addr: u, topics: []ethcomm.Hash{c43Hash(b), c43Hash(cc)}, src: "generated"}, c43Log{addr: u, src: "generated"})
		x.probes = append(x.probes, "logs3")
	case c07SelCall:
		to := r.us[t.Choose(len(r.us))]
		inner, d2 := r.logCall(x, to, depth+1)
		x.probes = append(x.probes, "nested_log")
		return c07Calldata(c07SelCall, inner, to[:], nil), name + "call[" + d2 + "]"
	}
	return c07Calldata(byte(sel), nil, a, b, cc, d), name + c07SelNames[sel]
}

func (r *c43Run) uIndex(u ethcomm.Address) int {
	for i, x := range r.us {
		if x == u {
			return i
		}
	}
	return -1
}

func (r *c43Run) createTx(k *c07Key, withLog bool) *c43Tx {
	x := &c43Tx{}
	n := r.nonce[k.eth]
	r.nonce[k.eth]++
	ctor := c07CtorOK
	topic := k.eth
	if withLog {
		ctor = c07CtorLogOK
		created := c07CreateAddr(k.eth, n)
		x.expect = append(x.expect, c43Log{addr: created, topics: []ethcomm.Hash{c43Hash(topic[:])}, src: "generated"})
		x.probes = append(x.probes, "ctor_log")
	}
	etx := c07EthTx(r.c, k, c07ChainID(), n, nil, new(big.Int), 400000, new(big.Int), c07InitCode(ctor, byte(n), topic))
	tx, err := c07Wrap(etx)
	r.c.Must(err, "wrap create")
	x.tx = tx
	x.desc = fmt.Sprintf("%s n=%d create/%s", k.name, n, c07CtorNames[ctor])
	return x
}

// genTx generates one EIP-155 transaction, most of them emitting logs.
func (r *c43Run) genTx() *c43Tx {
	t := r.c.Tape
	k := r.keys[t.Choose(len(r.keys))]
	kind := t.Pick(10, 1, 2, 1)
	if kind == 1 {
		return r.createTx(k, true)
	}
	x := &c43Tx{}
	n := r.nonce[k.eth]
	r.nonce[k.eth]++
	gasPrice := new(big.Int)
	if t.Prob(1, 3) {
		gasPrice = new(big.Int).Mul(big.NewInt(500), big.NewInt(c07GWei))
	}
	value := new(big.Int)
	gas := uint64(400000)
	var to ethcomm.Address
	var data []byte
	switch kind {
	case 0:
		to = r.us[t.Choose(len(r.us))]
		var d string
		data, d = r.logCall(x, to, 0)
		x.desc = "call " + d
	case 2: // plain value transfer: an ONG Transfer log of the native ONG address
		to = r.keys[1-t.Choose(2)].eth
		value = big.NewInt(int64(1 + t.Choose(1000)))
		x.desc = "transfer->" + c07Short(to)
	default: // a log inside a call that then fails: nothing may be expected
		to = r.us[t.Choose(len(r.us))]
		inner := c07Calldata(c07SelLog1, nil, r.topic())
		sel := []byte{c07SelCallRevert, c07SelLoop, c07SelInvalid}[t.Choose(3)]
		data = c07Calldata(sel, inner, to[:], nil)
		gas = 60000
		x.desc = fmt.Sprintf("call U%d.%s (fails)", r.uIndex(to), c07SelNames[sel])
	}
	if value.Sign() > 0 {
		x.expect = append(x.expect, c43Log{addr: ethcomm.Address(nutils.OngContractAddress), topics: []ethcomm.Hash{
			c43Hash(r.pool[3]), c43Hash(k.eth[:]), c43Hash(to[:])}, src: "generated"})
		x.probes = append(x.probes, "ong_transfer_log")
	}
	etx := c07EthTx(r.c, k, c07ChainID(), n, &to, value, gas, gasPrice, data)
	tx, err := c07Wrap(etx)
	r.c.Must(err, "wrap")
	x.tx = tx
	x.desc = fmt.Sprintf("%s n=%d gp=%s v=%s %s", k.name, n, gasPrice, value, x.desc)
	return x
}

func (r *c43Run) emptyBlock() {
	r.ts += 1 + uint32(r.c.Tape.Choose(3))
	h := r.ch.Height() + 1
	blk := r.ch.MakeBlock(nil, r.ts, uint64(h))
	if _, err := r.ch.Commit(blk); err != nil {
		r.c.Harness("empty block %d refused: %v", h, err)
	}
	if r.emptyN == 0 {
		r.emptyA = h
	}
	r.emptyN++
	if h%256 == 0 {
		world.Quiesce()
	}
}

func (r *c43Run) flushEmpty() {
	if r.emptyN > 0 {
		r.c.Logf("empty blocks %d..%d", r.emptyA, r.emptyA+uint32(r.emptyN)-1)
		r.emptyN = 0
	}
}

func (r *c43Run) logBlock() {
	t := r.c.Tape
	n := 1 + t.Pick(4, 3, 2, 1)
	var txs []*c43Tx
	for i := 0; i < n; i++ {
		txs = append(txs, r.genTx())
	}
	if n > 1 {
		r.c.Probe("multi_tx_block")
	}
	r.commit(txs, nil)
}

func c43DecodeLogs(c *simkit.Ctx, nt *event.ExecuteNotify, src string) []c43Log {
	var out []c43Log
	for _, n := range nt.Notify {
		if !n.IsEvm {
			continue
		}
		l, err := event.NotifyEventInfoToEvmLog(n)
		if err != nil {
			c.Fail("undecodable-log-record", src, "EVM log record of tx %x cannot be decoded: %v", nt.TxHash[:4], err)
		}
		out = append(out, c43Log{addr: l.Address, topics: l.Topics, src: src})
	}
	return out
}

// commit applies a block with EVM transactions and checks its bloom.
func (r *c43Run) commit(evm []*c43Tx, native []*types.Transaction) {
	c := r.c
	r.flushEmpty()
	txs := append([]*types.Transaction(nil), native...)
	for _, x := range evm {
		txs = append(txs, x.tx)
	}
	r.ts += 1 + uint32(c.Tape.Choose(3))
	h := r.ch.Height() + 1
	blk := r.ch.MakeBlock(txs, r.ts, uint64(h))
	var res store.ExecuteResult
	var err error
	if len(evm) > 0 && c.Tape.Prob(1, 6) {
		// the process dies inside the commit of this block (C01's protocol), is restarted and,
		// if the block was lost, gets it again
		world.Quiesce()
		k, torn := 1+c.Tape.Choose(14), c.Tape.Choose(3)*100
		r.ch.Disk.ArmCrash(k, torn)
		res, err = r.ch.Commit(blk)
		if r.ch.Disk.Crashed() {
			c.Fault("crash_in_commit")
			c.Probe("crash_in_commit")
			c.Logf("CRASH in commit of block %d at %s (commit err: %v)", h, r.ch.Disk.CrashInfo, err)
			c40CloseCrashed(r.ch)
			world.Quiesce()
			r.ch.Disk.Restart()
			if oerr := r.ch.Open(); oerr != nil {
				c.Fail("reopen-fails", "crash-in-commit", "reopen after a crash in the commit of block %d (%s) fails: %v", h, r.ch.Disk.CrashInfo, oerr)
			}
			world.Quiesce()
			r.restarts++
			if r.ch.Height() < h {
				c.Probe("crash_lost_block")
				res, err = r.ch.Commit(blk)
			} else {
				// the block survived: its execution results are what the event store holds
				c.Probe("crash_kept_block")
				res = store.ExecuteResult{}
				for _, tx := range txs {
					nt, nerr := r.ch.Store.GetEventNotifyByTx(tx.Hash())
					if nerr != nil || nt == nil {
						c.Fail("reopen-fails", "crash-in-commit/events", "after the crash in the commit of block %d the ledger is at height %d but has no execution result for transaction %x: %v", h, r.ch.Height(), tx.Hash(), nerr)
					}
					res.Notify = append(res.Notify, nt)
				}
				err = nil
			}
		} else {
			r.ch.Disk.Disarm()
		}
	} else {
		res, err = r.ch.Commit(blk)
	}
	if err != nil {
		c.Harness("block %d refused: %v", h, err)
	}
	world.Quiesce()
	var all []c43Log
	var descs []string
	for i, x := range evm {
		nt := res.Notify[len(native)+i]
		descs = append(descs, fmt.Sprintf("%s=>%d", x.desc, nt.State))
		got := c43DecodeLogs(c, nt, "execution-result")
		all = append(all, got...)
		if nt.State == 1 {
			all = append(all, x.expect...)
			for _, p := range x.probes {
				c.Probe(p)
			}
		} else {
			c.Probe("failed_tx_in_block")
		}
	}
	c.Logf("block %d: %s", h, strings.Join(descs, "; "))
	if len(all) == 0 {
		return
	}
	r.logs[h] = all
	r.order = append(r.order, h)
	r.logBlocks++
	r.checkBlock(h, "after commit", "fresh")
}

// checkBlock tests the stored bloom of height h against every known log of
// the block and against the persisted event records.
func (r *c43Run) checkBlock(h uint32, when, sig string) {
	c := r.c
	bloom, err := r.ch.Store.GetBloomData(h)
	if err != nil {
		c.Fail("bloom-unreadable", sig, "%s: GetBloomData(%d): %v", when, h, err)
	}
	logs := append([]c43Log(nil), r.logs[h]...)
	nts, err := r.ch.Store.GetEventNotifyByBlock(h)
	if err != nil {
		c.Fail("event-records-unreadable", sig, "%s: GetEventNotifyByBlock(%d): %v", when, h, err)
	}
	for _, nt := range nts {
		logs = append(logs, c43DecodeLogs(c, nt, "event-store")...)
	}
	for _, l := range logs {
		if !c43Test(c, &bloom, l.addr[:]) {
			c.Fail("bloom-misses-log", sig+"/address", "%s: stored bloom of block %d does not match address %x of a log (%s) of that block", when, h, l.addr, l.src)
		}
		for i, tp := range l.topics {
			if !c43Test(c, &bloom, tp[:]) {
				c.Fail("bloom-misses-log", sig+"/topic", "%s: stored bloom of block %d does not match topic %d (%x) of a log of %x (%s) of that block", when, h, i, tp, l.addr[:4], l.src)
			}
		}
		r.logsChecked++
	}
}

func (r *c43Run) recheckAll(when string) {
	for _, h := range r.order {
		r.checkBlock(h, when, "reread")
	}
	r.c.Logf("%s: blooms of %d log-carrying blocks re-read", when, len(r.order))
}

func (r *c43Run) restart(near bool) {
	c := r.c
	r.flushEmpty()
	h := r.ch.Height()
	r.ch.Close()
	world.Quiesce()
	r.ch.Disk.Restart()
	if err := r.ch.Open(); err != nil {
		c.Fail("reopen-fails", "clean-restart", "clean reopen at height %d fails: %v", h, err)
	}
	world.Quiesce()
	r.restarts++
	c.Fault("clean_restart")
	c.Probe("restart")
	c.Logf("restart at height %d", h)
	if len(r.order) > 0 {
		c.Probe("recheck_after_restart")
	}
	r.recheckAll(fmt.Sprintf("after restart at %d", h))
}

// checkSections compares the stored section index with the stored blooms for
// every completed section.
func (r *c43Run) checkSections() {
	c := r.c
	const S = ledgerstore.BloomBitsBlocks
	h := r.ch.Height()
	complete := (h + 1) / S
	size, reported := r.ch.Store.BloomStatus()
	if size != S {
		c.Harness("BloomStatus section size %d", size)
	}
	if reported > complete {
		c.Fail("section-index-wrong", "status", "at height %d BloomStatus reports %d indexed sections, only %d are complete", h, reported, complete)
	}
	db := r.ch.Store.GetIndexStore()
	for s := uint32(0); s < complete; s++ {
		blooms := make([]ethtypes.Bloom, S)
		withLogs := 0
		for j := uint32(0); j < S; j++ {
			b, err := r.ch.Store.GetBloomData(s*S + j)
			if err != nil {
				c.Fail("bloom-unreadable", "section", "GetBloomData(%d): %v", s*S+j, err)
			}
			blooms[j] = b
			if _, ok := r.logs[s*S+j]; ok {
				withLogs++
			}
		}
		for i := uint(0); i < 2048; i++ {
			data, err := ledgerstore.ReadBloomBits(db, i, s)
			if err != nil {
				c.Fail("section-index-wrong", "missing", "at height %d: bit vector %d of completed section %d cannot be read: %v", h, i, s, err)
			}
			vec, err := bitutil.DecompressBytes(data, S/8)
			if err != nil {
				c.Fail("section-index-wrong", "undecodable", "at height %d: bit vector %d of section %d does not decompress: %v", h, i, s, err)
			}
			for j := uint32(0); j < S; j++ {
				got := vec[j/8] >> (7 - j%8) & 1
				if want := c43Bit(&blooms[j], i); got != want {
					c.Fail("section-index-wrong", "bit-differs", "at height %d: section %d, bloom bit %d, block %d: index says %d, the stored block bloom says %d (%d blocks of the section carry logs)", h, s, i, s*S+j, got, want, withLogs)
				}
			}
		}
		r.sections++
		c.Probe("section_checked")
		if withLogs > 0 {
			c.Probe("section_has_logs")
		}
		c.Logf("section %d checked at height %d: 2048 bit vectors x 4096 blocks, %d blocks with logs", s, h, withLogs)
		c.State("section", s, withLogs)
	}
}
