package props

import (
	"fmt"
	"time"

	"github.com/ontio/ontology/common"

	"ontosim/simkit"
	"ontosim/world"
)

// vbftOpts configures one W-vbft run.
type vbftOpts struct {
	N, C         int
	MaxSteps     int
	TargetHeight uint32
	// fault rates (out of 1000 per scheduler decision); 0 = kind disabled this run
	Drop, Dup, Reorder, Partition, TimeSkip int
	// invariant evaluated at every quiescent point
	Inv func(net *world.VbftNet, step int)
	// Extra lets a property add its own actions (e.g. Byzantine sends) at quiescent points
	Extra func(net *world.VbftNet, step int)
}

type vbftStats struct {
	Steps, Releases, Delivered, Dropped, Duplicated, TimeAdv int
	MaxHeight                                                 uint32
}

// sealedHeights returns, per node, the highest height with a sealed block.
func vbftHeights(net *world.VbftNet) []uint32 {
	out := make([]uint32, net.N)
	for i, nd := range net.Nodes {
		if nd.Srv != nil {
			_, committed, _ := nd.Srv.SimBlockNums()
			out[i] = committed
		} else if nd.Chain.Store != nil {
			out[i] = nd.Chain.Store.GetCurrentBlockHeight()
		}
	}
	return out
}

// runVbft drives the network: at every quiescent point the tape picks one of
// release-a-goroutine / deliver-a-message (any one: reordering) / drop /
// duplicate / advance-the-clock / partition change.
func runVbft(c *simkit.Ctx, net *world.VbftNet, o vbftOpts) vbftStats {
	t := c.Tape
	var st vbftStats
	start := time.Now()
	for st.Steps = 0; st.Steps < o.MaxSteps; st.Steps++ {
		world.Quiesce()
		if o.Inv != nil {
			o.Inv(net, st.Steps)
		}
		hs := vbftHeights(net)
		minH := ^uint32(0)
		for i, h := range hs {
			if net.Nodes[i].Down || net.Nodes[i].Byz {
				continue
			}
			if h < minH {
				minH = h
			}
			if h > st.MaxHeight {
				st.MaxHeight = h
			}
		}
		if minH != ^uint32(0) && minH >= o.TargetHeight {
			break
		}
		if o.Extra != nil {
			o.Extra(net, st.Steps)
		}
		parked := net.Sched.Parked()
		// The send loop only moves messages from the server's 16-slot send channel
		// onto the simulated wire (where the tape reorders them anyway). It is
		// released eagerly: starving it fills the channel while the sender holds
		// the block-pool lock, which no real schedule can do for long.
		auto := false
		for _, g := range parked {
			if g.Site == "vbft.sendLoop" {
				net.Switch(g.A)
				net.Sched.Release(g)
				st.Releases++
				auto = true
				break
			}
		}
		if auto {
			continue
		}
		net.SortFlight()
		nf := len(net.Flight)
		wGate, wMsg, wTime := 0, 0, 0
		if len(parked) > 0 {
			wGate = 16
		}
		if nf > 0 {
			wMsg = 6
			if len(parked) == 0 {
				wMsg = 30
			}
		}
		if len(parked) == 0 && nf == 0 {
			wTime = 1
		} else if o.TimeSkip > 0 && t.Prob(o.TimeSkip, 1000) {
			wGate, wMsg, wTime = 0, 0, 1
		}
		switch t.Pick(wGate, wMsg, wTime) {
		case 0:
			g := parked[t.Choose(len(parked))]
			net.Switch(g.A)
			net.Sched.Release(g)
			st.Releases++
			c.Logf("run %s", g.Key())
		case 1:
			k := 0
			if o.Reorder > 0 && t.Prob(o.Reorder, 1000) {
				k = t.Choose(nf)
				if k != 0 {
					c.Fault("reorder")
				}
			}
			m := net.Take(k)
			if net.Part[m.From][m.To] {
				c.Fault("partition_drop")
				st.Dropped++
				c.Logf("cut %d->%d #%d %s", m.From, m.To, m.Seq, m.Desc)
				break
			}
			if o.Drop > 0 && t.Prob(o.Drop, 1000) {
				c.Fault("drop")
				st.Dropped++
				c.Logf("drop %d->%d #%d %s", m.From, m.To, m.Seq, m.Desc)
				break
			}
			if o.Dup > 0 && t.Prob(o.Dup, 1000) {
				c.Fault("duplicate")
				st.Duplicated++
				cp := *m
				net.Flight = append(net.Flight, &cp)
			}
			r := net.Deliver(m)
			st.Delivered++
			c.Logf("deliver %d->%d #%d %s [%s]", m.From, m.To, m.Seq, m.Desc, r)
		case 2:
			q := []time.Duration{100 * time.Millisecond, 500 * time.Millisecond, time.Second, 2 * time.Second, 5 * time.Second, 10 * time.Second}[t.Choose(6)]
			time.Sleep(q)
			st.TimeAdv++
			c.Logf("clock +%v", q)
		}
		if o.Partition > 0 && t.Prob(o.Partition, 1000) {
			a, b := t.Choose(net.N), t.Choose(net.N)
			if a != b {
				net.Part[a][b] = !net.Part[a][b]
				net.Part[b][a] = net.Part[a][b]
				if net.Part[a][b] {
					c.Fault("partition_cut")
					c.Logf("partition cut %d<->%d", a, b)
				} else {
					c.Fault("partition_heal")
					c.Logf("partition heal %d<->%d", a, b)
				}
			}
		}
	}
	_ = start
	return st
}

// checkAgreement is the C34 safety invariant: no two honest nodes hold different
// sealed (block pool) or committed (ledger) blocks for the same height.
func checkAgreement(c *simkit.Ctx, net *world.VbftNet, maxH uint32, sig string) {
	for h := uint32(1); h <= maxH+1; h++ {
		var ref common.Uint256
		refNode := -1
		for _, nd := range net.Nodes {
			if nd.Byz {
				continue
			}
			var hashes []common.Uint256
			if nd.Srv != nil {
				if hh, _, _, ok := nd.Srv.SimSealed(h); ok {
					hashes = append(hashes, hh)
				}
			}
			if nd.Chain.Store != nil && nd.Chain.Store.GetCurrentBlockHeight() >= h {
				hashes = append(hashes, nd.Chain.Store.GetBlockHash(h))
			}
			for _, hh := range hashes {
				if refNode < 0 {
					ref, refNode = hh, nd.I
				} else if hh != ref {
					c.Fail("fork", sig, "height %d: node %d has block %x, node %d has block %x", h, refNode, ref[:6], nd.I, hh[:6])
				}
			}
		}
	}
}

var _ = fmt.Sprint
