package props

import (
	"os"
	"fmt"
	"sort"
	"time"

	"github.com/ontio/ontology-crypto/keypair"
	"github.com/ontio/ontology/account"
	"github.com/ontio/ontology/common"
	"github.com/ontio/ontology/consensus/vbft"
	"github.com/ontio/ontology/core/types"
	msgpack "github.com/ontio/ontology/p2pserver/message/msg_pack"

	"ontosim/simkit"
	"ontosim/world"
)

// vbftOpts configures one W-vbft run.
type vbftOpts struct {
	N, C         int
	MaxSteps     int
	TargetHeight uint32
	// fault rates (out of 1000 per scheduler decision); 0 = kind disabled this run
	Drop, Dup, Reorder, Partition, TimeSkip, Restart int
	// Byzantine behaviour of node Byz (-1: none)
	Byz                              int
	ByzForgeCommit, ByzDoubleEndorse int // per-1000 rates per quiescent point
	ByzEquivocate                    bool
	ByzWithhold                      int
	// invariant evaluated at every quiescent point
	Inv func(net *world.VbftNet, step int)
	// Stop ends the run early when it returns true (e.g. after a known finding was recorded)
	Stop func() bool
}

type vbftStats struct {
	Steps, Releases, Delivered, Dropped, Duplicated, TimeAdv, Restarts int
	MaxHeight                                                          uint32
	SimTime                                                            time.Duration
	Reached                                                            bool
}

// vbftHeights returns, per node, the highest chained (sealed) height.
func vbftHeights(net *world.VbftNet) []uint32 {
	out := make([]uint32, net.N)
	for i, nd := range net.Nodes {
		if nd.Srv != nil {
			_, committed, _ := nd.Srv.SimBlockNums()
			out[i] = committed
		} else if nd.Chain.Store != nil {
			out[i] = nd.Chain.Store.GetCurrentBlockHeight()
		}
	}
	return out
}

// vbftFund prepares transactions the tx-pool stubs can offer: 1-unit ONT
// transfers out of the genesis multi-signature account, signed by m peers.
func vbftFund(c *simkit.Ctx, net *world.VbftNet, count int) []*types.Transaction {
	n := len(net.Books)
	m := (5*n + 6) / 7
	from, err := types.AddressFromMultiPubKeys(net.Books, m)
	c.Must(err, "genesis multisig address")
	byKey := map[string]*account.Account{}
	for _, nd := range net.Nodes {
		byKey[string(keypair.SerializePublicKey(nd.Acc.PublicKey))] = nd.Acc
	}
	var signers []*account.Account
	for _, pk := range net.Books[:m] {
		signers = append(signers, byKey[string(keypair.SerializePublicKey(pk))])
	}
	var out []*types.Transaction
	for i := 0; i < count; i++ {
		to := net.Nodes[i%net.N].Acc.Address
		mt, err := world.TransferTx("ont", from, to, 1, 0, 20000, uint32(1000+i), from)
		c.Must(err, "fund tx")
		c.Must(world.MultiSign(mt, uint16(m), net.Books, signers), "multisign")
		tx, err := world.Seal(mt)
		c.Must(err, "seal")
		out = append(out, tx)
	}
	return out
}

// vbftOfferTxs gives every node's pool stub a tape-chosen subset of the
// transactions not yet on that node's chain.
func vbftOfferTxs(c *simkit.Ctx, net *world.VbftNet, all []*types.Transaction) {
	t := c.Tape
	for _, nd := range net.Nodes {
		if nd.Chain.Store == nil {
			continue
		}
		var sub []*types.Transaction
		for _, tx := range all {
			if ok, _ := nd.Chain.Store.IsContainTransaction(tx.Hash()); ok {
				continue
			}
			if len(sub) < 3 && t.Prob(1, 2) {
				sub = append(sub, tx)
			}
		}
		nd.PoolTx = sub
	}
}

type vbftRun struct {
	c       *simkit.Ctx
	net     *world.VbftNet
	o       vbftOpts
	st      vbftStats
	txs     []*types.Transaction
	pending map[int]int // node -> steps until restart
	byzAlt  map[uint32]bool
}

// everFaulty counts the peers that are faulty in this run: the Byzantine one and
// every node that ever crashed (a restarted node has lost its votes: it may sign
// a second block for a height, exactly like a Byzantine peer).
func (r *vbftRun) everFaulty() int {
	n := 0
	for _, nd := range r.net.Nodes {
		if nd.Byz || nd.Crashed {
			n++
		}
	}
	return n
}

// crashNode kills a node's process (server and ledger handles are dropped; the
// disk image survives) and schedules its restart.
func (r *vbftRun) crashNode(i int) {
	nd := r.net.Nodes[i]
	nd.Crashed = true
	r.net.StopNode(nd)
	nd.Chain.Close()
	world.Quiesce()
	nd.Chain.Disk.Restart()
	r.pending[i] = 1 + r.c.Tape.Choose(400)
	r.c.Fault("node_crash")
	r.c.Logf("CRASH node %d (restart in %d steps)", i, r.pending[i])
}

func (r *vbftRun) restartNode(i int) {
	nd := r.net.Nodes[i]
	delete(r.pending, i)
	if err := r.net.ReopenLedger(nd); err != nil {
		r.c.Fail("restart-fails", "node-restart", "node %d cannot reopen its ledger: %v", i, err)
	}
	if err := r.net.StartNode(nd); err != nil {
		r.c.Fail("restart-fails", "node-restart", "node %d cannot restart its consensus server: %v", i, err)
	}
	r.st.Restarts++
	r.c.Fault("node_restart")
	r.c.Logf("RESTART node %d at height %d", i, nd.Chain.Store.GetCurrentBlockHeight())
}

// send injects a consensus message signed by node b's account to node `to`.
func (r *vbftRun) byzSend(b int, msg vbft.ConsensusMsg, to []int, what string) {
	nd := r.net.Nodes[b]
	payload, err := vbft.SimWrap(nd.Acc, msg)
	if err != nil {
		return
	}
	for _, j := range to {
		if j == b {
			continue
		}
		r.net.Enqueue(b, j, msgpack.NewConsensus(payload))
	}
	r.c.Logf("BYZ node %d sends %s to %v", b, what, to)
}

// byzStep lets the Byzantine peer misbehave at a quiescent point.
func (r *vbftRun) byzStep() {
	o, t, net := r.o, r.c.Tape, r.net
	if o.Byz < 0 {
		return
	}
	bn := net.Nodes[o.Byz]
	if bn.Srv == nil {
		return
	}
	// pick the round of some honest running node
	var blk uint32
	var view *world.VNode
	for _, nd := range net.Nodes {
		if !nd.Byz && nd.Srv != nil {
			cur, _, _ := nd.Srv.SimBlockNums()
			if cur > blk {
				blk, view = cur, nd
			}
		}
	}
	if view == nil {
		return
	}
	others := func() []int {
		var out []int
		for j := 0; j < net.N; j++ {
			if j != o.Byz && t.Prob(2, 3) {
				out = append(out, j)
			}
		}
		return out
	}
	props, _, _ := view.Srv.SimCandidate(blk)
	if o.ByzForgeCommit > 0 && len(props) > 0 && t.Prob(o.ByzForgeCommit, 1000) {
		p := props[t.Choose(len(props))]
		forEmpty := p.HasEmpty && t.Bool()
		h := p.BlockHash
		if forEmpty {
			h = p.EmptyHash
		}
		claimed := map[uint32][]byte{}
		for j := 1; j <= net.N; j++ {
			if j != o.Byz+1 && t.Prob(3, 4) {
				claimed[uint32(j)] = t.Bytes(1 + t.Choose(70)) // junk signature bytes
			}
		}
		msg, err := vbft.SimBuildCommit(bn.Acc, uint32(o.Byz+1), p.Proposer, blk, h, forEmpty, nil, claimed)
		if err == nil {
			r.c.Fault("byz_forged_commit")
			r.byzSend(o.Byz, msg, others(), fmt.Sprintf("forged commit blk=%d proposer=%d empty=%v claiming %d endorsers", blk, p.Proposer, forEmpty, len(claimed)))
		}
	}
	if o.ByzDoubleEndorse > 0 && len(props) > 0 && t.Prob(o.ByzDoubleEndorse, 1000) {
		for _, p := range props {
			forEmpty := p.HasEmpty && t.Bool()
			h := p.BlockHash
			if forEmpty {
				h = p.EmptyHash
			}
			msg, err := vbft.SimBuildEndorse(bn.Acc, uint32(o.Byz+1), p.Proposer, blk, h, forEmpty, nil)
			if err == nil {
				r.c.Fault("byz_multi_endorse")
				r.byzSend(o.Byz, msg, others(), fmt.Sprintf("endorse blk=%d proposer=%d empty=%v", blk, p.Proposer, forEmpty))
			}
		}
	}
	if o.ByzEquivocate && !r.byzAlt[blk] {
		bcur, _, _ := bn.Srv.SimBlockNums()
		_, proposers, _, _, _, _, _ := bn.Srv.SimParticipants()
		isProposer := false
		for _, p := range proposers {
			if p == uint32(o.Byz+1) {
				isProposer = true
			}
		}
		if bcur == blk && isProposer && bn.Srv.SimIsReady() {
			// a second, different, correctly signed proposal for the same round
			var alt []*types.Transaction
			for _, tx := range r.txs {
				if ok, _ := bn.Chain.Store.IsContainTransaction(tx.Hash()); !ok && t.Prob(1, 2) && len(alt) < 2 {
					alt = append(alt, tx)
				}
			}
			world.SwitchLedger(bn)
			msg, err := bn.Srv.SimBuildProposal(blk, alt)
			if err == nil {
				r.byzAlt[blk] = true
				r.c.Fault("byz_equivocate_proposal")
				r.byzSend(o.Byz, msg, others(), fmt.Sprintf("second proposal blk=%d txs=%d", blk, len(alt)))
			}
		}
	}
}

// runVbft drives the network: at every quiescent point the tape picks one of
// release-a-goroutine / deliver-a-message (any one: reordering) / drop /
// duplicate / advance-the-clock / partition change / crash / restart.
func runVbft(c *simkit.Ctx, net *world.VbftNet, o vbftOpts) vbftStats {
	t := c.Tape
	r := &vbftRun{c: c, net: net, o: o, pending: map[int]int{}, byzAlt: map[uint32]bool{}}
	r.txs = vbftFund(c, net, 12)
	if o.Byz >= 0 {
		net.Nodes[o.Byz].Byz = true
		if o.ByzWithhold > 0 {
			net.OnSend = func(m *world.NetMsg) bool {
				if m.From == o.Byz && t.Prob(o.ByzWithhold, 1000) {
					c.Fault("byz_withhold")
					return false
				}
				return true
			}
		}
	}
	start := time.Now()
	st := &r.st
	lastOffer := -1
	for st.Steps = 0; st.Steps < o.MaxSteps; st.Steps++ {
		world.Quiesce()
		if o.Inv != nil {
			o.Inv(net, st.Steps)
		}
		if o.Stop != nil && o.Stop() {
			break
		}
		hs := vbftHeights(net)
		minH := ^uint32(0)
		for i, h := range hs {
			if net.Nodes[i].Byz {
				continue
			}
			if h < minH {
				minH = h
			}
			if h > st.MaxHeight {
				st.MaxHeight = h
			}
		}
		if minH != ^uint32(0) && minH >= o.TargetHeight && len(r.pending) == 0 {
			st.Reached = true
			break
		}
		if int(st.MaxHeight) != lastOffer {
			lastOffer = int(st.MaxHeight)
			vbftOfferTxs(c, net, r.txs)
		}
		// node restarts that are due
		var due []int
		for i := range r.pending {
			due = append(due, i)
		}
		sort.Ints(due)
		for _, i := range due {
			r.pending[i]--
			if r.pending[i] <= 0 {
				r.restartNode(i)
			}
		}
		if len(due) > 0 {
			continue
		}
		r.byzStep()
		// crash of an honest node (at most C faulty in total, the Byzantine one included)
		if o.Restart > 0 && t.Prob(o.Restart, 1000) {
			{
				// a node that crashed once may crash again; a fresh victim only while
				// the number of faulty peers stays within C
				var cand []int
				for i, nd := range net.Nodes {
					if !nd.Byz && !nd.Down && nd.Srv != nil && (nd.Crashed || r.everFaulty() < o.C) {
						cand = append(cand, i)
					}
				}
				if len(cand) > 0 {
					r.crashNode(cand[t.Choose(len(cand))])
					continue
				}
			}
		}
		parked := net.Sched.Parked()
		// The send loop only moves messages from the server's 16-slot send channel
		// onto the simulated wire (where the tape reorders them anyway). It is
		// released eagerly: starving it fills the channel while the sender holds
		// the block-pool lock, which no real schedule can do for long.
		auto := false
		for _, g := range parked {
			if g.Site == "vbft.sendLoop" {
				net.Switch(g.A)
				net.Sched.Release(g)
				st.Releases++
				auto = true
				break
			}
		}
		if auto {
			continue
		}
		net.SortFlight()
		nf := len(net.Flight)
		wGate, wMsg, wTime := 0, 0, 0
		if len(parked) > 0 {
			wGate = 16
		}
		if nf > 0 {
			wMsg = 6
			if len(parked) == 0 {
				wMsg = 30
			}
		}
		if len(parked) == 0 && nf == 0 {
			wTime = 1
		} else if o.TimeSkip > 0 && t.Prob(o.TimeSkip, 1000) {
			wGate, wMsg, wTime = 0, 0, 1
			c.Fault("early_timeout")
		}
		switch t.Pick(wGate, wMsg, wTime) {
		case 0:
			if os.Getenv("VERIF_DEBUG_PARKED") != "" {
				ks := ""
				for _, g := range parked {
					ks += g.Key() + " "
				}
				fmt.Fprintf(os.Stderr, "  ? parked: %s\n", ks)
			}
			g := parked[t.Choose(len(parked))]
			net.Switch(g.A)
			net.Sched.Release(g)
			st.Releases++
			c.Logf("run %s", g.Key())
		case 1:
			if os.Getenv("VERIF_DEBUG_PARKED") != "" {
				ks := ""
				for _, m := range net.Flight {
					ks += fmt.Sprintf("%d>%d#%d/%d ", m.From, m.To, m.Seq, m.Kind)
				}
				fmt.Fprintf(os.Stderr, "  ? flight: %s\n", ks)
			}
			k := 0
			if o.Reorder > 0 && t.Prob(o.Reorder, 1000) {
				k = t.Choose(nf)
				if k != 0 {
					c.Fault("reorder")
				}
			}
			m := net.Take(k)
			if net.Part[m.From][m.To] {
				c.Fault("partition_drop")
				st.Dropped++
				c.Logf("cut %d->%d #%d %s", m.From, m.To, m.Seq, m.Desc)
				break
			}
			if o.Drop > 0 && t.Prob(o.Drop, 1000) {
				c.Fault("drop")
				st.Dropped++
				c.Logf("drop %d->%d #%d %s", m.From, m.To, m.Seq, m.Desc)
				break
			}
			if o.Dup > 0 && t.Prob(o.Dup, 1000) {
				c.Fault("duplicate")
				st.Duplicated++
				cp := *m
				net.Flight = append(net.Flight, &cp)
			}
			res := net.Deliver(m)
			st.Delivered++
			c.Logf("deliver %d->%d #%d %s [%s]", m.From, m.To, m.Seq, m.Desc, res)
		case 2:
			q := []time.Duration{100 * time.Millisecond, 500 * time.Millisecond, time.Second, 2 * time.Second, 5 * time.Second, 10 * time.Second}[t.Choose(6)]
			time.Sleep(q)
			st.TimeAdv++
			c.Logf("clock +%v", q)
		}
		if o.Partition > 0 && t.Prob(o.Partition, 1000) {
			a, b := t.Choose(net.N), t.Choose(net.N)
			if a != b {
				net.Part[a][b] = !net.Part[a][b]
				net.Part[b][a] = net.Part[a][b]
				if net.Part[a][b] {
					c.Fault("partition_cut")
					c.Logf("partition cut %d<->%d", a, b)
				} else {
					c.Fault("partition_heal")
					c.Logf("partition heal %d<->%d", a, b)
				}
			}
		}
	}
	st.SimTime = time.Since(start)
	return *st
}

// checkAgreement is the C34 safety invariant: no two honest nodes hold different
// sealed (block pool) or committed (ledger) blocks for the same height.
func checkAgreement(c *simkit.Ctx, net *world.VbftNet, maxH uint32, sig string) {
	for h := uint32(1); h <= maxH+1; h++ {
		var ref common.Uint256
		refNode := -1
		for _, nd := range net.Nodes {
			if nd.Byz || nd.Crashed {
				continue // faulty peers are outside the property
			}
			var hashes []common.Uint256
			if nd.Srv != nil {
				if hh, _, _, ok := nd.Srv.SimSealed(h); ok {
					hashes = append(hashes, hh)
				}
			}
			if nd.Chain.Store != nil && nd.Chain.Store.GetCurrentBlockHeight() >= h {
				hashes = append(hashes, nd.Chain.Store.GetBlockHash(h))
			}
			for _, hh := range hashes {
				if refNode < 0 {
					ref, refNode = hh, nd.I
				} else if hh != ref {
					class := classifyFork(net, h, ref, hh)
					c.FailSoft("fork", sig+"/"+class, "height %d: node %d has block %x, node %d has block %x (%s)\n%s\n%s", h, refNode, ref[:6], nd.I, hh[:6], class,
						describeRound(net.Nodes[refNode], h), describeRound(nd, h))
					return
				}
			}
		}
	}
}

// classifyFork names the class of a fork from the signatures the nodes hold:
// "same-proposer-two-blocks" when both blocks come from one (faulty) proposer -
// votes are pooled per proposer, not per block hash; "honest-node-signed-both" when some honest peer has a VALID signature (as
// proposer, endorser or committer) on both conflicting blocks of the height -
// the protocol let an honest node vote twice; "quorums-without-common-honest-signer"
// otherwise (the quorum rule itself was too weak, or votes were counted that carry
// no valid signature).
func classifyFork(net *world.VbftNet, h uint32, a, b common.Uint256) string {
	pubs := map[uint32]keypair.PublicKey{}
	for _, nd := range net.Nodes {
		pubs[uint32(nd.I+1)] = nd.Acc.PublicKey
	}
	signed := map[uint32]map[common.Uint256]bool{}
	mark := func(idx uint32, hash common.Uint256, sig []byte, trusted bool) {
		if hash != a && hash != b {
			return
		}
		if !trusted {
			pk, ok := pubs[idx]
			if !ok || len(sig) == 0 || !c16SigValid(pk, hash[:], sig) {
				return
			}
		}
		if signed[idx] == nil {
			signed[idx] = map[common.Uint256]bool{}
		}
		signed[idx][hash] = true
	}
	for _, nd := range net.Nodes {
		if nd.Srv == nil {
			continue
		}
		props, endorses, commits := nd.Srv.SimCandidate(h)
		for _, p := range props {
			// a proposal in the pool passed the proposer-signature check on both hashes
			mark(p.Proposer, p.BlockHash, nil, true)
			if p.HasEmpty {
				mark(p.Proposer, p.EmptyHash, nil, true)
			}
		}
		for _, e := range endorses {
			mark(e.Endorser, a, e.Sig, false)
			mark(e.Endorser, b, e.Sig, false)
		}
		for _, m := range commits {
			mark(m.Committer, m.Hash, m.CommitterSig, false)
			for idx, s := range m.EndorsersSig {
				mark(idx, m.Hash, s, false)
			}
		}
	}
	// the same proposer signed both blocks: it equivocated (a Byzantine proposer,
	// or one that crashed and proposed again after restart)
	propOf := map[common.Uint256]uint32{}
	for _, nd := range net.Nodes {
		if nd.Srv == nil {
			continue
		}
		if hh, p, _, ok := nd.Srv.SimSealed(h); ok {
			propOf[hh] = p
		}
		props, _, _ := nd.Srv.SimCandidate(h)
		for _, p := range props {
			propOf[p.BlockHash] = p.Proposer
			if p.HasEmpty {
				propOf[p.EmptyHash] = p.Proposer
			}
		}
	}
	if pa, ok := propOf[a]; ok {
		if pb, ok2 := propOf[b]; ok2 && pa == pb {
			// one proposal carries two signed hashes (the block and its empty variant). Two
			// different proposals of one proposer are something else when that proposer is
			// honest and never crashed: an honest node proposes once per round
			// positive evidence only: both hashes are seen as block hashes of two proposals
			// held by the nodes (an empty variant is never a second proposal)
			var inA, inB bool
			for _, nd := range net.Nodes {
				if nd.Srv == nil {
					continue
				}
				props, _, _ := nd.Srv.SimCandidate(h)
				for _, p := range props {
					if p.Proposer != pa {
						continue
					}
					if p.BlockHash == a {
						inA = true
					}
					if p.BlockHash == b {
						inB = true
					}
				}
			}
			if pn := net.Nodes[pa-1]; inA && inB && !pn.Byz && !pn.Crashed {
				return "honest-proposer-two-proposals"
			}
			return "same-proposer-two-blocks"
		}
	}
	var both []uint32
	for _, nd := range net.Nodes {
		idx := uint32(nd.I + 1)
		if !nd.Byz && !nd.Crashed && signed[idx][a] && signed[idx][b] {
			both = append(both, idx)
		}
	}
	if len(both) > 0 {
		return "honest-node-signed-both"
	}
	return "quorums-without-common-honest-signer"
}

// checkCommitQuorum is the C31 oracle: whenever an honest node's own predicate
// says commit consensus is reached for proposer p, recount the DISTINCT peers
// for which the node holds a signature that VERIFIES over that proposal's block
// hash (the proposer's own signature counts); it must reach N-(N-1)/3.
func checkCommitQuorum(c *simkit.Ctx, net *world.VbftNet, sigBase string) {
	pubs := map[uint32]keypair.PublicKey{}
	for _, nd := range net.Nodes {
		pubs[uint32(nd.I+1)] = nd.Acc.PublicKey
	}
	for _, nd := range net.Nodes {
		if nd.Byz || nd.Srv == nil {
			continue
		}
		cur, _, _ := nd.Srv.SimBlockNums()
		proposer, forEmpty, done := nd.Srv.SimCommitDone(cur)
		if !done {
			continue
		}
		c.Probe("commit_done_evaluated")
		props, endorses, commits := nd.Srv.SimCandidate(cur)
		cfg := nd.Srv.SimChainConfig()
		need := int(cfg.N) - (int(cfg.N)-1)/3
		// every hash proposer p signed for this round (block / empty block, any of its proposals)
		best := 0
		var bestDesc string
		type cand struct {
			h     common.Uint256
			empty bool
		}
		var cands []cand
		for _, p := range props {
			if p.Proposer != proposer {
				continue
			}
			cands = append(cands, cand{p.BlockHash, false})
			if p.HasEmpty {
				cands = append(cands, cand{p.EmptyHash, true})
			}
		}
		// block hashes named by commit messages for this proposer (the node may hold
		// no proposal yet); the proposer's own signature is then not known to exist
		known := map[common.Uint256]bool{}
		for _, cd := range cands {
			known[cd.h] = true
		}
		var extra []cand
		for _, m := range commits {
			if m.Proposer == proposer && !known[m.Hash] {
				known[m.Hash] = true
				extra = append(extra, cand{m.Hash, m.ForEmpty})
			}
		}
		// hashes of this proposer's proposals that OTHER nodes hold for the round: a node that
		// restarted can hold endorsements (which carry no hash) for a proposal it has not got yet
		for _, o := range net.Nodes {
			if o == nd || o.Srv == nil {
				continue
			}
			ops, _, _ := o.Srv.SimCandidate(cur)
			for _, p := range ops {
				if p.Proposer != proposer {
					continue
				}
				if !known[p.BlockHash] {
					known[p.BlockHash] = true
					extra = append(extra, cand{p.BlockHash, false})
				}
				if p.HasEmpty && !known[p.EmptyHash] {
					known[p.EmptyHash] = true
					extra = append(extra, cand{p.EmptyHash, true})
				}
			}
		}
		nProp := len(cands)
		cands = append(cands, extra...)
		for ci, cd := range cands {
			signers := map[uint32]bool{}
			if ci < nProp {
				signers[proposer] = true
			}
			valid := func(idx uint32, sig []byte) bool {
				pk, ok := pubs[idx]
				return ok && len(sig) > 0 && c16SigValid(pk, cd.h[:], sig)
			}
			for _, e := range endorses {
				if e.Proposer == proposer && valid(e.Endorser, e.Sig) {
					signers[e.Endorser] = true
				}
			}
			for _, m := range commits {
				if m.Proposer != proposer {
					continue
				}
				if valid(m.Committer, m.CommitterSig) {
					signers[m.Committer] = true
				}
				if valid(proposer, m.ProposerSig) { // the commit message carries the proposer's signature
					signers[proposer] = true
				}
				for idx, s := range m.EndorsersSig {
					if valid(idx, s) {
						signers[idx] = true
					}
				}
			}
			if len(signers) > best {
				best = len(signers)
				bestDesc = fmt.Sprintf("hash %x empty=%v signers=%v", cd.h[:4], cd.empty, sortedKeys(signers))
			}
		}
		if best < need {
			sig := sigBase
			forged := false
			for _, m := range commits {
				if m.Proposer == proposer && net.Nodes[m.Committer-1].Byz {
					forged = true
				}
			}
			perEndorser := map[uint32]int{}
			dupEndorse := false
			for _, e := range endorses {
				if e.Proposer == proposer {
					perEndorser[e.Endorser]++
					if perEndorser[e.Endorser] > 1 {
						dupEndorse = true
					}
				}
			}
			proposerVotes := false
			for _, e := range endorses {
				if e.Proposer == proposer && e.Endorser == proposer {
					proposerVotes = true
				}
			}
			for _, m := range commits {
				if m.Proposer == proposer {
					if _, ok := m.EndorsersSig[proposer]; ok || m.Committer == proposer {
						proposerVotes = true
					}
				}
			}
			// commit messages for the proposal and for the empty block of the same proposer (two different hashes)
			sawEmpty, sawFull := false, false
			for _, m := range commits {
				if m.Proposer == proposer {
					if m.ForEmpty {
						sawEmpty = true
					} else {
						sawFull = true
					}
				}
			}
			switch {
			case forged:
				sig += "/unverified-endorser-claims-in-commit"
			case dupEndorse:
				sig += "/one-peer-endorsements-counted-twice"
			case sawEmpty && sawFull:
				sig += "/commits-for-block-and-empty-block-pooled"
			case proposerVotes:
				sig += "/proposer-counted-twice"
			default:
				sig += "/other"
			}
			c.FailSoft("commit-without-verifiable-quorum", sig,
				"node %d declares commit consensus at height %d for proposer %d (forEmpty=%v) holding valid signatures of only %d distinct peers (%s), need %d; %d commit msgs, %d endorse sigs held",
				nd.I, cur, proposer, forEmpty, best, bestDesc, need, len(commits), len(endorses))
		}
	}
}

func sortedKeys(m map[uint32]bool) []uint32 {
	var out []uint32
	for k := range m {
		out = append(out, k)
	}
	sort.Slice(out, func(i, j int) bool { return out[i] < out[j] })
	return out
}

// checkParticipants is the C29 invariant, evaluated on every honest node's
// current round; seen maps height -> first node's selection.
func checkParticipants(c *simkit.Ctx, net *world.VbftNet, seen map[string]string) {
	for _, nd := range net.Nodes {
		if nd.Byz || nd.Srv == nil {
			continue
		}
		blk, proposers, endorsers, committers, n, cf, members := nd.Srv.SimParticipants()
		if blk == 0 {
			continue
		}
		mem := map[uint32]bool{}
		for _, m := range members {
			mem[m] = true
		}
		distinct := func(xs []uint32) int {
			s := map[uint32]bool{}
			for _, x := range xs {
				s[x] = true
			}
			return len(s)
		}
		desc := fmt.Sprintf("P=%v E=%v C=%v", proposers, endorsers, committers)
		if len(proposers) != int(cf)+1 || distinct(proposers) != len(proposers) {
			c.Fail("proposer-set-malformed", "participants", "node %d height %d N=%d C=%d: %s", nd.I, blk, n, cf, desc)
		}
		if distinct(endorsers) < 2*int(cf)+1 {
			c.Fail("endorser-set-malformed", "participants", "node %d height %d N=%d C=%d: %s", nd.I, blk, n, cf, desc)
		}
		if distinct(committers) < 2*int(cf)+1 {
			c.Fail("committer-set-malformed", "participants", "node %d height %d N=%d C=%d: %s", nd.I, blk, n, cf, desc)
		}
		for _, set := range [][]uint32{proposers, endorsers, committers} {
			for _, x := range set {
				if !mem[x] {
					c.Fail("participant-not-member", "participants", "node %d height %d: %d is not in the chain configuration %v: %s", nd.I, blk, x, members, desc)
				}
			}
		}
		// the selection is a function of (seed, configuration): the seed comes from
		// the previous block, so nodes are compared per (height, previous block) -
		// after a fork (C34's subject) two nodes legitimately stand on different seeds
		prevHash, _, _, okPrev := nd.Srv.SimSealed(blk - 1)
		if !okPrev {
			if nd.Chain.Store != nil && nd.Chain.Store.GetCurrentBlockHeight() >= blk-1 {
				prevHash = nd.Chain.Store.GetBlockHash(blk - 1)
			} else {
				continue
			}
		}
		key := fmt.Sprintf("%d/%x", blk, prevHash[:8])
		if prev, ok := seen[key]; ok {
			if prev != desc {
				c.Fail("participants-differ-between-nodes", "participants", "height %d on top of block %x: node %d selects %s, another node selected %s", blk, prevHash[:6], nd.I, desc, prev)
			}
		} else {
			seen[key] = desc
			c.State("participants", key, desc)
		}
	}
}

// describeRound renders what a node's block pool holds for a round (for failure reports).
func describeRound(nd *world.VNode, h uint32) string {
	if nd.Srv == nil {
		return fmt.Sprintf("node %d: server down", nd.I)
	}
	props, endorses, commits := nd.Srv.SimCandidate(h)
	blk, P, E, C, _, _, _ := nd.Srv.SimParticipants()
	s := fmt.Sprintf("node %d (idx %d) round-config(blk %d) P=%v E=%v C=%v;", nd.I, nd.I+1, blk, P, E, C)
	for _, p := range props {
		s += fmt.Sprintf(" proposal{by %d hash %x empty %x}", p.Proposer, p.BlockHash[:4], p.EmptyHash[:4])
	}
	for _, e := range endorses {
		s += fmt.Sprintf(" endorse{%d->%d empty=%v}", e.Endorser, e.Proposer, e.ForEmpty)
	}
	for _, m := range commits {
		s += fmt.Sprintf(" commit{by %d for %d hash %x empty=%v endorsers=%v}", m.Committer, m.Proposer, m.Hash[:4], m.ForEmpty, sortedKeysB(m.EndorsersSig))
	}
	if hh, p, _, ok := nd.Srv.SimSealed(h); ok {
		s += fmt.Sprintf(" SEALED{%x by %d}", hh[:4], p)
	}
	return s
}

func sortedKeysB(m map[uint32][]byte) []uint32 {
	var out []uint32
	for k := range m {
		out = append(out, k)
	}
	sort.Slice(out, func(i, j int) bool { return out[i] < out[j] })
	return out
}
