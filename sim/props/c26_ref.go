package props

import (
	"crypto/sha256"

	"github.com/ontio/ontology/common"
)

// Independent RFC 6962 reference for C26: everything is the recursive
// definition over the plain list of leaf hashes (MTH, PATH, PROOF/SUBPROOF and
// the two verifiers written as recursions over the same tree shape). Nothing
// here calls into /repo/merkle.

func c26LeafHash(data []byte) common.Uint256 {
	return sha256.Sum256(append([]byte{0x00}, data...))
}

func c26Node(l, r common.Uint256) common.Uint256 {
	var b [65]byte
	b[0] = 0x01
	copy(b[1:33], l[:])
	copy(b[33:], r[:])
	return sha256.Sum256(b[:])
}

// c26Split is the largest power of two strictly smaller than n (n >= 2).
func c26Split(n uint32) uint32 {
	k := uint32(1)
	for k*2 < n {
		k *= 2
	}
	return k
}

type c26Ref struct {
	leaves []common.Uint256
	memo   map[uint64]common.Uint256 // roots of complete subtrees [lo,hi), append-only so never stale
}

func newC26Ref() *c26Ref { return &c26Ref{memo: map[uint64]common.Uint256{}} }

func (r *c26Ref) size() uint32 { return uint32(len(r.leaves)) }

// mth is MTH(D[lo:hi]).
func (r *c26Ref) mth(lo, hi uint32) common.Uint256 {
	n := hi - lo
	if n == 0 {
		return sha256.Sum256(nil)
	}
	if n == 1 {
		return r.leaves[lo]
	}
	full := n&(n-1) == 0
	key := uint64(lo)<<32 | uint64(hi)
	if full {
		if h, ok := r.memo[key]; ok {
			return h
		}
	}
	k := c26Split(n)
	h := c26Node(r.mth(lo, lo+k), r.mth(lo+k, hi))
	if full {
		r.memo[key] = h
	}
	return h
}

func (r *c26Ref) root(n uint32) common.Uint256 { return r.mth(0, n) }

// path is PATH(m, D[lo:hi]) with m relative to lo.
func (r *c26Ref) path(m, lo, hi uint32) []common.Uint256 {
	n := hi - lo
	if n <= 1 {
		return nil
	}
	k := c26Split(n)
	if m < k {
		return append(r.path(m, lo, lo+k), r.mth(lo+k, hi))
	}
	return append(r.path(m-k, lo+k, hi), r.mth(lo, lo+k))
}

// cons is SUBPROOF(m, D[lo:hi], b).
func (r *c26Ref) cons(m, lo, hi uint32, b bool) []common.Uint256 {
	n := hi - lo
	if m == n {
		if b {
			return nil
		}
		return []common.Uint256{r.mth(lo, hi)}
	}
	k := c26Split(n)
	if m <= k {
		return append(r.cons(m, lo, lo+k, b), r.mth(lo+k, hi))
	}
	return append(r.cons(m-k, lo+k, hi, false), r.mth(lo, lo+k))
}

// c26RootFromPath recomputes the root a claim (leaf at index m of a tree with
// n leaves, audit path proof) commits to; ok=false when the path has the wrong
// length for that shape.
func c26RootFromPath(leaf common.Uint256, m, n uint32, proof []common.Uint256) (common.Uint256, bool) {
	if m >= n {
		return common.Uint256{}, false
	}
	if n == 1 {
		return leaf, len(proof) == 0
	}
	if len(proof) == 0 {
		return common.Uint256{}, false
	}
	k := c26Split(n)
	last, rest := proof[len(proof)-1], proof[:len(proof)-1]
	if m < k {
		sub, ok := c26RootFromPath(leaf, m, k, rest)
		return c26Node(sub, last), ok
	}
	sub, ok := c26RootFromPath(leaf, m-k, n-k, rest)
	return c26Node(last, sub), ok
}

func c26RefVerifyInclusion(leaf common.Uint256, m, n uint32, proof []common.Uint256, root common.Uint256) bool {
	got, ok := c26RootFromPath(leaf, m, n, proof)
	return ok && got == root
}

// c26ConsRoots recomputes (old root, new root) from SUBPROOF(m, D[n], b).
func c26ConsRoots(m, n uint32, b bool, oldRoot common.Uint256, proof []common.Uint256) (o, nw common.Uint256, ok bool) {
	if m == n {
		if b {
			return oldRoot, oldRoot, len(proof) == 0
		}
		if len(proof) != 1 {
			return o, nw, false
		}
		return proof[0], proof[0], true
	}
	if len(proof) == 0 {
		return o, nw, false
	}
	k := c26Split(n)
	last, rest := proof[len(proof)-1], proof[:len(proof)-1]
	if m <= k {
		o, nw, ok = c26ConsRoots(m, k, b, oldRoot, rest)
		return o, c26Node(nw, last), ok
	}
	o, nw, ok = c26ConsRoots(m-k, n-k, false, oldRoot, rest)
	return c26Node(last, o), c26Node(last, nw), ok
}

// c26RefVerifyConsistency: RFC 6962 2.1.2 for 0 < m <= n.
func c26RefVerifyConsistency(m, n uint32, oldRoot, newRoot common.Uint256, proof []common.Uint256) bool {
	if m == 0 || m > n {
		return false
	}
	o, nw, ok := c26ConsRoots(m, n, true, oldRoot, proof)
	return ok && o == oldRoot && nw == newRoot
}
