package props

import (
	"crypto/sha256"
	"fmt"
	"math/big"
	"strings"

	"github.com/ontio/ontology/account"
	"github.com/ontio/ontology/common"
	"github.com/ontio/ontology/common/config"
	"github.com/ontio/ontology/common/constants"
	"github.com/ontio/ontology/core/types"
	"github.com/ontio/ontology/smartcontract/event"
	nutils "github.com/ontio/ontology/smartcontract/service/native/utils"

	"ontosim/simkit"
	"ontosim/world"
)

// C06: native token operations conserve supply and respect authorisation.
func init() {
	simkit.Register(&simkit.Prop{
		ID:   "C06",
		Desc: "ONT/ONG transfer, approve, transferFrom (V1 and V2): supply conserved, debits authorised, failed calls change nothing",
		Rule: "a run = one solo ledger, 8 parties (bookkeeper, 3 single-key accounts, one 2-of-3 multisig account, the ONT, ONG and governance contract addresses), 4..60 native token calls (transfer with 1..3 entries, approve, transferFrom; V1 and V2 forms; amounts 0 / tiny / exact balance / balance+1 / exact allowance / allowance+1 / fractional / total supply / 2^64) in blocks of 1..6 transactions of one token, each transaction signed by a tape-chosen set of 0..3 parties chosen independently of the from/sender fields, block timestamps advanced by jumps from seconds to decades; sub-configurations from the tape: unbound-ONG schedule off (network id 3, deadline 0) or on (the Polaris schedule, deadline 2020-06-28, so ONT movements accrue and move ONG), gas price 0 or (minority) >0. After every block the whole state store is dumped and every balance/allowance entry of both contracts decoded by the harness and compared with an integer-ledger model that is advanced only by the calls the node reports as successful; non-trivial = at least one successful state-changing call, at least one failed call and at least two blocks; distinct = distinct event-trace hash",
		Real: []string{"core/store/ledgerstore (ExecuteBlock/SubmitBlock, event store, PreExecuteContract)", "smartcontract + NeoVM (Ontology.Native.Invoke)", "smartcontract/service/native/ont, ong, utils (transfer, approve, transferFrom, grantOng, CheckWitness)", "core/states.NativeTokenBalance", "smartcontract/storage CacheDB + overlaydb + goleveldb on SimDisk", "core/types transaction encoding and witness derivation"},
		Stub: []string{"solo block producer (harness builds/signs blocks like consensus/solo)", "no transaction pool / validators: blocks carry whatever the harness signs", "wasm JIT (stub archive)"},
		Assumptions: []string{
			"a debit of X is authorised when X witnessed the transaction, or when it is a transferFrom whose spender witnessed it and the owner's allowance to that spender covers it (a transferFrom witnessed only by the owner itself is also counted as authorised: the statement allows any debit its owner witnessed); an allowance counts as granted only if its owner witnessed the approve (an unwitnessed approve that does not raise the allowance debits nobody and is let pass)",
			"the ONG that an ONT movement may carry along is not modelled in amount (that is C09): in a block of ONT calls the ONG side is only required to be a transfer from the ONT contract address to parties whose ONT balance a successful call touched, with accrued = (allowance after + ONG received) - allowance before >= 0; everything else in the ONG contract must be unchanged",
			"the unbound schedule is switched on by setting the network id to Polaris before the genesis block is executed (the solo network has deadline 0, which makes every accrual 0); all other Polaris height gates only select older code paths",
			"fees (minority of runs) are taken from the reported GasConsumed; that the report is right is C05's business",
			"who may hold tokens is not modelled: conservation sums every balance key of the contract found in the store",
		},
		ExpectedProbes: []string{"ok_transfer", "ok_transferV2", "ok_approve", "ok_approveV2", "ok_transferFrom", "ok_transferFromV2", "ok_transferFrom_by_spender_only", "ok_multi_entry_transfer",
			"fail_unwitnessed", "fail_overdraft", "fail_over-allowance", "fail_over-supply", "fail_malformed", "multisig_witness", "fractional_balance", "unbound_ong_moved", "unbound_allowance_accrued", "unbound_claimed_by_transferFrom", "crossed_unbound_deadline", "fee_charged", "failed_call_in_mixed_block", "contract_address_party", "self_transfer"},
		Run: runC06,
	})
}

type c06Run struct {
	c       *simkit.Ctx
	ch      *world.Chain
	parties []*tokParty // 0..4 can sign, 5..7 cannot
	names   map[common.Address]string
	model   *c06Model
	supply  [2]*big.Int // total supply in V2 units
	sum0    [2]*big.Int
	accrual bool
	feeRun  bool
	nonce   uint32
	ts      uint32
	okCalls int
	failed  int
	blocks  int
}

// c06Stop ends a run after a violation that matches a known finding (the
// model and the node have diverged; nothing after it can be judged).
type c06Stop struct{}

func (r *c06Run) soft(oracle, sig, format string, a ...interface{}) {
	r.c.FailSoft(oracle, sig, format, a...)
	panic(c06Stop{})
}

func (r *c06Run) name(a common.Address) string {
	if n, ok := r.names[a]; ok {
		return n
	}
	return tokShort(a)
}

func runC06(c *simkit.Ctx) {
	c.Bubble(func() {
		t := c.Tape
		tokCheckLayout(c)
		r := &c06Run{c: c, names: map[common.Address]string{}}
		r.accrual = t.Pick(3, 2) == 1
		ch := world.NewSoloChain(c, "n")
		r.ch = ch
		if r.accrual {
			// unbound-ONG schedule of the Polaris test network; must be in place
			// before the genesis block (ONG init) is executed
			config.DefConfig.P2PNode.NetworkId = config.NETWORK_ID_POLARIS_NET
		}
		c.Must(ch.Open(), "open")
		r.feeRun = !r.accrual && t.Prob(1, 4)
		c.Logf("config accrual=%v fees=%v", r.accrual, r.feeRun)

		r.parties = append(r.parties, tokSingle("BK", ch.Book))
		for i := 1; i <= 3; i++ {
			r.parties = append(r.parties, tokSingle(fmt.Sprintf("A%d", i), account.NewAccount("")))
		}
		r.parties = append(r.parties, tokMulti(c, "MS", 2, []*account.Account{account.NewAccount(""), account.NewAccount(""), account.NewAccount("")}))
		r.parties = append(r.parties, tokNoKey("ONTc", nutils.OntContractAddress), tokNoKey("ONGc", nutils.OngContractAddress), tokNoKey("GOV", nutils.GovernanceContractAddress))
		for _, p := range r.parties {
			r.names[p.addr] = p.name
		}
		r.supply[tokONT] = new(big.Int).Mul(big.NewInt(constants.ONT_TOTAL_SUPPLY), tokScale)
		r.supply[tokONG] = new(big.Int).Mul(big.NewInt(constants.ONG_TOTAL_SUPPLY), tokScale)

		_, v0 := tokDumpView(c, ch)
		r.model = newC06Model(v0)
		for tk := 0; tk < 2; tk++ {
			r.sum0[tk] = tokSum(v0.bal[tk])
			if r.sum0[tk].Cmp(r.supply[tk]) != 0 {
				c.Fail("supply-not-conserved", "genesis", "%s: balances after genesis sum to %s, total supply is %s", tokNames[tk], r.sum0[tk], r.supply[tk])
			}
		}
		r.ts = ch.Now
		r.nonce = 1

		nOps := t.Range(4, 4+t.Pick(3, 5, 3)*28)
		if nOps > 60 {
			nOps = 60
		}
		// seeding block: the bookkeeper spreads some ONT (and ONG where it has
		// any) so that the other parties have something to move
		func() {
			defer func() {
				if x := recover(); x != nil {
					if _, ok := x.(c06Stop); !ok {
						panic(x)
					}
					c.Logf("run ends after a known finding")
				}
			}()
			r.seedBlocks()
			done := 0
			for done < nOps {
				k := 1 + t.Pick(4, 4, 3, 2, 1, 1)
				if k > nOps-done {
					k = nOps - done
				}
				tok := t.Pick(1, 1)
				var ops []*c06Op
				for i := 0; i < k; i++ {
					ops = append(ops, r.genOp(tok))
				}
				r.runBlock(ops, r.nextTime())
				done += k
			}
			r.finalCheck()
		}()
		if r.okCalls > 0 && r.failed > 0 && r.blocks >= 2 {
			c.NonTrivial()
		}
	})
}

// nextTime advances the block clock by a tape-chosen jump.
func (r *c06Run) nextTime() uint32 {
	t := r.c.Tape
	var d uint64
	switch t.Pick(6, 3, 3, 3, 2, 1) {
	case 0:
		d = uint64(1 + t.Choose(60))
	case 1:
		d = uint64(3600 * (1 + t.Choose(48)))
	case 2:
		d = uint64(86400 * (1 + t.Choose(200)))
	case 3:
		d = uint64(31536000/2 + t.Choose(31536000))
	case 4:
		d = uint64(31536000 * (2 + t.Choose(20)))
	default:
		d = uint64(^uint32(0)) // as far as the clock goes
	}
	n := uint64(r.ts) + d
	if n > uint64(^uint32(0)) {
		n = uint64(^uint32(0))
	}
	if n <= uint64(r.ts) { // clock exhausted: cannot produce another block
		return 0
	}
	dl := uint64(constants.GENESIS_BLOCK_TIMESTAMP) + uint64(config.GetOntHolderUnboundDeadline())
	if r.accrual && uint64(r.ts) <= dl && n > dl {
		r.c.Probe("crossed_unbound_deadline")
	}
	return uint32(n)
}

func (r *c06Run) seedBlocks() {
	t := r.c.Tape
	bk := r.parties[0]
	var ops []*c06Op
	var sts []tokXfer
	for i := 1; i <= 4; i++ {
		amt := int64(1 + t.Choose(1000))
		if t.Prob(1, 3) {
			amt = int64(1000000 * (1 + t.Choose(100)))
		}
		sts = append(sts, tokXfer{From: bk.addr, To: r.parties[i].addr, Value: big.NewInt(amt)})
	}
	for i := 0; i < len(sts); i += 2 {
		ops = append(ops, &c06Op{tok: tokONT, kind: c06Transfer, states: sts[i : i+2], signers: []*tokParty{bk}, gasL: 20000})
	}
	r.runBlock(ops, r.ts+uint32(1+t.Choose(100)))
	if !r.accrual {
		ops = nil
		for i := 1; i <= 4; i++ {
			amt := new(big.Int).SetUint64(uint64(1 + t.Choose(1000000)))
			if t.Bool() {
				amt.Mul(amt, big.NewInt(1000000000))
			}
			ops = append(ops, &c06Op{tok: tokONG, kind: c06Transfer, states: []tokXfer{{From: bk.addr, To: r.parties[i].addr, Value: amt}}, signers: []*tokParty{bk}, gasL: 20000})
		}
		if t.Bool() {
			ops = append(ops, &c06Op{tok: tokONG, kind: c06Transfer, states: []tokXfer{{From: bk.addr, To: nutils.OntContractAddress, Value: big.NewInt(int64(1 + t.Choose(1000)))}}, signers: []*tokParty{bk}, gasL: 20000})
		}
		r.runBlock(ops, r.ts+uint32(1+t.Choose(100)))
	}
}

// genOp generates one native token call from the tape.
func (r *c06Run) genOp(tok int) *c06Op {
	t := r.c.Tape
	o := &c06Op{tok: tok, gasL: 20000}
	o.kind = t.Pick(5, 3, 4)
	o.v2 = t.Bool()
	pickParty := func() *tokParty {
		if t.Prob(1, 6) {
			r.c.Probe("contract_address_party")
			return r.parties[5+t.Choose(3)]
		}
		return r.parties[t.Choose(5)]
	}
	n := 1
	if o.kind == c06Transfer {
		n = 1 + t.Pick(6, 2, 1)
	}
	var fixedFrom *common.Address
	if o.kind == c06TransferFrom {
		o.sender = pickParty().addr
		// mostly spend an allowance that exists (otherwise nearly every call fails the same way)
		var live [][2]common.Address
		for _, p := range tokSortedPairs(r.model.allow[tok]) {
			if r.model.allow[tok][p].Sign() > 0 {
				live = append(live, p)
			}
		}
		if len(live) > 0 && t.Prob(3, 5) {
			p := live[t.Choose(len(live))]
			o.sender = p[1]
			fixedFrom = &p[0]
		}
	}
	for i := 0; i < n; i++ {
		s := tokXfer{From: pickParty().addr, To: pickParty().addr}
		if fixedFrom != nil {
			s.From = *fixedFrom
			if t.Prob(1, 3) {
				s.To = o.sender
			}
		}
		if o.kind == c06Approve && t.Prob(1, 2) {
			s.To = r.parties[t.Choose(5)].addr // a spender that can actually sign
		}
		if s.From == s.To {
			r.c.Probe("self_transfer")
		}
		s.Value = r.genAmount(o, s)
		o.states = append(o.states, s)
	}
	// signer set, chosen independently of the from/sender fields
	var honest []*tokParty
	addHonest := func(a common.Address) {
		for _, p := range r.parties[:5] {
			if p.addr == a {
				for _, h := range honest {
					if h == p {
						return
					}
				}
				if len(honest) < 3 {
					honest = append(honest, p)
				}
			}
		}
	}
	randomSet := func(max int) []*tokParty {
		k := t.Choose(max + 1)
		perm := t.Perm(5)
		var out []*tokParty
		for i := 0; i < k; i++ {
			out = append(out, r.parties[perm[i]])
		}
		return out
	}
	switch t.Pick(12, 2, 4, 1, 2) {
	case 0: // the parties the call debits / the spender
		if o.kind == c06TransferFrom {
			addHonest(o.sender)
		} else {
			for _, s := range o.states {
				addHonest(s.From)
			}
		}
		o.signers = honest
	case 1: // those plus somebody else
		if o.kind == c06TransferFrom {
			addHonest(o.sender)
		} else {
			for _, s := range o.states {
				addHonest(s.From)
			}
		}
		o.signers = honest
		for _, p := range randomSet(1) {
			dup := false
			for _, h := range o.signers {
				if h == p {
					dup = true
				}
			}
			if !dup && len(o.signers) < 3 {
				o.signers = append(o.signers, p)
			}
		}
	case 2:
		o.signers = randomSet(3)
	case 3:
		o.signers = nil
	case 4: // the "other side" signs: recipient of a transfer, owner (not spender) of a transferFrom
		if o.kind == c06TransferFrom {
			addHonest(o.states[0].From)
		} else {
			addHonest(o.states[0].To)
		}
		o.signers = honest
	}
	for _, s := range o.signers {
		if s.name == "MS" {
			r.c.Probe("multisig_witness")
		}
	}
	if r.feeRun && len(o.signers) > 0 && t.Prob(2, 3) {
		o.gasP = []uint64{1, 500, 2500}[t.Choose(3)]
		o.payer = o.signers[t.Choose(len(o.signers))].addr
	}
	return o
}

// genAmount picks an amount in the unit of the call's method (V1 or V2).
func (r *c06Run) genAmount(o *c06Op, s tokXfer) *big.Int {
	t := r.c.Tape
	unit := func(v2units *big.Int) *big.Int { // floor to the method's unit
		if o.v2 {
			return new(big.Int).Set(v2units)
		}
		return new(big.Int).Div(v2units, tokScale)
	}
	bal := r.model.balance(o.tok, s.From)
	spender := s.To
	if o.kind == c06TransferFrom {
		spender = o.sender
	}
	alw := r.model.allowance(o.tok, s.From, spender)
	one := big.NewInt(1)
	w := []int{2, 4, 4, 3, 4, 3, 3, 4, 2, 0}
	if o.kind == c06TransferFrom {
		w = []int{1, 4, 2, 1, 2, 5, 3, 2, 1, 5}
	}
	switch t.Pick(w...) {
	case 0:
		return new(big.Int)
	case 1:
		return big.NewInt(int64(1 + t.Choose(3)))
	case 2:
		return unit(bal)
	case 3:
		return new(big.Int).Add(unit(bal), one)
	case 4:
		x := new(big.Int).Mul(unit(bal), big.NewInt(int64(1+t.Choose(7))))
		return x.Div(x, big.NewInt(8))
	case 5:
		return unit(alw)
	case 6:
		return new(big.Int).Add(unit(alw), one)
	case 9:
		x := new(big.Int).Mul(unit(alw), big.NewInt(int64(1+t.Choose(7))))
		return x.Div(x, big.NewInt(8))
	case 7: // an amount with a fractional part in the V2 unit; a mid-size one in V1
		x := big.NewInt(int64(t.Choose(50)))
		if o.v2 {
			x.Mul(x, tokScale)
			x.Add(x, big.NewInt(int64(1+t.Choose(999999999))))
		} else {
			x.Mul(x, big.NewInt(1000)).Add(x, big.NewInt(int64(t.Choose(1000))))
		}
		return x
	default:
		sup := unit(r.supply[o.tok])
		switch t.Choose(4) {
		case 0:
			return sup
		case 1:
			return sup.Add(sup, one)
		case 2:
			return new(big.Int).SetUint64(^uint64(0))
		default:
			return new(big.Int).Lsh(one, 64)
		}
	}
}

func (r *c06Run) buildTx(o *c06Op) *types.Transaction {
	var params []interface{}
	switch o.kind {
	case c06Transfer:
		params = []interface{}{o.states}
	case c06Approve:
		params = []interface{}{o.states[0]}
	case c06TransferFrom:
		s := o.states[0]
		params = []interface{}{tokXferFrom{Sender: o.sender, From: s.From, To: s.To, Value: s.Value}}
	}
	m, err := world.NativeTx(tokContract(o.tok), 0, o.method(), params, o.gasP, o.gasL, r.nonce, o.payer)
	r.c.Must(err, "build native call")
	r.nonce++
	return tokSeal(r.c, m, o.signers)
}

func (r *c06Run) describe(o *c06Op) string {
	var sb strings.Builder
	fmt.Fprintf(&sb, "%s.%s", tokNames[o.tok], o.method())
	if o.kind == c06TransferFrom {
		fmt.Fprintf(&sb, " spender=%s", r.name(o.sender))
	}
	for _, s := range o.states {
		fmt.Fprintf(&sb, " %s->%s:%s", r.name(s.From), r.name(s.To), s.Value)
	}
	sb.WriteString(" signed=[")
	for i, s := range o.signers {
		if i > 0 {
			sb.WriteString(",")
		}
		sb.WriteString(s.name)
	}
	sb.WriteString("]")
	if o.gasP > 0 {
		fmt.Fprintf(&sb, " gasprice=%d payer=%s", o.gasP, r.name(o.payer))
	}
	return sb.String()
}

// runBlock commits one block of calls (all of one token) and checks the
// node's storage against the model.
func (r *c06Run) runBlock(ops []*c06Op, ts uint32) {
	c := r.c
	if ts == 0 {
		c.Logf("clock exhausted, %d calls dropped", len(ops))
		return
	}
	if len(ops) == 0 {
		return
	}
	tok := ops[0].tok
	var txs []*types.Transaction
	for _, o := range ops {
		txs = append(txs, r.buildTx(o))
	}
	blk := r.ch.MakeBlock(txs, ts, uint64(r.nonce))
	res, err := r.ch.Commit(blk)
	if err != nil {
		c.Fail("block-refused", "commit", "block %d (ts %d) with %d token calls is refused: %v", blk.Header.Height, ts, len(txs), err)
	}
	r.ts = ts
	r.blocks++
	c.Logf("block %d ts=+%d %s", blk.Header.Height, ts-constants.GENESIS_BLOCK_TIMESTAMP, tokNames[tok])
	if len(res.Notify) != len(txs) {
		c.Fail("notify-missing", "execute-result", "block %d: %d transactions, %d notifies", blk.Header.Height, len(txs), len(res.Notify))
	}
	// ---- advance the model by what the node says succeeded
	okInBlock, failInBlock := 0, 0
	touched := map[common.Address]bool{} // ONT holders touched by successful ONT calls
	involved := map[common.Address]bool{}
	for i, o := range ops {
		n := tokNotify(c, r.ch, txs[i])
		if n.State != res.Notify[i].State || n.GasConsumed != res.Notify[i].GasConsumed {
			c.Fail("notify-differs", "event-store", "tx %d of block %d: stored notify (state %d gas %d) differs from execution result (state %d gas %d)", i, blk.Header.Height, n.State, n.GasConsumed, res.Notify[i].State, res.Notify[i].GasConsumed)
		}
		pred := r.model.predict(o, r.supply[o.tok])
		ok := n.State == event.CONTRACT_STATE_SUCCESS
		outcome := "FAIL"
		if ok {
			outcome = "ok"
		}
		c.Logf("  %s => %s gas=%d", r.describe(o), outcome, n.GasConsumed)
		for _, s := range o.states {
			involved[s.From], involved[s.To] = true, true
		}
		if ok {
			if v := r.model.applySuccess(o, r.name); v != nil {
				r.soft(v.oracle, tokNames[o.tok]+"/"+o.method(), "block %d tx %d: %s", blk.Header.Height, i, v.detail)
			}
			okInBlock++
			changes := false
			for _, s := range o.states {
				if s.Value.Sign() != 0 {
					changes = true
					if o.tok == tokONT {
						touched[s.From], touched[s.To] = true, true
					}
				}
			}
			if changes || o.kind == c06Approve {
				r.okCalls++
				c.Probe("ok_" + o.method())
				if o.kind == c06Transfer && len(o.states) > 1 {
					c.Probe("ok_multi_entry_transfer")
				}
				if o.kind == c06TransferFrom && !o.witnessed(o.states[0].From) {
					c.Probe("ok_transferFrom_by_spender_only")
				}
				if o.kind == c06TransferFrom && o.tok == tokONG && o.states[0].From == nutils.OntContractAddress {
					c.Probe("unbound_claimed_by_transferFrom")
				}
			}
			if pred != "" {
				c.Probe("ok_although_model_expected_" + pred)
				c.Logf("    (the model expected a failure: %s)", pred)
			}
		} else {
			failInBlock++
			r.failed++
			if pred != "" {
				c.Probe("fail_" + pred)
			} else if o.gasP > 0 {
				c.Probe("fail_possibly_for_lack_of_gas")
			} else {
				c.Probe("fail_unexplained")
				c.Logf("    (the model saw no reason for this failure)")
			}
		}
		if n.GasConsumed != 0 {
			fee := new(big.Int).Mul(new(big.Int).SetUint64(n.GasConsumed), tokScale)
			r.model.addBal(tokONG, o.payer, new(big.Int).Neg(fee))
			r.model.addBal(tokONG, nutils.GovernanceContractAddress, fee)
			c.Probe("fee_charged")
		}
	}
	if failInBlock > 0 && okInBlock > 0 {
		c.Probe("failed_call_in_mixed_block")
	}
	sig := tokNames[tok]
	if okInBlock == 0 {
		sig += "/all-calls-failed"
	}
	// ---- the node's storage
	_, v := tokDumpView(c, r.ch)
	r.checkView(v, blk.Header.Height, sig, tok, touched)
	// ---- the node's own query API for the parties of this block
	n := 0
	for _, p := range r.parties {
		if involved[p.addr] && n < 4 {
			r.checkQueries(v, p.addr, tok)
			n++
		}
	}
	for _, o := range ops {
		if o.kind != c06Transfer {
			s := o.states[0]
			sp := s.To
			if o.kind == c06TransferFrom {
				sp = o.sender
			}
			r.checkAllowanceQuery(v, o.tok, s.From, sp)
		}
	}
	c.State("c06", r.digest(v))
}

func (r *c06Run) digest(v *tokView) string {
	h := sha256.New()
	for tk := 0; tk < 2; tk++ {
		for _, a := range tokSortedAddrs(v.bal[tk]) {
			fmt.Fprintf(h, "%d %s %s;", tk, r.name(a), v.bal[tk][a])
		}
		for _, p := range tokSortedPairs(v.allow[tk]) {
			if v.allow[tk][p].Sign() != 0 {
				fmt.Fprintf(h, "%d %s>%s %s;", tk, r.name(p[0]), r.name(p[1]), v.allow[tk][p])
			}
		}
	}
	return fmt.Sprintf("%x", h.Sum(nil)[:8])
}

// checkView compares the decoded storage with the model.
func (r *c06Run) checkView(v *tokView, height uint32, sig string, tok int, touched map[common.Address]bool) {
	c := r.c
	for tk := 0; tk < 2; tk++ {
		for _, a := range tokSortedAddrs(v.bal[tk]) {
			if v.bal[tk][a].Sign() < 0 {
				r.soft("negative-balance", sig, "after block %d: %s balance of %s is %s", height, tokNames[tk], r.name(a), v.bal[tk][a])
			}
			if new(big.Int).Rem(v.bal[tk][a], tokScale).Sign() != 0 {
				c.Probe("fractional_balance")
			}
		}
		for _, p := range tokSortedPairs(v.allow[tk]) {
			if v.allow[tk][p].Sign() < 0 {
				r.soft("negative-allowance", sig, "after block %d: %s allowance %s->%s is %s", height, tokNames[tk], r.name(p[0]), r.name(p[1]), v.allow[tk][p])
			}
		}
		if s := tokSum(v.bal[tk]); s.Cmp(r.sum0[tk]) != 0 {
			r.soft("supply-not-conserved", sig, "after block %d: %s balances sum to %s, at genesis %s (difference %s)", height, tokNames[tk], s, r.sum0[tk], new(big.Int).Sub(s, r.sum0[tk]))
		}
	}
	ontc := nutils.OntContractAddress
	relaxed := tok == tokONT && len(touched) > 0
	for tk := 0; tk < 2; tk++ {
		moved := new(big.Int)
		received := map[common.Address]bool{}
		for _, a := range tokSortedAddrs(v.bal[tk], r.model.bal[tk]) {
			got, want := tokGet(v.bal[tk], a), r.model.balance(tk, a)
			if got.Cmp(want) == 0 {
				continue
			}
			if tk == tokONG && relaxed && a != ontc && touched[a] {
				d := new(big.Int).Sub(got, want)
				a0, a1 := r.model.allowance(tokONG, ontc, a), tokGetPair(v.allow[tokONG], ontc, a)
				if d.Sign() < 0 {
					r.soft("unbound-ong-not-a-credit", sig, "after block %d of ONT calls: ONG balance of %s fell from %s to %s", height, r.name(a), want, got)
				}
				if new(big.Int).Add(a1, d).Cmp(a0) < 0 {
					r.soft("unbound-ong-vanished", sig, "after block %d of ONT calls: %s had an ONG allowance of %s from the ONT contract, now has %s and received %s", height, r.name(a), a0, a1, d)
				}
				moved.Add(moved, d)
				received[a] = true
				c.Probe("unbound_ong_moved")
				r.model.bal[tokONG][a] = new(big.Int).Set(got)
				continue
			}
			if tk == tokONG && relaxed && a == ontc {
				continue // checked below against what the holders received
			}
			r.soft(r.diffOracle(sig, "balance"), sig, "after block %d: %s balance of %s is %s, the model has %s", height, tokNames[tk], r.name(a), got, want)
		}
		if tk == tokONG && relaxed {
			got, want := tokGet(v.bal[tokONG], ontc), new(big.Int).Sub(r.model.balance(tokONG, ontc), moved)
			if got.Cmp(want) != 0 {
				r.soft("unbound-ong-not-from-ont-contract", sig, "after block %d of ONT calls: holders received %s ONG, the ONT contract address went from %s to %s", height, moved, r.model.balance(tokONG, ontc), got)
			}
			r.model.bal[tokONG][ontc] = new(big.Int).Set(got)
		}
		for _, p := range tokSortedPairs(v.allow[tk], r.model.allow[tk]) {
			got, want := tokGetPair(v.allow[tk], p[0], p[1]), r.model.allowance(tk, p[0], p[1])
			if got.Cmp(want) == 0 {
				continue
			}
			if tk == tokONG && relaxed && p[0] == ontc && touched[p[1]] {
				if got.Cmp(want) > 0 {
					c.Probe("unbound_allowance_accrued")
				}
				// for p[1] != ontc the accounting (allowance + received >= old allowance) was checked above when the
				// balance changed; when the balance did not change the allowance alone must not have shrunk
				if p[1] != ontc && !received[p[1]] && got.Cmp(want) < 0 {
					r.soft("unbound-ong-vanished", sig, "after block %d of ONT calls: ONG allowance of %s from the ONT contract fell from %s to %s and nothing was received", height, r.name(p[1]), want, got)
				}
				r.model.allow[tokONG][p] = new(big.Int).Set(got)
				continue
			}
			r.soft(r.diffOracle(sig, "allowance"), sig, "after block %d: %s allowance %s->%s is %s, the model has %s", height, tokNames[tk], r.name(p[0]), r.name(p[1]), got, want)
		}
	}
}

func (r *c06Run) diffOracle(sig, what string) string {
	if strings.HasSuffix(sig, "/all-calls-failed") {
		return "failed-call-changed-" + what
	}
	return what + "-differs-from-model"
}

// checkQueries cross-checks the contract's own balanceOf / balanceOfV2
// against the decoded storage (V1 view = V2 view / 10^9, rounded down).
func (r *c06Run) checkQueries(v *tokView, a common.Address, tok int) {
	c := r.c
	st := tokGet(v.bal[tok], a)
	q2 := tokQuery(c, r.ch, tok, "balanceOfV2", a)
	q1 := tokQuery(c, r.ch, tok, "balanceOf", a)
	if q2.Cmp(st) != 0 {
		r.soft("query-differs-from-storage", tokNames[tok]+"/balanceOfV2", "%s.balanceOfV2(%s) = %s, storage holds %s", tokNames[tok], r.name(a), q2, st)
	}
	if q1.Cmp(new(big.Int).Div(st, tokScale)) != 0 {
		r.soft("v1-v2-views-disagree", tokNames[tok]+"/balanceOf", "%s.balanceOf(%s) = %s, balanceOfV2 = %s", tokNames[tok], r.name(a), q1, q2)
	}
}

func (r *c06Run) checkAllowanceQuery(v *tokView, tok int, o, s common.Address) {
	c := r.c
	st := tokGetPair(v.allow[tok], o, s)
	q2 := tokQuery(c, r.ch, tok, "allowanceV2", o, s)
	q1 := tokQuery(c, r.ch, tok, "allowance", o, s)
	if q2.Cmp(st) != 0 {
		r.soft("query-differs-from-storage", tokNames[tok]+"/allowanceV2", "%s.allowanceV2(%s,%s) = %s, storage holds %s", tokNames[tok], r.name(o), r.name(s), q2, st)
	}
	if q1.Cmp(new(big.Int).Div(st, tokScale)) != 0 {
		r.soft("v1-v2-views-disagree", tokNames[tok]+"/allowance", "%s.allowance(%s,%s) = %s, allowanceV2 = %s", tokNames[tok], r.name(o), r.name(s), q1, q2)
	}
}

// finalCheck queries every party and every stored allowance once more.
func (r *c06Run) finalCheck() {
	_, v := tokDumpView(r.c, r.ch)
	for tk := 0; tk < 2; tk++ {
		for _, p := range r.parties {
			r.checkQueries(v, p.addr, tk)
		}
		for _, p := range tokSortedPairs(v.allow[tk]) {
			r.checkAllowanceQuery(v, tk, p[0], p[1])
		}
	}
}
