package props

// Integer-ledger reference model of the two native tokens for C06. All
// amounts are big integers in V2 units (1 V1 unit = 10^9 V2 units). The model
// is told which calls the node reports as successful and checks, call by
// call, that each debit was authorised and covered; the node's storage must
// then equal the model (c06.go).

import (
	"fmt"
	"math/big"

	"github.com/ontio/ontology/common"
)

const (
	c06Transfer = iota
	c06Approve
	c06TransferFrom
)

type c06Op struct {
	tok     int
	kind    int
	v2      bool
	states  []tokXfer      // transfer: 1..3 entries; approve / transferFrom: exactly 1
	sender  common.Address // transferFrom only
	signers []*tokParty
	payer   common.Address
	gasP    uint64
	gasL    uint64
}

func (o *c06Op) method() string {
	n := [...]string{"transfer", "approve", "transferFrom"}[o.kind]
	if o.v2 {
		n += "V2"
	}
	return n
}

// units converts an amount given in the unit of the op's method to V2 units.
func (o *c06Op) units(v *big.Int) *big.Int {
	if o.v2 {
		return new(big.Int).Set(v)
	}
	return new(big.Int).Mul(v, tokScale)
}

func (o *c06Op) witnessed(a common.Address) bool {
	for _, s := range o.signers {
		if s.addr == a {
			return true
		}
	}
	return false
}

type c06Model struct {
	bal   [2]map[common.Address]*big.Int
	allow [2]map[[2]common.Address]*big.Int
}

func newC06Model(v *tokView) *c06Model {
	m := &c06Model{}
	for t := 0; t < 2; t++ {
		m.bal[t] = map[common.Address]*big.Int{}
		m.allow[t] = map[[2]common.Address]*big.Int{}
		for a, x := range v.bal[t] {
			m.bal[t][a] = new(big.Int).Set(x)
		}
		for p, x := range v.allow[t] {
			m.allow[t][p] = new(big.Int).Set(x)
		}
	}
	return m
}

func (m *c06Model) balance(tok int, a common.Address) *big.Int { return tokGet(m.bal[tok], a) }
func (m *c06Model) allowance(tok int, o, s common.Address) *big.Int {
	return tokGetPair(m.allow[tok], o, s)
}

func (m *c06Model) addBal(tok int, a common.Address, d *big.Int) {
	m.bal[tok][a] = new(big.Int).Add(m.balance(tok, a), d)
}

// c06Verdict is what the model finds wrong with a call the node reported as
// successful ("" = nothing).
type c06Verdict struct {
	oracle string
	detail string
}

// applySuccess applies a call that the node executed successfully. Debits
// must be witnessed by the debited account, or (transferFrom) be made by a
// witnessed spender out of an allowance the owner granted; allowances are
// granted only by a witnessed owner; nothing may be overdrawn.
func (m *c06Model) applySuccess(o *c06Op, name func(common.Address) string) *c06Verdict {
	tok := o.tok
	switch o.kind {
	case c06Transfer:
		for i, s := range o.states {
			v := o.units(s.Value)
			if v.Sign() == 0 {
				continue
			}
			if !o.witnessed(s.From) {
				return &c06Verdict{"unauthorised-debit", fmt.Sprintf("%s.%s succeeded: entry %d debits %s by %s, which did not witness the call", tokNames[tok], o.method(), i, name(s.From), v)}
			}
			if m.balance(tok, s.From).Cmp(v) < 0 {
				return &c06Verdict{"overdraft", fmt.Sprintf("%s.%s succeeded: entry %d debits %s by %s, its balance was %s", tokNames[tok], o.method(), i, name(s.From), v, m.balance(tok, s.From))}
			}
			m.addBal(tok, s.From, new(big.Int).Neg(v))
			m.addBal(tok, s.To, v)
		}
	case c06Approve:
		s := o.states[0]
		v := o.units(s.Value)
		// an allowance is granted only by its owner: a call the owner did not
		// witness must not raise it (lowering it debits nobody and is let pass)
		if cur := m.allowance(tok, s.From, s.To); !o.witnessed(s.From) && v.Cmp(cur) > 0 {
			return &c06Verdict{"unauthorised-approve", fmt.Sprintf("%s.%s succeeded: allowance of %s to %s raised from %s to %s, but %s did not witness the call", tokNames[tok], o.method(), name(s.From), name(s.To), cur, v, name(s.From))}
		}
		m.allow[tok][[2]common.Address{s.From, s.To}] = v
	case c06TransferFrom:
		s := o.states[0]
		v := o.units(s.Value)
		if v.Sign() == 0 {
			return nil
		}
		if !o.witnessed(o.sender) && !o.witnessed(s.From) {
			return &c06Verdict{"unauthorised-debit", fmt.Sprintf("%s.%s succeeded: %s debited by %s, neither it nor the spender %s witnessed the call", tokNames[tok], o.method(), name(s.From), v, name(o.sender))}
		}
		a := m.allowance(tok, s.From, o.sender)
		if a.Cmp(v) < 0 {
			return &c06Verdict{"allowance-overspent", fmt.Sprintf("%s.%s succeeded: spender %s moved %s out of %s, the allowance was %s", tokNames[tok], o.method(), name(o.sender), v, name(s.From), a)}
		}
		if m.balance(tok, s.From).Cmp(v) < 0 {
			return &c06Verdict{"overdraft", fmt.Sprintf("%s.%s succeeded: %s debited by %s, its balance was %s", tokNames[tok], o.method(), name(s.From), v, m.balance(tok, s.From))}
		}
		m.allow[tok][[2]common.Address{s.From, o.sender}] = new(big.Int).Sub(a, v)
		m.addBal(tok, s.From, new(big.Int).Neg(v))
		m.addBal(tok, s.To, v)
	}
	return nil
}

// predict says whether the model expects the call to succeed (used for
// probes and diagnostics only, never as an oracle): "" or the reason for the
// expected failure.
func (m *c06Model) predict(o *c06Op, supply *big.Int) string {
	tok := o.tok
	tmp := map[common.Address]*big.Int{}
	get := func(a common.Address) *big.Int {
		if x, ok := tmp[a]; ok {
			return x
		}
		return m.balance(tok, a)
	}
	max64 := new(big.Int).SetUint64(^uint64(0))
	for _, s := range o.states {
		if !o.v2 && s.Value.Cmp(max64) > 0 {
			return "malformed"
		}
		if o.units(s.Value).Cmp(supply) > 0 {
			if o.kind == c06Transfer && s.Value.Sign() == 0 {
				continue
			}
			return "over-supply"
		}
	}
	switch o.kind {
	case c06Transfer:
		for _, s := range o.states {
			v := o.units(s.Value)
			if v.Sign() == 0 {
				continue
			}
			if !o.witnessed(s.From) {
				return "unwitnessed"
			}
			if get(s.From).Cmp(v) < 0 {
				return "overdraft"
			}
			tmp[s.From] = new(big.Int).Sub(get(s.From), v)
			tmp[s.To] = new(big.Int).Add(get(s.To), v)
		}
	case c06Approve:
		if !o.witnessed(o.states[0].From) {
			return "unwitnessed"
		}
	case c06TransferFrom:
		s := o.states[0]
		v := o.units(s.Value)
		if v.Sign() == 0 {
			return ""
		}
		if !o.witnessed(o.sender) {
			return "unwitnessed"
		}
		if m.allowance(tok, s.From, o.sender).Cmp(v) < 0 {
			return "over-allowance"
		}
		if get(s.From).Cmp(v) < 0 {
			return "overdraft"
		}
	}
	return ""
}
