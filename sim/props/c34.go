package props

import (
	"ontosim/simkit"
	"ontosim/world"
)

var vbftReal = []string{"consensus/vbft Server (all loops, timers, msg/block/peer pools, syncer, state manager) x N", "core/store/ledgerstore per node on its own SimDisk", "p2pserver/message/types codec + payload signature check for every consensus message", "validator/increment", "smartcontract + native contracts (block execution)"}
var vbftStub = []string{"p2p transport: SimNet implementing p2p.P2P (delivery order, loss, duplication, partitions decided by the tape)", "tx-pool actor (offers harness-built transactions, accepts every block)", "goroutine scheduling: every server goroutine parks at simhook gates, the tape releases one at a time", "wall clock: synctest bubble clock", "wasm JIT"}

func init() {
	simkit.Register(&simkit.Prop{
		ID:   "C34",
		Desc: "honest VBFT nodes never seal different blocks at one height",
		Rule: "a run = N real vbft servers (N=4,C=1 mostly; N=7,C=2 sometimes) on real ledgers sealing 2..4 heights; at every quiescent point the tape picks which parked server goroutine runs, which in-flight message is delivered (any one), drop/duplicate, clock advance (timeouts fire early or late), partition cut/heal, crash+restart of an honest node (faulty total <= C); sub-configuration per run: crash-fault-only / byzantine-no-equivocation (forged commit claims, multiple endorsements, withholding) / byzantine-equivocation (two different signed proposals); invariant after every step: all honest nodes agree on the sealed and on the committed block hash of every height. non-trivial = at least 2 heights sealed and at least one fault fired; distinct = distinct event-trace hash",
		Real: vbftReal, Stub: vbftStub,
		Assumptions:    []string{"at most C faulty peers (crashed honest + Byzantine) at any time", "safety only: progress and timeouts are measured and reported, never asserted", "the send loop goroutine is released eagerly (it only moves messages onto the simulated wire)"},
		ExpectedProbes: []string{"sealed_2_heights", "all_reached_target"},
		MaxShrinkRuns:  60,
		Run:            runC34,
	})
}

func runC34(c *simkit.Ctx) {
	c.Bubble(func() {
		t := c.Tape
		n, cf := 4, 1
		switch t.Pick(10, 2, 2, 2) {
		case 1:
			n = 5 // quorum N-(N-1)/3 = 4
		case 2:
			n = 6 // quorum 5
		case 3:
			n, cf = 7, 2
		}
		mode := t.Pick(4, 3, 2, 2)
		sig := []string{"crash-fault-timely", "crash-fault-async", "byzantine-no-equivocation", "byzantine-equivocation"}[mode]
		o := vbftOpts{N: n, C: cf, MaxSteps: 9000, TargetHeight: uint32(2 + t.Choose(3)), Byz: -1}
		// swarm: each fault kind enabled per run with its own rate
		pickRate := func(rates ...int) int { return rates[t.Choose(len(rates))] }
		o.Dup = pickRate(0, 0, 30, 100)
		o.Reorder = pickRate(0, 300, 700)
		if mode != 0 {
			// asynchronous network: losses, partitions, and timeouts that fire while
			// messages are still in flight. Mode 0 ("timely") delivers every message
			// before the clock moves and loses nothing.
			o.Drop = pickRate(0, 0, 20, 80, 200)
			o.Partition = pickRate(0, 0, 2, 8)
			o.TimeSkip = pickRate(0, 0, 5, 30)
		}
		if mode <= 1 {
			o.Restart = pickRate(0, 0, 1, 3)
		} else {
			o.Byz = t.Choose(n)
			o.ByzForgeCommit = pickRate(0, 20, 100)
			o.ByzDoubleEndorse = pickRate(0, 20, 100)
			o.ByzWithhold = pickRate(0, 0, 200)
			o.ByzEquivocate = mode == 3
		}
		c.Logf("config N=%d C=%d mode=%s target=%d drop=%d dup=%d reorder=%d part=%d skip=%d restart=%d byz=%d", n, cf, sig, o.TargetHeight, o.Drop, o.Dup, o.Reorder, o.Partition, o.TimeSkip, o.Restart, o.Byz)
		net := world.NewVbftNet(c, n, cf)
		for _, nd := range net.Nodes {
			c.Must(net.StartNode(nd), "start vbft server")
		}
		var maxH uint32
		o.Inv = func(net *world.VbftNet, step int) {
			for _, h := range vbftHeights(net) {
				if h > maxH {
					maxH = h
				}
			}
			checkAgreement(c, net, maxH, sig)
		}
		o.Stop = func() bool { return len(c.Known) > 0 } // a (known) fork ends the run: nothing after it is meaningful
		st := runVbft(c, net, o)
		c.Logf("end: steps=%d releases=%d delivered=%d dropped=%d timeadv=%d restarts=%d maxHeight=%d heights=%v simtime=%v reached=%v",
			st.Steps, st.Releases, st.Delivered, st.Dropped, st.TimeAdv, st.Restarts, st.MaxHeight, vbftHeights(net), st.SimTime, st.Reached)
		c.State("c34", sig, st.MaxHeight, st.Reached)
		if st.MaxHeight >= 2 {
			c.Probe("sealed_2_heights")
		}
		if st.Reached {
			c.Probe("all_reached_target")
		}
		if st.MaxHeight >= 2 && len(c.Faults) > 0 {
			c.NonTrivial()
		}
	})
}
