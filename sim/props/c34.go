package props

import (
	"ontosim/simkit"
	"ontosim/world"
)

func init() {
	simkit.Register(&simkit.Prop{
		ID:   "C34",
		Desc: "honest VBFT nodes never seal different blocks at one height",
		Rule: "TODO",
		Real: []string{"consensus/vbft Server (all loops, timers, pools, syncer, state manager)", "core/store/ledgerstore per node on SimDisk", "p2pserver/message/types codec for every consensus message"},
		Stub: []string{"p2p transport (SimNet implementing p2p.P2P)", "tx pool actor (offers harness transactions, accepts every block)", "wasm JIT"},
		Run:  runC34,
	})
}

func runC34(c *simkit.Ctx) {
	c.Bubble(func() {
		n, cf := 4, 1
		net := world.NewVbftNet(c, n, cf)
		for _, nd := range net.Nodes {
			c.Must(net.StartNode(nd), "start vbft server")
		}
		var maxH uint32
		st := runVbft(c, net, vbftOpts{N: n, C: cf, MaxSteps: 12000, TargetHeight: 3,
			Inv: func(net *world.VbftNet, step int) {
				hs := vbftHeights(net)
				for _, h := range hs {
					if h > maxH {
						maxH = h
					}
				}
				checkAgreement(c, net, maxH, "crash-fault-only")
			}})
		c.Logf("end: steps=%d releases=%d delivered=%d timeadv=%d maxHeight=%d heights=%v", st.Steps, st.Releases, st.Delivered, st.TimeAdv, st.MaxHeight, vbftHeights(net))
		if st.MaxHeight >= 2 {
			c.NonTrivial()
		}
	})
}
