package props

import (
	"fmt"
	"sort"

	"github.com/ontio/ontology/common"
	"github.com/ontio/ontology/common/config"
	"github.com/ontio/ontology/core/types"
	ontErrors "github.com/ontio/ontology/errors"
	tc "github.com/ontio/ontology/txnpool/common"
	vt "github.com/ontio/ontology/validator/types"

	"ontosim/simkit"
)

// C35: for any history of submissions, replacements, expiries and block
// commits, what the pool and the proposer put into a block has no duplicate
// hash, nothing already on chain, per EVM sender a run of consecutive nonces
// starting at the sender's account nonce on the ledger; and an entry (sender,
// nonce) only ever changes to a transaction with a strictly higher gas price.
//
// World: a real ledger, the real TXPoolServer (its own goroutine, stateless
// and stateful validator worker pools, TxPoolService for submissions and the
// TxPoolActor spawned as a real eventbus actor for the consensus side), a real
// IncrementValidator, and the harness as proposer doing exactly what
// consensus/solo.makeBlock and vbft.makeProposal do.
func init() {
	simkit.Register(&simkit.Prop{
		ID:   "C35",
		Desc: "proposals built from the real tx pool server + IncrementValidator: no duplicates, nothing on chain, consecutive EVM nonces from the account nonce; replacement only by higher gas price",
		Rule: "a run = one solo ledger with 3 ONG-funded Ethereum-key senders and 2 ordinary payers, one real TXPoolServer (pre-execution on or off, MaxTxInBlock default or 2..6 from the tape) and the harness as proposer (GetTxnPool through the consensus TxPoolActor client, filter with IncrementValidator.Verify and a fresh nonce context, valid height from the validator's block range as solo/vbft do); 10..45 generated operations: submit an EIP-155 transaction (nonce = account nonce / next free / below / gap of 1..4 / an occupied slot; for an occupied slot the gas price is lower, equal, at and just above the +1% threshold, +10%, x3), submit an ordinary ONT transfer, resubmit a known transaction (pooled, replaced, committed), propose only, propose and commit (the whole proposal, a prefix, a nonce-consistent subset, optionally plus foreign transactions the pool never saw - including a different transaction for a pooled (sender, nonce)), commit 1..25 empty blocks (verification-height ageing -> expiry and re-verification; the validator window of 20 slides), block-complete events to the pool and to the validator delivered at once, late (proposals in between) or, for the validator, never (it is cleaned as the code prescribes), restart of pool + validator with resubmission of a tape-chosen subset. Oracles after every proposal (see Desc) and after every operation on the pool's content as visible through TxPoolService. non-trivial = at least 2 proposals contained EVM transactions, at least one block with EVM transactions was committed and at least one of: a replacement attempt, an expiry, a gap, a late event; distinct = distinct event-trace hash",
		Real: []string{"txnpool/proc (TXPoolServer, TxPoolService.AppendTransaction, TxPoolActor as eventbus actor, cleanTransactionList, reVerifyStateful, Remain/pre-execution path)", "txnpool/common (TXPool, txSortedMap)", "validator/stateless + validator/stateful worker pools", "validator/increment.IncrementValidator", "consensus/actor.TxPoolActor (request/response client)", "core/store/ledgerstore + EVM execution (nonce accounting) on SimDisk", "core/types EIP-155 transaction wrapping"},
		Stub: []string{"proposer: the harness replays consensus/solo.makeBlock (valid height, GetTxnPool, Verify filter) and commits blocks itself", "block-complete events are told to the pool actor / added to the validator by the harness (no event hub)", "VerifyBlockReq is not driven (each call leaks two never-stopped worker pools)", "wasm JIT (stub archive)"},
		Assumptions: []string{
			"one activity at a time: every submission, proposal and event is followed by quiescence of the server's goroutines, so the only concurrency is inside one activity; the interleaving GetTxPool || AddTxList needs the hook named in the report (gated variant runs when the hook exists)",
			"gas prices of different senders (and of every ordinary transaction) never tie, because GetTxPool breaks ties by Go map order",
			"senders stay funded, so a proposal is always executable",
			"CleanStaledEIPTx only acts above 10000 pooled transactions and RemoveTxsBelowGasPrice only when the global gas price parameter rises: neither is reachable in these runs",
			"'entry changes only to a strictly higher gas price': a transaction entering an occupied (sender, nonce) slot of the pool must beat every previous occupant, and a proposal never carries a cheaper transaction for a slot than one the pool has accepted since the last pool restart",
		},
		ExpectedProbes: []string{"evm_in_proposal", "ord_in_proposal", "replace_refused_low", "replace_refused_equal", "replace_refused_under_threshold", "replace_accepted", "gap_held_back", "below_nonce_refused", "dup_refused", "committed_resubmit_refused",
			"expired_reverified", "late_pool_event", "late_incr_event", "incr_cleaned", "incr_window_slid", "prefix_commit", "subset_commit", "foreign_commit", "foreign_same_slot", "pool_restart", "bycount_truncated", "filter_dropped_wrong_nonce", "filter_dropped_committed", "preexec_remain"},
		Run: runC35,
	})
}

func runC35(c *simkit.Ctx) {
	c.Bubble(func() {
		t := c.Tape
		r := newC35Run(c)
		defer r.stopPool()
		r.setup()

		nOps := t.Range(10, 45)
		for i := 0; i < nOps; i++ {
			switch t.Pick(10, 3, 2, 4, 6, 2, 2, 1) {
			case 0:
				r.opSubmitEVM()
			case 1:
				r.opSubmitOrdinary()
			case 2:
				r.opResubmit()
			case 3:
				if t.Prob(1, 4) {
					r.propose("propose with a submission in flight", r.opSubmitEVMOccupied)
				} else {
					r.propose("propose only", nil)
				}
			case 4:
				r.opProposeAndCommit()
			case 5:
				r.opDeliverEvents(true)
			case 6:
				r.opEmptyBlocks()
			case 7:
				r.opRestartPool()
			}
			r.quiesce()
			r.checkPoolSnapshot()
		}
		// drain: deliver everything, two clean proposals
		r.opDeliverEvents(false)
		r.quiesce()
		r.checkPoolSnapshot()
		r.opProposeAndCommit()
		r.quiesce()
		r.checkPoolSnapshot()
		if r.evmProposals >= 2 && r.evmBlocks >= 1 && r.interesting {
			c.NonTrivial()
		}
	})
}

// ------------------------------------------------------------ proposer

// propose does what solo.makeBlock / vbft.makeProposal do up to the
// transaction list, and checks the list.
func (r *c35Run) propose(why string, during func()) []*c35Tx {
	c := r.c
	height := r.ch.Store.GetCurrentBlockHeight()
	validHeight := height
	start, end := r.incr.BlockRange()
	if height+1 == end {
		validHeight = start
	} else {
		r.incr.Clean()
		if end != 0 || start != 0 {
			c.Probe("incr_cleaned")
		}
	}
	// what the pool had accepted before this selection started
	best := make(map[c35Slot]*c35Tx, len(r.slotBest))
	for k, v := range r.slotBest {
		best[k] = v
	}
	var entries []*tc.VerifiedTx
	if during == nil {
		entries = r.poolClient.GetTxnPool(true, validHeight)
	} else {
		// a submission while GetTxPool sits between its read-locked selection and
		// its write-locked removal of expired entries (possible only with the hook)
		r.gate.arm()
		done := make(chan []*tc.VerifiedTx, 1)
		go func() { done <- r.poolClient.GetTxnPool(true, validHeight) }()
		r.quiesce()
		parked := r.gate.disarm()
		if parked {
			c.Probe("gate_hit")
			c.Fault("gettxpool_parked_unlocked")
			r.raced = true
			c.Logf("GetTxPool parked between its two critical sections")
			during()
			close(r.gate.release)
		}
		entries = <-done
		if !parked {
			during()
		}
	}
	r.quiesce() // re-verification of expired entries runs behind the reply
	var raw []*types.Transaction
	for _, e := range entries {
		raw = append(raw, e.Tx)
	}
	nonceCtx := make(map[common.Address]uint64)
	var out []*types.Transaction
	dropped := 0
	for _, e := range entries {
		if err := r.incr.Verify(e.Tx, validHeight, nonceCtx); err == nil {
			out = append(out, e.Tx)
		} else {
			dropped++
			if ok, _ := r.ch.Store.IsContainTransaction(e.Tx.Hash()); ok {
				c.Probe("filter_dropped_committed")
			} else if e.Tx.IsEipTx() {
				c.Probe("filter_dropped_wrong_nonce")
			}
		}
	}
	if c35HasGap(raw) {
		c.Probe("pool_output_gap_inside_run")
	}
	if max := int(config.DefConfig.Consensus.MaxTxInBlock); len(entries) == max {
		c.Probe("bycount_truncated")
	}
	list := make([]*c35Tx, 0, len(out))
	for _, tx := range out {
		k := r.all[tx.Hash()]
		if k == nil {
			c.Harness("the pool returned a transaction the harness never built: %x", tx.Hash())
		}
		list = append(list, k)
	}
	c.Logf("PROPOSE (%s) height=%d validHeight=%d incr=[%d,%d) pool gave %d, filter kept %d: %s", why, height, validHeight, start, end, len(entries), len(out), c35Names(list))
	r.checkProposal(list, height, best)
	return list
}

func c35HasGap(txs []*types.Transaction) bool {
	last := map[common.Address]uint32{}
	for _, tx := range txs {
		if !tx.IsEipTx() {
			continue
		}
		if p, ok := last[tx.Payer]; ok && tx.Nonce != p+1 {
			return true
		}
		last[tx.Payer] = tx.Nonce
	}
	return false
}

func c35Names(l []*c35Tx) string {
	s := ""
	for i, k := range l {
		if i > 0 {
			s += " "
		}
		s += k.name
	}
	if s == "" {
		return "-"
	}
	return s
}

func (r *c35Run) checkProposal(list []*c35Tx, height uint32, slotBest map[c35Slot]*c35Tx) {
	c := r.c
	sig := r.sig()
	seen := map[common.Uint256]bool{}
	next := map[int]uint64{}
	hasEVM, hasOrd := false, false
	for i, k := range list {
		if seen[k.hash] {
			c.Fail("duplicate-in-proposal", sig, "proposal at height %d carries %s twice", height, k.name)
		}
		seen[k.hash] = true
		if ok, err := r.ch.Store.IsContainTransaction(k.hash); err != nil || ok {
			c.Fail("on-chain-transaction-proposed", sig, "proposal at height %d carries %s (position %d), which block %d already contains (err %v)", height, k.name, i, r.committed[k.hash], err)
		}
		if k.sender < 0 {
			hasOrd = true
			continue
		}
		hasEVM = true
		s := r.senders[k.sender]
		want, ok := next[k.sender]
		if !ok {
			want = r.accountNonce(s)
			if k.nonce != want {
				c.Fail("nonce-run-does-not-start-at-account-nonce", sig, "proposal at height %d: first transaction of %s is %s (nonce %d), its account nonce on the ledger is %d", height, s.name, k.name, k.nonce, want)
			}
		} else if k.nonce != want {
			c.Fail("nonces-not-consecutive", sig, "proposal at height %d: %s follows nonce %d of %s (nonce %d expected)", height, k.name, want-1, s.name, want)
		}
		next[k.sender] = k.nonce + 1
	}
	// the replacement rule is judged last (FailSoft: its interleaved class may be
	// a recorded finding, the checks above must have had their say first)
	for _, k := range list {
		if k.sender < 0 {
			continue
		}
		s := r.senders[k.sender]
		key := c35Slot{k.sender, k.nonce}
		if best := slotBest[key]; best != nil && k.price < best.price {
			c.FailSoft("replacement-by-lower-price", sig+"/proposal-carries-cheaper", "proposal at height %d carries %s (price %d) for slot %s/%d although the pool accepted %s (price %d) for it", height, k.name, k.price, s.name, k.nonce, best.name, best.price)
		}
		if prev := r.slotProposed[key]; prev != nil && prev.hash != k.hash && k.price <= prev.price {
			c.FailSoft("replacement-by-lower-price", sig+"/proposed-entry-changed", "slot %s/%d: proposal at height %d carries %s (price %d), an earlier proposal carried %s (price %d)", s.name, k.nonce, height, k.name, k.price, prev.name, prev.price)
		}
		r.slotProposed[key] = k
	}
	if hasEVM {
		c.Probe("evm_in_proposal")
		r.evmProposals++
	}
	if hasOrd {
		c.Probe("ord_in_proposal")
	}
	c.State("prop", len(list), hasEVM, hasOrd, len(r.latePool) > 0, len(r.lateIncr) > 0)
}

func (r *c35Run) sig() string {
	s := "sequential"
	if r.raced {
		s = "gettxpool-addtxlist-interleaved"
	}
	if len(r.latePool) > 0 {
		s += "+late-pool-event"
	}
	if len(r.lateIncr) > 0 || r.incrSkipped {
		s += "+late-validator-event"
	}
	return s
}

// ------------------------------------------------------------ pool content

// checkPoolSnapshot reads the pool through TxPoolService and applies the
// replacement rule to every (sender, nonce) slot.
func (r *c35Run) checkPoolSnapshot() {
	c := r.c
	cur := map[c35Slot][]*c35Tx{}
	hashes := r.svc.GetTxList()
	sort.Slice(hashes, func(i, j int) bool { return string(hashes[i][:]) < string(hashes[j][:]) })
	n := 0
	for _, h := range hashes {
		tx := r.svc.GetTransaction(h) // nil while only pending
		if tx == nil {
			continue
		}
		n++
		k := r.all[h]
		if k == nil {
			c.Harness("the pool holds a transaction the harness never built: %x", h)
		}
		if k.sender >= 0 {
			key := c35Slot{k.sender, k.nonce}
			cur[key] = append(cur[key], k)
		}
		if st := r.svc.GetTransactionStatus(h); st != nil {
			for _, a := range st.Attrs {
				if a.Type == vt.Stateful {
					if old, ok := r.verified[h]; ok && a.Height > old {
						c.Probe("expired_reverified")
						r.interesting = true
					}
					r.verified[h] = a.Height
				}
			}
		}
	}
	for key, now := range cur {
		before := r.slotPool[key]
		for _, y := range now {
			isNew := true
			for _, x := range before {
				if x.hash == y.hash {
					isNew = false
				}
			}
			if !isNew {
				continue
			}
			for _, x := range before {
				if y.price <= x.price {
					c.FailSoft("replacement-by-lower-price", r.sig()+"/pool-entry-changed", "slot %s/%d: %s (price %d) entered the pool although %s (price %d) held the slot", r.senders[key.sender].name, key.nonce, y.name, y.price, x.name, x.price)
				}
			}
		}
	}
	r.slotPool = cur
	r.poolSize = n
}

// ------------------------------------------------------------ operations

func (r *c35Run) submit(k *c35Tx, how string) ontErrors.ErrCode {
	res := r.svc.AppendTransaction(tc.HttpSender, k.tx)
	r.quiesce()
	c := r.c
	c.Logf("SUBMIT %s (%s) -> %s", k.name, how, c35Err(res))
	if res.Err == ontErrors.ErrNoError && k.sender >= 0 {
		key := c35Slot{k.sender, k.nonce}
		if best := r.slotBest[key]; best == nil || k.price > best.price {
			r.slotBest[key] = k
		}
	}
	return res.Err
}

func c35Err(res *tc.TxResult) string {
	if res.Err == ontErrors.ErrNoError {
		return "ok"
	}
	d := res.Desc
	if len(d) > 70 {
		d = d[:70]
	}
	return fmt.Sprintf("refused(%d: %s)", res.Err, d)
}

// opSubmitEVMOccupied prefers an occupied slot (replacement attempt).
func (r *c35Run) opSubmitEVMOccupied() { r.submitEVM(true) }

func (r *c35Run) opSubmitEVM() { r.submitEVM(false) }

func (r *c35Run) submitEVM(preferOccupied bool) {
	c, t := r.c, r.t
	si := t.Choose(len(r.senders))
	s := r.senders[si]
	an := r.accountNonce(s)
	// occupied slots and the next free nonce as the harness models them
	occupied := r.occupied(si)
	free := an
	for occupied[free] != nil {
		free++
	}
	var nonce uint64
	kind := t.Pick(5, 3, 1, 3, 4)
	if preferOccupied && len(occupied) > 0 {
		kind = 4
	}
	switch kind {
	case 0:
		nonce = free
	case 1:
		nonce = an
	case 2:
		if an == 0 {
			nonce = free
		} else {
			nonce = an - 1 - uint64(t.Choose(int(an)))
		}
	case 3:
		nonce = free + 1 + uint64(t.Choose(4))
		r.interesting = true
	case 4:
		var slots []uint64
		for n := range occupied {
			slots = append(slots, n)
		}
		if len(slots) == 0 {
			nonce = free
		} else {
			sort.Slice(slots, func(i, j int) bool { return slots[i] < slots[j] })
			nonce = slots[t.Choose(len(slots))]
		}
	}
	old := occupied[nonce]
	var price uint64
	rel := ""
	if old == nil {
		price = s.basePrice + uint64(t.Choose(400))
	} else {
		r.interesting = true
		thr := old.price * 101 / 100
		switch t.Choose(7) {
		case 0:
			price, rel = old.price, "equal"
		case 1:
			price, rel = old.price-1-uint64(t.Choose(50)), "lower"
		case 2:
			price, rel = thr, "at-threshold"
		case 3:
			price, rel = thr+1, "threshold+1"
		case 4:
			price, rel = old.price+1, "+1"
		case 5:
			price, rel = old.price*11/10, "+10%"
		case 6:
			price, rel = old.price*3, "x3"
		}
	}
	price = r.freePrice(price, si)
	k := r.newEVM(si, nonce, price)
	how := fmt.Sprintf("account nonce %d, next free %d", an, free)
	if old != nil {
		how += fmt.Sprintf(", slot holds %s price %d: %s", old.name, old.price, rel)
	}
	code := r.submit(k, how)
	switch {
	case nonce < an:
		if code == ontErrors.ErrNoError {
			// not demanded by the statement as such; the proposal oracle judges
			c.Logf("  note: nonce below the account nonce was accepted")
		} else {
			c.Probe("below_nonce_refused")
		}
	case old != nil && code == ontErrors.ErrNoError:
		c.Probe("replace_accepted")
	case old != nil && price < old.price:
		c.Probe("replace_refused_low")
	case old != nil && price == old.price:
		c.Probe("replace_refused_equal")
	case old != nil:
		c.Probe("replace_refused_under_threshold")
	case nonce > free && code == ontErrors.ErrNoError:
		c.Probe("gap_held_back")
	}
}

// occupied is the harness's view of a sender's pooled slots (from the last
// snapshot): nonce -> dearest transaction seen in the slot.
func (r *c35Run) occupied(si int) map[uint64]*c35Tx {
	out := map[uint64]*c35Tx{}
	for key, l := range r.slotPool {
		if key.sender != si {
			continue
		}
		for _, k := range l {
			if out[key.nonce] == nil || k.price > out[key.nonce].price {
				out[key.nonce] = k
			}
		}
	}
	return out
}

func (r *c35Run) opSubmitOrdinary() {
	k := r.newOrdinary(r.freePrice(uint64(1+r.t.Choose(3000)), -1))
	r.submit(k, "ordinary")
}

func (r *c35Run) opResubmit() {
	c, t := r.c, r.t
	if len(r.order) == 0 {
		return
	}
	k := r.order[t.Choose(len(r.order))]
	_, onChain := r.committed[k.hash]
	code := r.submit(k, fmt.Sprintf("again; on chain=%v", onChain))
	if code != ontErrors.ErrNoError {
		if onChain {
			c.Probe("committed_resubmit_refused")
		} else {
			c.Probe("dup_refused")
		}
	}
}

// opProposeAndCommit proposes, then commits a block made of the proposal (or
// part of it, or with foreign transactions), then sends the events.
func (r *c35Run) opProposeAndCommit() {
	c, t := r.c, r.t
	list := r.propose("for a block", nil)
	var chosen []*c35Tx
	mode := t.Pick(5, 3, 3)
	switch {
	case mode == 1 && len(list) > 1:
		chosen = list[:t.Choose(len(list))]
		c.Probe("prefix_commit")
	case mode == 2 && len(list) > 1:
		// a subset that keeps every sender's nonce run a prefix of what was proposed
		cut := map[int]bool{}
		for _, k := range list {
			if k.sender >= 0 && cut[k.sender] {
				continue
			}
			if t.Prob(1, 3) {
				if k.sender >= 0 {
					cut[k.sender] = true
				}
				continue
			}
			chosen = append(chosen, k)
		}
		c.Probe("subset_commit")
	default:
		chosen = list
	}
	if t.Prob(1, 5) {
		chosen = r.addForeign(chosen)
	}
	r.commit(chosen, "block")
}

// addForeign appends transactions this pool never saw (another node's
// proposal): ordinary ones and EVM ones with the right next nonce.
func (r *c35Run) addForeign(chosen []*c35Tx) []*c35Tx {
	c, t := r.c, r.t
	next := map[int]uint64{}
	for _, k := range chosen {
		if k.sender >= 0 {
			next[k.sender] = k.nonce + 1
		}
	}
	n := 1 + t.Choose(2)
	for i := 0; i < n; i++ {
		if t.Prob(1, 3) {
			k := r.newOrdinary(r.freePrice(uint64(1+t.Choose(3000)), -1))
			k.name += "(foreign)"
			chosen = append(chosen, k)
			continue
		}
		si := t.Choose(len(r.senders))
		nn, ok := next[si]
		if !ok {
			nn = r.accountNonce(r.senders[si])
		}
		k := r.newEVM(si, nn, r.freePrice(r.senders[si].basePrice+uint64(t.Choose(400)), si))
		k.name += "(foreign)"
		if r.occupied(si)[nn] != nil {
			c.Probe("foreign_same_slot")
		}
		next[si] = nn + 1
		chosen = append(chosen, k)
	}
	c.Probe("foreign_commit")
	return chosen
}

func (r *c35Run) commit(chosen []*c35Tx, what string) {
	c, t := r.c, r.t
	var txs []*types.Transaction
	evm := false
	for _, k := range chosen {
		txs = append(txs, k.tx)
		if k.sender >= 0 {
			evm = true
		}
	}
	r.ts += uint32(1 + t.Choose(20))
	blk := r.ch.MakeBlock(txs, r.ts, uint64(r.ts)<<8)
	if _, err := r.ch.Commit(blk); err != nil {
		c.Harness("%s of height %d with %s is not executable: %v", what, blk.Header.Height, c35Names(chosen), err)
	}
	for _, k := range chosen {
		r.committed[k.hash] = blk.Header.Height
	}
	if evm {
		r.evmBlocks++
	}
	c.Logf("COMMIT %s %d: %s", what, blk.Header.Height, c35Names(chosen))
	// block-complete event: to the validator (solo: through the actor mailbox;
	// vbft: directly when sealing) and to the pool actor
	r.latePool = append(r.latePool, blk)
	r.lateIncr = append(r.lateIncr, blk)
	switch t.Pick(8, 2, 1, 1) {
	case 0: // both at once
		r.deliverIncr()
		r.deliverPool()
	case 1: // the pool hears late
		r.deliverIncr()
		c.Probe("late_pool_event")
		r.interesting = true
	case 2: // the validator hears late
		r.deliverPool()
		c.Probe("late_incr_event")
		r.interesting = true
	case 3:
		c.Probe("late_pool_event")
		c.Probe("late_incr_event")
		r.interesting = true
	}
	r.quiesce()
}

func (r *c35Run) deliverIncr() {
	for _, b := range r.lateIncr {
		s0, e0 := r.incr.BlockRange()
		r.incr.AddBlock(b)
		s1, e1 := r.incr.BlockRange()
		if e1 == e0 && s1 == s0 {
			r.incrSkipped = true // discontinuous: the validator ignored it and will be cleaned by the next proposal
		} else {
			r.incrSkipped = false
		}
		if s1 > s0 && s0 != 0 {
			r.c.Probe("incr_window_slid")
		}
	}
	r.lateIncr = nil
}

func (r *c35Run) deliverPool() {
	for _, b := range r.latePool {
		r.tellBlockComplete(b)
		if !r.disablePreExec && len(b.Transactions) > 0 {
			r.c.Probe("preexec_remain")
		}
	}
	r.latePool = nil
	r.quiesce()
}

func (r *c35Run) opDeliverEvents(maybe bool) {
	t := r.t
	if len(r.lateIncr) > 0 && (!maybe || t.Prob(2, 3)) {
		r.c.Logf("EVENT block-complete reaches the validator (%d blocks)", len(r.lateIncr))
		r.deliverIncr()
	}
	if len(r.latePool) > 0 && (!maybe || t.Prob(2, 3)) {
		r.c.Logf("EVENT block-complete reaches the pool (%d blocks)", len(r.latePool))
		r.deliverPool()
	}
}

func (r *c35Run) opEmptyBlocks() {
	t := r.t
	n := 1 + t.Choose(5)
	if t.Prob(1, 4) {
		n = 15 + t.Choose(11)
	}
	for i := 0; i < n; i++ {
		r.ts += uint32(1 + t.Choose(20))
		blk := r.ch.MakeBlock(nil, r.ts, uint64(r.ts)<<8)
		if _, err := r.ch.Commit(blk); err != nil {
			r.c.Harness("empty block refused: %v", err)
		}
		r.latePool = append(r.latePool, blk)
		r.lateIncr = append(r.lateIncr, blk)
	}
	r.c.Logf("COMMIT %d empty blocks, height now %d", n, r.ch.Height())
	if t.Prob(4, 5) {
		r.deliverIncr()
	}
	if t.Prob(4, 5) {
		r.deliverPool()
	}
	r.interesting = true
}

func (r *c35Run) opRestartPool() {
	c, t := r.c, r.t
	r.opDeliverEvents(false)
	r.stopPool()
	r.startPool()
	r.slotPool = map[c35Slot][]*c35Tx{}
	r.slotBest = map[c35Slot]*c35Tx{}
	r.slotProposed = map[c35Slot]*c35Tx{}
	c.Probe("pool_restart")
	c.Fault("pool_restart")
	c.Logf("RESTART pool and validator")
	// resubmission of some of what the harness knows, in creation order
	for _, k := range r.order {
		if t.Prob(1, 2) {
			code := r.submit(k, "after restart")
			if _, on := r.committed[k.hash]; on && code != ontErrors.ErrNoError {
				c.Probe("committed_resubmit_refused")
			}
		}
	}
}
