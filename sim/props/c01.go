package props

import (
	"os"
	"strings"

	"github.com/ontio/ontology/account"
	"github.com/ontio/ontology/common"
	"github.com/ontio/ontology/core/types"

	"ontosim/simkit"
	"ontosim/world"
)

// C01: the ledger recovers, after the process dies anywhere inside a block
// commit (or inside recovery itself), to a state identical to an uncrashed
// twin at the old or the new height, and then accepts the following blocks
// exactly like the twin.
func init() {
	simkit.Register(&simkit.Prop{
		ID:          "C01",
		Desc:        "crash anywhere in block commit / recovery; reopened ledger equals uncrashed twin",
		Rule:        "a run = chain of 3..40 solo blocks with 0..6 ONT/ONG transfers each, committed on an uncrashed twin and on a victim whose simulated disk fail-stops at a tape-chosen mutating call (optionally torn) inside commit or inside recovery, plus clean restarts; non-trivial = at least one crash landed inside a commit or recovery AND at least one block was applied after the reopen; distinct = distinct event-trace hash",
		Real:        []string{"core/store/ledgerstore (ledger, block/state/event/cross-chain stores, recoverStore)", "core/store/leveldbstore + goleveldb on SimDisk", "merkle (compact tree + file hash store on tmpfs)", "smartcontract + NeoVM + native ONT/ONG", "core/genesis", "core/types", "core/signature"},
		Stub:        []string{"solo block producer (harness builds/signs blocks like consensus/solo)", "disk: in-memory goleveldb storage with fail-stop/torn-write injection", "wasm JIT (stub archive)"},
		Assumptions: []string{"process-death model: completed writes survive, the write in flight may be torn, unsynced data is not lost", "the merkle hash file is a real tmpfs file; a crash before/inside its append is emulated by truncating the tail written for the block in flight"},
		Run:         runC01,
	})
}

type c01Acct struct {
	acc  *account.Account
	addr common.Address
}

func runC01(c *simkit.Ctx) {
	c.Bubble(func() {
		t := c.Tape
		twin := world.NewSoloChain(c, "twin")
		victim := twin.Twin("victim")
		c.Must(twin.Open(), "open twin")
		c.Must(victim.Open(), "open victim")
		world.Quiesce()

		// accounts: bookkeeper holds all ONT at genesis
		accts := []c01Acct{{twin.Book, twin.Book.Address}}
		for i := 0; i < 3; i++ {
			a := account.NewAccount("")
			accts = append(accts, c01Acct{a, a.Address})
		}
		nBlocks := t.Range(3, 3+t.Pick(6, 10, 4)*6)
		if nBlocks > 40 {
			nBlocks = 40
		}
		crashesLeft := 3
		snaps := map[uint32]*world.Snapshot{}
		s0, err := twin.Snap(true)
		c.Must(err, "twin snapshot")
		snaps[0] = s0
		var blocks []*types.Block // blocks[i] has height i+1
		nonce := uint32(1)
		ts := twin.Now
		crashedInside, appliedAfter := false, false
		ontBal := map[common.Address]uint64{twin.Book.Address: 1000000000} // harness view of ONT balances (gas price 0 transfers only)

		compare := func(where string, sig string) {
			vs, err := victim.Snap(true)
			if err != nil {
				c.Fail("snapshot-fails", sig, "%s: victim snapshot: %v", where, err)
			}
			ref := snaps[vs.Height]
			if ref == nil {
				c.Fail("height-unknown", sig, "%s: victim at height %d which the twin never had", where, vs.Height)
			}
			if vs.Hash != ref.Hash {
				c.Fail("block-hash-differs", sig, "%s: height %d hash %x != twin %x", where, vs.Height, vs.Hash, ref.Hash)
			}
			for h := range ref.StateRoots {
				if vs.StateRoots[h] != ref.StateRoots[h] {
					c.Fail("state-root-differs", sig, "%s: at victim height %d, state merkle root of height %d is %x, twin has %x", where, vs.Height, h, vs.StateRoots[h], ref.StateRoots[h])
				}
			}
			for _, name := range world.Stores {
				if vs.Digest[name] != ref.Digest[name] {
					d := simkit.DiffKV(vs.KV[name], ref.KV[name], 4)
					c.Fail("store-content-differs", sig+"/"+name, "%s: store %q at height %d differs from twin (victim=left): %v", where, name, vs.Height, d)
				}
			}
			c.State("h", vs.Height, vs.Digest["states"])
		}

		for len(blocks) < nBlocks {
			// --- produce the next block on the twin
			ntx := t.Pick(3, 4, 3, 2, 1, 1, 1)
			var txs []*types.Transaction
			for k := 0; k < ntx; k++ {
				from := accts[t.Choose(len(accts))]
				to := accts[t.Choose(len(accts))]
				asset := "ont"
				if t.Prob(1, 4) {
					asset = "ong"
				}
				amt := uint64(t.Pick(1, 4, 4, 1, 2)) // 0, small, medium, huge, the sender's whole balance
				switch amt {
				case 1:
					amt = uint64(1 + t.Choose(50))
				case 2:
					amt = uint64(1000 + t.Choose(100000))
				case 3:
					amt = 2000000000
				case 4:
					// emptying an account deletes its balance key: a deletion in the block's write set
					amt = ontBal[from.addr]
					asset = "ont"
					if amt > 0 {
						c.Probe("account_emptied")
					}
				}
				gasPrice := uint64(0)
				if t.Prob(1, 6) {
					gasPrice = 500
				}
				if asset == "ont" && gasPrice == 0 && amt > 0 && ontBal[from.addr] >= amt {
					ontBal[from.addr] -= amt
					ontBal[to.addr] += amt
				}
				m, err := world.TransferTx(asset, from.addr, to.addr, amt, gasPrice, 20000, nonce, from.addr)
				c.Must(err, "build transfer")
				nonce++
				c.Must(world.Sign(m, from.acc), "sign")
				tx, err := world.Seal(m)
				c.Must(err, "seal")
				txs = append(txs, tx)
			}
			ts += uint32(1 + t.Choose(40))
			blk := twin.MakeBlock(txs, ts, uint64(nonce)<<8)
			if _, err := twin.Commit(blk); err != nil {
				c.Harness("twin refuses its own block %d: %v", blk.Header.Height, err)
			}
			blocks = append(blocks, blk)
			sn, err := twin.Snap(true)
			c.Must(err, "twin snapshot")
			snaps[blk.Header.Height] = sn
			world.Quiesce()
			c.Logf("block %d txs=%d ts=%d", blk.Header.Height, len(txs), ts)

			// --- apply to the victim, possibly dying on the way
			crash := crashesLeft > 0 && t.Prob(1, 4)
			pre := victim.Height()
			preLen := victim.MerkleFileLen()
			if crash {
				crashesLeft--
				k := 1 + t.Choose(8)
				torn := t.Choose(3) * 100 // 0, 100/256, 200/256 of the crashing write kept
				world.Quiesce()
				victim.Disk.ArmCrash(k, torn)
				c.Logf("arm crash: %d-th disk call of commit of block %d, torn=%d/256", k, blk.Header.Height, torn)
			}
			_, cerr := victim.Commit(blk)
			if !victim.Disk.Crashed() {
				victim.Disk.Disarm()
				if cerr != nil {
					c.Fail("block-rejected", "no-crash", "victim rejects block %d that the twin accepted: %v", blk.Header.Height, cerr)
				}
				if crash {
					c.Logf("armed crash did not fire (commit used fewer disk calls)")
				}
			} else {
				info := victim.Disk.CrashInfo
				c.Fault("crash_in_commit")
				c.Logf("CRASH in commit of block %d at %s (commit err: %v)", blk.Header.Height, info, cerr)
				crashedInside = true
				sig := "crash-in-commit"
				victim.Close()
				world.Quiesce()
				victim.Disk.Restart()
				// second crash inside recovery?
				recCrash := crashesLeft > 0 && t.Prob(1, 4)
				for attempt := 0; ; attempt++ {
					// a crash on the block store's own batch write means the block did
					// not commit: the process may equally have died before or inside the
					// eager hash-file append, so cut the appended tail at a chosen point
					if attempt == 0 && strings.Contains(info, " block/write/") && t.Prob(1, 2) {
						cur := victim.MerkleFileLen()
						if cur > preLen {
							cut := preLen + int64(t.Choose(int(cur-preLen)))
							c.Must(os.Truncate(victim.MerklePath(), cut), "truncate hash file")
							c.Fault("torn_hashfile_append")
							c.Logf("hash file cut back from %d to %d (pre-block length %d)", cur, cut, preLen)
						}
					}
					var oerr error
					if recCrash && attempt == 0 {
						crashesLeft--
						k := 1 + t.Choose(4)
						oerr = victim.OpenSplit(func() { victim.Disk.ArmCrash(k, t.Choose(3)*100) })
						if victim.Disk.Crashed() {
							c.Fault("crash_in_recovery")
							c.Logf("CRASH in recovery at %s (open err: %v)", victim.Disk.CrashInfo, oerr)
							sig = "crash-in-commit+crash-in-recovery"
							victim.Close()
							world.Quiesce()
							victim.Disk.Restart()
							continue
						}
						victim.Disk.Disarm()
					} else {
						oerr = victim.Open()
					}
					if oerr != nil {
						c.Fail("reopen-fails", sig, "reopen after crash (%s) fails: %v", info, oerr)
					}
					break
				}
				world.Quiesce()
				h := victim.Height()
				c.Logf("reopened at height %d (before crash %d)", h, pre)
				if h != pre && h != pre+1 {
					c.Fail("height-not-old-or-new", sig, "after crash in commit of %d the ledger reopens at %d", pre+1, h)
				}
				if h == pre+1 {
					c.Probe("recovered_to_new_height")
				} else {
					c.Probe("recovered_to_old_height")
				}
				compare("after crash recovery", sig)
				// the lost block is submitted again
				if h == pre {
					if _, err := victim.Commit(blk); err != nil {
						c.Fail("block-rejected", sig, "after recovery to height %d the victim rejects block %d: %v", h, blk.Header.Height, err)
					}
					appliedAfter = true
					compare("after re-applying the lost block", sig)
				}
				world.Quiesce()
				continue
			}
			if crashedInside {
				appliedAfter = true
			}
			// --- occasional clean restart (must change nothing)
			if t.Prob(1, 8) {
				c.Fault("clean_restart")
				victim.Close()
				world.Quiesce()
				victim.Disk.Restart()
				if err := victim.Open(); err != nil {
					c.Fail("reopen-fails", "clean-restart", "clean reopen at height %d fails: %v", pre+1, err)
				}
				world.Quiesce()
				compare("after clean restart", "clean-restart")
			} else if t.Prob(1, 3) || crashedInside {
				sig := "no-crash"
				if crashedInside {
					sig = "after-recovery"
				}
				compare("after block", sig)
			}
		}
		// final: equal to twin, clean restart changes nothing
		sig := "no-crash"
		if crashedInside {
			sig = "after-recovery"
		}
		compare("end of chain", sig)
		victim.Close()
		world.Quiesce()
		victim.Disk.Restart()
		if err := victim.Open(); err != nil {
			c.Fail("reopen-fails", sig+"/final", "final clean reopen fails: %v", err)
		}
		compare("after final clean restart", sig)
		if crashedInside && appliedAfter {
			c.NonTrivial()
		}
	})
}
