package props

// W-cluster: a consensus member A that receives client transactions as BYTES,
// decodes and validates them (core/validation fills the signer set), builds and
// executes blocks, and syncing nodes B, C that receive the SERIALISED blocks
// (p2p Block message codec) and AddBlock them with A's state root. Shared by
// C02, C17, C16, C19, C20.

import (
	"bytes"
	"crypto/ecdsa"
	"crypto/sha256"
	"encoding/hex"
	"fmt"
	"math/big"
	"sort"

	ethcomm "github.com/ethereum/go-ethereum/common"
	ethtypes "github.com/ethereum/go-ethereum/core/types"
	ethcrypto "github.com/ethereum/go-ethereum/crypto"
	"github.com/ontio/ontology-crypto/keypair"
	s "github.com/ontio/ontology-crypto/signature"
	"github.com/ontio/ontology/account"
	"github.com/ontio/ontology/common"
	"github.com/ontio/ontology/common/config"
	"github.com/ontio/ontology/common/constants"
	"github.com/ontio/ontology/core/payload"
	"github.com/ontio/ontology/core/program"
	"github.com/ontio/ontology/core/signature"
	"github.com/ontio/ontology/core/types"
	cutils "github.com/ontio/ontology/core/utils"
	"github.com/ontio/ontology/core/validation"
	ontErrors "github.com/ontio/ontology/errors"
	p2ptypes "github.com/ontio/ontology/p2pserver/message/types"
	nutils "github.com/ontio/ontology/smartcontract/service/native/utils"
	"github.com/ontio/ontology/vm/neovm"

	"github.com/ontio/ontology/smartcontract/service/native/global_params"
	sneovm "github.com/ontio/ontology/smartcontract/service/neovm"

	"ontosim/simkit"
	"ontosim/world"
)

// clParty is a signing party: one key of some type, or an m-of-n group.
type clParty struct {
	name string
	accs []*account.Account // 1 = single key
	m    int
}

var clSchemes = []string{"SHA256withECDSA", "SHA224withECDSA", "SHA384withECDSA", "SHA512withECDSA", "SM3withSM2", "SHA512withEdDSA"}

// clNewEthAccount makes an Ethereum-type (secp256k1 / keccak) ontology account.
func clNewEthAccount(c *simkit.Ctx) *account.Account {
	pri, pub, err := keypair.GenerateKeyPair(keypair.PK_ETHECDSA, nil)
	c.Must(err, "eth key")
	return &account.Account{PrivateKey: pri, PublicKey: pub, Address: types.AddressFromPubKey(pub), SigScheme: s.KECCAK256WithECDSA}
}

func (p *clParty) hasEthKey() bool {
	for _, a := range p.accs {
		if _, err := keypair.GetEthereumPubKey(a.PublicKey); err == nil {
			return true
		}
	}
	return false
}

// canonical account address of a party, as a wallet would compute it
func (p *clParty) addr(c *simkit.Ctx) common.Address {
	if len(p.accs) == 1 {
		return types.AddressFromPubKey(p.accs[0].PublicKey)
	}
	var pks []keypair.PublicKey
	for _, a := range p.accs {
		pks = append(pks, a.PublicKey)
	}
	a, err := types.AddressFromMultiPubKeys(pks, p.m)
	c.Must(err, "multisig address")
	return a
}

// clKeyEncodings returns every byte encoding of the public key that
// keypair.DeserializePublicKey accepts (canonical first).
func clKeyEncodings(pk keypair.PublicKey) [][]byte {
	canon := keypair.SerializePublicKey(pk)
	out := [][]byte{canon}
	if len(canon) == 33 && (canon[0] == 2 || canon[0] == 3) {
		// NIST P-256: also the long form (0x12, curve label 2, compressed point)
		out = append(out, append([]byte{byte(keypair.PK_ECDSA), keypair.P256}, canon...))
	}
	return out
}

// clVerifyScript builds a verification script by hand: keys in the GIVEN order
// and the given encodings (the repo's builder would sort and canonicalise).
func clVerifyScript(keys [][]byte, m int) []byte {
	b := program.NewProgramBuilder()
	if len(keys) == 1 {
		b.PushBytes(keys[0])
		b.PushOpCode(neovm.CHECKSIG)
		return b.Finish()
	}
	b.PushNum(uint16(m))
	for _, k := range keys {
		b.PushBytes(k)
	}
	b.PushNum(uint16(len(keys)))
	b.PushOpCode(neovm.CHECKMULTISIG)
	return b.Finish()
}

type clSigSet struct {
	invoke, verify []byte
}

// clAssemble serialises an Ontology-format transaction by hand: the unsigned
// part as the repo serialises it, then the signature sets exactly as given.
func clAssemble(c *simkit.Ctx, mt *types.MutableTransaction, sets []clSigSet) []byte {
	mt.Sigs = nil
	im, err := mt.IntoImmutable()
	c.Must(err, "serialise unsigned tx")
	raw := im.Raw
	// Raw = unsigned || varuint(0)
	unsigned := raw[:len(raw)-1]
	sink := common.NewZeroCopySink(nil)
	sink.WriteBytes(unsigned)
	sink.WriteVarUint(uint64(len(sets)))
	for _, st := range sets {
		sink.WriteVarBytes(st.invoke)
		sink.WriteVarBytes(st.verify)
	}
	return sink.Bytes()
}

// clSignSet produces the signature set of a party over hash. opts (from the
// tape): key order permutation, key encodings, which members sign.
func clSignSet(c *simkit.Ctx, p *clParty, hash common.Uint256, canonical bool) clSigSet {
	t := c.Tape
	n := len(p.accs)
	order := make([]int, n)
	for i := range order {
		order[i] = i
	}
	var keys [][]byte
	if canonical {
		var pks []keypair.PublicKey
		for _, a := range p.accs {
			pks = append(pks, a.PublicKey)
		}
		if n > 1 {
			pks = keypair.SortPublicKeys(pks)
		}
		for _, pk := range pks {
			keys = append(keys, keypair.SerializePublicKey(pk))
		}
	} else {
		order = t.Perm(n)
		for _, i := range order {
			enc := clKeyEncodings(p.accs[i].PublicKey)
			keys = append(keys, enc[t.Choose(len(enc))])
		}
	}
	// m of the members sign (tape-chosen subset, in tape-chosen order)
	// m of the members sign; sometimes more than m do (wallets let every holder sign)
	k := p.m
	if n > p.m && t.Prob(1, 4) {
		k += 1 + t.Choose(n-p.m)
	}
	signers := t.Perm(n)[:k]
	var sigs [][]byte
	for _, i := range signers {
		sg, err := signature.Sign(p.accs[i], hash[:])
		c.Must(err, "sign")
		sigs = append(sigs, sg)
	}
	return clSigSet{invoke: program.ProgramFromParams(sigs), verify: clVerifyScript(keys, p.m)}
}

// clWorld is the cluster.
type clWorld struct {
	c                *simkit.Ctx
	A                *world.Chain
	Sync             []*world.Chain
	parties          []*clParty
	eth              []*ethAcct
	nonce            uint32
	ts               uint32
	pendingEth       map[ethcomm.Address]uint64 // EIP-155 transactions generated for the block being built
	lastMt           *types.MutableTransaction  // unsigned body and signers of the last Ontology-format transaction generated
	lastSigners      []*clParty
	prepared         bool // a setGlobalParam succeeded
	repriced         bool // ... and a later createSnapshot activated it
	noDeliveryFaults bool // plain delivery only
	strict           bool // only canonical scripts, no Ethereum-type keys in Ontology-format transactions
}

type ethAcct struct {
	key   *ecdsa.PrivateKey
	addr  ethcomm.Address
	nonce uint64
}

func newClWorld(c *simkit.Ctx, nSync int) *clWorld {
	w := &clWorld{c: c, nonce: 1, pendingEth: map[ethcomm.Address]uint64{}}
	book := account.NewAccount("")
	if nSync >= 0 {
		w.A = world.NewSoloChain(c, "A")
		c.Must(w.A.Open(), "open A")
		book = w.A.Book
		for i := 0; i < nSync; i++ {
			b := w.A.Twin(fmt.Sprintf("S%d", i))
			c.Must(b.Open(), "open sync node")
			w.Sync = append(w.Sync, b)
		}
		w.ts = w.A.Now
	} else {
		// no ledger: only the parties (properties about the intake of bytes)
		world.Init()
		world.SoloConfig(hex.EncodeToString(keypair.SerializePublicKey(book.PublicKey)))
	}
	t := c.Tape
	// parties: the bookkeeper, one single key per scheme (tape-chosen subset), an eth-type key, two groups
	w.parties = append(w.parties, &clParty{name: "book", accs: []*account.Account{book}, m: 1})
	for i := 0; i < 3; i++ {
		sc := clSchemes[t.Choose(len(clSchemes))]
		w.parties = append(w.parties, &clParty{name: sc, accs: []*account.Account{account.NewAccount(sc)}, m: 1})
	}
	w.parties = append(w.parties, &clParty{name: "ethkey", accs: []*account.Account{clNewEthAccount(c)}, m: 1})
	for g := 0; g < 2; g++ {
		n := 2 + t.Choose(3)
		p := &clParty{name: fmt.Sprintf("group%d", g), m: 1 + t.Choose(n)}
		for i := 0; i < n; i++ {
			if t.Prob(1, 5) {
				p.accs = append(p.accs, clNewEthAccount(c))
			} else {
				p.accs = append(p.accs, account.NewAccount(clSchemes[t.Choose(len(clSchemes))]))
			}
		}
		w.parties = append(w.parties, p)
	}
	for i := 0; i < 2; i++ {
		k, err := ethcrypto.GenerateKey()
		c.Must(err, "eth key")
		w.eth = append(w.eth, &ethAcct{key: k, addr: ethcrypto.PubkeyToAddress(k.PublicKey)})
	}
	return w
}

// nativeTransfer builds the unsigned ONT/ONG transfer invoke.
func (w *clWorld) transferCode(asset string, from, to common.Address, amount uint64) []byte {
	mt, err := world.TransferTx(asset, from, to, amount, 0, 20000, 0, from)
	w.c.Must(err, "transfer code")
	return mt.Payload.(*payload.InvokeCode).Code
}

func emitSys(b *neovm.ParamsBuilder, name string) {
	b.Emit(neovm.SYSCALL)
	b.EmitPushByteArray([]byte(name))
}

// witnessProbeCode: for each address push CheckWitness(addr) and notify the results.
func witnessProbeCode(addrs []common.Address) []byte {
	b := neovm.NewParamsBuilder(new(bytes.Buffer))
	for _, a := range addrs {
		b.EmitPushByteArray(a[:])
		emitSys(b, "System.Runtime.CheckWitness")
	}
	b.EmitPushInteger(big.NewInt(int64(len(addrs))))
	b.Emit(neovm.PACK)
	emitSys(b, "System.Runtime.Notify")
	return b.ToArray()
}

// mapProgramCode: builds a map with tape-chosen entries and notifies KEYS/VALUES/serialised form.
func mapProgramCode(t *simkit.Tape) []byte {
	b := neovm.NewParamsBuilder(new(bytes.Buffer))
	b.Emit(neovm.NEWMAP)
	n := 2 + t.Choose(4)
	for i := 0; i < n; i++ {
		b.Emit(neovm.DUP)
		b.EmitPushByteArray(t.Bytes(1 + t.Choose(3)))
		b.EmitPushInteger(big.NewInt(int64(t.Choose(1000))))
		b.Emit(neovm.SETITEM)
	}
	b.Emit(neovm.DUP)
	b.Emit(neovm.KEYS)
	emitSys(b, "System.Runtime.Notify")
	b.Emit(neovm.DUP)
	b.Emit(neovm.VALUES)
	emitSys(b, "System.Runtime.Notify")
	emitSys(b, "System.Runtime.Serialize")
	emitSys(b, "System.Runtime.Notify")
	return b.ToArray()
}

// candidateAddrs: every address some code path could derive for the parties.
func (w *clWorld) candidateAddrs() []common.Address {
	seen := map[common.Address]bool{}
	var out []common.Address
	add := func(a common.Address) {
		if !seen[a] {
			seen[a] = true
			out = append(out, a)
		}
	}
	add(common.ADDRESS_EMPTY)
	add(nutils.OntContractAddress)
	for _, p := range w.parties {
		add(p.addr(w.c))
		for _, a := range p.accs {
			add(types.AddressFromPubKey(a.PublicKey))
			for _, enc := range clKeyEncodings(a.PublicKey) {
				add(common.AddressFromVmCode(clVerifyScript([][]byte{enc}, 1)))
			}
		}
	}
	sort.Slice(out, func(i, j int) bool { return bytes.Compare(out[i][:], out[j][:]) < 0 })
	return out
}

// genTxBytes generates one client transaction as wire bytes. canonical=false
// lets the client use any accepted key encoding / key order in its scripts.
func (w *clWorld) genTxBytes(allowNonCanonical bool) (raw []byte, desc string) {
	c, t := w.c, w.c.Tape
	kind := t.Pick(5, 3, 2, 2, 2, 1)
	if kind == 5 {
		return w.genParamTx()
	}
	if kind == 4 {
		// EIP-155 value transfer
		e := w.eth[t.Choose(len(w.eth))]
		to := w.eth[t.Choose(len(w.eth))].addr
		chain := big.NewInt(int64(config.DefConfig.P2PNode.EVMChainId))
		acct, err := w.A.Store.GetEthAccount(e.addr)
		c.Must(err, "eth account")
		e.nonce = acct.Nonce + w.pendingEth[e.addr]
		w.pendingEth[e.addr]++
		etx := ethtypes.NewTransaction(e.nonce, to, big.NewInt(int64(t.Choose(1000))), 21000+uint64(t.Choose(2))*30000, big.NewInt(int64(constants.GWei)*int64(t.Choose(3))), nil)
		signed, err := ethtypes.SignTx(etx, ethtypes.NewEIP155Signer(chain), e.key)
		c.Must(err, "sign eip155")
		otx, err := types.TransactionFromEIP155(signed)
		c.Must(err, "wrap eip155")
		return otx.Raw, fmt.Sprintf("eip155 from=%x nonce=%d", e.addr[:4], e.nonce)
	}
	// signer set: 1..3 parties, first is the payer
	ns := 1 + t.Choose(3)
	perm := t.Perm(len(w.parties))
	var signers []*clParty
	for i := 0; i < len(perm) && len(signers) < ns; i++ {
		p := w.parties[perm[i]]
		if w.strict && p.hasEthKey() {
			continue
		}
		signers = append(signers, p)
	}
	payer := signers[0].addr(c)
	var code []byte
	switch kind {
	case 0: // native token transfer from some party (maybe not a signer) to another
		from := w.parties[t.Choose(len(w.parties))]
		if t.Prob(2, 3) {
			from = signers[t.Choose(len(signers))]
		}
		to := w.parties[t.Choose(len(w.parties))]
		fromAddr, toAddr, fromName, toName := from.addr(c), to.addr(c), from.name, to.name
		// addresses nobody holds a key for: the all-zero address ("burnt" funds) and a native contract
		switch t.Pick(12, 1, 1, 1) {
		case 1:
			toAddr, toName = common.ADDRESS_EMPTY, "zero-address"
		case 2:
			fromAddr, fromName = common.ADDRESS_EMPTY, "zero-address"
		case 3:
			fromAddr, fromName = nutils.OntContractAddress, "ont-contract"
		}
		asset := []string{"ont", "ong"}[t.Choose(2)]
		code = w.transferCode(asset, fromAddr, toAddr, uint64(1+t.Choose(20)))
		desc = fmt.Sprintf("%s transfer %s->%s", asset, fromName, toName)
	case 1:
		code = witnessProbeCode(w.candidateAddrs())
		desc = "witness probe"
	case 2:
		code = mapProgramCode(t)
		desc = "map program"
	case 3:
		code = append(witnessProbeCode(w.candidateAddrs()[:1+t.Choose(3)]), mapProgramCode(t)...)
		desc = "probe+map"
	}
	w.nonce++
	gasPrice := []uint64{0, 0, 0, 500, 2500}[t.Choose(5)]
	mt := world.InvokeTx(code, gasPrice, 200000, w.nonce, payer)
	if gasPrice > 0 {
		desc += fmt.Sprintf(" gasprice=%d", gasPrice)
	}
	if kind == 0 && t.Prob(1, 6) {
		// a deploy instead
		mt.TxType = types.Deploy
		dc, err := payload.NewDeployCode(append([]byte{byte(neovm.PUSH1), byte(neovm.PUSH1 + neovm.OpCode(t.Choose(10)))}, t.Bytes(2)...), payload.NEOVM_TYPE, "n", "v", "a", "e", "d")
		c.Must(err, "deploy code")
		mt.Payload = dc
		mt.GasLimit = 30000000
		desc = "deploy"
	}
	hash := mt.Hash()
	var sets []clSigSet
	nonCanon := false
	for _, p := range signers {
		canon := !(allowNonCanonical && t.Prob(1, 3))
		if !canon {
			nonCanon = true
		}
		sets = append(sets, clSignSet(c, p, hash, canon))
	}
	names := ""
	for _, p := range signers {
		names += p.name + ","
	}
	w.lastMt, w.lastSigners = mt, signers
	return clAssemble(c, mt, sets), fmt.Sprintf("%s signers=[%s] noncanonical-script=%v", desc, names, nonCanon)
}

// genResigned: the body of the last generated transaction (same hash) under
// another signer set - the payer alone, or the payer and other parties. The
// hash of an Ontology-format transaction does not cover its signatures, so
// both are valid transactions that a node may see one after the other.
func (w *clWorld) genResigned() ([]byte, string) {
	c, t := w.c, w.c.Tape
	if w.lastMt == nil {
		return nil, ""
	}
	signers := []*clParty{w.lastSigners[0]}
	perm := t.Perm(len(w.parties))
	for i, extra := 0, t.Choose(3); i < len(perm) && len(signers) < 1+extra; i++ {
		p := w.parties[perm[i]]
		if p == w.lastSigners[0] || (w.strict && p.hasEthKey()) {
			continue
		}
		signers = append(signers, p)
	}
	hash := w.lastMt.Hash()
	var sets []clSigSet
	names := ""
	for _, p := range signers {
		sets = append(sets, clSignSet(c, p, hash, true))
		names += p.name + ","
	}
	return clAssemble(c, w.lastMt, sets), fmt.Sprintf("re-signed body of the previous transaction signers=[%s]", names)
}

// genParamTx: the parameter operator (the bookkeeper on a solo network)
// prepares new gas-table prices or activates the prepared ones.
func (w *clWorld) genParamTx() ([]byte, string) {
	c, t := w.c, w.c.Tape
	book := w.parties[0]
	var mt *types.MutableTransaction
	var err error
	var desc string
	w.nonce++
	if t.Prob(1, 2) {
		var ps []*global_params.Param
		for k, n := 0, 1+t.Choose(3); k < n; k++ {
			key := sneovm.GAS_TABLE_KEYS[t.Choose(len(sneovm.GAS_TABLE_KEYS))]
			val := []string{"1", "200", "1000", "30000", "100000"}[t.Choose(5)]
			ps = append(ps, &global_params.Param{Key: key, Value: val})
			desc += fmt.Sprintf(" %s=%s", key, val)
		}
		mt, err = world.NativeTx(nutils.ParamContractAddress, 0, "setGlobalParam", []interface{}{ps}, 0, 200000, w.nonce, book.addr(c))
		desc = "setGlobalParam" + desc
	} else {
		mt, err = world.NativeTx(nutils.ParamContractAddress, 0, "createSnapshot", []interface{}{[]byte{}}, 0, 200000, w.nonce, book.addr(c))
		desc = "createSnapshot"
	}
	c.Must(err, "param tx")
	return clAssemble(c, mt, []clSigSet{clSignSet(c, book, mt.Hash(), true)}), desc + " signers=[book,]"
}

// fundParties gives every party ONT and ONG from the bookkeeper (block 1).
func (w *clWorld) fund() {
	c := w.c
	var txs []*types.Transaction
	for _, p := range w.parties[1:] {
		for _, asset := range []string{"ont", "ong"} {
			w.nonce++
			amount := uint64(100000)
			if asset == "ong" {
				amount = 10000000000000 // fees of gas-priced transactions
			}
			mt, err := world.TransferTx(asset, w.A.Book.Address, p.addr(c), amount, 0, 20000, w.nonce, w.A.Book.Address)
			c.Must(err, "fund")
			c.Must(world.Sign(mt, w.A.Book), "sign")
			tx, err := world.Seal(mt)
			c.Must(err, "seal")
			txs = append(txs, tx)
		}
	}
	for _, e := range w.eth {
		w.nonce++
		mt, err := world.TransferTx("ong", w.A.Book.Address, common.Address(e.addr), 1000000000000000, 0, 20000, w.nonce, w.A.Book.Address)
		c.Must(err, "fund eth")
		c.Must(world.Sign(mt, w.A.Book), "sign")
		tx, err := world.Seal(mt)
		c.Must(err, "seal")
		txs = append(txs, tx)
	}
	w.commitAndSync(txs, "funding")
}

// blockWire serialises a block as the p2p Block message does and parses it
// back, returning what a syncing node sees.
func blockWire(c *simkit.Ctx, blk *types.Block, root common.Uint256) (*types.Block, common.Uint256, []byte) {
	msg := &p2ptypes.Block{Blk: blk, MerkleRoot: root}
	sink := common.NewZeroCopySink(nil)
	p2ptypes.WriteMessage(sink, msg)
	wire := sink.Bytes()
	m, _, err := p2ptypes.ReadMessage(bytes.NewReader(wire))
	c.Must(err, "decode own block message")
	bm := m.(*p2ptypes.Block)
	return bm.Blk, bm.MerkleRoot, wire
}

// commitAndSync: A executes the block built from validated transactions; every
// syncing node gets the wire bytes and must reach the same state.
func (w *clWorld) commitAndSync(txs []*types.Transaction, what string) {
	c := w.c
	w.ts += uint32(1 + c.Tape.Choose(30))
	blk := w.A.MakeBlock(txs, w.ts, uint64(w.nonce)<<8)
	resA, err := w.A.Commit(blk)
	if err != nil {
		c.Harness("A rejects its own block (%s): %v", what, err)
	}
	h := blk.Header.Height
	sa, err := w.A.Snap(true)
	c.Must(err, "snap A")
	for _, b := range w.Sync {
		dec, root, _ := blockWire(c, blk, resA.MerkleRoot)
		var err error
		switch mode := c.Tape.Pick(10, 1, 1); {
		case mode == 1 && len(txs) > 0 && !w.noDeliveryFaults:
			// the syncing node dies inside AddBlock, is restarted and gets the block again if it lost it
			world.Quiesce()
			b.Disk.ArmCrash(1+c.Tape.Choose(14), c.Tape.Choose(3)*100)
			err = b.Store.AddBlock(dec, nil, root)
			if b.Disk.Crashed() {
				c.Fault("sync_node_crash_in_commit")
				c.Logf("CRASH of %s inside AddBlock(%d) at %s", b.Name, h, b.Disk.CrashInfo)
				st := b.Store
				b.Close()
				c40CloseAllStores(st)
				world.Quiesce()
				b.Disk.Restart()
				if oerr := b.Open(); oerr != nil {
					c.Fail("sync-node-reopen-fails", "crash-in-commit", "%s cannot reopen after a crash inside AddBlock(%d): %v", b.Name, h, oerr)
				}
				world.Quiesce()
				err = nil
				if b.Height() < h {
					dec2, root2, _ := blockWire(c, blk, resA.MerkleRoot)
					err = b.Store.AddBlock(dec2, nil, root2)
				}
			} else {
				b.Disk.Disarm()
			}
		case mode == 2 && !w.noDeliveryFaults:
			// the same block reaches the node twice at once (block sync and consensus both deliver
			// it): the second AddBlock starts while the first is stopped before a disk call
			world.Quiesce()
			reached, resume := b.Disk.ArmPause(1 + c.Tape.Choose(12))
			e1, e2 := make(chan error, 1), make(chan error, 1)
			go func() { e1 <- b.Store.AddBlock(dec, nil, root) }()
			world.Quiesce()
			second := false
			select {
			case <-reached:
				second = true
				c.Fault("block_delivered_twice_concurrently")
				dec2, root2, _ := blockWire(c, blk, resA.MerkleRoot)
				go func() { e2 <- b.Store.AddBlock(dec2, nil, root2) }()
				world.Quiesce()
			default:
			}
			resume()
			err = <-e1
			if second {
				if err2 := <-e2; err == nil {
					err = err2
				}
			}
			world.Quiesce()
		default:
			err = b.Store.AddBlock(dec, nil, root)
		}
		if err != nil {
			c.FailSoft("sync-node-rejects-block", clDivergenceSig(w, blk), "height %d (%s): node %s cannot add the block A committed: %v", h, what, b.Name, err)
			return
		}
		if b.Height() != h {
			c.Fail("sync-node-height", "cluster", "node %s at height %d after block %d", b.Name, b.Height(), h)
		}
		sb, err := b.Snap(true)
		c.Must(err, "snap B")
		for hh := range sa.StateRoots {
			if sa.StateRoots[hh] != sb.StateRoots[hh] {
				c.FailSoft("state-root-differs", clDivergenceSig(w, blk), "height %d: state root of %d differs A=%x %s=%x", h, hh, sa.StateRoots[hh], b.Name, sb.StateRoots[hh])
				return
			}
		}
		for _, name := range world.Stores {
			if sa.Digest[name] != sb.Digest[name] {
				c.FailSoft("store-differs/"+name, clDivergenceSig(w, blk), "height %d (%s): store %q differs between A (validated the txs) and %s (synced sealed block): %v", h, what, name, b.Name, simkit.DiffKV(sa.KV[name], sb.KV[name], 3))
				return
			}
		}
	}
	c.State("cluster", h, sa.Digest["states"])
}

// clDivergenceSig classifies a divergence by what kinds of signature scripts the block's transactions carry.
func clDivergenceSig(w *clWorld, blk *types.Block) string {
	eth, nonCanon := false, false
	for _, tx := range blk.Transactions {
		if tx.IsEipTx() {
			continue
		}
		for _, rs := range tx.Sigs {
			sig, err := rs.GetSig()
			if err != nil {
				continue
			}
			for _, pk := range sig.PubKeys {
				if _, err := keypair.GetEthereumPubKey(pk); err == nil {
					eth = true
				}
			}
			// canonical script for these keys
			var canon []byte
			if len(sig.PubKeys) == 1 {
				canon = program.ProgramFromPubKey(sig.PubKeys[0])
			} else {
				canon, _ = program.ProgramFromMultiPubKey(sig.PubKeys, int(sig.M))
			}
			if !bytes.Equal(canon, rs.Verify) {
				nonCanon = true
			}
		}
	}
	switch {
	case eth && nonCanon:
		return "eth-type-key+noncanonical-script"
	case eth:
		return "eth-type-key-in-ontology-tx"
	case nonCanon:
		return "noncanonical-verify-script"
	}
	return "canonical-scripts"
}

// acceptTx is node A's intake: decode bytes, validate.
func acceptTx(raw []byte) (*types.Transaction, string) { return acceptTxVia(raw, false) }

// acceptTxVia: with senderCheckFirst the transaction object passes the tx
// pool's sender-limit check (GetSignatureAddresses) before the validator sees
// it, as for transactions of a proposed block (TXPoolServer.verifyBlock) and
// for submissions with pre-execution enabled (preExecCheck).
func acceptTxVia(raw []byte, senderCheckFirst bool) (*types.Transaction, string) {
	tx, err := types.TransactionFromRawBytes(append([]byte(nil), raw...))
	if err != nil {
		return nil, "decode: " + err.Error()
	}
	if senderCheckFirst {
		_ = tx.GetSignatureAddresses()
	}
	if code := validation.VerifyTransaction(tx); code != ontErrors.ErrNoError {
		return nil, "validate: " + code.Error()
	}
	return tx, ""
}

func sha256d(b []byte) common.Uint256 {
	h1 := sha256.Sum256(b)
	return sha256.Sum256(h1[:])
}

var _ = cutils.BuildNativeInvokeCode
var _ = nutils.OntContractAddress
