package props

import (
	"bytes"
	"encoding/binary"
	"fmt"
	"testing/synctest"

	"github.com/ontio/ontology/common"
	"github.com/ontio/ontology/common/config"
	"github.com/ontio/ontology/common/constants"
	p2pcomm "github.com/ontio/ontology/p2pserver/common"
	"github.com/ontio/ontology/p2pserver/link"
	mt "github.com/ontio/ontology/p2pserver/message/types"

	"ontosim/simkit"
	"ontosim/world"
)

// C24: reading a p2p message either returns a message whose re-serialisation
// reproduces the payload, or an error; never panics, never allocates beyond
// the maximum payload size, rejects wrong magic / oversize length / bad
// checksum.
func init() {
	simkit.Register(&simkit.Prop{
		ID:             "C24",
		Desc:           "p2p message framing and per-type decoders under stream faults: no panic, bounded allocation, reject bad frames, accepted messages re-serialise to the payload they were read from",
		Rule:           "a run = 1..6 well-formed messages of tape-chosen types (all 21 registered commands and an unregistered one, tape-chosen field contents) serialised with the real WriteMessage into one byte stream, with at most one fault per frame (wrong magic, oversize length, bad checksum, header byte flip, declared-huge length, payload mutated with the checksum recomputed: byte flips, truncation, trailing bytes, insert/delete, hostile count values, command swapped to another type, duplication) and an optional cut of the stream; the stream is read by the real types.ReadMessage through a reader that fragments at tape-chosen sizes and, when that was uneventful, again by the real link.Link.Rx from a SimConn (EOF or stall at the end); a reference framing model says which frames must be rejected; non-trivial = at least one fault was injected AND at least one message was accepted; distinct = distinct event-trace hash",
		Real:           []string{"p2pserver/message/types (WriteMessage, ReadMessage, every Serialization/Deserialization)", "p2pserver/link (Link.Rx, CloseConn)", "p2pserver/common (checksum, PeerId/PeerKeyId codecs)", "core/types (Header, Block, Transaction, CrossChainMsg codecs)", "core/signature + ontology-crypto (key and signature codecs, verification inside decoders)"},
		Stub:           []string{"net.Conn: in-memory byte source with tape-chosen fragmentation, EOF or stall", "message consumer: a buffered channel read by the harness"},
		Assumptions:    []string{"the unmodified frames written by WriteMessage for harness-built messages are well-formed and must be accepted", "allocation is read from runtime/metrics /gc/heap/allocs:bytes around each ReadMessage call and compared with MAX_PAYLOAD_LEN + 1 MiB", "an input whose decoding aborts the worker process (unrecoverable out-of-memory under the 6 GiB address-space limit, stack overflow) cannot be judged inside the run: bin/check re-executes that run alone twice and reports a reproducible abort as a violation (oracle process-aborted)"},
		ExpectedProbes: []string{"reject_bad_magic", "reject_oversize_length", "reject_bad_checksum", "reject_eof_header", "reject_eof_payload", "decoder_rejected", "accepted_mutated", "accepted_wellformed", "unknown_cmd", "big_declared_length", "rx_ran", "rx_stall", "rx_dedup_datareq"},
		Run:            runC24,
	})
}

type c24FrameInfo struct {
	cmd    string // command the frame was generated as
	fault  string // "" = intact
	detail string
}

type c24Accepted struct {
	cmd     string
	size    int
	reser   []byte // payload part of WriteMessage(decoded message)
	unknown bool
	dataReq string // dedup key as Link.Rx builds it, "" if not a data request
}

const c24AllocSlack = 1 << 20

func runC24(c *simkit.Ctx) {
	world.Init()
	p2pcomm.Difficulty = 1
	c.Bubble(func() {
		t := c.Tape
		magics := []uint32{constants.NETWORK_MAGIC_MAINNET, constants.NETWORK_MAGIC_POLARIS, 0, 0xFFFFFFFF, 12345}
		magic := magics[t.Choose(len(magics))]
		config.DefConfig.P2PNode.NetworkMagic = magic
		g := &c24Gen{c: c}
		nMsg := t.Range(1, 6)
		faultRate := t.Choose(4) // 0: no faults, 1: rare, 2: half, 3: every frame
		focus := -1
		if t.Prob(1, 3) {
			focus = t.Choose(len(c24Types)) // swarm: one message type only
		}
		c.Logf("magic=%#x msgs=%d faultRate=%d focus=%d", magic, nMsg, faultRate, focus)

		var stream []byte
		frames := map[int]*c24FrameInfo{} // stream offset -> generated frame
		nFaults := 0
		for i := 0; i < nMsg; i++ {
			ti := focus
			if ti < 0 {
				ti = t.Choose(len(c24Types))
			}
			msg := g.message(c24Types[ti])
			sink := common.NewZeroCopySink(nil)
			mt.WriteMessage(sink, msg)
			raw := append([]byte(nil), sink.Bytes()...)
			fi := &c24FrameInfo{cmd: msg.CmdType()}
			inject := false
			switch faultRate {
			case 1:
				inject = t.Prob(1, 6)
			case 2:
				inject = t.Bool()
			case 3:
				inject = true
			}
			if inject {
				raw = c24Inject(c, fi, raw, magic, msg)
			}
			if fi.fault != "" {
				nFaults++
				c.Fault(fi.fault)
			}
			c.Logf("frame %d @%d cmd=%s len=%d fault=%s %s", i, len(stream), fi.cmd, len(raw)-c24HdrLen, fi.fault, fi.detail)
			frames[len(stream)] = fi
			stream = append(stream, raw...)
			if fi.fault == "duplicate" {
				frames[len(stream)] = &c24FrameInfo{cmd: fi.cmd, fault: "duplicate", detail: "second copy"}
				stream = append(stream, raw...)
			}
		}
		if t.Prob(1, 6) && len(stream) > 1 {
			cut := t.Choose(len(stream))
			if t.Bool() && len(stream) > c24HdrLen { // near the end: inside the last frame
				cut = len(stream) - 1 - t.Choose(c24HdrLen+8)
				if cut < 0 {
					cut = 0
				}
			}
			c.Logf("stream cut at %d of %d", cut, len(stream))
			stream = stream[:cut]
			nFaults++
			c.Fault("stream_cut")
		}
		frag := c24Frag(c)

		// ---- pass 1: types.ReadMessage directly on the fragmenting reader
		accepted, eventful, endKind := c24Direct(c, stream, frames, magic, frag)
		if nFaults > 0 && len(accepted) > 0 {
			c.NonTrivial()
		}
		if eventful {
			return // a panic / allocation finding would take the whole process down inside Rx
		}

		// ---- pass 2: the same stream through the real Link.Rx
		frag2 := frag
		if t.Bool() {
			frag2 = c24Frag(c)
		}
		stall := t.Bool()
		conn := c24NewConn(stream, frag2, stall)
		ch := make(chan *mt.MsgPayload, nMsg*2+4)
		lk := link.NewLink(p2pcomm.PseudoPeerIdFromUint64(7), conn, ch)
		c.Probe("rx_ran")
		done := make(chan struct{})
		go func() {
			defer close(done)
			lk.Rx()
		}()
		synctest.Wait()
		// expected deliveries: what ReadMessage accepted, minus unknown commands,
		// minus data requests repeated within REQ_INTERVAL (the clock stands still)
		var want []c24Accepted
		seenReq := map[string]bool{}
		for _, a := range accepted {
			if a.unknown {
				continue
			}
			if a.dataReq != "" {
				if seenReq[a.dataReq] {
					c.Probe("rx_dedup_datareq")
					continue
				}
				seenReq[a.dataReq] = true
			}
			want = append(want, a)
		}
		// a silent peer (stall) after a complete frame or in the middle of one keeps
		// the link open; every other ending must have closed it already
		waiting := stall && (endKind == "end" || endKind == "eof-header" || endKind == "eof-payload")
		if waiting {
			c.Probe("rx_stall")
			select {
			case <-done:
				c.Fail("rx-differs", "closed-healthy-link", "Link.Rx ended although the stream only stopped (%s) and the connection is idle", endKind)
			default:
			}
			if conn.isClosed() {
				c.Fail("rx-differs", "closed-healthy-link", "Link.Rx closed an idle connection (stream stopped at: %s)", endKind)
			}
			_ = conn.Close() // the peer goes away
			synctest.Wait()
		}
		select {
		case <-done:
		default:
			c.Fail("link-not-closed", endKind, "ReadMessage returns an error on this stream (it ends with: %s) but Link.Rx is still reading from the connection", endKind)
		}
		if !conn.isClosed() {
			c.Fail("link-not-closed", endKind, "Link.Rx returned (stream ended with %s) without closing the connection", endKind)
		}
		close(ch)
		var got []*mt.MsgPayload
		for m := range ch {
			got = append(got, m)
		}
		for i := 0; i < len(got) && i < len(want); i++ {
			rs, perr := c24Reserialise(got[i].Payload)
			if perr != "" {
				c.Fail("panic", "rx-write/"+want[i].cmd, "WriteMessage of the message delivered by Link.Rx panics: %s", perr)
			}
			if got[i].Payload.CmdType() != want[i].cmd || !bytes.Equal(rs, want[i].reser) || int(got[i].PayloadSize) != want[i].size {
				c.Fail("rx-differs", "message/"+want[i].cmd, "delivery %d of Link.Rx is %s (%d payload bytes, re-serialises to %x) but ReadMessage on the same stream gave %s (%d bytes, %x)",
					i, got[i].Payload.CmdType(), got[i].PayloadSize, c24Clip(rs), want[i].cmd, want[i].size, c24Clip(want[i].reser))
			}
		}
		if len(got) != len(want) {
			c.Fail("rx-differs", "count", "Link.Rx delivered %d messages, ReadMessage on the same stream accepts %d (after unknown-command and repeated-data-request filtering)", len(got), len(want))
		}
		c.Logf("rx delivered %d, closed", len(got))
	})
}

func c24Clip(b []byte) []byte {
	if len(b) > 96 {
		return b[:96]
	}
	return b
}

func c24Frag(c *simkit.Ctx) []int {
	t := c.Tape
	var frag []int
	switch t.Choose(4) {
	case 0: // whole
	case 1:
		frag = []int{1}
	case 2:
		sizes := []int{1, 2, 3, 7, 23, 24, 25, 100, 4096, 1 << 20}
		for i, n := 0, 1+t.Choose(6); i < n; i++ {
			frag = append(frag, sizes[t.Choose(len(sizes))])
		}
	default:
		frag = []int{c24HdrLen - 1, 1, 1 + t.Choose(40)}
	}
	c.Logf("fragments %v", frag)
	return frag
}

// c24Reserialise returns the payload part of WriteMessage(m).
func c24Reserialise(m mt.Message) (payload []byte, panicMsg string) {
	defer func() {
		if r := recover(); r != nil {
			panicMsg = fmt.Sprintf("%v at %s", r, c24PanicSite())
		}
	}()
	sink := common.NewZeroCopySink(nil)
	mt.WriteMessage(sink, m)
	return sink.Bytes()[c24HdrLen:], ""
}

type c24ReadResult struct {
	msg      mt.Message
	size     uint32
	err      error
	panicMsg string
	site     string
}

func c24SafeRead(r *c24Reader) (res c24ReadResult) {
	defer func() {
		if p := recover(); p != nil {
			res.panicMsg = fmt.Sprint(p)
			res.site = c24PanicSite()
		}
	}()
	res.msg, res.size, res.err = mt.ReadMessage(r)
	return
}

// c24DiffClass names how the re-serialisation differs from the payload read.
func c24DiffClass(payload, reser []byte) string {
	switch {
	case len(reser) < len(payload) && bytes.Equal(payload[:len(reser)], reser):
		return "ignores-trailing-bytes"
	case len(payload) < len(reser) && bytes.Equal(reser[:len(payload)], payload):
		return "accepts-short-payload"
	case len(payload) == len(reser):
		return "normalises-bytes"
	default:
		return "differs"
	}
}

// c24Direct drives types.ReadMessage over the stream and checks every result
// against the framing model and the round-trip oracle.
func c24Direct(c *simkit.Ctx, stream []byte, frames map[int]*c24FrameInfo, magic uint32, frag []int) (accepted []c24Accepted, eventful bool, endKind string) {
	r := &c24Reader{data: stream, frag: frag}
	for {
		start := r.pos
		exp := c24Model(stream[start:], magic)
		endKind = exp.kind
		if exp.kind == "end" {
			return
		}
		fi := frames[start]
		origin := "unaligned (inside generated frames)"
		if fi != nil {
			origin = fmt.Sprintf("generated as %s fault=%q %s", fi.cmd, fi.fault, fi.detail)
		}
		if exp.kind == "valid" && exp.cmd == p2pcomm.BLOCK_TYPE {
			if fatal, n := c24BlockFatal(exp.payload); fatal {
				// if the decoder pre-allocates from this count the runtime aborts the
				// process; bin/check turns a reproducible abort into a violation
				c.Probe("hostile_crosschain_sig_count_executed")
				c.Logf("@%d block message with CrossChainMsg signature count %d", start, n)
			}
		}
		a0 := c24Allocs()
		res := c24SafeRead(r)
		alloc := c24Allocs() - a0
		consumed := r.pos - start
		if res.panicMsg != "" {
			eventful = true
			c.Logf("@%d %s cmd=%s -> PANIC", start, exp.kind, exp.cmd)
			c.FailSoft("panic", exp.cmd+"@"+res.site, "ReadMessage panics on a %s frame (cmd %q, %d payload bytes; %s): %s\npayload=%x", exp.kind, exp.cmd, exp.length, origin, res.panicMsg, c24Clip(exp.payload))
			return
		}
		outcome := "error"
		if res.err == nil {
			outcome = "message"
		}
		c.Logf("@%d %s cmd=%s -> %s consumed=%d", start, exp.kind, exp.cmd, outcome, consumed)
		c.State(exp.kind, exp.cmd, outcome)
		bound := uint64(p2pcomm.MAX_PAYLOAD_LEN + c24AllocSlack)
		if exp.kind == "oversize-length" || exp.kind == "bad-magic" || exp.kind == "eof-header" {
			bound = c24AllocSlack
		}
		if alloc > bound {
			eventful = true
			c.FailSoft("alloc-exceeds-max", exp.cmd, "ReadMessage allocated about %d MiB for one %s frame (cmd %q, declared payload length %d; MAX_PAYLOAD_LEN is %d; %s)",
				alloc>>20, exp.kind, exp.cmd, exp.length, p2pcomm.MAX_PAYLOAD_LEN, origin)
		}
		if exp.kind != "valid" {
			if res.err == nil {
				c.FailSoft("must-reject-accepted", exp.kind, "ReadMessage returned a %s message for a frame that must be rejected (%s; header magic=%#x cmd=%q length=%d; %s)",
					res.msg.CmdType(), exp.kind, binary.LittleEndian.Uint32(stream[start:]), exp.cmd, exp.length, origin)
				return
			}
			switch exp.kind {
			case "bad-magic":
				c.Probe("reject_bad_magic")
			case "oversize-length":
				c.Probe("reject_oversize_length")
			case "bad-checksum":
				c.Probe("reject_bad_checksum")
			case "eof-header":
				c.Probe("reject_eof_header")
			case "eof-payload":
				c.Probe("reject_eof_payload")
				if exp.length > 1<<20 {
					c.Probe("big_declared_length")
				}
			}
			if (exp.kind == "oversize-length" || exp.kind == "bad-magic") && consumed != c24HdrLen {
				c.FailSoft("oversize-length-consumed-payload", exp.kind, "a header with %s (length field %d) must be refused on the header alone, but ReadMessage took %d bytes from the connection", exp.kind, exp.length, consumed)
			}
			return // the connection is dead after an error
		}
		// ---- a frame with valid magic, length and checksum
		if res.err != nil {
			if fi != nil && fi.fault == "" || fi != nil && fi.fault == "duplicate" {
				c.FailSoft("wellformed-rejected", fi.cmd, "ReadMessage rejects a well-formed %s message written by WriteMessage: %v\npayload=%x", fi.cmd, res.err, c24Clip(exp.payload))
			}
			c.Probe("decoder_rejected")
			return
		}
		if consumed != c24HdrLen+len(exp.payload) || int(res.size) != len(exp.payload) {
			c.FailSoft("frame-size-wrong", exp.cmd, "ReadMessage consumed %d bytes and reports payload size %d for a frame of %d+%d bytes", consumed, res.size, c24HdrLen, len(exp.payload))
			return
		}
		reser, perr := c24Reserialise(res.msg)
		if perr != "" {
			eventful = true
			c.FailSoft("panic", "write/"+exp.cmd, "WriteMessage panics on the %s message that ReadMessage returned (%s): %s\npayload=%x", exp.cmd, origin, perr, c24Clip(exp.payload))
			return
		}
		intact := fi != nil && (fi.fault == "" || fi.fault == "duplicate") && fi.cmd == exp.cmd
		if intact {
			c.Probe("accepted_wellformed")
		} else {
			c.Probe("accepted_mutated")
		}
		wantCmd := exp.cmd
		if res.msg.CmdType() != wantCmd {
			c.FailSoft("reserialise-differs", "command/"+exp.cmd, "frame command %q decoded to a message of command %q", exp.cmd, res.msg.CmdType())
		}
		if !bytes.Equal(reser, exp.payload) {
			class := c24DiffClass(exp.payload, reser)
			switch {
			case intact:
				class = "wellformed"
			case fi == nil:
				class += "/unaligned"
			case class != "ignores-trailing-bytes":
				class += "/" + fi.fault
			}
			c.FailSoft("reserialise-differs", exp.cmd+"/"+class, "ReadMessage accepted a %q payload of %d bytes whose re-serialisation has %d bytes and differs (%s; %s)\npayload=%x\nrewrite=%x",
				exp.cmd, len(exp.payload), len(reser), class, origin, c24Clip(exp.payload), c24Clip(reser))
		}
		a := c24Accepted{cmd: exp.cmd, size: len(exp.payload), reser: reser}
		if _, ok := res.msg.(*mt.UnknownMessage); ok {
			a.unknown = true
			c.Probe("unknown_cmd")
		}
		if dr, ok := res.msg.(*mt.DataReq); ok {
			a.dataReq = fmt.Sprintf("%x%s", dr.DataType, dr.Hash.ToHexString())
		}
		accepted = append(accepted, a)
	}
}

// c24Inject applies exactly one fault to a frame. The checksum is recomputed
// for payload-level mutations so that they reach the per-type decoders.
func c24Inject(c *simkit.Ctx, fi *c24FrameInfo, raw []byte, magic uint32, msg mt.Message) []byte {
	t := c.Tape
	payload := append([]byte(nil), raw[c24HdrLen:]...)
	cmd := fi.cmd
	// tail of a block message that carries a CrossChainMsg: its signature count is
	// pre-allocated by the decoder, so only chosen values may be written there
	ccStart, sigLenOff := -1, -1
	if b, ok := msg.(*mt.Block); ok && b.CCMsg != nil {
		s := common.NewZeroCopySink(nil)
		b.CCMsg.Serialization(s)
		ccStart = len(payload) - len(s.Bytes())
		sigLenOff = ccStart + 1 + 4 + 32
	}
	safeLimit := len(payload) // positions below it may be shifted / overwritten freely
	if _, ok := msg.(*mt.Block); ok {
		safeLimit = len(payload) - 34
		if ccStart >= 0 {
			safeLimit = ccStart - 33
		}
		if safeLimit < 0 {
			safeLimit = 0
		}
	}
	kind := t.Pick(3, 3, 3, 3, 2, 4, 3, 3, 2, 4, 2, 2, 2, 2)
	switch kind {
	case 0:
		fi.fault = "wrong_magic"
		m2 := magic ^ (1 << uint(t.Choose(32)))
		if t.Bool() {
			m2 = magic + 1 + uint32(t.Choose(1000))
		}
		binary.LittleEndian.PutUint32(raw[0:4], m2)
		fi.detail = fmt.Sprintf("magic=%#x", m2)
		return raw
	case 1:
		fi.fault = "oversize_length"
		// mostly values up to 64 MiB (a broken cap then shows as a metered allocation); now and
		// then the top of the uint32 range, where length arithmetic wraps around: if the reader
		// allocates that, the worker is aborted and bin/check reports the reproducible abort
		vals := []uint32{p2pcomm.MAX_PAYLOAD_LEN + 1, p2pcomm.MAX_PAYLOAD_LEN + 2 + uint32(t.Choose(1<<20)), 2 * p2pcomm.MAX_PAYLOAD_LEN, 1 << 26,
			0xffffffff - uint32(t.Choose(40)), 1<<31 + uint32(t.Choose(3)) - 1}
		v := vals[t.Pick(6, 4, 2, 2, 1, 1)]
		binary.LittleEndian.PutUint32(raw[16:20], v)
		fi.detail = fmt.Sprintf("length=%d", v)
		if t.Bool() {
			raw = raw[:c24HdrLen] // and nothing behind it
		}
		return raw
	case 2:
		fi.fault = "bad_checksum"
		if len(payload) > 0 && t.Bool() {
			p := t.Choose(len(payload))
			raw[c24HdrLen+p] ^= byte(1 + t.Choose(255))
			fi.detail = fmt.Sprintf("payload byte %d flipped, checksum kept", p)
		} else {
			p := t.Choose(4)
			raw[20+p] ^= byte(1 + t.Choose(255))
			fi.detail = fmt.Sprintf("checksum byte %d flipped", p)
		}
		return raw
	case 3:
		fi.fault = "header_flip"
		p := t.Choose(c24HdrLen)
		raw[p] ^= byte(1 << uint(t.Choose(8)))
		fi.detail = fmt.Sprintf("header byte %d", p)
		return raw
	case 4:
		fi.fault = "huge_declared_length"
		v := uint32(p2pcomm.MAX_PAYLOAD_LEN) - uint32(t.Choose(3))*uint32(1+t.Choose(1<<20))
		binary.LittleEndian.PutUint32(raw[16:20], v)
		keep := t.Choose(len(payload) + 1)
		fi.detail = fmt.Sprintf("length=%d, %d payload bytes follow", v, keep)
		return raw[:c24HdrLen+keep]
	case 5:
		fi.fault = "duplicate"
		return raw
	case 6:
		fi.fault = "payload_flip"
		if len(payload) == 0 {
			fi.fault = ""
			return raw
		}
		for i, n := 0, 1+t.Choose(3); i < n; i++ {
			p := t.Choose(len(payload))
			if p == sigLenOff {
				continue
			}
			payload[p] ^= byte(1 << uint(t.Choose(8)))
			fi.detail += fmt.Sprintf("byte %d ", p)
		}
	case 7:
		fi.fault = "payload_truncate"
		if len(payload) == 0 {
			fi.fault = ""
			return raw
		}
		n := t.Choose(len(payload))
		if t.Bool() {
			n = len(payload) - 1 - t.Choose(c24Min(len(payload), 40))
		}
		payload = payload[:n]
		fi.detail = fmt.Sprintf("to %d bytes", n)
	case 8:
		fi.fault = "payload_trailing"
		extra := t.Bytes(1 + t.Choose(8))
		if _, ok := msg.(*mt.Block); ok {
			for i := range extra {
				extra[i] = 0 // never something the block tail decoder could take for a count
			}
		}
		payload = append(payload, extra...)
		fi.detail = fmt.Sprintf("%d bytes appended", len(extra))
	case 9:
		fi.fault = "payload_count"
		if safeLimit == 0 {
			fi.fault = ""
			return raw
		}
		p := t.Choose(safeLimit)
		var v []byte
		switch t.Choose(7) {
		case 0:
			v = []byte{0xFF, 0xFF, 0xFF, 0xFF}
		case 1:
			v = []byte{0xFF, 0xFF, 0xFF, 0xFF, 0xFF, 0xFF, 0xFF, 0xFF}
		case 2:
			v = []byte{0, 0, 0, 0, 0, 0, 0, 0x80}
		case 3:
			v = []byte{0xFD, 0xFF, 0xFF}
		case 4:
			v = []byte{0xFE, 0xFF, 0xFF, 0xFF, 0x7F}
		case 5:
			v = []byte{byte(1 + t.Choose(200))}
		default:
			v = []byte{byte(65 + t.Choose(8)), 0, 0, 0}
		}
		for i := 0; i < len(v) && p+i < safeLimit; i++ {
			payload[p+i] = v[i]
		}
		fi.detail = fmt.Sprintf("%x at %d", v, p)
	case 10:
		fi.fault = "payload_insdel"
		if safeLimit == 0 {
			fi.fault = ""
			return raw
		}
		p := t.Choose(safeLimit)
		n := 1 + t.Choose(4)
		if t.Bool() {
			ins := t.Bytes(n)
			payload = append(payload[:p], append(ins, payload[p:]...)...)
			fi.detail = fmt.Sprintf("%d bytes inserted at %d", n, p)
		} else {
			if p+n > safeLimit {
				n = safeLimit - p
			}
			payload = append(payload[:p], payload[p+n:]...)
			fi.detail = fmt.Sprintf("%d bytes deleted at %d", n, p)
		}
	case 11:
		fi.fault = "retype"
		// a block tail is not reinterpreted (its count field is handled by ccmsg_sig_count)
		if _, ok := msg.(*mt.Block); ok {
			fi.fault = ""
			return raw
		}
		cmd = c24Types[t.Choose(len(c24Types)-1)]
		fi.detail = "sent as " + cmd
	case 13:
		// more list entries than the reader keeps (the writer does not refuse them)
		fi.fault = "over_limit_list"
		switch m := msg.(type) {
		case *mt.Addr:
			for n := p2pcomm.MAX_ADDR_NODE_CNT + 1 + t.Choose(6); len(m.NodeAddrs) < n; {
				m.NodeAddrs = append(m.NodeAddrs, p2pcomm.PeerAddr{Port: uint16(len(m.NodeAddrs))})
			}
			fi.detail = fmt.Sprintf("%d addresses", len(m.NodeAddrs))
		case *mt.Inv:
			for n := p2pcomm.MAX_INV_BLK_CNT + 1 + t.Choose(6); len(m.P.Blk) < n; {
				m.P.Blk = append(m.P.Blk, common.Uint256{byte(len(m.P.Blk))})
			}
			fi.detail = fmt.Sprintf("%d hashes", len(m.P.Blk))
		default:
			fi.fault = ""
			return raw
		}
		sink := common.NewZeroCopySink(nil)
		mt.WriteMessage(sink, msg)
		return append([]byte(nil), sink.Bytes()...)
	case 12:
		fi.fault = "ccmsg_sig_count"
		if sigLenOff < 0 {
			fi.fault = ""
			return raw
		}
		// replace the one-byte signature count of the CrossChainMsg (generated with < 0xFD signatures)
		var v []byte
		switch t.Choose(3) {
		case 0: // about 3 million: 24-byte slice headers, ~70 MiB pre-allocated
			v = make([]byte, 5)
			v[0] = 0xFE
			binary.LittleEndian.PutUint32(v[1:], uint32(2900000+t.Choose(100000)))
		case 1: // beyond what make() accepts: runtime panic
			v = make([]byte, 9)
			v[0] = 0xFF
			binary.LittleEndian.PutUint64(v[1:], 1<<63+uint64(t.Choose(1000)))
		default:
			v = make([]byte, 9)
			v[0] = 0xFF
			binary.LittleEndian.PutUint64(v[1:], 1<<50+uint64(t.Choose(1000)))
		}
		payload = append(payload[:sigLenOff], append(v, payload[sigLenOff+1:]...)...)
		fi.detail = fmt.Sprintf("count bytes %x", v)
	}
	return c24Frame(magic, cmd, payload)
}

func c24Min(a, b int) int {
	if a < b {
		return a
	}
	return b
}
