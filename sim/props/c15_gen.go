package props

// NeoVM program generator for C15: straight-line programs (plus fixed loop
// shapes) over maps, arrays and structs, hand-assembled. The generator keeps a
// static model of every container it builds (which keys, which element kinds,
// which containers reference which) so that programs are mostly valid, never
// build a reference cycle through an array/struct, and stay below the
// serialisation depth limit unless the program is of the "deep" class.

import (
	"fmt"
	"sort"
	"strings"

	"github.com/ontio/ontology/common"
	vm "github.com/ontio/ontology/vm/neovm"

	"ontosim/simkit"
)

const (
	c15TNone = iota
	c15TInt
	c15TBytes
	c15TBool
	c15TMap
	c15TArr
	c15TStruct
	c15TAny // a value whose kind the generator does not track (never inserted into containers)
)

var c15TNames = [...]string{"-", "int", "bytes", "bool", "map", "array", "struct", "any"}

// c15Lit is a primitive literal.
type c15Lit struct {
	typ   int // c15TInt, c15TBytes, c15TBool
	n     int64
	b     []byte
	typed bool // ints: produced by arithmetic, so the VM value is an integer even when not PUSHM1..PUSH16
}

// neo encoding of a small integer: minimal little-endian two's complement
func c15IntBytes(n int64) []byte {
	if n == 0 {
		return []byte{}
	}
	if n == -1 {
		return []byte{0xff}
	}
	var out []byte
	for v := n; v > 0; v >>= 8 {
		out = append(out, byte(v))
	}
	if out[len(out)-1]&0x80 != 0 {
		out = append(out, 0)
	}
	return out
}

// keyString is the map key the VM derives from the literal (VmValue.AsBytes).
func (l c15Lit) keyString() string {
	switch l.typ {
	case c15TInt:
		return string(c15IntBytes(l.n))
	case c15TBool:
		if l.n != 0 {
			return "\x01"
		}
		return "\x00"
	}
	return string(l.b)
}

func (l c15Lit) String() string {
	switch l.typ {
	case c15TInt:
		return fmt.Sprintf("%d", l.n)
	case c15TBool:
		if l.n != 0 {
			return "true"
		}
		return "false"
	}
	return fmt.Sprintf("x'%x'", l.b)
}

func (l c15Lit) emit(a *c05Asm) {
	switch l.typ {
	case c15TInt:
		a.pushInt(l.n)
		if l.n < -1 || l.n > 16 {
			a.op(vm.PUSH0, vm.ADD) // bytes -> integer
		}
	case c15TBool:
		if l.n != 0 {
			a.op(vm.PUSH0, vm.NOT)
		} else {
			a.op(vm.PUSH1, vm.NOT)
		}
	default:
		a.push(l.b)
	}
}

type c15Val struct {
	typ int
	obj int // index into objs for containers built by the generator, else -1
}

type c15Obj struct {
	kind int // c15TMap, c15TArr, c15TStruct
	keys []c15Lit
	vals []c15Val
	deep bool // built by the deep-class block: never inserted anywhere, never part of the return value
}

type c15Gen struct {
	c      *simkit.Ctx
	t      *simkit.Tape
	a      *c05Asm
	store  common.Address // the deployed storage contract
	objs   []*c15Obj
	locals []c15Val
	deepL  []bool // local derives from a deep container
	desc   []string
	nUser  int
	lblSeq int
	putSeq int

	deepClass bool
	// non-triviality
	bigMap     bool // a map with >= 2 entries existed
	consumer   bool // ... and an order-sensitive consumer was applied to a map with >= 2 entries
	usedOps    map[string]bool
	deepMapLoc int
	boundary   bool // deep class: the nesting is exactly where the detector's answer depends on the entry it visits
}

const (
	c15MaxDepth = 6 // containers nested below a local in ordinary programs
	c15Temps    = 3
)

func (g *c15Gen) tA() int   { return g.nUser }
func (g *c15Gen) tI() int   { return g.nUser + 1 }
func (g *c15Gen) tAcc() int { return g.nUser + 2 }

func (g *c15Gen) ld(i int) {
	g.a.op(vm.DUPFROMALTSTACK).pushInt(int64(i)).op(vm.PICKITEM)
}

func (g *c15Gen) st(i int) {
	g.a.op(vm.DUPFROMALTSTACK).pushInt(int64(i)).op(vm.ROT, vm.SETITEM)
}

func (g *c15Gen) label(s string) string {
	g.lblSeq++
	return fmt.Sprintf("%s%d", s, g.lblSeq)
}

func (g *c15Gen) newObj(kind int) int {
	g.objs = append(g.objs, &c15Obj{kind: kind})
	return len(g.objs) - 1
}

// ---- static graph helpers

func (g *c15Gen) depth(o int, seen map[int]bool) int {
	if seen[o] {
		return 1000 // a cycle
	}
	seen[o] = true
	d := 0
	for _, v := range g.objs[o].vals {
		if v.obj >= 0 {
			if x := g.depth(v.obj, seen); x > d {
				d = x
			}
		}
	}
	delete(seen, o)
	return d + 1
}

func (g *c15Gen) valDepth(v c15Val) int {
	if v.obj < 0 {
		return 0
	}
	return g.depth(v.obj, map[int]bool{})
}

func (g *c15Gen) reaches(from, to int) bool {
	seen := map[int]bool{}
	var walk func(o int) bool
	walk = func(o int) bool {
		if o == to {
			return true
		}
		if seen[o] {
			return false
		}
		seen[o] = true
		for _, v := range g.objs[o].vals {
			if v.obj >= 0 && walk(v.obj) {
				return true
			}
		}
		return false
	}
	return walk(from)
}

// depthTo: the longest chain of containers above target (0 when nothing refers to it).
func (g *c15Gen) depthTo(target int) int {
	best := 0
	var walk func(o, d int, seen map[int]bool)
	walk = func(o, d int, seen map[int]bool) {
		if o == target {
			if d > best {
				best = d
			}
			return
		}
		if seen[o] || d > 20 {
			return
		}
		seen[o] = true
		for _, v := range g.objs[o].vals {
			if v.obj >= 0 {
				walk(v.obj, d+1, seen)
			}
		}
		delete(seen, o)
	}
	for o := range g.objs {
		walk(o, 0, map[int]bool{})
	}
	return best
}

// cloneStruct models the VM's value semantics of structs (APPEND / SETITEM clone them).
func (g *c15Gen) cloneVal(v c15Val) c15Val {
	if v.typ != c15TStruct || v.obj < 0 {
		return v
	}
	n := g.newObj(c15TStruct)
	for _, e := range g.objs[v.obj].vals {
		g.objs[n].vals = append(g.objs[n].vals, g.cloneVal(e))
	}
	return c15Val{c15TStruct, n}
}

func (g *c15Gen) hasBigMap(o int, seen map[int]bool) bool {
	if seen[o] {
		return false
	}
	seen[o] = true
	if g.objs[o].kind == c15TMap && len(g.objs[o].keys) >= 2 {
		return true
	}
	for _, v := range g.objs[o].vals {
		if v.obj >= 0 && g.hasBigMap(v.obj, seen) {
			return true
		}
	}
	return false
}

func (g *c15Gen) hasMap(o int, seen map[int]bool) bool {
	if seen[o] {
		return false
	}
	seen[o] = true
	if g.objs[o].kind == c15TMap {
		return true
	}
	for _, v := range g.objs[o].vals {
		if v.obj >= 0 && g.hasMap(v.obj, seen) {
			return true
		}
	}
	return false
}

// consume notes that an order-sensitive consumer ran over local i.
func (g *c15Gen) consume(i int, op string) {
	g.usedOps[op] = true
	if v := g.locals[i]; v.obj >= 0 && g.hasBigMap(v.obj, map[int]bool{}) {
		g.consumer = true
	}
}

// ---- literals

func (g *c15Gen) lit() c15Lit {
	t := g.t
	switch t.Pick(4, 4, 1) {
	case 0:
		n := []int64{1, 0, 2, -1, 3, 7, 16, 255, 256, 65535}[t.Pick(4, 3, 3, 2, 2, 1, 1, 1, 1, 1)]
		return c15Lit{typ: c15TInt, n: n}
	case 1:
		pool := [][]byte{{'a'}, {'b'}, {}, {'a', 'b'}, {1}, {0}, {0xff}, {1, 0}, {'b', 'a'}, {'a', 0}, {0xff, 0}, {'z', 'z', 'z', 'z', 'z', 'z'}}
		return c15Lit{typ: c15TBytes, b: pool[t.Choose(len(pool))]}
	}
	return c15Lit{typ: c15TBool, n: int64(t.Choose(2))}
}

// distinctKeys returns n literals with pairwise different map keys, in the
// (tape-chosen) order they will be inserted.
func (g *c15Gen) distinctKeys(n int) []c15Lit {
	seen := map[string]bool{}
	var out []c15Lit
	for tries := 0; len(out) < n && tries < 8*n; tries++ {
		l := g.lit()
		if seen[l.keyString()] {
			continue
		}
		seen[l.keyString()] = true
		out = append(out, l)
	}
	// an exhausted (replayed) tape repeats one literal: fill up with fixed ones
	for _, x := range []int64{1, 2, 3, 7, 16, 255, 256, 65535, 0, -1} {
		if l := (c15Lit{typ: c15TInt, n: x}); len(out) < n && !seen[l.keyString()] {
			seen[l.keyString()] = true
			out = append(out, l)
		}
	}
	return out
}

// ---- value expressions: code that pushes one value; returns its static description.
// budget: how many more container levels the literal may nest; room: how many
// container levels the value may have in total (depth limit); forbid: the
// container (obj index, or -1) the value is going to be inserted into.
func (g *c15Gen) value(budget, room, forbid int, sb *strings.Builder) c15Val {
	t := g.t
	w := []int{6, 3, 2, 1, 2}
	if budget <= 0 || room <= 0 {
		w[2], w[3], w[4] = 0, 0, 0
	}
	switch t.Pick(w...) {
	case 1: // an existing local
		var cand []int
		for i := 0; i < g.nUser; i++ {
			v := g.locals[i]
			if v.typ == c15TNone || v.typ == c15TAny || g.deepL[i] {
				continue
			}
			if v.obj >= 0 {
				if g.valDepth(v) > room {
					continue
				}
				if forbid >= 0 && g.reaches(v.obj, forbid) {
					continue
				}
			}
			cand = append(cand, i)
		}
		if len(cand) > 0 {
			i := cand[t.Choose(len(cand))]
			g.ld(i)
			fmt.Fprintf(sb, "L%d", i)
			return g.locals[i]
		}
	case 2: // array literal (PACK: the item pushed last becomes element 0)
		n := t.Pick(1, 2, 3, 2, 1)
		o := g.newObj(c15TArr)
		sb.WriteString("[")
		vals := make([]c15Val, n)
		for i := n - 1; i >= 0; i-- {
			vals[i] = g.value(budget-1, room-1, forbid, sb)
			if i > 0 {
				sb.WriteString("<")
			}
		}
		sb.WriteString("]")
		g.a.pushInt(int64(n)).op(vm.PACK)
		g.objs[o].vals = vals
		return c15Val{c15TArr, o}
	case 3: // struct
		n := t.Pick(1, 2, 2, 1)
		o := g.newObj(c15TStruct)
		g.a.op(vm.PUSH0, vm.NEWSTRUCT)
		sb.WriteString("struct{")
		for i := 0; i < n; i++ {
			g.a.op(vm.DUP)
			v := g.value(budget-1, room-1, forbid, sb)
			g.a.op(vm.APPEND)
			g.objs[o].vals = append(g.objs[o].vals, g.cloneVal(v))
			if i < n-1 {
				sb.WriteString(",")
			}
		}
		sb.WriteString("}")
		return c15Val{c15TStruct, o}
	case 4: // map
		return g.mapLiteral(budget, room, forbid, sb)
	}
	l := g.lit()
	l.emit(g.a)
	sb.WriteString(l.String())
	return c15Val{l.typ, -1}
}

func (g *c15Gen) mapLiteral(budget, room, forbid int, sb *strings.Builder) c15Val {
	n := 2 + g.t.Pick(4, 4, 3, 2, 1, 1, 1) // 2..8 entries
	keys := g.distinctKeys(n)
	o := g.newObj(c15TMap)
	g.a.op(vm.NEWMAP)
	sb.WriteString("map{")
	for i, k := range keys {
		g.a.op(vm.DUP)
		k.emit(g.a)
		sb.WriteString(k.String() + ":")
		v := g.value(budget-1, room-1, forbid, sb)
		g.a.op(vm.SETITEM)
		g.objs[o].keys = append(g.objs[o].keys, k)
		g.objs[o].vals = append(g.objs[o].vals, g.cloneVal(v))
		if i < len(keys)-1 {
			sb.WriteString(",")
		}
	}
	sb.WriteString("}")
	if len(keys) >= 2 {
		g.bigMap = true
	}
	return c15Val{c15TMap, o}
}

func (g *c15Gen) mapSet(o int, k c15Lit, v c15Val) {
	ob := g.objs[o]
	for i, e := range ob.keys {
		if e.keyString() == k.keyString() {
			ob.keys[i], ob.vals[i] = k, v
			return
		}
	}
	ob.keys = append(ob.keys, k)
	ob.vals = append(ob.vals, v)
	if len(ob.keys) >= 2 {
		g.bigMap = true
	}
}

func (g *c15Gen) mapDel(o int, k c15Lit) {
	ob := g.objs[o]
	for i, e := range ob.keys {
		if e.keyString() == k.keyString() {
			ob.keys = append(ob.keys[:i], ob.keys[i+1:]...)
			ob.vals = append(ob.vals[:i], ob.vals[i+1:]...)
			return
		}
	}
}

// ---- locals

func (g *c15Gen) localsOf(types ...int) []int {
	var out []int
	for i := 0; i < g.nUser; i++ {
		for _, ty := range types {
			if g.locals[i].typ == ty {
				out = append(out, i)
			}
		}
	}
	return out
}

// target picks the local a result goes to: mostly one that is still unset, and
// rarely local 0 (the first map).
func (g *c15Gen) target() int {
	var unset []int
	for i := 1; i < g.nUser; i++ {
		if g.locals[i].typ == c15TNone {
			unset = append(unset, i)
		}
	}
	if len(unset) > 0 && g.t.Prob(3, 4) {
		return unset[g.t.Choose(len(unset))]
	}
	if g.t.Prob(1, 6) {
		return 0
	}
	return 1 + g.t.Choose(g.nUser-1)
}

func (g *c15Gen) set(i int, v c15Val, deep bool) {
	g.locals[i] = v
	g.deepL[i] = deep
}

func (g *c15Gen) say(format string, a ...interface{}) {
	g.desc = append(g.desc, fmt.Sprintf(format, a...))
}

// pickKeyOf: mostly a key the map has, sometimes any literal.
func (g *c15Gen) pickKeyOf(o int) c15Lit {
	ob := g.objs[o]
	if len(ob.keys) > 0 && g.t.Prob(5, 6) {
		return ob.keys[g.t.Choose(len(ob.keys))]
	}
	return g.lit()
}

// loopOver emits: for TI := 0; TI < size(TA); TI++ { body }, TA already stored.
func (g *c15Gen) loopOver(body func()) {
	a := g.a
	a.op(vm.PUSH0)
	g.st(g.tI())
	top, end := g.label("loop"), g.label("end")
	a.label(top)
	g.ld(g.tI())
	g.ld(g.tA())
	a.op(vm.ARRAYSIZE, vm.LT).jump(vm.JMPIFNOT, end)
	body()
	g.ld(g.tI())
	a.op(vm.INC)
	g.st(g.tI())
	a.jump(vm.JMP, top)
	a.label(end)
}

// hashFold: dst = fold over array in TA: acc = SHA1(acc || Serialize(elem)).
func (g *c15Gen) hashFold(dst int) {
	a := g.a
	a.push([]byte{})
	g.st(g.tAcc())
	g.loopOver(func() {
		g.ld(g.tAcc())
		g.ld(g.tA())
		g.ld(g.tI())
		a.op(vm.PICKITEM).syscall("System.Runtime.Serialize").op(vm.CAT, vm.SHA1)
		g.st(g.tAcc())
	})
	g.ld(g.tAcc())
	g.st(dst)
}

// statement emits one statement; false if nothing applicable was found.
func (g *c15Gen) statement() bool {
	t := g.t
	a := g.a
	maps := g.localsOf(c15TMap)
	arrs := g.localsOf(c15TArr)
	seqs := g.localsOf(c15TArr, c15TStruct)
	kind := t.Pick(6, 5, 2, 5, 4, 2, 3, 3, 2, 2, 3, 3, 2, 3, 2)
	switch kind {
	case 0: // L = value
		i := g.target()
		var sb strings.Builder
		v := g.value(2, c15MaxDepth, -1, &sb)
		g.st(i)
		g.set(i, g.cloneVal(v), false)
		g.say("L%d = %s", i, sb.String())
	case 1: // map[k] = value
		if len(maps) == 0 {
			return false
		}
		m := maps[t.Choose(len(maps))]
		if g.deepL[m] {
			return false
		}
		o := g.locals[m].obj
		k := g.pickKeyOf(o)
		if t.Prob(1, 3) {
			k = g.lit()
		}
		room := c15MaxDepth - g.depthTo(o) - 1
		var sb strings.Builder
		g.ld(m)
		k.emit(a)
		v := g.value(2, room, o, &sb)
		a.op(vm.SETITEM)
		g.mapSet(o, k, g.cloneVal(v))
		g.say("L%d[%s] = %s", m, k, sb.String())
	case 2: // remove a map key
		if len(maps) == 0 {
			return false
		}
		m := maps[t.Choose(len(maps))]
		o := g.locals[m].obj
		k := g.pickKeyOf(o)
		g.ld(m)
		k.emit(a)
		a.op(vm.REMOVE)
		g.mapDel(o, k)
		g.say("remove L%d[%s]", m, k)
	case 3: // KEYS / VALUES
		if len(maps) == 0 {
			return false
		}
		m, i := maps[t.Choose(len(maps))], g.target()
		o := g.locals[m].obj
		n := g.newObj(c15TArr)
		g.ld(m)
		if t.Bool() {
			a.op(vm.VALUES)
			g.objs[n].vals = append(g.objs[n].vals, g.objs[o].vals...)
			g.say("L%d = values(L%d)", i, m)
			g.consume(m, "VALUES")
		} else {
			a.op(vm.KEYS)
			for _, k := range g.objs[o].keys {
				g.objs[n].vals = append(g.objs[n].vals, c15Val{k.typ, -1})
			}
			g.say("L%d = keys(L%d)", i, m)
			g.consume(m, "KEYS")
		}
		g.st(i)
		g.set(i, c15Val{c15TArr, n}, g.deepL[m])
	case 4: // Serialize
		var src []int
		for i := 0; i < g.nUser; i++ {
			if g.locals[i].typ != c15TNone {
				src = append(src, i)
			}
		}
		if len(src) == 0 {
			return false
		}
		// prefer containers
		j := src[t.Choose(len(src))]
		if all := g.localsOf(c15TMap, c15TArr, c15TStruct); len(all) > 0 && t.Prob(3, 4) {
			j = all[t.Choose(len(all))]
		}
		i := g.target()
		g.ld(j)
		a.syscall("System.Runtime.Serialize")
		g.consume(j, "Serialize")
		g.st(i)
		g.set(i, c15Val{c15TBytes, -1}, false)
		g.say("L%d = serialize(L%d)", i, j)
	case 5: // Serialize then Deserialize: a fresh copy
		all := g.localsOf(c15TMap, c15TArr, c15TStruct)
		if len(all) == 0 {
			return false
		}
		j, i := all[t.Choose(len(all))], g.target()
		g.ld(j)
		a.syscall("System.Runtime.Serialize").syscall("System.Runtime.Deserialize")
		g.consume(j, "Deserialize")
		g.st(i)
		g.set(i, c15Val{c15TAny, -1}, g.deepL[j])
		g.say("L%d = deserialize(serialize(L%d))", i, j)
	case 6: // Notify
		var src []int
		for i := 0; i < g.nUser; i++ {
			v := g.locals[i]
			if v.typ == c15TNone {
				continue
			}
			// a map anywhere inside makes Notify fail (always): rarely
			if (v.typ == c15TAny || v.obj >= 0 && g.hasMap(v.obj, map[int]bool{})) && !t.Prob(1, 8) {
				continue
			}
			src = append(src, i)
		}
		if len(src) == 0 {
			return false
		}
		j := src[t.Choose(len(src))]
		g.ld(j)
		a.syscall("System.Runtime.Notify")
		g.usedOps["Notify"] = true
		g.say("notify(L%d)", j)
	case 7: // notify keys and values of a map
		if len(maps) == 0 {
			return false
		}
		m := maps[t.Choose(len(maps))]
		nested := g.deepL[m]
		for _, v := range g.objs[g.locals[m].obj].vals {
			if v.typ == c15TAny || v.obj >= 0 && g.hasMap(v.obj, map[int]bool{}) {
				nested = true
			}
		}
		if nested && !t.Prob(1, 8) { // Notify rejects maps: the values must not contain one (mostly)
			return false
		}
		g.ld(m)
		a.op(vm.VALUES)
		g.ld(m)
		a.op(vm.KEYS).op(vm.PUSH2, vm.PACK).syscall("System.Runtime.Notify")
		g.consume(m, "Notify")
		g.say("notify([keys(L%d), values(L%d)])", m, m)
	case 8: // HASKEY / PICKITEM on a map
		if len(maps) == 0 {
			return false
		}
		m, i := maps[t.Choose(len(maps))], g.target()
		o := g.locals[m].obj
		k := g.pickKeyOf(o)
		g.ld(m)
		k.emit(a)
		if t.Bool() {
			a.op(vm.HASKEY)
			g.st(i)
			g.set(i, c15Val{c15TBool, -1}, false)
			g.say("L%d = haskey(L%d, %s)", i, m, k)
		} else {
			a.op(vm.PICKITEM)
			g.st(i)
			res := c15Val{c15TAny, -1}
			for x, e := range g.objs[o].keys {
				if e.keyString() == k.keyString() {
					res = g.cloneVal(g.objs[o].vals[x])
				}
			}
			g.set(i, res, g.deepL[m])
			g.say("L%d = L%d[%s]", i, m, k)
		}
	case 9: // ARRAYSIZE (+ arithmetic)
		if len(arrs) == 0 {
			return false
		}
		j, i := arrs[t.Choose(len(arrs))], g.target()
		g.ld(j)
		a.op(vm.ARRAYSIZE).pushInt(int64(3 + t.Choose(5))).op(vm.MUL).pushInt(1).op(vm.ADD)
		g.st(i)
		g.set(i, c15Val{c15TInt, -1}, false)
		g.say("L%d = arraysize(L%d)*c+1", i, j)
	case 10: // APPEND / REVERSE / REMOVE on an array or struct
		if len(seqs) == 0 {
			return false
		}
		j := seqs[t.Choose(len(seqs))]
		if g.deepL[j] {
			return false
		}
		o := g.locals[j].obj
		ob := g.objs[o]
		switch t.Pick(3, 2, 1) {
		case 0:
			if len(ob.vals) >= 12 {
				return false
			}
			room := c15MaxDepth - g.depthTo(o) - 1
			var sb strings.Builder
			g.ld(j)
			v := g.value(1, room, o, &sb)
			a.op(vm.APPEND)
			ob.vals = append(ob.vals, g.cloneVal(v))
			g.say("append(L%d, %s)", j, sb.String())
		case 1:
			g.ld(j)
			a.op(vm.REVERSE)
			for x, y := 0, len(ob.vals)-1; x < y; x, y = x+1, y-1 {
				ob.vals[x], ob.vals[y] = ob.vals[y], ob.vals[x]
			}
			g.say("reverse(L%d)", j)
		default:
			if ob.kind != c15TArr || len(ob.vals) == 0 {
				return false
			}
			x := t.Choose(len(ob.vals))
			g.ld(j)
			a.pushInt(int64(x)).op(vm.REMOVE)
			ob.vals = append(ob.vals[:x], ob.vals[x+1:]...)
			g.say("remove L%d[%d]", j, x)
		}
	case 11: // hash fold over an array (element order matters)
		if len(arrs) == 0 {
			return false
		}
		j, i := arrs[t.Choose(len(arrs))], g.target()
		g.ld(j)
		g.st(g.tA())
		g.hashFold(i)
		g.consume(j, "fold")
		g.set(i, c15Val{c15TBytes, -1}, false)
		g.say("L%d = hashfold(L%d)", i, j)
	case 12: // iteration over a map: for k in KEYS(m): acc = SHA1(acc || ser(k) || ser(m[k]))
		if len(maps) == 0 {
			return false
		}
		m, i := maps[t.Choose(len(maps))], g.target()
		g.ld(m)
		a.op(vm.KEYS)
		g.st(g.tA())
		a.push([]byte{})
		g.st(g.tAcc())
		g.loopOver(func() {
			g.ld(g.tA())
			g.ld(g.tI())
			a.op(vm.PICKITEM, vm.DUP).syscall("System.Runtime.Serialize").op(vm.SWAP)
			g.ld(m)
			a.op(vm.SWAP, vm.PICKITEM).syscall("System.Runtime.Serialize").op(vm.CAT)
			g.ld(g.tAcc())
			a.op(vm.SWAP, vm.CAT, vm.SHA1)
			g.st(g.tAcc())
		})
		g.ld(g.tAcc())
		g.st(i)
		g.consume(m, "iterate")
		g.set(i, c15Val{c15TBytes, -1}, false)
		g.say("L%d = iterate(L%d)", i, m)
	case 13: // arithmetic fold over the keys of a map: acc = (acc*31 + key) mod p
		if len(maps) == 0 {
			return false
		}
		m, i := maps[t.Choose(len(maps))], g.target()
		g.ld(m)
		a.op(vm.KEYS)
		g.st(g.tA())
		a.op(vm.PUSH0)
		g.st(g.tAcc())
		g.loopOver(func() {
			g.ld(g.tAcc())
			a.pushInt(31).op(vm.MUL)
			g.ld(g.tA())
			g.ld(g.tI())
			a.op(vm.PICKITEM, vm.ADD).pushInt(1000003).op(vm.MOD)
			g.st(g.tAcc())
		})
		g.ld(g.tAcc())
		g.st(i)
		g.consume(m, "KEYS")
		g.set(i, c15Val{c15TInt, -1}, false)
		g.say("L%d = arithfold(keys(L%d))", i, m)
	case 14: // Storage.Put of the serialised value through the deployed contract, read back
		all := g.localsOf(c15TMap, c15TArr, c15TStruct)
		if len(all) == 0 {
			return false
		}
		j, i := all[t.Choose(len(all))], g.target()
		g.putSeq++
		key := []byte(fmt.Sprintf("k%d", g.putSeq%3))
		g.ld(j)
		a.syscall("System.Runtime.Serialize").push(key).appcall(g.store)
		// the callee got a copy of the stack; its return value is on top of ours now
		a.op(vm.NIP, vm.NIP)
		g.consume(j, "StoragePut")
		g.st(i)
		g.set(i, c15Val{c15TBytes, -1}, false)
		g.say("L%d = storage.put(%s, serialize(L%d)); get", i, key, j)
	}
	return true
}

// deepBlock (deep class only): a map with >= 2 entries one of whose values is
// nested to around the serialisation depth limit, or refers to the map itself;
// then serialised. Whether the limit is detected depends on which entry the
// detector looks at.
func (g *c15Gen) deepBlock() {
	t := g.t
	a := g.a
	m := g.target()
	n := 2 + t.Pick(4, 3, 2, 1)
	keys := g.distinctKeys(n)
	deepAt := t.Choose(len(keys))
	form := t.Pick(5, 3, 2) // chain of arrays; chain inside a nested 2-entry map; the map itself
	d := 8 + t.Choose(4)
	o := g.newObj(c15TMap)
	g.objs[o].deep = true
	a.op(vm.NEWMAP)
	var sb strings.Builder
	for i, k := range keys {
		a.op(vm.DUP)
		k.emit(a)
		sb.WriteString(k.String() + ":")
		switch {
		case i != deepAt:
			l := g.lit()
			l.emit(a)
			sb.WriteString(l.String())
		case form == 2:
			a.op(vm.OVER) // the map itself
			sb.WriteString("<this map>")
		default:
			g.lit().emit(a)
			for x := 0; x < d; x++ {
				a.op(vm.PUSH1, vm.PACK)
			}
			fmt.Fprintf(&sb, "chain%d", d)
			if form == 1 {
				// wrap: {inner-key-1: chain, inner-key-2: literal}
				ik := g.distinctKeys(2)
				a.op(vm.NEWMAP, vm.TUCK) // m' chain m'
				ik[0].emit(a)            // m' chain m' k
				a.op(vm.ROT, vm.SETITEM) // m' m' k chain -> m'
				a.op(vm.DUP)
				ik[1].emit(a)
				g.lit().emit(a)
				a.op(vm.SETITEM)
				sb.WriteString(" in map{" + ik[0].String() + ":..," + ik[1].String() + ":lit}")
			}
		}
		a.op(vm.SETITEM)
		g.objs[o].keys = append(g.objs[o].keys, k)
		g.objs[o].vals = append(g.objs[o].vals, c15Val{c15TAny, -1})
		if i < len(keys)-1 {
			sb.WriteString(",")
		}
	}
	g.st(m)
	g.set(m, c15Val{c15TMap, o}, true)
	g.bigMap = true
	g.deepMapLoc = m
	// the leaf sits at depth d+1 (d+2 inside the nested map) below the serialised map; the limit is 10
	g.boundary = form == 0 && d == 10 || form == 1 && (d == 9 || d == 10)
	g.say("L%d = map{%s}   (deep)", m, sb.String())
	i := g.target()
	for i == m {
		i = (i + 1) % g.nUser
	}
	g.ld(m)
	a.syscall("System.Runtime.Serialize")
	g.st(i)
	g.set(i, c15Val{c15TBytes, -1}, false)
	g.consumer = true
	g.usedOps["Serialize"] = true
	g.say("L%d = serialize(L%d)", i, m)
}

// wideBlock: a map of about MAX_ARRAY_SIZE (1024) entries, built in a loop
// with scrambled integer keys, then serialised (directly or inside an array).
// KEYS / VALUES cannot hold that many items, Runtime.Serialize can: the sorted
// key order has to hold on both sides of that bound. The map lives in a
// temporary, only the serialised bytes become a local.
func (g *c15Gen) wideBlock() {
	t := g.t
	a := g.a
	n := []int{1023, 1024, 1025, 1026, 1027 + t.Choose(40)}[t.Pick(1, 2, 4, 2, 3)]
	mul := 2 + t.Choose(5000)
	const p = 65521
	wrap := t.Prob(1, 3)
	a.op(vm.NEWMAP)
	g.st(g.tAcc())
	a.op(vm.PUSH0)
	g.st(g.tI())
	top, end := g.label("wide"), g.label("wend")
	a.label(top)
	g.ld(g.tI())
	a.pushInt(int64(n)).op(vm.LT).jump(vm.JMPIFNOT, end)
	g.ld(g.tAcc())
	g.ld(g.tI())
	a.pushInt(int64(mul)).op(vm.MUL).pushInt(p).op(vm.MOD)
	g.ld(g.tI())
	a.op(vm.SETITEM)
	g.ld(g.tI())
	a.op(vm.INC)
	g.st(g.tI())
	a.jump(vm.JMP, top)
	a.label(end)
	i := g.target()
	g.ld(g.tAcc())
	if wrap {
		a.op(vm.PUSH1, vm.PACK)
	}
	a.syscall("System.Runtime.Serialize")
	g.st(i)
	g.set(i, c15Val{c15TBytes, -1}, false)
	g.bigMap = true
	g.consumer = true
	g.usedOps["Serialize"] = true
	g.usedOps["wide"] = true
	g.say("L%d = serialize(%smap{(i*%d)%%%d: i | i < %d}%s)   (wide)", i, map[bool]string{true: "[", false: ""}[wrap], mul, p, n, map[bool]string{true: "]", false: ""}[wrap])
}

type c15Program struct {
	code      []byte
	desc      []string
	deepClass bool
	nontriv   bool // contained a map with >= 2 entries and an order-sensitive consumer of it
	boundary  bool // deep class, nested exactly to the limit: sampled until both outcomes are seen
	ops       []string
}

// c15Generate builds one program.
func c15Generate(c *simkit.Ctx, store common.Address, deepClass bool) *c15Program {
	t := c.Tape
	g := &c15Gen{c: c, t: t, a: newC05Asm(), store: store, deepClass: deepClass, usedOps: map[string]bool{}, deepMapLoc: -1}
	g.nUser = 3 + t.Choose(4)
	g.locals = make([]c15Val, g.nUser+c15Temps)
	g.deepL = make([]bool, g.nUser+c15Temps)
	g.a.pushInt(int64(g.nUser+c15Temps)).op(vm.NEWARRAY, vm.TOALTSTACK)
	// every program starts with a map
	{
		var sb strings.Builder
		v := g.mapLiteral(2, c15MaxDepth, -1, &sb)
		g.st(0)
		g.set(0, v, false)
		g.say("L0 = %s", sb.String())
	}
	nStmt := 2 + t.Choose(10)
	deepAt := -1
	if deepClass {
		deepAt = t.Choose(nStmt)
	}
	wideAt := -1
	if !deepClass && t.Prob(1, 6) {
		wideAt = t.Choose(nStmt)
	}
	for s := 0; s < nStmt; s++ {
		if s == deepAt {
			g.deepBlock()
			continue
		}
		if s == wideAt {
			g.wideBlock()
			continue
		}
		for tries := 0; tries < 4 && !g.statement(); tries++ {
		}
	}
	// return value: everything the program computed, serialised
	n := 0
	var names []string
	for i := 0; i < g.nUser; i++ {
		if g.locals[i].typ == c15TNone || g.deepL[i] {
			continue
		}
		g.ld(i)
		names = append(names, fmt.Sprintf("L%d", i))
		n++
	}
	g.a.pushInt(int64(n)).op(vm.PACK).syscall("System.Runtime.Serialize")
	for i := 0; i < g.nUser; i++ {
		if v := g.locals[i]; v.typ != c15TNone && !g.deepL[i] && v.obj >= 0 && g.hasBigMap(v.obj, map[int]bool{}) {
			g.consumer = true
			g.usedOps["Serialize"] = true
		}
	}
	g.say("return serialize([%s]) (last first)", strings.Join(names, ","))
	var ops []string
	for k := range g.usedOps {
		ops = append(ops, k)
	}
	sort.Strings(ops)
	return &c15Program{code: g.a.bytes(c), desc: g.desc, deepClass: deepClass, nontriv: g.bigMap && g.consumer, boundary: g.boundary, ops: ops}
}

// c15StoreContract: Storage.Put(key, value) then returns Storage.Get(key).
// Stack on entry (top first): key, value.
func c15StoreContract(c *simkit.Ctx) []byte {
	a := newC05Asm()
	a.op(vm.DUP, vm.TOALTSTACK)
	a.syscall("System.Storage.GetContext").syscall("System.Storage.Put")
	a.op(vm.FROMALTSTACK)
	a.syscall("System.Storage.GetContext").syscall("System.Storage.Get")
	a.op(vm.RET)
	a.raw(0x01, 0x15)
	return a.bytes(c)
}
