package props

import (
	"ontosim/simkit"
	"ontosim/world"
)

func init() {
	simkit.Register(&simkit.Prop{
		ID:   "C31",
		Desc: "commit consensus is declared only with a verifiable two-thirds signer quorum",
		Rule: "a run = N=4 (sometimes 7) real vbft servers sealing 2..3 heights under message reordering/loss with one Byzantine peer that injects commit messages claiming arbitrary endorser indices with junk signatures and endorses several proposals; at every quiescent point, for every honest node whose own commit-consensus predicate is true for its current round, the oracle recounts the distinct peers whose signature VERIFIES over a block hash of that proposer's proposal (proposer's own signature included) and requires N-(N-1)/3. non-trivial = the predicate was true at least once while a forged commit had been delivered, or >= 2 heights sealed; distinct = distinct event-trace hash",
		Real: vbftReal, Stub: vbftStub,
		Assumptions:    []string{"signatures are recounted with core/signature.Verify against the peers' configured public keys", "the proposer's signature on its own proposal counts as one signer"},
		ExpectedProbes: []string{"commit_done_evaluated"},
		MaxShrinkRuns:  60,
		Run:            runC31,
	})
}

func runC31(c *simkit.Ctx) {
	c.Bubble(func() {
		t := c.Tape
		n, cf := 4, 1
		switch t.Pick(10, 2, 2, 2) {
		case 1:
			n = 5 // quorum N-(N-1)/3 = 4
		case 2:
			n = 6 // quorum 5
		case 3:
			n, cf = 7, 2
		}
		o := vbftOpts{N: n, C: cf, MaxSteps: 7000, TargetHeight: uint32(2 + t.Choose(2)), Byz: -1}
		pickRate := func(rates ...int) int { return rates[t.Choose(len(rates))] }
		o.Drop = pickRate(0, 0, 50)
		o.Reorder = pickRate(0, 300, 700)
		sig := "honest-traffic"
		if t.Prob(1, 8) {
			// honest peers only, but nodes crash and restart (they fast-forward through what they missed)
			o.Restart = pickRate(2, 5)
			o.TimeSkip = pickRate(0, 20)
			o.TargetHeight = uint32(3 + t.Choose(3))
			o.MaxSteps = 12000
			c.Probe("honest_run_with_restarts")
		} else if t.Prob(3, 4) {
			o.Byz = t.Choose(n)
			o.ByzForgeCommit = pickRate(30, 100, 300)
			o.ByzDoubleEndorse = pickRate(0, 50)
			sig = "one-byzantine-peer"
		}
		c.Logf("config N=%d C=%d byz=%d forge=%d drop=%d reorder=%d", n, cf, o.Byz, o.ByzForgeCommit, o.Drop, o.Reorder)
		net := world.NewVbftNet(c, n, cf)
		for _, nd := range net.Nodes {
			c.Must(net.StartNode(nd), "start vbft server")
		}
		o.Inv = func(net *world.VbftNet, step int) { checkCommitQuorum(c, net, sig) }
		o.Stop = func() bool { return len(c.Known) > 0 }
		st := runVbft(c, net, o)
		c.Logf("end: steps=%d delivered=%d maxHeight=%d", st.Steps, st.Delivered, st.MaxHeight)
		c.State("c31", sig, st.MaxHeight)
		if st.MaxHeight >= 2 || c.Probes["commit_done_evaluated"] > 0 {
			c.NonTrivial()
		}
	})
}
