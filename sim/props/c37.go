package props

import (
	"bytes"
	"fmt"
	"github.com/ontio/ontology/common/simhook"
	"sort"
	"sync"
	"testing/synctest"
	"time"

	"github.com/anishathalye/porcupine"
	"github.com/ontio/ontology/common"
	pcom "github.com/ontio/ontology/p2pserver/common"
	"github.com/ontio/ontology/p2pserver/dht/kbucket"

	"ontosim/simkit"
)

// C37: the DHT routing table (kbucket.RouteTable) against a set model with the
// bucket-unfolding rule, operation by operation, and — for histories issued by
// 2-3 tasks whose operations overlap in time — linearizability of the recorded
// history against the same model.
func init() {
	simkit.Register(&simkit.Prop{
		ID:             "C37",
		Desc:           "DHT routing table: set model + structural invariants after every operation; overlapping multi-task histories linearizable",
		Rule:           "a run = one table (bucket size 2..4 from the tape; local id zero, ones or random) and a pool of 6..24 peer ids built from the tape with chosen common-prefix lengths with the local id (shallow 0..5, deep 150..159, any, clustered on one length, optionally the local id itself) whose tails are copies of an earlier id with one bit flipped, zero or random. Sequential variant (2 of 3 runs): 1..60 operations Update/Remove/NearestPeers/Find/Size by one task, every result and the whole structure (rt.Buckets, ListPeers, Size, callbacks) checked after each operation. Concurrent variant: 2..3 tasks issue <= 40 operations; the tape picks which task takes its next step (invoke / take effect / return), so operations overlap in time while each takes effect atomically; structure is checked after every effect and the (call, return) history must be linearizable (porcupine) against the model. non-trivial = at least one bucket unfolding happened and at least one Update was rejected or one peer removed; distinct = distinct event-trace hash",
		Real:           []string{"p2pserver/dht/kbucket.RouteTable (Update, Remove, NearestPeers, Find, Size, ListPeers, nextBucket)", "kbucket.Bucket (Split, MoveToFront, ...)", "kbucket peerDistanceSorter", "p2pserver/common.PeerId (Distance, CommonPrefixLen)"},
		Stub:           []string{"no network: peer ids are made by the harness through PeerId.Deserialization", "task interleaving is decided by the tape at operation granularity (operations are atomic under the table lock)"},
		Assumptions:    []string{"NearestPeers is required to return min(count, size) distinct members sorted by XOR distance whose leading part is exactly the nearest members of the target's own bucket (those are provably the closest); beyond that the code's documented 'good enough' choice among farther buckets is not judged", "a linearizability search that times out (2 s) is inconclusive, never a violation"},
		ExpectedProbes: []string{"bucket_unfolded", "update_rejected_full", "update_existing_moved", "multi_unfold", "deep_bucket_over_100", "local_id_inserted", "nearest_spans_buckets", "lin_checked"},
		Run:            runC37,
	})
}

type c37ID [20]byte

func c37Bit(b c37ID, i int) int { return int(b[i/8]>>(7-uint(i%8))) & 1 }
func c37Flip(b *c37ID, i int)   { b[i/8] ^= 1 << (7 - uint(i%8)) }

func c37Cpl(a, b c37ID) int {
	for i := 0; i < 160; i++ {
		if c37Bit(a, i) != c37Bit(b, i) {
			return i
		}
	}
	return 160
}

func c37Xor(a, b c37ID) (d c37ID) {
	for i := range a {
		d[i] = a[i] ^ b[i]
	}
	return
}

func c37Peer(b c37ID) pcom.PeerId {
	var id pcom.PeerId
	if err := id.Deserialization(common.NewZeroCopySource(b[:])); err != nil {
		panic(simkit.HarnessError{Msg: "PeerId.Deserialization: " + err.Error()})
	}
	return id
}

func c37Raw(id pcom.PeerId) (b c37ID) {
	sink := common.NewZeroCopySink(nil)
	id.Serialization(sink)
	copy(b[:], sink.Bytes())
	return
}

// c37Model is the reference: a set of pool indices plus the number of unfolded
// buckets, with the capacity/unfolding rule of a k-bucket table.
type c37Model struct {
	mask uint64 // members (pool indices)
	nb   int    // number of buckets
}

type c37World struct {
	bs    int
	local c37ID
	pool  []c37ID
	cpl   []int // cpl[i] = common prefix length of pool[i] with local
	peers []pcom.PeerId
	index map[c37ID]int
}

func (w *c37World) bucketOf(m c37Model, cpl int) int {
	if cpl >= m.nb {
		return m.nb - 1
	}
	return cpl
}

func (w *c37World) count(m c37Model, bucket int) int {
	n := 0
	for i := range w.pool {
		if m.mask&(1<<uint(i)) != 0 && w.bucketOf(m, w.cpl[i]) == bucket {
			n++
		}
	}
	return n
}

func (w *c37World) size(m c37Model) int {
	n := 0
	for i := range w.pool {
		if m.mask&(1<<uint(i)) != 0 {
			n++
		}
	}
	return n
}

// update returns the model's outcome of Update(pool[i]) and the next state.
func (w *c37World) update(m c37Model, i int) (ok bool, next c37Model) {
	if m.mask&(1<<uint(i)) != 0 {
		return true, m
	}
	b := w.bucketOf(m, w.cpl[i])
	if w.count(m, b) < w.bs {
		m.mask |= 1 << uint(i)
		return true, m
	}
	if b != m.nb-1 {
		return false, m
	}
	// unfold the last bucket until the new last bucket is not overflowing
	for {
		m.nb++
		if w.count(m, m.nb-1) < w.bs {
			break
		}
	}
	b = w.bucketOf(m, w.cpl[i])
	if w.count(m, b) >= w.bs {
		return false, m
	}
	m.mask |= 1 << uint(i)
	return true, m
}

// nearestOK judges a NearestPeers result against the model state; "" = allowed.
func (w *c37World) nearestOK(m c37Model, target c37ID, count int, got []int) string {
	size := w.size(m)
	want := count
	if size < want {
		want = size
	}
	if want < 0 {
		want = 0
	}
	if len(got) != want {
		return fmt.Sprintf("returned %d peers, table has %d, count %d", len(got), size, count)
	}
	seen := uint64(0)
	for k, i := range got {
		if i < 0 {
			return fmt.Sprintf("result %d is not a peer that was ever inserted", k)
		}
		if m.mask&(1<<uint(i)) == 0 {
			return fmt.Sprintf("result %d (peer %d) is not in the table", k, i)
		}
		if seen&(1<<uint(i)) != 0 {
			return fmt.Sprintf("peer %d returned twice", i)
		}
		seen |= 1 << uint(i)
		if k > 0 {
			a, b := c37Xor(target, w.pool[got[k-1]]), c37Xor(target, w.pool[i])
			if bytes.Compare(a[:], b[:]) > 0 {
				return fmt.Sprintf("not sorted by XOR distance: result %d (peer %d) is farther than result %d (peer %d)", k-1, got[k-1], k, i)
			}
		}
	}
	// the members of the target's own bucket are strictly closer than everybody else
	tb := w.bucketOf(m, c37Cpl(target, w.local))
	var own []int
	for i := range w.pool {
		if m.mask&(1<<uint(i)) != 0 && w.bucketOf(m, w.cpl[i]) == tb {
			own = append(own, i)
		}
	}
	sort.Slice(own, func(x, y int) bool {
		a, b := c37Xor(target, w.pool[own[x]]), c37Xor(target, w.pool[own[y]])
		return bytes.Compare(a[:], b[:]) < 0
	})
	for k := 0; k < len(own) && k < len(got); k++ {
		if got[k] != own[k] {
			return fmt.Sprintf("result %d is peer %d, but the %d nearest members of the target's bucket %d are %v", k, got[k], len(own), tb, own)
		}
	}
	return ""
}

type c37Table struct {
	c       *simkit.Ctx
	w       *c37World
	rt      *kbucket.RouteTable
	m       c37Model
	added   []int
	removed []int
	sig     string
}

func c37Addr(i int) string { return fmt.Sprintf("10.0.0.%d:20338", i) }

func (tb *c37Table) idx(id pcom.PeerId) int {
	if i, ok := tb.w.index[c37Raw(id)]; ok {
		return i
	}
	return -1
}

// checkStructure: every invariant of the statement plus agreement with the model.
func (tb *c37Table) checkStructure(after string) { tb.checkInvariants(after, true) }

// checkInvariants: the structural invariants of the statement; withModel adds agreement with the model.
func (tb *c37Table) checkInvariants(after string, withModel bool) {
	w, c := tb.w, tb.c
	seen := uint64(0)
	total := 0
	last := len(tb.rt.Buckets) - 1
	for bi, b := range tb.rt.Buckets {
		ps := b.Peers()
		if len(ps) != b.Len() {
			c.Fail("bucket-len-inconsistent", tb.sig, "after %s: bucket %d Len()=%d but lists %d peers", after, bi, b.Len(), len(ps))
		}
		if len(ps) > w.bs {
			c.Fail("bucket-over-size", tb.sig, "after %s: bucket %d holds %d peers, bucket size is %d", after, bi, len(ps), w.bs)
		}
		for _, p := range ps {
			i := tb.idx(p.ID)
			if i < 0 {
				c.Fail("unknown-peer-in-table", tb.sig, "after %s: bucket %d holds an id that was never inserted", after, bi)
			}
			if seen&(1<<uint(i)) != 0 {
				c.Fail("peer-twice", tb.sig, "after %s: peer %d appears more than once in the table (again in bucket %d)", after, i, bi)
			}
			seen |= 1 << uint(i)
			total++
			cpl := c37Cpl(w.pool[i], w.local)
			if !(bi == cpl || (bi == last && cpl >= last)) {
				c.Fail("peer-in-wrong-bucket", tb.sig, "after %s: peer %d with common prefix length %d sits in bucket %d of %d", after, i, cpl, bi, last+1)
			}
			if p.Address != c37Addr(i) {
				c.Fail("peer-address-wrong", tb.sig, "after %s: peer %d carries address %q", after, i, p.Address)
			}
		}
	}
	if !withModel {
		return
	}
	if seen != tb.m.mask {
		c.Fail("members-differ-from-model", tb.sig, "after %s: table members %b, set model %b", after, seen, tb.m.mask)
	}
	if len(tb.rt.Buckets) != tb.m.nb {
		c.Fail("bucket-count-differs-from-model", tb.sig, "after %s: table has %d buckets, the unfolding rule gives %d", after, len(tb.rt.Buckets), tb.m.nb)
	}
	if s := tb.rt.Size(); s != total {
		c.Fail("size-wrong", tb.sig, "after %s: Size()=%d, buckets hold %d", after, s, total)
	}
	lp := tb.rt.ListPeers()
	if len(lp) != total {
		c.Fail("listpeers-wrong", tb.sig, "after %s: ListPeers returns %d peers, buckets hold %d", after, len(lp), total)
	}
	ls := uint64(0)
	for _, p := range lp {
		if i := tb.idx(p.ID); i >= 0 {
			ls |= 1 << uint(i)
		}
	}
	if ls != seen {
		c.Fail("listpeers-wrong", tb.sig, "after %s: ListPeers members %b, buckets %b", after, ls, seen)
	}
}

// doUpdate applies Update(pool[i]) to table and model and compares.
func (tb *c37Table) doUpdate(i int) bool {
	w, c := tb.w, tb.c
	tb.added, tb.removed = nil, nil
	was := tb.m.mask&(1<<uint(i)) != 0
	nbBefore := tb.m.nb
	err := tb.rt.Update(w.peers[i], c37Addr(i))
	if err != nil && err != kbucket.ErrPeerRejectedNoCapacity {
		c.Fail("update-unexpected-error", tb.sig, "Update(peer %d): %v", i, err)
	}
	tb.checkInvariants(fmt.Sprintf("Update(p%d)", i), false)
	wantOK, next := w.update(tb.m, i)
	tb.m = next
	if (err == nil) != wantOK {
		c.Fail("update-outcome-differs-from-model", tb.sig, "Update(peer %d, cpl %d): table says %v, model (bucket size %d, %d buckets before) says accepted=%v", i, w.cpl[i], err, w.bs, nbBefore, wantOK)
	}
	tb.checkStructure(fmt.Sprintf("Update(p%d)", i))
	if tb.m.nb > nbBefore {
		c.Probe("bucket_unfolded")
		if tb.m.nb > nbBefore+1 {
			c.Probe("multi_unfold")
		}
		if tb.m.nb > 100 {
			c.Probe("deep_bucket_over_100")
		}
	}
	if err != nil {
		c.Probe("update_rejected_full")
		if len(tb.added) != 0 {
			c.Fail("callback-wrong", tb.sig, "Update(peer %d) was rejected but PeerAdded fired", i)
		}
		return false
	}
	if was {
		c.Probe("update_existing_moved")
	}
	if (!was && !(len(tb.added) == 1 && tb.added[0] == i)) || (was && len(tb.added) != 0) {
		c.Fail("callback-wrong", tb.sig, "Update(peer %d, already member=%v): PeerAdded fired for %v", i, was, tb.added)
	}
	// "adds or moves the given peer to the front of its respective bucket"
	b := tb.rt.Buckets[w.bucketOf(tb.m, w.cpl[i])]
	if ps := b.Peers(); len(ps) == 0 || tb.idx(ps[0].ID) != i {
		c.Fail("update-not-front", tb.sig, "after Update(peer %d, already member=%v) the peer is not at the front of its bucket", i, was)
	}
	if i == len(w.pool)-1 && w.cpl[i] == 160 {
		c.Probe("local_id_inserted")
	}
	return true
}

func (tb *c37Table) doRemove(i int) {
	tb.added, tb.removed = nil, nil
	was := tb.m.mask&(1<<uint(i)) != 0
	tb.rt.Remove(tb.w.peers[i])
	tb.m.mask &^= 1 << uint(i)
	if (was && !(len(tb.removed) == 1 && tb.removed[0] == i)) || (!was && len(tb.removed) != 0) {
		tb.c.Fail("callback-wrong", tb.sig, "Remove(peer %d, member=%v): PeerRemoved fired for %v", i, was, tb.removed)
	}
}

func (tb *c37Table) doNearest(target c37ID, count int) []int {
	res := tb.rt.NearestPeers(c37Peer(target), count)
	got := make([]int, len(res))
	for k, p := range res {
		got[k] = tb.idx(p.ID)
		if got[k] >= 0 && p.Address != c37Addr(got[k]) {
			tb.c.Fail("peer-address-wrong", tb.sig, "NearestPeers returns peer %d with address %q", got[k], p.Address)
		}
	}
	return got
}

func (tb *c37Table) doFind(i int) bool {
	p, ok := tb.rt.Find(tb.w.peers[i])
	if ok && (tb.idx(p.ID) != i || p.Address != c37Addr(i)) {
		tb.c.Fail("find-wrong", tb.sig, "Find(peer %d) returns peer %d address %q", i, tb.idx(p.ID), p.Address)
	}
	return ok
}

// c37Pool builds local id, bucket size and the peer pool from the tape.
func c37Pool(c *simkit.Ctx) *c37World {
	t := c.Tape
	w := &c37World{bs: 2 + t.Choose(3), index: map[c37ID]int{}}
	switch t.Pick(2, 1, 3) {
	case 1:
		for i := range w.local {
			w.local[i] = 0xff
		}
	case 2:
		copy(w.local[:], t.Bytes(20))
	}
	nc := 6 + t.Choose(19)
	withLocal := t.Prob(1, 10)
	rng := uint64(t.Choose(1<<30)) | 1
	next := func() uint64 { // xorshift seeded from the tape: tails of "random" ids
		rng ^= rng << 13
		rng ^= rng >> 7
		rng ^= rng << 17
		return rng
	}
	prevCpl := 0
	for len(w.pool) < nc {
		var cpl int
		switch t.Pick(3, 3, 2, 2, 1) {
		case 0:
			cpl = t.Choose(6)
		case 1:
			cpl = prevCpl
		case 2:
			cpl = 150 + t.Choose(10)
		case 3:
			cpl = t.Choose(160)
		default:
			cpl = prevCpl + 1
			if cpl > 159 {
				cpl = 159
			}
		}
		prevCpl = cpl
		id := w.local
		c37Flip(&id, cpl)
		switch t.Pick(2, 3, 2) {
		case 1: // tail of an earlier peer, one more bit flipped: long shared prefixes among peers
			if len(w.pool) > 0 {
				src := w.pool[t.Choose(len(w.pool))]
				for b := cpl + 1; b < 160; b++ {
					if c37Bit(src, b) != c37Bit(id, b) {
						c37Flip(&id, b)
					}
				}
			}
			if cpl < 159 {
				c37Flip(&id, 159-t.Choose(min(160-cpl-1, 12)))
			}
		case 2:
			for b := cpl + 1; b < 160; b++ {
				if next()&1 == 1 {
					c37Flip(&id, b)
				}
			}
		}
		if _, dup := w.index[id]; dup {
			// make it distinct deterministically: walk the low bits
			for b := 159; b > cpl; b-- {
				c37Flip(&id, b)
				if _, dup := w.index[id]; !dup {
					break
				}
			}
			if _, dup := w.index[id]; dup {
				continue
			}
		}
		w.index[id] = len(w.pool)
		w.pool = append(w.pool, id)
	}
	if withLocal {
		if _, dup := w.index[w.local]; !dup {
			w.index[w.local] = len(w.pool)
			w.pool = append(w.pool, w.local)
		}
	}
	for _, id := range w.pool {
		w.cpl = append(w.cpl, c37Cpl(id, w.local))
		p := c37Peer(id)
		if got := pcom.CommonPrefixLen(p, c37Peer(w.local)); got != w.cpl[len(w.cpl)-1] {
			c.Fail("common-prefix-len-wrong", "pool", "CommonPrefixLen gives %d, bitwise comparison %d", got, w.cpl[len(w.cpl)-1])
		}
		w.peers = append(w.peers, p)
	}
	c.Logf("bucket size %d, local %x, %d peers, cpl %v", w.bs, w.local[:4], len(w.pool), w.cpl)
	return w
}

func (w *c37World) target(t *simkit.Tape) (c37ID, string) {
	switch t.Pick(4, 1, 2) {
	case 1:
		return w.local, "local"
	case 2:
		id := w.pool[t.Choose(len(w.pool))]
		c37Flip(&id, 159-t.Choose(40))
		return id, fmt.Sprintf("near-%x", id[16:])
	}
	i := t.Choose(len(w.pool))
	return w.pool[i], fmt.Sprintf("p%d", i)
}

func newC37Table(c *simkit.Ctx, w *c37World, sig string) *c37Table {
	tb := &c37Table{c: c, w: w, sig: sig, m: c37Model{nb: 1}}
	tb.rt = kbucket.NewRoutingTable(w.bs, c37Peer(w.local))
	tb.rt.PeerAdded = func(id pcom.PeerId) { tb.added = append(tb.added, tb.idx(id)) }
	tb.rt.PeerRemoved = func(id pcom.PeerId) { tb.removed = append(tb.removed, tb.idx(id)) }
	return tb
}

func runC37(c *simkit.Ctx) {
	t := c.Tape
	variant := t.Choose(4)
	w := c37Pool(c)
	if variant == 2 {
		runC37Concurrent(c, w)
		return
	}
	if variant == 3 {
		runC37Parallel(c, w)
		return
	}
	tb := newC37Table(c, w, "sequential")
	nops := 1 + t.Choose(60)
	rejected, removed := 0, 0
	for op := 0; op < nops; op++ {
		switch t.Pick(7, 3, 3, 2, 1) {
		case 0:
			i := t.Choose(len(w.pool))
			ok := tb.doUpdate(i)
			c.Logf("U p%d -> %v (buckets %d)", i, ok, tb.m.nb)
			if !ok {
				rejected++
			}
		case 1:
			i := t.Choose(len(w.pool))
			if tb.m.mask&(1<<uint(i)) != 0 {
				removed++
			}
			tb.doRemove(i)
			c.Logf("R p%d", i)
			tb.checkStructure(fmt.Sprintf("Remove(p%d)", i))
		case 2:
			target, name := w.target(t)
			count := t.Choose(w.size(tb.m) + 3)
			if t.Prob(1, 8) {
				count = 20
			}
			got := tb.doNearest(target, count)
			c.Logf("N %s k=%d -> %v", name, count, got)
			if why := w.nearestOK(tb.m, target, count, got); why != "" {
				c.Fail("nearest-peers-wrong", tb.sig, "NearestPeers(%s, %d) = %v: %s", name, count, got, why)
			}
			if count > 0 && len(got) > w.count(tb.m, w.bucketOf(tb.m, c37Cpl(target, w.local))) {
				c.Probe("nearest_spans_buckets")
			}
		case 3:
			i := t.Choose(len(w.pool))
			ok := tb.doFind(i)
			c.Logf("F p%d -> %v", i, ok)
			if ok != (tb.m.mask&(1<<uint(i)) != 0) {
				c.Fail("find-wrong", tb.sig, "Find(peer %d) = %v, set model says member=%v", i, ok, !ok)
			}
		default:
			tb.checkStructure("Size/ListPeers")
			c.Logf("S -> %d", tb.rt.Size())
		}
	}
	c.State(w.bs, tb.m.nb, tb.m.mask)
	if tb.m.nb > 1 && (rejected > 0 || removed > 0) {
		c.NonTrivial()
	}
}

// ---- concurrent variant

type c37In struct {
	kind   int // 0 update, 1 remove, 2 nearest, 3 find, 4 size
	peer   int
	target c37ID
	count  int
}

type c37Out struct {
	ok  bool
	n   int
	ids string // result peers of NearestPeers, "3,1,4"
	got []int
}

type c37Task struct {
	phase  int // 0 idle, 1 invoked, 2 took effect
	in     c37In
	out    c37Out
	call   int64
	name   string
	issued int
}

func runC37Concurrent(c *simkit.Ctx, w *c37World) {
	t := c.Tape
	tb := newC37Table(c, w, "concurrent")
	ntasks := 2 + t.Choose(2)
	total := 4 + t.Choose(37)
	tasks := make([]*c37Task, ntasks)
	for i := range tasks {
		tasks[i] = &c37Task{}
	}
	var history []porcupine.Operation
	clock := int64(0)
	started, rejected, removed := 0, 0, 0
	for len(history) < total {
		// the tape picks which task takes its next step
		k := t.Choose(ntasks)
		tk := tasks[k]
		if tk.phase == 0 && started >= total {
			// nothing new to start: advance some task with an operation in flight
			for j := 0; j < ntasks; j++ {
				if tasks[(k+j)%ntasks].phase != 0 {
					k = (k + j) % ntasks
					tk = tasks[k]
					break
				}
			}
		}
		clock++
		switch tk.phase {
		case 0:
			in := c37In{kind: t.Pick(7, 3, 3, 2, 1)}
			switch in.kind {
			case 0, 1, 3:
				in.peer = t.Choose(len(w.pool))
				tk.name = fmt.Sprintf("%s p%d", [...]string{"U", "R", "", "F"}[in.kind], in.peer)
			case 2:
				var name string
				in.target, name = w.target(t)
				in.count = t.Choose(len(w.pool) + 2)
				tk.name = fmt.Sprintf("N %s k=%d", name, in.count)
			default:
				tk.name = "S"
			}
			tk.in, tk.call, tk.phase = in, clock, 1
			started++
			c.Logf("t%d invoke %s", k, tk.name)
		case 1:
			// the operation takes effect (atomically, under the table lock)
			switch tk.in.kind {
			case 0:
				tk.out = c37Out{ok: tb.doUpdate(tk.in.peer)}
				if !tk.out.ok {
					rejected++
				}
			case 1:
				if tb.m.mask&(1<<uint(tk.in.peer)) != 0 {
					removed++
				}
				tb.doRemove(tk.in.peer)
				tk.out = c37Out{}
			case 2:
				got := tb.doNearest(tk.in.target, tk.in.count)
				tk.out = c37Out{got: got, ids: fmt.Sprint(got)}
			case 3:
				tk.out = c37Out{ok: tb.doFind(tk.in.peer)}
			default:
				tk.out = c37Out{n: tb.rt.Size()}
			}
			tk.phase = 2
			c.Logf("t%d effect %s -> ok=%v n=%d %s", k, tk.name, tk.out.ok, tk.out.n, tk.out.ids)
			tb.checkStructure(tk.name)
		case 2:
			history = append(history, porcupine.Operation{ClientId: k, Input: tk.in, Call: tk.call, Output: tk.out, Return: clock})
			tk.phase = 0
			c.Logf("t%d return %s", k, tk.name)
		}
	}
	model := c37LinModel(w)
	overlaps := 0
	for i := range history {
		for j := i + 1; j < len(history); j++ {
			if history[i].Return >= history[j].Call && history[j].Return >= history[i].Call {
				overlaps++
			}
		}
	}
	res := porcupine.CheckOperationsTimeout(model, history, 2*time.Second)
	switch res {
	case porcupine.Illegal:
		c.Fail("not-linearizable", "concurrent", "the history of %d operations by %d tasks (%d overlapping pairs) has no linearization against the routing-table model", len(history), ntasks, overlaps)
	case porcupine.Unknown:
		c.Probe("lin_timeout")
	default:
		c.Probe("lin_checked")
	}
	c.Logf("history of %d operations, %d overlapping pairs: checked", len(history), overlaps)
	c.State("conc", w.bs, tb.m.nb, tb.m.mask)
	if tb.m.nb > 1 && (rejected > 0 || removed > 0) && overlaps > 0 {
		c.NonTrivial()
	}
}

// ---- parallel variant: real goroutines, the tape decides who gets the table lock

type c37PTask struct {
	id   int
	ops  []c37In
	step int
	done bool
}

// runC37Parallel: 2..3 goroutines call the real table concurrently. Every
// acquisition of the table lock is a scheduling point (hook H9): the calling
// goroutine parks there and the tape decides which one goes on, so whatever a
// caller computed before taking the lock can be overtaken by another caller's
// complete operation. The recorded (invoke, return) history must be
// linearizable against the model and the structure must be valid at the end.
func runC37Parallel(c *simkit.Ctx, w *c37World) {
	c.Bubble(func() {
		t := c.Tape
		tb := newC37Table(c, w, "parallel")
		ntasks := 2 + t.Choose(2)
		sched := &c36Sched{}
		var gids sync.Map
		var mu sync.Mutex
		var history []porcupine.Operation
		clock := int64(0)
		tick := func() int64 { mu.Lock(); defer mu.Unlock(); clock++; return clock }
		tasks := make([]*c37PTask, ntasks)
		for i := range tasks {
			tk := &c37PTask{id: i}
			for n := 2 + t.Choose(7); n > 0; n-- {
				in := c37In{kind: t.Pick(8, 3, 2, 2, 1)}
				switch in.kind {
				case 0, 1, 3:
					in.peer = t.Choose(len(w.pool))
				case 2:
					in.target, _ = w.target(t)
					in.count = t.Choose(len(w.pool) + 2)
				}
				tk.ops = append(tk.ops, in)
			}
			tasks[i] = tk
		}
		simhook.YieldFn = func(site string, a, b int) {
			v, ok := gids.Load(simkit.GoID())
			if !ok {
				return
			}
			tk := v.(*c37PTask)
			tk.step++
			sched.park(tk.id, 0, tk.step, "lock", nil)
		}
		c.Defer(func() { simhook.YieldFn = nil })
		for _, tk := range tasks {
			tk := tk
			go func() {
				gids.Store(simkit.GoID(), tk)
				for _, in := range tk.ops {
					tk.step++
					sched.park(tk.id, 0, tk.step, "invoke", nil)
					call := tick()
					var out c37Out
					switch in.kind {
					case 0:
						err := tb.rt.Update(w.peers[in.peer], c37Addr(in.peer))
						out.ok = err == nil
					case 1:
						tb.rt.Remove(w.peers[in.peer])
					case 2:
						for _, p := range tb.rt.NearestPeers(c37Peer(in.target), in.count) {
							out.got = append(out.got, tb.idx(p.ID))
						}
						out.ids = fmt.Sprint(out.got)
					case 3:
						_, out.ok = tb.rt.Find(w.peers[in.peer])
					default:
						out.n = tb.rt.Size()
					}
					ret := tick()
					mu.Lock()
					history = append(history, porcupine.Operation{ClientId: tk.id, Input: in, Call: call, Output: out, Return: ret})
					mu.Unlock()
				}
				mu.Lock()
				tk.done = true
				mu.Unlock()
			}()
		}
		steps := 0
		for ; steps < 4000; steps++ {
			synctest.Wait()
			en, _ := sched.enabledGates()
			if len(en) == 0 {
				break
			}
			g := en[t.Choose(len(en))]
			c.Logf("s%d T%d %s", steps, g.task, g.kind)
			sched.release(g)
		}
		synctest.Wait()
		for _, tk := range tasks {
			if !tk.done {
				c.Harness("c37 parallel: task %d did not finish in %d steps", tk.id, steps)
			}
		}
		simhook.YieldFn = nil
		tb.checkInvariants("the parallel operations", false)
		overlaps := 0
		for i := range history {
			for j := i + 1; j < len(history); j++ {
				if history[i].Return >= history[j].Call && history[j].Return >= history[i].Call {
					overlaps++
				}
			}
		}
		res := porcupine.CheckOperationsTimeout(c37LinModel(w), history, 2*time.Second)
		switch res {
		case porcupine.Illegal:
			c.Fail("not-linearizable", "parallel", "the history of %d operations by %d goroutines scheduled at the table lock (%d overlapping pairs) has no linearization against the routing-table model", len(history), ntasks, overlaps)
		case porcupine.Unknown:
			c.Probe("lin_timeout")
		default:
			c.Probe("lin_checked_parallel")
		}
		c.Logf("parallel history of %d operations, %d overlapping pairs: checked", len(history), overlaps)
		c.State("par", w.bs, len(tb.rt.Buckets), tb.rt.Size())
		if len(tb.rt.Buckets) > 1 && overlaps > 0 {
			c.NonTrivial()
		}
	})
}

func c37LinModel(w *c37World) porcupine.Model {
	return porcupine.Model{
		Init: func() interface{} { return c37Model{nb: 1} },
		Step: func(state, input, output interface{}) (bool, interface{}) {
			m, in, out := state.(c37Model), input.(c37In), output.(c37Out)
			switch in.kind {
			case 0:
				ok, next := w.update(m, in.peer)
				return ok == out.ok, next
			case 1:
				m.mask &^= 1 << uint(in.peer)
				return true, m
			case 2:
				return w.nearestOK(m, in.target, in.count, out.got) == "", m
			case 3:
				return out.ok == (m.mask&(1<<uint(in.peer)) != 0), m
			default:
				return out.n == w.size(m), m
			}
		},
		Equal: func(a, b interface{}) bool { return a.(c37Model) == b.(c37Model) },
	}
}
