package props

import (
	"bytes"
	"sort"
	"strings"

	ethcomm "github.com/ethereum/go-ethereum/common"
	"github.com/ontio/ontology/common"
	"github.com/ontio/ontology/core/types"

	"ontosim/simkit"
	"ontosim/world"
)

var clusterReal = []string{"core/types transaction+block codecs", "core/validation.VerifyTransaction on the consensus member", "p2pserver/message/types Block message codec for every block on the wire", "core/store/ledgerstore (ExecuteBlock/SubmitBlock on A, AddBlock on syncing nodes)", "smartcontract + NeoVM + EVM + native ONT/ONG", "core/program, core/signature, ontology-crypto"}
var clusterStub = []string{"block sync driver (harness calls AddBlock exactly as protocols/block_sync does)", "solo block producer", "clients (harness builds and signs transactions, also by hand-assembled scripts)", "wasm JIT"}

func init() {
	simkit.Register(&simkit.Prop{
		ID:   "C02",
		Desc: "every node derives the same state from the same blocks, validated or synced",
		Rule: "a run = consensus member A + 2 syncing nodes; 3..10 blocks of 0..5 client transactions delivered as BYTES (native ONT/ONG transfers, deploys, NeoVM programs building and serialising maps, CheckWitness probes over every address derivable from the parties' keys, EIP-155 transfers) signed by 1..3 parties drawn from single keys of every scheme (ECDSA P-224/256/384/521, SM2, Ed25519, Ethereum-type secp256k1) and m-of-n groups; in a third of the signature sets the client uses a non-canonical but accepted script (any key order, any accepted key encoding). A validates and executes; B, C decode the serialised block and AddBlock it with A's state root; one syncing node is restarted at tape-chosen points. Oracle per height: AddBlock succeeds, state roots of all heights and full content of all four stores equal. non-trivial = >= 3 blocks carrying accepted transactions; distinct = distinct event-trace hash",
		Real: clusterReal, Stub: clusterStub,
		Assumptions: []string{"Go map order is sampled by running three nodes (and R repeated executions in C15), not controlled", "transactions rejected by A's validator never reach a block"},
		Run:         func(c *simkit.Ctx) { runCluster(c, false) },
	})
	simkit.Register(&simkit.Prop{
		ID:   "C17",
		Desc: "a transaction authorises the same accounts on every node",
		Rule: "same traffic as C02; for every transaction A's validator accepts: the signer set the validator established (SignedAddr) must equal, as a set, the set a node that did not validate derives from the same bytes (GetSignatureAddresses on a fresh decode), and two fresh decodes must agree (function of the bytes alone). non-trivial = >= 5 accepted Ontology-format transactions of which >= 1 multi-signature or non-canonical; distinct = distinct event-trace hash",
		Real: clusterReal, Stub: clusterStub,
		Run: func(c *simkit.Ctx) { runCluster(c, true) },
	})
}

func addrSet(a []common.Address) []common.Address {
	seen := map[common.Address]bool{}
	var out []common.Address
	for _, x := range a {
		if !seen[x] {
			seen[x] = true
			out = append(out, x)
		}
	}
	sort.Slice(out, func(i, j int) bool { return bytes.Compare(out[i][:], out[j][:]) < 0 })
	return out
}

func runCluster(c *simkit.Ctx, c17 bool) {
	c.Bubble(func() {
		t := c.Tape
		// half of the runs use only what wallets produce (canonical scripts, no
		// Ethereum-type key in an Ontology-format transaction): there every node
		// must agree unconditionally; the other half uses everything the decoder accepts
		strict := t.Bool()
		w := newClWorld(c, 2)
		w.strict = strict
		c.Logf("mode strict=%v", strict)
		w.fund()
		if len(c.Known) > 0 {
			return
		}
		nBlocks := 3 + t.Choose(8)
		withTx, accepted, special := 0, 0, 0
		seenHash := map[common.Uint256]bool{}
		for b := 0; b < nBlocks; b++ {
			n := t.Pick(1, 2, 3, 2, 1, 1)
			var txs []*types.Transaction
			var descs []string
			for i := 0; i < n; i++ {
				var raw []byte
				var desc string
				if i > 0 && t.Prob(1, 6) {
					raw, desc = w.genResigned()
				}
				if raw == nil {
					raw, desc = w.genTxBytes(!strict)
				} else {
					c.Probe("same_body_other_signers")
				}
				tx, why := acceptTx(raw)
				if tx == nil {
					c.Logf("tx rejected (%s): %s", why, desc)
					c.Probe("tx_rejected_by_validator")
					continue
				}
				c.Logf("tx accepted: %s", desc)
				accepted++
				if c17 && !tx.IsEipTx() {
					// what a node that did not validate derives from the same bytes
					fresh, err := types.TransactionFromRawBytes(append([]byte(nil), raw...))
					c.Must(err, "second decode")
					fresh2, _ := types.TransactionFromRawBytes(append([]byte(nil), raw...))
					va := addrSet(tx.SignedAddr)
					sa := addrSet(fresh.GetSignatureAddresses())
					sb := addrSet(fresh2.GetSignatureAddresses())
					if len(tx.Sigs) > 1 || clDivergenceSig(w, &types.Block{Transactions: []*types.Transaction{tx}}) != "canonical-scripts" {
						special++
					}
					if !sameAddrs(sa, sb) {
						c.Fail("signers-not-a-function-of-bytes", "decode-twice", "two decodes of the same bytes give %x and %x", sa, sb)
					}
					if !sameAddrs(va, sa) {
						c.FailSoft("signer-set-differs-validator-vs-sync", clDivergenceSig(w, &types.Block{Transactions: []*types.Transaction{tx}}),
							"%s: the validator established signers %x, a node that received the sealed transaction derives %x", desc, va, sa)
						return
					}
				}
				if seenHash[tx.Hash()] {
					continue // the pool keeps one transaction per hash: a proposer never puts both into the chain
				}
				seenHash[tx.Hash()] = true
				txs = append(txs, tx)
				descs = append(descs, desc)
			}
			if len(txs) > 0 {
				withTx++
			}
			w.pendingEth = map[ethcomm.Address]uint64{}
			if !c17 || t.Prob(1, 3) {
				w.commitAndSync(txs, "block")
				if len(c.Known) > 0 {
					return // nodes have diverged (known finding): nothing after it can be judged
				}
				// reach: did fee-paying transactions and price changes really execute
				for i, tx := range txs {
					nt, err := w.A.Store.GetEventNotifyByTx(tx.Hash())
					if err != nil || nt == nil {
						continue
					}
					if strings.HasPrefix(descs[i], "setGlobalParam") || strings.HasPrefix(descs[i], "createSnapshot") {
						c.Logf("%s -> state %d", descs[i], nt.State)
					}
					switch {
					case strings.HasPrefix(descs[i], "setGlobalParam") && nt.State == 1:
						c.Probe("price_change_prepared")
						w.prepared = true
					case strings.HasPrefix(descs[i], "createSnapshot") && nt.State == 1 && w.prepared:
						c.Probe("price_change_activated")
						w.repriced = true
					case tx.GasPrice > 0 && nt.GasConsumed > 0:
						c.Probe("fee_paid")
						if w.repriced && nt.GasConsumed > 20000*tx.GasPrice {
							c.Probe("fee_above_minimum_after_price_change")
						}
					}
				}
			}
			if !c17 && t.Prob(1, 6) {
				s := w.Sync[t.Choose(len(w.Sync))]
				c.Fault("sync_node_restart")
				c.Logf("restart %s", s.Name)
				s.Close()
				world.Quiesce()
				s.Disk.Restart()
				if err := s.Open(); err != nil {
					c.Fail("sync-node-reopen-fails", "cluster", "%s: %v", s.Name, err)
				}
			}
		}
		if c17 {
			if accepted >= 5 && special >= 1 {
				c.NonTrivial()
			}
		} else if withTx >= 3 {
			c.NonTrivial()
		}
	})
}

func sameAddrs(a, b []common.Address) bool {
	if len(a) != len(b) {
		return false
	}
	for i := range a {
		if a[i] != b[i] {
			return false
		}
	}
	return true
}
