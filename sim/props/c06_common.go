package props

// Helpers shared by C05 and C06: an independent reading of the native token
// contracts' storage (ONT, ONG), signing parties, native-call builders and
// queries through the node's own pre-execution API.

import (
	"encoding/hex"
	"fmt"
	"math/big"
	"sort"

	"github.com/ontio/ontology-crypto/keypair"
	"github.com/ontio/ontology/account"
	"github.com/ontio/ontology/common"
	scom "github.com/ontio/ontology/core/store/common"
	"github.com/ontio/ontology/core/types"
	"github.com/ontio/ontology/smartcontract/event"
	"github.com/ontio/ontology/smartcontract/service/native/ont"
	nutils "github.com/ontio/ontology/smartcontract/service/native/utils"

	"ontosim/simkit"
	"ontosim/world"
)

const (
	tokONT = 0
	tokONG = 1
)

var tokNames = [2]string{"ont", "ong"}

func tokContract(tok int) common.Address {
	if tok == tokONG {
		return nutils.OngContractAddress
	}
	return nutils.OntContractAddress
}

// tokScale: one unit of the old (V1) interface is 10^9 units of the V2
// interface, for both tokens (ONT 0 -> 9 decimals, ONG 9 -> 18 decimals).
var tokScale = big.NewInt(1000000000)

// tokParty is an address that can appear in a call; sign == nil for
// addresses nobody holds a key for (the native contracts' own addresses).
type tokParty struct {
	name string
	addr common.Address
	sign func(m *types.MutableTransaction) error
}

func tokSingle(name string, a *account.Account) *tokParty {
	return &tokParty{name: name, addr: a.Address, sign: func(m *types.MutableTransaction) error { return world.Sign(m, a) }}
}

// tokMulti is an m-of-n account; the first m keys sign.
func tokMulti(c *simkit.Ctx, name string, m int, keys []*account.Account) *tokParty {
	pubs := make([]keypair.PublicKey, len(keys))
	for i, k := range keys {
		pubs[i] = k.PublicKey
	}
	addr, err := types.AddressFromMultiPubKeys(pubs, m)
	c.Must(err, "multisig address")
	return &tokParty{name: name, addr: addr, sign: func(tx *types.MutableTransaction) error {
		return world.MultiSign(tx, uint16(m), pubs, keys[:m])
	}}
}

func tokNoKey(name string, addr common.Address) *tokParty { return &tokParty{name: name, addr: addr} }

// tokSeal signs m with the given parties (in order) and converts it to the
// immutable form a node receives. It also checks, on the immutable
// transaction, that the witnessed addresses are exactly the signers'
// addresses (the authorisation model of the oracles rests on this).
func tokSeal(c *simkit.Ctx, m *types.MutableTransaction, signers []*tokParty) *types.Transaction {
	for _, s := range signers {
		if s.sign == nil {
			c.Harness("party %s cannot sign", s.name)
		}
		c.Must(s.sign(m), "sign")
	}
	tx, err := world.Seal(m)
	c.Must(err, "seal")
	got := tx.GetSignatureAddresses()
	if len(got) != len(signers) {
		c.Harness("sealed tx has %d witnesses, %d signers", len(got), len(signers))
	}
	for i := range got {
		if got[i] != signers[i].addr {
			c.Harness("witness %d is %x, signer %s is %x", i, got[i], signers[i].name, signers[i].addr)
		}
	}
	return tx
}

// tokXfer / tokXferFrom mirror the argument layout of the native token
// methods; the amount is a plain big integer in the unit of the method used
// (V1 or V2), so the harness never goes through the implementation's own
// balance type.
type tokXfer struct {
	From  common.Address
	To    common.Address
	Value *big.Int
}

// tokPair is the argument of allowance/allowanceV2.
type tokPair struct{ Owner, Spender common.Address }

type tokXferFrom struct {
	Sender common.Address
	From   common.Address
	To     common.Address
	Value  *big.Int
}

// ---------------------------------------------------------------- storage view

// tokView is the content of the two token contracts' storage decoded by the
// harness: every balance entry and every allowance entry, in V2 units.
type tokView struct {
	bal   [2]map[common.Address]*big.Int
	allow [2]map[[2]common.Address]*big.Int // [owner, spender]
	// other storage keys of the two contracts (offsets, total supply), raw
	other map[string][]byte
}

func newTokView() *tokView {
	v := &tokView{other: map[string][]byte{}}
	for t := 0; t < 2; t++ {
		v.bal[t] = map[common.Address]*big.Int{}
		v.allow[t] = map[[2]common.Address]*big.Int{}
	}
	return v
}

// tokDecodeAmount decodes a stored token amount: one version byte, a
// var-length byte string; version 0 = 8-byte little-endian count of V1 units,
// version 1 = little-endian two's-complement count of V2 units.
func tokDecodeAmount(val []byte) (*big.Int, error) {
	if len(val) < 2 {
		return nil, fmt.Errorf("short item %x", val)
	}
	ver := val[0]
	body := val[1:]
	var n uint64
	switch {
	case body[0] < 0xfd:
		n = uint64(body[0])
		body = body[1:]
	case body[0] == 0xfd && len(body) >= 3:
		n = uint64(body[1]) | uint64(body[2])<<8
		body = body[3:]
	default:
		return nil, fmt.Errorf("unexpected length prefix in %x", val)
	}
	if uint64(len(body)) != n {
		return nil, fmt.Errorf("length %d does not match body of %x", n, val)
	}
	switch ver {
	case 0:
		if n != 8 {
			return nil, fmt.Errorf("version-0 amount with %d bytes: %x", n, val)
		}
		var u uint64
		for i := 7; i >= 0; i-- {
			u = u<<8 | uint64(body[i])
		}
		return new(big.Int).Mul(new(big.Int).SetUint64(u), tokScale), nil
	case 1:
		return tokLE(body), nil
	}
	return nil, fmt.Errorf("unknown item version %d: %x", ver, val)
}

// tokLE decodes a little-endian two's-complement integer.
func tokLE(b []byte) *big.Int {
	if len(b) == 0 {
		return new(big.Int)
	}
	be := make([]byte, len(b))
	for i := range b {
		be[len(b)-1-i] = b[i]
	}
	v := new(big.Int).SetBytes(be)
	if b[len(b)-1]&0x80 != 0 {
		v.Sub(v, new(big.Int).Lsh(big.NewInt(1), uint(8*len(b))))
	}
	return v
}

// tokScan decodes every balance / allowance entry of both token contracts
// out of a dump of the state store. The key layout is the contracts' own:
// storage prefix, contract address, then owner (balance) or owner+spender
// (allowance); the probe keys below are built with the contracts' key
// functions and checked against that layout once per process.
func tokScan(kvs []simkit.KV) (*tokView, error) {
	v := newTokView()
	for _, kv := range kvs {
		if len(kv.K) < 21 || kv.K[0] != byte(scom.ST_STORAGE) {
			continue
		}
		var ca common.Address
		copy(ca[:], kv.K[1:21])
		tok := -1
		if ca == nutils.OntContractAddress {
			tok = tokONT
		} else if ca == nutils.OngContractAddress {
			tok = tokONG
		}
		if tok < 0 {
			continue
		}
		rest := kv.K[21:]
		switch len(rest) {
		case 20:
			var a common.Address
			copy(a[:], rest)
			amt, err := tokDecodeAmount(kv.V)
			if err != nil {
				return nil, fmt.Errorf("%s balance of %x: %v", tokNames[tok], a, err)
			}
			v.bal[tok][a] = amt
		case 40:
			var p [2]common.Address
			copy(p[0][:], rest[:20])
			copy(p[1][:], rest[20:])
			amt, err := tokDecodeAmount(kv.V)
			if err != nil {
				return nil, fmt.Errorf("%s allowance %x->%x: %v", tokNames[tok], p[0], p[1], err)
			}
			v.allow[tok][p] = amt
		default:
			v.other[string(kv.K)] = kv.V
		}
	}
	return v, nil
}

var tokLayoutChecked bool

// tokCheckLayout makes sure the assumed key layout is the contracts' own.
func tokCheckLayout(c *simkit.Ctx) {
	if tokLayoutChecked {
		return
	}
	var a, b common.Address
	for i := range a {
		a[i] = byte(i + 1)
		b[i] = byte(0xA0 + i)
	}
	for t := 0; t < 2; t++ {
		ca := tokContract(t)
		bk := ont.GenBalanceKey(ca, a)
		ak := ont.GenApproveKey(ca, a, b)
		if len(bk) != 40 || string(bk[:20]) != string(ca[:]) || string(bk[20:]) != string(a[:]) ||
			len(ak) != 60 || string(ak[:20]) != string(ca[:]) || string(ak[20:40]) != string(a[:]) || string(ak[40:]) != string(b[:]) {
			c.Harness("token storage key layout is not contract|owner[|spender]")
		}
	}
	tokLayoutChecked = true
}

func tokSum(m map[common.Address]*big.Int) *big.Int {
	s := new(big.Int)
	for _, v := range m {
		s.Add(s, v)
	}
	return s
}

func tokGet(m map[common.Address]*big.Int, a common.Address) *big.Int {
	if v, ok := m[a]; ok {
		return v
	}
	return new(big.Int)
}

func tokGetPair(m map[[2]common.Address]*big.Int, o, s common.Address) *big.Int {
	if v, ok := m[[2]common.Address{o, s}]; ok {
		return v
	}
	return new(big.Int)
}

func tokSortedAddrs(ms ...map[common.Address]*big.Int) []common.Address {
	seen := map[common.Address]bool{}
	var out []common.Address
	for _, m := range ms {
		for a := range m {
			if !seen[a] {
				seen[a] = true
				out = append(out, a)
			}
		}
	}
	sort.Slice(out, func(i, j int) bool { return string(out[i][:]) < string(out[j][:]) })
	return out
}

func tokSortedPairs(ms ...map[[2]common.Address]*big.Int) [][2]common.Address {
	seen := map[[2]common.Address]bool{}
	var out [][2]common.Address
	for _, m := range ms {
		for a := range m {
			if !seen[a] {
				seen[a] = true
				out = append(out, a)
			}
		}
	}
	sort.Slice(out, func(i, j int) bool {
		return string(out[i][0][:])+string(out[i][1][:]) < string(out[j][0][:])+string(out[j][1][:])
	})
	return out
}

// tokDumpView dumps the node's state store and decodes the token entries.
func tokDumpView(c *simkit.Ctx, ch *world.Chain) ([]simkit.KV, *tokView) {
	kvs, err := ch.Disk.DumpStore("states")
	c.Must(err, "dump state store")
	v, err := tokScan(kvs)
	if err != nil {
		c.Fail("undecodable-token-entry", "storage", "%v", err)
	}
	return kvs, v
}

// ---------------------------------------------------------------- queries

// tokQuery pre-executes a read-only method of a token contract on the node
// and returns the integer it answers.
func tokQuery(c *simkit.Ctx, ch *world.Chain, tok int, method string, args ...common.Address) *big.Int {
	var p []interface{}
	switch len(args) {
	case 1:
		p = []interface{}{args[0]}
	case 2:
		p = []interface{}{tokPair{args[0], args[1]}}
	default:
		c.Harness("tokQuery: %d arguments", len(args))
	}
	m, err := world.NativeTx(tokContract(tok), 0, method, p, 0, 0, 0, common.ADDRESS_EMPTY)
	c.Must(err, "build query")
	tx, err := world.Seal(m)
	c.Must(err, "seal query")
	res, err := ch.Store.PreExecuteContract(tx)
	if err != nil || res == nil || res.State != event.CONTRACT_STATE_SUCCESS {
		c.Fail("query-fails", method, "%s.%s%x: pre-execution fails: %v", tokNames[tok], method, args, err)
	}
	s, ok := res.Result.(string)
	if !ok {
		c.Fail("query-fails", method, "%s.%s: result %v is not a hex string", tokNames[tok], method, res.Result)
	}
	b, err := hex.DecodeString(s)
	if err != nil {
		c.Fail("query-fails", method, "%s.%s: result %q is not hex", tokNames[tok], method, s)
	}
	return tokLE(b)
}

// tokNotify returns the persisted execution notify of a transaction.
func tokNotify(c *simkit.Ctx, ch *world.Chain, tx *types.Transaction) *event.ExecuteNotify {
	n, err := ch.Store.GetEventNotifyByTx(tx.Hash())
	if err != nil || n == nil {
		h := tx.Hash()
		c.Fail("notify-missing", "event-store", "no execution notify stored for tx %s: %v", h.ToHexString(), err)
	}
	return n
}

func tokShort(a common.Address) string { return hex.EncodeToString(a[:4]) }
