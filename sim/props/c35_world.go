package props

import (
	"crypto/ecdsa"
	"fmt"
	"math/big"
	"reflect"
	"sync"
	"sync/atomic"
	"testing/synctest"
	"unsafe"

	ethcomm "github.com/ethereum/go-ethereum/common"
	ethtypes "github.com/ethereum/go-ethereum/core/types"
	ethcrypto "github.com/ethereum/go-ethereum/crypto"
	"github.com/ontio/ontology-eventbus/actor"
	"github.com/ontio/ontology-eventbus/mailbox"
	"github.com/ontio/ontology/account"
	"github.com/ontio/ontology/common"
	"github.com/ontio/ontology/common/config"
	"github.com/ontio/ontology/common/constants"
	"github.com/ontio/ontology/common/simhook"
	consactor "github.com/ontio/ontology/consensus/actor"
	"github.com/ontio/ontology/core/types"
	"github.com/ontio/ontology/events/message"
	tc "github.com/ontio/ontology/txnpool/common"
	"github.com/ontio/ontology/txnpool/proc"
	"github.com/ontio/ontology/validator/increment"

	"ontosim/simkit"
	"ontosim/world"
)

type c35Sender struct {
	name      string
	key       *ecdsa.PrivateKey
	eth       ethcomm.Address
	addr      common.Address
	basePrice uint64
}

type c35Tx struct {
	name   string
	tx     *types.Transaction
	hash   common.Uint256
	sender int // index into senders; -1 = ordinary ontology transaction
	nonce  uint64
	price  uint64
}

type c35Slot struct {
	sender int
	nonce  uint64
}

type c35Run struct {
	c  *simkit.Ctx
	t  *simkit.Tape
	ch *world.Chain

	senders []*c35Sender
	payers  []*account.Account
	ordN    uint32
	ts      uint32
	seq     int

	disablePreExec bool
	srv            *proc.TXPoolServer
	svc            *proc.TxPoolService
	pid            *actor.PID
	poolClient     *consactor.TxPoolActor
	incr           *increment.IncrementValidator
	gate           *c35Gate

	all       map[common.Uint256]*c35Tx
	order     []*c35Tx
	committed map[common.Uint256]uint32
	usedPrice map[uint64]int // price -> sender index (-1 ordinary) that owns it

	latePool    []*types.Block // blocks whose block-complete event has not reached the pool
	lateIncr    []*types.Block // ... has not reached the validator
	incrSkipped bool

	slotPool     map[c35Slot][]*c35Tx // pool content at the last snapshot
	slotBest     map[c35Slot]*c35Tx   // dearest transaction the pool accepted for the slot since the last pool restart
	slotProposed map[c35Slot]*c35Tx   // what the last proposal carried for the slot
	verified     map[common.Uint256]uint32
	poolSize     int

	evmProposals, evmBlocks int
	interesting, raced      bool
}

var c35ActorSeq int64

func newC35Run(c *simkit.Ctx) *c35Run {
	return &c35Run{c: c, t: c.Tape, all: map[common.Uint256]*c35Tx{}, committed: map[common.Uint256]uint32{}, usedPrice: map[uint64]int{},
		slotPool: map[c35Slot][]*c35Tx{}, slotBest: map[c35Slot]*c35Tx{}, slotProposed: map[c35Slot]*c35Tx{}, verified: map[common.Uint256]uint32{}}
}

func (r *c35Run) quiesce() { synctest.Wait() }

func (r *c35Run) setup() {
	c, t := r.c, r.t
	r.ch = world.NewSoloChain(c, "node")
	c.Must(r.ch.Open(), "open ledger") // sets ledger.DefLedger
	r.quiesce()
	r.ts = r.ch.Now
	r.disablePreExec = t.Bool()
	if t.Prob(1, 4) {
		config.DefConfig.Consensus.MaxTxInBlock = uint(2 + t.Choose(5))
	}
	for i := 0; i < 3; i++ {
		key, err := ethcrypto.GenerateKey()
		c.Must(err, "eth key")
		eth := ethcrypto.PubkeyToAddress(key.PublicKey)
		r.senders = append(r.senders, &c35Sender{name: fmt.Sprintf("S%d", i), key: key, eth: eth, addr: common.Address(eth), basePrice: uint64(2500 + 1000*i)})
	}
	r.payers = []*account.Account{r.ch.Book, account.NewAccount("")}
	// block 1: ONG for the senders and the second payer (gas price 0: no fee)
	var txs []*types.Transaction
	fund := func(to common.Address, units uint64) {
		m, err := world.TransferTx("ong", r.ch.Book.Address, to, units, 0, 20000, r.nextOrdNonce(), r.ch.Book.Address)
		c.Must(err, "fund")
		c.Must(world.Sign(m, r.ch.Book), "sign")
		tx, err := world.Seal(m)
		c.Must(err, "seal")
		txs = append(txs, tx)
	}
	for _, s := range r.senders {
		fund(s.addr, 1000*constants.GWei) // 1000 ONG
	}
	fund(r.payers[1].Address, 1000*constants.GWei)
	r.ts += 10
	blk := r.ch.MakeBlock(txs, r.ts, 1)
	if _, err := r.ch.Commit(blk); err != nil {
		c.Harness("funding block refused: %v", err)
	}
	// some senders start with a non-zero account nonce
	var warm []*c35Tx
	for si := range r.senders {
		n := t.Choose(3)
		for k := 0; k < n; k++ {
			warm = append(warm, r.newEVM(si, uint64(k), r.freePrice(r.senders[si].basePrice, si)))
		}
	}
	r.gate = &c35Gate{}
	simhook.YieldFn = r.gate.yield
	c.Defer(func() { simhook.YieldFn = nil })
	r.startPool()
	if len(warm) > 0 {
		var wt []*types.Transaction
		for _, k := range warm {
			wt = append(wt, k.tx)
		}
		r.ts += 10
		b2 := r.ch.MakeBlock(wt, r.ts, 2)
		if _, err := r.ch.Commit(b2); err != nil {
			c.Harness("warm-up block refused: %v", err)
		}
		for _, k := range warm {
			r.committed[k.hash] = b2.Header.Height
		}
	}
	r.quiesce()
	c.Logf("setup: preExec=%v maxTxInBlock=%d account nonces %d/%d/%d height %d", !r.disablePreExec, config.DefConfig.Consensus.MaxTxInBlock,
		r.accountNonce(r.senders[0]), r.accountNonce(r.senders[1]), r.accountNonce(r.senders[2]), r.ch.Height())
}

func (r *c35Run) nextOrdNonce() uint32 { r.ordN++; return r.ordN }

func (r *c35Run) accountNonce(s *c35Sender) uint64 {
	acct, err := r.ch.Store.GetEthAccount(s.eth)
	r.c.Must(err, "GetEthAccount")
	return acct.Nonce
}

// freePrice returns p, moved up until no other sender (and no ordinary
// transaction) has used that price: GetTxPool resolves equal prices of
// different senders by Go map order.
func (r *c35Run) freePrice(p uint64, owner int) uint64 {
	for {
		o, used := r.usedPrice[p]
		if !used || (o == owner && owner >= 0) {
			r.usedPrice[p] = owner
			return p
		}
		p++
	}
}

func (r *c35Run) register(k *c35Tx) *c35Tx {
	k.hash = k.tx.Hash()
	r.all[k.hash] = k
	r.order = append(r.order, k)
	return k
}

func (r *c35Run) newEVM(si int, nonce, price uint64) *c35Tx {
	s := r.senders[si]
	r.seq++
	to := r.senders[(si+1)%len(r.senders)].eth
	value := new(big.Int).Mul(big.NewInt(int64(r.seq)), big.NewInt(constants.GWei)) // distinct content per transaction
	gasPrice := new(big.Int).Mul(new(big.Int).SetUint64(price), big.NewInt(constants.GWei))
	etx := ethtypes.NewTransaction(nonce, to, value, 21000, gasPrice, nil)
	signed, err := ethtypes.SignTx(etx, ethtypes.NewEIP155Signer(big.NewInt(int64(config.DefConfig.P2PNode.EVMChainId))), s.key)
	r.c.Must(err, "sign eth tx")
	tx, err := types.TransactionFromEIP155(signed)
	r.c.Must(err, "TransactionFromEIP155")
	if tx.Payer != s.addr || uint64(tx.Nonce) != nonce || tx.GasPrice != price {
		r.c.Harness("EIP-155 wrapping: payer %x nonce %d price %d", tx.Payer, tx.Nonce, tx.GasPrice)
	}
	return r.register(&c35Tx{name: fmt.Sprintf("%s/n%d/p%d#%d", s.name, nonce, price, r.seq), tx: tx, sender: si, nonce: nonce, price: price})
}

func (r *c35Run) newOrdinary(price uint64) *c35Tx {
	r.seq++
	p := r.payers[r.t.Choose(len(r.payers))]
	m, err := world.TransferTx("ont", p.Address, r.payers[0].Address, uint64(r.t.Choose(3)), price, 20000, r.nextOrdNonce(), p.Address)
	r.c.Must(err, "ordinary tx")
	r.c.Must(world.Sign(m, p), "sign")
	tx, err := world.Seal(m)
	r.c.Must(err, "seal")
	return r.register(&c35Tx{name: fmt.Sprintf("O/p%d#%d", price, r.seq), tx: tx, sender: -1, price: price})
}

// ------------------------------------------------------------ the real server

func (r *c35Run) startPool() {
	r.srv = proc.NewTxPoolServer(r.disablePreExec, true)
	r.svc = proc.NewTxPoolService(r.srv)
	tpa := proc.NewTxPoolActor(r.srv)
	props := actor.FromProducer(func() actor.Actor { return tpa })
	props.WithMailbox(mailbox.BoundedDropping(tc.MAX_LIMITATION)) // as txnpool.StartTxnPoolServer
	pid, err := actor.SpawnNamed(props, fmt.Sprintf("c35pool_%d", atomic.AddInt64(&c35ActorSeq, 1)))
	r.c.Must(err, "spawn pool actor")
	r.pid = pid
	r.srv.RegisterActor(pid)
	r.poolClient = &consactor.TxPoolActor{Pool: pid}
	r.incr = increment.NewIncrementValidator(20)
	r.latePool, r.lateIncr, r.incrSkipped = nil, nil, false
	r.quiesce()
}

func (r *c35Run) stopPool() {
	if r.srv == nil {
		return
	}
	defer func() { recover() }()
	synctest.Wait()
	srv := r.srv
	r.srv = nil
	srv.Stop() // stops the actor, closes the response channel
	// TXPoolServer.Stop leaves its two validator worker pools running (their
	// dispatcher re-arms a 2 s timer for ever, which would keep the bubble
	// alive): stop them.
	v := reflect.ValueOf(srv).Elem()
	for _, name := range []string{"stateless", "stateful"} {
		f := v.FieldByName(name)
		if !f.IsValid() || f.IsNil() {
			continue
		}
		pf := f.Elem().FieldByName("pool")
		if !pf.IsValid() || pf.IsNil() {
			continue
		}
		x := reflect.NewAt(pf.Type(), unsafe.Pointer(pf.UnsafeAddr())).Elem().Interface()
		if st, ok := x.(interface{ Stop() }); ok {
			st.Stop()
		}
	}
	synctest.Wait()
}

func (r *c35Run) tellBlockComplete(b *types.Block) {
	r.pid.Tell(&message.SaveBlockCompleteMsg{Block: b})
	r.quiesce()
}

// ------------------------------------------------------------ gate

// c35Gate parks the pool actor inside GetTxPool between dropping the read lock
// and taking the write lock - if /repo carries the hook
//
//	simhook.Yield("txpool.GetTxPool.unlocked", 0, 0)
//
// at that point. Without the hook nothing ever parks.
type c35Gate struct {
	mu      sync.Mutex
	armed   bool
	hit     bool
	release chan struct{}
}

func (g *c35Gate) yield(site string, a, b int) {
	if site != "txpool.GetTxPool.unlocked" {
		return
	}
	g.mu.Lock()
	if !g.armed {
		g.mu.Unlock()
		return
	}
	g.armed = false
	g.hit = true
	rel := g.release
	g.mu.Unlock()
	<-rel
}

func (g *c35Gate) arm() {
	g.mu.Lock()
	g.armed, g.hit = true, false
	g.release = make(chan struct{})
	g.mu.Unlock()
}

// disarm returns whether a goroutine is parked (and must be released).
func (g *c35Gate) disarm() bool {
	g.mu.Lock()
	defer g.mu.Unlock()
	g.armed = false
	return g.hit
}
