package props

import (
	"fmt"
	"math/big"
	"sort"
	"strings"

	"github.com/ontio/ontology/account"
	"github.com/ontio/ontology/common"
	"github.com/ontio/ontology/core/payload"
	scom "github.com/ontio/ontology/core/store/common"
	"github.com/ontio/ontology/core/types"
	cutils "github.com/ontio/ontology/core/utils"
	"github.com/ontio/ontology/smartcontract/event"
	"github.com/ontio/ontology/smartcontract/service/native/ont"
	nutils "github.com/ontio/ontology/smartcontract/service/native/utils"

	"ontosim/simkit"
	"ontosim/world"
)

// C05: a failed transaction changes nothing except the fee it is charged.
func init() {
	simkit.Register(&simkit.Prop{
		ID:   "C05",
		Desc: "failed transactions (NeoVM faults, out of gas, native errors, deploy errors) leave only the ONG fee payer->governance, equal to the reported GasConsumed and never above the payer's balance",
		Rule: "a run = one solo ledger plus a twin; 3 storage contracts deployed; up to 15 blocks of 1..4 transactions: NeoVM scripts built from fragments (calls of a deployed contract that put / delete / destroy storage or fault after the put, native ONG/ONT transfers, Contract.Create, 1-2 KiB padding) ending in THROW / bad opcode / stack underflow / division by zero / endless loop / call of a missing contract / Storage.Put without contract / unknown syscall / nothing, plain native invokes (good, unwitnessed, overdrawn, unknown method, malformed arguments), deploy transactions (new, existing, destroyed contract); gas price 0/1/500/2500, gas limit from 0 to generous, payer = bookkeeper or one of 4 accounts whose ONG balance is first set (by a preceding transfer) to 0, min-1, min, min+1, 2min-1, 2min, 3min+7 of the minimum fee or around the deploy cost. Every block is executed on the main ledger; then the twin executes the same block with every transaction that FAILED on the main ledger replaced by a plain ONG transfer payer->governance of the reported GasConsumed; the stored record of a failed transaction may carry the fee transfer event and no other; the two state stores must then be equal (except the per-block bookkeeping keys, learnt by diffing an empty block). Blocks in which every transaction failed are in addition checked directly on the before/after dump. non-trivial = at least one failed transaction whose script wrote state before failing and at least one failed transaction charged a non-zero fee; distinct = distinct event-trace hash",
		Real: []string{"core/store/ledgerstore (executeBlock, handleTransaction, HandleInvokeTransaction, HandleDeployTransaction, chargeCostGas, costInvalidGas, event store)", "smartcontract + NeoVM + Ontology.Native.Invoke, storage/contract services", "native ONT/ONG", "smartcontract/storage CacheDB + overlaydb + goleveldb on SimDisk"},
		Stub: []string{"solo block producer (harness builds/signs blocks like consensus/solo)", "no transaction pool / validators: the ledger executes whatever the block contains (gas limits below the minimum included)", "wasm JIT (stub archive; no wasm transactions generated)"},
		Assumptions: []string{
			"a plain ONG transfer payer->governance of amount f (gas price 0, signed by the payer) has exactly the effect the statement allows a failed transaction charged f to have; if it cannot be executed on the twin the reported fee exceeded the payer's balance at that point of the block",
			"per-block bookkeeping keys are recognised by their one-byte store prefix, learnt from the keys an empty block changes; contract execution cannot write under those prefixes",
			"which transactions failed is read from the stored event notify (State == 0) and cross-checked with ExecuteResult.Notify; error texts are never looked at",
		},
		ExpectedProbes: []string{"failed_alone", "failed_between_successes", "failed_after_write", "fee_zero", "fee_nonzero", "fee_took_whole_balance", "payer_below_min_fee", "payer_exactly_min_fee", "payer_empty", "gaslimit_below_min", "long_code", "deploy_failed", "deploy_ok", "redeploy_destroyed", "contract_destroyed", "script_ok", "fail_out-of-gas-loop", "fail_throw", "callee_fault_after_put", "native_failed", "create_in_script"},
		Run:            runC05,
	})
}

type c05Tx struct {
	label   string
	desc    string
	wrote   bool // the script performs a state write before it ends
	payer   *tokParty
	signers []*tokParty
	gasP    uint64
	gasL    uint64
	tx      *types.Transaction
	fund    bool
	deploys *common.Address // deploy transactions: address of the contract
}

type c05Run struct {
	c        *simkit.Ctx
	main     *world.Chain
	twin     *world.Chain
	parties  []*tokParty // BK, P1..P4
	names    map[common.Address]string
	book     map[byte]bool // store prefixes of per-block bookkeeping keys
	cur      []simkit.KV   // filtered dump of main after the last block
	curView  *tokView
	ts       uint32
	nonce    uint32
	feeNonce uint32
	nextID   byte
	doomed   map[byte]bool // contract ids some transaction tried to destroy
	sum0     [2]*big.Int

	failedWrote, failedFee bool
}

// c05Stop ends a run after a violation that matches a known finding: the two
// ledgers (or ledger and fee accounting) have diverged, nothing after it can be
// judged.
type c05Stop struct{}

func (r *c05Run) soft(oracle, sig, format string, a ...interface{}) {
	r.c.FailSoft(oracle, sig, format, a...)
	panic(c05Stop{})
}

func (r *c05Run) name(a common.Address) string {
	if n, ok := r.names[a]; ok {
		return n
	}
	return tokShort(a)
}

func (r *c05Run) contractAddr(id byte) common.Address {
	return common.AddressFromVmCode(c05ContractCode(r.c, id))
}

func (r *c05Run) filter(kvs []simkit.KV) []simkit.KV {
	out := make([]simkit.KV, 0, len(kvs))
	for _, kv := range kvs {
		if len(kv.K) > 0 && r.book[kv.K[0]] {
			continue
		}
		out = append(out, kv)
	}
	return out
}

func runC05(c *simkit.Ctx) {
	c.Bubble(func() {
		t := c.Tape
		tokCheckLayout(c)
		r := &c05Run{c: c, names: map[common.Address]string{}, book: map[byte]bool{}, doomed: map[byte]bool{}}
		r.main = world.NewSoloChain(c, "main")
		r.twin = r.main.Twin("twin")
		c.Must(r.main.Open(), "open main")
		c.Must(r.twin.Open(), "open twin")
		r.parties = append(r.parties, tokSingle("BK", r.main.Book))
		for i := 1; i <= 4; i++ {
			r.parties = append(r.parties, tokSingle(fmt.Sprintf("P%d", i), account.NewAccount("")))
		}
		for _, p := range r.parties {
			r.names[p.addr] = p.name
		}
		r.names[nutils.GovernanceContractAddress] = "GOV"
		r.ts = r.main.Now
		r.nonce = 1

		// ---- an empty block tells which keys every block changes
		before, err := r.main.Disk.DumpStore("states")
		c.Must(err, "dump")
		r.ts += 10
		for _, ch := range []*world.Chain{r.main, r.twin} {
			if _, err := ch.Commit(ch.MakeBlock(nil, r.ts, 1)); err != nil {
				c.Harness("empty block refused: %v", err)
			}
		}
		after, err := r.main.Disk.DumpStore("states")
		c.Must(err, "dump")
		for _, k := range c05ChangedKeys(before, after) {
			r.book[k[0]] = true
		}
		for _, p := range []scom.DataEntryPrefix{scom.ST_STORAGE, scom.ST_CONTRACT, scom.ST_DESTROYED} {
			if r.book[byte(p)] {
				c.Harness("an empty block changes keys under contract-state prefix %#x", byte(p))
			}
		}
		r.cur = r.filter(after)
		v, err := tokScan(after)
		c.Must(err, "scan")
		r.curView = v
		for tk := 0; tk < 2; tk++ {
			r.sum0[tk] = tokSum(v.bal[tk])
		}

		// ---- setup block: three storage contracts, some content, some ONG for the payers
		var setup []*c05Tx
		for id := byte(0); id < 3; id++ {
			setup = append(setup, r.deployTx(id, r.parties[0], 0, 0))
		}
		r.nextID = 3
		r.runBlock(setup)
		setup = nil
		for id := byte(0); id < 3; id++ {
			a := newC05Asm()
			c05FragCall(a, r.contractAddr(id), c05ModePut, []byte{'k', '0'}, []byte{'s', id})
			c05FragCall(a, r.contractAddr(id), c05ModePut, []byte{'k', '1'}, []byte{'t', id})
			setup = append(setup, r.scriptTx("setup-put", "setup puts", a.bytes(c), r.parties[0], 0, 100000, false))
		}
		for i := 1; i <= 4; i++ {
			if t.Bool() {
				setup = append(setup, r.ongTransfer(r.parties[0], r.parties[i].addr, uint64(1+t.Choose(50000000))))
			}
		}
		r.runBlock(setup)

		nBlocks := t.Range(2, 2+t.Pick(4, 5, 3)*6)
		if nBlocks > 15 {
			nBlocks = 15
		}
		func() {
			defer func() {
				if x := recover(); x != nil {
					if _, ok := x.(c05Stop); !ok {
						panic(x)
					}
					c.Logf("run ends after a known finding")
				}
			}()
			for b := 0; b < nBlocks; b++ {
				r.runBlock(r.genBlock())
			}
		}()
		if r.failedWrote && r.failedFee {
			c.NonTrivial()
		}
	})
}

func c05ChangedKeys(a, b []simkit.KV) [][]byte {
	var out [][]byte
	i, j := 0, 0
	for i < len(a) || j < len(b) {
		switch {
		case j >= len(b) || (i < len(a) && string(a[i].K) < string(b[j].K)):
			out = append(out, a[i].K)
			i++
		case i >= len(a) || string(a[i].K) > string(b[j].K):
			out = append(out, b[j].K)
			j++
		default:
			if string(a[i].V) != string(b[j].V) {
				out = append(out, a[i].K)
			}
			i++
			j++
		}
	}
	return out
}

// ---------------------------------------------------------------- transactions

func (r *c05Run) seal(m *types.MutableTransaction, x *c05Tx) *c05Tx {
	x.tx = tokSeal(r.c, m, x.signers)
	return x
}

func (r *c05Run) scriptTx(label, desc string, code []byte, payer *tokParty, gasP, gasL uint64, wrote bool) *c05Tx {
	m := world.InvokeTx(code, gasP, gasL, r.nonce, payer.addr)
	r.nonce++
	return r.seal(m, &c05Tx{label: label, desc: desc, wrote: wrote, payer: payer, signers: []*tokParty{payer}, gasP: gasP, gasL: gasL})
}

func (r *c05Run) deployTx(id byte, payer *tokParty, gasP, gasL uint64) *c05Tx {
	m, err := cutils.NewDeployTransaction(c05ContractCode(r.c, id), "c05", "1", "sim", "-", "storage contract", payload.NEOVM_TYPE)
	r.c.Must(err, "deploy tx")
	m.GasPrice, m.GasLimit, m.Nonce, m.Payer = gasP, gasL, r.nonce, payer.addr
	r.nonce++
	ca := r.contractAddr(id)
	// the label is settled after execution (runBlock), when it is known whether
	// the address had been destroyed
	return r.seal(m, &c05Tx{label: "deploy/new", desc: fmt.Sprintf("deploy contract#%d", id), payer: payer, signers: []*tokParty{payer}, gasP: gasP, gasL: gasL, deploys: &ca})
}

// ongTransfer is a plain ONG transfer at gas price 0 signed by from.
func (r *c05Run) ongTransfer(from *tokParty, to common.Address, amount uint64) *c05Tx {
	m, err := world.TransferTx("ong", from.addr, to, amount, 0, 20000, r.nonce, from.addr)
	r.c.Must(err, "transfer tx")
	r.nonce++
	return r.seal(m, &c05Tx{label: "fund", desc: fmt.Sprintf("ong %s->%s:%d", from.name, r.name(to), amount), payer: from, signers: []*tokParty{from}, gasL: 20000, fund: true})
}

func (r *c05Run) ongOf(a common.Address) uint64 {
	v := new(big.Int).Div(tokGet(r.curView.bal[tokONG], a), tokScale)
	return v.Uint64()
}

var c05Prices = []uint64{0, 1, 500, 2500}

// genBlock generates the transactions of one block.
func (r *c05Run) genBlock() []*c05Tx {
	t := r.c.Tape
	n := t.Pick(1, 5, 3, 2, 2) // 0: no block at all (the simplest choice)
	var out []*c05Tx
	funded := map[*tokParty]bool{}
	for i := 0; i < n && len(out) < 4; i++ {
		payer := r.parties[t.Pick(3, 2, 2, 2, 2)]
		gasP := c05Prices[t.Pick(2, 2, 4, 2)]
		kind := t.Pick(8, 3, 3, 1)
		var x *c05Tx
		var need uint64 // fee scale the payer's balance is arranged around
		switch kind {
		case 0:
			x = r.genScript(payer, gasP)
			need = 20000 * gasP
		case 1:
			x = r.genNative(payer, gasP)
			need = 20000 * gasP
		case 2:
			x = r.genDeploy(payer, gasP)
			need = (20000000 + uint64(len(c05ContractCode(r.c, 0))/1024)*200000) * gasP
		default: // destroy one of the contracts (so that it can be re-deployed later)
			id := byte(t.Choose(int(r.nextID)))
			a := newC05Asm()
			c05FragCall(a, r.contractAddr(id), c05ModeDestroy, []byte{'k'}, []byte{0})
			r.doomed[id] = true
			x = r.scriptTx("script/ok", fmt.Sprintf("destroy#%d end:ok", id), a.bytes(r.c), payer, gasP, 30000, true)
			need = 20000 * gasP
		}
		// arrange the payer's ONG balance around the fee boundaries
		if gasP > 0 && payer != r.parties[0] && !funded[payer] && len(out) < 3 && t.Prob(3, 4) {
			funded[payer] = true
			target := []uint64{0, need - 1, need, need + 1, 2*need - 1, 2 * need, 3*need + 7, 10 * need}[t.Choose(8)]
			have := r.ongOf(payer.addr)
			switch {
			case have < target:
				out = append(out, r.ongTransfer(r.parties[0], payer.addr, target-have))
			case have > target:
				out = append(out, r.ongTransfer(payer, r.parties[0].addr, have-target))
			}
			switch target {
			case 0:
				r.c.Probe("payer_empty")
			case need - 1:
				r.c.Probe("payer_below_min_fee")
			case need:
				r.c.Probe("payer_exactly_min_fee")
			}
		}
		out = append(out, x)
	}
	return out
}

func (r *c05Run) genGasLimit(generous uint64) uint64 {
	t := r.c.Tape
	switch t.Pick(4, 1, 1, 1, 3, 2, 2) {
	case 0:
		return generous
	case 1:
		return 0
	case 2:
		return 1000
	case 3:
		return 19999
	case 4:
		return 20000
	case 5:
		return 30000
	default:
		return 60000
	}
}

func (r *c05Run) genScript(payer *tokParty, gasP uint64) *c05Tx {
	t := r.c.Tape
	c := r.c
	a := newC05Asm()
	var desc []string
	wrote := false
	generous := uint64(200000)
	nFrag := t.Pick(2, 5, 3, 2)
	for i := 0; i < nFrag; i++ {
		id := byte(t.Choose(int(r.nextID)))
		key := []byte{'k', byte('0' + t.Choose(4))}
		switch t.Pick(6, 4, 2, 1, 3, 2, 2, 1, 1) {
		case 0:
			val := t.Bytes(1 + t.Choose(8))
			c05FragCall(a, r.contractAddr(id), c05ModePut, key, val)
			desc = append(desc, fmt.Sprintf("put#%d(%s,%x)", id, key, val))
			wrote = true
		case 1:
			val := t.Bytes(1 + t.Choose(8))
			c05FragCall(a, r.contractAddr(id), c05ModePutThenFault, key, val)
			desc = append(desc, fmt.Sprintf("put-then-fault#%d(%s,%x)", id, key, val))
			wrote = true
			c.Probe("callee_fault_after_put")
		case 2:
			c05FragCall(a, r.contractAddr(id), c05ModeDelete, key, []byte{0})
			desc = append(desc, fmt.Sprintf("delete#%d(%s)", id, key))
			wrote = true
		case 3:
			c05FragCall(a, r.contractAddr(id), c05ModeDestroy, key, []byte{0})
			r.doomed[id] = true
			desc = append(desc, fmt.Sprintf("destroy#%d", id))
			wrote = true
		case 4: // the payer moves a little ONG (witnessed: succeeds inside the script)
			to := r.parties[t.Choose(len(r.parties))]
			amt := uint64(1 + t.Choose(1000))
			c05FragNative(c, a, nutils.OngContractAddress, "transfer", []interface{}{[]*ont.TransferState{{From: payer.addr, To: to.addr, Value: amt}}})
			desc = append(desc, fmt.Sprintf("ong %s->%s:%d", payer.name, to.name, amt))
			wrote = true
		case 5: // the payer moves (nearly) all its ONG away: nothing is left for the fee
			have := r.ongOf(payer.addr)
			amt := have - uint64(t.Choose(3))
			if amt > have || payer == r.parties[0] {
				amt = have / 2
			}
			c05FragNative(c, a, nutils.OngContractAddress, "transfer", []interface{}{[]*ont.TransferState{{From: payer.addr, To: r.parties[0].addr, Value: amt}}})
			desc = append(desc, fmt.Sprintf("ong %s->BK:%d", payer.name, amt))
			wrote = true
		case 6: // somebody else's ONT: not witnessed unless the payer is the bookkeeper
			c05FragNative(c, a, nutils.OntContractAddress, "transfer", []interface{}{[]*ont.TransferState{{From: r.parties[0].addr, To: payer.addr, Value: 1}}})
			desc = append(desc, "ont BK->"+payer.name+":1")
		case 7:
			code := c05ContractCode(c, 100+byte(t.Choose(8)))
			c05FragCreate(a, code)
			desc = append(desc, "create-contract")
			wrote = true
			generous = 21000000
			c.Probe("create_in_script")
		case 8:
			n := 1100 + 1100*t.Choose(2)
			c05FragPad(a, n)
			desc = append(desc, fmt.Sprintf("pad%d", n))
			c.Probe("long_code")
		}
	}
	end := t.Pick(3, 4, 1, 1, 1, 3, 1, 1, 1)
	c05End(a, end)
	desc = append(desc, "end:"+c05EndNames[end])
	gasL := r.genGasLimit(generous)
	if gasL < 20000 {
		c.Probe("gaslimit_below_min")
	}
	label := "script/" + c05EndNames[end]
	code := a.bytes(c)
	if len(code) == 0 {
		label = "script/empty"
	}
	return r.scriptTx(label, strings.Join(desc, " "), code, payer, gasP, gasL, wrote)
}

func (r *c05Run) genNative(payer *tokParty, gasP uint64) *c05Tx {
	t := r.c.Tape
	asset := []string{"ong", "ont"}[t.Choose(2)]
	contract := world.TokenAddr(asset)
	to := r.parties[t.Choose(len(r.parties))]
	var params []interface{}
	method := "transfer"
	label := ""
	switch t.Pick(3, 3, 2, 1, 1) {
	case 0:
		label = "native/witnessed"
		params = []interface{}{[]*ont.TransferState{{From: payer.addr, To: to.addr, Value: uint64(t.Choose(100))}}}
	case 1:
		label = "native/unwitnessed"
		from := r.parties[(1+t.Choose(4))%5]
		if from == payer {
			from = r.parties[0]
		}
		if from == payer {
			from = r.parties[1]
		}
		params = []interface{}{[]*ont.TransferState{{From: payer.addr, To: to.addr, Value: 1}, {From: from.addr, To: payer.addr, Value: 1}}}
	case 2:
		label = "native/overdrawn"
		params = []interface{}{[]*ont.TransferState{{From: payer.addr, To: to.addr, Value: 1}, {From: payer.addr, To: to.addr, Value: 999999999999999999}}}
	case 3:
		label = "native/unknown-method"
		method = "transferX"
		params = []interface{}{[]*ont.TransferState{{From: payer.addr, To: to.addr, Value: 1}}}
	default:
		label = "native/malformed"
		params = []interface{}{"not a transfer list"}
	}
	m, err := world.NativeTx(contract, 0, method, params, gasP, r.genGasLimit(40000), r.nonce, payer.addr)
	r.c.Must(err, "native tx")
	r.nonce++
	return r.seal(m, &c05Tx{label: label, desc: asset + " " + label + " to " + to.name, wrote: label == "native/unwitnessed" || label == "native/overdrawn",
		payer: payer, signers: []*tokParty{payer}, gasP: gasP, gasL: m.GasLimit})
}

func (r *c05Run) genDeploy(payer *tokParty, gasP uint64) *c05Tx {
	t := r.c.Tape
	var id byte
	switch t.Pick(3, 2, 3) {
	case 0:
		id = r.nextID
		if r.nextID < 40 {
			r.nextID++
		}
	case 1:
		id = byte(t.Choose(3))
	default: // prefer a contract that some transaction tried to destroy
		id = byte(t.Choose(int(r.nextID)))
		var doomed []int
		for d := range r.doomed {
			doomed = append(doomed, int(d))
		}
		sort.Ints(doomed)
		if len(doomed) > 0 {
			id = byte(doomed[t.Choose(len(doomed))])
		}
	}
	need := 20000000 + uint64(len(c05ContractCode(r.c, id))/1024)*200000
	gasL := []uint64{need, need + 5000000, need - 1, 20000, 0}[t.Pick(4, 2, 2, 1, 1)]
	return r.deployTx(id, payer, gasP, gasL)
}

// ---------------------------------------------------------------- one block

func (r *c05Run) runBlock(txs []*c05Tx) {
	c := r.c
	t := c.Tape
	if len(txs) == 0 {
		return
	}
	r.ts += uint32(1 + t.Choose(30))
	var raw []*types.Transaction
	for _, x := range txs {
		raw = append(raw, x.tx)
	}
	blk := r.main.MakeBlock(raw, r.ts, uint64(r.nonce))
	res, err := r.main.Commit(blk)
	if err != nil {
		c.Fail("block-refused", "main", "block %d is refused by the ledger: %v", blk.Header.Height, err)
	}
	h := blk.Header.Height
	if len(res.Notify) != len(txs) {
		c.Fail("notify-missing", "execute-result", "block %d: %d transactions, %d notifies", h, len(txs), len(res.Notify))
	}
	c.Logf("block %d", h)
	// ---- state of the main ledger after the block
	all, err := r.main.Disk.DumpStore("states")
	c.Must(err, "dump")
	post := r.filter(all)
	// a contract address, once destroyed, stays destroyed: a deploy transaction
	// whose address is marked destroyed after the block met a destroyed (or, if
	// it succeeded, a not yet destroyed) address
	for _, x := range txs {
		if x.deploys == nil {
			continue
		}
		for _, kv := range r.cur {
			if len(kv.K) == 21 && kv.K[0] == byte(scom.ST_CONTRACT) && string(kv.K[1:]) == string(x.deploys[:]) {
				x.label = "deploy/existing"
			}
		}
		for _, kv := range post {
			if len(kv.K) == 21 && kv.K[0] == byte(scom.ST_DESTROYED) && string(kv.K[1:]) == string(x.deploys[:]) {
				x.label = "deploy/destroyed"
			}
		}
	}
	// ---- outcomes
	failed := make([]bool, len(txs))
	gas := make([]uint64, len(txs))
	nFailed := 0
	var failedLabels []string
	for i, x := range txs {
		n := tokNotify(c, r.main, x.tx)
		if n.State != res.Notify[i].State || n.GasConsumed != res.Notify[i].GasConsumed {
			c.Fail("notify-differs", "event-store", "tx %d of block %d: stored notify (state %d gas %d) differs from execution result (state %d gas %d)", i, h, n.State, n.GasConsumed, res.Notify[i].State, res.Notify[i].GasConsumed)
		}
		failed[i] = n.State != event.CONTRACT_STATE_SUCCESS
		gas[i] = n.GasConsumed
		out := "ok"
		if failed[i] {
			out = "FAIL"
			nFailed++
			failedLabels = append(failedLabels, x.label)
			// the stored record of a failed transaction may tell of the fee transfer and of nothing else
			for k, ev := range n.Notify {
				if ev.ContractAddress != nutils.OngContractAddress || k > 0 {
					c.Probe("failed_tx_record_checked")
					r.soft("failed-tx-record-carries-events", x.label, "block %d tx %d (%s): failed (state %d) but its stored record carries %d events, event %d is from contract %s: %v", h, i, x.desc, n.State, len(n.Notify), k, ev.ContractAddress.ToHexString(), ev.States)
					break
				}
			}
		}
		c.Logf("  %s [%s] payer=%s gasprice=%d gaslimit=%d => %s fee=%d", x.label, x.desc, x.payer.name, x.gasP, x.gasL, out, gas[i])
	}
	sort.Strings(failedLabels)
	sig := strings.Join(c05Uniq(failedLabels), "+")
	if sig == "" {
		sig = "no-failure"
	}
	// ---- token balances after the block
	view, err := tokScan(all)
	if err != nil {
		c.Fail("undecodable-token-entry", sig, "after block %d: %v", h, err)
	}
	for tk := 0; tk < 2; tk++ {
		for _, a := range tokSortedAddrs(view.bal[tk]) {
			if view.bal[tk][a].Sign() < 0 {
				r.soft("negative-balance", sig, "after block %d: %s balance of %s is %s", h, tokNames[tk], r.name(a), view.bal[tk][a])
			}
		}
		if s := tokSum(view.bal[tk]); s.Cmp(r.sum0[tk]) != 0 {
			r.soft("supply-not-conserved", sig, "after block %d: %s balances sum to %s, before %s", h, tokNames[tk], s, r.sum0[tk])
		}
	}
	// ---- blocks in which every transaction failed: only fees may have moved
	if nFailed == len(txs) {
		r.checkAllFailed(h, sig, txs, gas, post, view)
	}
	// ---- the twin executes the block with each failed transaction replaced by its fee
	var traw []*types.Transaction
	for i, x := range txs {
		if !failed[i] {
			traw = append(traw, x.tx)
			continue
		}
		m, err := world.TransferTx("ong", x.payer.addr, nutils.GovernanceContractAddress, gas[i], 0, 20000, 1<<30+r.feeNonce, x.payer.addr)
		c.Must(err, "fee transfer")
		r.feeNonce++
		traw = append(traw, tokSeal(c, m, []*tokParty{x.payer}))
	}
	tblk := r.twin.MakeBlock(traw, r.ts, uint64(r.nonce))
	if _, err := r.twin.Commit(tblk); err != nil {
		c.Fail("block-refused", "twin", "block %d with fee transfers instead of failed transactions is refused: %v", h, err)
	}
	for i, x := range txs {
		n := tokNotify(c, r.twin, traw[i])
		ok := n.State == event.CONTRACT_STATE_SUCCESS
		if failed[i] && !ok {
			r.soft("fee-exceeds-balance", x.label, "block %d tx %d (%s): failed and reports a fee of %d, but %s cannot pay that at this point of the block (the plain transfer of the fee fails on the twin)", h, i, x.desc, gas[i], x.payer.name)
		}
		if !failed[i] && !ok {
			r.soft("failed-tx-left-effects", sig, "block %d tx %d (%s) succeeds after failed transactions but fails when those are replaced by their fees", h, i, x.desc)
		}
	}
	tpost := post
	if nFailed > 0 { // with no failed transaction the twin executed the very same block
		tall, err := r.twin.Disk.DumpStore("states")
		c.Must(err, "dump twin")
		tpost = r.filter(tall)
	}
	if d := simkit.DiffKV(post, tpost, 6); len(d) > 0 {
		// attribute: only ONG balance entries differ -> the fee moved is not the fee reported
		onlyOng := true
		pfx := append([]byte{byte(scom.ST_STORAGE)}, nutils.OngContractAddress[:]...)
		for _, k := range c05ChangedKeys(post, tpost) {
			if len(k) != 41 || string(k[:21]) != string(pfx) {
				onlyOng = false
			}
		}
		if onlyOng {
			// sign with the failed transactions of the payers whose balance differs
			var labels []string
			for _, k := range c05ChangedKeys(post, tpost) {
				for i, x := range txs {
					if failed[i] && string(k[21:]) == string(x.payer.addr[:]) {
						labels = append(labels, x.label)
					}
				}
			}
			sort.Strings(labels)
			if len(labels) > 0 {
				sig = strings.Join(c05Uniq(labels), "+")
			}
			r.soft("gas-consumed-differs-from-fee", sig, "block %d: after replacing the failed transactions by transfers of their reported fees, ONG balances differ (main=left, twin=right): %v", h, d)
		} else {
			r.soft("failed-tx-left-effects", sig, "block %d: state differs from the twin that executed only the fees of the failed transactions (main=left, twin=right): %v", h, d)
		}
	}
	// ---- probes / coverage
	for i, x := range txs {
		if x.fund {
			continue
		}
		if !failed[i] {
			switch {
			case strings.HasPrefix(x.label, "deploy"):
				c.Probe("deploy_ok")
			case strings.HasPrefix(x.label, "script"):
				c.Probe("script_ok")
				if strings.Contains(x.desc, "destroy#") {
					c.Probe("contract_destroyed")
				}
			}
			continue
		}
		if len(txs) == 1 || nFailed == len(txs) {
			c.Probe("failed_alone")
		}
		before, afterOK := false, false
		for j := range txs {
			if !failed[j] && j < i {
				before = true
			}
			if !failed[j] && j > i {
				afterOK = true
			}
		}
		if before && afterOK {
			c.Probe("failed_between_successes")
		}
		if x.wrote {
			c.Probe("failed_after_write")
			r.failedWrote = true
		}
		if gas[i] == 0 {
			c.Probe("fee_zero")
		} else {
			c.Probe("fee_nonzero")
			r.failedFee = true
			if tokGet(view.bal[tokONG], x.payer.addr).Sign() == 0 {
				c.Probe("fee_took_whole_balance")
			}
		}
		switch {
		case strings.HasPrefix(x.label, "deploy"):
			c.Probe("deploy_failed")
			if x.label == "deploy/destroyed" {
				c.Probe("redeploy_destroyed")
			}
		case strings.HasPrefix(x.label, "native"):
			c.Probe("native_failed")
		case strings.HasPrefix(x.label, "script/"):
			c.Probe("fail_" + strings.TrimPrefix(x.label, "script/"))
		}
	}
	r.cur = post
	r.curView = view
	c.State("c05", simkit.DigestKV(post))
}

func c05Uniq(s []string) []string {
	var out []string
	for i, x := range s {
		if i == 0 || x != s[i-1] {
			out = append(out, x)
		}
	}
	return out
}

// checkAllFailed: every transaction of the block failed, so the only keys
// that may differ from the state before the block are the ONG balance of the
// payers and of the governance contract, by exactly the reported fees, each
// fee covered by the payer's balance at that point.
func (r *c05Run) checkAllFailed(h uint32, sig string, txs []*c05Tx, gas []uint64, post []simkit.KV, view *tokView) {
	ongKey := func(a common.Address) string {
		return string(append([]byte{byte(scom.ST_STORAGE)}, ont.GenBalanceKey(nutils.OngContractAddress, a)...))
	}
	allowed := map[string]bool{ongKey(nutils.GovernanceContractAddress): true}
	for _, x := range txs {
		allowed[ongKey(x.payer.addr)] = true
	}
	for _, k := range c05ChangedKeys(r.cur, post) {
		if !allowed[string(k)] {
			r.soft("failed-tx-left-effects", sig, "block %d: all %d transactions failed, yet key %x changed (before/after: %v)", h, len(txs), k, simkit.DiffKV(r.cur, post, 4))
		}
	}
	total := new(big.Int)
	spent := map[common.Address]*big.Int{}
	var order []common.Address
	for i, x := range txs {
		fee := new(big.Int).Mul(new(big.Int).SetUint64(gas[i]), tokScale)
		if spent[x.payer.addr] == nil {
			spent[x.payer.addr] = new(big.Int)
			order = append(order, x.payer.addr)
		}
		left := new(big.Int).Sub(tokGet(r.curView.bal[tokONG], x.payer.addr), spent[x.payer.addr])
		if fee.Cmp(left) > 0 {
			r.soft("fee-exceeds-balance", x.label, "block %d tx %d (%s): reported fee %s exceeds the ONG balance %s of %s", h, i, x.desc, fee, left, x.payer.name)
		}
		spent[x.payer.addr].Add(spent[x.payer.addr], fee)
		total.Add(total, fee)
	}
	gov := nutils.GovernanceContractAddress
	for _, a := range order {
		if a == gov {
			continue
		}
		moved := new(big.Int).Sub(tokGet(r.curView.bal[tokONG], a), tokGet(view.bal[tokONG], a))
		if moved.Cmp(spent[a]) != 0 {
			var labels []string
			for _, x := range txs {
				if x.payer.addr == a {
					labels = append(labels, x.label)
				}
			}
			sort.Strings(labels)
			r.soft("gas-consumed-differs-from-fee", strings.Join(c05Uniq(labels), "+"), "block %d: %s reports fees of %s in total, its ONG balance went from %s to %s (moved %s)", h, r.name(a), spent[a], tokGet(r.curView.bal[tokONG], a), tokGet(view.bal[tokONG], a), moved)
		}
	}
	got := new(big.Int).Sub(tokGet(view.bal[tokONG], gov), tokGet(r.curView.bal[tokONG], gov))
	if got.Cmp(total) != 0 {
		r.soft("gas-consumed-differs-from-fee", sig, "block %d: fees of %s reported, the governance contract received %s", h, total, got)
	}
}
