package props

import (
	"bytes"
	"sort"

	"github.com/ontio/ontology/common"
	gov "github.com/ontio/ontology/smartcontract/service/native/governance"
	nutils "github.com/ontio/ontology/smartcontract/service/native/utils"

	"ontosim/simkit"
)

// C10: when an epoch is settled, the ONG credited to node owners, authorizers
// and the dapp address together never exceeds the governance income being
// split, no single credit wraps around, and every credited amount is later
// withdrawable from the governance contract's balance.
func init() {
	simkit.Register(&simkit.Prop{
		ID:   "C10",
		Desc: "governance fee split never credits more than the income it splits; every credit is withdrawable",
		Rule: "a run = the governance history generator of C11 (VBFT-type private chain, 7 genesis peers, 3 candidate nodes, 5 stakers; parameters A/B, yita, split curve, peer/stake cost, dapp fee and gas address, K, posLimit, minAuthorizePos randomised through the update methods; ONG income = ONG unbound to the contract at every commitDpos, block time advancing seconds to years, plus ONG paid to the contract by accounts) with a fee-centred mix. " +
			"At every settlement after view 6 (commitDpos by admin / at the epoch's end / forced by blackNode): income = contract ONG balance before + ONG arriving in the settling block - sum of SplitFeeAddress amounts outstanding before; every SplitFeeAddress increase and the dapp payment must be <= income and so must their sum; after every block sum(SplitFeeAddress) <= ONG balance; every correctly signed withdrawFee must succeed and pay exactly the recorded amount; at the end every creditor withdraws. " +
			"non-trivial = at least 2 such settlements with income > 0, at least one credit to an authorizer (not a node owner), and the final withdraw-all executed; distinct = distinct event-trace hash",
		Real:           []string{"smartcontract/service/native/governance (executeSplit2, splitNodeFee, executeAddressSplit, withdrawFee and all other methods)", "native ONT/ONG (unbound ONG to governance, transfers)", "core/genesis (VBFT genesis)", "core/store/ledgerstore (first part of every run)", "NeoVM native invoke path"},
		Stub:           []string{"block producer (harness)", "after the warp: block pipeline replaced by direct execution of each transaction with smartcontract.SmartContract on an overlay of the ledger state at a pretended height >= 414100", "disk: in-memory goleveldb storage", "wasm JIT (stub archive)"},
		Assumptions:    []string{"ONG amounts are taken from the ONG contract's transfer events and balances", "epochs up to view 6 pay the split straight out (executeSplit) and credit nothing; they are run but have no SplitFeeAddress oracle"},
		ExpectedProbes: []string{"settlement_checked", "authorizer_credited", "owner_credited", "dapp_paid", "candidate_node_credited", "ok_withdrawFee", "withdraw_all_done", "income_over_1e17", "settled_by_blackNode", "ok_commitDposAtEpochEnd", "ok_updateSplitCurve", "ok_updateGlobalParam2", "ok_setFeePercentage"},
		Run:            runC10,
	})
}

type c10Stats struct {
	settled, authorizerCredits int
}

func runC10(c *simkit.Ctx) {
	c.Bubble(func() {
		w := newGovWorld(c, govProfile{Name: "C10", WStake: 30, WNode: 16, WFee: 22, WAdmin: 14, WInvalid: 6, WCommit: 22, MaxSteps: 50})
		st := &c10Stats{}
		w.onBlock = func(b *govBlock) { c10AfterBlock(w, b, st) }
		done := w.guarded(func() {
			w.run()
			// one more epoch so that the last changes are settled too, then everybody cashes in
			w.block(w.opCommit(true))
			c10WithdrawAll(w)
		})
		if done && st.settled >= 2 && st.authorizerCredits > 0 {
			c.NonTrivial()
		}
		c.Logf("end: commits=%d settlements=%d ok: %s", w.commits, w.settlements, w.summary())
	})
}

func c10AfterBlock(w *govWorld, b *govBlock, st *c10Stats) {
	c := w.c
	owed, ok := b.Post.sumFeeAddr()
	if !ok {
		c.Fail("credits-overflow", "sum", "h%d: the outstanding SplitFeeAddress amounts do not fit 64 bits", b.Height)
	}
	// checked last: at a settlement the more specific income checks speak first
	balanceCheck := func() {
		if owed > b.Post.OngGov {
			c.Fail("credits-exceed-balance", c10Phase(b), "h%d: outstanding fee credits %d exceed the governance contract's ONG balance %d", b.Height, owed, b.Post.OngGov)
		}
	}
	g := w.gov.ToBase58()
	var inflow, outflow, dapp uint64
	for _, r := range b.Txs {
		if !r.OK {
			continue
		}
		for _, x := range r.transfers(nutils.OngContractAddress) {
			if x.From == x.To {
				continue
			}
			if x.To == g {
				inflow += x.Amount
			}
			if x.From == g {
				outflow += x.Amount
				if r.Op.Settle && b.Pre.View > gov.NEW_VERSION_VIEW && b.Post.View != b.Pre.View {
					dapp += x.Amount
				}
			}
		}
	}
	if b.Pre.OngGov+inflow-outflow != b.Post.OngGov {
		c.Harness("h%d: ONG events (in %d, out %d) do not explain the balance change %d -> %d", b.Height, inflow, outflow, b.Pre.OngGov, b.Post.OngGov)
	}
	settledV2 := b.Post.View != b.Pre.View && b.Pre.View > gov.NEW_VERSION_VIEW
	// withdrawFee: a correctly signed call succeeds and pays what was recorded
	paidTo := map[common.Address]bool{}
	for _, r := range b.Txs {
		if r.Op.Kind != "withdrawFee" || (w.eng == nil && b.Height < gov.NEW_VERSION_BLOCK) {
			continue
		}
		a := r.Op.Actor
		want := b.Pre.FeeAddr[a]
		if paidTo[a] {
			want = 0
		}
		if !r.OK {
			c.Fail("credit-not-withdrawable", "withdrawFee-rejected", "h%d: %s was rejected although %d is recorded for the address (contract ONG balance %d)", b.Height, r.Op.Desc, want, b.Pre.OngGov)
		}
		var got uint64
		for _, x := range r.transfers(nutils.OngContractAddress) {
			if x.From == g && x.To == a.ToBase58() {
				got += x.Amount
			}
		}
		if !settledV2 && got != want {
			c.Fail("withdrawFee-pays-other-amount", c10Cmp(got, want), "h%d: %s paid %d", b.Height, r.Op.Desc, got)
		}
		paidTo[a] = true
	}
	if !settledV2 {
		// without a settlement credits only go down, and only by withdrawFee
		for _, a := range c10Addrs(b.Pre.FeeAddr, b.Post.FeeAddr) {
			pre, post := b.Pre.FeeAddr[a], b.Post.FeeAddr[a]
			if post > pre {
				c.Fail("credit-without-settlement", "no-settlement", "h%d: the credit of %s grew from %d to %d in a block that settled no epoch", b.Height, w.nm(a), pre, post)
			}
			if post < pre && !paidTo[a] {
				c.Fail("credit-lost", "no-settlement", "h%d: the credit of %s shrank from %d to %d without a withdrawFee", b.Height, w.nm(a), pre, post)
			}
		}
		balanceCheck()
		return
	}
	// ---- a settlement by the SplitFeeAddress path
	preOwed, _ := b.Pre.sumFeeAddr()
	avail := b.Pre.OngGov + inflow
	if avail < b.Pre.OngGov {
		c.Harness("ONG balance + inflow overflows")
	}
	income := avail - preOwed // preOwed <= Pre.OngGov was checked after the previous block
	var sum uint64 = dapp
	sig := "settlement"
	if dapp > income {
		c.Fail("credit-exceeds-income", sig+"/dapp", "h%d view %d: dapp address paid %d of an income of %d", b.Height, b.Pre.View, dapp, income)
	}
	owners := map[common.Address]bool{}
	candOwner := map[common.Address]bool{}
	for _, n := range w.nodes {
		owners[n.Address] = true
	}
	for _, it := range b.Pre.Pool {
		if it.Status == gov.CandidateStatus {
			candOwner[it.Address] = true
		}
	}
	for _, a := range c10Addrs(b.Pre.FeeAddr, b.Post.FeeAddr) {
		pre, post := b.Pre.FeeAddr[a], b.Post.FeeAddr[a]
		if post < pre {
			if paidTo[a] {
				continue
			}
			c.Fail("credit-lost", sig, "h%d view %d: the credit of %s shrank from %d to %d in a settlement (an addition that wrapped around shows like this)", b.Height, b.Pre.View, w.nm(a), pre, post)
		}
		cr := post - pre
		if cr > income {
			c.Fail("credit-exceeds-income", sig+"/single", "h%d view %d: %s is credited %d of an income of %d (wrap-around?)", b.Height, b.Pre.View, w.nm(a), cr, income)
		}
		if sum+cr < sum {
			c.Fail("credit-exceeds-income", sig+"/sum", "h%d view %d: the credits of one settlement overflow 64 bits", b.Height, b.Pre.View)
		}
		sum += cr
		if cr > 0 {
			if owners[a] {
				c.Probe("owner_credited")
				if candOwner[a] {
					c.Probe("candidate_node_credited")
				}
			} else {
				c.Probe("authorizer_credited")
				st.authorizerCredits++
			}
		}
	}
	if sum > income {
		c.Fail("credit-exceeds-income", sig+"/sum", "h%d view %d: credits %d (of which dapp %d) exceed the income %d being split (ONG balance %d + %d arriving - %d owed from earlier epochs)", b.Height, b.Pre.View, sum, dapp, income, b.Pre.OngGov, inflow, preOwed)
	}
	c.Probe("settlement_checked")
	if income > 0 {
		st.settled++
	}
	if dapp > 0 {
		c.Probe("dapp_paid")
	}
	if income > 100000000000000000 {
		c.Probe("income_over_1e17")
	}
	for _, r := range b.Txs {
		if r.OK && r.Op.Kind == "blackNode" {
			c.Probe("settled_by_blackNode")
		}
	}
	c.Logf("h%d settlement of view %d: income=%d credited=%d dapp=%d left=%d", b.Height, b.Pre.View, income, sum-dapp, dapp, income-sum)
	balanceCheck()
}

func c10Phase(b *govBlock) string {
	if b.Post.View != b.Pre.View {
		return "after-settlement"
	}
	return "between-settlements"
}

func c10Cmp(got, want uint64) string {
	if got > want {
		return "more"
	}
	return "less"
}

func c10Addrs(ms ...map[common.Address]uint64) []common.Address {
	seen := map[common.Address]bool{}
	var out []common.Address
	for _, m := range ms {
		for a := range m {
			if !seen[a] {
				seen[a] = true
				out = append(out, a)
			}
		}
	}
	sort.Slice(out, func(i, j int) bool { return bytes.Compare(out[i][:], out[j][:]) < 0 })
	return out
}

// c10WithdrawAll: every creditor calls withdrawFee; each call must succeed and
// pay the recorded amount (checked by c10AfterBlock), and nothing may remain.
func c10WithdrawAll(w *govWorld) {
	c := w.c
	for _, a := range c10Addrs(w.st.FeeAddr) {
		acc := w.byAddr[a]
		if acc == nil {
			c.Fail("credit-not-withdrawable", "unknown-creditor", "a fee credit of %d is recorded for %s, an address that never took part", w.st.FeeAddr[a], a.ToBase58())
		}
		w.block(w.opWithdrawFee(acc))
	}
	if owed, _ := w.st.sumFeeAddr(); owed != 0 {
		c.Fail("credit-not-withdrawable", "left-after-withdraw-all", "after every creditor's withdrawFee %d is still recorded as owed", owed)
	}
	c.Probe("withdraw_all_done")
}
