package props

import (
	"bytes"
	"fmt"
	"sort"
	"strings"

	scommon "github.com/ontio/ontology/core/store/common"
	"github.com/ontio/ontology/core/store/leveldbstore"
	"github.com/ontio/ontology/core/store/overlaydb"
	"github.com/ontio/ontology/smartcontract/storage"

	"ontosim/simkit"
	"ontosim/world"
)

// C04: reads through the transaction cache (CacheDB), the block overlay
// (OverlayDB) and the persistent store (LevelDB) behave like one ordered
// key/value map with three levels of visibility.
func init() {
	simkit.Register(&simkit.Prop{
		ID:   "C04",
		Desc: "CacheDB -> OverlayDB -> LevelDB reads, prefix iterators, commit and reset refine a sorted-map model",
		Rule: "a run = 1..300 tape-chosen operations on three real layers (CacheDB memdb over OverlayDB memdb over a real LevelDB, on SimDisk in about half of the runs): cache put/delete/put-empty/get/prefix-iterate, Commit, Reset, direct overlay put/delete, overlay Reset, overlay CommitTo + LevelDB batch commit (with or without clearing the overlay), fresh overlay+cache (next block), clean LevelDB restart, and on SimDisk process death at a tape-chosen disk call during a flush (now and then with a write set of more than a thousand records), after which LevelDB must hold what it held before or the whole write set; up to 32 keys sharing prefixes (empty key, 0x00/0xff bytes) plus foreign-prefix neighbours (0x04.., 0x06..) in LevelDB and the overlay; every written value is unique. Oracle: three-map model; every Get on cache and overlay, every iterator run to exhaustion on cache and overlay, and a full sweep after every commit/reset/flush/restart. Non-trivial = a non-empty cache commit happened AND some iterator merged a non-empty memory side with a non-empty backend side; distinct = distinct event-trace hash",
		Real: []string{"smartcontract/storage CacheDB", "core/store/overlaydb (OverlayDB, MemDB, JoinIter)", "core/store/leveldbstore + goleveldb (SimDisk or in-memory storage)"},
		Stub: []string{"a forwarding PersistStore between OverlayDB and LevelDBStore so LevelDB can be closed and reopened under a live overlay", "disk: in-memory goleveldb storage (SimDisk), clean restarts only"},
		Assumptions: []string{
			"an empty value is a deletion (the documented tombstone encoding); a put of an empty value is modelled as a delete",
			"LevelDB never holds empty values (OverlayDB.CommitTo turns them into deletes), so the harness does not pre-populate any",
			"each iterator is positioned once with First and then advanced with Next to exhaustion; no writes happen while an iterator is open",
		},
		ExpectedProbes: c04ExpectedProbes(),
		Run:            runC04,
	})
}

func c04ExpectedProbes() []string {
	var out []string
	for _, lv := range []string{"c", "o"} {
		for _, p := range []string{"FromMem", "FromBack", "FromBoth", "mem_empty", "back_empty", "both_empty", "mem_exhausted_first", "back_exhausted_first", "first_is_tombstone", "last_is_tombstone", "tombstone_over_backend", "tombstone_mem_only", "all_tombstones"} {
			out = append(out, "c04_"+lv+"_"+p)
		}
	}
	return append(out, "c04_key_in_3_layers", "c04_key_in_2_layers", "c04_commit_nonempty", "c04_reset_nonempty", "c04_flush_keep_overlay", "c04_flush_clear_overlay", "c04_restart", "c04_empty_key", "c04_tombstone_committed_to_overlay", "c04_backend_delete_by_flush")
}

// c04Store forwards to the current LevelDBStore; lets the harness restart
// LevelDB while overlay and cache stay alive.
type c04Store struct{ cur *leveldbstore.LevelDBStore }

func (s *c04Store) Put(key []byte, value []byte) error         { return s.cur.Put(key, value) }
func (s *c04Store) Get(key []byte) ([]byte, error)             { return s.cur.Get(key) }
func (s *c04Store) Has(key []byte) (bool, error)               { return s.cur.Has(key) }
func (s *c04Store) Delete(key []byte) error                    { return s.cur.Delete(key) }
func (s *c04Store) NewBatch()                                  { s.cur.NewBatch() }
func (s *c04Store) BatchPut(key []byte, value []byte)          { s.cur.BatchPut(key, value) }
func (s *c04Store) BatchDelete(key []byte)                     { s.cur.BatchDelete(key) }
func (s *c04Store) BatchCommit() error                         { return s.cur.BatchCommit() }
func (s *c04Store) Close() error                               { return s.cur.Close() }
func (s *c04Store) NewIterator(p []byte) scommon.StoreIterator { return s.cur.NewIterator(p) }

type c04KV struct {
	k string
	v []byte
}

// c04Model: three maps keyed by raw key (with the one-byte store prefix).
// cache/over: present key -> value, len 0 = tombstone. back: live values only.
type c04Model struct {
	cache, over, back map[string][]byte
}

const (
	c04LvCache = iota
	c04LvOverlay
	c04LvBack
)

func (m *c04Model) get(raw string, level int) []byte {
	if level <= c04LvCache {
		if v, ok := m.cache[raw]; ok {
			return v
		}
	}
	if level <= c04LvOverlay {
		if v, ok := m.over[raw]; ok {
			return v
		}
	}
	return m.back[raw]
}

// list returns the live (key,value) pairs with the raw prefix as seen from level, ascending.
func (m *c04Model) list(prefix string, level int) []c04KV {
	set := map[string]bool{}
	add := func(mm map[string][]byte) {
		for k := range mm {
			if strings.HasPrefix(k, prefix) {
				set[k] = true
			}
		}
	}
	if level <= c04LvCache {
		add(m.cache)
	}
	if level <= c04LvOverlay {
		add(m.over)
	}
	add(m.back)
	var out []c04KV
	for k := range set {
		if v := m.get(k, level); len(v) > 0 {
			out = append(out, c04KV{k, v})
		}
	}
	sort.Slice(out, func(i, j int) bool { return out[i].k < out[j].k })
	return out
}

type c04Run struct {
	c     *simkit.Ctx
	t     *simkit.Tape
	m     *c04Model
	proxy *c04Store
	ov    *overlaydb.OverlayDB
	cache *storage.CacheDB
	keys  [][]byte // cache-level keys (no store prefix)
	raws  [][]byte // all raw keys known (storage keys + foreign neighbours)
	seq   int
	// non-triviality
	committed, merged bool
}

func c04GenKeys(t *simkit.Tape) [][]byte {
	stems := [][]byte{{}, {'a'}, {'a', 'b'}, {0x00}, {0xff}, {0xff, 0xff}, {'a', 0xff}, {'b'}}
	alpha := []byte{0x00, 'a', 'b', 0xff}
	n := t.Range(1, 32)
	seen := map[string]bool{}
	var keys [][]byte
	for tries := 0; len(keys) < n && tries < 3*n; tries++ {
		k := append([]byte(nil), stems[t.Choose(len(stems))]...)
		sl := 0
		switch t.Pick(4, 4, 3, 2) {
		case 1:
			sl = 1
		case 2:
			sl = 2
		case 3:
			sl = 3 + t.Choose(20)
		}
		for i := 0; i < sl; i++ {
			k = append(k, alpha[t.Choose(len(alpha))])
		}
		if seen[string(k)] {
			continue
		}
		seen[string(k)] = true
		keys = append(keys, k)
	}
	return keys
}

func (r *c04Run) val() []byte {
	r.seq++
	v := []byte(fmt.Sprintf("v%d", r.seq))
	switch r.t.Pick(5, 2, 1) {
	case 1:
		v = append(v, bytes.Repeat([]byte{'.'}, 32)...)
	case 2:
		v = append(v, bytes.Repeat([]byte{'#'}, 150+r.t.Choose(200))...)
	}
	return v
}

func c04S(b []byte) string {
	if len(b) > 14 {
		return fmt.Sprintf("%x..(%d)", b[:12], len(b))
	}
	return fmt.Sprintf("%x", b)
}

func c04V(b []byte) string {
	if len(b) == 0 {
		return "<none>"
	}
	if len(b) > 10 {
		if i := bytes.IndexAny(b, ".#"); i > 0 {
			return fmt.Sprintf("%s+%d", b[:i], len(b)-i)
		}
	}
	return string(b)
}

func c04Raw(k []byte) []byte { return append([]byte{byte(scommon.ST_STORAGE)}, k...) }

func runC04(c *simkit.Ctx) {
	c.Bubble(func() {
		t := c.Tape
		r := &c04Run{c: c, t: t, m: &c04Model{cache: map[string][]byte{}, over: map[string][]byte{}, back: map[string][]byte{}}}
		// ---- persistent store
		var disk *simkit.Disk
		var path string
		r.proxy = &c04Store{}
		if t.Bool() {
			disk = simkit.NewDisk()
			dir := world.NewDataDir(disk)
			c.Defer(func() { world.ReleaseDataDir(dir) })
			path = dir + "/states"
			st, err := leveldbstore.NewLevelDBStore(path)
			c.Must(err, "open leveldb on simdisk")
			r.proxy.cur = st
			c.Logf("leveldb on simdisk")
		} else {
			r.proxy.cur = leveldbstore.NewMemLevelDBStore()
			c.Logf("leveldb on memory storage")
		}
		c.Defer(func() {
			if r.proxy.cur != nil {
				r.proxy.cur.Close()
			}
		})
		r.keys = c04GenKeys(t)
		for _, k := range r.keys {
			if len(k) == 0 {
				c.Probe("c04_empty_key")
			}
			r.raws = append(r.raws, c04Raw(k))
		}
		// foreign-prefix neighbours: must never show up in a storage iterator
		foreign := [][]byte{{0x04}, {0x04, 0xff, 0xff}, {0x06}, {0x06, 0x00}, {0x05 + 0x2b}}
		nf := t.Choose(len(foreign) + 1)
		for _, f := range foreign[:nf] {
			r.raws = append(r.raws, f)
		}
		// ---- pre-populate LevelDB
		npre := 0
		for _, raw := range r.raws {
			if t.Prob(2, 5) {
				v := r.val()
				c.Must(r.proxy.Put(raw, v), "prepopulate")
				r.m.back[string(raw)] = v
				npre++
			}
		}
		c.Logf("%d storage keys, %d foreign keys, %d pre-populated in leveldb", len(r.keys), nf, npre)
		r.ov = overlaydb.NewOverlayDB(r.proxy)
		r.cache = storage.NewCacheDB(r.ov)

		// ---- swarm: per-run weights
		mul := func(base int) int { return base * []int{1, 0, 3}[t.Pick(3, 1, 1)] }
		wPut, wDel, wPutEmpty, wGet, wIter := 10, mul(5), mul(1), 6, 6
		wCommit, wReset, wOvPut, wOvDel, wOvReset := mul(3), mul(2), mul(1), mul(1), mul(1)
		wFlush, wNewBlock, wRestart := mul(2), mul(1), mul(1)
		if disk == nil {
			wRestart = 0
		}
		nOps := 1 + t.Choose([]int{20, 80, 300}[t.Pick(3, 4, 1)])
		for i := 0; i < nOps; i++ {
			switch t.Pick(wPut, wDel, wPutEmpty, wGet, wIter, wCommit, wReset, wOvPut, wOvDel, wOvReset, wFlush, wNewBlock, wRestart) {
			case 0:
				k := r.keys[t.Choose(len(r.keys))]
				v := r.val()
				r.cache.Put(k, v)
				r.m.cache[string(c04Raw(k))] = v
				c.Logf("put %s=%s", c04S(k), c04V(v))
				r.checkGet(k)
			case 1:
				k := r.keys[t.Choose(len(r.keys))]
				r.cache.Delete(k)
				r.m.cache[string(c04Raw(k))] = nil
				c.Logf("del %s", c04S(k))
				r.checkGet(k)
			case 2:
				k := r.keys[t.Choose(len(r.keys))]
				r.cache.Put(k, []byte{})
				r.m.cache[string(c04Raw(k))] = nil
				c.Logf("put-empty %s", c04S(k))
				r.checkGet(k)
			case 3:
				if t.Prob(1, 4) {
					r.checkOverlayGet(r.raws[t.Choose(len(r.raws))])
				} else {
					r.checkGet(r.pickKeyOrNear())
				}
			case 4:
				if t.Prob(1, 3) {
					r.checkOverlayIter(r.pickRawPrefix())
				} else {
					r.checkCacheIter(r.pickPrefix())
				}
			case 5:
				n := len(r.m.cache)
				r.cache.Commit()
				for k, v := range r.m.cache {
					r.m.over[k] = v
					if len(v) == 0 {
						c.Probe("c04_tombstone_committed_to_overlay")
					}
				}
				r.m.cache = map[string][]byte{}
				c.Logf("commit cache (%d entries)", n)
				if n > 0 {
					r.committed = true
					c.Probe("c04_commit_nonempty")
				}
				r.sweep("after-commit")
			case 6:
				n := len(r.m.cache)
				r.cache.Reset()
				r.m.cache = map[string][]byte{}
				c.Logf("reset cache (%d entries)", n)
				if n > 0 {
					c.Probe("c04_reset_nonempty")
				}
				r.sweep("after-reset")
			case 7:
				raw := r.raws[t.Choose(len(r.raws))]
				v := r.val()
				r.ov.Put(raw, v)
				r.m.over[string(raw)] = v
				c.Logf("overlay put %s=%s", c04S(raw), c04V(v))
				r.checkOverlayGet(raw)
			case 8:
				raw := r.raws[t.Choose(len(r.raws))]
				r.ov.Delete(raw)
				r.m.over[string(raw)] = nil
				c.Logf("overlay del %s", c04S(raw))
				r.checkOverlayGet(raw)
			case 9:
				r.ov.Reset()
				c.Logf("overlay reset (%d entries)", len(r.m.over))
				r.m.over = map[string][]byte{}
				r.sweep("after-overlay-reset")
			case 10:
				if disk != nil && t.Prob(1, 4) {
					// the process dies during the flush (between CommitTo and the end of BatchCommit):
					// after the restart LevelDB holds what it held before, or the whole write set
					if t.Prob(1, 8) {
						// a large write set (more than a thousand records in one batch)
						for k := 0; k < 1100+t.Choose(500); k++ {
							raw := append([]byte{byte(scommon.ST_STORAGE), 0xfe, 0x42}, byte(k>>8), byte(k))
							v := r.val()
							r.ov.Put(raw, v)
							r.m.over[string(raw)] = v
						}
						c.Probe("c04_large_write_set")
					}
					after := map[string][]byte{}
					for k, v := range r.m.back {
						after[k] = v
					}
					for k, v := range r.m.over {
						if len(v) == 0 {
							delete(after, k)
						} else {
							after[k] = v
						}
					}
					world.Quiesce()
					disk.ArmCrash(1+t.Choose(6), t.Choose(3)*100)
					r.proxy.NewBatch()
					r.ov.CommitTo()
					ferr := r.proxy.BatchCommit()
					if !disk.Crashed() {
						disk.Disarm()
						c.Must(ferr, "leveldb batch commit")
						r.m.back = after
						r.ov.Reset()
						r.m.over = map[string][]byte{}
						r.sweep("after-flush")
						break
					}
					c.Fault("crash_in_flush")
					c.Probe("c04_crash_in_flush")
					crashInfo := disk.CrashInfo
					c.Logf("CRASH during the flush at %s (err %v)", crashInfo, ferr)
					func() {
						defer func() { recover() }()
						r.proxy.cur.Close()
					}()
					r.proxy.cur = nil
					world.Quiesce()
					disk.Restart()
					st, err := leveldbstore.NewLevelDBStore(path)
					if err != nil {
						c.Fail("reopen-fails", "crash-in-flush", "reopen of leveldb after a crash during the flush (%s) fails: %v", crashInfo, err)
					}
					r.proxy.cur = st
					got := map[string][]byte{}
					it := st.NewIterator(nil)
					for ok := it.First(); ok; ok = it.Next() {
						got[string(it.Key())] = append([]byte(nil), it.Value()...)
					}
					it.Release()
					same := func(a, b map[string][]byte) bool {
						if len(a) != len(b) {
							return false
						}
						for k, v := range a {
							if w, ok := b[k]; !ok || !bytes.Equal(v, w) {
								return false
							}
						}
						return true
					}
					switch {
					case same(got, after):
						r.m.back = after
						c.Probe("c04_crash_kept_flush")
					case same(got, r.m.back):
						c.Probe("c04_crash_lost_flush")
					default:
						nOld, nNew := 0, 0
						for k, v := range got {
							if w, ok := r.m.back[k]; ok && bytes.Equal(v, w) {
								nOld++
							}
							if w, ok := after[k]; ok && bytes.Equal(v, w) {
								nNew++
							}
						}
						c.Fail("flush-not-atomic", "crash-in-flush", "after a crash during the flush (%s) LevelDB holds %d entries: neither what it held before (%d entries, %d agree) nor the whole write set applied (%d entries, %d agree)", crashInfo, len(got), len(r.m.back), nOld, len(after), nNew)
					}
					// the memory layers died with the process
					r.ov = overlaydb.NewOverlayDB(r.proxy)
					r.cache = storage.NewCacheDB(r.ov)
					r.m.over = map[string][]byte{}
					r.m.cache = map[string][]byte{}
					r.sweep("after-crash-in-flush")
					break
				}
				r.proxy.NewBatch()
				r.ov.CommitTo()
				c.Must(r.proxy.BatchCommit(), "leveldb batch commit")
				for k, v := range r.m.over {
					if len(v) == 0 {
						if _, ok := r.m.back[k]; ok {
							c.Probe("c04_backend_delete_by_flush")
						}
						delete(r.m.back, k)
					} else {
						r.m.back[k] = v
					}
				}
				if t.Bool() {
					r.ov.Reset()
					r.m.over = map[string][]byte{}
					c.Probe("c04_flush_clear_overlay")
					c.Logf("flush overlay to leveldb, clear overlay")
				} else {
					c.Probe("c04_flush_keep_overlay")
					c.Logf("flush overlay to leveldb, keep overlay")
				}
				r.sweep("after-flush")
			case 11:
				r.ov = overlaydb.NewOverlayDB(r.proxy)
				r.cache = storage.NewCacheDB(r.ov)
				r.m.over = map[string][]byte{}
				r.m.cache = map[string][]byte{}
				c.Logf("new overlay and cache")
				r.sweep("after-new-block")
			case 12:
				c.Must(r.proxy.cur.Close(), "close leveldb")
				r.proxy.cur = nil
				world.Quiesce()
				disk.Restart()
				st, err := leveldbstore.NewLevelDBStore(path)
				if err != nil {
					c.Fail("reopen-fails", "clean-restart", "clean reopen of leveldb fails: %v", err)
				}
				r.proxy.cur = st
				c.Fault("clean_restart")
				c.Probe("c04_restart")
				c.Logf("leveldb clean restart")
				r.sweep("after-restart")
			}
			if err := r.ov.Error(); err != nil {
				c.Fail("store-error", "healthy-store", "overlay reports error on a healthy store: %v", err)
			}
		}
		r.sweep("end")
		if r.committed && r.merged {
			c.NonTrivial()
		}
	})
}

func (r *c04Run) pickKeyOrNear() []byte {
	k := r.keys[r.t.Choose(len(r.keys))]
	switch r.t.Pick(6, 1, 1) {
	case 1: // a key that was never written: one byte longer
		return append(append([]byte(nil), k...), 'z')
	case 2:
		if len(k) > 0 {
			return k[:len(k)-1]
		}
	}
	return k
}

func (r *c04Run) pickPrefix() []byte {
	k := r.keys[r.t.Choose(len(r.keys))]
	switch r.t.Pick(3, 3, 2, 1, 1) {
	case 0:
		return []byte{}
	case 1:
		if len(k) > 0 {
			return append([]byte(nil), k[:1+r.t.Choose(len(k))]...)
		}
		return k
	case 2:
		return k
	case 3:
		return append(append([]byte(nil), k...), 'z')
	default:
		return []byte{0xff}
	}
}

func (r *c04Run) pickRawPrefix() []byte {
	switch r.t.Pick(4, 1, 1, 1) {
	case 0:
		return c04Raw(r.pickPrefix())
	case 1:
		return []byte{}
	case 2:
		return []byte{0x04}
	default:
		return []byte{0x06}
	}
}

func (r *c04Run) checkGet(k []byte) {
	got, err := r.cache.Get(k)
	if err != nil {
		r.c.Fail("get-error", "cache", "CacheDB.Get(%x): %v", k, err)
	}
	exp := r.m.get(string(c04Raw(k)), c04LvCache)
	r.c.Logf("get %s -> %s", c04S(k), c04V(got))
	if !bytes.Equal(got, exp) {
		r.c.Fail("get-differs", "cache", "CacheDB.Get(%x) = %s, model (most recent write) says %s [cache:%s overlay:%s leveldb:%s]", k, c04V(got), c04V(exp), r.where(r.m.cache, c04Raw(k)), r.where(r.m.over, c04Raw(k)), r.where(r.m.back, c04Raw(k)))
	}
	layers := 0
	for _, mm := range []map[string][]byte{r.m.cache, r.m.over, r.m.back} {
		if _, ok := mm[string(c04Raw(k))]; ok {
			layers++
		}
	}
	if layers == 3 {
		r.c.Probe("c04_key_in_3_layers")
	} else if layers == 2 {
		r.c.Probe("c04_key_in_2_layers")
	}
}

func (r *c04Run) where(mm map[string][]byte, raw []byte) string {
	v, ok := mm[string(raw)]
	if !ok {
		return "-"
	}
	if len(v) == 0 {
		return "tombstone"
	}
	return c04V(v)
}

func (r *c04Run) checkOverlayGet(raw []byte) {
	got, err := r.ov.Get(raw)
	if err != nil {
		r.c.Fail("get-error", "overlay", "OverlayDB.Get(%x): %v", raw, err)
	}
	exp := r.m.get(string(raw), c04LvOverlay)
	r.c.Logf("overlay get %s -> %s", c04S(raw), c04V(got))
	if !bytes.Equal(got, exp) {
		r.c.Fail("get-differs", "overlay", "OverlayDB.Get(%x) = %s, model says %s [overlay:%s leveldb:%s]", raw, c04V(got), c04V(exp), r.where(r.m.over, raw), r.where(r.m.back, raw))
	}
}

// probes: classify what the join iterator has to merge, from the model.
func (r *c04Run) iterProbes(lv string, mem map[string][]byte, backLive []c04KV, prefix string) {
	var mk []string
	for k := range mem {
		if strings.HasPrefix(k, prefix) {
			mk = append(mk, k)
		}
	}
	sort.Strings(mk)
	back := map[string]bool{}
	for _, kv := range backLive {
		back[kv.k] = true
	}
	p := func(name string) { r.c.Probe("c04_" + lv + "_" + name) }
	switch {
	case len(mk) == 0 && len(backLive) == 0:
		p("both_empty")
	case len(mk) == 0:
		p("mem_empty")
	case len(backLive) == 0:
		p("back_empty")
	default:
		r.merged = true
		if mk[len(mk)-1] < backLive[len(backLive)-1].k {
			p("mem_exhausted_first")
		} else if mk[len(mk)-1] > backLive[len(backLive)-1].k {
			p("back_exhausted_first")
		}
	}
	live := 0
	for _, k := range mk {
		tomb := len(mem[k]) == 0
		if !tomb {
			live++
		}
		switch {
		case back[k] && tomb:
			p("tombstone_over_backend")
			p("FromBoth")
		case back[k]:
			p("FromBoth")
		case tomb:
			p("tombstone_mem_only")
			p("FromMem")
		default:
			p("FromMem")
		}
	}
	for _, kv := range backLive {
		if _, ok := mem[kv.k]; !ok {
			p("FromBack")
			live++
		}
	}
	if len(mk) > 0 {
		first, last := mk[0], mk[len(mk)-1]
		if len(mem[first]) == 0 && (len(backLive) == 0 || first <= backLive[0].k) {
			p("first_is_tombstone")
		}
		if len(mem[last]) == 0 && (len(backLive) == 0 || last >= backLive[len(backLive)-1].k) {
			p("last_is_tombstone")
		}
		if live == 0 {
			p("all_tombstones")
		}
	}
}

func (r *c04Run) drain(it scommon.StoreIterator) ([]c04KV, error) {
	var got []c04KV
	for ok := it.First(); ok; ok = it.Next() {
		got = append(got, c04KV{string(it.Key()), append([]byte(nil), it.Value()...)})
		if len(got) > 4096 {
			break
		}
	}
	err := it.Error()
	it.Release()
	return got, err
}

func c04DiffList(got, exp []c04KV) string {
	for i := 0; i < len(got) || i < len(exp); i++ {
		switch {
		case i >= len(got):
			return fmt.Sprintf("ends after %d elements, live key %x (value %s) is missing", len(got), exp[i].k, c04V(exp[i].v))
		case i >= len(exp):
			return fmt.Sprintf("element %d is key %x (value %s) but only %d live keys have the prefix", i, got[i].k, c04V(got[i].v), len(exp))
		case got[i].k != exp[i].k:
			return fmt.Sprintf("element %d is key %x, expected key %x", i, got[i].k, exp[i].k)
		case !bytes.Equal(got[i].v, exp[i].v):
			return fmt.Sprintf("element %d key %x has value %s, most recent write is %s", i, got[i].k, c04V(got[i].v), c04V(exp[i].v))
		}
	}
	return ""
}

func (r *c04Run) checkCacheIter(prefix []byte) {
	raw := string(c04Raw(prefix))
	it := r.cache.NewIterator(prefix)
	// other reads may happen between creating an iterator and positioning it
	// (and two iterators may be open at once): they must not disturb it
	for n := r.t.Choose(3); n > 0; n-- {
		if r.t.Bool() {
			r.c.Probe("read_between_newiterator_and_first")
			r.checkGet(r.pickKeyOrNear())
		} else {
			r.c.Probe("second_iterator_while_first_open")
			p2 := r.pickPrefix()
			raw2 := string(c04Raw(p2))
			got2, err2 := r.drain(r.cache.NewIterator(p2))
			if err2 != nil {
				r.c.Fail("iterator-error", "cache", "CacheDB.NewIterator(%x): %v", p2, err2)
			}
			exp2 := r.m.list(raw2, c04LvCache)
			e2 := make([]c04KV, len(exp2))
			for i, kv := range exp2 {
				e2[i] = c04KV{kv.k[1:], kv.v}
			}
			if d := c04DiffList(got2, e2); d != "" {
				r.c.Fail("iterator-differs", "cache", "CacheDB.NewIterator(%x) (opened while another iterator was open): %s", p2, d)
			}
		}
	}
	got, err := r.drain(it)
	if err != nil {
		r.c.Fail("iterator-error", "cache", "CacheDB.NewIterator(%x): %v", prefix, err)
	}
	expRaw := r.m.list(raw, c04LvCache)
	exp := make([]c04KV, len(expRaw))
	for i, kv := range expRaw {
		exp[i] = c04KV{kv.k[1:], kv.v}
	}
	r.c.Logf("iterate %s -> %d keys", c04S(prefix), len(got))
	r.iterProbes("c", r.m.cache, r.m.list(raw, c04LvOverlay), raw)
	if d := c04DiffList(got, exp); d != "" {
		r.c.Fail("iterator-differs", "cache", "CacheDB.NewIterator(%x): %s", prefix, d)
	}
}

func (r *c04Run) checkOverlayIter(raw []byte) {
	got, err := r.drain(r.ov.NewIterator(raw))
	if err != nil {
		r.c.Fail("iterator-error", "overlay", "OverlayDB.NewIterator(%x): %v", raw, err)
	}
	exp := r.m.list(string(raw), c04LvOverlay)
	r.c.Logf("overlay iterate %s -> %d keys", c04S(raw), len(got))
	r.iterProbes("o", r.m.over, r.m.list(string(raw), c04LvBack), string(raw))
	if d := c04DiffList(got, exp); d != "" {
		r.c.Fail("iterator-differs", "overlay", "OverlayDB.NewIterator(%x): %s", raw, d)
	}
}

// sweep: every key through both Get paths and the full-range iterators.
func (r *c04Run) sweep(when string) {
	for _, k := range r.keys {
		got, err := r.cache.Get(k)
		if err != nil {
			r.c.Fail("get-error", when+"/cache", "CacheDB.Get(%x): %v", k, err)
		}
		if exp := r.m.get(string(c04Raw(k)), c04LvCache); !bytes.Equal(got, exp) {
			r.c.Fail("get-differs", when+"/cache", "%s: CacheDB.Get(%x) = %s, model says %s [cache:%s overlay:%s leveldb:%s]", when, k, c04V(got), c04V(exp), r.where(r.m.cache, c04Raw(k)), r.where(r.m.over, c04Raw(k)), r.where(r.m.back, c04Raw(k)))
		}
	}
	for _, raw := range r.raws {
		got, err := r.ov.Get(raw)
		if err != nil {
			r.c.Fail("get-error", when+"/overlay", "OverlayDB.Get(%x): %v", raw, err)
		}
		if exp := r.m.get(string(raw), c04LvOverlay); !bytes.Equal(got, exp) {
			r.c.Fail("get-differs", when+"/overlay", "%s: OverlayDB.Get(%x) = %s, model says %s [overlay:%s leveldb:%s]", when, raw, c04V(got), c04V(exp), r.where(r.m.over, raw), r.where(r.m.back, raw))
		}
		gb, err := r.proxy.Get(raw)
		if err != nil && err != scommon.ErrNotFound {
			r.c.Fail("get-error", when+"/leveldb", "LevelDBStore.Get(%x): %v", raw, err)
		}
		if exp := r.m.back[string(raw)]; !bytes.Equal(gb, exp) {
			r.c.Fail("get-differs", when+"/leveldb", "%s: LevelDBStore.Get(%x) = %s, model says %s", when, raw, c04V(gb), c04V(exp))
		}
	}
	got, err := r.drain(r.cache.NewIterator(nil))
	if err != nil {
		r.c.Fail("iterator-error", when+"/cache", "CacheDB.NewIterator(nil): %v", err)
	}
	expRaw := r.m.list(string(c04Raw(nil)), c04LvCache)
	exp := make([]c04KV, len(expRaw))
	for i, kv := range expRaw {
		exp[i] = c04KV{kv.k[1:], kv.v}
	}
	if d := c04DiffList(got, exp); d != "" {
		r.c.Fail("iterator-differs", when+"/cache", "%s: CacheDB.NewIterator(nil): %s", when, d)
	}
	got, err = r.drain(r.ov.NewIterator(nil))
	if err != nil {
		r.c.Fail("iterator-error", when+"/overlay", "OverlayDB.NewIterator(nil): %v", err)
	}
	if d := c04DiffList(got, r.m.list("", c04LvOverlay)); d != "" {
		r.c.Fail("iterator-differs", when+"/overlay", "%s: OverlayDB.NewIterator(nil): %s", when, d)
	}
	r.c.Logf("sweep %s: %d live at cache level", when, len(exp))
	r.c.State(when, len(r.m.cache), len(r.m.over), len(r.m.back), len(exp))
}
