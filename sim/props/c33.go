package props

import (
	"encoding/json"
	"fmt"
	"sort"

	"github.com/ontio/ontology-crypto/keypair"
	"github.com/ontio/ontology/account"
	"github.com/ontio/ontology/common"
	vconfig "github.com/ontio/ontology/consensus/vbft/config"
	"github.com/ontio/ontology/core/signature"
	"github.com/ontio/ontology/core/types"
	ccom "github.com/ontio/ontology/smartcontract/service/native/cross_chain/common"
	"github.com/ontio/ontology/smartcontract/service/native/cross_chain/header_sync"
	nutils "github.com/ontio/ontology/smartcontract/service/native/utils"

	"ontosim/simkit"
	"ontosim/world"
)

func init() {
	simkit.Register(&simkit.Prop{
		ID:             "C33",
		Desc:           "cross-chain headers need signatures of two thirds of distinct peers",
		Rule:           "a run = a ledger whose header-sync contract first stores a side chain's genesis header (4..7 consensus peers) through a real syncGenesisHeader transaction, then 4..16 syncBlockHeader transactions from a Byzantine relayer carrying side-chain headers with tape-chosen signer sections: k distinct members with valid signatures (k around the 2/3 bound), one member listed several times with repeated signatures, distinct members listed with one member's signature standing in for another's, non-members, invalid / swapped signatures, fewer signatures than bookkeepers; some headers carry a new chain configuration, which changes the peer set governing later heights (history dimension); headers travel as bytes inside real transactions in real blocks. Oracle: a header is STORED by the contract (read back from contract storage) only if the number of DISTINCT members of the governing peer set with a valid signature over the header hash, times 3, is at least the peer count times 2. non-trivial = >= 1 header accepted and >= 1 rejected with the oracle evaluated; distinct = distinct event-trace hash",
		Real:           []string{"smartcontract/service/native/cross_chain/header_sync (SyncGenesisHeader, SyncBlockHeader, VerifyHeader)", "cross_chain/common header codec", "core/signature", "core/store/ledgerstore + NeoVM native invoke path", "global_params operator check"},
		Stub:           []string{"solo block producer", "side chain (harness builds and signs its headers)", "relayer (harness)"},
		Assumptions:    []string{"the only simulator dimensions are forgery by a Byzantine relayer and the history of peer-set changes"},
		ExpectedProbes: []string{"header_accepted", "header_rejected", "peer_set_changed"},
		Run:            runC33,
	})
}

func c33HeaderBytes(h *ccom.Header) []byte {
	sink := common.NewZeroCopySink(nil)
	h.Serialization(sink)
	return sink.Bytes()
}

func runC33(c *simkit.Ctx) {
	c.Bubble(func() {
		t := c.Tape
		ch := world.NewSoloChain(c, "main")
		c.Must(ch.Open(), "open")
		const chainID = 7
		mkPeers := func(n int) []*account.Account {
			var out []*account.Account
			for i := 0; i < n; i++ {
				out = append(out, account.NewAccount(""))
			}
			return out
		}
		peers := mkPeers(4 + t.Choose(4))
		outsiders := mkPeers(2)
		configPayload := func(ps []*account.Account) []byte {
			cfg := &vconfig.ChainConfig{}
			for i, p := range ps {
				cfg.Peers = append(cfg.Peers, &vconfig.PeerConfig{Index: uint32(i + 1), ID: vconfig.PubkeyID(p.PublicKey)})
			}
			b, err := json.Marshal(&vconfig.VbftBlockInfo{NewChainConfig: cfg})
			c.Must(err, "payload")
			return b
		}
		plainPayload, _ := json.Marshal(&vconfig.VbftBlockInfo{})
		nonce := uint32(1)
		ts := ch.Now
		submit := func(method string, param interface{}, signer *account.Account) bool {
			nonce++
			mt, err := world.NativeTx(nutils.HeaderSyncContractAddress, 0, method, []interface{}{param}, 0, 2000000, nonce, signer.Address)
			c.Must(err, "build header-sync tx")
			c.Must(world.Sign(mt, signer), "sign")
			tx, err := world.Seal(mt)
			c.Must(err, "seal")
			ts += 3
			blk := ch.MakeBlock([]*types.Transaction{tx}, ts, uint64(nonce))
			if _, err := ch.Commit(blk); err != nil {
				c.Harness("block rejected: %v", err)
			}
			n, err := ch.Store.GetEventNotifyByTx(tx.Hash())
			c.Must(err, "notify")
			return n.State == 1
		}
		stored := func(height uint32) bool {
			cid, _ := nutils.GetUint64Bytes(chainID)
			hb, _ := nutils.GetUint32Bytes(height)
			v, err := ch.Store.GetStorageItem(nutils.HeaderSyncContractAddress, append(append([]byte(header_sync.HEADER_INDEX), cid...), hb...))
			return err == nil && len(v) > 0
		}
		// genesis header of the side chain, stored by the operator (= the bookkeeper on a solo net)
		gen := &ccom.Header{ChainID: chainID, Height: 0, ConsensusPayload: configPayload(peers), NextBookkeeper: peers[0].Address}
		ok := submit(header_sync.SYNC_GENESIS_HEADER, &header_sync.SyncGenesisHeaderParam{GenesisHeader: c33HeaderBytes(gen)}, ch.Book)
		if !ok || !stored(0) {
			c.Harness("syncGenesisHeader by the operator failed (ok=%v stored=%v)", ok, stored(0))
		}
		relayer := account.NewAccount("")
		governing := peers // peer set governing the next heights
		height := uint32(0)
		accepted, rejected := 0, 0
		nHeaders := 4 + t.Choose(13)
		for i := 0; i < nHeaders; i++ {
			height++
			hdr := &ccom.Header{ChainID: chainID, Height: height, Timestamp: uint32(1600000000 + i), ConsensusData: uint64(t.Choose(1 << 20)),
				ConsensusPayload: plainPayload, NextBookkeeper: governing[0].Address}
			var next []*account.Account
			if t.Prob(1, 6) {
				next = mkPeers(4 + t.Choose(4))
				hdr.ConsensusPayload = configPayload(next)
			}
			hash := hdr.Hash()
			n := len(governing)
			need := (2*n + 2) / 3 // smallest k with 3k >= 2n
			kind := t.Pick(3, 3, 3, 2, 2, 2, 2, 3)
			name := []string{"enough-distinct", "one-too-few", "duplicates-of-one-member", "non-member-added", "invalid-signature", "fewer-sigs-than-keys", "duplicates-padding-to-quorum", "repeated-signature-under-distinct-keys"}[kind]
			sign := func(a *account.Account) []byte {
				sg, err := signature.Sign(a, hash[:])
				c.Must(err, "sign header")
				return sg
			}
			perm := t.Perm(n)
			switch kind {
			case 0:
				k := need + t.Choose(n-need+1)
				for _, j := range perm[:k] {
					hdr.Bookkeepers = append(hdr.Bookkeepers, governing[j].PublicKey)
					hdr.SigData = append(hdr.SigData, sign(governing[j]))
				}
			case 1:
				for _, j := range perm[:need-1] {
					hdr.Bookkeepers = append(hdr.Bookkeepers, governing[j].PublicKey)
					hdr.SigData = append(hdr.SigData, sign(governing[j]))
				}
			case 2: // one member, listed `need` times, signing each time
				m := governing[perm[0]]
				for k := 0; k < need+t.Choose(2); k++ {
					hdr.Bookkeepers = append(hdr.Bookkeepers, m.PublicKey)
					hdr.SigData = append(hdr.SigData, sign(m))
				}
			case 3:
				for _, j := range perm[:need-1] {
					hdr.Bookkeepers = append(hdr.Bookkeepers, governing[j].PublicKey)
					hdr.SigData = append(hdr.SigData, sign(governing[j]))
				}
				o := outsiders[t.Choose(len(outsiders))]
				hdr.Bookkeepers = append(hdr.Bookkeepers, o.PublicKey)
				hdr.SigData = append(hdr.SigData, sign(o))
			case 4:
				for idx, j := range perm[:need] {
					hdr.Bookkeepers = append(hdr.Bookkeepers, governing[j].PublicKey)
					sg := sign(governing[j])
					if idx == 0 {
						sg = sign(outsiders[0]) // a signature by someone else in a member's slot
					}
					hdr.SigData = append(hdr.SigData, sg)
				}
			case 5:
				for idx, j := range perm[:need] {
					hdr.Bookkeepers = append(hdr.Bookkeepers, governing[j].PublicKey)
					if idx > 0 {
						hdr.SigData = append(hdr.SigData, sign(governing[j]))
					}
				}
			case 7: // `need` (or more) distinct members listed, one of their signatures replaced by a copy of another's
				k := need + t.Choose(n-need+1)
				for _, j := range perm[:k] {
					hdr.Bookkeepers = append(hdr.Bookkeepers, governing[j].PublicKey)
					hdr.SigData = append(hdr.SigData, sign(governing[j]))
				}
				if k >= 2 {
					for rep, cnt := 0, 1+k-need; rep < cnt; rep++ { // leave need-1 distinct signers
						dst := t.Choose(k)
						src := t.Choose(k)
						if src == dst {
							src = (dst + 1) % k
						}
						hdr.SigData[dst] = hdr.SigData[src]
					}
				}
			case 6: // need-1 distinct honest signers plus a repeat of one of them
				for _, j := range perm[:need-1] {
					hdr.Bookkeepers = append(hdr.Bookkeepers, governing[j].PublicKey)
					hdr.SigData = append(hdr.SigData, sign(governing[j]))
				}
				hdr.Bookkeepers = append(hdr.Bookkeepers, governing[perm[0]].PublicKey)
				hdr.SigData = append(hdr.SigData, sign(governing[perm[0]]))
			}
			// independent count: distinct members of the governing set with a valid signature
			member := map[string]*account.Account{}
			for _, p := range governing {
				member[vconfig.PubkeyID(p.PublicKey)] = p
			}
			valid := map[string]bool{}
			for _, bk := range hdr.Bookkeepers {
				id := vconfig.PubkeyID(bk)
				if _, isMember := member[id]; !isMember {
					continue
				}
				for _, sg := range hdr.SigData {
					if c16SigValid(bk, hash[:], sg) {
						valid[id] = true
						break
					}
				}
			}
			quorum := len(valid)*3 >= n*2
			submit(header_sync.SYNC_BLOCK_HEADER, &header_sync.SyncBlockHeaderParam{Address: relayer.Address, Headers: [][]byte{c33HeaderBytes(hdr)}}, relayer)
			st := stored(height)
			c.Logf("header %d peers=%d need=%d kind=%s listed=%d sigs=%d distinct-valid-members=%d -> stored=%v", height, n, need, name, len(hdr.Bookkeepers), len(hdr.SigData), len(valid), st)
			if st {
				accepted++
				c.Probe("header_accepted")
				if !quorum {
					c.FailSoft("header-accepted-without-two-thirds-distinct-signers", name,
						"side-chain header %d stored with valid signatures of only %d distinct members of the %d-peer set (%s; %d bookkeepers listed, %d signatures); two thirds need %d",
						height, len(valid), n, sortedIDs(valid), len(hdr.Bookkeepers), len(hdr.SigData), need)
				}
				if next != nil {
					governing = next
					c.Probe("peer_set_changed")
				}
			} else {
				rejected++
				c.Probe("header_rejected")
				if quorum && kind == 0 {
					c.Probe("honest_header_rejected")
				}
				height-- // the relayer retries this height with another header
			}
		}
		if accepted >= 1 && rejected >= 1 {
			c.NonTrivial()
		}
	})
}

func sortedIDs(m map[string]bool) string {
	var ids []string
	for k := range m {
		ids = append(ids, k[:8])
	}
	sort.Strings(ids)
	return fmt.Sprint(ids)
}

var _ = keypair.SerializePublicKey
