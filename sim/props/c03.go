package props

import (
	"bytes"
	"crypto/sha256"
	"fmt"
	"github.com/ontio/ontology/common"
	"sort"

	scommon "github.com/ontio/ontology/core/store/common"
	"github.com/ontio/ontology/core/store/leveldbstore"
	"github.com/ontio/ontology/core/store/overlaydb"
	"github.com/ontio/ontology/smartcontract/storage"

	"ontosim/simkit"
)

// C03: the per-block state-change hash (OverlayDB.ChangeHash) and the write
// set (OverlayDB.GetWriteSet().ForEach) depend only on the final value of each
// touched key (deletions recorded as empty values), not on the order in which
// keys were written, overwritten or deleted.
func init() {
	simkit.Register(&simkit.Prop{
		ID:   "C03",
		Desc: "block change hash and write set depend only on final key/value content, not on operation history",
		Rule: "a run = 1..4 rounds (blocks) over one real LevelDB pre-populated with some of the keys; per round a key universe of 1..24 keys (length 0..40, shared prefixes, empty key) and a random history A of put/delete/put-empty/same-value-overwrite ops; history B = A's per-key subsequences optionally dropped down to the final op, padded with noise (overwrites, same-value overwrites, delete-then-recreate, empty values, gets) and re-interleaved by the tape; history C = A through a transaction cache with tape-chosen commit splits and aborted (reset) transactions; each history is applied to its own OverlayDB (directly, or via CacheDB.Commit per op, or via commit splits). Oracle: ChangeHash and the ForEach sequence are equal for all copies and equal to sha256 / the list computed independently from the model's sorted (key, final value) list with deletions as empty values. About one run in 40 (thorough: 12) starts with a bulk block - a hot key of about a kilobyte rewritten 60..100 times with a growing value among small keys, or 14000..17000 distinct keys - written in one order and, final values only, in the opposite order: same oracle. Non-trivial = at least 2 touched keys and at least one key written more than once; distinct = distinct event-trace hash",
		Real: []string{"core/store/overlaydb (OverlayDB, MemDB skip list, ChangeHash, ForEach)", "smartcontract/storage CacheDB (Put/Delete/Get/Commit/Reset)", "core/store/leveldbstore + goleveldb (in-memory storage)"},
		Stub: []string{"no ledger: the harness plays the executor that writes into the cache/overlay"},
		Assumptions: []string{
			"an empty value is a deletion (memdb tombstone), as the property statement records deletions as empty",
			"the reference hash is sha256 over the concatenation key||value of the sorted final content, the encoding ChangeHash documents by its code; injectivity of that encoding is not part of the property",
		},
		ExpectedProbes: []string{"c03_tombstone_in_writeset", "c03_same_value_overwrite", "c03_delete_then_recreate", "c03_empty_value_put", "c03_multi_commit_split", "c03_aborted_tx_reset", "c03_backend_key_deleted", "c03_empty_key", "c03_histories_differ", "c03_empty_writeset", "c03_flushed_to_backend"},
		Run:            runC03,
	})
}

const (
	c03Put = iota
	c03Del
	c03Get
)

type c03Op struct {
	kind int
	key  int
	val  []byte
}

type c03KV struct{ k, v []byte }

func c03GenKeys(t *simkit.Tape) [][]byte {
	stems := [][]byte{{}, {'a'}, {'a', 'b'}, {0x00}, {0xff}, {0xff, 0xff}, {'a', 0x00}, {'b'}}
	alpha := []byte{0x00, 'a', 'b', 0xff}
	n := t.Range(1, 24)
	seen := map[string]bool{}
	var keys [][]byte
	for tries := 0; len(keys) < n && tries < 3*n; tries++ {
		k := append([]byte(nil), stems[t.Choose(len(stems))]...)
		sl := 0
		switch t.Pick(4, 4, 3, 2, 1) {
		case 1:
			sl = 1
		case 2:
			sl = 2
		case 3:
			sl = 3 + t.Choose(6)
		case 4:
			sl = 40 - len(k) - t.Choose(8)
		}
		for i := 0; i < sl; i++ {
			k = append(k, alpha[t.Choose(len(alpha))])
		}
		if seen[string(k)] {
			continue
		}
		seen[string(k)] = true
		keys = append(keys, k)
	}
	return keys
}

// c03Val builds a non-empty value from two small tape numbers.
func c03Val(t *simkit.Tape) []byte {
	n := 1
	switch t.Pick(4, 3, 2, 1) {
	case 1:
		n = 2 + t.Choose(6)
	case 2:
		n = 32
	case 3:
		n = 33 + t.Choose(200)
	}
	b := byte(t.Choose(256))
	v := make([]byte, n)
	for i := range v {
		v[i] = b + byte(i*7)
	}
	return v
}

func c03Raw(k []byte) []byte {
	return append([]byte{byte(scommon.ST_STORAGE)}, k...)
}

func c03Short(b []byte) string {
	if len(b) > 12 {
		return fmt.Sprintf("%x..(%d)", b[:10], len(b))
	}
	return fmt.Sprintf("%x", b)
}

func runC03(c *simkit.Ctx) {
	c.Bubble(func() {
		t := c.Tape
		store := leveldbstore.NewMemLevelDBStore()
		c.Defer(func() { store.Close() })
		if den := map[string]int{"quick": 40, "thorough": 12}[c.Tier]; den > 0 && t.Prob(1, den) {
			c03Bulk(c, t, store)
		}
		rounds := t.Range(1, 4)
		nontrivial := false
		for r := 0; r < rounds; r++ {
			if c03Round(c, t, store, r) {
				nontrivial = true
			}
		}
		if nontrivial {
			c.NonTrivial()
		}
	})
}

func c03Round(c *simkit.Ctx, t *simkit.Tape, store *leveldbstore.LevelDBStore, round int) bool {
	keys := c03GenKeys(t)
	nK := len(keys)
	for _, k := range keys {
		if len(k) == 0 {
			c.Probe("c03_empty_key")
		}
	}
	// pre-populate the persistent store with some of the keys
	inBackend := make([]bool, nK)
	npre := 0
	for i, k := range keys {
		if t.Prob(1, 3) {
			v := c03Val(t)
			c.Must(store.Put(c03Raw(k), v), "prepopulate")
			inBackend[i] = true
			npre++
		}
	}
	c.Logf("round %d: %d keys, %d of them put into leveldb", round, nK, npre)

	// ---- history A (random) and the model of the final content
	nOps := 0
	switch t.Pick(1, 4, 3, 1) {
	case 1:
		nOps = 1 + t.Choose(8)
	case 2:
		nOps = 5 + t.Choose(30)
	case 3:
		nOps = 30 + t.Choose(40)
	}
	final := map[int][]byte{} // touched key -> final value (nil/empty = deleted)
	writes := map[int]int{}
	var histA []c03Op
	for i := 0; i < nOps; i++ {
		k := t.Choose(nK)
		op := c03Op{key: k}
		switch t.Pick(6, 3, 1, 2) {
		case 0:
			op.kind, op.val = c03Put, c03Val(t)
		case 1:
			op.kind = c03Del
		case 2:
			op.kind, op.val = c03Put, []byte{}
			c.Probe("c03_empty_value_put")
		case 3: // overwrite with the value the key currently has in this history
			if cur, ok := final[k]; ok && len(cur) > 0 {
				op.kind, op.val = c03Put, append([]byte(nil), cur...)
				c.Probe("c03_same_value_overwrite")
			} else {
				op.kind, op.val = c03Put, c03Val(t)
			}
		}
		if op.kind == c03Put && len(op.val) > 0 {
			if cur, ok := final[k]; ok && len(cur) == 0 {
				c.Probe("c03_delete_then_recreate")
			}
		}
		final[k] = op.val
		writes[k]++
		histA = append(histA, op)
	}
	touched := make([]int, 0, len(final))
	for k := range final {
		touched = append(touched, k)
	}
	sort.Ints(touched)

	// ---- history B: per-key subsequences of A, optionally cut down to the
	// final op, padded with noise before the final op, re-interleaved
	perKey := map[int][]c03Op{}
	for _, op := range histA {
		perKey[op.key] = append(perKey[op.key], op)
	}
	var seqs [][]c03Op
	for _, k := range touched {
		seq := perKey[k]
		last := seq[len(seq)-1]
		if t.Prob(1, 3) {
			seq = nil // drop the key's earlier history
		} else {
			seq = append([]c03Op(nil), seq[:len(seq)-1]...)
		}
		for n := t.Pick(3, 2, 1, 1); n > 0; n-- {
			switch t.Pick(3, 2, 2, 2, 1) {
			case 0:
				seq = append(seq, c03Op{kind: c03Put, key: k, val: c03Val(t)})
			case 1:
				seq = append(seq, c03Op{kind: c03Del, key: k})
			case 2: // final value early: the final op becomes a same-value overwrite
				seq = append(seq, c03Op{kind: c03Put, key: k, val: append([]byte(nil), last.val...)})
				if len(last.val) > 0 {
					c.Probe("c03_same_value_overwrite")
				}
			case 3: // delete then recreate
				seq = append(seq, c03Op{kind: c03Put, key: k, val: c03Val(t)}, c03Op{kind: c03Del, key: k})
				if len(last.val) > 0 {
					c.Probe("c03_delete_then_recreate")
				}
			case 4:
				seq = append(seq, c03Op{kind: c03Get, key: k})
			}
			writes[k]++
		}
		seq = append(seq, last)
		seqs = append(seqs, seq)
	}
	var histB []c03Op
	for len(seqs) > 0 {
		i := t.Choose(len(seqs))
		histB = append(histB, seqs[i][0])
		seqs[i] = seqs[i][1:]
		if len(seqs[i]) == 0 {
			seqs = append(seqs[:i], seqs[i+1:]...)
		}
	}
	differ := len(histA) != len(histB)
	for i := 0; !differ && i < len(histA); i++ {
		a, b := histA[i], histB[i]
		differ = a.kind != b.kind || a.key != b.key || !bytes.Equal(a.val, b.val)
	}
	if differ {
		c.Probe("c03_histories_differ")
	}

	// ---- reference: sorted (raw key, final value) list and its sha256
	var want []c03KV
	for _, k := range touched {
		v := final[k]
		if len(v) == 0 {
			v = nil
			c.Probe("c03_tombstone_in_writeset")
			if inBackend[k] {
				c.Probe("c03_backend_key_deleted")
			}
		}
		want = append(want, c03KV{c03Raw(keys[k]), v})
	}
	sort.Slice(want, func(i, j int) bool { return bytes.Compare(want[i].k, want[j].k) < 0 })
	ref := sha256.New()
	for _, kv := range want {
		ref.Write(kv.k)
		ref.Write(kv.v)
	}
	var wantHash [32]byte
	ref.Sum(wantHash[:0])
	if len(want) == 0 {
		c.Probe("c03_empty_writeset")
	}
	c.State("content", fmt.Sprintf("%x", wantHash))

	// ---- apply the three histories, each to its own overlay
	type copyT struct {
		name string
		hist []c03Op
		mode int // 0 direct on the overlay, 1 cache+commit per op, 2 cache with commit splits
		ov   *overlaydb.OverlayDB
		hash [32]byte
		ws   []c03KV
	}
	copies := []*copyT{
		{name: "A", hist: histA, mode: t.Choose(3)},
		{name: "B", hist: histB, mode: t.Choose(3)},
		{name: "C", hist: histA, mode: 2},
	}
	if t.Prob(1, 4) {
		copies[2].hist = histB
	}
	for _, cp := range copies {
		cp.ov = overlaydb.NewOverlayDB(store)
		cache := storage.NewCacheDB(cp.ov)
		commits := 0
		c.Logf("copy %s mode %d: %d ops", cp.name, cp.mode, len(cp.hist))
		for i, op := range cp.hist {
			key := keys[op.key]
			switch {
			case op.kind == c03Get:
				if _, err := cache.Get(key); err != nil {
					c.Harness("get on healthy store: %v", err)
				}
				c.Logf(" %s#%d get k%d", cp.name, i, op.key)
				continue
			case cp.mode == 0 && op.kind == c03Put:
				cp.ov.Put(c03Raw(key), op.val)
			case cp.mode == 0:
				cp.ov.Delete(c03Raw(key))
			case op.kind == c03Put:
				cache.Put(key, op.val)
			default:
				cache.Delete(key)
			}
			if op.kind == c03Put {
				c.Logf(" %s#%d put k%d=%s v=%s", cp.name, i, op.key, c03Short(key), c03Short(op.val))
			} else {
				c.Logf(" %s#%d del k%d=%s", cp.name, i, op.key, c03Short(key))
			}
			if cp.mode == 1 || (cp.mode == 2 && t.Prob(1, 4)) {
				cache.Commit()
				commits++
				if cp.mode == 2 {
					c.Logf(" %s commit", cp.name)
					if t.Prob(1, 4) {
						// an aborted transaction: writes to any keys, then Reset
						for n := 1 + t.Choose(3); n > 0; n-- {
							k := t.Choose(nK)
							if t.Bool() {
								cache.Delete(keys[k])
							} else {
								cache.Put(keys[k], c03Val(t))
							}
						}
						cache.Reset()
						c.Probe("c03_aborted_tx_reset")
						c.Logf(" %s aborted transaction (reset)", cp.name)
					}
				}
			}
		}
		cache.Commit()
		commits++
		if cp.mode == 2 && commits >= 3 {
			c.Probe("c03_multi_commit_split")
		}
		if err := cp.ov.Error(); err != nil {
			c.Harness("overlay error on healthy store: %v", err)
		}
		h := cp.ov.ChangeHash()
		copy(cp.hash[:], h[:])
		cp.ov.GetWriteSet().ForEach(func(k, v []byte) {
			cp.ws = append(cp.ws, c03KV{append([]byte(nil), k...), append([]byte(nil), v...)})
		})
		c.Logf("copy %s: hash %x, write set %d entries", cp.name, cp.hash[:6], len(cp.ws))
	}

	// ---- oracle
	diffWS := func(got, exp []c03KV) string {
		for i := 0; i < len(got) || i < len(exp); i++ {
			switch {
			case i >= len(got):
				return fmt.Sprintf("entry %d missing: want key %x value %x", i, exp[i].k, exp[i].v)
			case i >= len(exp):
				return fmt.Sprintf("extra entry %d: key %x value %x", i, got[i].k, got[i].v)
			case !bytes.Equal(got[i].k, exp[i].k):
				return fmt.Sprintf("entry %d: key %x, want key %x", i, got[i].k, exp[i].k)
			case !bytes.Equal(got[i].v, exp[i].v):
				return fmt.Sprintf("entry %d key %x: value %x, want %x", i, got[i].k, got[i].v, exp[i].v)
			}
		}
		return ""
	}
	for _, cp := range copies[1:] {
		sig := fmt.Sprintf("copy%s-mode%d-vs-copyA-mode%d", cp.name, cp.mode, copies[0].mode)
		if d := diffWS(cp.ws, copies[0].ws); d != "" {
			c.Fail("writeset-differs-between-histories", sig, "round %d: write set of history %s differs from history A (same final content): %s", round, cp.name, d)
		}
		if cp.hash != copies[0].hash {
			c.Fail("change-hash-differs-between-histories", sig, "round %d: ChangeHash of history %s is %x, of history A %x (same final content)", round, cp.name, cp.hash, copies[0].hash)
		}
	}
	for _, cp := range copies {
		sig := fmt.Sprintf("copy%s-mode%d", cp.name, cp.mode)
		if d := diffWS(cp.ws, want); d != "" {
			c.Fail("writeset-not-final-content", sig, "round %d: write set of history %s is not the sorted final content: %s", round, cp.name, d)
		}
		if cp.hash != wantHash {
			c.Fail("change-hash-not-content-hash", sig, "round %d: ChangeHash of history %s is %x, sha256 over sorted final content is %x", round, cp.name, cp.hash, wantHash)
		}
	}

	// the block is persisted: the next round starts from a different backend
	if t.Prob(1, 2) {
		store.NewBatch()
		copies[t.Choose(3)].ov.CommitTo()
		c.Must(store.BatchCommit(), "batch commit")
		c.Probe("c03_flushed_to_backend")
		c.Logf("round %d flushed to leveldb", round)
	}

	multi := false
	for _, k := range touched {
		if writes[k] > 1 {
			multi = true
		}
	}
	return len(touched) >= 2 && multi
}

// c03Bulk: one block far larger than the ordinary rounds, so that the write
// buffer of the overlay's MemDB grows, is reallocated and holds mostly dead
// bytes: either one hot key rewritten 60..100 times with a growing value of
// about a kilobyte among a few small keys, or 14000..17000 distinct keys.
// History A writes in one order, history B writes only the final values in
// another; hash and write set must equal each other and the sorted content.
func c03Bulk(c *simkit.Ctx, t *simkit.Tape, store *leveldbstore.LevelDBStore) {
	type kv struct{ k, v []byte }
	final := map[string][]byte{}
	var histA []kv
	put := func(k, v []byte) {
		histA = append(histA, kv{k, v})
		final[string(k)] = v
	}
	mode := "hot-key"
	if t.Bool() {
		mode = "many-keys"
	}
	if mode == "hot-key" {
		hot := c03Raw([]byte("hot"))
		n := 60 + t.Choose(41)
		size := 800 + t.Choose(400)
		small := 3 + t.Choose(8)
		for i := 0; i < n; i++ {
			v := bytes.Repeat([]byte{byte('a' + i%26)}, size+4*i)
			put(hot, v)
			if t.Prob(1, 3) {
				k := c03Raw([]byte(fmt.Sprintf("acct%02d", t.Choose(small))))
				if t.Prob(1, 5) {
					put(k, []byte{})
				} else {
					put(k, c03Val(t))
				}
			}
		}
	} else {
		n := 14000 + t.Choose(3001)
		x := uint32(t.Choose(1 << 20))
		for i := 0; i < n; i++ {
			k := c03Raw([]byte{byte(i >> 16), byte(i >> 8), byte(i), 0x5a})
			x = x*1664525 + 1013904223
			if x%11 == 0 {
				put(k, []byte{})
			} else {
				put(k, []byte{byte(x >> 24), byte(x >> 16), byte(i)})
			}
		}
	}
	keys := make([]string, 0, len(final))
	for k := range final {
		keys = append(keys, k)
	}
	sort.Strings(keys)
	hasher := sha256.New()
	for _, k := range keys {
		hasher.Write([]byte(k))
		hasher.Write(final[k])
	}
	var want common.Uint256
	hasher.Sum(want[:0])
	ovA := overlaydb.NewOverlayDB(store)
	for _, op := range histA {
		if len(op.v) == 0 {
			ovA.Delete(op.k)
		} else {
			ovA.Put(op.k, op.v)
		}
	}
	ovB := overlaydb.NewOverlayDB(store)
	for i := len(keys) - 1; i >= 0; i-- { // final values only, descending key order
		k := []byte(keys[i])
		if v := final[keys[i]]; len(v) == 0 {
			ovB.Delete(k)
		} else {
			ovB.Put(k, v)
		}
	}
	c.Probe("c03_bulk_" + mode)
	c.Logf("bulk block (%s): %d writes, %d distinct keys", mode, len(histA), len(keys))
	for name, ov := range map[string]*overlaydb.OverlayDB{"A": ovA, "B": ovB} {
		if err := ov.Error(); err != nil {
			c.Fail("overlay-error", "bulk/"+mode, "history %s: %v", name, err)
		}
	}
	check := func(name string, ov *overlaydb.OverlayDB) {
		i := 0
		bad := ""
		ov.GetWriteSet().ForEach(func(k, v []byte) {
			if bad == "" {
				switch {
				case i >= len(keys):
					bad = fmt.Sprintf("entry %d (key %x) beyond the %d keys written", i, k, len(keys))
				case string(k) != keys[i]:
					bad = fmt.Sprintf("entry %d is key %x, want key %x", i, k, keys[i])
				case !bytes.Equal(v, final[keys[i]]):
					bad = fmt.Sprintf("entry %d key %x: value of %d bytes (%x...), the last write was %d bytes (%x...)", i, k, len(v), head(v, 8), len(final[keys[i]]), head(final[keys[i]], 8))
				}
			}
			i++
		})
		if bad == "" && i != len(keys) {
			bad = fmt.Sprintf("write set has %d entries, %d keys were written", i, len(keys))
		}
		if bad != "" {
			c.Fail("writeset-not-final-content", "bulk/"+mode, "bulk block, history %s: %s", name, bad)
		}
		if h := ov.ChangeHash(); h != want {
			c.Fail("change-hash-not-content-hash", "bulk/"+mode, "bulk block, history %s: ChangeHash %x, sha256 over the sorted final content %x", name, h, want)
		}
	}
	check("A", ovA)
	check("B", ovB)
}
