package props

import (
	"bytes"
	"encoding/hex"
	"fmt"
	"sort"
	"strings"

	"github.com/ontio/ontology/common"
	"github.com/ontio/ontology/core/payload"
	"github.com/ontio/ontology/core/states"
	scom "github.com/ontio/ontology/core/store/common"
	"github.com/ontio/ontology/core/types"
	cutils "github.com/ontio/ontology/core/utils"
	"github.com/ontio/ontology/smartcontract/event"

	"ontosim/simkit"
	"ontosim/world"
)

// C44: migrating a contract moves all of its storage to the new address,
// destroying it removes all of it, and a destroyed or migrated-away address is
// never deployed or written to again.
func init() {
	simkit.Register(&simkit.Prop{
		ID:   "C44",
		Desc: "contract migration moves every storage entry (tx cache, block overlay, LevelDB; pending deletes respected) to the new address and leaves none under the old; destruction removes all; a destroyed or migrated-away address cannot be deployed or written again",
		Rule: "two kinds of run, tape-chosen. W-store (3 of 4): a real CacheDB -> OverlayDB -> in-memory LevelDB stack on network id 3; 2..6 contract addresses (a random one, its +-1 neighbours, all-zero, all-0xff, ..ff tail) and 1..24 storage keys of length 0..40 sharing prefixes (empty key, key = prefix of another key, keys equal to / starting with one of the addresses); up to ~120 put/delete/cache-commit/overlay-flush(next block)/cache-reset operations interleaved with MigrateContractStorage and CleanContractStorage at tape-chosen positions (every run has at least one); after every migration/destruction the statement is checked directly through CacheDB.Get / NewIterator / GetContract, and the whole content of prefixes ST_CONTRACT, ST_STORAGE, ST_DESTROYED at cache, overlay and LevelDB level is compared with a three-layer map model after every event, commit and flush. W-ledger (1 of 4): a real solo ledger (network id 3); a hand-assembled NeoVM contract (put / delete / get+notify / destroy / migrate / migrate-then-put / destroy-then-put / take-context-migrate-put) is deployed, 1..4 blocks of 1..4 transactions made of script fragments spread its storage over LevelDB (earlier blocks), the block overlay (earlier transactions of the block) and the transaction cache (earlier fragments of the same transaction), with deletes pending at each level; at a tape-chosen fragment the contract migrates (to fresh code, to a destroyed address, to a live one) or destroys itself; afterwards and in between: Storage.Put through a call of the old address, re-deployment of the old address by deploy transaction / Contract.Create / as migration target, reads through the new contract in the same transaction, second migrations. After every block the ST_STORAGE / ST_CONTRACT content of the state store for every address of the run, LedgerStore.GetStorageItem and the values notified by the contract's own Storage.Get are compared with a map model; transactions the model says must fail because they deploy or write a dead address must fail. In one W-ledger run of three the very last transaction lets the contract migrate or destroy itself and then Storage.Put with its own (old) context in the same invocation (mode migrate-then-put, context-taken-before-migrate, destroy-then-put): a known class of violation, evaluated last, the run ends there. Non-trivial = a migration or destruction succeeded on a contract with >= 2 live entries whose entries/tombstones sat in >= 2 of the 3 layers; distinct = distinct event-trace hash",
		Real: []string{"smartcontract/storage CacheDB (MigrateContractStorage, CleanContractStorage, SetContractDestroyed, GetContract)", "core/store/overlaydb (OverlayDB, MemDB, JoinIter written to while iterated)", "core/store/leveldbstore + goleveldb", "W-ledger: core/store/ledgerstore (executeBlock, HandleInvokeTransaction, HandleDeployTransaction), smartcontract + NeoVM + service/neovm (ContractMigrate, ContractDestory, ContractCreate, Storage*, APPCALL)"},
		Stub: []string{"W-store: the harness plays the contract service (calls the CacheDB methods directly) and the block loop (commit, flush, new overlay)", "W-ledger: solo block producer in the harness; no transaction pool / validators; wasm JIT stub archive (no wasm contracts)"},
		Assumptions: []string{
			"an empty value in CacheDB/OverlayDB is a deletion (documented tombstone encoding); LevelDB never holds empty values",
			"W-ledger: transactions whose predicted outcome differs from the real one for a reason outside the statement (e.g. a migration to a live address that succeeds) are harness errors, not violations; only deploy/write of a dead address succeeding is judged",
			"network id 3: destroyed-contract tracking is active from genesis",
		},
		ExpectedProbes: c44ExpectedProbes(),
		Run:            runC44,
	})
}

func c44ExpectedProbes() []string {
	var out []string
	for _, w := range []string{"c44_s_migrate", "c44_s_destroy", "c44_l_migrate", "c44_l_destroy"} {
		for _, l := range c44LvNames {
			out = append(out, w+"_entry_in_"+l)
		}
		out = append(out, w+"_pending_delete_in_txcache", w+"_pending_delete_in_overlay", w+"_key_prefix_of_key")
	}
	return append(out, "c44_s_migrate_three_layers", "c44_s_destroy_three_layers", "c44_s_migrate_empty_contract", "c44_s_empty_key", "c44_s_key_looks_like_address", "c44_s_adjacent_addresses",
		"c44_l_three_layers", "c44_l_empty_key", "c44_l_key_looks_like_address", "c44_l_redeploy_dead_by_tx", "c44_l_create_dead_in_script", "c44_l_call_dead", "c44_l_migrate_to_dead",
		"c44_l_migrate_to_live", "c44_l_self_put_after_migrate", "c44_l_self_put_after_destroy", "c44_l_ctx_put_after_migrate", "c44_l_get_after_migrate_same_tx", "c44_l_second_migration",
		"c44_l_tx_failed_as_predicted", "c44_l_put_new_after_migrate")
}

func runC44(c *simkit.Ctx) {
	c.Bubble(func() {
		if c.Tape.Pick(3, 1) == 0 {
			c.Logf("W-store")
			runC44Store(c)
		} else {
			c.Logf("W-ledger")
			runC44Ledger(c)
		}
	})
}

// ------------------------------------------------------------------ W-ledger

type c44W struct {
	blk, tx int
	del     bool
	v       []byte
}

type c44Contract struct {
	id       byte
	live     bool
	dead     string            // "", "destroyed", "migrated"
	hist     map[string][]c44W // per key: writes, newest last (cleared when the contract dies)
	from     int               // id it was migrated from (-1: none)
	lastGone map[string]string // dead contracts: origin tag of every key at the moment of death
}

func (k *c44Contract) cur(key string) []byte {
	h := k.hist[key]
	if len(h) == 0 || h[len(h)-1].del {
		return nil
	}
	return h[len(h)-1].v
}

type c44LModel struct {
	cs    map[byte]*c44Contract
	focus int // id of the contract the workload is about (-1: none alive)
}

func (m *c44LModel) clone() *c44LModel {
	n := &c44LModel{cs: map[byte]*c44Contract{}, focus: m.focus}
	for id, k := range m.cs {
		nk := &c44Contract{id: k.id, live: k.live, dead: k.dead, from: k.from, hist: map[string][]c44W{}, lastGone: k.lastGone}
		for key, h := range k.hist {
			nk.hist[key] = append([]c44W(nil), h...)
		}
		n.cs[id] = nk
	}
	return n
}

func (m *c44LModel) get(id byte) *c44Contract {
	k := m.cs[id]
	if k == nil {
		k = &c44Contract{id: id, hist: map[string][]c44W{}, from: -1}
		m.cs[id] = k
	}
	return k
}

func (m *c44LModel) ids() []int {
	var out []int
	for id := range m.cs {
		out = append(out, int(id))
	}
	sort.Ints(out)
	return out
}

func (m *c44LModel) deadIDs() []int {
	var out []int
	for _, id := range m.ids() {
		if m.cs[byte(id)].dead != "" {
			out = append(out, id)
		}
	}
	return out
}

type c44Tx struct {
	desc    []string
	tx      *types.Transaction
	expOK   bool
	reason  string // why the model says it fails
	stmt    bool   // ... and the reason is the statement's (deploy / write of a dead address)
	gets    []c44Get
	after   *c44LModel // model after the transaction if it succeeds
	isEvent bool
	// the transaction belongs to a known class of violation: which, and what it writes
	known    string
	knownID  byte
	knownKey []byte
	knownVal []byte
}

type c44Get struct {
	addr common.Address
	val  []byte
	tag  string
}

type c44lRun struct {
	c      *simkit.Ctx
	t      *simkit.Tape
	ch     *world.Chain
	m      *c44LModel
	keys   [][]byte
	nextID byte
	seq    int
	nonce  uint32
	ts     uint32
	blk    int
	usedK  map[string]bool // every key ever written under any address

	nontrivial bool
}

func (r *c44lRun) addr(id byte) common.Address { return c44Addr(r.c, id) }

func (r *c44lRun) val() []byte {
	r.seq++
	v := []byte(fmt.Sprintf("w%d", r.seq))
	switch r.t.Pick(5, 2, 1, 1) {
	case 1:
		v = append(v, bytes.Repeat([]byte{'.'}, 32)...)
	case 2:
		v = append(v, bytes.Repeat([]byte{'#'}, 150+r.t.Choose(200))...)
	case 3:
		return []byte{} // an empty value is still an entry
	}
	return v
}

func (r *c44lRun) fresh() byte {
	id := r.nextID
	r.nextID++
	return id
}

func (r *c44lRun) layer(w c44W, tx int) int {
	switch {
	case w.blk == r.blk && w.tx == tx:
		return c44LvCache
	case w.blk == r.blk:
		return c44LvOver
	}
	return c44LvBack
}

// origins: for every key of the contract, where its deciding write sits.
func (r *c44lRun) origins(k *c44Contract, tx int) map[string]string {
	out := map[string]string{}
	for key, h := range k.hist {
		last := h[len(h)-1]
		lv := r.layer(last, tx)
		if !last.del {
			out[key] = "entry-in-" + c44LvNames[lv]
			continue
		}
		out[key] = "deleted-key"
		for i := len(h) - 2; i >= 0; i-- {
			if l2 := r.layer(h[i], tx); l2 > lv {
				if !h[i].del {
					out[key] = "pending-delete-in-" + c44LvNames[lv] + "-over-" + c44LvNames[l2]
				}
				break
			}
		}
	}
	return out
}

func (r *c44lRun) eventProbes(what string, k *c44Contract, tx int) {
	c := r.c
	o := r.origins(k, tx)
	used := map[string]bool{}
	live := 0
	var liveKeys []string
	for key, tag := range o {
		switch {
		case strings.HasPrefix(tag, "entry-in-"):
			live++
			liveKeys = append(liveKeys, key)
			c.Probe("c44_l_" + what + "_" + strings.ReplaceAll(tag, "-", "_"))
			used[strings.TrimPrefix(tag, "entry-in-")] = true
		case strings.HasPrefix(tag, "pending-delete-in-"):
			parts := strings.Split(strings.TrimPrefix(tag, "pending-delete-in-"), "-over-")
			c.Probe("c44_l_" + what + "_pending_delete_in_" + parts[0])
			used[parts[0]] = true
			used[parts[1]] = true
		}
	}
	sort.Strings(liveKeys)
	for i := 1; i < len(liveKeys); i++ {
		if strings.HasPrefix(liveKeys[i], liveKeys[i-1]) {
			c.Probe("c44_l_" + what + "_key_prefix_of_key")
			break
		}
	}
	if len(used) == 3 {
		c.Probe("c44_l_three_layers")
	}
	if live >= 2 && len(used) >= 2 {
		r.nontrivial = true
	}
}

func (r *c44lRun) pickKey(k *c44Contract, preferExisting bool) []byte {
	if preferExisting && k != nil && r.t.Prob(3, 4) {
		var have []string
		for key := range k.hist {
			if k.cur(key) != nil {
				have = append(have, key)
			}
		}
		sort.Strings(have)
		if len(have) > 0 {
			return []byte(have[r.t.Choose(len(have))])
		}
	}
	return r.keys[r.t.Choose(len(r.keys))]
}

const (
	c44GenNormal = iota
	c44GenEvent  // one of the fragments is a migration or destruction
	c44GenFinal  // last transaction of the run: some writes, then the contract migrates/destroys itself and writes with its own context
)

// c44Stop ends a run after a violation that matches a known finding (the
// ledger and the model have diverged).
type c44Stop struct{}

// genScript generates one invoke transaction against the model s (a scratch copy).
func (r *c44lRun) genScript(s *c44LModel, txi int, mode int) *c44Tx {
	forceEvent := mode == c44GenEvent
	t := r.t
	c := r.c
	x := &c44Tx{expOK: true}
	a := newC05Asm()
	nFrag := 1 + t.Pick(2, 3, 3, 2, 1, 1)
	evAt := -1
	if forceEvent {
		evAt = t.Choose(nFrag)
	}
	write := func(k *c44Contract, key []byte, v []byte, del bool) {
		k.hist[string(key)] = append(k.hist[string(key)], c44W{blk: r.blk, tx: txi, del: del, v: v})
		r.usedK[string(key)] = true
	}
	fail := func(reason string, stmt bool) {
		x.expOK, x.reason, x.stmt = false, reason, stmt
	}
	die := func(k *c44Contract, how string, what string) {
		r.eventProbes(what, k, txi)
		k.lastGone = r.origins(k, txi)
		k.live, k.dead = false, how
		k.hist = map[string][]c44W{}
		x.isEvent = true
	}
	for i := 0; i < nFrag && x.expOK; i++ {
		var f *c44Contract
		if s.focus >= 0 {
			f = s.cs[byte(s.focus)]
		}
		kind := t.Pick(8, 4, 3, 1, 1, 2, 0, 0, 2, 1)
		if i == evAt {
			kind = 3 + t.Choose(2)
		}
		if mode == c44GenFinal {
			kind = t.Pick(3, 1)
			if i == nFrag-1 {
				kind = 6 + t.Choose(2)
			}
		}
		if f == nil && (kind <= 4 || kind == 6 || kind == 7) {
			kind = 8 // nothing alive to work on: create something
		}
		switch kind {
		case 0: // put
			key, v := r.pickKey(f, false), r.val()
			c44FragPut(a, r.addr(f.id), c44ModePut, key, v)
			write(f, key, v, false)
			x.desc = append(x.desc, fmt.Sprintf("put#%d(%s,%s)", f.id, c44Hex(key), c44V(v)))
			if f.from >= 0 {
				c.Probe("c44_l_put_new_after_migrate")
			}
		case 1: // delete
			key := r.pickKey(f, true)
			c44FragKey(a, r.addr(f.id), c44ModeDelete, key)
			write(f, key, nil, true)
			x.desc = append(x.desc, fmt.Sprintf("del#%d(%s)", f.id, c44Hex(key)))
		case 2: // read through the contract
			key := r.pickKey(f, true)
			c44FragKey(a, r.addr(f.id), c44ModeGet, key)
			tag := "never-written-key"
			if o, ok := r.origins(f, txi)[string(key)]; ok {
				tag = o
			}
			x.gets = append(x.gets, c44Get{r.addr(f.id), f.cur(string(key)), tag})
			x.desc = append(x.desc, fmt.Sprintf("get#%d(%s)", f.id, c44Hex(key)))
			if x.isEvent && f.from >= 0 {
				c.Probe("c44_l_get_after_migrate_same_tx")
			}
		case 3: // migrate
			var target byte
			how := t.Pick(6, 2, 1, 1)
			dead := s.deadIDs()
			switch {
			case how == 1 && len(dead) > 0:
				target = byte(dead[t.Choose(len(dead))])
			case how == 2:
				target = 1 // the bystander (alive unless it is the focus)
			case how == 3:
				target = f.id
			default:
				target = r.fresh()
			}
			tk := s.get(target)
			c44FragMigrate(a, r.addr(f.id), c44ContractCode(c, target))
			x.desc = append(x.desc, fmt.Sprintf("migrate#%d->#%d", f.id, target))
			switch {
			case tk.dead != "":
				fail("migrate-to-dead-address", true)
				c.Probe("c44_l_migrate_to_dead")
			case tk.live:
				fail("migrate-to-live-address", false)
				c.Probe("c44_l_migrate_to_live")
			default:
				if f.from >= 0 {
					c.Probe("c44_l_second_migration")
				}
				old := f.hist
				die(f, "migrated", "migrate")
				tk.live, tk.from = true, int(f.id)
				// the moved entries are written by this transaction
				var keys []string
				for key := range old {
					keys = append(keys, key)
				}
				sort.Strings(keys)
				for _, key := range keys {
					h := old[key]
					if last := h[len(h)-1]; !last.del {
						tk.hist[key] = []c44W{{blk: r.blk, tx: txi, v: last.v}}
					}
				}
				s.focus = int(target)
			}
		case 4: // destroy
			c44FragDestroy(a, r.addr(f.id))
			x.desc = append(x.desc, fmt.Sprintf("destroy#%d", f.id))
			die(f, "destroyed", "destroy")
			s.focus = -1
			if b := s.cs[1]; b != nil && b.live {
				s.focus = 1
			}
		case 5: // Storage.Put through a call of a dead (or never deployed) address
			dead := s.deadIDs()
			key, v := r.pickKey(nil, false), r.val()
			if len(dead) > 0 {
				id := byte(dead[t.Choose(len(dead))])
				c44FragPut(a, r.addr(id), c44ModePut, key, v)
				r.usedK[string(key)] = true
				x.desc = append(x.desc, fmt.Sprintf("put#%d(%s,%s)", id, c44Hex(key), c44V(v)))
				fail("call-of-dead-address", true)
				c.Probe("c44_l_call_dead")
			} else {
				id := byte(200)
				s.get(id)
				c44FragPut(a, r.addr(id), c44ModePut, key, v)
				r.usedK[string(key)] = true
				x.desc = append(x.desc, fmt.Sprintf("put#%d(%s,%s)", id, c44Hex(key), c44V(v)))
				fail("call-of-missing-contract", false)
			}
		case 6: // the contract migrates and then writes with its own (old) context
			target := r.fresh()
			s.get(target)
			key, v := r.pickKey(f, false), r.val()
			mode := int64(c44ModeMigrateThenPut)
			if t.Bool() {
				mode = c44ModeCtxMigratePut
				c.Probe("c44_l_ctx_put_after_migrate")
			} else {
				c.Probe("c44_l_self_put_after_migrate")
			}
			c44FragMigratePut(a, r.addr(f.id), mode, c44ContractCode(c, target), key, v)
			r.usedK[string(key)] = true
			x.desc = append(x.desc, fmt.Sprintf("migrate#%d->#%d-then-put-old(%s,%s)[mode %d]", f.id, target, c44Hex(key), c44V(v), mode))
			fail("old-context-put-after-migrate", true)
			x.known, x.knownID, x.knownKey, x.knownVal = "put-after-migrate", f.id, key, v
		case 7: // the contract destroys itself and then writes
			key, v := r.pickKey(f, false), r.val()
			c44FragPut(a, r.addr(f.id), c44ModeDestroyThenPut, key, v)
			r.usedK[string(key)] = true
			x.desc = append(x.desc, fmt.Sprintf("destroy#%d-then-put(%s,%s)", f.id, c44Hex(key), c44V(v)))
			fail("put-after-destroy", true)
			x.known, x.knownID, x.knownKey, x.knownVal = "put-after-destroy", f.id, key, v
			c.Probe("c44_l_self_put_after_destroy")
		case 8: // Contract.Create from the script: dead / fresh / live code
			dead := s.deadIDs()
			var id byte
			switch {
			case len(dead) > 0 && (f != nil || t.Bool()) && t.Prob(2, 3):
				id = byte(dead[t.Choose(len(dead))])
				c.Probe("c44_l_create_dead_in_script")
			case f != nil && t.Prob(1, 3):
				id = f.id
			default:
				id = r.fresh()
			}
			k := s.get(id)
			c44FragCreate(a, c44ContractCode(c, id))
			x.desc = append(x.desc, fmt.Sprintf("create#%d", id))
			if k.dead == "" && !k.live {
				k.live = true
				if s.focus < 0 {
					s.focus = int(id)
				}
			}
		case 9: // the bystander's storage
			b := s.cs[1]
			key, v := r.pickKey(b, false), r.val()
			c44FragPut(a, r.addr(1), c44ModePut, key, v)
			x.desc = append(x.desc, fmt.Sprintf("put#1(%s,%s)", c44Hex(key), c44V(v)))
			switch {
			case b.live:
				write(b, key, v, false)
			case b.dead != "":
				r.usedK[string(key)] = true
				fail("call-of-dead-address", true)
				c.Probe("c44_l_call_dead")
			default:
				fail("call-of-missing-contract", false)
			}
		}
	}
	m := world.InvokeTx(a.bytes(c), 0, 2000000000, r.nonce, r.ch.Book.Address)
	r.nonce++
	c.Must(world.Sign(m, r.ch.Book), "sign")
	tx, err := world.Seal(m)
	c.Must(err, "seal")
	x.tx = tx
	x.after = s
	return x
}

func (r *c44lRun) genDeploy(s *c44LModel) *c44Tx {
	t := r.t
	x := &c44Tx{expOK: true}
	dead := s.deadIDs()
	var id byte
	switch {
	case len(dead) > 0 && t.Prob(3, 4):
		id = byte(dead[t.Choose(len(dead))])
	case s.focus >= 0 && t.Prob(1, 3):
		id = byte(s.focus)
	default:
		id = r.fresh()
	}
	k := s.get(id)
	x.desc = []string{fmt.Sprintf("deploy-tx#%d", id)}
	switch {
	case k.dead != "":
		x.expOK, x.reason, x.stmt = false, "deploy-of-dead-address", true
		r.c.Probe("c44_l_redeploy_dead_by_tx")
	case !k.live:
		k.live = true
		if s.focus < 0 {
			s.focus = int(id)
		}
	}
	x.tx = r.deployTx(id)
	x.after = s
	return x
}

func (r *c44lRun) deployTx(id byte) *types.Transaction {
	m, err := cutils.NewDeployTransaction(c44ContractCode(r.c, id), "n", "v", "a", "e", "d", payload.NEOVM_TYPE)
	r.c.Must(err, "deploy tx")
	m.GasPrice, m.GasLimit, m.Nonce, m.Payer = 0, 2000000000, r.nonce, r.ch.Book.Address
	r.nonce++
	r.c.Must(world.Sign(m, r.ch.Book), "sign")
	tx, err := world.Seal(m)
	r.c.Must(err, "seal")
	return tx
}

func runC44Ledger(c *simkit.Ctx) {
	t := c.Tape
	r := &c44lRun{c: c, t: t, m: &c44LModel{cs: map[byte]*c44Contract{}, focus: 0}, usedK: map[string]bool{}, nonce: 1}
	r.ch = world.NewSoloChain(c, "c44")
	c.Must(r.ch.Open(), "open")
	r.ts = r.ch.Now
	r.nextID = 2
	// keys: some look like the addresses of the contracts the run will use
	var addrs []common.Address
	for id := byte(0); id < 6; id++ {
		addrs = append(addrs, r.addr(id))
	}
	r.keys = c44GenKeys(t, t.Range(2, 16), addrs)
	for _, k := range r.keys {
		if len(k) == 0 {
			c.Probe("c44_l_empty_key")
		}
		if len(k) >= 20 {
			c.Probe("c44_l_key_looks_like_address")
		}
	}
	// ---- block 1: the contract (#0) and a bystander (#1)
	r.blk = 1
	r.m.get(0).live = true
	r.m.get(1).live = true
	setup := []*c44Tx{
		{desc: []string{"deploy-tx#0"}, tx: r.deployTx(0), expOK: true},
		{desc: []string{"deploy-tx#1"}, tx: r.deployTx(1), expOK: true},
	}
	setup[0].after = r.m.clone()
	setup[1].after = setup[0].after
	r.runBlock(setup)

	nBlocks := 1 + t.Pick(2, 3, 2, 1)
	evBlk := nBlocks - 1 - t.Pick(3, 2, 1) // late, so that storage has spread over the layers
	if evBlk < 0 {
		evBlk = 0
	}
	for b := 0; b < nBlocks; b++ {
		r.blk = b + 2
		nTx := 1 + t.Pick(2, 3, 2, 1)
		evTx := -1
		if b == evBlk {
			evTx = t.Choose(nTx)
		}
		var txs []*c44Tx
		s := r.m.clone()
		for i := 0; i < nTx; i++ {
			scratch := s.clone()
			var x *c44Tx
			if i != evTx && t.Prob(1, 4) {
				x = r.genDeploy(scratch)
			} else {
				gm := c44GenNormal
				if i == evTx {
					gm = c44GenEvent
				}
				x = r.genScript(scratch, i, gm)
			}
			if x.expOK {
				s = x.after
			} else {
				x.after = nil
			}
			for id := range scratch.cs { // addresses a failing transaction referred to are watched too
				s.get(id)
			}
			txs = append(txs, x)
		}
		r.runBlock(txs)
	}
	// ---- last: the contract writes with its own context after it migrated /
	// destroyed itself (a known class of violation, so nothing follows it)
	if r.m.focus >= 0 && t.Prob(1, 3) {
		r.blk = nBlocks + 2
		func() {
			defer func() {
				if x := recover(); x != nil {
					if _, ok := x.(c44Stop); !ok {
						panic(x)
					}
					c.Logf("run ends after a known finding")
				}
			}()
			r.runBlock([]*c44Tx{r.genScript(r.m.clone(), 0, c44GenFinal)})
		}()
	}
	if r.nontrivial {
		c.NonTrivial()
	}
}

// runBlock executes the block and compares outcomes and state with the model.
func (r *c44lRun) runBlock(txs []*c44Tx) {
	c := r.c
	var raw []*types.Transaction
	for _, x := range txs {
		raw = append(raw, x.tx)
	}
	r.ts += uint32(1 + r.t.Choose(20))
	blk := r.ch.MakeBlock(raw, r.ts, uint64(r.nonce))
	res, err := r.ch.Commit(blk)
	if err != nil {
		c.Fail("block-refused", "ledger", "block %d is refused by the ledger: %v", blk.Header.Height, err)
	}
	if len(res.Notify) != len(txs) {
		c.Harness("block %d: %d transactions, %d notifies", blk.Header.Height, len(txs), len(res.Notify))
	}
	c.Logf("block %d", blk.Header.Height)
	for i, x := range txs {
		ok := res.Notify[i].State == event.CONTRACT_STATE_SUCCESS
		out := "ok"
		if !ok {
			out = "FAIL"
		}
		exp := "ok"
		if !x.expOK {
			exp = "FAIL:" + x.reason
		}
		c.Logf("  tx%d [%s] => %s (model: %s)", i, strings.Join(x.desc, " "), out, exp)
		switch {
		case ok && !x.expOK && x.known != "":
			// what did it leave behind?
			left := "nothing is stored under the old address"
			if v, err := r.ch.Store.GetStorageItem(r.addr(x.knownID), x.knownKey); err == nil {
				left = fmt.Sprintf("GetStorageItem(#%d,%s) = %s is now stored under the dead address", x.knownID, c44Hex(x.knownKey), c44V(v))
			}
			c.FailSoft("dead-address-written-by-own-code", "ledger/"+x.known, "block %d tx %d [%s] succeeds: after Contract.Migrate/Destroy the still executing contract writes with its own storage context (checkStorageContext lets a missing contract pass); %s", blk.Header.Height, i, strings.Join(x.desc, " "), left)
			panic(c44Stop{})
		case ok && !x.expOK && x.stmt:
			c.Fail("dead-address-usable", "ledger/"+x.reason, "block %d tx %d [%s] succeeds although it %s", blk.Header.Height, i, strings.Join(x.desc, " "), x.reason)
		case ok != x.expOK:
			c.Harness("block %d tx %d [%s]: real outcome %s, model %s", blk.Header.Height, i, strings.Join(x.desc, " "), out, exp)
		}
		if !ok {
			c.Probe("c44_l_tx_failed_as_predicted")
			continue
		}
		r.m = x.after
		// values read by the contract itself (through the transaction cache)
		var got [][]byte
		for _, n := range res.Notify[i].Notify {
			s, isStr := n.States.(string)
			if !isStr {
				continue
			}
			b, err := hex.DecodeString(s)
			c.Must(err, "notify hex")
			got = append(got, b)
		}
		if len(got) != len(x.gets) {
			c.Harness("block %d tx %d: %d values notified, %d reads generated", blk.Header.Height, i, len(got), len(x.gets))
		}
		for j, g := range x.gets {
			if !bytes.Equal(got[j], g.val) {
				c.Fail("read-through-contract-differs", "ledger/"+g.tag, "block %d tx %d [%s]: read %d returns %s inside the transaction, model %s (%s)", blk.Header.Height, i, strings.Join(x.desc, " "), j, c44V(got[j]), c44V(g.val), g.tag)
			}
		}
	}
	r.checkState(fmt.Sprintf("after block %d", blk.Header.Height))
}

// checkState compares the state store with the model for every address of the run.
func (r *c44lRun) checkState(when string) {
	c := r.c
	all, err := r.ch.Disk.DumpStore("states")
	c.Must(err, "dump")
	byAddr := map[common.Address]*c44Contract{}
	for _, id := range r.m.ids() {
		byAddr[r.addr(byte(id))] = r.m.cs[byte(id)]
	}
	realStor := map[common.Address]map[string][]byte{}
	realCon := map[common.Address]bool{}
	for _, kv := range all {
		if len(kv.K) < 21 {
			continue
		}
		var a common.Address
		copy(a[:], kv.K[1:21])
		if byAddr[a] == nil {
			continue
		}
		switch scom.DataEntryPrefix(kv.K[0]) {
		case scom.ST_CONTRACT:
			if len(kv.K) == 21 {
				realCon[a] = true
			}
		case scom.ST_STORAGE:
			v, err := states.GetValueFromRawStorageItem(kv.V)
			if err != nil {
				c.Fail("storage-item-undecodable", "ledger", "%s: storage item %x does not decode: %v", when, kv.K, err)
			}
			if realStor[a] == nil {
				realStor[a] = map[string][]byte{}
			}
			realStor[a][string(kv.K[21:])] = append([]byte{}, v...)
		}
	}
	for _, id := range r.m.ids() {
		k := r.m.cs[byte(id)]
		a := r.addr(k.id)
		death := ""
		switch k.dead {
		case "migrated":
			death = "after-migrate"
		case "destroyed":
			death = "after-destroy"
		}
		// ---- contract record
		if realCon[a] != k.live {
			if k.dead != "" {
				c.Fail("dead-address-usable", "ledger/contract-record-present-"+death, "%s: contract #%d (%s) has a deploy record in the state store again", when, k.id, k.dead)
			}
			c.Fail("contract-record-differs-from-model", "ledger", "%s: contract #%d deploy record present=%v, model live=%v", when, k.id, realCon[a], k.live)
		}
		// ---- storage
		var rkeys []string
		for key := range realStor[a] {
			rkeys = append(rkeys, key)
		}
		sort.Strings(rkeys)
		for _, key := range rkeys {
			v := realStor[a][key]
			want := k.cur(key)
			switch {
			case k.dead != "":
				tag := c44Origin(k.lastGone, key)
				c.Fail("old-address-entry-remains", "ledger/"+death+"/"+tag, "%s: contract #%d was %s, yet key %s = %s is stored under its address (%s)", when, k.id, k.dead, c44Hex([]byte(key)), c44V(v), tag)
			case want == nil:
				tag := "never-written-key"
				if len(k.hist[key]) > 0 {
					tag = "deleted-key"
				}
				if k.from >= 0 {
					if o, ok := r.m.cs[byte(k.from)].lastGone[key]; ok && !strings.HasPrefix(o, "entry-in-") {
						tag = "migrated-" + o
					}
				}
				c.Fail("unexpected-entry", "ledger/"+tag, "%s: contract #%d has key %s = %s in the state store, the model has none (%s)", when, k.id, c44Hex([]byte(key)), c44V(v), tag)
			case !bytes.Equal(v, want):
				c.Fail("value-differs", "ledger/"+r.movedTag(k, key), "%s: contract #%d key %s = %s, model %s", when, k.id, c44Hex([]byte(key)), c44V(v), c44V(want))
			}
		}
		var mkeys []string
		for key := range k.hist {
			mkeys = append(mkeys, key)
		}
		sort.Strings(mkeys)
		for _, key := range mkeys {
			want := k.cur(key)
			if want == nil {
				continue
			}
			if _, ok := realStor[a][key]; !ok {
				tag := r.movedTag(k, key)
				oracle := "entry-missing"
				if strings.HasPrefix(tag, "migrated-") {
					oracle = "entry-missing-under-new-address"
				}
				c.Fail(oracle, "ledger/"+tag, "%s: contract #%d key %s = %s is missing in the state store (%s)", when, k.id, c44Hex([]byte(key)), c44V(want), tag)
			}
			got, err := r.ch.Store.GetStorageItem(a, []byte(key))
			if err != nil || !bytes.Equal(got, want) {
				c.Fail("get-storage-item-differs", "ledger/"+r.movedTag(k, key), "%s: GetStorageItem(#%d,%s) = %s, %v; model %s", when, k.id, c44Hex([]byte(key)), c44V(got), err, c44V(want))
			}
		}
		if k.dead != "" {
			var uk []string
			for key := range r.usedK {
				uk = append(uk, key)
			}
			sort.Strings(uk)
			for _, key := range uk {
				got, err := r.ch.Store.GetStorageItem(a, []byte(key))
				if err == nil {
					c.Fail("old-address-entry-remains", "ledger/"+death+"/"+c44Origin(k.lastGone, key), "%s: GetStorageItem(#%d,%s) = %s although the contract was %s", when, k.id, c44Hex([]byte(key)), c44V(got), k.dead)
				} else if err != scom.ErrNotFound {
					c.Must(err, "GetStorageItem")
				}
			}
		}
	}
	var fp []string
	for _, id := range r.m.ids() {
		k := r.m.cs[byte(id)]
		n := 0
		for key := range k.hist {
			if k.cur(key) != nil {
				n++
			}
		}
		fp = append(fp, fmt.Sprintf("%d:%v:%s:%d", id, k.live, k.dead, n))
	}
	c.State("c44l", strings.Join(fp, ","))
}

// movedTag: for an entry of a contract that came into being by migration and
// was not rewritten since, where the entry sat under the old address.
func (r *c44lRun) movedTag(k *c44Contract, key string) string {
	if k.from >= 0 {
		if o, ok := r.m.cs[byte(k.from)].lastGone[key]; ok && len(k.hist[key]) == 1 {
			return "migrated-" + o
		}
	}
	return "own-entry"
}
