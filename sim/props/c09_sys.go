package props

import (
	"fmt"
	"sort"
	"strings"

	"github.com/ontio/ontology/account"
	"github.com/ontio/ontology/common"
	"github.com/ontio/ontology/common/config"
	"github.com/ontio/ontology/common/constants"
	cstates "github.com/ontio/ontology/core/states"
	"github.com/ontio/ontology/core/types"
	"github.com/ontio/ontology/smartcontract/event"
	nutils "github.com/ontio/ontology/smartcontract/service/native/utils"

	"ontosim/simkit"
	"ontosim/world"
)

// System level of C09: two ledgers with the same ONT holdings are driven by two
// different schedules of "touch" events (1-unit ONT self-transfers of a holder,
// unboundOngToGovernance) at different block timestamps and one common final
// block; the ONG released to every holder and to governance must be equal.

type c09Touch struct {
	off  uint32
	kind int // 0 holder 0 touches, 1 holder 1 touches, 2 governance settles
}

type c09Sys struct {
	c       *simkit.Ctx
	holders []*account.Account
	nonce   uint32
}

func (s *c09Sys) touchTx(kind int) *types.Transaction {
	s.nonce++
	var m *types.MutableTransaction
	var err error
	if kind == 2 {
		payer := s.holders[0]
		m, err = world.NativeTx(nutils.OntContractAddress, 0, "unboundOngToGovernance", []interface{}{[]interface{}{}}, 0, 2000000, s.nonce, payer.Address)
		s.c.Must(err, "build unboundOngToGovernance")
		s.c.Must(world.Sign(m, payer), "sign")
	} else {
		h := s.holders[kind]
		m, err = world.TransferTx("ont", h.Address, h.Address, 1, 0, 2000000, s.nonce, h.Address)
		s.c.Must(err, "build self transfer")
		s.c.Must(world.Sign(m, h), "sign")
	}
	tx, err := world.Seal(m)
	s.c.Must(err, "seal")
	return tx
}

// apply commits one block per distinct offset of the schedule.
func (s *c09Sys) apply(ch *world.Chain, sched []c09Touch) {
	for i := 0; i < len(sched); {
		j := i
		var txs []*types.Transaction
		for j < len(sched) && sched[j].off == sched[i].off {
			txs = append(txs, s.touchTx(sched[j].kind))
			j++
		}
		blk := ch.MakeBlock(txs, constants.GENESIS_BLOCK_TIMESTAMP+sched[i].off, uint64(s.nonce))
		if _, err := ch.Commit(blk); err != nil {
			s.c.Harness("chain %s refuses the touch block at offset %d: %v", ch.Name, sched[i].off, err)
		}
		for k, tx := range txs {
			n, err := ch.Store.GetEventNotifyByTx(tx.Hash())
			if err != nil || n == nil || n.State != event.CONTRACT_STATE_SUCCESS {
				pre, perr := ch.Store.PreExecuteContract(tx)
				s.c.Fail("touch-fails", "kind-"+fmt.Sprint(sched[i+k].kind), "chain %s: touch of kind %d at offset %d did not execute (notify err %v; pre-execution afterwards: %+v, %v)", ch.Name, sched[i+k].kind, sched[i].off, err, pre, perr)
			}
		}
		world.Quiesce()
		i = j
	}
}

func c09Bal(c *simkit.Ctx, ch *world.Chain, key []byte) uint64 {
	v, err := ch.Store.GetStorageItem(nutils.OngContractAddress, key)
	if err != nil {
		if strings.Contains(err.Error(), "not found") {
			return 0
		}
		c.Harness("read ONG storage: %v", err)
	}
	if v == nil {
		return 0
	}
	b, err := cstates.NativeTokenBalanceFromStorageItem(&cstates.StorageItem{Value: v})
	c.Must(err, "decode ONG balance")
	return b.MustToInteger64()
}

// released returns the ONG released so far to addr: balance plus the unclaimed
// allowance from the ONT contract.
func c09Released(c *simkit.Ctx, ch *world.Chain, addr common.Address) uint64 {
	bal := c09Bal(c, ch, addr[:])
	if addr == nutils.GovernanceContractAddress {
		return bal
	}
	return bal + c09Bal(c, ch, append(append([]byte{}, nutils.OntContractAddress[:]...), addr[:]...))
}

func runC09System(c *simkit.Ctx) {
	c.Bubble(func() {
		t := c.Tape
		a := world.NewSoloChain(c, "a")
		b := a.Twin("b")
		id := []uint32{config.NETWORK_ID_SOLO_NET, config.NETWORK_ID_MAIN_NET, config.NETWORK_ID_POLARIS_NET}[t.Pick(3, 2, 1)]
		config.DefConfig.P2PNode.NetworkId = id
		c.Must(a.Open(), "open a")
		c.Must(b.Open(), "open b")
		world.Quiesce()
		I := constants.UNBOUND_TIME_INTERVAL
		hdl := config.GetOntHolderUnboundDeadline()
		gdl, gap := config.GetGovUnboundDeadline()
		s := &c09Sys{c: c, holders: []*account.Account{a.Book, account.NewAccount("")}}
		c.Logf("system level: network id %d, holder deadline %d, governance deadline %d", id, hdl, gdl)

		// block 1 on both chains: the second holder gets its ONT
		amt := uint64(1 + t.Choose(1000000))
		first := uint32(1 + t.Choose(1000))
		for _, ch := range []*world.Chain{a, b} {
			// the solo genesis hands the whole ONG supply to the bookkeeper; put it where
			// every other network has it (the ONT contract), then split the ONT
			var txs []*types.Transaction
			for k, asset := range []string{"ong", "ont"} {
				s.nonce++
				to, v := nutils.OntContractAddress, uint64(constants.ONG_TOTAL_SUPPLY)
				if k == 1 {
					to, v = s.holders[1].Address, amt
				} else if id != config.NETWORK_ID_SOLO_NET {
					continue // genesis executed under this id already credited the ONT contract
				}
				m, err := world.TransferTx(asset, a.Book.Address, to, v, 0, 2000000, s.nonce, a.Book.Address)
				c.Must(err, "build transfer")
				c.Must(world.Sign(m, a.Book), "sign")
				tx, err := world.Seal(m)
				c.Must(err, "seal")
				txs = append(txs, tx)
			}
			if _, err := ch.Commit(ch.MakeBlock(txs, constants.GENESIS_BLOCK_TIMESTAMP+first, 1)); err != nil {
				c.Harness("first block: %v", err)
			}
			for _, tx := range txs {
				if n, err := ch.Store.GetEventNotifyByTx(tx.Hash()); err != nil || n == nil || n.State != event.CONTRACT_STATE_SUCCESS {
					pre, perr := ch.Store.PreExecuteContract(tx)
					c.Harness("set-up transfer failed on chain %s (network id %d): %v; pre-execution afterwards %+v %v", ch.Name, id, err, pre, perr)
				}
			}
		}
		world.Quiesce()

		anchors := []uint32{hdl, gdl, I, 2 * I, 3 * I, 10 * I, 17 * I}
		off := func() uint32 {
			var v uint32
			switch t.Pick(4, 3, 2) {
			case 0:
				v = c09Add(anchors[t.Choose(len(anchors))], t.Choose(5)-2)
			case 1:
				v = c09Add(gdl, t.Choose(3)-1)
			default:
				v = uint32(t.Choose(int(18 * I)))
			}
			if v <= first {
				v = first + 1
			}
			return v
		}
		end := off()
		if t.Bool() {
			end = c09Add(gdl, 1+t.Choose(1000))
		}
		mk := func() []c09Touch {
			var sc []c09Touch
			for i, k := 0, t.Choose(5); i < k; i++ {
				o := off()
				if o >= end {
					o = first + 1 + uint32(t.Choose(int(end-first)))
					if o >= end {
						continue
					}
				}
				sc = append(sc, c09Touch{o, t.Choose(3)})
			}
			sort.SliceStable(sc, func(i, j int) bool { return sc[i].off < sc[j].off })
			// the common final block settles everybody
			return append(sc, c09Touch{end, 0}, c09Touch{end, 1}, c09Touch{end, 2})
		}
		sa, sb := mk(), mk()
		c.Logf("final offset %d; schedule a %v; schedule b %v", end, sa, sb)
		s.apply(a, sa)
		s.apply(b, sb)

		govAtDl := false
		for _, sc := range [][]c09Touch{sa, sb} {
			for _, x := range sc[:len(sc)-3] {
				if x.kind == 2 && x.off == gdl && end > gdl {
					govAtDl = true
				}
			}
		}
		for i, h := range s.holders {
			ra, rb := c09Released(c, a, h.Address), c09Released(c, b, h.Address)
			if ra != rb {
				c.Fail("holder-ong-differs-between-schedules", "system", "network id %d: holder %d has been released %d ONG units under schedule a and %d under schedule b (same ONT holdings, same final time %d)", id, i, ra, rb, end)
			}
			if ra > 0 {
				c.Probe("sys_holder_ong_released")
			}
		}
		c.State("sys", id, len(sa), len(sb), end > gdl, end > hdl)
		if len(sa)+len(sb) > 6 {
			c.NonTrivial()
		}
		ga, gb := c09Released(c, a, nutils.GovernanceContractAddress), c09Released(c, b, nutils.GovernanceContractAddress)
		c.Logf("governance released: a %d, b %d", ga, gb)
		if ga > 0 {
			c.Probe("sys_gov_ong_released")
		}
		if ga != gb {
			d := int64(ga) - int64(gb)
			if d < 0 {
				d = -d
			}
			if govAtDl && uint64(d) == gap*constants.ONT_TOTAL_SUPPLY {
				c.Probe("sys_gov_touch_at_deadline")
				c.FailSoft("gov-ong-differs-between-schedules", "touch-at-gov-deadline", "network id %d: governance has been released %d ONG units under schedule a %v and %d under schedule b %v; the schedule that settles exactly at the governance deadline %d is short by gap %d x ONT supply", id, ga, sa, gb, sb, gdl, gap)
				return
			}
			c.Fail("gov-ong-differs-between-schedules", "system", "network id %d: governance has been released %d ONG units under schedule a %v and %d under schedule b %v (same final time %d)", id, ga, sa, gb, sb, end)
		}
	})
}
