package props

// Helpers shared by C45 (ONT ID contract) and C41 (auth contract): signing
// accounts, ONT ID strings, a native-call builder that lays the arguments out
// as the flat byte-string sequence the two contracts parse, group / signer
// encodings, pre-execution queries and an independent reading of the ONT ID
// contract's storage.

import (
	"bytes"
	"encoding/hex"
	"fmt"
	"math/big"
	"sort"

	"github.com/ontio/ontology-crypto/keypair"
	"github.com/ontio/ontology/account"
	"github.com/ontio/ontology/common"
	scom "github.com/ontio/ontology/core/store/common"
	"github.com/ontio/ontology/core/types"
	cutils "github.com/ontio/ontology/core/utils"
	"github.com/ontio/ontology/smartcontract/event"
	nutils "github.com/ontio/ontology/smartcontract/service/native/utils"
	vm "github.com/ontio/ontology/vm/neovm"

	"ontosim/simkit"
	"ontosim/world"
)

const oidGasLimit = 20000000

var oidNoSig = make([]byte, 65)

// oidAcct is a single-key signing account.
type oidAcct struct {
	name string
	acc  *account.Account
	pub  []byte // serialized public key
	addr common.Address
}

func oidNewAccts(n int) []*oidAcct {
	var out []*oidAcct
	for i := 0; i < n; i++ {
		a := account.NewAccount("")
		out = append(out, &oidAcct{name: fmt.Sprintf("K%d", i), acc: a, pub: keypair.SerializePublicKey(a.PublicKey), addr: a.Address})
	}
	return out
}

// oidOf is the ONT ID string of an address.
func oidOf(a common.Address) []byte { return []byte("did:ont:" + a.ToBase58()) }

// oidUint encodes an unsigned integer the way the contracts' DecodeVarUint
// expects it inside a byte string (little-endian, minimal, sign-safe).
func oidUint(v uint64) []byte {
	return common.BigIntToNeoBytes(new(big.Int).SetUint64(v))
}

// oidCode builds NeoVM code that invokes a native method with a struct whose
// fields are the given byte strings; the native bridge flattens the struct
// into var-bytes, var-bytes, ... which is the layout every ONT ID / auth method
// parses (integers are byte strings holding the number, arrays are a count
// followed by their items).
func oidCode(contract common.Address, method string, fields [][]byte) []byte {
	b := vm.NewParamsBuilder(new(bytes.Buffer))
	b.EmitPushInteger(big.NewInt(0))
	b.Emit(vm.NEWSTRUCT)
	b.Emit(vm.TOALTSTACK)
	for _, f := range fields {
		b.EmitPushByteArray(f)
		b.Emit(vm.DUPFROMALTSTACK)
		b.Emit(vm.SWAP)
		b.Emit(vm.APPEND)
	}
	b.Emit(vm.FROMALTSTACK)
	b.EmitPushByteArray([]byte(method))
	b.EmitPushByteArray(contract[:])
	b.EmitPushInteger(big.NewInt(0))
	b.Emit(vm.SYSCALL)
	b.EmitPushByteArray([]byte(cutils.NATIVE_INVOKE_NAME))
	return b.ToArray()
}

// oidSeal signs code as an invoke transaction with the given accounts (in
// order) and checks the witnessed addresses are exactly theirs.
func oidSeal(c *simkit.Ctx, code []byte, nonce uint32, signers []*oidAcct) *types.Transaction {
	m := world.InvokeTx(code, 0, oidGasLimit, nonce, common.ADDRESS_EMPTY)
	for _, s := range signers {
		c.Must(world.Sign(m, s.acc), "sign")
	}
	tx, err := world.Seal(m)
	c.Must(err, "seal")
	got := tx.GetSignatureAddresses()
	if len(got) != len(signers) {
		c.Harness("sealed tx has %d witnesses, %d signers", len(got), len(signers))
	}
	for i := range got {
		if got[i] != signers[i].addr {
			c.Harness("witness %d is %x, signer %s is %x", i, got[i], signers[i].name, signers[i].addr)
		}
	}
	return tx
}

func oidNames(s []*oidAcct) string {
	out := ""
	for i, a := range s {
		if i > 0 {
			out += ","
		}
		out += a.name
	}
	return "[" + out + "]"
}

// oidQuery pre-executes a native method on the node. ok=false: the call
// failed (the contract returned an error); otherwise the returned bytes.
func oidQuery(c *simkit.Ctx, ch *world.Chain, contract common.Address, method string, fields [][]byte, signers []*oidAcct) (res []byte, ok bool, notify []*event.NotifyEventInfo) {
	// pre-execution derives the witnesses from the public keys attached to the
	// transaction and never looks at the signature bytes, so queries carry a
	// placeholder instead of a real signature (signing dominates the run time)
	m := world.InvokeTx(oidCode(contract, method, fields), 0, oidGasLimit, 0, common.ADDRESS_EMPTY)
	for _, s := range signers {
		m.Sigs = append(m.Sigs, types.Sig{PubKeys: []keypair.PublicKey{s.acc.PublicKey}, M: 1, SigData: [][]byte{oidNoSig}})
	}
	tx, err := world.Seal(m)
	c.Must(err, "seal query")
	got := tx.GetSignatureAddresses()
	if len(got) != len(signers) {
		c.Harness("query tx has %d witnesses, %d signers", len(got), len(signers))
	}
	for i := range got {
		if got[i] != signers[i].addr {
			c.Harness("query witness %d is %x, signer %s is %x", i, got[i], signers[i].name, signers[i].addr)
		}
	}
	r, err := ch.Store.PreExecuteContract(tx)
	if err != nil || r == nil || r.State != event.CONTRACT_STATE_SUCCESS {
		return nil, false, nil
	}
	if r.Result == nil {
		return nil, true, r.Notify
	}
	s, isStr := r.Result.(string)
	if !isStr {
		c.Harness("%s: pre-execution result %v is not a hex string", method, r.Result)
	}
	b, err := hex.DecodeString(s)
	c.Must(err, "pre-execution result hex")
	return b, true, r.Notify
}

// oidNotify returns the persisted execution notify of a transaction.
func oidNotify(c *simkit.Ctx, ch *world.Chain, tx *types.Transaction) *event.ExecuteNotify {
	n, err := ch.Store.GetEventNotifyByTx(tx.Hash())
	if err != nil || n == nil {
		h := tx.Hash()
		c.Fail("notify-missing", "event-store", "no execution notify stored for tx %s: %v", h.ToHexString(), err)
	}
	return n
}

// ---------------------------------------------------------------- groups

// oidGroup is a controller / recovery group: members are ONT IDs or nested
// groups.
type oidGroup struct {
	members   []interface{} // []byte (id) or *oidGroup
	threshold uint64
}

func (g *oidGroup) encode() []byte {
	sink := common.NewZeroCopySink(nil)
	sink.WriteVarBytes(oidUint(uint64(len(g.members))))
	for _, m := range g.members {
		switch t := m.(type) {
		case []byte:
			sink.WriteVarBytes(t)
		case *oidGroup:
			sink.WriteVarBytes(t.encode())
		}
	}
	sink.WriteVarBytes(oidUint(g.threshold))
	return sink.Bytes()
}

func (g *oidGroup) String() string {
	s := "{"
	for i, m := range g.members {
		if i > 0 {
			s += ","
		}
		switch t := m.(type) {
		case []byte:
			s += oidShort(t)
		case *oidGroup:
			s += t.String()
		}
	}
	return fmt.Sprintf("%s}/%d", s, g.threshold)
}

func oidReadUint(src *common.ZeroCopySource) (uint64, bool) {
	b, _, irregular, eof := src.NextVarBytes()
	if irregular || eof {
		return 0, false
	}
	v := common.BigIntFromNeoBytes(b)
	if v.Sign() < 0 || !v.IsUint64() {
		return 0, false
	}
	return v.Uint64(), true
}

func oidReadBytes(src *common.ZeroCopySource) ([]byte, bool) {
	b, _, irregular, eof := src.NextVarBytes()
	if irregular || eof {
		return nil, false
	}
	return b, true
}

// oidParseGroup reads a group the way the statement of the contract's format
// says: count, members (an ONT ID starts with "did:ont:", anything else is a
// nested group), threshold <= number of members, nesting below 8.
func oidParseGroup(data []byte, depth int) *oidGroup {
	if depth == 8 {
		return nil
	}
	src := common.NewZeroCopySource(data)
	n, ok := oidReadUint(src)
	if !ok {
		return nil
	}
	g := &oidGroup{}
	for i := uint64(0); i < n; i++ {
		m, ok := oidReadBytes(src)
		if !ok {
			return nil
		}
		if len(m) > 8 && bytes.Equal(m[:8], []byte("did:ont:")) {
			g.members = append(g.members, m)
		} else {
			sub := oidParseGroup(m, depth+1)
			if sub == nil {
				return nil
			}
			g.members = append(g.members, sub)
		}
	}
	t, ok := oidReadUint(src)
	if !ok || t > uint64(len(g.members)) {
		return nil
	}
	g.threshold = t
	return g
}

// flat lists every ONT ID mentioned in the group.
func (g *oidGroup) flat() [][]byte {
	var out [][]byte
	for _, m := range g.members {
		switch t := m.(type) {
		case []byte:
			out = append(out, t)
		case *oidGroup:
			out = append(out, t.flat()...)
		}
	}
	return out
}

type oidSigner struct {
	id    []byte
	index uint64
}

func oidEncodeSigners(s []oidSigner) []byte {
	sink := common.NewZeroCopySink(nil)
	sink.WriteVarBytes(oidUint(uint64(len(s))))
	for _, v := range s {
		sink.WriteVarBytes(v.id)
		sink.WriteVarBytes(oidUint(v.index))
	}
	return sink.Bytes()
}

// oidDecodeSigners reads a signer list the way the contract does: a count and,
// per signer, an id and an index, every integer a var-bytes string holding the
// number; bytes after the last signer are ignored. ok=false if the bytes end early.
func oidDecodeSigners(b []byte) (out []oidSigner, ok bool) {
	src := common.NewZeroCopySource(b)
	num := func() (uint64, bool) {
		v, _, irregular, eof := src.NextVarBytes()
		if irregular || eof {
			return 0, false
		}
		n := common.BigIntFromNeoBytes(v)
		if n.Sign() < 0 || !n.IsUint64() {
			return 0, false
		}
		return n.Uint64(), true
	}
	n, ok := num()
	if !ok {
		return nil, false
	}
	for i := uint64(0); i < n; i++ {
		id, _, irregular, eof := src.NextVarBytes()
		if irregular || eof {
			return nil, false
		}
		idx, ok := num()
		if !ok {
			return nil, false
		}
		out = append(out, oidSigner{id: append([]byte(nil), id...), index: uint64(uint32(idx))})
	}
	return out, true
}

func oidSignersString(s []oidSigner) string {
	out := "<"
	for i, v := range s {
		if i > 0 {
			out += ","
		}
		out += fmt.Sprintf("%s#%d", oidShort(v.id), v.index)
	}
	return out + ">"
}

// oidShort abbreviates an id / key / blob for the trace.
func oidShort(b []byte) string {
	if len(b) > 8 && bytes.Equal(b[:8], []byte("did:ont:")) {
		if len(b) >= 14 {
			return "did:" + string(b[8:14])
		}
		return string(b)
	}
	if len(b) <= 6 {
		return hex.EncodeToString(b)
	}
	return fmt.Sprintf("%s..(%d)", hex.EncodeToString(b[:4]), len(b))
}

// ---------------------------------------------------------------- raw storage of the ONT ID contract

// oidRawItem decodes a stored item: one version byte and a var-length value.
func oidRawItem(v []byte) (ver byte, val []byte, ok bool) {
	if len(v) < 2 {
		return 0, nil, false
	}
	src := common.NewZeroCopySource(v[1:])
	b, _, irregular, eof := src.NextVarBytes()
	if irregular || eof || src.Len() != 0 {
		return 0, nil, false
	}
	return v[0], b, true
}

// oidStored is everything the ONT ID contract stores under one identity,
// by field number (0 = the state flag); attribute nodes by attribute key.
type oidStored struct {
	field map[byte][]byte // raw stored item
	attr  map[string][]byte
}

// oidScan groups the ONT ID contract's storage entries by identity.
func oidScan(kvs []simkit.KV) (map[string]*oidStored, error) {
	out := map[string]*oidStored{}
	ca := nutils.OntIDContractAddress
	for _, kv := range kvs {
		if len(kv.K) < 22 || kv.K[0] != byte(scom.ST_STORAGE) || !bytes.Equal(kv.K[1:21], ca[:]) {
			continue
		}
		rest := kv.K[21:]
		l := int(rest[0])
		if l == 0 {
			continue // not an identity (ids have 1..255 bytes): the contract's own marker written at genesis
		}
		if len(rest) < 1+l {
			return nil, fmt.Errorf("storage key %x shorter than its id length", kv.K)
		}
		id := string(rest[1 : 1+l])
		tail := rest[1+l:]
		st := out[id]
		if st == nil {
			st = &oidStored{field: map[byte][]byte{}, attr: map[string][]byte{}}
			out[id] = st
		}
		switch {
		case len(tail) == 0:
			st.field[0] = kv.V
		case tail[0] == 2 && len(tail) > 1:
			st.attr[string(tail[1:])] = kv.V
		case len(tail) == 1:
			st.field[tail[0]] = kv.V
		default:
			return nil, fmt.Errorf("unexpected storage key %x under id %q", kv.K, id)
		}
	}
	return out, nil
}

func oidSortedKeys(m map[string]*oidStored) []string {
	var out []string
	for k := range m {
		out = append(out, k)
	}
	sort.Strings(out)
	return out
}
