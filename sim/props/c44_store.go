package props

// C44, W-store variant: CacheDB.MigrateContractStorage / CleanContractStorage
// called directly on a CacheDB -> OverlayDB -> LevelDB stack whose content is
// spread over the three layers; a layered map is the model.

import (
	"bytes"
	"fmt"
	"sort"
	"strings"

	"github.com/ontio/ontology/common"
	"github.com/ontio/ontology/core/payload"
	scom "github.com/ontio/ontology/core/store/common"
	"github.com/ontio/ontology/core/store/leveldbstore"
	"github.com/ontio/ontology/core/store/overlaydb"
	"github.com/ontio/ontology/smartcontract/storage"

	"ontosim/simkit"
	"ontosim/world"
)

const (
	c44LvCache = iota
	c44LvOver
	c44LvBack
)

var c44LvNames = [...]string{"txcache", "overlay", "leveldb"}

// c44Layers: raw key (with the one-byte store prefix) -> value per layer; in
// cache/over a present key with an empty value is a tombstone.
type c44Layers struct {
	l [3]map[string][]byte
}

func newC44Layers() *c44Layers {
	return &c44Layers{[3]map[string][]byte{{}, {}, {}}}
}

// get returns the value seen from level (nil: absent) and the layer deciding it (-1: none).
func (m *c44Layers) get(raw string, level int) ([]byte, int) {
	for lv := level; lv < 3; lv++ {
		if v, ok := m.l[lv][raw]; ok {
			if len(v) == 0 {
				return nil, lv
			}
			return v, lv
		}
	}
	return nil, -1
}

// list returns the live entries with the raw prefix seen from level, ascending.
func (m *c44Layers) list(prefix string, level int) []simkit.KV {
	seen := map[string]bool{}
	var out []simkit.KV
	for lv := level; lv < 3; lv++ {
		for k := range m.l[lv] {
			if !strings.HasPrefix(k, prefix) || seen[k] {
				continue
			}
			seen[k] = true
			if v, _ := m.get(k, level); len(v) > 0 {
				out = append(out, simkit.KV{K: []byte(k), V: v})
			}
		}
	}
	sort.Slice(out, func(i, j int) bool { return bytes.Compare(out[i].K, out[j].K) < 0 })
	return out
}

type c44sRun struct {
	c     *simkit.Ctx
	t     *simkit.Tape
	m     *c44Layers
	lvl   *leveldbstore.LevelDBStore
	ov    *overlaydb.OverlayDB
	cache *storage.CacheDB
	addrs []common.Address
	keys  [][]byte
	seq   int

	nontrivial bool
}

func c44V(b []byte) string {
	if len(b) == 0 {
		return "<none>"
	}
	if len(b) > 10 {
		if i := bytes.IndexAny(b, ".#"); i > 0 {
			return fmt.Sprintf("%s+%d", b[:i], len(b)-i)
		}
	}
	if len(b) > 24 {
		return fmt.Sprintf("%x..(%d)", b[:20], len(b))
	}
	return fmt.Sprintf("%q", b)
}

func c44Hex(b []byte) string {
	if len(b) > 26 {
		return fmt.Sprintf("%x..(%d)", b[:24], len(b))
	}
	return fmt.Sprintf("%x", b)
}

func c44StorageRaw(a common.Address, key []byte) []byte {
	out := make([]byte, 0, 21+len(key))
	out = append(out, byte(scom.ST_STORAGE))
	out = append(out, a[:]...)
	return append(out, key...)
}

func c44PrefRaw(p scom.DataEntryPrefix, a common.Address) []byte {
	return append([]byte{byte(p)}, a[:]...)
}

// c44GenKeys: contract storage keys of length 0..40 sharing prefixes, some
// equal to (or starting with) one of the given addresses.
func c44GenKeys(t *simkit.Tape, n int, addrs []common.Address) [][]byte {
	stems := [][]byte{{}, {'a'}, {'a', 'b'}, {0x00}, {0xff}, {0xff, 0xff}, {'a', 0xff}, {'b'}}
	alpha := []byte{0x00, 'a', 'b', 0xff}
	seen := map[string]bool{}
	var keys [][]byte
	for tries := 0; len(keys) < n && tries < 4*n; tries++ {
		var k []byte
		switch t.Pick(5, 2, 2) {
		case 0:
			k = append(k, stems[t.Choose(len(stems))]...)
		case 1: // looks like a contract address
			a := addrs[t.Choose(len(addrs))]
			k = append(k, a[:]...)
		case 2: // extends an earlier key: that key is then a prefix of this one
			if len(keys) > 0 {
				k = append(k, keys[t.Choose(len(keys))]...)
			}
		}
		ext := 0
		switch t.Pick(4, 4, 3, 2) {
		case 1:
			ext = 1
		case 2:
			ext = 2
		case 3:
			ext = 3 + t.Choose(20)
		}
		for i := 0; i < ext && len(k) < 40; i++ {
			k = append(k, alpha[t.Choose(len(alpha))])
		}
		if len(k) > 40 {
			k = k[:40]
		}
		if seen[string(k)] {
			continue
		}
		seen[string(k)] = true
		keys = append(keys, k)
	}
	return keys
}

func (r *c44sRun) val() []byte {
	r.seq++
	v := []byte(fmt.Sprintf("v%d", r.seq))
	switch r.t.Pick(5, 2, 1) {
	case 1:
		v = append(v, bytes.Repeat([]byte{'.'}, 32)...)
	case 2:
		v = append(v, bytes.Repeat([]byte{'#'}, 150+r.t.Choose(200))...)
	}
	return v
}

func (r *c44sRun) name(a common.Address) string {
	for i, x := range r.addrs {
		if x == a {
			return fmt.Sprintf("A%d", i)
		}
	}
	return fmt.Sprintf("%x", a[:4])
}

func c44AddrPlus(a common.Address, d int) common.Address {
	for i := 19; i >= 0; i-- {
		v := int(a[i]) + d
		a[i] = byte(v)
		if v >= 0 && v <= 255 {
			break
		}
		if v > 255 {
			d = 1
		} else {
			d = -1
		}
	}
	return a
}

func runC44Store(c *simkit.Ctx) {
	t := c.Tape
	world.Init()
	world.SoloConfig("00") // network id 3: destroyed-contract tracking active from height 0
	r := &c44sRun{c: c, t: t, m: newC44Layers()}
	r.lvl = leveldbstore.NewMemLevelDBStore()
	c.Defer(func() { r.lvl.Close() })

	// ---- addresses: a random one, its neighbours, extremes
	var base common.Address
	copy(base[:], t.Bytes(20))
	var ones common.Address
	for i := range ones {
		ones[i] = 0xff
	}
	tail := base
	tail[19] = 0xff
	cands := []common.Address{base, c44AddrPlus(base, 1), c44AddrPlus(base, -1), {}, ones, tail, c44AddrPlus(tail, 1)}
	na := t.Range(2, 6)
	seenA := map[common.Address]bool{}
	for _, i := range t.Perm(len(cands)) {
		if len(r.addrs) < na && !seenA[cands[i]] {
			seenA[cands[i]] = true
			r.addrs = append(r.addrs, cands[i])
		}
	}
	for i, a := range r.addrs {
		c.Logf("A%d = %x", i, a[:])
	}
	r.keys = c44GenKeys(t, t.Range(1, 24), r.addrs)
	for _, k := range r.keys {
		if len(k) == 0 {
			c.Probe("c44_s_empty_key")
		}
		if len(k) >= 20 {
			for _, a := range r.addrs {
				if bytes.HasPrefix(k, a[:]) {
					c.Probe("c44_s_key_looks_like_address")
				}
			}
		}
	}
	// ---- pre-populate LevelDB: storage entries and contract records
	dc, err := payload.NewDeployCode([]byte{0x51, 0x66}, payload.NEOVM_TYPE, "n", "v", "a", "e", "d")
	c.Must(err, "deploy code")
	dcRaw := common.SerializeToBytes(dc)
	npre := 0
	for _, a := range r.addrs {
		if t.Prob(2, 3) {
			raw := c44PrefRaw(scom.ST_CONTRACT, a)
			c.Must(r.lvl.Put(raw, dcRaw), "prepopulate contract")
			r.m.l[c44LvBack][string(raw)] = dcRaw
		}
		for _, k := range r.keys {
			if t.Prob(1, 4) {
				raw := c44StorageRaw(a, k)
				v := r.val()
				c.Must(r.lvl.Put(raw, v), "prepopulate")
				r.m.l[c44LvBack][string(raw)] = v
				npre++
			}
		}
	}
	c.Logf("%d addresses, %d keys, %d entries pre-populated in leveldb", len(r.addrs), len(r.keys), npre)
	r.ov = overlaydb.NewOverlayDB(r.lvl)
	r.cache = storage.NewCacheDB(r.ov)

	mul := func(base int) int { return base * []int{1, 0, 3}[t.Pick(3, 1, 1)] }
	wPut, wDel, wCommit, wFlush, wReset := 10, mul(4), mul(3), mul(2), mul(1)
	wMigrate, wClean := 3, mul(1)
	nOps := 2 + t.Choose([]int{12, 40, 120}[t.Pick(3, 4, 1)])
	focus := r.addrs[t.Choose(len(r.addrs))] // most writes go to one contract
	events := 0
	for i := 0; i < nOps; i++ {
		op := t.Pick(wPut, wDel, wCommit, wFlush, wReset, wMigrate, wClean)
		if i == nOps-1 && events == 0 {
			op = 5 + t.Choose(2) // every run ends with a migration or destruction
		}
		switch op {
		case 0, 1:
			a := focus
			if t.Prob(1, 4) {
				a = r.addrs[t.Choose(len(r.addrs))]
			}
			k := r.keys[t.Choose(len(r.keys))]
			raw := c44StorageRaw(a, k)
			if op == 0 {
				v := r.val()
				r.cache.Put(raw[1:], v)
				r.m.l[c44LvCache][string(raw)] = v
				c.Logf("put %s/%s = %s", r.name(a), c44Hex(k), c44V(v))
			} else {
				r.cache.Delete(raw[1:])
				r.m.l[c44LvCache][string(raw)] = nil
				c.Logf("del %s/%s", r.name(a), c44Hex(k))
			}
		case 2:
			r.cache.Commit()
			for k, v := range r.m.l[c44LvCache] {
				r.m.l[c44LvOver][k] = v
			}
			c.Logf("commit cache (%d entries)", len(r.m.l[c44LvCache]))
			r.m.l[c44LvCache] = map[string][]byte{}
			r.sweep("after-commit")
		case 3:
			r.lvl.NewBatch()
			r.ov.CommitTo()
			c.Must(r.lvl.BatchCommit(), "leveldb batch commit")
			for k, v := range r.m.l[c44LvOver] {
				if len(v) == 0 {
					delete(r.m.l[c44LvBack], k)
				} else {
					r.m.l[c44LvBack][k] = v
				}
			}
			c.Logf("flush overlay to leveldb (%d entries), next block (%d uncommitted cache entries dropped)", len(r.m.l[c44LvOver]), len(r.m.l[c44LvCache]))
			r.m.l[c44LvOver] = map[string][]byte{}
			r.m.l[c44LvCache] = map[string][]byte{}
			r.ov = overlaydb.NewOverlayDB(r.lvl)
			r.cache = storage.NewCacheDB(r.ov)
			r.sweep("after-flush")
		case 4:
			r.cache.Reset()
			c.Logf("reset cache (%d entries)", len(r.m.l[c44LvCache]))
			r.m.l[c44LvCache] = map[string][]byte{}
		case 5, 6:
			old := focus
			if t.Prob(1, 5) {
				old = r.addrs[t.Choose(len(r.addrs))]
			}
			height := uint32([]int{0, 1, 77, 1 << 30}[t.Pick(2, 2, 2, 1)])
			events++
			if op == 5 {
				var others []common.Address
				for _, a := range r.addrs {
					if a != old {
						others = append(others, a)
					}
				}
				nw := others[t.Choose(len(others))]
				r.migrate(old, nw, height)
				focus = nw
			} else {
				r.clean(old, height)
			}
		}
		if err := r.ov.Error(); err != nil {
			c.Fail("store-error", "healthy-store", "overlay reports error on a healthy store: %v", err)
		}
	}
	// everything reaches the lower layers unchanged
	r.cache.Commit()
	for k, v := range r.m.l[c44LvCache] {
		r.m.l[c44LvOver][k] = v
	}
	r.m.l[c44LvCache] = map[string][]byte{}
	r.sweep("end-commit")
	r.lvl.NewBatch()
	r.ov.CommitTo()
	c.Must(r.lvl.BatchCommit(), "leveldb batch commit")
	for k, v := range r.m.l[c44LvOver] {
		if len(v) == 0 {
			delete(r.m.l[c44LvBack], k)
		} else {
			r.m.l[c44LvBack][k] = v
		}
	}
	r.m.l[c44LvOver] = map[string][]byte{}
	r.ov = overlaydb.NewOverlayDB(r.lvl)
	r.cache = storage.NewCacheDB(r.ov)
	r.sweep("end-flush")
	c.State("c44s", simkit.DigestKV(r.m.list("", c44LvBack)))
	if r.nontrivial {
		c.NonTrivial()
	}
}

// layerProbes looks at where the storage of a contract sits just before it is
// migrated or destroyed; returns the number of live entries and layers involved.
func (r *c44sRun) layerProbes(what string, a common.Address) (live int, layers int, sig string) {
	pfx := string(c44StorageRaw(a, nil))
	used := [3]bool{}
	seen := map[string]bool{}
	var liveKeys []string
	for lv := 0; lv < 3; lv++ {
		for k, v := range r.m.l[lv] {
			if !strings.HasPrefix(k, pfx) {
				continue
			}
			used[lv] = true
			if seen[k] {
				continue
			}
			seen[k] = true
			if len(v) > 0 {
				live++
				liveKeys = append(liveKeys, k)
				r.c.Probe("c44_s_" + what + "_entry_in_" + c44LvNames[lv])
			} else {
				// tombstone: what does it hide?
				if below, _ := r.m.get(k, lv+1); below != nil {
					r.c.Probe("c44_s_" + what + "_pending_delete_in_" + c44LvNames[lv])
				}
			}
		}
	}
	sort.Strings(liveKeys)
	for i := 1; i < len(liveKeys); i++ {
		if strings.HasPrefix(liveKeys[i], liveKeys[i-1]) {
			r.c.Probe("c44_s_" + what + "_key_prefix_of_key")
			break
		}
	}
	var names []string
	for lv := 0; lv < 3; lv++ {
		if used[lv] {
			layers++
			names = append(names, c44LvNames[lv])
		}
	}
	if live == 0 {
		r.c.Probe("c44_s_" + what + "_empty_contract")
	}
	if layers == 3 {
		r.c.Probe("c44_s_" + what + "_three_layers")
	}
	if live >= 2 && layers >= 2 {
		r.nontrivial = true
	}
	return live, layers, strings.Join(names, "+")
}

func (r *c44sRun) markDestroyed(a common.Address, height uint32) {
	r.m.l[c44LvCache][string(c44PrefRaw(scom.ST_CONTRACT, a))] = nil
	sink := common.NewZeroCopySink(nil)
	sink.WriteUint32(height)
	r.m.l[c44LvCache][string(c44PrefRaw(scom.ST_DESTROYED, a))] = sink.Bytes()
}

func (r *c44sRun) migrate(old, nw common.Address, height uint32) {
	c := r.c
	live, _, where := r.layerProbes("migrate", old)
	c.Logf("MIGRATE %s -> %s at height %d (%d live entries; layers %s)", r.name(old), r.name(nw), height, live, where)
	if old == c44AddrPlus(nw, 1) || old == c44AddrPlus(nw, -1) {
		c.Probe("c44_s_adjacent_addresses")
	}
	pfx := string(c44StorageRaw(old, nil))
	before := r.m.list(pfx, c44LvCache)
	origin := r.origins(old)
	if err := r.cache.MigrateContractStorage(old, nw, height); err != nil {
		c.Fail("migrate-error", "store", "MigrateContractStorage(%s,%s) fails on a healthy store: %v", r.name(old), r.name(nw), err)
	}
	for _, kv := range before {
		r.m.l[c44LvCache][string(c44StorageRaw(nw, kv.K[21:]))] = kv.V
		r.m.l[c44LvCache][string(kv.K)] = nil
	}
	r.markDestroyed(old, height)
	// the statement, directly
	for _, kv := range before {
		got, err := r.cache.Get(c44StorageRaw(nw, kv.K[21:])[1:])
		c.Must(err, "cache get")
		if !bytes.Equal(got, kv.V) {
			lv := c44Origin(origin, string(kv.K))
			if len(got) == 0 {
				c.Fail("entry-missing-under-new-address", "store/"+lv, "after migrate %s->%s key %s (%s) is not readable under the new address", r.name(old), r.name(nw), c44Hex(kv.K[21:]), lv)
			}
			c.Fail("value-differs-under-new-address", "store/"+lv, "after migrate %s->%s key %s reads %s under the new address, was %s", r.name(old), r.name(nw), c44Hex(kv.K[21:]), c44V(got), c44V(kv.V))
		}
	}
	r.noneUnder(old, "after-migrate", origin)
	r.sweep("after-migrate")
}

func (r *c44sRun) clean(a common.Address, height uint32) {
	c := r.c
	live, _, where := r.layerProbes("destroy", a)
	c.Logf("DESTROY %s at height %d (%d live entries; layers %s)", r.name(a), height, live, where)
	pfx := string(c44StorageRaw(a, nil))
	before := r.m.list(pfx, c44LvCache)
	origin := r.origins(a)
	if err := r.cache.CleanContractStorage(a, height); err != nil {
		c.Fail("destroy-error", "store", "CleanContractStorage(%s) fails on a healthy store: %v", r.name(a), err)
	}
	for _, kv := range before {
		r.m.l[c44LvCache][string(kv.K)] = nil
	}
	r.markDestroyed(a, height)
	r.noneUnder(a, "after-destroy", origin)
	r.sweep("after-destroy")
}

// origins tells, for every raw storage key of the contract present in any
// layer, where its deciding entry sits (for signatures and messages).
func (r *c44sRun) origins(a common.Address) map[string]string {
	pfx := string(c44StorageRaw(a, nil))
	out := map[string]string{}
	for lv := 0; lv < 3; lv++ {
		for k := range r.m.l[lv] {
			if !strings.HasPrefix(k, pfx) || out[k] != "" {
				continue
			}
			v, at := r.m.get(k, c44LvCache)
			switch {
			case v != nil:
				out[k] = "entry-in-" + c44LvNames[at]
			case at < c44LvBack:
				if below, bl := r.m.get(k, at+1); below != nil {
					out[k] = "pending-delete-in-" + c44LvNames[at] + "-over-" + c44LvNames[bl]
				} else {
					out[k] = "deleted-key"
				}
			default:
				out[k] = "deleted-key"
			}
		}
	}
	return out
}

func c44Origin(o map[string]string, raw string) string {
	if s, ok := o[raw]; ok {
		return s
	}
	return "never-written-key"
}

// noneUnder: no storage entry is visible under the address, at the cache level.
func (r *c44sRun) noneUnder(a common.Address, when string, origin map[string]string) {
	c := r.c
	it := r.cache.NewIterator(a[:])
	defer it.Release()
	for ok := it.First(); ok; ok = it.Next() {
		k := append([]byte(nil), it.Key()...)
		raw := string(append([]byte{byte(scom.ST_STORAGE)}, k...))
		c.Fail("old-address-entry-remains", "store/"+when+"/"+c44Origin(origin, raw), "%s: key %s = %s is still iterated under %s", when, c44Hex(k[20:]), c44V(it.Value()), r.name(a))
	}
	c.Must(it.Error(), "iterator")
	for _, k := range r.keys {
		got, err := r.cache.Get(c44StorageRaw(a, k)[1:])
		c.Must(err, "cache get")
		if len(got) != 0 {
			raw := string(c44StorageRaw(a, k))
			c.Fail("old-address-entry-remains", "store/"+when+"/"+c44Origin(origin, raw), "%s: key %s still reads %s under %s", when, c44Hex(k), c44V(got), r.name(a))
		}
	}
	dep, destroyed, err := r.cache.GetContract(a)
	c.Must(err, "GetContract")
	if dep != nil || !destroyed {
		c.Fail("dead-address-usable", "store/"+when+"/get-contract", "%s: GetContract(%s) returns contract=%v destroyed=%v", when, r.name(a), dep != nil, destroyed)
	}
}

func c44Collect(c *simkit.Ctx, it scom.StoreIterator, addPrefix []byte) []simkit.KV {
	var out []simkit.KV
	for ok := it.First(); ok; ok = it.Next() {
		k := append(append([]byte(nil), addPrefix...), it.Key()...)
		out = append(out, simkit.KV{K: k, V: append([]byte(nil), it.Value()...)})
	}
	err := it.Error()
	it.Release()
	c.Must(err, "iterator")
	return out
}

// sweep compares everything visible at every level with the model.
func (r *c44sRun) sweep(when string) {
	c := r.c
	st := []byte{byte(scom.ST_STORAGE)}
	// cache level: all contract storage
	got := c44Collect(c, r.cache.NewIterator(nil), st)
	want := r.m.list(string(st), c44LvCache)
	if d := simkit.DiffKV(got, want, 4); len(d) > 0 {
		c.Fail("storage-differs-from-model", "store/"+when+"/cache-level", "%s: contract storage seen through the CacheDB iterator differs from the model (real=left): %v", when, d)
	}
	for _, a := range r.addrs {
		for _, k := range r.keys {
			raw := c44StorageRaw(a, k)
			v, err := r.cache.Get(raw[1:])
			c.Must(err, "cache get")
			w, _ := r.m.get(string(raw), c44LvCache)
			if !bytes.Equal(v, w) && (len(v) > 0 || len(w) > 0) {
				c.Fail("storage-differs-from-model", "store/"+when+"/cache-get", "%s: Get %s/%s = %s, model %s", when, r.name(a), c44Hex(k), c44V(v), c44V(w))
			}
		}
		dep, destroyed, err := r.cache.GetContract(a)
		c.Must(err, "GetContract")
		wc, _ := r.m.get(string(c44PrefRaw(scom.ST_CONTRACT, a)), c44LvCache)
		wd, _ := r.m.get(string(c44PrefRaw(scom.ST_DESTROYED, a)), c44LvCache)
		if destroyed != (wd != nil) || (!destroyed && (dep != nil) != (wc != nil)) {
			c.Fail("contract-record-differs-from-model", "store/"+when, "%s: GetContract(%s): contract=%v destroyed=%v, model contract=%v destroyed=%v", when, r.name(a), dep != nil, destroyed, wc != nil, wd != nil)
		}
	}
	// overlay and leveldb level: the three prefixes
	for _, p := range []scom.DataEntryPrefix{scom.ST_CONTRACT, scom.ST_STORAGE, scom.ST_DESTROYED} {
		pf := []byte{byte(p)}
		got := c44Collect(c, r.ov.NewIterator(pf), nil)
		want := r.m.list(string(pf), c44LvOver)
		if d := simkit.DiffKV(got, want, 4); len(d) > 0 {
			c.Fail("storage-differs-from-model", "store/"+when+"/overlay-level", "%s: prefix %#x seen through the overlay differs from the model (real=left): %v", when, byte(p), d)
		}
		got = c44Collect(c, r.lvl.NewIterator(pf), nil)
		want = r.m.list(string(pf), c44LvBack)
		if d := simkit.DiffKV(got, want, 4); len(d) > 0 {
			c.Fail("storage-differs-from-model", "store/"+when+"/leveldb-level", "%s: prefix %#x in leveldb differs from the model (real=left): %v", when, byte(p), d)
		}
	}
}
