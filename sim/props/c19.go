package props

import (
	"bytes"
	"fmt"
	"github.com/ethereum/go-ethereum/rlp"
	"github.com/ontio/ontology-crypto/keypair"
	"math/big"

	ethtypes "github.com/ethereum/go-ethereum/core/types"
	"github.com/ontio/ontology/common"
	"github.com/ontio/ontology/common/config"
	"github.com/ontio/ontology/common/constants"
	"github.com/ontio/ontology/core/payload"
	"github.com/ontio/ontology/core/types"
	"github.com/ontio/ontology/vm/neovm"

	"ontosim/simkit"
	"ontosim/world"
)

func init() {
	simkit.Register(&simkit.Prop{
		ID:             "C19",
		Desc:           "transaction encoding is canonical and its hash binds the signed content",
		Rule:           "a run = 10..60 transactions (invoke, deploy, EIP-155 transfers and contract creations, some of which the node must refuse - gas price not a multiple of GWei, nonce beyond 32 bits - without panicking; 0..3 signature sets, canonical and hand-assembled scripts) each altered on the wire by a tape-chosen fault: none / byte flip / truncation / trailing bytes / a minimal var-int re-encoded non-minimally (0xfd/0xfe/0xff forms) at a tape-chosen var-int position / a length field changed / only signature bytes changed / padding after the RLP value inside an EIP-155 var-bytes field / size blown over 1 MiB by the code or by the signature section (checked against both TransactionFromRawBytes and the stream decoder Transaction.Deserialization used for blocks and p2p messages). For every byte string the node's decoder (TransactionFromRawBytes) ACCEPTS: ToArray() equals the consumed bytes; the unsigned part re-encoded from the PARSED FIELDS (a MutableTransaction built from them and serialised, which does not reuse the captured bytes) equals the consumed unsigned prefix; hash = sha256^2(unsigned prefix) (Ontology format) or the EIP-155 transaction hash; a change confined to the signature section leaves the hash unchanged; inputs over the size limit are rejected. non-trivial = >= 3 accepted altered inputs evaluated and >= 1 rejected; distinct = distinct event-trace hash",
		Real:           []string{"core/types transaction codec (Deserialization, IntoMutable, serialisation)", "core/payload codecs", "common zero-copy source/sink"},
		Stub:           []string{"client and corrupting link (harness)"},
		Assumptions:    []string{"the only simulator dimension is in-flight corruption; exploration over generated corruptions, not all byte strings", "the signature section is compared byte-for-byte only through ToArray (a different but valid script encoding is not a hash-relevant difference)"},
		ExpectedProbes: []string{"accepted_altered", "rejected_altered", "nonminimal_varint_rejected", "oversize_rejected"},
		Run:            runC19,
	})
}

// varintPositions returns offsets of one-byte var-ints (< 0xfd) in an
// Ontology-format transaction: payload lengths and counts, found by parsing.
func c19VarintPositions(raw []byte) []int {
	tx, err := types.TransactionFromRawBytes(append([]byte(nil), raw...))
	if err != nil || tx.IsEipTx() {
		return nil
	}
	// walk the encoding: every var-int (length prefix or count) of the payload and of the signature section
	var pos []int
	p := 42 // version(1) type(1) nonce(4) price(8) limit(8) payer(20)
	bad := false
	varbytes := func() {
		if bad || p >= len(raw) || raw[p] >= 0xfd {
			bad = true // only one-byte prefixes are generated; anything else ends the walk
			return
		}
		pos = append(pos, p)
		p += 1 + int(raw[p])
	}
	switch tx.TxType {
	case types.InvokeNeo, types.InvokeWasm:
		varbytes() // code
	case types.Deploy:
		varbytes() // code
		p++        // vm type
		for i := 0; i < 5; i++ {
			varbytes() // name, version, author, email, description
		}
	default:
		bad = true
	}
	if !bad && p+1 < len(raw) && raw[p] < 0xfd && raw[p+1] < 0xfd {
		pos = append(pos, p) // attributes count
		p++
		nsig := int(raw[p])
		pos = append(pos, p) // signature-set count
		p++
		for i := 0; i < nsig && !bad; i++ {
			varbytes() // invocation script
			varbytes() // verification script
		}
	}
	if !bad && p != len(raw) {
		panic(simkit.HarnessError{Msg: fmt.Sprintf("var-int walk ended at %d of %d bytes", p, len(raw))})
	}
	var ok []int
	for _, q := range pos {
		if q < len(raw) && raw[q] < 0xfd {
			ok = append(ok, q)
		}
	}
	return ok
}

func c19CheckAccepted(c *simkit.Ctx, in []byte, fault string) {
	tx, err := types.TransactionFromRawBytes(append([]byte(nil), in...))
	if err != nil {
		c.Probe("rejected_altered")
		if fault == "nonminimal-varint" {
			c.Probe("nonminimal_varint_rejected")
		}
		return
	}
	c.Probe("accepted_altered")
	consumed := in[:len(tx.Raw)]
	if !bytes.Equal(tx.ToArray(), consumed) {
		c.Fail("toarray-differs-from-consumed", fault, "accepted %d bytes but ToArray() returns %d different bytes", len(consumed), len(tx.ToArray()))
	}
	if len(in) > types.MAX_TX_SIZE {
		c.Fail("oversize-accepted", fault, "input of %d bytes accepted", len(in))
	}
	if tx.IsEipTx() {
		eip, err := tx.GetEIP155Tx()
		if err != nil {
			c.Fail("eip155-undecodable-after-accept", fault, "%v", err)
		}
		if common.Uint256(eip.Hash()) != tx.Hash() {
			c.Fail("hash-not-eip155-hash", fault, "tx hash %x, eth hash %x", tx.Hash(), eip.Hash())
		}
		// one transaction, one encoding: wrapping the parsed Ethereum transaction again gives the consumed bytes
		if again, err := types.TransactionFromEIP155(eip); err != nil || !bytes.Equal(again.ToArray(), consumed) {
			c.Fail("encoding-not-canonical", fault+"/eip155", "the accepted EIP-155 encoding (%d bytes) differs from the canonical encoding of the transaction it carries (err %v)", len(consumed), err)
		}
		return
	}
	// re-encode the unsigned part from the parsed fields
	// (built from the fields directly: IntoMutable would also parse the signature
	// scripts, which the decoder legitimately leaves to the validator)
	mt := &types.MutableTransaction{Version: tx.Version, TxType: tx.TxType, Nonce: tx.Nonce, GasPrice: tx.GasPrice,
		GasLimit: tx.GasLimit, Payer: tx.Payer, Payload: tx.Payload}
	im, err := mt.IntoImmutable()
	if err != nil {
		c.Fail("accepted-but-not-reencodable", fault, "re-encode: %v", err)
	}
	unsigned := im.Raw[:len(im.Raw)-1]
	if len(consumed) < len(unsigned) || !bytes.Equal(consumed[:len(unsigned)], unsigned) {
		c.Fail("encoding-not-canonical", fault, "the decoder accepted an unsigned part that differs from the canonical encoding of the fields it parsed (consumed %x..., canonical %x...)", head(consumed, 60), head(unsigned, 60))
	}
	if h := sha256d(unsigned); h != tx.Hash() {
		c.Fail("hash-not-of-unsigned-content", fault, "hash %x is not sha256^2 of the unsigned prefix (%x)", tx.Hash(), h)
	}
	if mt.Hash() != tx.Hash() {
		c.Fail("hash-differs-after-reencode", fault, "hash %x vs %x after re-encoding from fields", tx.Hash(), mt.Hash())
	}
}

func head(b []byte, n int) []byte {
	if len(b) > n {
		return b[:n]
	}
	return b
}

func runC19(c *simkit.Ctx) {
	t := c.Tape
	w := newClWorld(c, -1)
	n := 10 + t.Choose(51)
	evaluated, rejected := 0, 0
	for i := 0; i < n; i++ {
		var raw, eipRLP []byte
		hostile := ""
		kind := t.Pick(5, 2, 2)
		switch kind {
		case 0, 1:
			ns := t.Choose(4)
			perm := t.Perm(len(w.parties))
			var signers []*clParty
			for k := 0; k < ns; k++ {
				signers = append(signers, w.parties[perm[k]])
			}
			payer := w.parties[perm[0]].addr(c)
			w.nonce++
			code := append([]byte{byte(neovm.PUSH1)}, t.Bytes(t.Choose(40))...)
			mt := world.InvokeTx(code, uint64(t.Choose(3))*500, uint64(t.Choose(100000)), w.nonce, payer)
			if kind == 1 {
				mt.TxType = types.Deploy
				dc, err := payload.NewDeployCode(append([]byte{1}, t.Bytes(t.Choose(30))...), payload.NEOVM_TYPE, string(t.Bytes(t.Choose(5))), "v", "a", "e", "d")
				c.Must(err, "deploy code")
				mt.Payload = dc
			}
			hash := mt.Hash()
			var sets []clSigSet
			for _, p := range signers {
				sets = append(sets, clSignSet(c, p, hash, !t.Prob(1, 3)))
			}
			raw = clAssemble(c, mt, sets)
		case 2:
			e := w.eth[t.Choose(len(w.eth))]
			chain := big.NewInt(int64(config.DefConfig.P2PNode.EVMChainId))
			// a transfer or a contract creation; now and then one the node must refuse (gas price not a
			// multiple of GWei, nonce beyond 32 bits) - refusing must not panic
			nonce, price := uint64(t.Choose(1000)), big.NewInt(int64(constants.GWei)*int64(t.Choose(3)))
			creation := t.Prob(1, 4)
			switch t.Pick(8, 1, 1) {
			case 1:
				price = big.NewInt(int64(constants.GWei)*int64(t.Choose(3)) + 1 + int64(t.Choose(999)))
				hostile = "gas price not a multiple of GWei"
			case 2:
				nonce = 1<<32 + uint64(t.Choose(5))
				hostile = "nonce beyond 32 bits"
			}
			var etx *ethtypes.Transaction
			if creation {
				etx = ethtypes.NewContractCreation(nonce, big.NewInt(int64(t.Choose(1000))), 100000, price, append([]byte{0x60, 0x00}, t.Bytes(t.Choose(20))...))
			} else {
				etx = ethtypes.NewTransaction(nonce, e.addr, big.NewInt(int64(t.Choose(1000))), 21000, price, t.Bytes(t.Choose(20)))
			}
			signed, err := ethtypes.SignTx(etx, ethtypes.NewEIP155Signer(chain), e.key)
			c.Must(err, "sign eip155")
			eipRLP, err = rlp.EncodeToBytes(signed)
			c.Must(err, "rlp")
			sk := common.NewZeroCopySink(nil)
			sk.WriteByte(0)
			sk.WriteByte(byte(types.EIP155))
			sk.WriteVarBytes(eipRLP)
			raw = sk.Bytes()
			if hostile != "" {
				if creation {
					hostile += " (contract creation)"
				}
				_, derr := types.TransactionFromRawBytes(append([]byte(nil), raw...))
				stx := new(types.Transaction)
				serr := stx.Deserialization(common.NewZeroCopySource(append([]byte(nil), raw...)))
				c.Logf("tx %d eip155 that must be refused (%s): raw decoder err=%v, stream decoder err=%v", i, hostile, derr, serr)
				if derr == nil || serr == nil {
					c.Fail("eip155-rule-not-enforced", hostile, "an EIP-155 transaction with %s was accepted", hostile)
				}
				c.Probe("hostile_eip155_refused")
				rejected++
				continue
			}
		}
		orig, err := types.TransactionFromRawBytes(append([]byte(nil), raw...))
		if err != nil {
			c.Harness("own transaction does not decode: %v", err)
		}
		fault := t.Pick(2, 4, 2, 2, 4, 2, 3, 1, 2)
		name := []string{"none", "flip-byte", "truncate", "trailing-bytes", "nonminimal-varint", "length-field", "signature-bytes-only", "oversize", "eip155-padding-inside"}[fault]
		in := append([]byte(nil), raw...)
		if fault == 8 && eipRLP == nil {
			fault, name = 0, "none"
		}
		switch fault {
		case 8:
			// bytes after the RLP value, inside the var-bytes field that carries it
			sk := common.NewZeroCopySink(nil)
			sk.WriteByte(0)
			sk.WriteByte(byte(types.EIP155))
			sk.WriteVarBytes(append(append([]byte(nil), eipRLP...), t.Bytes(1+t.Choose(20))...))
			in = sk.Bytes()
		case 1:
			in[t.Choose(len(in))] ^= byte(1 + t.Choose(255))
		case 2:
			in = in[:t.Choose(len(in))]
		case 3:
			in = append(in, t.Bytes(1+t.Choose(8))...)
		case 4:
			if ps := c19VarintPositions(raw); len(ps) > 0 {
				p := ps[t.Choose(len(ps))]
				v := in[p]
				var enc []byte
				switch t.Choose(3) {
				case 0:
					enc = []byte{0xfd, v, 0}
				case 1:
					enc = []byte{0xfe, v, 0, 0, 0}
				default:
					enc = []byte{0xff, v, 0, 0, 0, 0, 0, 0, 0}
				}
				in = append(append(append([]byte{}, in[:p]...), enc...), in[p+1:]...)
			} else {
				name = "none"
			}
		case 5:
			if ps := c19VarintPositions(raw); len(ps) > 0 {
				in[ps[t.Choose(len(ps))]] += byte(1 + t.Choose(3))
			}
		case 6:
			st := sigSectionStart(raw)
			if st > 0 && st+2 < len(in) {
				in[st+2+t.Choose(len(in)-st-2)] ^= byte(1 + t.Choose(255))
			} else {
				name = "none"
			}
		case 7:
			// blow the invoke code up beyond the limit
			sink := common.NewZeroCopySink(nil)
			sink.WriteByte(0)
			sink.WriteByte(byte(types.InvokeNeo))
			sink.WriteUint32(w.nonce)
			sink.WriteUint64(0)
			sink.WriteUint64(0)
			payer := w.parties[0].addr(c)
			sink.WriteBytes(payer[:])
			if t.Bool() {
				sink.WriteVarBytes(make([]byte, types.MAX_TX_SIZE-40+t.Choose(64)))
				sink.WriteVarUint(0)
				sink.WriteVarUint(0)
			} else {
				// small body, the signature section carries the bulk
				name = "oversize-signature-section"
				sink.WriteVarBytes([]byte{byte(neovm.PUSH1)})
				sink.WriteVarUint(0)
				nsig := 1 + t.Choose(3)
				sink.WriteVarUint(uint64(nsig))
				for k := 0; k < nsig; k++ {
					sink.WriteVarBytes(make([]byte, (types.MAX_TX_SIZE+t.Choose(64))/nsig+1))
					sink.WriteVarBytes(clVerifyScript([][]byte{keypair.SerializePublicKey(w.parties[0].accs[0].PublicKey)}, 1))
				}
			}
			in = sink.Bytes()
		}
		c.Logf("tx %d kind=%d fault=%s len=%d", i, kind, name, len(in))
		if fault == 7 {
			if _, err := types.TransactionFromRawBytes(append([]byte(nil), in...)); err == nil {
				c.Fail("oversize-accepted", name, "a %d-byte transaction was accepted (limit %d)", len(in), types.MAX_TX_SIZE)
			}
			// the decoder used for transactions inside blocks and p2p messages reads from a stream
			stx := new(types.Transaction)
			if err := stx.Deserialization(common.NewZeroCopySource(append(append([]byte(nil), in...), t.Bytes(t.Choose(4))...))); err == nil {
				c.Fail("oversize-accepted", name+"/stream-decoder", "a %d-byte transaction was accepted by Transaction.Deserialization (blocks, p2p messages; limit %d)", len(stx.Raw), types.MAX_TX_SIZE)
			}
			c.Probe("oversize_rejected")
			rejected++
			continue
		}
		before := c.Probes["rejected_altered"]
		c19CheckAccepted(c, in, name)
		if c.Probes["rejected_altered"] > before {
			rejected++
		} else {
			evaluated++
		}
		if fault == 6 {
			if tx2, err := types.TransactionFromRawBytes(append([]byte(nil), in...)); err == nil && !orig.IsEipTx() {
				if tx2.Hash() != orig.Hash() {
					c.Fail("signature-bytes-change-hash", name, "changing only signature bytes changed the hash %x -> %x", orig.Hash(), tx2.Hash())
				}
				c.Probe("signature_change_keeps_hash")
			}
		}
		if fault == 4 && name != "none" {
			if _, err := types.TransactionFromRawBytes(append([]byte(nil), in...)); err == nil {
				c.Fail("nonminimal-varint-accepted", name, "a transaction with a non-minimally encoded var-int was accepted: one transaction, two encodings")
			}
		}
	}
	if evaluated >= 3 && rejected >= 1 {
		c.NonTrivial()
	}
	_ = fmt.Sprint
}
