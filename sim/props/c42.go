package props

import (
	"encoding/binary"
	"fmt"
	"math/big"
	"strings"
	"time"

	ethcomm "github.com/ethereum/go-ethereum/common"
	ethtypes "github.com/ethereum/go-ethereum/core/types"
	"github.com/ontio/ontology/account"
	"github.com/ontio/ontology/common"
	"github.com/ontio/ontology/core/payload"
	"github.com/ontio/ontology/core/store"
	scom "github.com/ontio/ontology/core/store/common"
	"github.com/ontio/ontology/core/store/ledgerstore"
	"github.com/ontio/ontology/core/types"
	cutils "github.com/ontio/ontology/core/utils"
	nutils "github.com/ontio/ontology/smartcontract/service/native/utils"
	"github.com/ontio/ontology/vm/evm"
	vm "github.com/ontio/ontology/vm/neovm"

	"ontosim/simkit"
	"ontosim/world"
)

// C42: pre-execution never changes persisted state.
func init() {
	simkit.Register(&simkit.Prop{
		ID:   "C42",
		Desc: "pre-executing invoke / deploy / EIP-155 transactions through every read-only interface of the ledger leaves the disk, all four stores, height, block hash and event records untouched - also between ExecuteBlock and SubmitBlock of a commit, after a restart, and compared with a twin ledger that never pre-executed anything",
		Rule: "a run = a solo ledger plus a twin that receives the same blocks and no pre-execution; setup deploys a NeoVM storage contract and an EVM universal contract and funds two EVM senders; then 4..22 tape-chosen operations: pre-execute a generated transaction (native ONG/ONT transfer / transferV2 / approve, NeoVM storage put / delete, a throwing script, a deploy, an EIP-155 value transfer, SSTORE, LOG, CALL with value, SELFDESTRUCT, SSTORE+REVERT, creation) through PreExecuteContract, PreExecuteContractWithParam, PreExecuteContractBatch (atomic and not, 1..3 transactions), PreExecuteEIP155, PreExecuteEip155Tx or TraceEip155Tx, on the driving goroutine or handed to a second goroutine; commit a block (empty, or carrying the transactions pre-executed before) with up to 2 pre-executions between ExecuteBlock and SubmitBlock and, for a third of the non-empty blocks, one more INSIDE SubmitBlock (the committing goroutine is stopped right before a tape-chosen disk call of the commit while a second goroutine pre-executes); clean restart. Around every pre-execution: the count of mutating SimDisk calls on database journal files (every logical LevelDB write appends to one; table compactions that goleveldb starts after fruitless seeks are allowed and counted as a probe), height, current block hash and the logical digest of block / state / event / cross-chain store must be unchanged; after every commit and restart all four stores must equal the twin's; parties also spend their own ONT (all of it, part of it, more than they have) and every committed ONT transfer must succeed or fail, and the parties' balances must read, as a model of the COMMITTED transfers alone says (the twin shares the process, so state leaked by a pre-execution into process-global memory would hit both ledgers alike). non-trivial = at least 3 pre-executions of state-writing transactions that returned a result, one of them between ExecuteBlock and SubmitBlock, and at least one of the pre-executed transactions later changed contract state when committed in a block; distinct = distinct event-trace hash",
		Real: []string{"core/store/ledgerstore (PreExecuteContract, PreExecuteContractWithParam, PreExecuteContractBatch, PreExecuteEIP155, PreExecuteEip155Tx, TraceEip155Tx, ExecuteBlock, SubmitBlock, recovery)", "smartcontract + NeoVM + native ONT/ONG", "smartcontract/service/evm + vm/evm (incl. StructLogger tracer)", "smartcontract/storage CacheDB/StateDB + overlaydb", "event store, goleveldb on SimDisk"},
		Stub: []string{"solo block producer (harness builds/signs blocks like consensus/solo)", "RPC layer: the ledger methods are called directly with the arguments http/ethrpc and http/base would pass", "wasm JIT (stub archive; no wasm transactions)"},
		Assumptions: []string{
			"pre-executions overlap commits at operation granularity only: a pre-execution runs to completion between ExecuteBlock and SubmitBlock (on a second goroutine); a pre-execution racing inside SubmitBlock is not generated (it cannot be scheduled deterministically without a gate inside the ledger)",
			"every logical write to a LevelDB appends to its journal file, so an unchanged journal-call count means nothing was written; read-triggered (seek) compaction may rewrite table files and the manifest without changing content; the digest comparison re-reads the whole image through a read-only LevelDB",
		},
		ExpectedProbes: []string{"pre_native", "pre_neovm_put", "pre_neovm_throw", "pre_deploy", "pre_evm_transfer", "pre_evm_call", "pre_evm_create", "pre_evm_foreign_chain_id", "if_contract", "if_with_param", "if_batch", "if_batch_atomic", "if_eip155", "if_eip155_msg", "if_trace", "pre_ok", "pre_error", "pre_between_execute_and_submit", "pre_inside_submit", "pre_on_second_goroutine", "committed_changes_state", "restart", "commit_with_txs", "leveldb_compaction_during_preexec"},
		Run:            runC42,
	})
}

const (
	c42Native = iota
	c42NeoPut
	c42NeoThrow
	c42Deploy
	c42EvmTransfer
	c42EvmCall
	c42EvmCreate
)

var c42KindProbe = [...]string{"pre_native", "pre_neovm_put", "pre_neovm_throw", "pre_deploy", "pre_evm_transfer", "pre_evm_call", "pre_evm_create"}

type c42Subject struct {
	kind    int
	desc    string
	tx      *types.Transaction
	etx     *ethtypes.Transaction // EIP-155 subjects
	k       *c07Key
	nonce   uint64
	writes  bool // a successful execution writes contract state
	preOK   bool // some pre-execution returned a result for it
	commits bool // may be put into a block
	// ONT transfer subjects: what the balance model needs
	ontFrom, ontTo common.Address
	ontAmt         uint64
}

type c42Run struct {
	c            *simkit.Ctx
	m, w         *world.Chain
	parties      []*account.Account
	ont          map[common.Address]uint64 // ONT of parties[1:] by the committed transfers
	keys         []*c07Key
	evmNonce     map[ethcomm.Address]uint64
	u            ethcomm.Address // universal contract
	neo          common.Address  // NeoVM storage contract
	ontNonce     uint32
	ts           uint32
	deployID     byte
	pending      []*c42Subject
	whileBlocked func() // set while a commit is paused inside SubmitBlock: lets it go on
	jobs         chan func()
	done         chan struct{}

	preWrites, preBoundary int
	committedChanged       bool
}

func runC42(c *simkit.Ctx) {
	c.Bubble(func() {
		t := c.Tape
		r := &c42Run{c: c, evmNonce: map[ethcomm.Address]uint64{}}
		r.m = world.NewSoloChain(c, "main")
		r.w = r.m.Twin("twin")
		c.Must(r.m.Open(), "open main")
		c.Must(r.w.Open(), "open twin")
		world.Quiesce()
		r.ts = r.m.Now
		r.ontNonce = 1
		r.parties = []*account.Account{r.m.Book, account.NewAccount(""), account.NewAccount("")}
		r.keys = []*c07Key{c07NewKey(c, "c42", 0), c07NewKey(c, "c42", 1)}

		// second goroutine for pre-executions, driven one job at a time
		r.jobs = make(chan func())
		r.done = make(chan struct{})
		go func() {
			for f := range r.jobs {
				f()
				r.done <- struct{}{}
			}
		}()
		c.Defer(func() { close(r.jobs) })

		// ---- setup (same blocks on both ledgers)
		var setup []*types.Transaction
		for _, k := range r.keys {
			setup = append(setup, c07Fund(c, r.m, k.addr, new(big.Int).Mul(big.NewInt(100), big.NewInt(1e18)), r.next()))
		}
		m, err := world.TransferTx("ont", r.m.Book.Address, r.parties[1].Address, 1000, 0, 20000, r.next(), r.m.Book.Address)
		c.Must(err, "ont transfer")
		setup = append(setup, r.sealBy(m, r.m.Book))
		r.ont = map[common.Address]uint64{r.parties[1].Address: 1000, r.parties[2].Address: 0}
		r.neo = common.AddressFromVmCode(c05ContractCode(c, 0))
		setup = append(setup, r.deployTx(0))
		r.deployID = 1
		r.commit(setup, 0)
		r.u = c07CreateAddr(r.keys[0].eth, 0)
		etx := c07EthTx(c, r.keys[0], c07ChainID(), 0, nil, new(big.Int), 400000, new(big.Int), c07InitCode(c07CtorOK, 1, ethcomm.Address{}))
		ctx, err := c07Wrap(etx)
		c.Must(err, "wrap create")
		r.commit([]*types.Transaction{ctx}, 0)
		r.evmNonce[r.keys[0].eth] = 1
		if acc, err := r.m.Store.GetEthAccount(r.u); err != nil || acc == nil || acc.IsEmptyContract() {
			c.Harness("universal contract not deployed: %v", err)
		}

		nOps := t.Range(4, 4+t.Pick(3, 5, 3)*9)
		for i := 0; i < nOps; i++ {
			switch t.Pick(8, 4, 1) {
			case 0:
				r.preExec(false)
			case 1:
				r.genCommit()
			default:
				r.restart()
			}
		}
		// the transactions pre-executed so far go into a last block; a final
		// restart must still find both ledgers equal
		r.genCommit()
		r.restart()
		if r.preWrites >= 3 && r.preBoundary >= 1 && r.committedChanged {
			c.NonTrivial()
		}
	})
}

func (r *c42Run) next() uint32 { r.ontNonce++; return r.ontNonce }

func (r *c42Run) sealBy(m *types.MutableTransaction, a *account.Account) *types.Transaction {
	r.c.Must(world.Sign(m, a), "sign")
	tx, err := world.Seal(m)
	r.c.Must(err, "seal")
	return tx
}

func (r *c42Run) deployTx(id byte) *types.Transaction {
	m, err := cutils.NewDeployTransaction(c05ContractCode(r.c, id), "c42", "1", "sim", "-", "storage contract", payload.NEOVM_TYPE)
	r.c.Must(err, "deploy tx")
	m.GasPrice, m.GasLimit, m.Nonce, m.Payer = 0, 30000000, r.next(), r.m.Book.Address
	return r.sealBy(m, r.m.Book)
}

// ---------------------------------------------------------------- subjects

func (r *c42Run) genSubject() *c42Subject {
	t := r.c.Tape
	c := r.c
	s := &c42Subject{commits: true}
	switch t.Pick(4, 4, 1, 1, 3, 5, 1) {
	case c42Native:
		s.kind = c42Native
		from := r.m.Book
		to := r.parties[1+t.Choose(2)].Address
		amt := uint64(1 + t.Choose(1000))
		var m *types.MutableTransaction
		var err error
		sub := t.Choose(4)
		if t.Prob(1, 3) {
			// a party spends its own ONT: all of it (the balance entry is deleted), part of it, or more than it has
			from = r.parties[1+t.Choose(2)]
			to = r.parties[t.Choose(3)].Address
			bal := r.ont[from.Address]
			amt = []uint64{bal, bal, 1 + uint64(t.Choose(100)), bal + 1}[t.Choose(4)]
			sub = 1
		}
		switch sub {
		case 0:
			m, err = world.TransferTx("ong", from.Address, to, amt, 0, 20000, r.next(), from.Address)
			s.desc = fmt.Sprintf("ong.transfer BK->%s:%d", tokShort(to), amt)
		case 1:
			m, err = world.TransferTx("ont", from.Address, to, amt, 0, 20000, r.next(), from.Address)
			s.desc = fmt.Sprintf("ont.transfer %s->%s:%d", tokShort(from.Address), tokShort(to), amt)
			s.ontFrom, s.ontTo, s.ontAmt = from.Address, to, amt
		case 2:
			sts := []tokXfer{{From: from.Address, To: to, Value: big.NewInt(int64(amt) * 1000003)}}
			m, err = world.NativeTx(nutils.OngContractAddress, 0, "transferV2", []interface{}{sts}, 0, 20000, r.next(), from.Address)
			s.desc = fmt.Sprintf("ong.transferV2 BK->%s:%d", tokShort(to), amt*1000003)
		default:
			st := tokXfer{From: from.Address, To: to, Value: big.NewInt(int64(amt))}
			m, err = world.NativeTx(nutils.OntContractAddress, 0, "approve", []interface{}{st}, 0, 20000, r.next(), from.Address)
			s.desc = fmt.Sprintf("ont.approve BK->%s:%d", tokShort(to), amt)
		}
		c.Must(err, "native tx")
		s.tx = r.sealBy(m, from)
		s.writes = true
	case c42NeoPut:
		s.kind = c42NeoPut
		a := newC05Asm()
		key := []byte{'k', byte('0' + t.Choose(4))}
		if t.Prob(1, 4) {
			c05FragCall(a, r.neo, c05ModeDelete, key, []byte{0})
			s.desc = fmt.Sprintf("neovm delete(%s)", key)
		} else {
			val := []byte{'v', byte(t.Choose(200))}
			c05FragCall(a, r.neo, c05ModePut, key, val)
			s.desc = fmt.Sprintf("neovm put(%s,%x)", key, val)
		}
		s.tx = r.sealBy(world.InvokeTx(a.bytes(c), 0, 200000, r.next(), r.m.Book.Address), r.m.Book)
		s.writes = true
	case c42NeoThrow:
		s.kind = c42NeoThrow
		a := newC05Asm()
		c05FragCall(a, r.neo, c05ModePut, []byte("kt"), []byte("x"))
		a.op(vm.THROW)
		s.desc = "neovm put then THROW"
		s.tx = r.sealBy(world.InvokeTx(a.bytes(c), 0, 200000, r.next(), r.m.Book.Address), r.m.Book)
	case c42Deploy:
		s.kind = c42Deploy
		id := r.deployID
		r.deployID++
		s.desc = fmt.Sprintf("deploy storage contract #%d", id)
		s.tx = r.deployTx(id)
		s.writes = true
	default:
		return r.genEvmSubject(s)
	}
	return s
}

func (r *c42Run) genEvmSubject(s *c42Subject) *c42Subject {
	t := r.c.Tape
	k := r.keys[t.Choose(len(r.keys))]
	s.k = k
	s.nonce = r.evmNonce[k.eth]
	gasPrice := new(big.Int).Mul(big.NewInt(c07Prices[t.Pick(2, 1, 2, 1)]), big.NewInt(c07GWei))
	value := new(big.Int)
	if t.Bool() {
		value = big.NewInt(int64(1 + t.Choose(1000000)))
	}
	other := r.keys[1-t.Choose(2)].eth
	var to *ethcomm.Address
	var data []byte
	switch t.Pick(3, 6, 1) {
	case 0:
		s.kind = c42EvmTransfer
		dst := other
		if t.Bool() {
			dst = ethcomm.Address(r.parties[1].Address)
		}
		to = &dst
		if value.Sign() == 0 {
			value = big.NewInt(7)
		}
		s.desc = fmt.Sprintf("evm transfer ->%s", c07Short(dst))
		s.writes = true
	case 1:
		s.kind = c42EvmCall
		to = &r.u
		sel := []int{c07SelStore, c07SelLogs, c07SelCall, c07SelStoreRevert, c07SelDestruct, c07SelLog2}[t.Pick(4, 2, 3, 1, 1, 1)]
		switch sel {
		case c07SelStore, c07SelStoreRevert:
			data = c07Calldata(byte(sel), nil, []byte{byte(t.Choose(3))}, []byte{byte(1 + t.Choose(9))})
		case c07SelCall:
			data = c07Calldata(byte(sel), nil, other[:], c07Word(value))
		case c07SelDestruct:
			data = c07Calldata(byte(sel), nil, other[:])
		default:
			data = c07Calldata(byte(sel), nil, []byte{0xa1}, []byte{0xb2}, []byte{0xc3})
		}
		s.desc = fmt.Sprintf("evm call U.%s", c07SelNames[sel])
		s.writes = sel != c07SelStoreRevert
	default:
		s.kind = c42EvmCreate
		data = c07InitCode(c07CtorOK, byte(10+t.Choose(200)), ethcomm.Address{})
		s.desc = "evm create"
		s.writes = true
	}
	chain := c07ChainID()
	if t.Prob(1, 12) {
		// signed for another chain: pre-execution must answer with an error; never committed
		chain = big.NewInt(chain.Int64() + 1)
		s.commits, s.writes = false, false
		s.desc += " (foreign chain id)"
		r.c.Probe("pre_evm_foreign_chain_id")
	}
	s.etx = c07EthTx(r.c, k, chain, s.nonce, to, value, 400000, gasPrice, data)
	tx, err := c07Wrap(s.etx)
	r.c.Must(err, "wrap")
	s.tx = tx
	s.desc = fmt.Sprintf("%s from %s n=%d v=%s gp=%s", s.desc, k.name, s.nonce, value, gasPrice)
	return s
}

// ---------------------------------------------------------------- pre-execution

type c42Probe struct {
	ops    int // all mutating disk calls
	jops   int // mutating calls on journal files: every logical write appends to one
	height uint32
	hash   common.Uint256
	snap   *world.Snapshot
}

func (r *c42Run) observe() *c42Probe {
	world.Quiesce()
	sn, err := r.m.Snap(true)
	r.c.Must(err, "snapshot")
	jops := 0
	for k, v := range r.m.Disk.Counts() {
		if strings.HasSuffix(k, "/journal") {
			jops += v
		}
	}
	return &c42Probe{ops: r.m.Disk.Ops(), jops: jops, height: r.m.Store.GetCurrentBlockHeight(), hash: r.m.Store.GetCurrentBlockHash(), snap: sn}
}

type c42Out struct {
	ok     bool
	detail string
	panicV interface{}
}

// preExec generates a subject and pre-executes it through a chosen interface.
// boundary: called between ExecuteBlock and SubmitBlock.
func (r *c42Run) preExec(boundary bool) {
	c := r.c
	t := c.Tape
	s := r.genSubject()
	c.Probe(c42KindProbe[s.kind])
	st := r.m.Store

	var call func() (bool, string)
	batchDesc := ""
	iface := ""
	evmIface := 0
	if s.etx != nil {
		evmIface = t.Pick(2, 2, 2, 1, 1)
	} else {
		evmIface = []int{0, 4, 5}[t.Pick(3, 2, 2)]
	}
	switch evmIface {
	case 0:
		iface = "if_contract"
		call = func() (bool, string) {
			res, err := st.PreExecuteContract(s.tx)
			if err != nil {
				return false, "error"
			}
			return true, fmt.Sprintf("state=%d gas=%d", res.State, res.Gas)
		}
	case 1:
		iface = "if_eip155"
		h := st.GetCurrentBlockHeight()
		ectx := ledgerstore.Eip155Context{BlockHash: st.GetCurrentBlockHash(), TxIndex: uint32(t.Choose(3)), Height: h, Timestamp: r.ts + 1}
		call = func() (bool, string) {
			res, nt, err := st.PreExecuteEIP155(s.etx, ectx)
			if err != nil {
				return false, "error"
			}
			return true, fmt.Sprintf("state=%d gas=%d failed=%v", nt.State, res.UsedGas, res.Failed())
		}
	case 2, 3:
		// the message eth_call / eth_estimateGas build: nonce 0, no nonce check
		msg := ethtypes.NewMessage(s.k.eth, s.etx.To(), 0, s.etx.Value(), s.etx.Gas(), s.etx.GasPrice(), s.etx.Data(), false)
		if evmIface == 2 {
			iface = "if_eip155_msg"
			call = func() (bool, string) {
				res, err := st.PreExecuteEip155Tx(msg)
				if err != nil {
					return false, "error"
				}
				return true, fmt.Sprintf("gas=%d failed=%v", res.UsedGas, res.Failed())
			}
		} else {
			iface = "if_trace"
			call = func() (bool, string) {
				tr := evm.NewStructLogger(nil)
				res, err := st.TraceEip155Tx(msg, tr)
				if err != nil {
					return false, "error"
				}
				return true, fmt.Sprintf("gas=%d failed=%v steps=%d", res.UsedGas, res.Failed(), len(tr.StructLogs()))
			}
		}
	case 4:
		iface = "if_with_param"
		p := ledgerstore.PrexecuteParam{JitMode: false, WasmFactor: uint64(t.Choose(3) * 5), MinGas: t.Bool()}
		call = func() (bool, string) {
			res, err := st.PreExecuteContractWithParam(s.tx, p)
			if err != nil {
				return false, "error"
			}
			return true, fmt.Sprintf("state=%d gas=%d", res.State, res.Gas)
		}
	default:
		atomic := t.Bool()
		iface = "if_batch"
		if atomic {
			iface = "if_batch_atomic"
		}
		txs := []*types.Transaction{s.tx}
		batchDesc = s.desc
		extra := t.Choose(3)
		for i := 0; i < extra; i++ {
			s2 := r.genSubject()
			c.Probe(c42KindProbe[s2.kind])
			s2.commits = false
			txs = append(txs, s2.tx)
			batchDesc += " + " + s2.desc
		}
		call = func() (bool, string) {
			res, h, err := st.PreExecuteContractBatch(txs, atomic)
			if err != nil {
				return false, "error"
			}
			d := fmt.Sprintf("h=%d", h)
			for _, x := range res {
				d += fmt.Sprintf(" state=%d", x.State)
			}
			return true, d
		}
	}
	c.Probe(iface)
	other := t.Prob(1, 3) || boundary
	where := ""
	if boundary {
		where = " [between ExecuteBlock and SubmitBlock]"
		c.Probe("pre_between_execute_and_submit")
	}
	if other {
		where += " [2nd goroutine]"
		c.Probe("pre_on_second_goroutine")
	}
	sig := iface[3:]
	if boundary {
		sig += "/between-execute-and-submit"
	}

	desc := s.desc
	if batchDesc != "" {
		desc = batchDesc
	}
	before := r.observe()
	var out c42Out
	run := func() {
		defer func() {
			if x := recover(); x != nil {
				out.panicV = x
			}
		}()
		out.ok, out.detail = call()
	}
	skipCompare := false
	if other {
		r.jobs <- run
		if r.whileBlocked != nil {
			// the commit is paused inside SubmitBlock: a pre-execution that waits for it (the
			// atomic batch takes the saving lock) can only finish after the commit goes on
			world.Quiesce()
			select {
			case <-r.done:
			default:
				c.Probe("pre_waited_for_commit")
				skipCompare = true
				if t.Bool() {
					// the disk call the commit is stopped at is slow: seconds pass before it returns
					d := time.Duration(1+t.Choose(30)) * time.Second
					c.Fault("slow_disk_call")
					time.Sleep(d)
					world.Quiesce()
				}
				gaveUp := false
				select {
				case <-r.done: // the waiting pre-execution gave up
					gaveUp = true
					c.Probe("pre_gave_up_waiting")
				default:
				}
				r.whileBlocked()
				if !gaveUp {
					<-r.done
				}
			}
		} else {
			<-r.done
		}
	} else {
		run()
	}
	after := r.observe()
	if skipCompare {
		after = before
	}
	if out.panicV != nil {
		c.Fail("preexec-panics", sig, "pre-execution of %s through %s panics: %v", desc, iface[3:], out.panicV)
	}
	c.Logf("pre %s via %s%s -> ok=%v %s", desc, iface[3:], where, out.ok, out.detail)
	if out.ok {
		c.Probe("pre_ok")
		s.preOK = true
		if s.writes {
			r.preWrites++
			if boundary {
				r.preBoundary++
			}
		}
	} else {
		c.Probe("pre_error")
	}
	r.compare(before, after, sig, "pre-execution of "+desc+" through "+iface[3:]+where)

	// keep it for a later block (at most one EVM transaction per sender nonce)
	if s.commits && !boundary {
		if s.etx != nil {
			kept := r.pending[:0]
			for _, p := range r.pending {
				if p.etx == nil || p.k != s.k {
					kept = append(kept, p)
				}
			}
			r.pending = kept
		}
		r.pending = append(r.pending, s)
	}
}

func (r *c42Run) compare(before, after *c42Probe, sig, what string) {
	c := r.c
	if after.jops != before.jops {
		lg := r.m.Disk.OpLog
		if before.ops < len(lg) {
			lg = lg[before.ops:]
		}
		if len(lg) > 12 {
			lg = lg[:12]
		}
		c.Fail("disk-written", sig, "%s: %d mutating calls on database journals (%d mutating disk calls in all): %v", what, after.jops-before.jops, after.ops-before.ops, lg)
	}
	if after.ops != before.ops {
		// goleveldb compacts a table after enough fruitless seeks: reads can
		// rewrite table files and the manifest; the logical content is compared below
		c.Probe("leveldb_compaction_during_preexec")
	}
	if after.height != before.height || after.hash != before.hash {
		c.Fail("height-or-hash-changed", sig, "%s: height %d -> %d, current hash %x -> %x", what, before.height, after.height, before.hash[:4], after.hash[:4])
	}
	for _, name := range world.Stores {
		if after.snap.Digest[name] != before.snap.Digest[name] {
			c.Fail("store-changed", sig+"/"+name, "%s: store %q changed: %v", what, name, simkit.DiffKV(before.snap.KV[name], after.snap.KV[name], 4))
		}
	}
}

// ---------------------------------------------------------------- commits

func c42ContractState(kvs []simkit.KV) string {
	var f []simkit.KV
	for _, kv := range kvs {
		if len(kv.K) == 0 {
			continue
		}
		switch scom.DataEntryPrefix(kv.K[0]) {
		case scom.ST_CONTRACT, scom.ST_STORAGE, scom.ST_ETH_CODE, scom.ST_ETH_ACCOUNT, scom.ST_DESTROYED:
			f = append(f, kv)
		}
	}
	return simkit.DigestKV(f)
}

func (r *c42Run) genCommit() {
	t := r.c.Tape
	var subjects []*c42Subject
	if len(r.pending) > 0 && t.Prob(3, 4) {
		subjects = r.pending
		r.pending = nil
	}
	r.commitSubjects(subjects, t.Pick(2, 2, 1))
}

func (r *c42Run) commitSubjects(subjects []*c42Subject, nBoundary int) {
	c := r.c
	var txs []*types.Transaction
	for _, s := range subjects {
		txs = append(txs, s.tx)
		c.Logf("block tx: %s", s.desc)
	}
	var pre []simkit.KV
	if len(subjects) > 0 {
		c.Probe("commit_with_txs")
		var err error
		pre, err = r.m.Disk.DumpStore("states")
		c.Must(err, "dump")
	}
	res := r.commit(txs, nBoundary)
	if len(subjects) == 0 {
		return
	}
	post, err := r.m.Disk.DumpStore("states")
	c.Must(err, "dump")
	anyOK := false
	for i, s := range subjects {
		okTx := res.Notify[i].State == 1
		c.Logf("  -> %s state=%d", s.desc, res.Notify[i].State)
		if s.etx != nil {
			r.evmNonce[s.k.eth]++ // applied with the account nonce: bumped whatever the outcome
		}
		if okTx && s.writes && s.preOK {
			anyOK = true
		}
		if s.ontAmt > 0 {
			// balance model: a signed ONT transfer succeeds iff the sender owns the amount
			want := s.ontFrom == r.m.Book.Address || r.ont[s.ontFrom] >= s.ontAmt
			if want != okTx {
				c.Fail("committed-transfer-differs-from-model", "ont-transfer", "block %d: %s has state %d; the sender owns %d ONT by the model of the committed transfers (pre-executions must not count)", r.m.Height(), s.desc, res.Notify[i].State, r.ont[s.ontFrom])
			}
			if okTx {
				if s.ontFrom != r.m.Book.Address {
					r.ont[s.ontFrom] -= s.ontAmt
				}
				if s.ontTo != r.m.Book.Address {
					r.ont[s.ontTo] += s.ontAmt
				}
				c.Probe("party_ont_transfer_committed")
			}
		}
	}
	for _, p := range r.parties[1:] {
		var have uint64
		if v, err := r.m.Store.GetStorageItem(nutils.OntContractAddress, p.Address[:]); err == nil && len(v) >= 8 {
			have = binary.LittleEndian.Uint64(v)
		}
		if have != r.ont[p.Address] {
			c.Fail("committed-transfer-differs-from-model", "ont-balance", "block %d: %s owns %d ONT on the ledger, %d by the model of the committed transfers", r.m.Height(), tokShort(p.Address), have, r.ont[p.Address])
		}
	}
	if anyOK && c42ContractState(pre) != c42ContractState(post) {
		r.committedChanged = true
		c.Probe("committed_changes_state")
	}
}

// commit applies a block to main (with nBoundary pre-executions between
// ExecuteBlock and SubmitBlock) and to the twin, then compares the two.
func (r *c42Run) commit(txs []*types.Transaction, nBoundary int) store.ExecuteResult {
	c := r.c
	r.ts += uint32(1 + c.Tape.Choose(20))
	h := r.m.Height() + 1
	blk := r.m.MakeBlock(txs, r.ts, uint64(h))
	res, err := r.m.Store.ExecuteBlock(blk)
	if err != nil {
		c.Harness("main refuses block %d: ExecuteBlock: %v", h, err)
	}
	for i := 0; i < nBoundary; i++ {
		r.preExec(true)
	}
	if len(txs) > 0 && c.Tape.Prob(1, 3) {
		// a pre-execution INSIDE SubmitBlock: the committing goroutine stops right before a
		// tape-chosen disk call of the commit (hash-file append, block / event / state store
		// batch), a second goroutine pre-executes, then the commit goes on
		reached, resume := r.m.Disk.ArmPause(1 + c.Tape.Choose(16))
		errCh := make(chan error, 1)
		go func() {
			defer func() {
				if x := recover(); x != nil {
					errCh <- fmt.Errorf("SubmitBlock panics: %v", x)
				}
			}()
			errCh <- r.m.Store.SubmitBlock(blk, nil, res)
		}()
		world.Quiesce()
		// a failing check must not unwind the run while the commit is still stopped
		var verdict interface{}
		func() {
			defer func() { verdict = recover() }()
			select {
			case <-reached:
				c.Probe("pre_inside_submit")
				r.whileBlocked = resume
				r.preExec(true)
				r.whileBlocked = nil
			default:
			}
		}()
		resume()
		err := <-errCh
		if verdict != nil {
			panic(verdict)
		}
		if err != nil {
			// the same block is accepted by the twin below: only the pre-execution inside the commit differs
			c.Fail("commit-fails-after-preexec-inside", "submit", "block %d: SubmitBlock that was stalled at a disk call while a pre-execution ran ends with: %v", h, err)
		}
	} else if err := r.m.Store.SubmitBlock(blk, nil, res); err != nil {
		c.Harness("main refuses block %d: SubmitBlock: %v", h, err)
	}
	r.m.Now = r.ts
	if _, err := r.w.Commit(blk); err != nil {
		c.Fail("twin-diverges", "commit", "the twin (no pre-executions) refuses block %d that main accepted: %v", h, err)
	}
	world.Quiesce()
	c.Logf("block %d committed: %d txs, %d pre-executions inside", h, len(txs), nBoundary)
	r.compareTwin(fmt.Sprintf("after block %d", h), "commit")
	return res
}

func (r *c42Run) compareTwin(when, sig string) {
	c := r.c
	ws, err := r.w.Snap(true)
	c.Must(err, "snapshot twin")
	ms, err := r.m.Snap(true)
	if err != nil {
		// the twin, which got the same blocks and no pre-execution, can be read
		c.Fail("twin-diverges", sig+"/unreadable", "%s: the ledger that served pre-executions cannot be read back (%v); the twin at height %d can", when, err, ws.Height)
	}
	if ms.Height != ws.Height || ms.Hash != ws.Hash {
		c.Fail("twin-diverges", sig, "%s: main at height %d (%x), twin at %d (%x)", when, ms.Height, ms.Hash[:4], ws.Height, ws.Hash[:4])
	}
	for _, name := range world.Stores {
		if ms.Digest[name] != ws.Digest[name] {
			c.Fail("twin-diverges", sig+"/"+name, "%s: store %q of the ledger that served pre-executions differs from the twin that did not (main=left): %v", when, name, simkit.DiffKV(ms.KV[name], ws.KV[name], 4))
		}
	}
	c.State("h", ms.Height, ms.Digest["states"])
}

func (r *c42Run) restart() {
	c := r.c
	before := r.observe()
	r.m.Close()
	world.Quiesce()
	r.m.Disk.Restart()
	if err := r.m.Open(); err != nil {
		c.Fail("reopen-fails", "clean-restart", "clean reopen at height %d fails: %v", before.height, err)
	}
	world.Quiesce()
	c.Fault("clean_restart")
	c.Probe("restart")
	c.Logf("restart at height %d", before.height)
	after := r.observe()
	after.ops, after.jops = before.ops, before.jops // a restart rewrites journals and manifests; the content must not change
	r.compare(before, after, "clean-restart", "clean restart")
	r.compareTwin("after restart", "clean-restart")
}
