package props

import (
	"fmt"
	"sort"

	"github.com/ontio/ontology/common/config"
	"github.com/ontio/ontology/common/constants"
	nutils "github.com/ontio/ontology/smartcontract/service/native/utils"

	"ontosim/simkit"
)

// C09: ONG issuance is interval-additive and totals exactly the ONG supply.
// Time is the only dimension: when settlements happen must not matter.
func init() {
	simkit.Register(&simkit.Prop{
		ID:             "C09",
		Desc:           "ONG unbinding: sum over any split of an interval equals the whole interval (holder and governance schedules); whole schedule totals the ONG supply",
		Rule:           "a run = one network id from the tape (1 main, 2 polaris, 3 solo, or another 32-bit id), set in config.DefConfig for the run, and 1..8 rounds; a round = start <= s1 <= ... <= sk <= end (k <= 6) drawn from the tape with a bias to 0, multiples of UNBOUND_TIME_INTERVAL +-2, the holder deadline +-2, the governance deadline +-2 and 2^32-1, and a holder balance (0, 1, total supply or random); checked: k-way and every binary split of CalcUnbindOng and CalcGovernanceUnbindOng against the unsplit interval, and holder total for the ONT supply + governance total = ONG supply. System level (1 run in 40): two real ledgers (solo chain world, network id 3, 1 or 2 set before genesis is executed) with the same two ONT holders are driven by two tape-chosen schedules of <= 4 touch events each (1-unit ONT self-transfer of a holder, unboundOngToGovernance) at block timestamps biased to the deadlines and interval boundaries, and one common final block that settles everybody; ONG released (balance + unclaimed allowance) to each holder and to governance must be equal. non-trivial = some round had a split point strictly inside an interval with a non-zero amount (function level) or at least one touch besides the final block (system level); distinct = distinct event-trace hash",
		Real:           []string{"smartcontract/service/native/utils.CalcUnbindOng, CalcGovernanceUnbindOng", "common/config.GetOntHolderUnboundDeadline, GetGovUnboundDeadline", "common/constants generation tables"},
		Stub:           []string{"no ledger: the settlement schedule is the list of split points (function level)"},
		Assumptions:    []string{"holder balances are at most the ONT total supply (10^9), so amounts fit in 64 bits"},
		ExpectedProbes: []string{"split_at_gov_deadline", "split_at_holder_deadline", "split_at_interval_boundary", "end_is_max_u32", "netid_other", "gov_split_deficit_is_gap", "sys_holder_ong_released", "sys_gov_ong_released", "sys_gov_touch_at_deadline"},
		Run:            runC09,
	})
}

const c09MaxU32 = ^uint32(0)

func c09Add(a uint32, d int) uint32 {
	v := int64(a) + int64(d)
	if v < 0 {
		return 0
	}
	if v > int64(c09MaxU32) {
		return c09MaxU32
	}
	return uint32(v)
}

func runC09(c *simkit.Ctx) {
	t := c.Tape
	if t.Prob(1, 40) {
		runC09System(c) // c09_sys.go
		return
	}
	var id uint32
	netName := ""
	switch t.Pick(3, 3, 3, 2) {
	case 0:
		id, netName = config.NETWORK_ID_MAIN_NET, "main"
	case 1:
		id, netName = config.NETWORK_ID_POLARIS_NET, "polaris"
	case 2:
		id, netName = config.NETWORK_ID_SOLO_NET, "solo"
	default:
		id, netName = uint32(t.Uint64()), "other"
		if id >= 1 && id <= 3 {
			id += 3
		}
		c.Probe("netid_other")
	}
	old := config.DefConfig.P2PNode.NetworkId
	config.DefConfig.P2PNode.NetworkId = id
	c.Defer(func() { config.DefConfig.P2PNode.NetworkId = old })

	I := constants.UNBOUND_TIME_INTERVAL
	hdl := config.GetOntHolderUnboundDeadline()
	gdl, gap := config.GetGovUnboundDeadline()
	c.Logf("network id %d (%s): holder deadline %d, governance deadline %d, gap %d", id, netName, hdl, gdl, gap)

	// whole-schedule totals
	holderTotal := nutils.CalcUnbindOng(constants.ONT_TOTAL_SUPPLY, 0, c09MaxU32)
	govTotal := nutils.CalcGovernanceUnbindOng(0, c09MaxU32)
	if holderTotal+govTotal != constants.ONG_TOTAL_SUPPLY {
		c.Fail("total-not-supply", "net-"+netName, "network id %d: holders of the whole ONT supply get %d, governance gets %d over [0, 2^32-1]; sum %d != ONG total supply %d (difference %d)", id, holderTotal, govTotal, holderTotal+govTotal, uint64(constants.ONG_TOTAL_SUPPLY), int64(holderTotal+govTotal)-int64(constants.ONG_TOTAL_SUPPLY))
	}

	anchors := []uint32{0, hdl, gdl, c09MaxU32}
	for k := uint32(1); k <= 19; k++ {
		anchors = append(anchors, k*I)
	}
	point := func() uint32 {
		switch t.Pick(5, 3, 2, 1, 3) {
		case 0:
			return c09Add(anchors[t.Choose(len(anchors))], t.Choose(5)-2)
		case 1:
			return c09Add(gdl, t.Choose(5)-2)
		case 2:
			return uint32(t.Choose(int(19 * I)))
		case 4:
			return c09Add(hdl, t.Choose(5)-2)
		default:
			return uint32(t.Uint64())
		}
	}
	type known struct {
		whole, binL, binR uint64
		start, end        uint32
		deficitIsGap      bool
	}
	var knownHit *known
	nontrivial := false
	rounds := 1 + t.Choose(8)
	for r := 0; r < rounds; r++ {
		k := t.Choose(7)
		pts := make([]uint32, 0, k+2)
		for i := 0; i < k+2; i++ {
			if i == 1 && t.Prob(1, 6) {
				pts = append(pts, gdl) // the governance deadline itself as a settlement time
				continue
			}
			pts = append(pts, point())
		}
		sort.Slice(pts, func(i, j int) bool { return pts[i] < pts[j] })
		start, end := pts[0], pts[len(pts)-1]
		var bal uint64
		switch t.Pick(3, 1, 2, 1) {
		case 0:
			bal = constants.ONT_TOTAL_SUPPLY
		case 1:
			bal = 1
		case 2:
			bal = uint64(t.Choose(constants.ONT_TOTAL_SUPPLY + 1))
		}
		c.Logf("round %d: balance %d points %v", r, bal, pts)
		if end == c09MaxU32 {
			c.Probe("end_is_max_u32")
		}
		for _, p := range pts[1 : len(pts)-1] {
			if p > start && p < end {
				if p == gdl {
					c.Probe("split_at_gov_deadline")
				}
				if p == hdl {
					c.Probe("split_at_holder_deadline")
				}
				if p%I == 0 {
					c.Probe("split_at_interval_boundary")
				}
			}
		}
		where := func(p uint32) string {
			switch {
			case p == hdl:
				return "split-at-holder-deadline"
			case p == gdl:
				return "split-at-gov-deadline"
			case p%I == 0:
				return "split-at-interval-boundary"
			}
			return "other-split"
		}

		// ---- holder schedule
		hWhole := nutils.CalcUnbindOng(bal, start, end)
		var hSum uint64
		for i := 0; i+1 < len(pts); i++ {
			hSum += nutils.CalcUnbindOng(bal, pts[i], pts[i+1])
		}
		for _, p := range pts[1 : len(pts)-1] {
			l, rr := nutils.CalcUnbindOng(bal, start, p), nutils.CalcUnbindOng(bal, p, end)
			if l+rr != hWhole {
				c.Fail("holder-split-not-additive", where(p), "network id %d balance %d: CalcUnbindOng(%d,%d)=%d + CalcUnbindOng(%d,%d)=%d is %d, CalcUnbindOng(%d,%d)=%d", id, bal, start, p, l, p, end, rr, l+rr, start, end, hWhole)
			}
			if p > start && p < end && hWhole > 0 {
				nontrivial = true
			}
		}
		if hSum != hWhole {
			c.Fail("holder-split-not-additive", "k-way", "network id %d balance %d: sum of CalcUnbindOng over %v is %d, over [%d,%d] it is %d", id, bal, pts, hSum, start, end, hWhole)
		}

		// ---- governance schedule
		gWhole := nutils.CalcGovernanceUnbindOng(start, end)
		var gSum, gSumNoDl uint64
		prev := start
		for i := 0; i+1 < len(pts); i++ {
			gSum += nutils.CalcGovernanceUnbindOng(pts[i], pts[i+1])
			if pts[i+1] != gdl || i+2 == len(pts) {
				gSumNoDl += nutils.CalcGovernanceUnbindOng(prev, pts[i+1])
				prev = pts[i+1]
			}
		}
		dlInside, dlSplitOff := false, false
		for _, p := range pts[1 : len(pts)-1] {
			if p > start && p < end && gWhole > 0 {
				nontrivial = true
			}
			l, rr := nutils.CalcGovernanceUnbindOng(start, p), nutils.CalcGovernanceUnbindOng(p, end)
			if p == gdl && p > start && p < end {
				dlInside = true
				if l+rr != gWhole {
					dlSplitOff = true
					if knownHit == nil {
						knownHit = &known{whole: gWhole, binL: l, binR: rr, start: start, end: end,
							deficitIsGap: gWhole-(l+rr) == gap*constants.ONT_TOTAL_SUPPLY}
					}
				}
				continue
			}
			if l+rr != gWhole {
				c.Fail("gov-split-not-additive", where(p), "network id %d: CalcGovernanceUnbindOng(%d,%d)=%d + CalcGovernanceUnbindOng(%d,%d)=%d is %d, CalcGovernanceUnbindOng(%d,%d)=%d", id, start, p, l, p, end, rr, l+rr, start, end, gWhole)
			}
		}
		// the k-way sum with the governance deadline left out as a settlement time
		if gSumNoDl != gWhole {
			c.Fail("gov-split-not-additive", "k-way", "network id %d: sum of CalcGovernanceUnbindOng over %v without the governance deadline %d is %d, over [%d,%d] it is %d", id, pts, gdl, gSumNoDl, start, end, gWhole)
		}
		if !dlInside && gSum != gWhole {
			c.Fail("gov-split-not-additive", "k-way", "network id %d: sum of CalcGovernanceUnbindOng over %v is %d, over [%d,%d] it is %d", id, pts, gSum, start, end, gWhole)
		}
		if dlInside && gSum != gWhole && (!dlSplitOff || gWhole-gSum != gap*constants.ONT_TOTAL_SUPPLY) {
			c.Fail("gov-split-not-additive", "k-way-with-gov-deadline-other-amount", "network id %d: sum of CalcGovernanceUnbindOng over %v is %d, over [%d,%d] it is %d; the difference %d is not the remainder gap %d x ONT supply", id, pts, gSum, start, end, gWhole, int64(gWhole)-int64(gSum), gap)
		}
		c.State(netName, len(pts), fmt.Sprint(c09Regions(pts, I, hdl, gdl)))
	}
	if nontrivial {
		c.NonTrivial()
	}
	// Reported last so that it can never mask one of the checks above.
	if knownHit != nil {
		h := knownHit
		if !h.deficitIsGap {
			c.Fail("gov-split-not-additive", "split-at-gov-deadline-other-amount", "network id %d: CalcGovernanceUnbindOng(%d,%d)=%d + CalcGovernanceUnbindOng(%d,%d)=%d is %d, CalcGovernanceUnbindOng(%d,%d)=%d; the difference is not the remainder gap %d x ONT supply", id, h.start, gdl, h.binL, gdl, h.end, h.binR, h.binL+h.binR, h.start, h.end, h.whole, gap)
		}
		c.Probe("gov_split_deficit_is_gap")
		c.FailSoft("gov-split-not-additive", "split-at-gov-deadline", "network id %d: a settlement exactly at the governance deadline %d loses the remainder: CalcGovernanceUnbindOng(%d,%d)=%d + CalcGovernanceUnbindOng(%d,%d)=%d is %d, but CalcGovernanceUnbindOng(%d,%d)=%d (short by %d = gap %d x ONT supply; the gap is added only when endOffset > deadline)", id, gdl, h.start, gdl, h.binL, gdl, h.end, h.binR, h.binL+h.binR, h.start, h.end, h.whole, h.whole-(h.binL+h.binR), gap)
	}
}

// c09Regions maps each point to a coarse region code for the state fingerprint.
func c09Regions(pts []uint32, I, hdl, gdl uint32) []int {
	out := make([]int, len(pts))
	for i, p := range pts {
		code := int(p/I) * 8
		if code > 20*8 {
			code = 20 * 8
		}
		if p%I == 0 {
			code |= 1
		}
		if p == hdl {
			code |= 2
		}
		if p == gdl {
			code |= 4
		}
		if p > gdl {
			code += 1000
		}
		if p >= hdl {
			code += 2000
		}
		out[i] = code
	}
	return out
}
