package props

import (
	"bytes"
	"sort"

	"github.com/ontio/ontology/common"
	gov "github.com/ontio/ontology/smartcontract/service/native/governance"
	nutils "github.com/ontio/ontology/smartcontract/service/native/utils"

	"ontosim/simkit"
)

// C11: across any history of registration, authorization, unauthorization,
// withdrawal, quitting, blacklisting and epoch changes the governance
// contract holds exactly the ONT recorded as staked (total stakes + penalty
// stakes), and nobody withdraws more than he deposited and has unfrozen.
func init() {
	simkit.Register(&simkit.Prop{
		ID:   "C11",
		Desc: "governance ONT balance = sum of recorded total stakes + penalty stakes; withdrawals bounded by deposits and by unfrozen positions; every address's total-stake record equals its recorded positions",
		Rule: "a run = VBFT-type private chain (7 genesis peers with tape-chosen genesis stakes, 3 further candidate nodes, 5 stakers) driven through setup, six admin-committed epochs and 4..60 (thorough: ..120) generated blocks of governance transactions (authorize/unAuthorize/withdraw, register/quit/add-/reduceInitPos, node attributes, fee withdrawal, ONG income, admin: black/white node, parameter/config updates, promise pos, transferPenalty; commitDpos by admin or at the epoch's end; invalid: wrong signer, unknown node, amounts over balance/stake). " +
			"The genesis block records the peers' initPos as stake without moving ONT; the harness's block 1 sends exactly that amount to the contract (what a private-net operator has to do), so the invariant checked after every block is balanceOf_ONT(governance) + genesisRecorded - plainTransfersIn == sum(TotalStake.Stake) + sum(PenaltyStake.InitPos+AuthorizePos), all read from storage by prefix iteration. " +
			"Every run starts as real VBFT blocks on the ledger and, at a tape-chosen governance view (1, 3, 7 or 8), continues by executing the same kind of transactions directly with the contract engine on an overlay of the ledger state at a pretended height >= 414100 (below that constant height the contract refuses changeMaxAuthorization and with it every authorization). " +
			"After every block also, per address: TotalStake record == sum of its six authorize positions on every node + initPos of the nodes it owns (a position that is released twice, or not moved when a node changes between candidate and consensus, breaks it). non-trivial = at least 2 epochs settled and at least one successful withdraw and one successful authorizeForPeer; distinct = distinct event-trace hash",
		Real:           []string{"smartcontract/service/native/governance (all methods)", "native ONT/ONG, global_params, auth", "core/genesis (VBFT genesis, governance InitConfig)", "core/store/ledgerstore incl. verifyHeader for VBFT headers", "consensus/vbft/config (chain config, consensus payload)", "NeoVM native invoke path"},
		Stub:           []string{"block producer (harness builds VBFT-style blocks signed by C+1 peers)", "after the warp: block pipeline replaced by direct execution of each transaction with smartcontract.SmartContract (the non-charging path of ledgerstore.HandleInvokeTransaction) on an overlay of the ledger state at a pretended height >= 414100", "disk: in-memory goleveldb storage", "wasm JIT (stub archive)"},
		Assumptions:    []string{"ONT reaches or leaves the governance address only through governance transactions and the harness's own recorded plain transfers", "deposits/withdrawals per address are taken from the ONT contract's transfer events of successful transactions"},
		ExpectedProbes: []string{"ok_authorizeForPeer", "ok_unAuthorizeForPeer", "ok_withdraw", "ok_registerCandidate", "ok_quitNode", "ok_blackNode", "ok_whiteNode", "ok_addInitPos", "ok_reduceInitPos", "ok_commitDpos", "ok_commitDposAtEpochEnd", "ok_transferPenalty", "penalty_recorded", "withdraw_bound_checked", "node_left_pool"},
		Run:            runC11,
	})
}

func runC11(c *simkit.Ctx) {
	c.Bubble(func() {
		w := newGovWorld(c, govProfile{Name: "C11", WStake: 40, WNode: 18, WFee: 8, WAdmin: 14, WInvalid: 8, WCommit: 14, MaxSteps: 60})
		okWithdraw, okAuth := 0, 0
		w.onBlock = func(b *govBlock) {
			c11Invariant(w, b.Post)
			for i, r := range b.Txs {
				if !r.OK {
					continue
				}
				switch r.Op.Kind {
				case "withdraw":
					okWithdraw++
					c11WithdrawBound(w, b, i)
				case "authorizeForPeer":
					okAuth++
				}
			}
			if len(b.Post.Penalty) > len(b.Pre.Penalty) {
				c.Probe("penalty_recorded")
			}
			if len(b.Post.Pool) < len(b.Pre.Pool) {
				c.Probe("node_left_pool")
			}
		}
		c11Invariant(w, w.st)
		w.guarded(w.run)
		c.Logf("end: commits=%d ok: %s", w.commits, w.summary())
		if w.commits >= 2 && okWithdraw > 0 && okAuth > 0 {
			c.NonTrivial()
		}
	})
}

// c11Invariant: contract balance equals recorded stakes; per address nothing
// more came out than went in.
func c11Invariant(w *govWorld, s *govState) {
	c := w.c
	st, ok1 := s.sumStake()
	pn, ok2 := s.sumPenalty()
	if !ok1 || !ok2 || st+pn < st {
		c.Fail("stake-sum-overflows", "recorded-stake", "h%d: the recorded stakes do not fit 64 bits (a record wrapped around)", s.Height)
	}
	have := s.OntGov + w.genesisRecorded
	want := st + pn + w.directFunded
	if have != want {
		c.Fail("ont-balance-vs-recorded-stake", c11Sig(have, want),
			"h%d: governance ONT balance %d (+%d recorded at genesis, -%d plain transfers in) != total stakes %d + penalty stakes %d (difference %d)",
			s.Height, s.OntGov, w.genesisRecorded, w.directFunded, st, pn, int64(have)-int64(want))
	}
	// per address: the total-stake record equals the positions recorded for it -
	// its six authorize positions on every node plus the initPos of the nodes it owns
	pos := map[common.Address]uint64{}
	for _, ai := range s.Auth {
		pos[ai.Address] += ai.ConsensusPos + ai.CandidatePos + ai.NewPos + ai.WithdrawConsensusPos + ai.WithdrawCandidatePos + ai.WithdrawUnfreezePos
	}
	for _, it := range s.Pool {
		pos[it.Address] += it.InitPos
	}
	var pa []common.Address
	for a := range pos {
		pa = append(pa, a)
	}
	for a := range s.TotalStake {
		if _, ok := pos[a]; !ok {
			pa = append(pa, a)
		}
	}
	sort.Slice(pa, func(i, j int) bool { return bytes.Compare(pa[i][:], pa[j][:]) < 0 })
	for _, a := range pa {
		c.Probe("address_positions_checked")
		if pos[a] != s.TotalStake[a] {
			sig := "record-exceeds-positions"
			if pos[a] > s.TotalStake[a] {
				sig = "positions-exceed-record"
			}
			c.Fail("address-stake-record-differs-from-positions", sig,
				"h%d view %d: %s has a total-stake record of %d ONT but its recorded positions (authorize infos on all nodes + initPos of owned nodes) sum to %d: what it can still take out differs from what it has in",
				s.Height, s.View, w.nm(a), s.TotalStake[a], pos[a])
		}
	}
	var as []common.Address
	for a := range w.withdrawn {
		as = append(as, a)
	}
	sort.Slice(as, func(i, j int) bool { return bytes.Compare(as[i][:], as[j][:]) < 0 })
	for _, a := range as {
		if w.withdrawn[a] > w.deposited[a] {
			c.Fail("withdrawn-more-than-deposited", "per-address", "h%d: %s has taken %d ONT out of the governance contract but put in only %d", s.Height, w.nm(a), w.withdrawn[a], w.deposited[a])
		}
	}
}

func c11Sig(have, want uint64) string {
	if have > want {
		return "balance-exceeds-records"
	}
	return "records-exceed-balance"
}

// c11WithdrawBound: a successful withdraw pays out no more than the unfrozen
// positions recorded for the address on the listed nodes before the call. The
// state before the call is known exactly when the withdraw is the block's
// first transaction touching that address's records.
func c11WithdrawBound(w *govWorld, b *govBlock, idx int) {
	c := w.c
	r := b.Txs[idx]
	for _, o := range b.Txs[:idx] {
		if o.Op.Token == "" { // an earlier governance call in the block may have changed the records
			return
		}
	}
	p := r.Op.Param.(*gov.WithdrawParam)
	var paid uint64
	for _, x := range r.transfers(nutils.OntContractAddress) {
		if x.From == w.gov.ToBase58() && x.To != x.From {
			paid += x.Amount
			if x.To != p.Address.ToBase58() {
				c.Fail("withdraw-pays-third-party", "withdraw", "h%d: %s: ONT paid to %s", b.Height, r.Op.Desc, x.To)
			}
		}
	}
	var free uint64
	seen := map[string]bool{}
	for _, pk := range p.PeerPubkeyList {
		if !seen[pk] {
			seen[pk] = true
			free += b.Pre.auth(pk, p.Address).WithdrawUnfreezePos
		}
	}
	c.Probe("withdraw_bound_checked")
	if paid > free {
		c.Fail("withdraw-exceeds-unfrozen", "withdraw", "h%d: %s paid out %d ONT, but only %d were unfrozen for the address on the listed nodes before the call", b.Height, r.Op.Desc, paid, free)
	}
}
