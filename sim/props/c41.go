package props

import (
	"bytes"
	"crypto/sha256"
	"fmt"
	"sort"
	"strings"

	"github.com/ontio/ontology/common"
	"github.com/ontio/ontology/core/types"
	"github.com/ontio/ontology/smartcontract/event"
	nutils "github.com/ontio/ontology/smartcontract/service/native/utils"

	"ontosim/simkit"
	"ontosim/world"
)

// C41: the auth contract confirms that an identity may call a function
// exactly when the identity proved control of its key and holds, directly or
// through an unexpired delegation, a role to which that function is assigned.
func init() {
	simkit.Register(&simkit.Prop{
		ID:   "C41",
		Desc: "auth contract: verifyToken(contract, identity, function, key) is true exactly when the key is a live key of the identity that witnessed the transaction and the identity holds, directly or by an unexpired delegation, a role the function is assigned to; role administration succeeds only for the contract's admin",
		Rule: "a run = one solo ledger, 6 single-key accounts, 4 ONT IDs (3 registered at the start, one possibly later; keys added / removed, identities revoked during the run), 2 managed contract addresses (the address of the invoke code that calls initContractAdmin, so the auth contract sees it as the calling contract), 8..60 calls in blocks of 1..4: initContractAdmin (also repeated), transfer of the admin, assignFuncsToRole, assignOntIDsToRole, delegate (periods 0..2^32, levels 0..256), withdraw, verifyToken and ONT ID key operations; every call's signer set (0..3 accounts) is chosen independently of the identity / key number it names; block timestamps advance by tape-chosen jumps aimed at delegation expiries (expiry-1, expiry, expiry+1), by seconds to years, rarely beyond 2100. After every block verifyToken is pre-executed (the node evaluates it at block time + 1) with an honest witness for every function and every identity the model relates to the contract by a present or past role or delegation - after the last block for every (contract, identity, function) - plus tape-chosen adversarial variants (wrong signer, revoked / foreign / out-of-range key); committed verifyToken calls are judged at the block's own timestamp. The oracle is a relation model (admin, role->functions, identity->roles, delegations with root / expiry / level) advanced only by calls the node reports successful. Non-trivial = at least one verifyToken answered true (direct role or delegation), at least one answered false because the key was not proved or the delegation had expired or been withdrawn, and at least 3 blocks; distinct = distinct event-trace hash",
		Real: []string{"smartcontract/service/native/auth (all methods)", "smartcontract/service/native/ontid (verifySignature, registration, key management)", "smartcontract + NeoVM (Ontology.Native.Invoke, calling context, CheckWitness)", "core/store/ledgerstore (ExecuteBlock/SubmitBlock, PreExecuteContract)", "smartcontract/storage CacheDB + overlaydb + goleveldb on SimDisk"},
		Stub: []string{"solo block producer (harness builds/signs blocks like consensus/solo)", "the managed contracts are not deployed code: the invoke transaction's own code plays the calling contract, which is all the auth contract looks at", "wasm JIT (stub archive)"},
		Assumptions: []string{
			"'proved control of its key' = the transaction is witnessed by the identity's non-revoked key with the given number (authentication right not required: the auth contract asks verifySignature)",
			"'unexpired' = expiry > block time; at expiry == block time either answer is accepted (verifyToken treats it as valid, the contract's own role lookup as expired)",
			"a role assigned by the admin with a successful assignOntIDsToRole is held directly from then on; a delegation is one the contract accepted: made by a direct holder (level 2) at level 1 with an expiry before the holder's own; it ends by expiry or by a withdraw of its delegator",
			"functions named \"\" are not generated (the contract drops them on assignment)",
			"a verifyToken transaction that fails counts as the answer false",
			"direct roles are stored with the fixed expiry 2100-01-01 12:00 UTC; runs that jump beyond it (rare) report the loss of direct roles as its own class",
		},
		ExpectedProbes: []string{"ok_initContractAdmin", "ok_transfer", "ok_assignFuncsToRole", "ok_assignOntIDsToRole", "ok_delegate", "ok_withdraw", "reinit_refused", "verify_true_direct", "verify_true_delegated",
			"verify_false_expired", "verify_false_withdrawn", "verify_false_unwitnessed", "verify_false_revoked_key", "verify_false_no_role", "verify_false_other_contract", "verify_at_expiry_instant", "verify_one_second_before_expiry", "verify_one_second_after_expiry",
			"refused_admin_unwitnessed", "refused_wrong_admin", "refused_delegate_without_role", "refused_delegate_by_delegate", "refused_delegate_level", "refused_withdraw_by_stranger", "admin_transferred_then_old_admin_refused", "committed_verify_true", "committed_verify_false", "identity_revoked", "key_revoked", "non_auth_key_proves"},
		Run:           runC41,
		MaxShrinkRuns: 1200,
	})
}

const c41Future = 4102488000 // 2100-01-01 12:00:00 UTC, the expiry the contract gives direct roles

const (
	c41Init = iota
	c41Transfer
	c41AssignFuncs
	c41AssignIDs
	c41Delegate
	c41Withdraw
	c41Verify
	c41Ident
)

var c41Methods = []string{"initContractAdmin", "transfer", "assignFuncsToRole", "assignOntIDsToRole", "delegate", "withdraw", "verifyToken", ""}

type c41Deleg struct {
	role   string
	root   []byte
	expire uint32
	level  uint64
}

// c41Contract is the relation model of one managed contract.
type c41Contract struct {
	name     string
	addr     common.Address
	initCode []byte
	initID   []byte
	admin    []byte
	funcs    map[string]map[string]bool   // role -> functions
	direct   map[string][]string          // identity -> roles assigned by the admin
	phantom  map[string]map[string]bool   // roles the admin assigned successfully while the identity held them by delegation
	deleg    map[string][]*c41Deleg       // identity -> delegations received
	ended    map[string]map[string]string // identity -> role -> how it stopped holding it ("expired"/"withdrawn"), for probes
}

type c41Op struct {
	kind    int
	ct      *c41Contract
	admin   []byte // claimed admin
	id      []byte // new admin / from / initiator / caller
	id2     []byte // to / delegate
	role    string
	funcs   []string
	persons [][]byte
	period  uint64
	level   uint64
	keyNo   uint64
	fn      string
	ident   *oidOp
	signers []*oidAcct
}

type c41Stop struct{}

type c41Run struct {
	c                 *simkit.Ctx
	ch                *world.Chain
	accts             []*oidAcct
	ids               [][]byte
	m                 *oidModel
	cts               []*c41Contract
	nonce             uint32
	blocks            int
	last              bool
	sawTrue, sawFalse bool
	oldAdmins         map[string][][]byte
}

var (
	c41Roles = []string{"r1", "r2"}
	c41Fns   = []string{"f1", "f2", "f3"}
)

func runC41(c *simkit.Ctx) {
	c.Bubble(func() {
		t := c.Tape
		r := &c41Run{c: c, m: newOidModel(), oldAdmins: map[string][][]byte{}}
		r.ch = world.NewSoloChain(c, "n")
		c.Must(r.ch.Open(), "open")
		r.accts = oidNewAccts(6)
		for i := 0; i < 4; i++ {
			r.ids = append(r.ids, oidOf(r.accts[i].addr))
		}
		r.nonce = 1
		// two managed contracts: the address is that of the code that calls initContractAdmin
		for i := 0; i < 2; i++ {
			id := r.ids[t.Choose(3)]
			code := oidCode(nutils.AuthContractAddress, "initContractAdmin", [][]byte{id})
			if i == 1 {
				code = append([]byte{0x61}, code...) // NOP: same call, another calling address
			}
			r.cts = append(r.cts, &c41Contract{name: fmt.Sprintf("C%d", i), addr: common.AddressFromVmCode(code), initCode: code, initID: id,
				funcs: map[string]map[string]bool{}, direct: map[string][]string{}, phantom: map[string]map[string]bool{}, deleg: map[string][]*c41Deleg{}, ended: map[string]map[string]string{}})
		}
		func() {
			defer func() {
				if x := recover(); x != nil {
					if _, ok := x.(c41Stop); !ok {
						panic(x)
					}
					c.Logf("run ends after a known finding")
				}
			}()
			// setup block: three identities registered with their own keys
			var ops []*c41Op
			for i := 0; i < 3; i++ {
				ops = append(ops, &c41Op{kind: c41Ident, ident: &oidOp{m: oidMethodByName("regIDWithPublicKey"), id: r.ids[i], pk: r.accts[i].pub, signers: []*oidAcct{r.accts[i]}}})
			}
			r.runBlock(ops, r.ch.Now+1)
			nOps := t.Range(8, 8+t.Pick(2, 5, 3)*26)
			if nOps > 60 {
				nOps = 60
			}
			farFuture := t.Prob(1, 30)
			done := 0
			for done < nOps {
				k := 1 + t.Pick(4, 3, 2, 1)
				if k > nOps-done {
					k = nOps - done
				}
				ops = nil
				for i := 0; i < k; i++ {
					ops = append(ops, r.gen())
				}
				done += k
				ts := r.nextTime(farFuture && done >= nOps*2/3)
				if ts == 0 {
					break
				}
				r.last = done >= nOps
				r.runBlock(ops, ts)
			}
		}()
		if r.sawTrue && r.sawFalse && r.blocks >= 3 {
			c.NonTrivial()
		}
	})
}

func (r *c41Run) soft(oracle, sig, format string, a ...interface{}) {
	r.c.FailSoft(oracle, sig, format, a...)
	panic(c41Stop{})
}

// nextTime advances the block clock, preferably onto / around an expiry.
func (r *c41Run) nextTime(far bool) uint32 {
	t := r.c.Tape
	now := uint64(r.ch.Now)
	var exp []uint64
	for _, ct := range r.cts {
		for _, id := range r.ids {
			for _, d := range ct.deleg[string(id)] {
				if uint64(d.expire) > now && uint64(d.expire) < now+1<<31 {
					exp = append(exp, uint64(d.expire))
				}
			}
		}
	}
	sort.Slice(exp, func(i, j int) bool { return exp[i] < exp[j] })
	var n uint64
	switch t.Pick(7, 6, 2, 1, 1) {
	case 0:
		n = now + uint64(1+t.Choose(20))
	case 1:
		if len(exp) > 0 {
			e := exp[t.Choose(len(exp))]
			n = e - 1 + uint64(t.Choose(3))
		} else {
			n = now + uint64(1+t.Choose(200))
		}
	case 2:
		n = now + uint64(1+t.Choose(5000))
	case 3:
		n = now + uint64(86400*(1+t.Choose(400)))
	default:
		n = now + uint64(31536000*(1+t.Choose(30)))
	}
	if far {
		n = c41Future - 2 + uint64(t.Choose(5))
		if t.Prob(1, 4) {
			n = uint64(^uint32(0)) - uint64(t.Choose(3))
		}
	}
	if n <= now {
		n = now + 1
	}
	if n > uint64(^uint32(0)) {
		return 0
	}
	return uint32(n)
}

// ---------------------------------------------------------------- model helpers

func (ct *c41Contract) hasDirect(id []byte, role string) bool {
	for _, x := range ct.direct[string(id)] {
		if x == role {
			return true
		}
	}
	return false
}

func (ct *c41Contract) delegOf(id []byte, role string) *c41Deleg {
	for _, d := range ct.deleg[string(id)] {
		if d.role == role {
			return d
		}
	}
	return nil
}

// holdsStrict: the contract's own role lookup (delegations end AT their expiry).
func (ct *c41Contract) holdsStrict(id []byte, role string, now uint32) (held bool, level uint64, expire uint64) {
	if ct.hasDirect(id, role) {
		return true, 2, c41Future
	}
	if d := ct.delegOf(id, role); d != nil && now < d.expire {
		return true, d.level, uint64(d.expire)
	}
	return false, 0, 0
}

func (ct *c41Contract) markEnded(id []byte, role, how string) {
	if ct.ended[string(id)] == nil {
		ct.ended[string(id)] = map[string]string{}
	}
	ct.ended[string(id)][role] = how
}

// c41Expect is what the statement demands of one verifyToken question.
type c41Expect struct {
	want  int    // 0 false, 1 true, 2 either (expiry instant)
	class string // coarse reason
}

func (r *c41Run) expect(ct *c41Contract, caller []byte, fn string, keyNo uint64, w oidWit, now uint32) c41Expect {
	x := r.m.get(caller)
	if x.state != oidValid || !r.m.keyProved(caller, keyNo, w) {
		return c41Expect{0, "key-not-proved"}
	}
	direct, phantom, deleg, boundary, expired := false, false, false, false, false
	for _, role := range ct.direct[string(caller)] {
		if ct.funcs[role][fn] {
			direct = true
		}
	}
	for role := range ct.phantom[string(caller)] {
		if ct.funcs[role][fn] {
			phantom = true
		}
	}
	for _, d := range ct.deleg[string(caller)] {
		if !ct.funcs[d.role][fn] {
			continue
		}
		switch {
		case d.expire > now:
			deleg = true
		case d.expire == now:
			boundary = true
		default:
			expired = true
		}
	}
	switch {
	case direct && now <= c41Future:
		return c41Expect{1, "direct-role"}
	case deleg:
		return c41Expect{1, "delegated-role"}
	case direct:
		return c41Expect{1, "direct-role-after-2100"}
	case phantom:
		return c41Expect{1, "role-assigned-while-delegated"}
	case boundary:
		return c41Expect{2, "expiry-instant"}
	case expired:
		return c41Expect{0, "expired-delegation"}
	}
	return c41Expect{0, "role-not-held"}
}

// ---------------------------------------------------------------- generation

func (r *c41Run) acctByPub(pub []byte) *oidAcct {
	for _, a := range r.accts {
		if bytes.Equal(a.pub, pub) {
			return a
		}
	}
	return nil
}

// liveKeyNo picks a key number of id, biased to a live key.
func (r *c41Run) pickKeyNo(id []byte) uint64 {
	t := r.c.Tape
	x := r.m.get(id)
	var live []int
	for i, k := range x.keys {
		if !k.revoked {
			live = append(live, i+1)
		}
	}
	switch t.Pick(16, 2, 1) {
	case 0:
		if len(live) > 0 {
			return uint64(live[t.Choose(len(live))])
		}
		return 1
	case 1:
		return uint64(t.Choose(len(x.keys) + 2))
	default:
		if len(live) > 0 {
			return 1<<32 + uint64(live[t.Choose(len(live))])
		}
		return 1 << 32
	}
}

func (r *c41Run) pickID() []byte {
	return r.ids[r.c.Tape.Pick(4, 4, 4, 1)]
}

// signersFor chooses the signer set independently of the claim (id, keyNo).
func (r *c41Run) signersFor(id []byte, keyNo uint64) []*oidAcct {
	t := r.c.Tape
	var cl []*oidAcct
	x := r.m.get(id)
	if i := uint32(keyNo); i >= 1 && int64(i) <= int64(len(x.keys)) {
		if a := r.acctByPub(x.keys[i-1].pub); a != nil {
			cl = append(cl, a)
		}
	}
	random := func(max int) []*oidAcct {
		k := t.Choose(max + 1)
		perm := t.Perm(len(r.accts))
		var out []*oidAcct
		for i := 0; i < k; i++ {
			out = append(out, r.accts[perm[i]])
		}
		return out
	}
	switch t.Pick(20, 2, 3, 1, 2) {
	case 0:
		return cl
	case 1:
		out := append([]*oidAcct(nil), cl...)
		for _, a := range random(1) {
			if len(out) == 0 || out[0] != a {
				out = append(out, a)
			}
		}
		return out
	case 2:
		return random(3)
	case 3:
		return nil
	default: // somebody else's key alone
		for _, a := range random(1) {
			if len(cl) == 0 || a != cl[0] {
				return []*oidAcct{a}
			}
		}
		return nil
	}
}

func (r *c41Run) gen() *c41Op {
	t := r.c.Tape
	o := &c41Op{ct: r.cts[t.Pick(3, 2)]}
	ct := o.ct
	w := []int{2, 2, 8, 8, 10, 4, 8, 5}
	nFuncs, nDirect, nDeleg := 0, 0, 0
	for _, fs := range ct.funcs {
		nFuncs += len(fs)
	}
	for _, id := range r.ids {
		nDirect += len(ct.direct[string(id)])
		nDeleg += len(ct.deleg[string(id)])
	}
	switch {
	case ct.admin == nil:
		w = []int{20, 1, 2, 2, 2, 1, 2, 3}
	case nFuncs == 0 || nDirect == 0:
		w = []int{1, 1, 12, 12, 3, 1, 3, 3}
	case nDeleg == 0:
		w = []int{1, 1, 4, 5, 16, 1, 5, 4}
	default:
		w = []int{1, 1, 3, 4, 8, 6, 8, 5}
	}
	o.kind = t.Pick(w...)
	holder := func() []byte { // an identity holding some role directly, if any
		var hs [][]byte
		for _, id := range r.ids {
			if len(ct.direct[string(id)]) > 0 {
				hs = append(hs, id)
			}
		}
		if len(hs) > 0 && !t.Prob(1, 5) {
			return hs[t.Choose(len(hs))]
		}
		return r.pickID()
	}
	delegatee := func() []byte { // an identity that received a delegation, if any
		var hs [][]byte
		for _, id := range r.ids {
			if len(ct.deleg[string(id)]) > 0 {
				hs = append(hs, id)
			}
		}
		if len(hs) > 0 {
			return hs[t.Choose(len(hs))]
		}
		return r.pickID()
	}
	admin := func() []byte {
		if ct.admin != nil && !t.Prob(1, 6) {
			return ct.admin
		}
		return r.pickID()
	}
	switch o.kind {
	case c41Init:
		o.signers = r.signersFor(r.pickID(), 1)
	case c41Transfer:
		o.id = r.pickID()
		if t.Prob(1, 12) {
			o.id = []byte("did:ont:abc")
		}
		adm := admin() // only used to aim the witness
		o.keyNo = r.pickKeyNo(adm)
		o.signers = r.signersFor(adm, o.keyNo)
	case c41AssignFuncs:
		o.admin = admin()
		o.role = c41Roles[t.Choose(len(c41Roles))]
		n := 1 + t.Pick(4, 3, 1)
		for i := 0; i < n; i++ {
			o.funcs = append(o.funcs, c41Fns[t.Choose(len(c41Fns))])
		}
		o.keyNo = r.pickKeyNo(o.admin)
		o.signers = r.signersFor(o.admin, o.keyNo)
	case c41AssignIDs:
		o.admin = admin()
		o.role = c41Roles[t.Choose(len(c41Roles))]
		n := 1 + t.Pick(5, 3, 1)
		for i := 0; i < n; i++ {
			if t.Prob(1, 4) {
				o.persons = append(o.persons, delegatee())
			} else {
				o.persons = append(o.persons, r.pickID())
			}
		}
		if t.Prob(1, 3) { // the admin makes a delegated role permanent
			for _, id := range r.ids {
				for _, d := range ct.deleg[string(id)] {
					if d.expire > r.ch.Now && !ct.hasDirect(id, d.role) {
						o.role, o.persons = d.role, [][]byte{id}
					}
				}
			}
		}
		o.keyNo = r.pickKeyNo(o.admin)
		o.signers = r.signersFor(o.admin, o.keyNo)
	case c41Delegate:
		o.id = holder()
		o.id2 = r.pickID()
		o.role = c41Roles[t.Choose(len(c41Roles))]
		if rs := ct.direct[string(o.id)]; len(rs) > 0 && t.Prob(4, 5) {
			o.role = rs[t.Choose(len(rs))]
		}
		if t.Prob(1, 3) { // to somebody who holds another role directly
			for _, id := range r.ids {
				if len(ct.direct[string(id)]) > 0 && !ct.hasDirect(id, o.role) && !bytes.Equal(id, o.id) {
					o.id2 = id
				}
			}
		}
		if t.Prob(1, 5) { // a second role from the same delegator to the same delegate
			for _, id := range r.ids {
				for _, d := range ct.deleg[string(id)] {
					if d.expire <= r.ch.Now {
						continue
					}
					for _, rr := range ct.direct[string(d.root)] {
						if rr != d.role && ct.delegOf(id, rr) == nil {
							o.id, o.id2, o.role = d.root, id, rr
						}
					}
				}
			}
		}
		if t.Prob(1, 6) { // a delegate tries to pass its role on
			o.id = delegatee()
			if ds := ct.deleg[string(o.id)]; len(ds) > 0 {
				o.role = ds[t.Choose(len(ds))].role
			}
		}
		o.period = []uint64{0, 1, 2, 5, 30, 100, 1000, 1000000, 1 << 31, 1<<32 - 1, 1 << 32}[t.Pick(2, 3, 3, 5, 5, 5, 5, 4, 2, 1, 1)]
		o.level = []uint64{1, 0, 2, 3, 127, 128, 256}[t.Pick(20, 2, 3, 1, 1, 1, 1)]
		o.keyNo = r.pickKeyNo(o.id)
		o.signers = r.signersFor(o.id, o.keyNo)
	case c41Withdraw:
		o.id, o.id2 = r.pickID(), r.pickID()
		o.role = c41Roles[t.Choose(len(c41Roles))]
		// aim at an existing delegation
		var ds []*c41Deleg
		var tos [][]byte
		for _, id := range r.ids {
			for _, d := range ct.deleg[string(id)] {
				ds = append(ds, d)
				tos = append(tos, id)
			}
		}
		if len(ds) > 0 && t.Prob(5, 6) {
			i := t.Choose(len(ds))
			o.id2, o.role = tos[i], ds[i].role
			if t.Prob(5, 6) {
				o.id = ds[i].root
			}
		}
		o.keyNo = r.pickKeyNo(o.id)
		o.signers = r.signersFor(o.id, o.keyNo)
	case c41Verify:
		o.id = r.pickID()
		o.fn = append(append([]string(nil), c41Fns...), "fx")[t.Pick(3, 3, 3, 1)]
		o.keyNo = r.pickKeyNo(o.id)
		o.signers = r.signersFor(o.id, o.keyNo)
	case c41Ident:
		o.ident = r.genIdent()
	}
	return o
}

// genIdent generates an ONT ID operation: late registration, key added, key
// removed, identity revoked.
func (r *c41Run) genIdent() *oidOp {
	t := r.c.Tape
	id := r.pickID()
	x := r.m.get(id)
	o := &oidOp{id: id}
	if x.state == oidNone {
		o.m = oidMethodByName("regIDWithPublicKey")
		o.pk = r.accts[t.Choose(len(r.accts))].pub
		for i, y := range r.ids {
			if bytes.Equal(y, id) && t.Prob(3, 4) {
				o.pk = r.accts[i].pub
			}
		}
		if a := r.acctByPub(o.pk); a != nil && !t.Prob(1, 8) {
			o.signers = []*oidAcct{a}
		}
		return o
	}
	switch t.Pick(6, 5, 2, 1) {
	case 0:
		o.m = oidMethodByName("addKeyByIndex")
		o.pk = r.accts[t.Choose(len(r.accts))].pub
	case 1:
		o.m = oidMethodByName("removeKeyByIndex")
		o.pk = r.accts[t.Choose(len(r.accts))].pub
		if len(x.keys) > 0 && t.Prob(5, 6) {
			o.pk = x.keys[t.Choose(len(x.keys))].pub
		}
	case 2:
		o.m = oidMethodByName("addNewAuthKey")
		o.pk = r.accts[t.Choose(len(r.accts))].pub
		o.kctrl = id
	default:
		o.m = oidMethodByName("revokeID")
	}
	live := x.liveAuthIndexes()
	o.signIdx = uint64(1 + t.Choose(len(x.keys)+1))
	if len(live) > 0 && t.Prob(7, 8) {
		o.signIdx = uint64(live[t.Choose(len(live))])
	}
	o.signers = r.signersFor(id, o.signIdx)
	return o
}

func (o *c41Op) fields() [][]byte {
	ca := o.ct.addr[:]
	switch o.kind {
	case c41Transfer:
		return [][]byte{ca, o.id, oidUint(o.keyNo)}
	case c41AssignFuncs:
		f := [][]byte{ca, o.admin, []byte(o.role), oidUint(uint64(len(o.funcs)))}
		for _, fn := range o.funcs {
			f = append(f, []byte(fn))
		}
		return append(f, oidUint(o.keyNo))
	case c41AssignIDs:
		f := [][]byte{ca, o.admin, []byte(o.role), oidUint(uint64(len(o.persons)))}
		f = append(f, o.persons...)
		return append(f, oidUint(o.keyNo))
	case c41Delegate:
		return [][]byte{ca, o.id, o.id2, []byte(o.role), oidUint(o.period), oidUint(o.level), oidUint(o.keyNo)}
	case c41Withdraw:
		return [][]byte{ca, o.id, o.id2, []byte(o.role), oidUint(o.keyNo)}
	case c41Verify:
		return [][]byte{ca, o.id, []byte(o.fn), oidUint(o.keyNo)}
	}
	return nil
}

func (o *c41Op) code() []byte {
	switch o.kind {
	case c41Init:
		return o.ct.initCode
	case c41Ident:
		return oidCode(nutils.OntIDContractAddress, o.ident.m.name, o.ident.fields())
	}
	return oidCode(nutils.AuthContractAddress, c41Methods[o.kind], o.fields())
}

func (o *c41Op) String() string {
	if o.kind == c41Ident {
		return o.ident.String()
	}
	s := c41Methods[o.kind] + "(" + o.ct.name
	switch o.kind {
	case c41Init:
		s += " admin=" + oidShort(o.ct.initID)
	case c41Transfer:
		s += fmt.Sprintf(" newAdmin=%s key#%d", oidShort(o.id), o.keyNo)
	case c41AssignFuncs:
		s += fmt.Sprintf(" as=%s %s+=%s key#%d", oidShort(o.admin), o.role, strings.Join(o.funcs, ","), o.keyNo)
	case c41AssignIDs:
		s += fmt.Sprintf(" as=%s %s->", oidShort(o.admin), o.role)
		for i, p := range o.persons {
			if i > 0 {
				s += ","
			}
			s += oidShort(p)
		}
		s += fmt.Sprintf(" key#%d", o.keyNo)
	case c41Delegate:
		s += fmt.Sprintf(" %s->%s role=%s period=%d level=%d key#%d", oidShort(o.id), oidShort(o.id2), o.role, o.period, o.level, o.keyNo)
	case c41Withdraw:
		s += fmt.Sprintf(" by=%s from=%s role=%s key#%d", oidShort(o.id), oidShort(o.id2), o.role, o.keyNo)
	case c41Verify:
		s += fmt.Sprintf(" %s fn=%s key#%d", oidShort(o.id), o.fn, o.keyNo)
	}
	return s + ") signed=" + oidNames(o.signers)
}

// ---------------------------------------------------------------- execution

// authResult extracts the boolean the auth contract reported in its event.
func c41EventResult(n *event.ExecuteNotify, method string) (found, val bool) {
	for _, e := range n.Notify {
		if e.ContractAddress != nutils.AuthContractAddress {
			continue
		}
		st, ok := e.States.([]interface{})
		if !ok || len(st) < 2 {
			continue
		}
		name, _ := st[0].(string)
		if name != method {
			continue
		}
		if method == "initContractAdmin" {
			return true, true
		}
		b, ok := st[len(st)-1].(bool)
		if ok {
			return true, b
		}
	}
	return false, false
}

func (r *c41Run) runBlock(ops []*c41Op, ts uint32) {
	c := r.c
	c.Logf("block %d ts=%d (+%d)", r.ch.Height()+1, ts, ts-r.ch.Now)
	var txs []*types.Transaction
	for i, o := range ops {
		signers := o.signers
		if o.kind == c41Ident {
			signers = o.ident.signers
		}
		txs = append(txs, oidSeal(c, o.code(), r.nonce, signers))
		r.nonce++
		c.Logf("  tx%d %s", i, o.String())
	}
	blk := r.ch.MakeBlock(txs, ts, uint64(r.nonce))
	res, err := r.ch.Commit(blk)
	if err != nil {
		c.Fail("block-refused", "commit", "block %d is refused: %v", blk.Header.Height, err)
	}
	r.blocks++
	if len(res.Notify) != len(txs) {
		c.Fail("notify-missing", "execute-result", "block %d: %d transactions, %d notifies", blk.Header.Height, len(txs), len(res.Notify))
	}
	var softs []func()
	for i, o := range ops {
		n := res.Notify[i]
		stored := oidNotify(c, r.ch, txs[i])
		if stored.State != n.State || len(stored.Notify) != len(n.Notify) {
			c.Fail("notify-differs", "event-store", "tx %d of block %d: stored state %d / %d events, executed state %d / %d events", i, blk.Header.Height, stored.State, len(stored.Notify), n.State, len(n.Notify))
		}
		if s := r.applyResult(o, n, ts, fmt.Sprintf("block %d tx %d", blk.Header.Height, i)); s != nil {
			softs = append(softs, s)
		}
	}
	// the whole relation, asked through pre-execution (block time + 1)
	softs = append(softs, r.sweep(fmt.Sprintf("after block %d", blk.Header.Height), r.last)...)
	c.State("c41", r.digest(ts))
	for _, s := range softs { // known classes last
		s()
	}
}

// applyResult judges one committed call and advances the model.
func (r *c41Run) applyResult(o *c41Op, n *event.ExecuteNotify, ts uint32, where string) (soft func()) {
	c := r.c
	okState := n.State == event.CONTRACT_STATE_SUCCESS
	if o.kind == c41Ident {
		v := r.m.judge(o.ident)
		c.Logf("  => %v", okState)
		if okState {
			if !v.authorised || v.revoked {
				c.Fail("unauthorised-success", "ontid/"+o.ident.m.name, "%s: %s succeeded without authorisation", where, o.ident.String())
			}
			r.m.apply(o.ident, ts)
			switch o.ident.m.what {
			case oidRevoke:
				c.Probe("identity_revoked")
			case oidRmKeyPk:
				c.Probe("key_revoked")
			}
		}
		return nil
	}
	ct := o.ct
	method := c41Methods[o.kind]
	found, val := c41EventResult(n, method)
	ok := okState && found && val
	c.Logf("  => state=%d result=%v", n.State, ok)
	if okState && !found && o.kind != c41Init {
		c.Fail("result-event-missing", method, "%s: %s succeeded without reporting a result", where, o.String())
	}
	w := oidWitOf(o.signers)
	proved := func(id []byte, keyNo uint64) bool {
		return r.m.get(id).state == oidValid && r.m.keyProved(id, keyNo, w)
	}
	bad := func(sig, why string) {
		c.Fail("unauthorised-success", method+"/"+sig, "%s: %s succeeded although %s", where, o.String(), why)
	}
	switch o.kind {
	case c41Init:
		if ok {
			if ct.admin != nil {
				c.Fail("admin-reinitialised", "initContractAdmin", "%s: %s succeeded although %s already had admin %s", where, o.String(), ct.name, oidShort(ct.admin))
			}
			ct.admin = ct.initID
			c.Probe("ok_initContractAdmin")
		} else if ct.admin != nil {
			c.Probe("reinit_refused")
		}
	case c41Transfer:
		if ok {
			if ct.admin == nil || !proved(ct.admin, o.keyNo) {
				bad("admin-key-not-proved", "the admin's key did not witness")
			}
			r.oldAdmins[ct.name] = append(r.oldAdmins[ct.name], ct.admin)
			ct.admin = o.id
			c.Probe("ok_transfer")
		} else if ct.admin != nil && !proved(ct.admin, o.keyNo) {
			c.Probe("refused_admin_unwitnessed")
		}
	case c41AssignFuncs, c41AssignIDs:
		if ok {
			if ct.admin == nil || !bytes.Equal(ct.admin, o.admin) {
				bad("not-the-admin", "the caller is not the admin")
			}
			if !proved(o.admin, o.keyNo) {
				bad("admin-key-not-proved", "the admin's key did not witness")
			}
			c.Probe("ok_" + method)
			if o.kind == c41AssignFuncs {
				if ct.funcs[o.role] == nil {
					ct.funcs[o.role] = map[string]bool{}
				}
				for _, fn := range o.funcs {
					ct.funcs[o.role][fn] = true
				}
			} else {
				for _, p := range o.persons {
					if ct.hasDirect(p, o.role) {
						continue
					}
					// the contract skips an identity that already has a direct role of any kind
					// and currently holds this role by delegation
					if held, _, _ := ct.holdsStrict(p, o.role, ts); held && len(ct.direct[string(p)]) > 0 {
						if ct.phantom[string(p)] == nil {
							ct.phantom[string(p)] = map[string]bool{}
						}
						ct.phantom[string(p)][o.role] = true
						c.Probe("assigned_while_delegated")
						continue
					}
					ct.direct[string(p)] = append(ct.direct[string(p)], o.role)
				}
			}
		} else {
			switch {
			case ct.admin != nil && !bytes.Equal(ct.admin, o.admin):
				c.Probe("refused_wrong_admin")
				for _, old := range r.oldAdmins[ct.name] {
					if bytes.Equal(old, o.admin) && proved(o.admin, o.keyNo) {
						c.Probe("admin_transferred_then_old_admin_refused")
					}
				}
			case ct.admin != nil && !proved(o.admin, o.keyNo):
				c.Probe("refused_admin_unwitnessed")
			}
		}
	case c41Delegate:
		held, level, fromExp := ct.holdsStrict(o.id, o.role, ts)
		if ok {
			if !proved(o.id, o.keyNo) {
				bad("key-not-proved", "the delegator's key did not witness")
			}
			if !held {
				bad("delegator-lacks-role", "the delegator does not hold the role")
			}
			if level != 2 || uint64(uint8(o.level)) != 1 {
				bad("level-rule", fmt.Sprintf("the delegator's level is %d and the requested level %d (only a direct holder may delegate, at level 1)", level, o.level))
			}
			if uint64(ts)+uint64(uint32(o.period)) >= fromExp {
				bad("outlives-delegator", "the delegation would outlive the delegator's own role")
			}
			d := ct.delegOf(o.id2, o.role)
			if d == nil {
				d = &c41Deleg{role: o.role}
				ct.deleg[string(o.id2)] = append(ct.deleg[string(o.id2)], d)
			}
			d.root, d.expire, d.level = o.id, ts+uint32(o.period), uint64(uint8(o.level))
			delete(ct.ended[string(o.id2)], o.role)
			c.Probe("ok_delegate")
		} else if proved(o.id, o.keyNo) {
			switch {
			case !held:
				c.Probe("refused_delegate_without_role")
			case level != 2:
				c.Probe("refused_delegate_by_delegate")
			case o.level != 1:
				c.Probe("refused_delegate_level")
			}
		}
	case c41Withdraw:
		d := ct.delegOf(o.id2, o.role)
		if ok {
			if !proved(o.id, o.keyNo) {
				bad("key-not-proved", "the initiator's key did not witness")
			}
			if d == nil || !bytes.Equal(d.root, o.id) {
				bad("not-the-delegator", "the initiator did not make this delegation")
			}
			ds := ct.deleg[string(o.id2)]
			for i := range ds {
				if ds[i] == d {
					ct.deleg[string(o.id2)] = append(ds[:i:i], ds[i+1:]...)
					break
				}
			}
			if d.expire > ts {
				ct.markEnded(o.id2, o.role, "withdrawn")
			}
			c.Probe("ok_withdraw")
		} else if d != nil && !bytes.Equal(d.root, o.id) && proved(o.id, o.keyNo) {
			c.Probe("refused_withdraw_by_stranger")
		}
	case c41Verify:
		e := r.expect(ct, o.id, o.fn, o.keyNo, w, ts)
		if ok {
			c.Probe("committed_verify_true")
		} else {
			c.Probe("committed_verify_false")
		}
		return r.judgeVerify(where, o.String(), ct, o.id, o.fn, e, ok, ts)
	}
	return nil
}

// judgeVerify compares one verifyToken answer with the statement. It returns
// a deferred report for the classes that may be known findings.
func (r *c41Run) judgeVerify(where, what string, ct *c41Contract, caller []byte, fn string, e c41Expect, got bool, now uint32) func() {
	c := r.c
	switch {
	case e.want == 2:
		c.Probe("verify_at_expiry_instant")
		return nil
	case e.want == 1 && got:
		r.sawTrue = true
		if e.class == "delegated-role" {
			c.Probe("verify_true_delegated")
			for _, d := range ct.deleg[string(caller)] {
				if ct.funcs[d.role][fn] && d.expire == now+1 {
					c.Probe("verify_one_second_before_expiry")
				}
			}
		} else {
			c.Probe("verify_true_direct")
		}
		return nil
	case e.want == 0 && !got:
		switch e.class {
		case "key-not-proved":
			c.Probe("verify_false_unwitnessed")
			r.sawFalse = true
		case "expired-delegation":
			c.Probe("verify_false_expired")
			r.sawFalse = true
			for _, d := range ct.deleg[string(caller)] {
				if ct.funcs[d.role][fn] && d.expire+1 == now {
					c.Probe("verify_one_second_after_expiry")
				}
			}
		default:
			c.Probe("verify_false_no_role")
			for role, how := range ct.ended[string(caller)] {
				if how == "withdrawn" && ct.funcs[role][fn] {
					c.Probe("verify_false_withdrawn")
					r.sawFalse = true
				}
			}
		}
		return nil
	case e.want == 0 && got:
		c.Fail("verifyToken-false-positive", e.class, "%s: %s answers true at time %d; the model says false (%s): %s", where, what, now, e.class, r.describe(ct, caller))
	default:
		detail := fmt.Sprintf("%s: %s answers false at time %d; the model says true (%s): %s", where, what, now, e.class, r.describe(ct, caller))
		if e.class == "direct-role-after-2100" || e.class == "role-assigned-while-delegated" {
			return func() { r.soft("verifyToken-false-negative", e.class, "%s", detail) }
		}
		c.Fail("verifyToken-false-negative", e.class, "%s", detail)
	}
	return nil
}

func (r *c41Run) describe(ct *c41Contract, id []byte) string {
	x := r.m.get(id)
	s := fmt.Sprintf("%s admin=%s; %s state=%d keys=[", ct.name, oidShort(ct.admin), oidShort(id), x.state)
	for i, k := range x.keys {
		if i > 0 {
			s += " "
		}
		s += oidShort(k.pub)
		if k.revoked {
			s += ":revoked"
		}
	}
	s += "] direct=" + strings.Join(ct.direct[string(id)], ",")
	for role := range ct.phantom[string(id)] {
		s += " assigned-while-delegated=" + role
	}
	for _, d := range ct.deleg[string(id)] {
		s += fmt.Sprintf(" delegated{%s by %s until %d level %d}", d.role, oidShort(d.root), d.expire, d.level)
	}
	s += " roles:"
	for _, role := range c41Roles {
		var fs []string
		for _, fn := range c41Fns {
			if ct.funcs[role][fn] {
				fs = append(fs, fn)
			}
		}
		s += fmt.Sprintf(" %s={%s}", role, strings.Join(fs, ","))
	}
	return s
}

// ask pre-executes verifyToken (the node evaluates it at last block time + 1).
func (r *c41Run) ask(ct *c41Contract, caller []byte, fn string, keyNo uint64, signers []*oidAcct) bool {
	res, ok, notify := oidQuery(r.c, r.ch, nutils.AuthContractAddress, "verifyToken", [][]byte{ct.addr[:], caller, []byte(fn), oidUint(keyNo)}, signers)
	if !ok {
		return false
	}
	ans := len(res) == 1 && res[0] == 1
	// the event must say the same
	found, val := c41EventResult(&event.ExecuteNotify{Notify: notify}, "verifyToken")
	if !found || val != ans {
		r.c.Fail("result-event-differs", "verifyToken", "verifyToken(%s %s %s key#%d) returns %v, its event says found=%v %v", ct.name, oidShort(caller), fn, keyNo, ans, found, val)
	}
	return ans
}

// sweep asks verifyToken for every (contract, identity, function) with an
// honest witness, plus tape-chosen adversarial questions.
func (r *c41Run) sweep(when string, full bool) (softs []func()) {
	t := r.c.Tape
	now := r.ch.Now + 1
	fns := append(append([]string(nil), c41Fns...), "fx")
	var yes []string
	for _, ct := range r.cts {
		for _, id := range r.ids {
			x := r.m.get(id)
			// between blocks only the identities the model relates to this contract
			// (roles, delegations past or present) are asked; everything at the end
			if !full && len(ct.direct[string(id)]) == 0 && len(ct.deleg[string(id)]) == 0 && len(ct.phantom[string(id)]) == 0 && len(ct.ended[string(id)]) == 0 {
				continue
			}
			// an honest witness: the first live key we hold
			var keyNo uint64
			var signers []*oidAcct
			for i, k := range x.keys {
				if a := r.acctByPub(k.pub); !k.revoked && a != nil {
					keyNo, signers = uint64(i+1), []*oidAcct{a}
					if !k.auth {
						r.c.Probe("non_auth_key_proves")
					}
					break
				}
			}
			for _, fn := range fns {
				e := r.expect(ct, id, fn, keyNo, oidWitOf(signers), now)
				got := r.ask(ct, id, fn, keyNo, signers)
				if got {
					yes = append(yes, fmt.Sprintf("%s/%s/%s", ct.name, oidShort(id), fn))
				}
				what := fmt.Sprintf("verifyToken(%s %s fn=%s key#%d) signed=%s", ct.name, oidShort(id), fn, keyNo, oidNames(signers))
				if s := r.judgeVerify(when, what, ct, id, fn, e, got, now); s != nil {
					softs = append(softs, s)
				}
				// the same identity must not get the function through the other contract's roles
				if e.want == 1 && got {
					for _, other := range r.cts {
						if other != ct && r.expect(other, id, fn, keyNo, oidWitOf(signers), now).want == 0 {
							r.c.Probe("verify_false_other_contract")
						}
					}
				}
			}
		}
	}
	r.c.Logf("  verifyToken true at %d for: %s", now, strings.Join(yes, " "))
	// adversarial questions
	n := t.Choose(5)
	for i := 0; i < n; i++ {
		ct := r.cts[t.Choose(len(r.cts))]
		id := r.pickID()
		fn := fns[t.Choose(len(fns))]
		keyNo := r.pickKeyNo(id)
		signers := r.signersFor(id, keyNo)
		e := r.expect(ct, id, fn, keyNo, oidWitOf(signers), now)
		got := r.ask(ct, id, fn, keyNo, signers)
		what := fmt.Sprintf("verifyToken(%s %s fn=%s key#%d) signed=%s", ct.name, oidShort(id), fn, keyNo, oidNames(signers))
		r.c.Logf("  ask %s => %v", what, got)
		if e.class == "key-not-proved" && !got {
			x := r.m.get(id)
			if k := uint32(keyNo); k >= 1 && int64(k) <= int64(len(x.keys)) && x.keys[k-1].revoked {
				r.c.Probe("verify_false_revoked_key")
			}
		}
		if s := r.judgeVerify(when, what, ct, id, fn, e, got, now); s != nil {
			softs = append(softs, s)
		}
	}
	return softs
}

func (r *c41Run) digest(now uint32) string {
	h := sha256.New()
	for _, ct := range r.cts {
		fmt.Fprintf(h, "%s a=%v|", ct.name, ct.admin != nil)
		for _, role := range c41Roles {
			for _, fn := range c41Fns {
				fmt.Fprintf(h, "%v", ct.funcs[role][fn])
			}
		}
		for i, id := range r.ids {
			fmt.Fprintf(h, "|%d:%s", i, strings.Join(ct.direct[string(id)], ","))
			for _, d := range ct.deleg[string(id)] {
				fmt.Fprintf(h, " %s<%d live=%v", d.role, d.level, d.expire > now)
			}
		}
	}
	for i, id := range r.ids {
		x := r.m.get(id)
		fmt.Fprintf(h, "#%d:%d", i, x.state)
		for _, k := range x.keys {
			fmt.Fprintf(h, "%v", k.revoked)
		}
	}
	return fmt.Sprintf("%x", h.Sum(nil)[:8])
}
