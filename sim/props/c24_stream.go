package props

import (
	"bytes"
	"encoding/binary"
	"io"
	"net"
	"runtime/debug"
	"runtime/metrics"
	"strings"
	"sync"
	"time"

	"github.com/ontio/ontology/common"
	ct "github.com/ontio/ontology/core/types"
	p2pcomm "github.com/ontio/ontology/p2pserver/common"
)

// ---- byte source with tape-chosen fragmentation ----------------------------

// c24Reader hands out a byte stream in fragments; it never buffers, so pos is
// exactly what the consumer has taken.
type c24Reader struct {
	data  []byte
	pos   int
	frag  []int // fragment size schedule (cycled); empty: as much as asked
	k     int
	reads int
}

func (r *c24Reader) Read(p []byte) (int, error) {
	if len(p) == 0 {
		return 0, nil
	}
	if r.pos >= len(r.data) {
		return 0, io.EOF
	}
	n := len(r.data) - r.pos
	if len(r.frag) > 0 {
		if f := r.frag[r.k%len(r.frag)]; f < n {
			n = f
		}
		r.k++
	}
	if n > len(p) {
		n = len(p)
	}
	copy(p, r.data[r.pos:r.pos+n])
	r.pos += n
	r.reads++
	return n, nil
}

// c24Conn is the net.Conn handed to link.Link: the fragmenting reader, then
// EOF or a stall (blocks until closed) at the end of the data.
type c24Conn struct {
	r       c24Reader
	stall   bool
	mu      sync.Mutex
	closed  bool
	closeCh chan struct{}
	writes  int
}

func c24NewConn(data []byte, frag []int, stall bool) *c24Conn {
	return &c24Conn{r: c24Reader{data: data, frag: frag}, stall: stall, closeCh: make(chan struct{})}
}

func (c *c24Conn) Read(p []byte) (int, error) {
	c.mu.Lock()
	if c.closed {
		c.mu.Unlock()
		return 0, io.ErrClosedPipe
	}
	n, err := c.r.Read(p)
	c.mu.Unlock()
	if err == io.EOF && c.stall {
		<-c.closeCh
		return 0, io.ErrClosedPipe
	}
	return n, err
}

func (c *c24Conn) Write(p []byte) (int, error) { c.writes++; return len(p), nil }

func (c *c24Conn) Close() error {
	c.mu.Lock()
	defer c.mu.Unlock()
	if !c.closed {
		c.closed = true
		close(c.closeCh)
	}
	return nil
}

func (c *c24Conn) isClosed() bool {
	c.mu.Lock()
	defer c.mu.Unlock()
	return c.closed
}

func (c *c24Conn) LocalAddr() net.Addr                { return c36Addr("10.9.9.9:20338") }
func (c *c24Conn) RemoteAddr() net.Addr               { return c36Addr("10.0.0.1:40000") }
func (c *c24Conn) SetDeadline(t time.Time) error      { return nil }
func (c *c24Conn) SetReadDeadline(t time.Time) error  { return nil }
func (c *c24Conn) SetWriteDeadline(t time.Time) error { return nil }

// ---- reference model of the framing layer ----------------------------------

const c24HdrLen = p2pcomm.MSG_HDR_LEN

type c24Expect struct {
	kind    string // end | eof-header | bad-magic | oversize-length | eof-payload | bad-checksum | valid
	cmd     string
	length  uint32
	payload []byte
}

// c24Model says what a correct reader does with the bytes at the head of rest:
// the checks of the property statement in the order magic, length cap, payload
// present, checksum.
func c24Model(rest []byte, magic uint32) c24Expect {
	if len(rest) == 0 {
		return c24Expect{kind: "end"}
	}
	if len(rest) < c24HdrLen {
		return c24Expect{kind: "eof-header"}
	}
	e := c24Expect{}
	e.cmd = string(bytes.TrimRight(rest[4:16], "\x00"))
	e.length = binary.LittleEndian.Uint32(rest[16:20])
	if binary.LittleEndian.Uint32(rest[0:4]) != magic {
		e.kind = "bad-magic"
		return e
	}
	if e.length > p2pcomm.MAX_PAYLOAD_LEN {
		e.kind = "oversize-length"
		return e
	}
	if uint64(len(rest)-c24HdrLen) < uint64(e.length) {
		e.kind = "eof-payload"
		return e
	}
	e.payload = rest[c24HdrLen : c24HdrLen+int(e.length)]
	sum := p2pcomm.Checksum(e.payload)
	if !bytes.Equal(sum[:], rest[20:24]) {
		e.kind = "bad-checksum"
		return e
	}
	e.kind = "valid"
	return e
}

// c24Frame builds header+payload like WriteMessage does, from raw parts.
func c24Frame(magic uint32, cmd string, payload []byte) []byte {
	out := make([]byte, c24HdrLen+len(payload))
	binary.LittleEndian.PutUint32(out[0:4], magic)
	copy(out[4:16], cmd)
	binary.LittleEndian.PutUint32(out[16:20], uint32(len(payload)))
	sum := p2pcomm.Checksum(payload)
	copy(out[20:24], sum[:])
	copy(out[c24HdrLen:], payload)
	return out
}

// ---- guard against an unrecoverable out-of-memory abort ---------------------

// c24BlockFatal reports whether decoding payload as a "block" message would
// reach core/types.CrossChainMsg.Deserialization with a signature count whose
// pre-allocation (make([][]byte, 0, n)) is neither refused by the runtime
// (panic, recoverable, reported) nor small enough to survive under the
// worker's address-space limit: the runtime would abort the whole process
// ("fatal error: out of memory"), which no harness can report. Such inputs are
// skipped and counted; smaller hostile counts are executed and measured.
func c24BlockFatal(payload []byte) (fatal bool, n uint64) {
	defer func() {
		if r := recover(); r != nil {
			fatal = false
		}
	}()
	src := common.NewZeroCopySource(payload)
	blk := new(ct.Block)
	if err := blk.Deserialization(src); err != nil {
		return false, 0
	}
	if _, eof := src.NextHash(); eof {
		return false, 0
	}
	has, irr, eof := src.NextBool()
	if irr || eof || !has {
		return false, 0
	}
	if eof := src.Skip(1 + 4 + 32); eof {
		return false, 0
	}
	n, _, irr, eof = src.NextVarUint()
	if irr || eof {
		return false, 0
	}
	const elem = 24
	if n > (1<<48)/elem { // makeslice panics: recoverable
		return false, n
	}
	return n*elem > 128<<20, n
}

// ---- allocation meter -------------------------------------------------------

var c24AllocSample = []metrics.Sample{{Name: "/gc/heap/allocs:bytes"}}

// c24Allocs returns the cumulative bytes allocated on the heap (large
// allocations are accounted at once; small ones with a lag of a few KB).
func c24Allocs() uint64 {
	metrics.Read(c24AllocSample)
	if c24AllocSample[0].Value.Kind() != metrics.KindUint64 {
		return 0
	}
	return c24AllocSample[0].Value.Uint64()
}

// c24PanicSite extracts the first frame below the panic that is not in the
// runtime: a stable signature for a panic recovered by the property itself.
func c24PanicSite() string {
	lines := strings.Split(string(debug.Stack()), "\n")
	seen := false
	for i := 0; i+1 < len(lines); i++ {
		l := lines[i]
		if strings.HasPrefix(l, "panic(") {
			seen = true
			continue
		}
		if !seen || strings.HasPrefix(l, "\t") || strings.HasPrefix(l, "runtime.") {
			continue
		}
		if k := strings.LastIndex(l, "("); k > 0 {
			l = l[:k]
		}
		if k := strings.LastIndex(l, "/"); k >= 0 {
			l = l[k+1:]
		}
		return l
	}
	return "unknown"
}
