package props

import (
	"errors"
	"fmt"
	"github.com/ontio/ontology/common/simhook"
	"net"
	"sort"
	"strings"
	"sync"
	"testing/synctest"

	p2pcomm "github.com/ontio/ontology/p2pserver/common"
	cc "github.com/ontio/ontology/p2pserver/connect_controller"
	"github.com/ontio/ontology/p2pserver/handshake"
	"github.com/ontio/ontology/p2pserver/peer"

	"ontosim/simkit"
	"ontosim/world"
)

// C36: established inbound connections never exceed MaxConnInBound nor the
// per-IP limit, established outbound connections never exceed MaxConnOutBound,
// whatever the interleaving of concurrent AcceptConnect / Connect / Close.
func init() {
	simkit.Register(&simkit.Prop{
		ID:             "C36",
		Desc:           "peer connection limits under concurrent accepts, dials and closes on the real ConnectController",
		Rule:           "a run = one real ConnectController with limits (inbound, outbound, per-IP) drawn from 1..4 and 2..8 connection tasks (inbound AcceptConnect / outbound Connect, 1..3 remote IPs, 1..n remote identities, optional close after establishment, optional remote abort mid-handshake, optional dial failure) whose every start, Dial, conn Read/Write and Close is a gate released one at a time by the tape; the invariant is evaluated after every scheduler step; non-trivial = at least two handshakes of one direction were in flight at the same time AND some limit was reached (a bound was full or an attempt was refused by a limit); distinct = distinct event-trace hash",
		Real:           []string{"p2pserver/connect_controller (ConnectController, Conn wrapper)", "p2pserver/handshake (HandshakeServer / HandshakeClient on both sides)", "p2pserver/message/types (ReadMessage/WriteMessage of version, updatekadid, verack)", "p2pserver/peer (PeerInfo)"},
		Stub:           []string{"network: in-memory pipes (SimConn) and a Dialer whose every operation is a scheduler gate", "remote peers: goroutines running the repo's own handshake functions over the other pipe end", "NetServer accept loop / Link.Rx: replaced by harness tasks that call AcceptConnect / Connect and later Close on the returned connection"},
		Assumptions:    []string{"'established' = AcceptConnect/Connect returned success and Close of the returned connection has not run; the controller's InboundsCount/OutboundsCount must agree with that at every quiescent point", "goroutines are interleaved at Read/Write/Dial granularity (the controller takes its mutex only between those points), not at instruction granularity", "handshake deadlines never expire (the fake clock does not advance during a run)"},
		ExpectedProbes: []string{"overlap", "refused_inbound_limit", "refused_perip_limit", "refused_outbound_limit", "limit_reached_in", "limit_reached_ip", "limit_reached_out", "close_during_handshake", "remote_abort", "refused_duplicate_addr"},
		Run:            runC36,
	})
}

type c36Logger struct{ fatals int }

func (l *c36Logger) Debug(a ...interface{})                 {}
func (l *c36Logger) Info(a ...interface{})                  {}
func (l *c36Logger) Warn(a ...interface{})                  {}
func (l *c36Logger) Error(a ...interface{})                 {}
func (l *c36Logger) Fatal(a ...interface{})                 { l.fatals++ }
func (l *c36Logger) Debugf(format string, a ...interface{}) {}
func (l *c36Logger) Infof(format string, a ...interface{})  {}
func (l *c36Logger) Warnf(format string, a ...interface{})  {}
func (l *c36Logger) Errorf(format string, a ...interface{}) {}
func (l *c36Logger) Fatalf(format string, a ...interface{}) { l.fatals++ }

// c36Ident is a remote node identity.
type c36Ident struct {
	idx  int
	ip   string
	key  *p2pcomm.PeerKeyId
	info *peer.PeerInfo
	self bool // the controller's own identity (handshake with itself)
}

const (
	c36Idle = iota
	c36Inflight
	c36Established
	c36Failed
	c36Closed
)

type c36Task struct {
	id        int
	inbound   bool
	ident     *c36Ident
	addr      string // inbound: remote ip:ephemeral port; outbound: dial target ip:listen port
	willClose bool
	abortAt   int
	dialFail  bool

	// written by the task's goroutine between two gates, read by the scheduler at quiescence
	state   int
	err     error
	wrapped net.Conn
	raw     *c36Conn // the controller's end
	rem     *c36Conn // the remote peer's end

	closing bool // Close of the established connection has been called and has not returned yet
	lockOps int // mutex acquisitions of the controller reached by this task's goroutine

	// scheduler bookkeeping
	seen      int // last state seen by the scheduler
	startStep int
	estStep   int
	preCount  int // ground-truth established connections of this direction when the pre-handshake check ran
	preIP     int // same, for this task's remote IP (inbound)
	reported  bool
}

func (t *c36Task) name() string {
	d := "out"
	if t.inbound {
		d = "in"
	}
	return fmt.Sprintf("T%d/%s/%s", t.id, d, t.addr)
}

type c36World struct {
	c     *simkit.Ctx
	s     *c36Sched
	ctrl  *cc.ConnectController
	tasks []*c36Task
	gids  sync.Map // goroutine id -> *c36Task: the controller-side goroutine of each task
}

// lockGate is installed as simhook.YieldFn: the controller reaches it before
// every acquisition of its mutex (hook H7). The goroutine of a task parks
// there like at a connection operation, so the tape also decides who gets the
// mutex next; every other goroutine (the scheduler reading counters) passes.
func (w *c36World) lockGate(site string, a, b int) {
	v, ok := w.gids.Load(simkit.GoID())
	if !ok {
		return
	}
	t := v.(*c36Task)
	t.lockOps++
	w.s.park(t.id, 0, 1<<20+t.lockOps, "lock", nil)
}

// c36Dialer implements connect_controller.Dialer. Connect calls Dial in the
// same scheduler step in which the task's start gate was released, so the
// task is the scheduler's current one.
type c36Dialer struct{ w *c36World }

func (d *c36Dialer) Dial(addr string) (net.Conn, error) {
	w := d.w
	w.s.mu.Lock()
	id := w.s.current
	w.s.mu.Unlock()
	t := w.tasks[id]
	if t.inbound || t.addr != addr {
		panic(simkit.HarnessError{Msg: fmt.Sprintf("c36 dialer: current task %s does not dial %s", t.name(), addr)})
	}
	w.s.park(t.id, 0, -1, "dial", nil)
	if t.dialFail {
		return nil, errors.New("simnet: connection refused")
	}
	local, remoteEnd := c36NewPipe(w.s, t.id, fmt.Sprintf("10.9.9.9:%d", 50000+t.id), addr)
	remoteEnd.abortAt = t.abortAt
	t.raw, t.rem = local, remoteEnd
	go w.remoteServer(t, remoteEnd)
	return local, nil
}

func (w *c36World) remoteServer(t *c36Task, conn *c36Conn) {
	_, err := handshake.HandshakeServer(t.ident.info, t.ident.key, conn)
	if err != nil {
		_ = conn.Close()
	}
}

func (w *c36World) remoteClient(t *c36Task, conn *c36Conn) {
	_, err := handshake.HandshakeClient(t.ident.info, t.ident.key, conn)
	if err != nil {
		_ = conn.Close()
	}
}

func (w *c36World) setState(t *c36Task, st int, err error) {
	w.s.mu.Lock()
	t.state = st
	t.err = err
	w.s.mu.Unlock()
}

// runTask is the harness stand-in for NetServer.handleClientConnection /
// NetServer.connect followed (optionally) by the peer's Close.
func (w *c36World) runTask(t *c36Task) {
	w.gids.Store(simkit.GoID(), t)
	w.s.park(t.id, 0, -2, "start", nil)
	w.setState(t, c36Inflight, nil)
	var conn net.Conn
	var err error
	if t.inbound {
		_, conn, err = w.ctrl.AcceptConnect(t.raw)
		if err != nil {
			_ = t.raw.Close() // as startNetAccept does
		}
	} else {
		_, conn, err = w.ctrl.Connect(t.addr)
	}
	if err != nil {
		w.setState(t, c36Failed, err)
		return
	}
	// NetServer.ReplacePeer: a new connection of a peer id that is already
	// connected replaces the old peer, whose connection is closed at once
	var replaced []*c36Task
	w.s.mu.Lock()
	t.wrapped = conn
	t.state = c36Established
	for _, o := range w.tasks {
		if o != t && o.state == c36Established && o.ident == t.ident {
			replaced = append(replaced, o)
		}
	}
	w.s.mu.Unlock()
	for _, o := range replaced {
		w.closeTask(o)
	}
	if !t.willClose {
		return
	}
	w.s.park(t.id, 0, 1<<30, "close", nil)
	w.closeTask(t)
}

// closeTask closes an established connection once (netserver's Conn wrapper
// and Link.CloseConn make Close idempotent in the node).
func (w *c36World) closeTask(t *c36Task) {
	w.s.mu.Lock()
	if t.state != c36Established {
		w.s.mu.Unlock()
		return
	}
	t.state = c36Closed
	t.closing = true
	w.s.mu.Unlock()
	_ = t.wrapped.Close()
	w.s.mu.Lock()
	t.closing = false
	w.s.mu.Unlock()
}

func c36IP(addr string) string {
	h, _, _ := net.SplitHostPort(addr)
	return h
}

func (w *c36World) counts() (in, out int, perIP map[string]int, inflightIn, inflightOut int) {
	perIP = map[string]int{}
	for _, t := range w.tasks {
		switch t.state {
		case c36Established:
			if t.inbound {
				in++
				perIP[c36IP(t.addr)]++
			} else {
				out++
			}
		case c36Inflight:
			if t.inbound {
				inflightIn++
			} else {
				inflightOut++
			}
		}
	}
	return
}

func (w *c36World) describe(inbound bool) string {
	var parts []string
	for _, t := range w.tasks {
		if t.inbound == inbound && t.state == c36Established {
			parts = append(parts, fmt.Sprintf("%s(precheck@s%d saw %d, saved@s%d)", t.name(), t.startStep, t.preCount, t.estStep))
		}
	}
	return strings.Join(parts, " ")
}

func runC36(c *simkit.Ctx) {
	world.Init()
	p2pcomm.Difficulty = 1 // as the repo's own tests: peer key ids without proof-of-work
	c.Bubble(func() {
		tp := c.Tape
		maxIn, maxOut, maxIP := uint(tp.Range(1, 4)), uint(tp.Range(1, 4)), uint(tp.Range(1, 4))
		nTasks := tp.Range(2, 8)
		nIPs := tp.Range(1, 3)
		nIdent := nTasks - tp.Choose(nTasks) // simplest: every task its own remote identity
		dirMode := tp.Choose(3)              // 0: all inbound, 1: mixed, 2: all outbound
		schedMode := tp.Choose(4)            // 0: uniform, 1: starts first, 2: sticky, 3: one connection attempt after the other
		allowSelf := tp.Prob(1, 8)

		w := &c36World{c: c, s: &c36Sched{}}
		simhook.YieldFn = w.lockGate
		c.Defer(func() { simhook.YieldFn = nil })
		lg := &c36Logger{}
		selfKey := p2pcomm.RandPeerKeyId()
		selfInfo := &peer.PeerInfo{Id: selfKey.Id, Port: 20338, SoftVersion: p2pcomm.MIN_VERSION_FOR_DHT}
		opt := cc.NewConnCtrlOption().MaxInBound(maxIn).MaxOutBound(maxOut).MaxInBoundPerIp(maxIP).WithDialer(&c36Dialer{w})
		w.ctrl = cc.NewConnectController(selfInfo, selfKey, opt, lg)
		c.Logf("limits in=%d out=%d perIP=%d tasks=%d ips=%d idents=%d dir=%d sched=%d", maxIn, maxOut, maxIP, nTasks, nIPs, nIdent, dirMode, schedMode)

		idents := make([]*c36Ident, nIdent)
		for i := range idents {
			id := &c36Ident{idx: i, ip: fmt.Sprintf("10.0.0.%d", 1+tp.Choose(nIPs))}
			if allowSelf && tp.Prob(1, 4) {
				id.self = true
				id.key = selfKey
				id.info = &peer.PeerInfo{Id: selfKey.Id, Port: 20338, SoftVersion: p2pcomm.MIN_VERSION_FOR_DHT}
			} else {
				id.key = p2pcomm.RandPeerKeyId()
				sv := p2pcomm.MIN_VERSION_FOR_DHT
				if tp.Prob(1, 5) {
					sv = "v1.8.0" // no DHT: shorter handshake, pseudo peer id
				}
				id.info = &peer.PeerInfo{Id: id.key.Id, Port: uint16(20400 + i), SoftVersion: sv}
			}
			idents[i] = id
			c.Logf("ident %d ip=%s port=%d soft=%s self=%v", i, id.ip, id.info.Port, id.info.SoftVersion, id.self)
		}
		for i := 0; i < nTasks; i++ {
			t := &c36Task{id: i, ident: idents[(i+tp.Choose(nIdent))%nIdent]}
			switch dirMode {
			case 0:
				t.inbound = true
			case 1:
				t.inbound = !tp.Prob(2, 5)
			}
			if t.inbound {
				t.addr = fmt.Sprintf("%s:%d", t.ident.ip, 40000+i)
			} else {
				t.addr = fmt.Sprintf("%s:%d", t.ident.ip, t.ident.info.Port)
			}
			t.willClose = tp.Prob(1, 3)
			if tp.Prob(1, 8) {
				t.abortAt = 1 + tp.Choose(7)
			}
			if !t.inbound && tp.Prob(1, 10) {
				t.dialFail = true
			}
			w.tasks = append(w.tasks, t)
			c.Logf("task %s ident=%d close=%v abortAt=%d dialFail=%v", t.name(), t.ident.idx, t.willClose, t.abortAt, t.dialFail)
		}
		// everything that can still be parked at the end must be released before the bubble ends
		c.Defer(func() { w.drain() })
		for _, t := range w.tasks {
			if t.inbound {
				local, remoteEnd := c36NewPipe(w.s, t.id, "10.9.9.9:20338", t.addr)
				remoteEnd.abortAt = t.abortAt
				t.raw, t.rem = local, remoteEnd
				go w.remoteClient(t, remoteEnd)
			}
			go w.runTask(t)
		}

		overlap, limitHit := false, false
		step := 0
		var last *c36Gate
		for {
			synctest.Wait()
			// ---- observe: state transitions of the step just executed, then the invariant
			w.s.mu.Lock()
			in, out, perIP, inflIn, inflOut := w.counts()
			var changed []*c36Task
			for _, t := range w.tasks {
				if t.state != t.seen {
					changed = append(changed, t)
				}
			}
			w.s.mu.Unlock()
			var established *c36Task
			for _, t := range changed {
				switch t.state {
				case c36Established:
					t.estStep = step
					established = t
					c.Logf("  %s ESTABLISHED in=%d/%d ip=%d/%d out=%d/%d", t.name(), in, maxIn, perIP[c36IP(t.addr)], maxIP, out, maxOut)
				case c36Failed:
					msg := t.err.Error()
					c.Logf("  %s failed: %s", t.name(), msg)
					switch {
					case strings.Contains(msg, "with ip("):
						c.Probe("refused_perip_limit")
						limitHit = true
					case strings.Contains(msg, "reach max limit") && t.inbound:
						c.Probe("refused_inbound_limit")
						limitHit = true
					case strings.Contains(msg, "reach max limit"):
						c.Probe("refused_outbound_limit")
						limitHit = true
					case strings.Contains(msg, "already in connection records"), strings.Contains(msg, "connecting list"):
						c.Probe("refused_duplicate_addr")
					case strings.Contains(msg, "handshake with itself"):
						c.Probe("handshake_self")
					case strings.Contains(msg, "same peer id from different addr"):
						c.Probe("refused_same_id_other_ip")
					}
				case c36Closed:
					c.Logf("  %s closed in=%d out=%d", t.name(), in, out)
					if established != nil && established != t || len(changed) > 1 {
						c.Probe("replaced_same_id")
					}
					if inflIn+inflOut > 0 {
						c.Probe("close_during_handshake")
					}
				}
				t.seen = t.state
			}
			accIn, accOut := int(w.ctrl.InboundsCount()), int(w.ctrl.OutboundsCount())
			// a connection attempt between two mutex acquisitions may already be in the books without
			// having returned, a Close that has not returned may still be in them: the books may run
			// ahead by at most those; with nothing in the middle of an operation they must be exact
			w.s.mu.Lock()
			midIn, midOut := inflIn, inflOut
			for _, t := range w.tasks {
				if t.closing {
					if t.inbound {
						midIn++
					} else {
						midOut++
					}
				}
			}
			w.s.mu.Unlock()
			if accIn < in || accIn > in+midIn || accOut < out || accOut > out+midOut {
				c.Fail("count-disagrees", "established-vs-accessor", "after step %d the controller reports inbound=%d outbound=%d but %d inbound / %d outbound connections are established (accepted or dialled successfully and not closed): in[%s] out[%s]",
					step, accIn, accOut, in, out, w.describe(true), w.describe(false))
			}
			if uint(in) == maxIn {
				c.Probe("limit_reached_in")
				limitHit = true
			}
			if uint(out) == maxOut {
				c.Probe("limit_reached_out")
				limitHit = true
			}
			ips := make([]string, 0, len(perIP))
			for ip := range perIP {
				ips = append(ips, ip)
			}
			sort.Strings(ips)
			maxPer := 0
			for _, ip := range ips {
				if perIP[ip] > maxPer {
					maxPer = perIP[ip]
				}
				if uint(perIP[ip]) == maxIP {
					c.Probe("limit_reached_ip")
					limitHit = true
				}
			}
			c.State(in, out, maxPer, inflIn, inflOut, maxIn, maxOut, maxIP)
			if established != nil && !established.reported {
				t := established
				class := func(pre int, limit uint) string {
					if uint(pre) >= limit {
						// the pre-handshake check itself let it through: no concurrency needed
						return "sequential"
					}
					return "concurrent-handshakes-pass-precheck"
				}
				if t.inbound && uint(in) > maxIn {
					t.reported = true
					c.FailSoft("inbound-limit-exceeded", class(t.preCount, maxIn), "step %d: %d established inbound connections, MaxConnInBound=%d (InboundsCount()=%d). %s passed its pre-handshake check at step %d when %d were established and was recorded at step %d without a re-check. established: %s",
						step, in, maxIn, accIn, t.name(), t.startStep, t.preCount, step, w.describe(true))
				}
				if t.inbound && uint(perIP[c36IP(t.addr)]) > maxIP {
					t.reported = true
					c.FailSoft("per-ip-limit-exceeded", class(t.preIP, maxIP), "step %d: %d established inbound connections from %s, MaxConnInBoundPerIP=%d. %s passed its pre-handshake check at step %d when %d from that IP were established and was recorded at step %d without a re-check. established: %s",
						step, perIP[c36IP(t.addr)], c36IP(t.addr), maxIP, t.name(), t.startStep, t.preIP, step, w.describe(true))
				}
				if !t.inbound && uint(out) > maxOut {
					t.reported = true
					c.FailSoft("outbound-limit-exceeded", class(t.preCount, maxOut), "step %d: %d established outbound connections, MaxConnOutBound=%d (OutboundsCount()=%d). %s passed its pre-handshake check at step %d when %d were established and was recorded at step %d without a re-check. established: %s",
						step, out, maxOut, accOut, t.name(), t.startStep, t.preCount, step, w.describe(false))
				}
			}

			// ---- choose the next gate
			en, _ := w.s.enabledGates()
			if len(en) == 0 {
				break
			}
			cand := en
			switch schedMode {
			case 1:
				var starts []*c36Gate
				for _, g := range en {
					if g.kind == "start" {
						starts = append(starts, g)
					}
				}
				if len(starts) > 0 && len(starts) < len(en) && tp.Prob(3, 4) {
					cand = starts
				}
			case 2, 3:
				var same []*c36Gate
				for _, g := range en {
					if last != nil && g.task == last.task && g.kind != "close" {
						same = append(same, g)
					}
				}
				if len(same) > 0 && len(same) < len(en) && (schedMode == 3 || tp.Prob(3, 4)) {
					cand = same
				}
			}
			g := cand[tp.Choose(len(cand))]
			step++
			t := w.tasks[g.task]
			if g.kind == "start" {
				t.startStep = step
				if t.inbound {
					t.preCount, t.preIP = in, perIP[c36IP(t.addr)]
					if inflIn > 0 {
						overlap = true
						c.Probe("overlap")
					}
				} else {
					t.preCount = out
					if inflOut > 0 {
						overlap = true
						c.Probe("overlap")
					}
				}
			}
			side := "c"
			if g.side == 1 {
				side = "r"
			}
			c.Logf("s%d T%d.%s %s", step, g.task, side, g.kind)
			last = g
			w.s.release(g)
		}
		if _, blocked := w.s.enabledGates(); blocked > 0 {
			c.Harness("c36: %d goroutines parked forever at disabled gates", blocked)
		}
		for _, t := range w.tasks {
			if t.rem != nil && t.rem.aborted {
				c.Probe("remote_abort")
				c.Fault("remote_abort")
			}
		}
		if lg.fatals > 0 {
			c.Probe("controller_logged_fatal")
		}
		// ---- shutdown: close what is still open; the books must return to zero
		for _, t := range w.tasks {
			w.closeTask(t)
			t.seen = t.state
		}
		if a, b := w.ctrl.InboundsCount(), w.ctrl.OutboundsCount(); a != 0 || b != 0 {
			c.Fail("count-disagrees", "after-close-all", "every connection was closed but the controller still reports inbound=%d outbound=%d", a, b)
		}
		if overlap && limitHit {
			c.NonTrivial()
		}
	})
}

// drain closes every pipe and releases every parked goroutine until none is
// left, so that the bubble can end (also after a failure unwound the run).
func (w *c36World) drain() {
	for _, t := range w.tasks {
		if t.raw != nil {
			w.s.mu.Lock()
			t.raw.p.closed[0], t.raw.p.closed[1] = true, true
			w.s.mu.Unlock()
		}
		t.dialFail = true
	}
	for i := 0; i < 100000; i++ {
		synctest.Wait()
		en, blocked := w.s.enabledGates()
		if len(en) == 0 {
			if blocked > 0 {
				panic(simkit.HarnessError{Msg: "c36 drain: goroutines parked at disabled gates"})
			}
			return
		}
		w.s.release(en[0])
	}
}
