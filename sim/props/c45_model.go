package props

// Reference model of the ONT ID contract's identities (used by C45 and C41):
// keys with their revoked / authentication flags, controller (single identity
// or group), recovery (group, or the old single address), attributes,
// services, contexts. The model is advanced only by calls the node reports as
// successful; what it decides on its own is whether a call was AUTHORISED.

import (
	"bytes"

	"github.com/ontio/ontology-crypto/keypair"
	"github.com/ontio/ontology/account"
	"github.com/ontio/ontology/common"
	"github.com/ontio/ontology/core/types"
)

const (
	oidNone    = 0
	oidValid   = 1
	oidRevoked = 2
)

type oidKey struct {
	pub     []byte
	revoked bool
	ctrl    []byte // the "controller" property of the key (a label, not an authority)
	pkList  bool
	auth    bool
}

type oidAttr struct{ key, typ, val []byte }

type oidSvc struct{ id, typ, ep []byte }

type oidIdent struct {
	state   byte
	keys    []*oidKey
	ctrl    []byte // nil = none; an ONT ID or an encoded group
	recVer  int    // -1 none, 0 old (address), 1 new (group)
	rec     []byte
	attrs   []oidAttr // list order: most recently inserted first
	svcs    []oidSvc
	ctxs    [][]byte
	created uint32
	updated uint32
}

type oidModel struct {
	ids map[string]*oidIdent
}

func newOidModel() *oidModel { return &oidModel{ids: map[string]*oidIdent{}} }

func (m *oidModel) get(id []byte) *oidIdent {
	x := m.ids[string(id)]
	if x == nil {
		x = &oidIdent{recVer: -1}
		m.ids[string(id)] = x
	}
	return x
}

// oidWit is the set of addresses that witnessed a transaction.
type oidWit map[common.Address]bool

func oidWitOf(signers []*oidAcct) oidWit {
	w := oidWit{}
	for _, s := range signers {
		w[s.addr] = true
	}
	return w
}

// hasKey: the transaction is witnessed by the given serialized public key.
func (w oidWit) hasKey(pub []byte) bool {
	pk, err := keypair.DeserializePublicKey(pub)
	if err != nil {
		return false
	}
	return w[types.AddressFromPubKey(pk)]
}

// hasKeyOrAddr: witnessed by a public key, or by a raw 20-byte address.
func (w oidWit) hasKeyOrAddr(b []byte) bool {
	if w.hasKey(b) {
		return true
	}
	if len(b) == common.ADDR_LEN {
		var a common.Address
		copy(a[:], b)
		return w[a]
	}
	return false
}

func oidValidIDLen(id []byte) bool { return len(id) > 0 && len(id) <= 255 }

// liveKey returns the key at a claimed index if the identity has it and it is
// not revoked. Indexes count from 1; the contracts keep 32 bits of an index.
func (m *oidModel) liveKey(id []byte, index uint64) *oidKey {
	if !oidValidIDLen(id) {
		return nil
	}
	x := m.ids[string(id)]
	if x == nil {
		return nil
	}
	i := uint32(index)
	if i < 1 || int64(i) > int64(len(x.keys)) {
		return nil
	}
	k := x.keys[i-1]
	if k.revoked {
		return nil
	}
	return k
}

// keyAuth: the transaction is witnessed by the non-revoked key of id at the
// claimed index and that key has authentication rights.
func (m *oidModel) keyAuth(id []byte, index uint64, w oidWit) bool {
	k := m.liveKey(id, index)
	return k != nil && k.auth && w.hasKey(k.pub)
}

// keyProved: as keyAuth without the authentication right (verifySignature).
func (m *oidModel) keyProved(id []byte, index uint64, w oidWit) bool {
	k := m.liveKey(id, index)
	return k != nil && w.hasKey(k.pub)
}

func oidThresholdMet(g *oidGroup, signers []oidSigner) bool {
	var n uint64
	for _, mem := range g.members {
		switch t := mem.(type) {
		case []byte:
			for _, s := range signers {
				if bytes.Equal(s.id, t) {
					n++
					break
				}
			}
		case *oidGroup:
			if oidThresholdMet(t, signers) {
				n++
			}
		}
	}
	return n >= g.threshold
}

// groupAuth: enough members of the group are among the claimed signers and
// every claimed signer's key (live, with authentication right) witnessed.
func (m *oidModel) groupAuth(g *oidGroup, signers []oidSigner, w oidWit) bool {
	if g == nil || !oidThresholdMet(g, signers) {
		return false
	}
	for _, s := range signers {
		if !m.keyAuth(s.id, s.index, w) {
			return false
		}
	}
	return true
}

// oidProof is what a caller presents to act as controller: a key index (single
// controller) or a signer list (group controller).
type oidProof struct {
	single  bool
	index   uint64
	signers []oidSigner
}

func (p *oidProof) field() []byte {
	if p.single {
		return oidUint(p.index)
	}
	return oidEncodeSigners(p.signers)
}

func (p *oidProof) String() string {
	if p.single {
		return "#" + oidItoa(p.index)
	}
	return oidSignersString(p.signers)
}

func oidItoa(v uint64) string {
	if v == 0 {
		return "0"
	}
	var b [20]byte
	i := len(b)
	for v > 0 {
		i--
		b[i] = byte('0' + v%10)
		v /= 10
	}
	return string(b[i:])
}

// oidIsID mirrors the format test of an ONT ID string ("did:ont:" + base58 of
// a 25-byte value with checksum) by delegating to the account package, which
// is not part of the contract under test.
func oidIsID(id []byte) bool { return account.VerifyID(string(id)) }

// ctrlAuth: proof p authorises acting as controller ctrl (an ONT ID or an
// encoded group).
func (m *oidModel) ctrlAuth(ctrl []byte, p *oidProof, w oidWit) bool {
	if ctrl == nil {
		return false
	}
	if oidIsID(ctrl) {
		if !p.single {
			// the contract reads whatever bytes it is given as a number: a signer list whose
			// encoding happens to be a non-negative 64-bit number names a key index
			n := common.BigIntFromNeoBytes(p.field())
			if n.Sign() < 0 || !n.IsUint64() {
				return false
			}
			return m.keyAuth(ctrl, uint64(uint32(n.Uint64())), w)
		}
		return m.keyAuth(ctrl, p.index, w)
	}
	g := oidParseGroup(ctrl, 0)
	if g == nil {
		return false
	}
	if p.single {
		// the contract reads whatever bytes it is given as a signer list: the bytes of a key
		// index can parse as an (often empty) list, which satisfies a group that asks for nobody
		signers, ok := oidDecodeSigners(p.field())
		if !ok {
			return false
		}
		return m.groupAuth(g, signers, w)
	}
	return m.groupAuth(g, p.signers, w)
}

// recAuth: the claimed signers satisfy the identity's (new-style) recovery.
func (m *oidModel) recAuth(x *oidIdent, signers []oidSigner, w oidWit) bool {
	if x.recVer != 1 {
		return false
	}
	return m.groupAuth(oidParseGroup(x.rec, 0), signers, w)
}

// ownerAuth: opPk is a non-revoked key of the identity with authentication
// rights and it witnessed the transaction.
func (m *oidModel) ownerAuth(x *oidIdent, opPk []byte, w oidWit) bool {
	for _, k := range x.keys {
		if bytes.Equal(k.pub, opPk) {
			return !k.revoked && k.auth && w.hasKey(k.pub)
		}
	}
	return false
}

// oldRecAuth: op is the identity's old-style recovery address and witnessed.
func (m *oidModel) oldRecAuth(x *oidIdent, op []byte, w oidWit) bool {
	return x.recVer == 0 && len(x.rec) > 0 && bytes.Equal(x.rec, op) && w.hasKeyOrAddr(op)
}

func (x *oidIdent) findKey(pub []byte) int {
	for i, k := range x.keys {
		if bytes.Equal(k.pub, pub) {
			return i
		}
	}
	return -1
}

func (x *oidIdent) findAttr(key []byte) int {
	for i, a := range x.attrs {
		if bytes.Equal(a.key, key) {
			return i
		}
	}
	return -1
}

func (x *oidIdent) putAttr(a oidAttr) {
	if i := x.findAttr(a.key); i >= 0 {
		x.attrs[i] = a
		return
	}
	x.attrs = append([]oidAttr{a}, x.attrs...)
}

func (x *oidIdent) findSvc(id []byte) int {
	for i, s := range x.svcs {
		if bytes.Equal(s.id, id) {
			return i
		}
	}
	return -1
}

func (x *oidIdent) hasCtx(c []byte) bool {
	for _, y := range x.ctxs {
		if bytes.Equal(y, c) {
			return true
		}
	}
	return false
}

// revoke wipes everything but the tombstone.
func (x *oidIdent) revoke() {
	*x = oidIdent{state: oidRevoked, recVer: -1}
}

// liveAuthIndexes lists the indexes (from 1) of non-revoked keys with
// authentication rights.
func (x *oidIdent) liveAuthIndexes() []int {
	var out []int
	for i, k := range x.keys {
		if !k.revoked && k.auth {
			out = append(out, i+1)
		}
	}
	return out
}
