package props

import (
	"bytes"
	"fmt"
	"github.com/ontio/ontology/common/simhook"
	"os"
	"strings"

	"github.com/ontio/ontology/account"
	"github.com/ontio/ontology/common"
	"github.com/ontio/ontology/core/store/ledgerstore"
	"github.com/ontio/ontology/core/types"

	"ontosim/simkit"
	"ontosim/world"
)

// C40: for every committed height the chain queries (hash by height, block by
// height, block by hash, header by hash / height, raw header, transactions by
// hash with their recorded height, containment, tip) agree with the block that
// was committed - before and after restarts and crash recoveries - and unknown
// hashes / heights are reported absent, never as some other block.
//
// Oracle: the single-copy log the harness keeps of what it committed.
func init() {
	simkit.Register(&simkit.Prop{
		ID:   "C40",
		Desc: "chain queries agree with the single-copy log of committed blocks, across header-index window, block cache, clean restarts and crash recoveries",
		Rule: "a run = one solo ledger and the harness's log of the blocks it committed; in two thirds of the runs the ledger store's block cache (1..4), transaction cache (1..8) and header index window (2..21) are small (hook H8), so cache-miss paths run on short chains; blocks carry 0..5 ONT/ONG transfers; mostly 3..60 blocks, in about one run of 25 (quick; one of 6 thorough) a long chain of 2003..2100 mostly empty blocks that crosses the 2000-entry header index window; generated operations: commit next block (one in five with a reader querying while the commit is stopped before a tape-chosen disk call: a reported new height must be backed by an answerable block, header and transactions; now and then after the node synced a header for that height: the block's own or a competing block's), clean restart, crash at a tape-chosen mutating disk call inside the commit (optionally torn, optionally a second crash inside recovery, hash-file tail cut) followed by reopen and re-submission of the lost block; after every block (sampled on long chains) and as a full sweep after every restart/recovery and at the end, for every checked height GetBlockHash, GetBlockByHeight, GetBlockByHash, GetHeaderByHash, GetHeaderByHeight, GetRawHeaderByHash, IsContainBlock, and for every transaction GetTransaction (+height) and IsContainTransaction are compared byte for byte with the log; tip queries (current block hash/height, header height/hash) with the log's end; heights above the tip, random hashes, bit-flipped hashes, hashes of never committed blocks/transactions (including the block lost in a crash) and hashes used with the wrong kind of query must be reported absent. Long chains always check heights 0, 1, tip-2001..tip-1999, tip, every non-empty block and random samples. non-trivial = a clean restart or crash recovery happened after a block with at least two transactions was committed and the sweep after it ran; distinct = distinct event-trace hash",
		Real: []string{"core/store/ledgerstore (ledger store queries, block store + block/transaction cache, header index cache, loadHeaderIndexList, recoverStore, ExecuteBlock/SubmitBlock)", "core/types block/header/transaction codecs", "core/store/leveldbstore + goleveldb on SimDisk", "smartcontract + native ONT/ONG execution"},
		Stub: []string{"solo block producer (harness, as consensus/solo)", "disk: in-memory goleveldb storage with fail-stop/torn-write injection", "wasm JIT (stub archive)"},
		Assumptions: []string{
			"process-death model of C01 (completed writes survive, the write in flight may be torn); after a crash inside a commit the ledger may reopen at the old or the new height, the log follows what the ledger reports",
			"absent = an error or a nil/empty result; what is never acceptable is a result that belongs to another block or transaction",
			"a transaction is included in at most one block of a run (the transaction->height index is single-valued by design)",
		},
		ExpectedProbes: []string{"clean_restart", "crash_recovered_old_height", "crash_recovered_new_height", "long_chain", "window_crossed", "below_window_checked", "multi_tx_block_after_restart", "lost_block_absent", "full_sweep"},
		MaxShrinkRuns:  100,
		Run:            runC40,
	})
}

type c40Acct struct {
	acc  *account.Account
	addr common.Address
}

type c40Tx struct {
	hash common.Uint256
	raw  []byte
}

type c40Rec struct {
	blk  *types.Block
	hash common.Uint256
	raw  []byte
	hdr  []byte
	txs  []c40Tx
}

type c40Run struct {
	c     *simkit.Ctx
	t     *simkit.Tape
	ch    *world.Chain
	win   uint32    // header index window in force for this run (knob)
	recs  []*c40Rec // index = height
	accts []c40Acct
	nonce uint32
	ts    uint32
	long  bool
	sig   string // history class for failure signatures

	ghostBlocks []common.Uint256 // hashes of blocks built but never committed
	ghostTxs    []common.Uint256 // hashes of transactions never committed
	nonEmpty    []uint32

	multiTxCommitted, sweptAfterRestart bool
}

func c40HeaderBytes(h *types.Header) []byte {
	sink := common.NewZeroCopySink(nil)
	h.Serialization(sink)
	return sink.Bytes()
}

func c40Record(blk *types.Block) *c40Rec {
	r := &c40Rec{blk: blk, hash: blk.Hash(), raw: blk.ToArray(), hdr: c40HeaderBytes(blk.Header)}
	for _, tx := range blk.Transactions {
		r.txs = append(r.txs, c40Tx{tx.Hash(), tx.ToArray()})
	}
	return r
}

func runC40(c *simkit.Ctx) {
	c.Bubble(func() {
		t := c.Tape
		r := &c40Run{c: c, t: t, sig: "no-restart", win: ledgerstore.HEADER_INDEX_MAX_SIZE}
		// tuning knobs of the ledger store (hook H8): two thirds of the runs use small caches and a
		// small header index window, so the paths behind a cache miss run in ordinary short chains
		knobs := map[string]int{}
		if t.Prob(2, 3) {
			knobs["ledgerstore.blockCache"] = 1 + t.Choose(4)
			knobs["ledgerstore.transactionCache"] = 1 + t.Choose(8)
			knobs["ledgerstore.headerIndexMax"] = 2 + t.Choose(20)
			r.win = uint32(knobs["ledgerstore.headerIndexMax"])
			c.Probe("small_caches")
			c.Logf("knobs: block cache %d, transaction cache %d, header index window %d", knobs["ledgerstore.blockCache"], knobs["ledgerstore.transactionCache"], r.win)
		}
		simhook.KnobFn = func(name string, def int) int {
			if v, ok := knobs[name]; ok {
				return v
			}
			return def
		}
		c.Defer(func() { simhook.KnobFn = nil })
		r.ch = world.NewSoloChain(c, "node")
		c.Must(r.ch.Open(), "open")
		world.Quiesce()
		r.accts = []c40Acct{{r.ch.Book, r.ch.Book.Address}}
		for i := 0; i < 3; i++ {
			a := account.NewAccount("")
			r.accts = append(r.accts, c40Acct{a, a.Address})
		}
		r.nonce = 1
		r.ts = r.ch.Now
		r.recs = []*c40Rec{c40Record(r.ch.Gen)}

		longDen := 25
		if c.Tier == "thorough" {
			longDen = 6
		}
		nBlocks := 0
		if t.Prob(1, longDen) {
			r.long = true
			nBlocks = int(r.win) + 3 + t.Choose(98)
			c.Probe("long_chain")
		} else {
			nBlocks = t.Range(3, 3+t.Pick(6, 8, 4, 2)*10)
			if nBlocks > 60 {
				nBlocks = 60
			}
		}
		c.Logf("chain of %d blocks (long=%v)", nBlocks, r.long)
		crashesLeft := 3
		// long chains: restarts/crashes are concentrated where the window matters
		for len(r.recs)-1 < nBlocks {
			h := uint32(len(r.recs)) // height of the block to produce
			nearEdge := r.long && h+4 >= r.win
			blk := r.makeBlock()
			crash := false
			if crashesLeft > 0 {
				if r.long {
					crash = nearEdge && t.Prob(1, 60)
				} else {
					crash = t.Prob(1, 8)
				}
			}
			if crash {
				crashesLeft--
				r.commitWithCrash(blk, &crashesLeft)
			} else if !r.long && t.Prob(1, 5) {
				r.commitWithReader(blk)
			} else {
				if _, err := r.ch.Commit(blk); err != nil {
					c.Fail("block-rejected", r.sig, "ledger refuses its own block %d: %v", h, err)
				}
				r.appendRec(blk)
			}
			world.Quiesce()
			cur := uint32(len(r.recs) - 1)
			// ---- checks after the block
			if !r.long {
				r.checkHeight(cur, "after commit")
				r.checkTip("after commit")
				for k := 0; k < 2; k++ {
					r.checkHeight(uint32(t.Choose(int(cur)+1)), "after commit (sample)")
				}
				if t.Prob(1, 6) {
					r.sweep("after commit")
				}
			} else {
				win := r.win
				if cur+3 >= win && cur <= win+3 {
					c.Probe("window_crossed")
					r.checkEdges("crossing the header index window")
				}
				if len(blk.Transactions) > 0 || cur%97 == 0 {
					r.checkHeight(cur, "after commit")
					r.checkTip("after commit")
					r.checkEdges("after commit")
					r.checkHeight(uint32(t.Choose(int(cur)+1)), "after commit (sample)")
				}
				if cur%500 == 0 {
					c.Logf("height %d hash %x", cur, r.recs[cur].hash[:6])
				}
			}
			// ---- clean restart
			restart := false
			if r.long {
				restart = (nearEdge && t.Prob(1, 40)) || t.Prob(1, 1500)
			} else {
				restart = t.Prob(1, 9)
			}
			if restart {
				r.cleanRestart()
			}
		}
		r.sweep("end of chain")
		r.cleanRestart()
		if r.multiTxCommitted && r.sweptAfterRestart {
			c.NonTrivial()
		}
	})
}

func (r *c40Run) appendRec(blk *types.Block) {
	rec := c40Record(blk)
	r.recs = append(r.recs, rec)
	h := blk.Header.Height
	if len(rec.txs) > 0 {
		r.nonEmpty = append(r.nonEmpty, h)
	}
	if len(rec.txs) >= 2 {
		r.multiTxCommitted = true
		r.sweptAfterRestart = false // a restart after this block is what counts
	}
	if !r.long || len(rec.txs) > 0 {
		r.c.Logf("block %d txs=%d ts=%d", h, len(rec.txs), blk.Header.Timestamp)
	}
	r.c.State("blk", c40Bucket(h), len(rec.txs))
}

func c40Bucket(h uint32) uint32 {
	switch {
	case h < 16:
		return h
	case h < 1990:
		return 16 + h/64
	default:
		return 1000 + h
	}
}

func (r *c40Run) newTx() *types.Transaction {
	t := r.t
	from := r.accts[0]
	if t.Prob(1, 3) {
		from = r.accts[t.Choose(len(r.accts))]
	}
	to := r.accts[t.Choose(len(r.accts))]
	asset := "ont"
	if t.Prob(1, 4) {
		asset = "ong"
	}
	amt := uint64(1 + t.Choose(1000))
	m, err := world.TransferTx(asset, from.addr, to.addr, amt, 0, 20000, r.nonce, from.addr)
	r.c.Must(err, "build transfer")
	r.nonce++
	r.c.Must(world.Sign(m, from.acc), "sign")
	tx, err := world.Seal(m)
	r.c.Must(err, "seal")
	return tx
}

func (r *c40Run) makeBlock() *types.Block {
	t := r.t
	ntx := 0
	if r.long {
		if t.Prob(1, 24) {
			ntx = 1 + t.Choose(5)
		}
	} else {
		ntx = t.Pick(3, 3, 3, 2, 1, 1)
	}
	var txs []*types.Transaction
	for k := 0; k < ntx; k++ {
		txs = append(txs, r.newTx())
	}
	r.ts += uint32(1 + t.Choose(40))
	blk := r.ch.MakeBlock(txs, r.ts, uint64(r.nonce)<<8)
	// now and then: an alternative block / transaction that is never committed
	if t.Prob(1, 10) {
		ghost := r.ch.MakeBlock(txs, r.ts+1, uint64(r.nonce)<<8|1)
		r.ghostBlocks = append(r.ghostBlocks, ghost.Hash())
		gt := r.newTx()
		r.ghostTxs = append(r.ghostTxs, gt.Hash())
	}
	// header-first sync: before the block is committed the node has synced a header for
	// that height - the block's own, or the header of a competing proposal that lost
	if !r.long && t.Prob(1, 6) {
		hdr := blk.Header
		what := "its own header"
		if t.Bool() {
			hdr = r.ch.MakeBlock(txs, r.ts+2, uint64(r.nonce)<<8|2).Header
			what = "the header of a competing block"
		}
		if r.ch.Store.GetCurrentHeaderHeight() == r.ch.Store.GetCurrentBlockHeight() {
			err := r.ch.Store.AddHeaders([]*types.Header{hdr})
			r.c.Logf("height %d: %s synced before the block is committed -> err=%v", hdr.Height, what, err)
			if err == nil {
				r.c.Probe("header_synced_before_block")
			}
		}
	}
	return blk
}

// commitWithReader: a reader queries the ledger while the commit of blk is
// stopped right before a tape-chosen disk call (SimDisk.ArmPause). Whatever the
// reader is told about the tip must hold together: if the new height is
// already reported, the block, its header and its transactions must be
// answerable; the previous tip must answer as before.
func (r *c40Run) commitWithReader(blk *types.Block) {
	c, t, ch := r.c, r.t, r.ch
	world.Quiesce()
	prev := uint32(len(r.recs) - 1)
	reached, resume := ch.Disk.ArmPause(1 + t.Choose(12))
	errCh := make(chan error, 1)
	go func() {
		_, err := ch.Commit(blk)
		errCh <- err
	}()
	world.Quiesce()
	// a failing check must not unwind the run while the commit is still stopped:
	// the verdict is kept, the commit goes on to its end, then the verdict is raised
	var verdict interface{}
	func() {
		defer func() { verdict = recover() }()
		r.readerChecks(blk, prev, reached)
	}()
	resume()
	err := <-errCh
	if verdict != nil {
		panic(verdict)
	}
	if err != nil {
		c.Fail("block-rejected", r.sig, "ledger refuses its own block %d: %v", blk.Header.Height, err)
	}
	r.appendRec(blk)
}

func (r *c40Run) readerChecks(blk *types.Block, prev uint32, reached <-chan struct{}) {
	c, ch := r.c, r.ch
	select {
	case <-reached:
		c.Probe("reader_during_commit")
		cur := ch.Store.GetCurrentBlockHeight()
		switch cur {
		case prev:
			r.checkHeight(prev, "reader during commit (old tip)")
		case prev + 1:
			c.Probe("reader_saw_new_height_during_commit")
			r.recs = append(r.recs, c40Record(blk))
			r.checkHeight(cur, "reader during commit (new height already reported)")
			r.checkHeight(prev, "reader during commit (previous block)")
			r.recs = r.recs[:len(r.recs)-1]
		default:
			r.bad("tip-during-commit", "while block %d is being committed the ledger reports height %d", prev+1, cur)
		}
	default:
	}
}

// commitWithCrash is the crash/reopen protocol of C01 on a single ledger: the
// log follows the height the ledger reports after recovery.
func (r *c40Run) commitWithCrash(blk *types.Block, crashesLeft *int) {
	c, t, ch := r.c, r.t, r.ch
	// the sweeps read a lot: goleveldb may have started a seek-triggered table
	// compaction in the background; let it finish so that the numbering of the
	// commit's disk calls does not depend on the scheduler
	world.Quiesce()
	pre := ch.Height()
	preLen := ch.MerkleFileLen()
	k := 1 + t.Choose(8)
	torn := t.Choose(3) * 100
	ch.Disk.ArmCrash(k, torn)
	c.Logf("arm crash: %d-th disk call of commit of block %d, torn=%d/256", k, blk.Header.Height, torn)
	_, cerr := ch.Commit(blk)
	if !ch.Disk.Crashed() {
		ch.Disk.Disarm()
		if cerr != nil {
			c.Fail("block-rejected", r.sig, "ledger refuses its own block %d: %v", blk.Header.Height, cerr)
		}
		c.Logf("armed crash did not fire")
		r.appendRec(blk)
		return
	}
	info := ch.Disk.CrashInfo
	c.Fault("crash_in_commit")
	c.Logf("CRASH in commit of block %d at %s (commit err: %v)", blk.Header.Height, info, cerr)
	r.sig = "crash-in-commit"
	c40CloseCrashed(ch)
	world.Quiesce()
	ch.Disk.Restart()
	recCrash := *crashesLeft > 0 && t.Prob(1, 4)
	for attempt := 0; ; attempt++ {
		if attempt == 0 && strings.Contains(info, " block/write/") && t.Prob(1, 2) {
			cur := ch.MerkleFileLen()
			if cur > preLen {
				cut := preLen + int64(t.Choose(int(cur-preLen)))
				c.Must(os.Truncate(ch.MerklePath(), cut), "truncate hash file")
				c.Fault("torn_hashfile_append")
				c.Logf("hash file cut back from %d to %d (pre-block length %d)", cur, cut, preLen)
			}
		}
		var oerr error
		if recCrash && attempt == 0 {
			*crashesLeft--
			k := 1 + t.Choose(4)
			oerr = c40OpenSplit(ch, func() { ch.Disk.ArmCrash(k, t.Choose(3)*100) })
			if ch.Disk.Crashed() {
				c.Fault("crash_in_recovery")
				c.Logf("CRASH in recovery at %s (open err: %v)", ch.Disk.CrashInfo, oerr)
				r.sig = "crash-in-commit+crash-in-recovery"
				c40CloseCrashed(ch)
				world.Quiesce()
				ch.Disk.Restart()
				continue
			}
			ch.Disk.Disarm()
		} else {
			oerr = ch.Open()
		}
		if oerr != nil {
			c.Fail("reopen-fails", r.sig, "reopen after crash (%s) fails: %v", info, oerr)
		}
		break
	}
	world.Quiesce()
	h := ch.Height()
	c.Logf("reopened at height %d (before crash %d)", h, pre)
	switch h {
	case pre:
		c.Probe("crash_recovered_old_height")
		// the block in flight is lost: it must be reported absent
		r.sweep("after crash recovery (old height)")
		r.absentBlock(blk, "block lost in the crash")
		c.Probe("lost_block_absent")
		if _, err := ch.Commit(blk); err != nil {
			c.Fail("block-rejected", r.sig, "after recovery to height %d the ledger refuses block %d: %v", h, blk.Header.Height, err)
		}
		r.appendRec(blk)
		world.Quiesce()
		r.checkHeight(blk.Header.Height, "after re-submitting the lost block")
		r.checkTip("after re-submitting the lost block")
	case pre + 1:
		c.Probe("crash_recovered_new_height")
		r.appendRec(blk)
		r.sweep("after crash recovery (new height)")
	default:
		c.Fail("height-not-old-or-new", r.sig, "after a crash in the commit of %d the ledger reopens at %d", pre+1, h)
	}
	r.noteRestart()
}

func (r *c40Run) noteRestart() {
	if r.multiTxCommitted {
		r.sweptAfterRestart = true
		r.c.Probe("multi_tx_block_after_restart")
	}
}

func (r *c40Run) cleanRestart() {
	c, ch := r.c, r.ch
	c.Fault("clean_restart")
	c.Probe("clean_restart")
	ch.Close()
	world.Quiesce()
	ch.Disk.Restart()
	if r.sig == "no-restart" {
		r.sig = "clean-restart"
	}
	if err := ch.Open(); err != nil {
		c.Fail("reopen-fails", r.sig, "clean reopen at height %d fails: %v", len(r.recs)-1, err)
	}
	world.Quiesce()
	c.Logf("clean restart at height %d", len(r.recs)-1)
	r.sweep("after clean restart")
	r.noteRestart()
}

// ---------------------------------------------------------------- oracle

func (r *c40Run) bad(oracle, format string, a ...interface{}) {
	r.c.Fail(oracle, r.sig, format, a...)
}

// checkHeight compares every per-height query with the log.
func (r *c40Run) checkHeight(h uint32, where string) {
	st := r.ch.Store
	rec := r.recs[h]
	cur := uint32(len(r.recs) - 1)
	if cur >= r.win && h+r.win <= cur {
		r.c.Probe("below_window_checked")
	}
	if got := st.GetBlockHash(h); got != rec.hash {
		r.bad("hash-by-height", "%s (tip %d): GetBlockHash(%d) = %x, committed %x", where, cur, h, got, rec.hash)
	}
	blk, err := st.GetBlockByHeight(h)
	if err != nil || blk == nil {
		r.bad("block-by-height", "%s (tip %d): GetBlockByHeight(%d) = %v, %v", where, cur, h, blk, err)
	}
	if !bytes.Equal(blk.ToArray(), rec.raw) {
		r.bad("block-by-height", "%s (tip %d): GetBlockByHeight(%d) differs from the committed block: %s", where, cur, h, c40BlockDiff(blk, rec))
	}
	blk, err = st.GetBlockByHash(rec.hash)
	if err != nil || blk == nil {
		r.bad("block-by-hash", "%s (tip %d): GetBlockByHash(block %d) = %v, %v", where, cur, h, blk, err)
	}
	if !bytes.Equal(blk.ToArray(), rec.raw) {
		r.bad("block-by-hash", "%s (tip %d): GetBlockByHash(block %d) differs from the committed block: %s", where, cur, h, c40BlockDiff(blk, rec))
	}
	hd, err := st.GetHeaderByHash(rec.hash)
	if err != nil || hd == nil {
		r.bad("header-by-hash", "%s (tip %d): GetHeaderByHash(block %d) = %v, %v", where, cur, h, hd, err)
	}
	if !bytes.Equal(c40HeaderBytes(hd), rec.hdr) || hd.Hash() != rec.hash {
		r.bad("header-by-hash", "%s (tip %d): GetHeaderByHash(block %d) returns another header (height %d hash %x)", where, cur, h, hd.Height, hd.Hash())
	}
	hd, err = st.GetHeaderByHeight(h)
	if err != nil || hd == nil {
		r.bad("header-by-height", "%s (tip %d): GetHeaderByHeight(%d) = %v, %v", where, cur, h, hd, err)
	}
	if !bytes.Equal(c40HeaderBytes(hd), rec.hdr) {
		r.bad("header-by-height", "%s (tip %d): GetHeaderByHeight(%d) returns another header (height %d hash %x)", where, cur, h, hd.Height, hd.Hash())
	}
	rh, err := st.GetRawHeaderByHash(rec.hash)
	if err != nil || rh == nil {
		r.bad("raw-header-by-hash", "%s (tip %d): GetRawHeaderByHash(block %d) = %v, %v", where, cur, h, rh, err)
	}
	if rh.Height != h || !bytes.Equal(rh.Payload, rec.hdr) {
		r.bad("raw-header-by-hash", "%s (tip %d): GetRawHeaderByHash(block %d) returns height %d and %d payload bytes (committed %d)", where, cur, h, rh.Height, len(rh.Payload), len(rec.hdr))
	}
	if ok, err := st.IsContainBlock(rec.hash); err != nil || !ok {
		r.bad("contain-block", "%s (tip %d): IsContainBlock(block %d) = %v, %v", where, cur, h, ok, err)
	}
	for i, tx := range rec.txs {
		got, gh, err := st.GetTransaction(tx.hash)
		if err != nil || got == nil {
			r.bad("transaction-by-hash", "%s (tip %d): GetTransaction(tx %d of block %d) = %v, %v", where, cur, i, h, got, err)
		}
		if !bytes.Equal(got.ToArray(), tx.raw) || got.Hash() != tx.hash {
			r.bad("transaction-by-hash", "%s (tip %d): GetTransaction(tx %d of block %d) returns another transaction (%x)", where, cur, i, h, got.Hash())
		}
		if gh != h {
			r.bad("transaction-height", "%s (tip %d): GetTransaction(tx %d of block %d) reports height %d", where, cur, i, h, gh)
		}
		if ok, err := st.IsContainTransaction(tx.hash); err != nil || !ok {
			r.bad("contain-transaction", "%s (tip %d): IsContainTransaction(tx %d of block %d) = %v, %v", where, cur, i, h, ok, err)
		}
	}
}

func c40BlockDiff(blk *types.Block, rec *c40Rec) string {
	if blk.Hash() != rec.hash {
		return fmt.Sprintf("hash %x height %d", blk.Hash(), blk.Header.Height)
	}
	if !bytes.Equal(c40HeaderBytes(blk.Header), rec.hdr) {
		return "same hash, header bytes (signatures) differ"
	}
	if len(blk.Transactions) != len(rec.txs) {
		return fmt.Sprintf("%d transactions, committed %d", len(blk.Transactions), len(rec.txs))
	}
	for i, tx := range blk.Transactions {
		if tx.Hash() != rec.txs[i].hash {
			return fmt.Sprintf("transaction %d is %x, committed %x", i, tx.Hash(), rec.txs[i].hash)
		}
		if !bytes.Equal(tx.ToArray(), rec.txs[i].raw) {
			return fmt.Sprintf("transaction %d has other bytes", i)
		}
	}
	return "bytes differ"
}

func (r *c40Run) checkTip(where string) {
	st := r.ch.Store
	cur := uint32(len(r.recs) - 1)
	last := r.recs[cur]
	if got := st.GetCurrentBlockHeight(); got != cur {
		r.bad("tip", "%s: GetCurrentBlockHeight = %d, committed %d", where, got, cur)
	}
	if got := st.GetCurrentBlockHash(); got != last.hash {
		r.bad("tip", "%s: GetCurrentBlockHash = %x, committed %x", where, got, last.hash)
	}
	gh, ghash := st.GetCurrentBlock()
	if gh != cur || ghash != last.hash {
		r.bad("tip", "%s: GetCurrentBlock = %d/%x, committed %d/%x", where, gh, ghash, cur, last.hash)
	}
	if got := st.GetCurrentHeaderHeight(); got != cur {
		r.bad("tip", "%s: GetCurrentHeaderHeight = %d, committed %d", where, got, cur)
	}
	if got := st.GetCurrentHeaderHash(); got != last.hash {
		r.bad("tip", "%s: GetCurrentHeaderHash = %x, committed %x", where, got, last.hash)
	}
	// above the tip
	for _, d := range []uint32{1, 2, 1 + uint32(r.t.Choose(5000)), r.win, ^uint32(0) - cur} {
		h := cur + d
		if got := st.GetBlockHash(h); got != common.UINT256_EMPTY {
			r.bad("unknown-reported-present", "%s: GetBlockHash(%d) above the tip %d = %x", where, h, cur, got)
		}
		if blk, err := st.GetBlockByHeight(h); err == nil && blk != nil {
			r.bad("unknown-reported-present", "%s: GetBlockByHeight(%d) above the tip %d returns block %x", where, h, cur, blk.Hash())
		}
		if hd, err := st.GetHeaderByHeight(h); err == nil && hd != nil {
			r.bad("unknown-reported-present", "%s: GetHeaderByHeight(%d) above the tip %d returns header %x", where, h, cur, hd.Hash())
		}
	}
}

// absentHash: nothing may be returned for a hash that names no committed
// block and no committed transaction.
func (r *c40Run) absentHash(x common.Uint256, what string) {
	st := r.ch.Store
	if blk, err := st.GetBlockByHash(x); err == nil && blk != nil {
		r.bad("unknown-reported-present", "GetBlockByHash(%s) returns block %d/%x", what, blk.Header.Height, blk.Hash())
	}
	if hd, err := st.GetHeaderByHash(x); err == nil && hd != nil {
		r.bad("unknown-reported-present", "GetHeaderByHash(%s) returns header %d/%x", what, hd.Height, hd.Hash())
	}
	if rh, err := st.GetRawHeaderByHash(x); err == nil && rh != nil {
		r.bad("unknown-reported-present", "GetRawHeaderByHash(%s) returns a header of height %d", what, rh.Height)
	}
	if ok, err := st.IsContainBlock(x); err == nil && ok {
		r.bad("unknown-reported-present", "IsContainBlock(%s) = true", what)
	}
	if tx, h, err := st.GetTransaction(x); err == nil && tx != nil {
		r.bad("unknown-reported-present", "GetTransaction(%s) returns transaction %x at height %d", what, tx.Hash(), h)
	}
	if ok, err := st.IsContainTransaction(x); err == nil && ok {
		r.bad("unknown-reported-present", "IsContainTransaction(%s) = true", what)
	}
}

func (r *c40Run) absentBlock(blk *types.Block, what string) {
	r.absentHash(blk.Hash(), what)
	for i, tx := range blk.Transactions {
		r.absentHash(tx.Hash(), fmt.Sprintf("transaction %d of the %s", i, what))
	}
}

func (r *c40Run) checkUnknown() {
	t := r.t
	st := r.ch.Store
	var x common.Uint256
	copy(x[:], t.Bytes(32))
	r.absentHash(x, "random hash")
	r.absentHash(common.UINT256_EMPTY, "zero hash")
	cur := len(r.recs) - 1
	rec := r.recs[t.Choose(cur+1)]
	f := rec.hash
	f[t.Choose(32)] ^= 1 << uint(t.Choose(8))
	r.absentHash(f, "block hash with one bit flipped")
	for _, g := range r.ghostBlocks {
		r.absentHash(g, "hash of a block that was built but never committed")
	}
	for _, g := range r.ghostTxs {
		r.absentHash(g, "hash of a transaction that was never committed")
	}
	// wrong kind of query for a known hash
	if tx, h, err := st.GetTransaction(rec.hash); err == nil && tx != nil {
		r.bad("unknown-reported-present", "GetTransaction(hash of block %d) returns transaction %x at height %d", rec.blk.Header.Height, tx.Hash(), h)
	}
	if ok, err := st.IsContainTransaction(rec.hash); err == nil && ok {
		r.bad("unknown-reported-present", "IsContainTransaction(hash of block %d) = true", rec.blk.Header.Height)
	}
	if len(r.nonEmpty) > 0 {
		nr := r.recs[r.nonEmpty[t.Choose(len(r.nonEmpty))]]
		th := nr.txs[t.Choose(len(nr.txs))].hash
		if blk, err := st.GetBlockByHash(th); err == nil && blk != nil {
			r.bad("unknown-reported-present", "GetBlockByHash(transaction hash) returns block %d", blk.Header.Height)
		}
		if hd, err := st.GetHeaderByHash(th); err == nil && hd != nil {
			r.bad("unknown-reported-present", "GetHeaderByHash(transaction hash) returns header %d", hd.Height)
		}
		if ok, err := st.IsContainBlock(th); err == nil && ok {
			r.bad("unknown-reported-present", "IsContainBlock(transaction hash) = true")
		}
	}
}

// checkEdges checks the heights around the lower edge of the header index window.
func (r *c40Run) checkEdges(where string) {
	cur := uint32(len(r.recs) - 1)
	win := r.win
	for _, d := range []uint32{win + 1, win, win - 1} {
		if cur >= d {
			r.checkHeight(cur-d, where+" (window edge)")
		}
	}
}

// sweep checks every height (short chains) or the mandatory heights, every
// non-empty block and random samples (long chains).
func (r *c40Run) sweep(where string) {
	t := r.t
	cur := uint32(len(r.recs) - 1)
	r.c.Probe("full_sweep")
	r.checkTip(where)
	if !r.long {
		for h := uint32(0); h <= cur; h++ {
			r.checkHeight(h, where)
		}
	} else {
		r.checkHeight(0, where)
		if cur >= 1 {
			r.checkHeight(1, where)
		}
		r.checkEdges(where)
		r.checkHeight(cur, where)
		for _, h := range r.nonEmpty {
			r.checkHeight(h, where)
		}
		for k := 0; k < 24; k++ {
			r.checkHeight(uint32(t.Choose(int(cur)+1)), where+" (sample)")
		}
		for k := uint32(1); k <= 12 && k <= cur; k++ { // the blocks a block cache would still hold, and the ones just past it
			r.checkHeight(cur-k, where)
		}
	}
	r.checkUnknown()
	r.c.Logf("sweep %s: tip %d ok", where, cur)
}
