package props

import (
	"fmt"
	"reflect"
	"unsafe"

	"github.com/ontio/ontology-crypto/keypair"
	"github.com/ontio/ontology/core/ledger"
	"github.com/ontio/ontology/core/store/ledgerstore"

	"ontosim/world"
)

// LedgerStoreImp.Close returns at the first store whose Close reports an error
// (goleveldb reports the persistent error of a failed table/journal write on
// Close), which leaves the remaining databases of a crashed process image open
// and their goroutines in the bubble. The image of a dead process must simply
// go away: close every store of the dead ledger individually.
func c40CloseAllStores(st *ledgerstore.LedgerStoreImp) {
	if st == nil {
		return
	}
	func() {
		defer func() { recover() }()
		st.Close()
	}()
	v := reflect.ValueOf(st).Elem()
	for _, name := range []string{"blockStore", "eventStore", "crossChainStore", "stateStore"} {
		f := v.FieldByName(name)
		if !f.IsValid() || f.IsNil() {
			continue
		}
		x := reflect.NewAt(f.Type(), unsafe.Pointer(f.UnsafeAddr())).Elem().Interface()
		if cl, ok := x.(interface{ Close() error }); ok {
			func() {
				defer func() { recover() }()
				cl.Close()
			}()
		}
	}
}

// c40CloseCrashed disposes of the ledger of a crashed process.
func c40CloseCrashed(ch *world.Chain) {
	st := ch.Store
	ch.Close()
	c40CloseAllStores(st)
}

// c40OpenSplit is world.Chain.OpenSplit (callback between opening the
// databases and the ledger's initialisation/recovery) that disposes of every
// store when the initialisation dies.
func c40OpenSplit(ch *world.Chain, between func()) error {
	if ch.Store != nil {
		return fmt.Errorf("already open")
	}
	st, err := ledgerstore.NewLedgerStore(ch.Dir, 0)
	if err != nil {
		return err
	}
	ch.Opens++
	world.Quiesce() // compactions started by opening the databases finish before disk calls are numbered
	if between != nil {
		between()
	}
	err = st.InitLedgerStoreWithGenesisBlock(ch.Gen, []keypair.PublicKey{ch.Book.PublicKey})
	if err != nil {
		c40CloseAllStores(st)
		return err
	}
	ch.Store = st
	ch.Ledger = &ledger.Ledger{LedgerStore: st}
	ledger.DefLedger = ch.Ledger
	return nil
}
