package props

import (
	"fmt"
	"math/big"

	ethcomm "github.com/ethereum/go-ethereum/common"
	"github.com/ethereum/go-ethereum/crypto"
	"github.com/ontio/ontology/core/store/leveldbstore"
	"github.com/ontio/ontology/core/store/overlaydb"
	"github.com/ontio/ontology/core/types"
	"github.com/ontio/ontology/smartcontract/service/native/ong"
	"github.com/ontio/ontology/smartcontract/storage"

	"ontosim/simkit"
)

// C08: after RevertToSnapshot every storage slot, nonce, code, ONG balance,
// log list, refund counter and self-destruct mark reads exactly as it did when
// the snapshot was taken, for any nesting of snapshots and reverts.
func init() {
	simkit.Register(&simkit.Prop{
		ID:   "C08",
		Desc: "EVM StateDB: nested Snapshot/RevertToSnapshot/DiscardSnapshot restore exactly the observable state",
		Rule: "a run = a real StateDB (CacheDB over OverlayDB over in-memory LevelDB, real ONG balance handle) driven through 1..3 transactions: a setup phase of mutations that is committed to the overlay and (tape) flushed to LevelDB, then up to 120 tape-chosen operations SetState/SetNonce/SetCode/AddBalance/SubBalance/Suicide/AddLog/AddRefund/SubRefund/CreateAccount interleaved with Snapshot / RevertToSnapshot / DiscardSnapshot (depth <= 6, also non-top targets) and transaction commits, over 4 addresses x 6 slots, per-run swarm weights. Oracle 1 (the statement): the readings of all getters recorded when a snapshot was taken must be read again after reverting to it. Oracle 2: a stack of deep-copied model states; after every revert/discard/commit/snapshot and one op in three all getters equal the model, after every op the getters of the touched address do. Non-trivial = at least one revert to a snapshot after which at least two mutations of different kinds had happened, at nesting depth >= 2 at some point; distinct = distinct event-trace hash",
		Real: []string{"smartcontract/storage StateDB + CacheDB", "core/store/overlaydb (MemDB.DeepClone, OverlayDB)", "smartcontract/service/native/ong OngBalanceHandle + core/states NativeTokenBalance", "core/store/leveldbstore + goleveldb (in-memory storage)"},
		Stub: []string{"no EVM interpreter: the harness plays the interpreter that calls the StateDB interface"},
		Assumptions: []string{
			"snapshot ids are used with stack discipline as vm/evm does: reverting to or discarding id k invalidates every id >= k",
			"SubRefund is never called with more than the current refund (documented panic); SubBalance beyond the balance is generated rarely and is a no-op that only sets the sticky db error",
			"forward semantics of the model (what a mutation does) follow statedb.go; only the revert oracle is the property statement, a model disagreement on the unchanged tree would be a harness defect or a separate finding",
		},
		ExpectedProbes: []string{"c08_revert_top", "c08_revert_non_top", "c08_discard_top", "c08_discard_non_top", "c08_depth_6", "c08_revert_undoes_suicide", "c08_revert_undoes_logs", "c08_revert_undoes_refund", "c08_revert_undoes_storage", "c08_revert_undoes_code", "c08_revert_undoes_nonce", "c08_revert_undoes_balance", "c08_revert_over_committed", "c08_revert_over_leveldb", "c08_commit_with_suicide", "c08_sub_balance_underflow", "c08_suicide_refused", "c08_revert_after_revert"},
		Run:            runC08,
	})
}

const (
	c08NAddr = 4
	c08NSlot = 6
)

var (
	c08Addrs = [c08NAddr]ethcomm.Address{
		ethcomm.HexToAddress("0xa000000000000000000000000000000000000001"),
		ethcomm.HexToAddress("0xa000000000000000000000000000000000000002"),
		ethcomm.HexToAddress("0xa0000000000000000000000000000000000002ff"),
		ethcomm.HexToAddress("0xffffffffffffffffffffffffffffffffffffffff"),
	}
	c08Slots = [c08NSlot]ethcomm.Hash{
		{},
		ethcomm.BigToHash(big.NewInt(1)),
		ethcomm.BigToHash(big.NewInt(2)),
		ethcomm.HexToHash("0xffffffffffffffffffffffffffffffffffffffffffffffffffffffffffffffff"),
		ethcomm.HexToHash("0xff00000000000000000000000000000000000000000000000000000000000000"),
		ethcomm.HexToHash("0x00000000000000000000000000000000000000000000000000000000000001ff"),
	}
	c08Codes = [][]byte{{}, {0x60, 0x00}, {0x60, 0x01, 0x60, 0x02, 0x01}, []byte("a longer piece of contract code, shared by several accounts, 0123456789")}
)

type c08Acct struct {
	nonce    uint64
	codeHash ethcomm.Hash
}

func (a c08Acct) empty() bool { return a.nonce == 0 && a.codeHash == ethcomm.Hash{} }

type c08Log struct {
	addr int
	id   int
}

// c08State is the reference model of everything the getters can observe.
type c08State struct {
	storage   [c08NAddr][c08NSlot]ethcomm.Hash // transaction-visible storage
	committed [c08NAddr][c08NSlot]ethcomm.Hash // what GetCommittedState reads (overlay + leveldb)
	acct      [c08NAddr]c08Acct
	codes     map[ethcomm.Hash][]byte
	bal       [c08NAddr]*big.Int
	suicided  [c08NAddr]bool
	logs      []c08Log
	refund    uint64
}

func c08NewState() *c08State {
	s := &c08State{codes: map[ethcomm.Hash][]byte{}}
	for i := range s.bal {
		s.bal[i] = new(big.Int)
	}
	return s
}

func (s *c08State) clone() *c08State {
	n := *s
	n.codes = map[ethcomm.Hash][]byte{}
	for k, v := range s.codes {
		n.codes[k] = append([]byte(nil), v...)
	}
	for i := range s.bal {
		n.bal[i] = new(big.Int).Set(s.bal[i])
	}
	n.logs = append([]c08Log(nil), s.logs...)
	return &n
}

func c08MkLog(l c08Log) *types.StorageLog {
	return &types.StorageLog{
		Address: c08Addrs[l.addr],
		Topics:  []ethcomm.Hash{ethcomm.BigToHash(big.NewInt(int64(l.id)))},
		Data:    []byte(fmt.Sprintf("log-%d", l.id)),
	}
}

func c08LogStr(l *types.StorageLog) string {
	if l == nil {
		return "<nil>"
	}
	return fmt.Sprintf("%x/%x/%s", l.Address[:], l.Topics, l.Data)
}

// c08Reading is one getter reading, name = value.
type c08Reading struct{ name, val string }

// render lists what the model says every getter returns (address subset: all if a<0).
func (s *c08State) render(only int) []c08Reading {
	var out []c08Reading
	add := func(n string, v interface{}) { out = append(out, c08Reading{n, fmt.Sprint(v)}) }
	for a := 0; a < c08NAddr; a++ {
		if only >= 0 && a != only {
			continue
		}
		ac := s.acct[a]
		add(fmt.Sprintf("GetNonce(a%d)", a), ac.nonce)
		add(fmt.Sprintf("GetCodeHash(a%d)", a), ac.codeHash.Hex())
		code := []byte(nil)
		if ac.codeHash != (ethcomm.Hash{}) {
			code = s.codes[ac.codeHash]
		}
		add(fmt.Sprintf("GetCode(a%d)", a), fmt.Sprintf("%x", code))
		add(fmt.Sprintf("GetCodeSize(a%d)", a), len(code))
		add(fmt.Sprintf("GetBalance(a%d)", a), s.bal[a].String())
		add(fmt.Sprintf("HasSuicided(a%d)", a), s.suicided[a])
		add(fmt.Sprintf("Exist(a%d)", a), s.suicided[a] || !ac.empty() || s.bal[a].Sign() > 0)
		add(fmt.Sprintf("Empty(a%d)", a), ac.empty() && s.bal[a].Sign() == 0)
		for k := 0; k < c08NSlot; k++ {
			add(fmt.Sprintf("GetState(a%d,s%d)", a, k), s.storage[a][k].Hex())
			add(fmt.Sprintf("GetCommittedState(a%d,s%d)", a, k), s.committed[a][k].Hex())
		}
	}
	add("GetRefund()", s.refund)
	add("GetLogs()#len", len(s.logs))
	for i, l := range s.logs {
		add(fmt.Sprintf("GetLogs()[%d]", i), c08LogStr(c08MkLog(l)))
	}
	return out
}

// c08Observe reads every getter of the real StateDB in the same order as render.
func c08Observe(sdb *storage.StateDB, only int) []c08Reading {
	var out []c08Reading
	add := func(n string, v interface{}) { out = append(out, c08Reading{n, fmt.Sprint(v)}) }
	for a := 0; a < c08NAddr; a++ {
		if only >= 0 && a != only {
			continue
		}
		ad := c08Addrs[a]
		add(fmt.Sprintf("GetNonce(a%d)", a), sdb.GetNonce(ad))
		add(fmt.Sprintf("GetCodeHash(a%d)", a), sdb.GetCodeHash(ad).Hex())
		add(fmt.Sprintf("GetCode(a%d)", a), fmt.Sprintf("%x", sdb.GetCode(ad)))
		add(fmt.Sprintf("GetCodeSize(a%d)", a), sdb.GetCodeSize(ad))
		add(fmt.Sprintf("GetBalance(a%d)", a), sdb.GetBalance(ad).String())
		add(fmt.Sprintf("HasSuicided(a%d)", a), sdb.HasSuicided(ad))
		add(fmt.Sprintf("Exist(a%d)", a), sdb.Exist(ad))
		add(fmt.Sprintf("Empty(a%d)", a), sdb.Empty(ad))
		for k := 0; k < c08NSlot; k++ {
			add(fmt.Sprintf("GetState(a%d,s%d)", a, k), sdb.GetState(ad, c08Slots[k]).Hex())
			add(fmt.Sprintf("GetCommittedState(a%d,s%d)", a, k), sdb.GetCommittedState(ad, c08Slots[k]).Hex())
		}
	}
	add("GetRefund()", sdb.GetRefund())
	logs := sdb.GetLogs()
	add("GetLogs()#len", len(logs))
	for i, l := range logs {
		add(fmt.Sprintf("GetLogs()[%d]", i), c08LogStr(l))
	}
	return out
}

func c08Diff(got, want []c08Reading) string {
	for i := 0; i < len(got) || i < len(want); i++ {
		switch {
		case i >= len(got):
			return fmt.Sprintf("%s missing (want %s)", want[i].name, want[i].val)
		case i >= len(want):
			return fmt.Sprintf("unexpected %s = %s", got[i].name, got[i].val)
		case got[i].name != want[i].name:
			return fmt.Sprintf("reads %s = %s where %s = %s was expected", got[i].name, got[i].val, want[i].name, want[i].val)
		case got[i].val != want[i].val:
			return fmt.Sprintf("%s = %s, expected %s", got[i].name, got[i].val, want[i].val)
		}
	}
	return ""
}

// c08Getter strips the arguments: "GetState(a1,s2)" -> "GetState".
func c08Getter(d string) string {
	for i := 0; i < len(d); i++ {
		if d[i] == '(' || d[i] == ' ' {
			return d[:i]
		}
	}
	return d
}

type c08Snap struct {
	id    int
	state *c08State
	obs   []c08Reading
	kinds map[int]bool // mutation kinds applied since this snapshot was taken
	nmut  int
	onCom bool // some slot had committed (overlay) content when it was taken
	onLdb bool
}

type c08Run struct {
	c     *simkit.Ctx
	t     *simkit.Tape
	store *leveldbstore.LevelDBStore
	ov    *overlaydb.OverlayDB
	cache *storage.CacheDB
	sdb   *storage.StateDB
	m     *c08State
	stack []*c08Snap
	logID int
	txNo  int
	// bookkeeping
	underflow    bool
	hasCommitted bool
	hasLevelDB   bool
	maxDepth     int
	goodRevert   bool
	justReverted bool
}

const (
	c08SetState = iota
	c08SetNonce
	c08SetCode
	c08AddBalance
	c08SubBalance
	c08Suicide
	c08AddLog
	c08AddRefund
	c08SubRefund
	c08CreateAccount
	c08Snapshot
	c08Revert
	c08Discard
	c08Commit
	c08Check
	c08NKinds
)

func runC08(c *simkit.Ctx) {
	c.Bubble(func() {
		t := c.Tape
		r := &c08Run{c: c, t: t, m: c08NewState()}
		r.store = leveldbstore.NewMemLevelDBStore()
		c.Defer(func() { r.store.Close() })
		r.ov = overlaydb.NewOverlayDB(r.store)
		r.cache = storage.NewCacheDB(r.ov)
		r.newTx()

		// ---- setup: state that is committed before the snapshots start
		nSetup := t.Range(0, 12)
		for i := 0; i < nSetup; i++ {
			r.mutate(t.Pick(5, 2, 2, 3, 1, 1))
		}
		if nSetup > 0 {
			r.commit()
		}

		// ---- swarm weights
		mul := func(base int) int { return base * []int{1, 0, 3}[t.Pick(4, 1, 1)] }
		w := [c08NKinds]int{}
		w[c08SetState], w[c08SetNonce], w[c08SetCode] = 8, mul(3), mul(3)
		w[c08AddBalance], w[c08SubBalance], w[c08Suicide] = mul(3), mul(2), mul(2)
		w[c08AddLog], w[c08AddRefund], w[c08SubRefund], w[c08CreateAccount] = mul(2), mul(2), mul(1), mul(1)
		w[c08Snapshot], w[c08Revert], w[c08Discard] = 7, 5, mul(2)
		w[c08Commit], w[c08Check] = mul(1), 1
		nOps := 1 + t.Choose([]int{15, 50, 120}[t.Pick(3, 4, 2)])
		for i := 0; i < nOps; i++ {
			ww := w
			if len(r.stack) == 0 {
				ww[c08Revert], ww[c08Discard] = 0, 0
			}
			if len(r.stack) >= 6 {
				ww[c08Snapshot] = 0
			}
			if r.txNo >= 3 {
				ww[c08Commit] = 0
			}
			kind := t.Pick(ww[:]...)
			switch kind {
			case c08Snapshot:
				r.snapshot()
			case c08Revert:
				r.revert()
			case c08Discard:
				r.discard()
			case c08Commit:
				r.commit()
			case c08Check:
				r.fullCheck("check")
			default:
				r.mutate(kind)
				if t.Prob(1, 3) {
					r.fullCheck("after-op")
				}
			}
		}
		r.fullCheck("end")
		// unwind what is left, innermost first or straight to the bottom
		for len(r.stack) > 0 {
			r.revert()
		}
		err := r.sdb.DbErr()
		if err != nil && !r.underflow {
			c.Fail("db-error", "healthy-store", "StateDB reports a database error on a healthy store: %v", err)
		}
		if r.goodRevert && r.maxDepth >= 2 {
			c.NonTrivial()
		}
	})
}

func (r *c08Run) newTx() {
	r.txNo++
	th := ethcomm.BigToHash(big.NewInt(int64(r.txNo)))
	r.sdb = storage.NewStateDB(r.cache, th, ethcomm.Hash{}, ong.OngBalanceHandle{})
	r.m.logs = nil
	r.m.refund = 0
	r.stack = nil
}

func (r *c08Run) note(kind int) {
	for _, s := range r.stack {
		s.kinds[kind] = true
		s.nmut++
	}
	r.justReverted = false
}

// mutate applies one mutation of the given kind to the real StateDB and the model.
func (r *c08Run) mutate(kind int) {
	t, c, m := r.t, r.c, r.m
	a := t.Choose(c08NAddr)
	ad := c08Addrs[a]
	switch kind {
	case c08SetState:
		k := t.Choose(c08NSlot)
		var v ethcomm.Hash
		switch t.Pick(2, 4, 2, 1) {
		case 1:
			v = ethcomm.BigToHash(big.NewInt(int64(1 + t.Choose(250))))
		case 2:
			v = crypto.Keccak256Hash([]byte{byte(t.Choose(256))})
		case 3:
			v = m.committed[a][k] // write the committed value back
		}
		r.sdb.SetState(ad, c08Slots[k], v)
		m.storage[a][k] = v
		c.Logf("SetState(a%d,s%d,%x)", a, k, v[28:])
	case c08SetNonce:
		n := []uint64{0, 1, 2, 1 << 40, ^uint64(0)}[t.Pick(2, 3, 3, 1, 1)]
		if n == 2 {
			n = m.acct[a].nonce + 1
		}
		r.sdb.SetNonce(ad, n)
		m.acct[a].nonce = n
		c.Logf("SetNonce(a%d,%d)", a, n)
	case c08SetCode:
		ci := t.Choose(len(c08Codes))
		code := c08Codes[ci]
		r.sdb.SetCode(ad, code)
		h := crypto.Keccak256Hash(code)
		m.acct[a].codeHash = h
		m.codes[h] = append([]byte(nil), code...)
		c.Logf("SetCode(a%d,code%d)", a, ci)
	case c08AddBalance:
		amt := r.amount()
		r.sdb.AddBalance(ad, amt)
		m.bal[a].Add(m.bal[a], amt)
		c.Logf("AddBalance(a%d,%s)", a, amt)
	case c08SubBalance:
		amt := new(big.Int)
		switch t.Pick(2, 3, 3, 2, 1) {
		case 1:
			amt.Set(m.bal[a])
		case 2:
			amt.Rsh(m.bal[a], 1)
		case 3:
			if m.bal[a].Sign() > 0 {
				amt.SetInt64(1)
			}
		case 4:
			amt.Add(m.bal[a], big.NewInt(1))
			r.underflow = true
			c.Probe("c08_sub_balance_underflow")
		}
		r.sdb.SubBalance(ad, amt)
		if amt.Cmp(m.bal[a]) <= 0 {
			m.bal[a].Sub(m.bal[a], amt)
		}
		c.Logf("SubBalance(a%d,%s)", a, amt)
	case c08Suicide:
		ok := r.sdb.Suicide(ad)
		want := !m.acct[a].empty()
		c.Logf("Suicide(a%d) -> %v", a, ok)
		if want {
			m.suicided[a] = true
			m.bal[a].SetInt64(0)
		} else {
			c.Probe("c08_suicide_refused")
		}
		if ok != want {
			c.Fail("getter-differs-from-model", "Suicide", "Suicide(a%d) returns %v, model (account empty=%v) says %v", a, ok, m.acct[a].empty(), want)
		}
	case c08AddLog:
		r.logID++
		l := c08Log{a, r.logID}
		r.sdb.AddLog(c08MkLog(l))
		m.logs = append(m.logs, l)
		c.Logf("AddLog(a%d,#%d)", a, r.logID)
	case c08AddRefund:
		g := uint64(1 + t.Choose(5000))
		r.sdb.AddRefund(g)
		m.refund += g
		c.Logf("AddRefund(%d)", g)
	case c08SubRefund:
		g := uint64(0)
		if m.refund > 0 {
			g = 1 + uint64(t.Choose(int(m.refund%100000)))
			if g > m.refund {
				g = m.refund
			}
		}
		r.sdb.SubRefund(g)
		m.refund -= g
		c.Logf("SubRefund(%d)", g)
	case c08CreateAccount:
		r.sdb.CreateAccount(ad)
		c.Logf("CreateAccount(a%d)", a)
	default:
		c.Harness("mutate: unknown kind %d", kind)
	}
	r.note(kind)
	// the touched address (and the global counters) read as the model says
	if d := c08Diff(c08Observe(r.sdb, a), m.render(a)); d != "" {
		c.Fail("getter-differs-from-model", "after-op/"+c08Getter(d), "after the last operation: %s", d)
	}
}

func (r *c08Run) amount() *big.Int {
	t := r.t
	switch t.Pick(1, 3, 3, 2, 2) {
	case 1:
		return big.NewInt(int64(1 + t.Choose(9)))
	case 2:
		return new(big.Int).Mul(big.NewInt(int64(1+t.Choose(50))), big.NewInt(1000000000))
	case 3:
		return big.NewInt(int64(t.Choose(1 << 30)))
	case 4:
		return new(big.Int).Mul(big.NewInt(int64(1+t.Choose(1<<20))), big.NewInt(999999937))
	}
	return new(big.Int)
}

func (r *c08Run) fullCheck(when string) []c08Reading {
	obs := c08Observe(r.sdb, -1)
	if d := c08Diff(obs, r.m.render(-1)); d != "" {
		r.c.Fail("getter-differs-from-model", when+"/"+c08Getter(d), "%s: %s", when, d)
	}
	r.c.State(r.m.acct, r.m.storage, r.m.suicided, r.m.refund, len(r.m.logs), len(r.stack))
	return obs
}

func (r *c08Run) snapshot() {
	id := r.sdb.Snapshot()
	obs := r.fullCheck("at-snapshot")
	sn := &c08Snap{id: id, state: r.m.clone(), obs: obs, kinds: map[int]bool{}, onCom: r.hasCommitted, onLdb: r.hasLevelDB}
	r.stack = append(r.stack, sn)
	if len(r.stack) > r.maxDepth {
		r.maxDepth = len(r.stack)
	}
	if len(r.stack) == 6 {
		r.c.Probe("c08_depth_6")
	}
	r.c.Logf("Snapshot() -> %d (depth %d)", id, len(r.stack))
}

func (r *c08Run) pickLevel() int {
	top := len(r.stack) - 1
	if top > 0 && r.t.Prob(1, 4) {
		return top - 1 - r.t.Choose(top)
	}
	return top
}

func (r *c08Run) revert() {
	k := r.pickLevel()
	sn := r.stack[k]
	if k == len(r.stack)-1 {
		r.c.Probe("c08_revert_top")
	} else {
		r.c.Probe("c08_revert_non_top")
	}
	if r.justReverted {
		r.c.Probe("c08_revert_after_revert")
	}
	r.c.Logf("RevertToSnapshot(%d) (level %d of %d, %d mutations since)", sn.id, k, len(r.stack), sn.nmut)
	r.sdb.RevertToSnapshot(sn.id)
	r.m = sn.state
	r.stack = r.stack[:k]
	// the statement: everything reads exactly as when the snapshot was taken
	obs := c08Observe(r.sdb, -1)
	if d := c08Diff(obs, sn.obs); d != "" {
		r.c.Fail("revert-not-exact", c08Getter(d), "after RevertToSnapshot(%d): %s (the value read when the snapshot was taken)", sn.id, d)
	}
	if d := c08Diff(obs, r.m.render(-1)); d != "" {
		r.c.Fail("getter-differs-from-model", "after-revert/"+c08Getter(d), "after RevertToSnapshot(%d): %s", sn.id, d)
	}
	for _, kn := range []struct {
		kind int
		name string
	}{{c08Suicide, "suicide"}, {c08AddLog, "logs"}, {c08AddRefund, "refund"}, {c08SetState, "storage"}, {c08SetCode, "code"}, {c08SetNonce, "nonce"}, {c08AddBalance, "balance"}} {
		if sn.kinds[kn.kind] {
			r.c.Probe("c08_revert_undoes_" + kn.name)
		}
	}
	if sn.onCom && sn.kinds[c08SetState] {
		r.c.Probe("c08_revert_over_committed")
	}
	if sn.onLdb && sn.kinds[c08SetState] {
		r.c.Probe("c08_revert_over_leveldb")
	}
	if len(sn.kinds) >= 2 {
		r.goodRevert = true
	}
	r.justReverted = true
}

func (r *c08Run) discard() {
	k := r.pickLevel()
	sn := r.stack[k]
	if k == len(r.stack)-1 {
		r.c.Probe("c08_discard_top")
	} else {
		r.c.Probe("c08_discard_non_top")
	}
	r.c.Logf("DiscardSnapshot(%d) (level %d of %d)", sn.id, k, len(r.stack))
	r.sdb.DiscardSnapshot(sn.id)
	r.stack = r.stack[:k]
	r.fullCheck("after-discard")
}

// commit ends the transaction: StateDB.Commit (suicides are executed, the
// transaction cache goes to the overlay), optionally the overlay is written to
// LevelDB, and a new StateDB starts the next transaction.
func (r *c08Run) commit() {
	m := r.m
	nsui := 0
	for a := 0; a < c08NAddr; a++ {
		if m.suicided[a] {
			nsui++
			m.acct[a] = c08Acct{}
			m.storage[a] = [c08NSlot]ethcomm.Hash{}
			m.suicided[a] = false
		}
	}
	if nsui > 0 {
		r.c.Probe("c08_commit_with_suicide")
	}
	if err := r.sdb.Commit(); err != nil {
		r.c.Fail("commit-error", "healthy-store", "StateDB.Commit: %v", err)
	}
	m.committed = m.storage
	r.stack = nil
	r.hasCommitted = true
	flush := r.t.Bool()
	if flush {
		r.store.NewBatch()
		r.ov.CommitTo()
		r.c.Must(r.store.BatchCommit(), "leveldb batch commit")
		r.ov.Reset()
		r.hasLevelDB = true
	}
	r.c.Logf("Commit() (%d suicides executed, flush to leveldb=%v)", nsui, flush)
	// logs and refund of the finished transaction still read the same
	r.fullCheck("after-commit")
	r.newTx()
	r.fullCheck("new-tx")
}
