package props

// EVM helpers shared by C07, C42 and C43: deterministic secp256k1 senders,
// EIP-155 transaction construction (go-ethereum transaction signed for a chain
// id, wrapped into an ontology transaction the way http/ethrpc does), a tiny
// assembler, and one hand-assembled "universal" contract whose behaviour is
// selected by the first calldata byte.

import (
	"crypto/ecdsa"
	"encoding/binary"
	"fmt"
	"math/big"

	ethcomm "github.com/ethereum/go-ethereum/common"
	ethtypes "github.com/ethereum/go-ethereum/core/types"
	ethcrypto "github.com/ethereum/go-ethereum/crypto"
	"github.com/ontio/ontology/common"
	"github.com/ontio/ontology/common/config"
	"github.com/ontio/ontology/core/types"
	nutils "github.com/ontio/ontology/smartcontract/service/native/utils"

	"ontosim/simkit"
	"ontosim/world"
)

// one GWei: EIP-155 gas prices must be multiples of it (TransactionFromEIP155).
const c07GWei = 1000000000

// c07Key is an externally owned EVM account with a key the harness holds.
type c07Key struct {
	name string
	priv *ecdsa.PrivateKey
	eth  ethcomm.Address
	addr common.Address // the same 20 bytes as an ontology address (ONG balance key)
}

// c07NewKey derives the i-th key of a family from constants (no randomness:
// addresses are the same in every run and every process).
func c07NewKey(c *simkit.Ctx, family string, i int) *c07Key {
	seed := ethcrypto.Keccak256([]byte(fmt.Sprintf("ontosim/%s/key/%d", family, i)))
	priv, err := ethcrypto.ToECDSA(seed)
	c.Must(err, "derive secp256k1 key")
	e := ethcrypto.PubkeyToAddress(priv.PublicKey)
	return &c07Key{name: fmt.Sprintf("E%d", i), priv: priv, eth: e, addr: common.Address(e)}
}

func c07ChainID() *big.Int { return big.NewInt(int64(config.DefConfig.P2PNode.EVMChainId)) }

// c07EthTx builds and signs a go-ethereum transaction; to == nil creates a contract.
func c07EthTx(c *simkit.Ctx, k *c07Key, chainID *big.Int, nonce uint64, to *ethcomm.Address, value *big.Int, gasLimit uint64, gasPrice *big.Int, data []byte) *ethtypes.Transaction {
	var tx *ethtypes.Transaction
	if to == nil {
		tx = ethtypes.NewContractCreation(nonce, value, gasLimit, gasPrice, data)
	} else {
		tx = ethtypes.NewTransaction(nonce, *to, value, gasLimit, gasPrice, data)
	}
	signed, err := ethtypes.SignTx(tx, ethtypes.NewEIP155Signer(chainID), k.priv)
	c.Must(err, "sign eth tx")
	return signed
}

// c07Wrap turns a signed go-ethereum transaction into the ontology transaction
// a node would hold after receiving it: TransactionFromEIP155 (as
// eth_sendRawTransaction does), then serialise and parse (the bytes that go
// into a block).
func c07Wrap(etx *ethtypes.Transaction) (*types.Transaction, error) {
	otx, err := types.TransactionFromEIP155(etx)
	if err != nil {
		return nil, err
	}
	raw := common.SerializeToBytes(otx)
	return types.TransactionFromRawBytes(raw)
}

// c07Fund is a native ONG transferV2 (18-decimals units = EVM wei) from the
// bookkeeper, gas price 0.
func c07Fund(c *simkit.Ctx, ch *world.Chain, to common.Address, wei *big.Int, nonce uint32) *types.Transaction {
	sts := []tokXfer{{From: ch.Book.Address, To: to, Value: new(big.Int).Set(wei)}}
	m, err := world.NativeTx(nutils.OngContractAddress, 0, "transferV2", []interface{}{sts}, 0, 20000, nonce, ch.Book.Address)
	c.Must(err, "build funding transfer")
	c.Must(world.Sign(m, ch.Book), "sign funding transfer")
	tx, err := world.Seal(m)
	c.Must(err, "seal funding transfer")
	return tx
}

// c07Nonce reads the persisted account nonce through the ledger's own query.
func c07Nonce(c *simkit.Ctx, ch *world.Chain, a ethcomm.Address) uint64 {
	acc, err := ch.Store.GetEthAccount(a)
	if err != nil {
		c.Fail("account-query-fails", "GetEthAccount", "GetEthAccount(%x): %v", a[:4], err)
	}
	if acc == nil {
		return 0
	}
	return acc.Nonce
}

// ---------------------------------------------------------------- assembler

// opcode bytes (written out here, not taken from the interpreter under test)
const (
	c07STOP         = 0x00
	c07SUB          = 0x03
	c07EQ           = 0x14
	c07BYTE         = 0x1a
	c07CALLDATALOAD = 0x35
	c07CALLDATASIZE = 0x36
	c07CALLDATACOPY = 0x37
	c07CODECOPY     = 0x39
	c07POP          = 0x50
	c07MSTORE       = 0x52
	c07SSTORE       = 0x55
	c07JUMP         = 0x56
	c07JUMPI        = 0x57
	c07GAS          = 0x5a
	c07JUMPDEST     = 0x5b
	c07PUSH1        = 0x60
	c07PUSH2        = 0x61
	c07PUSH20       = 0x73
	c07DUP1         = 0x80
	c07DUP3         = 0x82
	c07LOG0         = 0xa0
	c07CALL         = 0xf1
	c07RETURN       = 0xf3
	c07REVERT       = 0xfd
	c07INVALID      = 0xfe
	c07SELFDESTRUCT = 0xff
)

type c07Asm struct {
	b      []byte
	labels map[string]int
	fix    map[int]string // position of a 2-byte operand -> label
}

func newC07Asm() *c07Asm { return &c07Asm{labels: map[string]int{}, fix: map[int]string{}} }

func (a *c07Asm) op(ops ...byte) *c07Asm { a.b = append(a.b, ops...); return a }
func (a *c07Asm) push1(v byte) *c07Asm   { a.b = append(a.b, c07PUSH1, v); return a }
func (a *c07Asm) pushLabel(l string) *c07Asm {
	a.b = append(a.b, c07PUSH2, 0, 0)
	a.fix[len(a.b)-2] = l
	return a
}
func (a *c07Asm) pushAddr(x ethcomm.Address) *c07Asm {
	a.b = append(a.b, c07PUSH20)
	a.b = append(a.b, x[:]...)
	return a
}
func (a *c07Asm) label(l string) *c07Asm {
	a.labels[l] = len(a.b)
	a.b = append(a.b, c07JUMPDEST)
	return a
}

// arg pushes the n-th 32-byte calldata argument (after the selector byte).
func (a *c07Asm) arg(n int) *c07Asm { return a.push1(byte(1 + 32*n)).op(c07CALLDATALOAD) }

func (a *c07Asm) bytes() []byte {
	out := append([]byte(nil), a.b...)
	for pos, l := range a.fix {
		t, ok := a.labels[l]
		if !ok {
			panic(simkit.HarnessError{Msg: "c07Asm: unknown label " + l})
		}
		binary.BigEndian.PutUint16(out[pos:], uint16(t))
	}
	return out
}

// selectors of the universal contract; calldata = selector byte, then 32-byte
// arguments a, b, c, d; for the two call selectors everything after a and b is
// the calldata handed to the callee.
const (
	c07SelStop         = 0  // accept value, do nothing
	c07SelCall         = 1  // CALL(gas, a, value b, calldata[65:])
	c07SelDestruct     = 2  // SELFDESTRUCT(a)
	c07SelStoreRevert  = 3  // SSTORE(a,b); REVERT
	c07SelInvalid      = 4  // INVALID
	c07SelLoop         = 5  // endless loop
	c07SelStore        = 6  // SSTORE(a,b)
	c07SelLog0         = 7  // LOG0(data a)
	c07SelLog1         = 8  // LOG1(a)
	c07SelLog2         = 9  // LOG2(a,b)
	c07SelCallRevert   = 10 // as 1, then REVERT
	c07SelLog3         = 11 // LOG3(a,b,c)
	c07SelLog4         = 12 // LOG4(a,b,c,d)
	c07SelLogs         = 13 // LOG1(a); LOG2(b,c); LOG0
	c07SelCallDestruct = 14 // CALL(gas, a, value b, calldata[65:]) then SELFDESTRUCT(a)
	c07SelCount        = 15
)

var c07SelNames = [...]string{"stop", "call", "selfdestruct", "sstore+revert", "invalid", "loop", "sstore", "log0", "log1", "log2", "call+revert", "log3", "log4", "logs", "call+selfdestruct"}

// c07Runtime is the runtime code of the universal contract. tag is appended
// after the code (never executed) so instances can have different code hashes.
func c07Runtime(tag byte) []byte {
	a := newC07Asm()
	a.push1(0).op(c07CALLDATALOAD).push1(0).op(c07BYTE) // [sel]
	for s := 1; s < c07SelCount; s++ {
		a.op(c07DUP1).push1(byte(s)).op(c07EQ).pushLabel(fmt.Sprintf("s%d", s)).op(c07JUMPI)
	}
	a.op(c07STOP)
	call := func() {
		// [sel] -> copy calldata[65:] to memory 0, CALL(gas, a, b, 0, size, 0, 0), drop result
		a.push1(65).op(c07CALLDATASIZE, c07SUB)              // [sel size]
		a.op(c07DUP1).push1(65).push1(0).op(c07CALLDATACOPY) // [sel size]
		a.push1(0).push1(0).op(c07DUP3).push1(0)             // out size, out off, in size, in off
		a.arg(1).arg(0).op(c07GAS, c07CALL, c07POP)          // value b, to a, gas
	}
	store := func() { a.arg(1).arg(0).op(c07SSTORE) }
	a.label("s1")
	call()
	a.op(c07STOP)
	a.label("s2").arg(0).op(c07SELFDESTRUCT)
	a.label("s3")
	store()
	a.push1(0).push1(0).op(c07REVERT)
	a.label("s4").op(c07INVALID)
	a.label("s5").pushLabel("s5").op(c07JUMP)
	a.label("s6")
	store()
	a.op(c07STOP)
	a.label("s7").arg(0).push1(0).op(c07MSTORE).push1(32).push1(0).op(c07LOG0, c07STOP)
	a.label("s8").arg(0).push1(32).push1(0).op(c07LOG0+1, c07STOP)
	a.label("s9").arg(1).arg(0).push1(32).push1(0).op(c07LOG0+2, c07STOP)
	a.label("s10")
	call()
	a.push1(0).push1(0).op(c07REVERT)
	a.label("s11").arg(2).arg(1).arg(0).push1(32).push1(0).op(c07LOG0+3, c07STOP)
	a.label("s12").arg(3).arg(2).arg(1).arg(0).push1(32).push1(0).op(c07LOG0+4, c07STOP)
	a.label("s13").arg(0).push1(32).push1(0).op(c07LOG0 + 1)
	a.arg(2).arg(1).push1(0).push1(0).op(c07LOG0 + 2)
	a.push1(0).push1(0).op(c07LOG0, c07STOP)
	a.label("s14")
	call()
	a.arg(0).op(c07SELFDESTRUCT)
	code := a.bytes()
	return append(code, c07STOP, tag)
}

// constructor variants of a creation transaction
const (
	c07CtorOK       = 0 // returns the universal runtime
	c07CtorRevert   = 1
	c07CtorInvalid  = 2
	c07CtorLoop     = 3
	c07CtorDestruct = 4 // SELFDESTRUCT(beneficiary) inside the constructor
	c07CtorEmpty    = 5 // returns no code
	c07CtorLogOK    = 6 // LOG1(topic = beneficiary) then returns the runtime
	c07CtorCount    = 7
)

var c07CtorNames = [...]string{"ok", "revert", "invalid", "loop", "selfdestruct", "empty-code", "log+ok"}

func c07Deployer(a *c07Asm, runtime []byte) []byte {
	// PUSH2 len; DUP1; PUSH2 off; PUSH1 0; CODECOPY; PUSH1 0; RETURN; runtime
	off := len(a.b) + 3 + 1 + 3 + 2 + 1 + 2 + 1
	a.op(c07PUSH2, byte(len(runtime)>>8), byte(len(runtime)), c07DUP1, c07PUSH2, byte(off>>8), byte(off))
	a.push1(0).op(c07CODECOPY).push1(0).op(c07RETURN)
	return append(a.bytes(), runtime...)
}

// c07InitCode builds creation code.
func c07InitCode(variant int, tag byte, beneficiary ethcomm.Address) []byte {
	a := newC07Asm()
	switch variant {
	case c07CtorOK:
		return c07Deployer(a, c07Runtime(tag))
	case c07CtorRevert:
		return a.push1(0).push1(0).op(c07REVERT).bytes()
	case c07CtorInvalid:
		return a.op(c07INVALID).bytes()
	case c07CtorLoop:
		return a.label("l").pushLabel("l").op(c07JUMP).bytes()
	case c07CtorDestruct:
		return a.pushAddr(beneficiary).op(c07SELFDESTRUCT).bytes()
	case c07CtorEmpty:
		return a.push1(0).push1(0).op(c07RETURN).bytes()
	case c07CtorLogOK:
		a.pushAddr(beneficiary).push1(0).push1(0).op(c07LOG0 + 1)
		return c07Deployer(a, c07Runtime(tag))
	}
	panic(simkit.HarnessError{Msg: "c07InitCode: unknown variant"})
}

// c07Calldata encodes selector + 32-byte arguments + trailing bytes.
func c07Calldata(sel byte, tail []byte, args ...[]byte) []byte {
	out := []byte{sel}
	for _, x := range args {
		var w [32]byte
		if len(x) > 32 {
			x = x[len(x)-32:]
		}
		copy(w[32-len(x):], x)
		out = append(out, w[:]...)
	}
	return append(out, tail...)
}

func c07Word(v *big.Int) []byte { return v.Bytes() }

// c07CreateAddr is the address a creation by sender with this nonce gets.
func c07CreateAddr(sender ethcomm.Address, nonce uint64) ethcomm.Address {
	return ethcrypto.CreateAddress(sender, nonce)
}

func c07Short(a ethcomm.Address) string { return fmt.Sprintf("%x", a[:4]) }
