package props

import (
	"bytes"
	"fmt"
	"strings"

	"github.com/ontio/ontology-crypto/keypair"
	"github.com/ontio/ontology/account"
	"github.com/ontio/ontology/common"
	"github.com/ontio/ontology/core/signature"
	"github.com/ontio/ontology/core/types"
	msgpack "github.com/ontio/ontology/p2pserver/message/msg_pack"
	mt "github.com/ontio/ontology/p2pserver/message/types"

	"ontosim/simkit"
	"ontosim/world"
)

// C39: a block that is invalid in one of the ways the statement lists (wrong
// height, unknown / wrong previous hash, non-increasing timestamp, wrong block
// root, bad transaction root, insufficient valid signatures) is rejected by the
// receiving ledger and leaves height, state and stored blocks unchanged.
//
// World: producer A and receiver B (same genesis, own disks). Every block
// travels A -> B as the bytes of a real p2p "block" message (and, in the
// header-first mode, a "headers" message) and is handed to B exactly as
// p2pserver/protocols/block_sync does: AddHeaders(headers), AddBlock(block,
// ccMsg, stateMerkleRoot) with the sender's GetStateMerkleRoot(height) and
// GetCrossChainMsg(height-1). A corrupting link / Byzantine peer delivers the
// valid next block with one field altered; "rejected" is judged by effect.
func init() {
	simkit.Register(&simkit.Prop{
		ID:   "C39",
		Desc: "single-field mutations of the valid next block, delivered over the sync path, are rejected by effect; the unaltered block is then accepted",
		Rule: "a run = producer ledger A and receiver ledger B; 1..5 valid blocks (0..4 ONT/ONG transfers each) synced A->B as p2p block/headers message bytes, then 1..4 rounds: A produces the next block, 1..6 tape-chosen single-field mutations of it (height +-1/+-k, previous hash unknown/older/zero/own, timestamp equal/smaller/zero, block root, transaction root, transaction dropped/duplicated/reordered/replaced with and without root update, signature removed/garbage/bit-flipped/of another key/of another message, bookkeeper replaced by a correctly self-signing outsider, other hashed field, wrong state root alongside, future-dated, stale height with different content; each header mutation left unsigned, re-signed by the legitimate bookkeeper where a semantic check must reject it, or signed by an outsider) are delivered to B directly to AddBlock or headers-first, with clean restarts of B in between; after every delivery B's height, current hash, state roots, full logical content of all four stores, journal write counts and hash-file length must be unchanged and the altered block/its new transactions not retrievable; then the unaltered block must be accepted and B must equal A. non-trivial = at least one altered block got past decoding and was refused by the ledger itself AND the unaltered block was accepted afterwards; distinct = distinct event-trace hash",
		Real: []string{"core/store/ledgerstore (AddHeaders, AddBlock, verifyHeader, saveBlock, submitBlock, executeBlock, header index/cache, block store + cache)", "core/types block/header codec (transaction-root and duplicate check in Block.Deserialization)", "p2pserver/message/types Block and BlkHeader message codecs + framing/checksum", "core/signature multi-signature verification", "smartcontract + native ONT/ONG execution", "goleveldb on SimDisk"},
		Stub: []string{"solo block producer (harness, as consensus/solo)", "network: the harness is the link and the Byzantine peer; block_sync's flight bookkeeping and block cache are not run, the ledger calls it makes are issued directly (AddBlock is also tried for blocks block_sync would have dropped by height)", "wasm JIT (stub archive)"},
		Assumptions: []string{
			"a block counts as invalid only in the ways the statement lists; alterations that leave the block valid under that list (extra trailing signature, a fully re-signed alternative block by the legitimate bookkeeper, a future timestamp signed by the bookkeeper, a wrong state root next to an EMPTY block, which the code deliberately ignores) are not demanded to be rejected and are not generated, except the empty-block state root, which must then yield exactly the unaltered block",
			"a wrong state root delivered next to a NON-empty block must be refused (anchored mechanism saveBlock; DESIGN 7 C39)",
			"a header accepted by AddHeaders into the in-memory header index is not a stored block: for alterations that only a block-level check can see (block root, transaction list) header acceptance is not judged; for alterations visible in the header (height, previous hash, timestamp, signatures) AddHeaders must refuse too",
		},
		ExpectedProbes: []string{"rej_decode", "rej_ledger", "stale_ignored", "hdr_refused", "hdr_accepted_block_level_only", "restart_after_reject",
			"chk_height", "chk_prev", "chk_timestamp", "chk_bookkeeper", "chk_signature", "chk_blockroot", "chk_stateroot", "chk_txroot", "chk_duptx",
			"m_height", "m_prev", "m_timestamp", "m_blockroot", "m_txroot", "m_txlist", "m_sig", "m_bookkeeper", "m_other", "m_stateroot", "m_future", "m_stale",
			"sign_unsigned", "sign_legit", "sign_outsider_listed", "sign_outsider_unlisted", "empty_block_wrong_stateroot_accepted"},
		Run: runC39,
	})
}

type c39Acct struct {
	acc  *account.Account
	addr common.Address
}

type c39Mut struct {
	class         string
	desc          string
	blk           *types.Block
	root          common.Uint256
	sign          string
	headerInvalid bool // the alteration is visible in the header alone (height, prev, timestamp, signatures)
	mayAccept     bool // wrong state root next to an empty block: the code ignores it; the result must be the unaltered block
	newTxs        []*types.Transaction
	staleHeight   uint32 // != 0: the alteration concerns an already stored height
}

type c39Run struct {
	c        *simkit.Ctx
	t        *simkit.Tape
	A, B     *world.Chain
	accts    []c39Acct
	outsider *account.Account
	nonce    uint32
	ts       uint32
	hist     []*types.Block // valid chain, index = height

	refusedByLedger bool
	acceptedAfter   bool
}

func runC39(c *simkit.Ctx) {
	c.Bubble(func() {
		t := c.Tape
		r := &c39Run{c: c, t: t}
		r.A = world.NewSoloChain(c, "prod")
		r.B = r.A.Twin("recv")
		c.Must(r.A.Open(), "open producer")
		c.Must(r.B.Open(), "open receiver")
		world.Quiesce()
		r.accts = []c39Acct{{r.A.Book, r.A.Book.Address}}
		for i := 0; i < 2; i++ {
			a := account.NewAccount("")
			r.accts = append(r.accts, c39Acct{a, a.Address})
		}
		r.outsider = account.NewAccount("")
		r.nonce = 1
		r.ts = r.A.Now
		r.hist = []*types.Block{r.A.Gen}

		// ---- preamble: valid blocks synced A -> B
		pre := t.Range(1, 5)
		for i := 0; i < pre; i++ {
			blk := r.produce(t.Pick(3, 3, 2, 1, 1))
			r.deliverValid(blk, t.Prob(1, 3))
		}
		r.compareAB("after preamble")

		rounds := t.Range(1, 4)
		for rd := 0; rd < rounds; rd++ {
			ntx := t.Pick(2, 4, 3, 2, 1)
			blk := r.produce(ntx)
			h := blk.Header.Height
			c.Logf("round %d: next block %d txs=%d ts=%d", rd, h, ntx, blk.Header.Timestamp)
			nm := t.Range(1, 6)
			for k := 0; k < nm; k++ {
				m := r.mutate(blk)
				if m == nil {
					continue
				}
				if r.attack(blk, m) {
					break // an empty block went in despite the wrong state root: it is the unaltered block
				}
				if t.Prob(1, 7) {
					r.restartB("after a refused block")
					c.Probe("restart_after_reject")
				}
			}
			r.deliverValid(blk, t.Prob(1, 3))
			r.acceptedAfter = true
			r.compareAB(fmt.Sprintf("after the unaltered block %d", h))
		}
		// final clean restart of the receiver changes nothing
		r.restartB("final")
		r.compareAB("after final restart")
		if r.refusedByLedger && r.acceptedAfter {
			c.NonTrivial()
		}
	})
}

// produce builds and commits the next valid block on A.
func (r *c39Run) produce(ntx int) *types.Block {
	t := r.t
	var txs []*types.Transaction
	for k := 0; k < ntx; k++ {
		txs = append(txs, r.newTx())
	}
	r.ts += uint32(1 + t.Choose(30))
	blk := r.A.MakeBlock(txs, r.ts, uint64(r.nonce)<<8)
	if _, err := r.A.Commit(blk); err != nil {
		r.c.Harness("producer refuses its own block %d: %v", blk.Header.Height, err)
	}
	world.Quiesce()
	r.hist = append(r.hist, blk)
	return blk
}

func (r *c39Run) newTx() *types.Transaction {
	t := r.t
	from := r.accts[0]
	if t.Prob(1, 3) {
		from = r.accts[t.Choose(len(r.accts))]
	}
	to := r.accts[t.Choose(len(r.accts))]
	asset := "ont"
	if t.Prob(1, 4) {
		asset = "ong"
	}
	amt := uint64(1 + t.Choose(1000))
	m, err := world.TransferTx(asset, from.addr, to.addr, amt, 0, 20000, r.nonce, from.addr)
	r.c.Must(err, "build transfer")
	r.nonce++
	r.c.Must(world.Sign(m, from.acc), "sign")
	tx, err := world.Seal(m)
	r.c.Must(err, "seal")
	return tx
}

// ---------------------------------------------------------------- wire

// c39Wire sends a block message through the real codec and framing. The
// decoded message (or the decode error) is what the receiver sees.
func c39Wire(blk *types.Block, cc *types.CrossChainMsg, root common.Uint256) (*mt.Block, error) {
	sink := common.NewZeroCopySink(nil)
	mt.WriteMessage(sink, msgpack.NewBlock(blk, cc, root))
	msg, _, err := mt.ReadMessage(bytes.NewReader(sink.Bytes()))
	if err != nil {
		return nil, err
	}
	b, ok := msg.(*mt.Block)
	if !ok {
		return nil, fmt.Errorf("decoded as %T", msg)
	}
	return b, nil
}

func c39WireHeaders(hs []*types.Header) ([]*types.Header, error) {
	sink := common.NewZeroCopySink(nil)
	mt.WriteMessage(sink, &mt.BlkHeader{BlkHdr: hs})
	msg, _, err := mt.ReadMessage(bytes.NewReader(sink.Bytes()))
	if err != nil {
		return nil, err
	}
	b, ok := msg.(*mt.BlkHeader)
	if !ok {
		return nil, fmt.Errorf("decoded as %T", msg)
	}
	return b.BlkHdr, nil
}

// senderSide returns what an honest sender attaches to the block of this height.
func (r *c39Run) senderSide(h uint32) (*types.CrossChainMsg, common.Uint256) {
	cc, err := r.A.Store.GetCrossChainMsg(h - 1)
	r.c.Must(err, "sender GetCrossChainMsg")
	root, err := r.A.Store.GetStateMerkleRoot(h)
	r.c.Must(err, "sender GetStateMerkleRoot")
	return cc, root
}

func (r *c39Run) deliverValid(blk *types.Block, headersFirst bool) {
	c := r.c
	h := blk.Header.Height
	cc, root := r.senderSide(h)
	if headersFirst && h <= r.B.Store.GetCurrentHeaderHeight() {
		// block_sync.OnHeaderReceive drops headers at or below the current header
		// height (a header of this height was accepted earlier in the round)
		headersFirst = false
	}
	if headersFirst {
		hs, err := c39WireHeaders([]*types.Header{blk.Header})
		c.Must(err, "valid header does not survive the codec")
		if err = r.B.Store.AddHeaders(hs); err != nil {
			c.Fail("valid-header-refused", "sync", "AddHeaders refuses the unaltered header %d: %v", h, err)
		}
		if got := r.B.Store.GetCurrentHeaderHeight(); got != h {
			c.Fail("valid-header-refused", "sync", "after AddHeaders(header %d) the header height is %d", h, got)
		}
		if got := r.B.Store.GetCurrentHeaderHash(); got != blk.Hash() {
			c.Fail("valid-header-refused", "sync", "after AddHeaders(header %d) the current header hash is %x, want %x", h, got, blk.Hash())
		}
	}
	msg, err := c39Wire(blk, cc, root)
	c.Must(err, "valid block does not survive the codec")
	var aerr error
	switch mode := r.t.Pick(8, 1, 1); mode {
	case 1:
		// the receiver dies at a tape-chosen disk call inside AddBlock, is restarted and gets the block again if it lost it
		world.Quiesce()
		r.B.Disk.ArmCrash(1+r.t.Choose(14), r.t.Choose(3)*100)
		aerr = r.B.Store.AddBlock(msg.Blk, msg.CCMsg, msg.MerkleRoot)
		if r.B.Disk.Crashed() {
			c.Fault("receiver_crash_in_commit")
			c.Logf("CRASH of the receiver inside AddBlock(%d) at %s", h, r.B.Disk.CrashInfo)
			c40CloseCrashed(r.B)
			world.Quiesce()
			r.B.Disk.Restart()
			if oerr := r.B.Open(); oerr != nil {
				c.Fail("reopen-fails", "crash-in-commit", "receiver cannot reopen after a crash inside AddBlock(%d): %v", h, oerr)
			}
			world.Quiesce()
			aerr = nil
			if r.B.Height() < h {
				msg2, err := c39Wire(blk, cc, root)
				c.Must(err, "valid block does not survive the codec")
				aerr = r.B.Store.AddBlock(msg2.Blk, msg2.CCMsg, msg2.MerkleRoot)
			}
		} else {
			r.B.Disk.Disarm()
		}
	case 2:
		// the block reaches the receiver twice at once: the second AddBlock starts while the first is stopped before a disk call
		world.Quiesce()
		reached, resume := r.B.Disk.ArmPause(1 + r.t.Choose(12))
		e1, e2 := make(chan error, 1), make(chan error, 1)
		go func() { e1 <- r.B.Store.AddBlock(msg.Blk, msg.CCMsg, msg.MerkleRoot) }()
		world.Quiesce()
		second := false
		select {
		case <-reached:
			second = true
			c.Fault("block_delivered_twice_concurrently")
			msg2, err := c39Wire(blk, cc, root)
			c.Must(err, "valid block does not survive the codec")
			go func() { e2 <- r.B.Store.AddBlock(msg2.Blk, msg2.CCMsg, msg2.MerkleRoot) }()
			world.Quiesce()
		default:
		}
		resume()
		aerr = <-e1
		if second {
			if err2 := <-e2; aerr == nil {
				aerr = err2
			}
		}
	default:
		aerr = r.B.Store.AddBlock(msg.Blk, msg.CCMsg, msg.MerkleRoot)
	}
	if aerr != nil {
		c.Fail("valid-block-refused", "sync", "receiver refuses the unaltered block %d: %v", h, aerr)
	}
	world.Quiesce()
	if got := r.B.Height(); got != h {
		c.Fail("valid-block-refused", "sync", "after AddBlock(unaltered block %d) = nil the receiver is at height %d", h, got)
	}
	if got := r.B.Store.GetCurrentBlockHash(); got != blk.Hash() {
		c.Fail("valid-block-refused", "sync", "after AddBlock(unaltered block %d) the current hash is %x, want %x", h, got, blk.Hash())
	}
	got, err := r.B.Store.GetBlockByHash(blk.Hash())
	if err != nil || got == nil || !bytes.Equal(got.ToArray(), blk.ToArray()) {
		c.Fail("valid-block-refused", "sync", "block %d is not retrievable unchanged after it was accepted (err %v)", h, err)
	}
	c.Logf("valid block %d accepted (headersFirst=%v)", h, headersFirst)
}

func (r *c39Run) compareAB(where string) {
	c := r.c
	world.Quiesce()
	a, err := r.A.Snap(true)
	c.Must(err, "producer snapshot")
	b, err := r.B.Snap(true)
	if err != nil {
		c.Fail("receiver-differs-from-producer", "snapshot", "%s: receiver snapshot: %v", where, err)
	}
	if a.Height != b.Height || a.Hash != b.Hash {
		c.Fail("receiver-differs-from-producer", "tip", "%s: receiver at %d/%x, producer at %d/%x", where, b.Height, b.Hash, a.Height, a.Hash)
	}
	for h := range a.StateRoots {
		if a.StateRoots[h] != b.StateRoots[h] {
			c.Fail("receiver-differs-from-producer", "state-root", "%s: state root of height %d: receiver %x producer %x", where, h, b.StateRoots[h], a.StateRoots[h])
		}
	}
	for _, name := range world.Stores {
		if a.Digest[name] != b.Digest[name] {
			c.Fail("receiver-differs-from-producer", "store/"+name, "%s: store %q differs (receiver=left): %v", where, name, simkit.DiffKV(b.KV[name], a.KV[name], 4))
		}
	}
	c.State("eq", a.Height, a.Digest["states"])
}

func (r *c39Run) restartB(why string) {
	c := r.c
	world.Quiesce()
	before, err := r.B.Snap(true)
	c.Must(err, "snapshot before restart")
	r.B.Close()
	world.Quiesce()
	r.B.Disk.Restart()
	if err := r.B.Open(); err != nil {
		c.Fail("reopen-fails", "clean-restart", "receiver reopen (%s) fails: %v", why, err)
	}
	world.Quiesce()
	after, err := r.B.Snap(true)
	if err != nil {
		c.Fail("reopen-fails", "clean-restart", "snapshot after reopen (%s): %v", why, err)
	}
	r.sameSnap("clean restart "+why, "clean-restart", before, after)
	c.Fault("clean_restart")
	c.Logf("receiver restarted (%s) at height %d", why, after.Height)
}

func (r *c39Run) sameSnap(where, sig string, before, after *world.Snapshot) {
	c := r.c
	if before.Height != after.Height {
		c.Fail("height-changed", sig, "%s: height %d -> %d", where, before.Height, after.Height)
	}
	if before.Hash != after.Hash {
		c.Fail("current-hash-changed", sig, "%s: current block hash %x -> %x", where, before.Hash, after.Hash)
	}
	for h := range before.StateRoots {
		if before.StateRoots[h] != after.StateRoots[h] {
			c.Fail("state-changed", sig, "%s: state root of height %d %x -> %x", where, h, before.StateRoots[h], after.StateRoots[h])
		}
	}
	for _, name := range world.Stores {
		if before.Digest[name] != after.Digest[name] {
			oracle := "state-changed"
			if name == "block" {
				oracle = "stored-blocks-changed"
			}
			c.Fail(oracle, sig+"/"+name, "%s: store %q changed (before=left): %v", where, name, simkit.DiffKV(before.KV[name], after.KV[name], 4))
		}
	}
}

func c39JournalWrites(d *simkit.Disk) int {
	n := 0
	for k, v := range d.Counts() {
		if strings.HasSuffix(k, "/write/journal") {
			n += v
		}
	}
	return n
}

// ---------------------------------------------------------------- attack

func c39Absent(blk *types.Block, err error) bool { return blk == nil || err != nil }

// attack delivers one altered block and checks that nothing changed. It
// returns true when the block of this round is now stored (only possible for an
// empty block delivered with a wrong state root).
func (r *c39Run) attack(valid *types.Block, m *c39Mut) bool {
	c, t := r.c, r.t
	B := r.B
	h := valid.Header.Height
	sig := m.class + "/" + m.sign
	mh := m.blk.Hash()
	headersFirst := t.Prob(1, 3)
	c.Probe("m_" + m.class)
	c.Probe("sign_" + m.sign)
	c.Logf("ALTER %s [%s] -> block height=%d hash=%x.. txs=%d headersFirst=%v", m.desc, sig, m.blk.Header.Height, mh[:4], len(m.blk.Transactions), headersFirst)
	c.Fault("altered_" + m.class)

	world.Quiesce()
	before, err := B.Snap(true)
	c.Must(err, "snapshot before")
	jBefore := c39JournalWrites(B.Disk)
	mlBefore := B.MerkleFileLen()
	hdrHeightBefore := B.Store.GetCurrentHeaderHeight()
	hdrHashBefore := B.Store.GetCurrentHeaderHash()
	idxBefore := B.Store.GetBlockHash(m.blk.Header.Height)
	nextIdxBefore := B.Store.GetBlockHash(h)
	hdrKnownBefore := false
	if hd, err := B.Store.GetHeaderByHash(mh); err == nil && hd != nil {
		hdrKnownBefore = true // an equal-hash header (signature-only alteration) was accepted earlier in this round
	}

	hdrAccepted := false
	if headersFirst {
		hs, err := c39WireHeaders([]*types.Header{m.blk.Header})
		if err != nil {
			c.Logf("  headers message refused by the codec: %v", err)
		} else {
			err = B.Store.AddHeaders(hs)
			c.Logf("  AddHeaders -> %v", err)
			hdrAccepted = err == nil
		}
		if hdrAccepted && m.headerInvalid {
			c.Fail("invalid-header-accepted", sig, "AddHeaders accepts the header of the altered block (%s)", m.desc)
		}
		if hdrAccepted {
			c.Probe("hdr_accepted_block_level_only")
		} else {
			c.Probe("hdr_refused")
		}
	}

	layer := "decode"
	var addErr error
	msg, derr := c39Wire(m.blk, nil, m.root)
	if derr != nil {
		c.Logf("  block message refused by the codec: %v", derr)
		c.Probe("rej_decode")
		r.probeCheck(derr.Error())
	} else {
		layer = "ledger"
		addErr = B.Store.AddBlock(msg.Blk, msg.CCMsg, msg.MerkleRoot)
		c.Logf("  AddBlock -> %v", addErr)
		if addErr != nil {
			r.probeCheck(addErr.Error())
		}
	}
	world.Quiesce()

	// ---- by effect
	if m.mayAccept && B.Height() == h {
		// the code ignores the state root next to an empty block: the block
		// that went in must be exactly the unaltered one
		c.Probe("empty_block_wrong_stateroot_accepted")
		c.Logf("  accepted (empty block, state root not checked): must equal the unaltered block")
		got, err := B.Store.GetBlockByHash(valid.Hash())
		if err != nil || got == nil || !bytes.Equal(got.ToArray(), valid.ToArray()) {
			c.Fail("stored-blocks-changed", sig, "empty block %d delivered with a wrong state root was stored altered (err %v)", h, err)
		}
		r.compareAB("after an empty block delivered with a wrong state root")
		return true
	}
	after, err := B.Snap(true)
	if err != nil {
		c.Fail("state-changed", sig, "receiver snapshot fails after %s: %v", m.desc, err)
	}
	if after.Height != before.Height || after.Hash != before.Hash {
		c.Fail("invalid-block-accepted", sig, "after %s (AddBlock err: %v) the receiver moved from %d/%x to %d/%x", m.desc, addErr, before.Height, before.Hash, after.Height, after.Hash)
	}
	r.sameSnap("after "+m.desc, sig, before, after)
	if j := c39JournalWrites(B.Disk); j != jBefore {
		c.Fail("disk-written", sig, "after %s the receiver's databases were written (%d journal writes)", m.desc, j-jBefore)
	}
	if ml := B.MerkleFileLen(); ml != mlBefore {
		c.Fail("disk-written", sig, "after %s the block-root hash file grew from %d to %d", m.desc, mlBefore, ml)
	}
	if got := B.Store.GetCurrentBlockHeight(); got != before.Height {
		c.Fail("height-changed", sig, "after %s GetCurrentBlockHeight = %d, was %d", m.desc, got, before.Height)
	}
	if got := B.Store.GetCurrentBlockHash(); got != before.Hash {
		c.Fail("current-hash-changed", sig, "after %s GetCurrentBlockHash = %x, was %x", m.desc, got, before.Hash)
	}
	// the altered block is not part of the chain
	{
		if ok, err := B.Store.IsContainBlock(mh); err != nil || ok {
			c.Fail("altered-block-retrievable", sig, "after %s IsContainBlock(altered hash) = %v, %v", m.desc, ok, err)
		}
		if blk, err := B.Store.GetBlockByHash(mh); !c39Absent(blk, err) {
			c.Fail("altered-block-retrievable", sig, "after %s GetBlockByHash(altered hash) returns a block of height %d", m.desc, blk.Header.Height)
		}
		if !hdrAccepted && !hdrKnownBefore {
			if hd, err := B.Store.GetHeaderByHash(mh); err == nil && hd != nil {
				c.Fail("altered-block-retrievable", sig, "after %s GetHeaderByHash(altered hash) returns a header of height %d", m.desc, hd.Height)
			}
		}
	}
	// height index
	if !hdrAccepted {
		if got := B.Store.GetBlockHash(m.blk.Header.Height); got != idxBefore {
			c.Fail("height-index-changed", sig, "after %s GetBlockHash(%d) = %x, was %x", m.desc, m.blk.Header.Height, got, idxBefore)
		}
		if got := B.Store.GetBlockHash(h); got != nextIdxBefore {
			c.Fail("height-index-changed", sig, "after %s GetBlockHash(%d) = %x, was %x", m.desc, h, got, nextIdxBefore)
		}
		if got := B.Store.GetCurrentHeaderHeight(); got != hdrHeightBefore {
			c.Fail("height-index-changed", sig, "after %s GetCurrentHeaderHeight = %d, was %d", m.desc, got, hdrHeightBefore)
		}
		if got := B.Store.GetCurrentHeaderHash(); got != hdrHashBefore {
			c.Fail("height-index-changed", sig, "after %s GetCurrentHeaderHash = %x, was %x", m.desc, got, hdrHashBefore)
		}
	}
	if blk, err := B.Store.GetBlockByHeight(h); !c39Absent(blk, err) {
		c.Fail("altered-block-retrievable", sig, "after %s GetBlockByHeight(%d) returns a block (%x)", m.desc, h, blk.Hash())
	}
	if m.staleHeight != 0 {
		orig := r.hist[m.staleHeight]
		if got := B.Store.GetBlockHash(m.staleHeight); got != orig.Hash() {
			c.Fail("height-index-changed", sig, "after %s GetBlockHash(%d) = %x, was %x", m.desc, m.staleHeight, got, orig.Hash())
		}
		got, err := B.Store.GetBlockByHeight(m.staleHeight)
		if err != nil || got == nil || !bytes.Equal(got.ToArray(), orig.ToArray()) {
			c.Fail("stored-blocks-changed", sig, "after %s the stored block %d differs from what was committed (err %v)", m.desc, m.staleHeight, err)
		}
	}
	for _, tx := range m.newTxs {
		if ok, err := B.Store.IsContainTransaction(tx.Hash()); err != nil || ok {
			c.Fail("altered-block-retrievable", sig, "after %s a transaction only the altered block carries is on chain (%v, %v)", m.desc, ok, err)
		}
	}
	for _, tx := range valid.Transactions {
		if ok, err := B.Store.IsContainTransaction(tx.Hash()); err != nil || ok {
			c.Fail("altered-block-retrievable", sig, "after %s a transaction of the not yet accepted block %d is on chain (%v, %v)", m.desc, h, ok, err)
		}
	}
	if layer == "ledger" {
		r.refusedByLedger = true
		if addErr == nil {
			c.Probe("stale_ignored")
		} else {
			c.Probe("rej_ledger")
		}
	}
	c.State(m.class, m.sign, layer, headersFirst, hdrAccepted, c39ErrClass(addErr))
	return false
}

func c39ErrClass(err error) string {
	if err == nil {
		return ""
	}
	s := err.Error()
	for _, k := range []string{"not equal next block height", "cannot find pre header", "height is incorrect", "timestamp is incorrect", "bookkeeper address error",
		"not enough signatures", "invalid signature data", "multi-signature verification failed", "wrong block root", "state merkle root mismatch", "mismatched transaction root", "duplicated transaction"} {
		if strings.Contains(s, k) {
			return k
		}
	}
	return "other"
}

func (r *c39Run) probeCheck(s string) {
	c := r.c
	switch {
	case strings.Contains(s, "not equal next block height"), strings.Contains(s, "height is incorrect"):
		c.Probe("chk_height")
	case strings.Contains(s, "cannot find pre header"):
		c.Probe("chk_prev")
	case strings.Contains(s, "timestamp is incorrect"):
		c.Probe("chk_timestamp")
	case strings.Contains(s, "bookkeeper address error"):
		c.Probe("chk_bookkeeper")
	case strings.Contains(s, "not enough signatures"), strings.Contains(s, "invalid signature data"), strings.Contains(s, "multi-signature verification failed"):
		c.Probe("chk_signature")
	case strings.Contains(s, "wrong block root"):
		c.Probe("chk_blockroot")
	case strings.Contains(s, "state merkle root mismatch"):
		c.Probe("chk_stateroot")
	case strings.Contains(s, "mismatched transaction root"):
		c.Probe("chk_txroot")
	case strings.Contains(s, "duplicated transaction"):
		c.Probe("chk_duptx")
	}
}

// ---------------------------------------------------------------- mutations

func c39CopyHeader(h *types.Header) *types.Header {
	n := &types.Header{
		Version: h.Version, PrevBlockHash: h.PrevBlockHash, TransactionsRoot: h.TransactionsRoot, BlockRoot: h.BlockRoot,
		Timestamp: h.Timestamp, Height: h.Height, ConsensusData: h.ConsensusData, NextBookkeeper: h.NextBookkeeper,
		ConsensusPayload: append([]byte(nil), h.ConsensusPayload...),
	}
	n.Bookkeepers = append([]keypair.PublicKey(nil), h.Bookkeepers...)
	for _, s := range h.SigData {
		n.SigData = append(n.SigData, append([]byte(nil), s...))
	}
	return n
}

func c39TxRoot(txs []*types.Transaction) common.Uint256 {
	hs := make([]common.Uint256, 0, len(txs))
	for _, tx := range txs {
		hs = append(hs, tx.Hash())
	}
	return common.ComputeMerkleRoot(hs) // works on (and destroys) its argument: hs is private
}

func c39FlipHash(h common.Uint256, bit int) common.Uint256 {
	h[(bit/8)%32] ^= 1 << uint(bit%8)
	return h
}

// resign signs a header whose semantically checked fields (height, previous
// hash, timestamp, block root, transaction root) were altered: not at all (the
// original signature no longer covers it), again by the legitimate bookkeeper
// (then only the semantic check can refuse the block), or by an outsider.
func (r *c39Run) resign(m *c39Mut) {
	m.sign = []string{"unsigned", "legit", "outsider_listed", "outsider_unlisted"}[r.t.Pick(3, 4, 1, 1)]
	r.signAs(m)
	if m.sign != "legit" {
		m.headerInvalid = true // insufficient valid signatures is visible in the header
	}
}

// mutate returns one altered copy of the valid next block (nil if the chosen
// alteration does not apply to this block).
func (r *c39Run) mutate(v *types.Block) *c39Mut {
	t := r.t
	h := v.Header.Height
	parent := r.hist[h-1]
	hd := c39CopyHeader(v.Header)
	txs := append([]*types.Transaction(nil), v.Transactions...)
	_, root := r.senderSide(h)
	m := &c39Mut{root: root, sign: "original"}
	finish := func() *c39Mut {
		m.blk = &types.Block{Header: hd, Transactions: txs}
		return m
	}
	switch t.Pick(4, 4, 4, 4, 3, 6, 5, 2, 2, 3, 1, 3) {
	case 0: // height
		m.class = "height"
		m.headerInvalid = true
		switch t.Choose(4) {
		case 0:
			hd.Height = h + 1
		case 1:
			hd.Height = h - 1
		case 2:
			hd.Height = h + uint32(2+t.Choose(5))
		case 3:
			hd.Height = h - uint32(1+t.Choose(int(h)))
		}
		m.desc = fmt.Sprintf("height %d -> %d", h, hd.Height)
		m.blk = &types.Block{Header: hd, Transactions: txs}
		r.resign(m)
		m.headerInvalid = true
		return m
	case 1: // previous hash
		m.class = "prev"
		m.headerInvalid = true
		switch k := t.Choose(5); {
		case k == 0:
			hd.PrevBlockHash = c39FlipHash(hd.PrevBlockHash, t.Choose(256))
			m.desc = "previous hash with one bit flipped"
		case k == 1:
			copy(hd.PrevBlockHash[:], t.Bytes(32))
			m.desc = "previous hash unknown (random)"
		case k == 2:
			hd.PrevBlockHash = common.Uint256{}
			m.desc = "previous hash zero"
		case k == 3 && h >= 2:
			g := uint32(t.Choose(int(h - 1))) // 0..h-2
			hd.PrevBlockHash = r.hist[g].Hash()
			m.desc = fmt.Sprintf("previous hash of the older block %d", g)
		default:
			hd.PrevBlockHash = v.Hash()
			m.desc = "previous hash = the block's own (unaltered) hash"
		}
		m.blk = &types.Block{Header: hd, Transactions: txs}
		r.resign(m)
		m.headerInvalid = true
		return m
	case 2: // timestamp
		m.class = "timestamp"
		pt := parent.Header.Timestamp
		switch t.Choose(4) {
		case 0:
			hd.Timestamp = pt
			m.desc = "timestamp equal to the parent's"
		case 1:
			hd.Timestamp = pt - 1
			m.desc = "timestamp parent-1"
		case 2:
			hd.Timestamp = pt - uint32(2+t.Choose(100000))
			m.desc = fmt.Sprintf("timestamp parent-%d", pt-hd.Timestamp)
		case 3:
			hd.Timestamp = 0
			m.desc = "timestamp 0"
		}
		m.blk = &types.Block{Header: hd, Transactions: txs}
		r.resign(m)
		m.headerInvalid = true
		return m
	case 3: // block root
		m.class = "blockroot"
		switch t.Choose(4) {
		case 0:
			hd.BlockRoot = c39FlipHash(hd.BlockRoot, t.Choose(256))
			m.desc = "block root with one bit flipped"
		case 1:
			hd.BlockRoot = parent.Header.BlockRoot
			m.desc = "block root of the parent"
		case 2:
			hd.BlockRoot = common.Uint256{}
			m.desc = "block root zero"
		case 3:
			hd.BlockRoot = hd.TransactionsRoot
			if hd.BlockRoot == v.Header.BlockRoot {
				hd.BlockRoot = c39FlipHash(hd.BlockRoot, 7)
			}
			m.desc = "block root = transaction root"
		}
		m.blk = &types.Block{Header: hd, Transactions: txs}
		r.resign(m)
		return m
	case 4: // transaction root only (list untouched)
		m.class = "txroot"
		switch t.Choose(3) {
		case 0:
			hd.TransactionsRoot = c39FlipHash(hd.TransactionsRoot, t.Choose(256))
			m.desc = "transaction root with one bit flipped"
		case 1:
			copy(hd.TransactionsRoot[:], t.Bytes(32))
			m.desc = "transaction root random"
		case 2:
			hd.TransactionsRoot = parent.Header.TransactionsRoot
			if hd.TransactionsRoot == v.Header.TransactionsRoot {
				hd.TransactionsRoot = c39FlipHash(hd.TransactionsRoot, 3)
			}
			m.desc = "transaction root of the parent"
		}
		m.blk = &types.Block{Header: hd, Transactions: txs}
		r.resign(m)
		return m
	case 5: // transaction list
		m.class = "txlist"
		n := len(txs)
		kind := t.Choose(5)
		switch {
		case kind == 0 && n >= 1:
			i := t.Choose(n)
			txs = append(append([]*types.Transaction(nil), txs[:i]...), txs[i+1:]...)
			m.desc = fmt.Sprintf("transaction %d of %d dropped", i, n)
		case kind == 1 && n >= 1:
			i := n - 1
			if t.Bool() {
				i = t.Choose(n)
			}
			txs = append(txs, txs[i])
			m.desc = fmt.Sprintf("transaction %d of %d appended again", i, n)
		case kind == 2 && n >= 2:
			i := t.Choose(n - 1)
			txs[i], txs[i+1] = txs[i+1], txs[i]
			m.desc = fmt.Sprintf("transactions %d and %d swapped", i, i+1)
		case kind == 3 && n >= 1:
			i := t.Choose(n)
			if h >= 2 && t.Bool() {
				var old []*types.Transaction
				for g := uint32(1); g < h; g++ {
					old = append(old, r.hist[g].Transactions...)
				}
				if len(old) > 0 {
					txs[i] = old[t.Choose(len(old))]
					m.desc = fmt.Sprintf("transaction %d of %d replaced by one already on chain", i, n)
					break
				}
			}
			nt := r.newTx()
			txs[i] = nt
			m.newTxs = append(m.newTxs, nt)
			m.desc = fmt.Sprintf("transaction %d of %d replaced by a fresh one", i, n)
		default:
			nt := r.newTx()
			txs = append(txs, nt)
			m.newTxs = append(m.newTxs, nt)
			m.desc = fmt.Sprintf("a fresh transaction appended to %d", n)
		}
		if t.Bool() {
			// root follows the list: the codec is satisfied, the signature / block root is not
			hd.TransactionsRoot = c39TxRoot(txs)
			m.desc += ", transaction root updated"
			if hd.TransactionsRoot == v.Header.TransactionsRoot {
				// an odd list with its last entry repeated keeps the merkle root:
				// the header (and its signature) is then the unaltered one
				m.desc += " (root unchanged)"
				return finish()
			}
			m.blk = &types.Block{Header: hd, Transactions: txs}
			r.resign(m)
			return m
		}
		m.desc += ", transaction root not updated"
		return finish()
	case 6: // signature
		m.class = "sig"
		m.headerInvalid = true
		hash := hd.Hash()
		switch t.Choose(7) {
		case 0:
			hd.SigData = nil
			m.desc = "signature removed"
		case 1:
			hd.SigData = nil
			hd.Bookkeepers = nil
			m.desc = "signature and bookkeeper removed"
		case 2:
			s, err := signature.Sign(r.outsider, hash[:])
			r.c.Must(err, "sign")
			hd.SigData = [][]byte{s}
			m.desc = "signature replaced by an outsider's"
		case 3:
			hd.SigData = [][]byte{t.Bytes(len(v.Header.SigData[0]))}
			m.desc = "signature replaced by random bytes of the same length"
		case 4:
			hd.SigData = [][]byte{t.Bytes(t.Choose(40))}
			m.desc = fmt.Sprintf("signature replaced by %d random bytes", len(hd.SigData[0]))
		case 5:
			s := append([]byte(nil), v.Header.SigData[0]...)
			s[t.Choose(len(s))] ^= 1 << uint(t.Choose(8))
			hd.SigData = [][]byte{s}
			m.desc = "signature with one bit flipped"
		case 6:
			if len(parent.Header.SigData) > 0 {
				hd.SigData = [][]byte{append([]byte(nil), parent.Header.SigData[0]...)}
			} else {
				ph := parent.Hash()
				s, err := signature.Sign(r.A.Book, ph[:])
				r.c.Must(err, "sign")
				hd.SigData = [][]byte{s}
			}
			m.desc = "the bookkeeper's signature of the parent block"
		}
		return finish()
	case 7: // bookkeeper replaced, correctly self-signed
		m.class = "bookkeeper"
		m.headerInvalid = true
		hash := hd.Hash()
		s, err := signature.Sign(r.outsider, hash[:])
		r.c.Must(err, "sign")
		hd.Bookkeepers = []keypair.PublicKey{r.outsider.PublicKey}
		hd.SigData = [][]byte{s}
		m.sign = "outsider_listed"
		m.desc = "bookkeeper replaced by an outsider key that signs correctly"
		return finish()
	case 8: // another hashed field, not signed again
		m.class = "other"
		switch t.Choose(4) {
		case 0:
			hd.ConsensusData ^= 1 << uint(t.Choose(64))
			m.desc = "consensus data altered"
		case 1:
			hd.NextBookkeeper = r.outsider.Address
			m.desc = "next bookkeeper = outsider"
		case 2:
			hd.Version = 1 + uint32(t.Choose(3))
			m.desc = "version altered"
		case 3:
			hd.ConsensusPayload = t.Bytes(1 + t.Choose(8))
			m.desc = "consensus payload added"
		}
		m.blk = &types.Block{Header: hd, Transactions: txs}
		m.sign = []string{"unsigned", "outsider_listed", "outsider_unlisted"}[t.Pick(3, 1, 1)]
		r.signAs(m)
		m.headerInvalid = true
		return m
	case 9: // wrong state root alongside
		m.class = "stateroot"
		switch t.Choose(3) {
		case 0:
			m.root = c39FlipHash(root, t.Choose(256))
			m.desc = "state root alongside with one bit flipped"
		case 1:
			pr, err := r.A.Store.GetStateMerkleRoot(h - 1)
			r.c.Must(err, "parent state root")
			m.root = pr
			m.desc = "state root of the parent alongside"
		case 2:
			m.root = common.Uint256{}
			m.desc = "zero state root alongside"
		}
		if m.root == root {
			return nil
		}
		if len(txs) == 0 {
			m.mayAccept = true
			m.desc += " (empty block)"
		}
		return finish()
	case 10: // future-dated
		m.class = "future"
		hd.Timestamp += uint32(3600 * (1 + t.Choose(24*365*10)))
		if hd.Timestamp < v.Header.Timestamp {
			hd.Timestamp = ^uint32(0)
		}
		m.desc = fmt.Sprintf("timestamp moved %d s into the future", hd.Timestamp-v.Header.Timestamp)
		m.blk = &types.Block{Header: hd, Transactions: txs}
		m.sign = []string{"unsigned", "outsider_listed", "outsider_unlisted"}[t.Pick(3, 1, 1)]
		r.signAs(m)
		m.headerInvalid = true
		return m
	case 11: // stale height, different content
		if h < 2 {
			return nil
		}
		m.class = "stale"
		g := uint32(1 + t.Choose(int(h-1))) // 1..h-1
		old := r.hist[g]
		hd = c39CopyHeader(old.Header)
		txs = append([]*types.Transaction(nil), old.Transactions...)
		switch k := t.Choose(3); {
		case k == 0:
			hd.ConsensusData++
			m.desc = fmt.Sprintf("stored block %d with other consensus data", g)
		case k == 1 && len(txs) > 0:
			txs = txs[:len(txs)-1]
			hd.TransactionsRoot = c39TxRoot(txs)
			m.desc = fmt.Sprintf("stored block %d without its last transaction", g)
		default:
			nt := r.newTx()
			txs = append(txs, nt)
			m.newTxs = append(m.newTxs, nt)
			hd.TransactionsRoot = c39TxRoot(txs)
			m.desc = fmt.Sprintf("stored block %d with one more transaction", g)
		}
		m.staleHeight = g
		m.headerInvalid = true // wrong height for a next header
		m.blk = &types.Block{Header: hd, Transactions: txs}
		m.sign = []string{"unsigned", "legit", "outsider_listed", "outsider_unlisted"}[t.Pick(2, 3, 1, 1)]
		r.signAs(m)
		sr, err := r.A.Store.GetStateMerkleRoot(g)
		r.c.Must(err, "state root")
		m.root = sr
		return m
	}
	return nil
}

// signAs signs the (already altered) header in the mode named by m.sign.
func (r *c39Run) signAs(m *c39Mut) {
	hd := m.blk.Header
	hash := hd.Hash()
	switch m.sign {
	case "legit":
		s, err := signature.Sign(r.A.Book, hash[:])
		r.c.Must(err, "sign")
		hd.SigData = [][]byte{s}
	case "outsider_listed":
		s, err := signature.Sign(r.outsider, hash[:])
		r.c.Must(err, "sign")
		hd.Bookkeepers = []keypair.PublicKey{r.outsider.PublicKey}
		hd.SigData = [][]byte{s}
	case "outsider_unlisted":
		s, err := signature.Sign(r.outsider, hash[:])
		r.c.Must(err, "sign")
		hd.SigData = [][]byte{s}
	}
}
