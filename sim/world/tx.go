package world

import (
	"github.com/ontio/ontology-crypto/keypair"
	"github.com/ontio/ontology/account"
	"github.com/ontio/ontology/common"
	"github.com/ontio/ontology/core/payload"
	"github.com/ontio/ontology/core/signature"
	"github.com/ontio/ontology/core/types"
	cutils "github.com/ontio/ontology/core/utils"
	"github.com/ontio/ontology/smartcontract/service/native/ont"
	nutils "github.com/ontio/ontology/smartcontract/service/native/utils"
)

// InvokeTx wraps NeoVM invoke code into an unsigned transaction.
func InvokeTx(code []byte, gasPrice, gasLimit uint64, nonce uint32, payer common.Address) *types.MutableTransaction {
	return &types.MutableTransaction{
		GasPrice: gasPrice, GasLimit: gasLimit, TxType: types.InvokeNeo, Nonce: nonce, Payer: payer,
		Payload: &payload.InvokeCode{Code: code}, Sigs: []types.Sig{},
	}
}

// NativeTx builds an unsigned native-contract invocation.
func NativeTx(contract common.Address, version byte, method string, params []interface{},
	gasPrice, gasLimit uint64, nonce uint32, payer common.Address) (*types.MutableTransaction, error) {
	code, err := cutils.BuildNativeInvokeCode(contract, version, method, params)
	if err != nil {
		return nil, err
	}
	return InvokeTx(code, gasPrice, gasLimit, nonce, payer), nil
}

// TokenAddr maps "ont"/"ong" to the native contract address.
func TokenAddr(asset string) common.Address {
	if asset == "ong" {
		return nutils.OngContractAddress
	}
	return nutils.OntContractAddress
}

// TransferTx builds an unsigned ONT/ONG transfer (method "transfer").
func TransferTx(asset string, from, to common.Address, amount uint64, gasPrice, gasLimit uint64, nonce uint32, payer common.Address) (*types.MutableTransaction, error) {
	sts := []*ont.TransferState{{From: from, To: to, Value: amount}}
	return NativeTx(TokenAddr(asset), 0, "transfer", []interface{}{sts}, gasPrice, gasLimit, nonce, payer)
}

// Sign appends a 1-of-1 signature set of acc over the transaction hash.
func Sign(tx *types.MutableTransaction, acc *account.Account) error {
	h := tx.Hash()
	sig, err := signature.Sign(acc, h[:])
	if err != nil {
		return err
	}
	tx.Sigs = append(tx.Sigs, types.Sig{PubKeys: []keypair.PublicKey{acc.PublicKey}, M: 1, SigData: [][]byte{sig}})
	return nil
}

// MultiSign appends an m-of-n signature set signed by the given accounts.
func MultiSign(tx *types.MutableTransaction, m uint16, pubs []keypair.PublicKey, signers []*account.Account) error {
	h := tx.Hash()
	var sigs [][]byte
	for _, a := range signers {
		s, err := signature.Sign(a, h[:])
		if err != nil {
			return err
		}
		sigs = append(sigs, s)
	}
	tx.Sigs = append(tx.Sigs, types.Sig{PubKeys: pubs, M: m, SigData: sigs})
	return nil
}

// Seal converts to an immutable transaction (serialise + parse: the bytes a
// node would receive).
func Seal(tx *types.MutableTransaction) (*types.Transaction, error) { return tx.IntoImmutable() }
