package world

import (
	"encoding/hex"
	"fmt"
	"os"
	"reflect"
	"testing/synctest"
	"unsafe"

	"github.com/ontio/ontology-crypto/keypair"
	"github.com/ontio/ontology/account"
	"github.com/ontio/ontology/common"
	"github.com/ontio/ontology/common/config"
	"github.com/ontio/ontology/common/constants"
	"github.com/ontio/ontology/core/genesis"
	"github.com/ontio/ontology/core/ledger"
	"github.com/ontio/ontology/core/signature"
	"github.com/ontio/ontology/core/store"
	"github.com/ontio/ontology/core/store/ledgerstore"
	"github.com/ontio/ontology/core/types"
	"github.com/ontio/ontology/events"

	"ontosim/simkit"
)

// Chain is one node's ledger on a simulated disk with a solo block producer in
// the harness (the producer is a stub of consensus/solo; everything from
// ExecuteBlock/SubmitBlock/AddBlock downward is the real code).
type Chain struct {
	C      *simkit.Ctx
	Name   string
	Disk   *simkit.Disk
	Dir    string
	Book   *account.Account // solo bookkeeper; holds the genesis ONT
	Gen    *types.Block
	Store  *ledgerstore.LedgerStoreImp
	Ledger *ledger.Ledger
	Now    uint32 // timestamp of the last produced block
	Opens  int
}

// NewSoloChain creates the bookkeeper account, sets the process-wide solo
// configuration and builds the genesis block. The ledger is not opened yet.
func NewSoloChain(c *simkit.Ctx, name string) *Chain {
	Init()
	book := account.NewAccount("")
	SoloConfig(hex.EncodeToString(keypair.SerializePublicKey(book.PublicKey)))
	events.DefActorPublisher = nil
	gen, err := genesis.BuildGenesisBlock([]keypair.PublicKey{book.PublicKey}, config.DefConfig.Genesis)
	c.Must(err, "BuildGenesisBlock")
	ch := &Chain{C: c, Name: name, Disk: simkit.NewDisk(), Book: book, Gen: gen, Now: constants.GENESIS_BLOCK_TIMESTAMP}
	ch.Dir = NewDataDir(ch.Disk)
	c.Defer(func() { ch.Close(); ReleaseDataDir(ch.Dir) })
	return ch
}

// Twin returns a second, independent node for the same genesis (own disk).
func (ch *Chain) Twin(name string) *Chain {
	t := &Chain{C: ch.C, Name: name, Disk: simkit.NewDisk(), Book: ch.Book, Gen: ch.Gen, Now: ch.Now}
	t.Dir = NewDataDir(t.Disk)
	ch.C.Defer(func() { t.Close(); ReleaseDataDir(t.Dir) })
	return t
}

// Open opens (or reopens) the ledger on the node's disk image, running the
// real recovery path.
func (ch *Chain) Open() error {
	if ch.Store != nil {
		return fmt.Errorf("already open")
	}
	st, err := ledgerstore.NewLedgerStore(ch.Dir, 0)
	if err != nil {
		return err
	}
	ch.Opens++
	ResetProcessGlobals() // a node that opens its ledger is a fresh process
	err = st.InitLedgerStoreWithGenesisBlock(ch.Gen, []keypair.PublicKey{ch.Book.PublicKey})
	if err != nil {
		CloseStore(st)
		return err
	}
	ch.Store = st
	ch.Ledger = &ledger.Ledger{LedgerStore: st}
	ledger.DefLedger = ch.Ledger
	return nil
}

// Close closes the ledger (clean shutdown, or disposal of a crashed process
// image: on a crashed disk nothing more reaches the image).
func (ch *Chain) Close() {
	if ch.Store != nil {
		CloseStore(ch.Store)
		ch.Store = nil
		ch.Ledger = nil
	}
}

// CloseStore closes a ledger store. LedgerStoreImp.Close returns at the first
// database whose Close reports an error (goleveldb reports the failed write of a
// crashed disk there), which would leave the remaining databases of a dead
// process image open, with their goroutines in the bubble; every store is
// therefore also closed individually.
func CloseStore(st *ledgerstore.LedgerStoreImp) {
	if st == nil {
		return
	}
	func() {
		defer func() { recover() }()
		st.Close()
	}()
	v := reflect.ValueOf(st).Elem()
	for _, name := range []string{"blockStore", "eventStore", "crossChainStore", "stateStore"} {
		f := v.FieldByName(name)
		if !f.IsValid() || f.IsNil() {
			continue
		}
		x := reflect.NewAt(f.Type(), unsafe.Pointer(f.UnsafeAddr())).Elem().Interface()
		if cl, ok := x.(interface{ Close() error }); ok {
			func() {
				defer func() { recover() }()
				cl.Close()
			}()
		}
	}
}

// Quiesce waits until every background goroutine (LevelDB compaction etc.) is
// durably blocked, so the next disk-op numbering is deterministic.
func Quiesce() { synctest.Wait() }

func (ch *Chain) Height() uint32 { return ch.Store.GetCurrentBlockHeight() }

// MakeBlock builds and signs the next block on top of the node's current tip,
// exactly as consensus/solo does, with an explicit timestamp and nonce.
func (ch *Chain) MakeBlock(txs []*types.Transaction, ts uint32, nonce uint64) *types.Block {
	owner := ch.Book.PublicKey
	next, err := types.AddressFromBookkeepers([]keypair.PublicKey{owner})
	ch.C.Must(err, "AddressFromBookkeepers")
	prev := ch.Store.GetCurrentBlockHash()
	h := ch.Store.GetCurrentBlockHeight()
	hashes := make([]common.Uint256, 0, len(txs))
	for _, t := range txs {
		hashes = append(hashes, t.Hash())
	}
	txRoot := common.ComputeMerkleRoot(hashes)
	blockRoot := ch.Store.GetBlockRootWithNewTxRoots(h+1, []common.Uint256{txRoot})
	hdr := &types.Header{
		Version: 0, PrevBlockHash: prev, TransactionsRoot: txRoot, BlockRoot: blockRoot,
		Timestamp: ts, Height: h + 1, ConsensusData: nonce, NextBookkeeper: next,
	}
	blk := &types.Block{Header: hdr, Transactions: txs}
	bh := blk.Hash()
	sig, err := signature.Sign(ch.Book, bh[:])
	ch.C.Must(err, "sign block")
	hdr.Bookkeepers = []keypair.PublicKey{owner}
	hdr.SigData = [][]byte{sig}
	return blk
}

// Commit executes and submits a block the way the solo producer does.
func (ch *Chain) Commit(blk *types.Block) (store.ExecuteResult, error) {
	res, err := ch.Store.ExecuteBlock(blk)
	if err != nil {
		return res, fmt.Errorf("ExecuteBlock: %w", err)
	}
	err = ch.Store.SubmitBlock(blk, nil, res)
	if err != nil {
		return res, fmt.Errorf("SubmitBlock: %w", err)
	}
	if blk.Header.Timestamp > ch.Now {
		ch.Now = blk.Header.Timestamp
	}
	return res, nil
}

// MerklePath is the node's block-root hash file (a real file on tmpfs; the
// only writer is the committing goroutine).
func (ch *Chain) MerklePath() string {
	return ch.Dir + string(os.PathSeparator) + ledgerstore.MerkleTreeStorePath
}

func (ch *Chain) MerkleFileLen() int64 {
	st, err := os.Stat(ch.MerklePath())
	if err != nil {
		return 0
	}
	return st.Size()
}

// OpenSplit is Open with a callback between opening the databases and the
// ledger's own initialisation/recovery (used to arm a crash inside recovery).
func (ch *Chain) OpenSplit(between func()) error {
	if ch.Store != nil {
		return fmt.Errorf("already open")
	}
	st, err := ledgerstore.NewLedgerStore(ch.Dir, 0)
	if err != nil {
		return err
	}
	ch.Opens++
	if between != nil {
		Quiesce() // background compaction must not race with the crash numbering
		between()
	}
	err = st.InitLedgerStoreWithGenesisBlock(ch.Gen, []keypair.PublicKey{ch.Book.PublicKey})
	if err != nil {
		CloseStore(st)
		return err
	}
	ch.Store = st
	ch.Ledger = &ledger.Ledger{LedgerStore: st}
	ledger.DefLedger = ch.Ledger
	return nil
}

// Stores lists the LevelDB databases of a node (paths relative to the data dir).
var Stores = []string{"block", "states", "ledgerevent", "crosschain"}

// Snapshot is the comparable logical state of a node at its current height.
type Snapshot struct {
	Height     uint32
	Hash       common.Uint256
	StateRoots []common.Uint256 // state merkle root for every height <= Height
	Digest     map[string]string
	KV         map[string][]simkit.KV
}

// Snap captures the node's full logical state (every store) and state roots.
func (ch *Chain) Snap(keepKV bool) (*Snapshot, error) {
	s := &Snapshot{Height: ch.Store.GetCurrentBlockHeight(), Hash: ch.Store.GetCurrentBlockHash(), Digest: map[string]string{}, KV: map[string][]simkit.KV{}}
	for h := uint32(0); h <= s.Height; h++ {
		r, err := ch.Store.GetStateMerkleRoot(h)
		if err != nil {
			return nil, fmt.Errorf("GetStateMerkleRoot(%d): %v", h, err)
		}
		s.StateRoots = append(s.StateRoots, r)
	}
	for _, name := range Stores {
		kv, err := ch.Disk.DumpStore(name)
		if err != nil {
			return nil, fmt.Errorf("dump %s: %v", name, err)
		}
		if name == "block" {
			// ST_ETH_FILTER_START (0x32) is a node-local marker written by the
			// first restart (which height eth log filters are served from); it is
			// not chain state and legitimately differs between nodes.
			f := kv[:0]
			for _, e := range kv {
				if len(e.K) == 1 && e.K[0] == 0x32 {
					continue
				}
				f = append(f, e)
			}
			kv = f
		}
		s.Digest[name] = simkit.DigestKV(kv)
		if keepKV {
			s.KV[name] = kv
		}
	}
	return s, nil
}
