package world

import (
	"encoding/hex"
	"encoding/json"
	"fmt"

	"github.com/ontio/ontology-crypto/keypair"
	"github.com/ontio/ontology-crypto/vrf"
	"github.com/ontio/ontology/account"
	"github.com/ontio/ontology/common"
	"github.com/ontio/ontology/common/config"
	"github.com/ontio/ontology/common/constants"
	"github.com/ontio/ontology/consensus/vbft"
	vconfig "github.com/ontio/ontology/consensus/vbft/config"
	"github.com/ontio/ontology/core/genesis"
	"github.com/ontio/ontology/core/ledger"
	"github.com/ontio/ontology/core/signature"
	"github.com/ontio/ontology/core/store/ledgerstore"
	"github.com/ontio/ontology/core/store/overlaydb"
	"github.com/ontio/ontology/core/types"
	cutils "github.com/ontio/ontology/core/utils"
	"github.com/ontio/ontology/events"
	"github.com/ontio/ontology/smartcontract/service/native/governance"
	nutils "github.com/ontio/ontology/smartcontract/service/native/utils"

	"ontosim/simkit"
)

// VbftOptions are the knobs of a VBFT-type private network. Zero values select
// the defaults noted on each field.
type VbftOptions struct {
	// InitPos[i] is the genesis stake of peer i (len == nPeers). nil: the
	// pattern of /repo/config.json (10000,20000,30000,40000,30000,20000,10000,...).
	// The genesis block only RECORDS these stakes (InitConfig calls
	// depositTotalStake); it does not move any ONT to the governance contract.
	InitPos []uint64
	C       uint32 // default (nPeers-1)/3
	L       uint32 // default 16*nPeers
	// MaxBlockChangeView: default 3000 (as /repo/config.json). InitConfig
	// accepts any value; UpdateConfig later insists on >= 10000.
	MaxBlockChangeView uint32
	MinInitStake       uint32 // default 10000 (the minimum CheckVBFTConfig accepts)
	BlockMsgDelay      uint32 // ms, default 10000
	HashMsgDelay       uint32 // ms, default 10000
	HandshakeTimeout   uint32 // s, default 10
}

// VbftChain is one node's ledger (a *Chain: Commit/Snap/Close/Height/... work
// unchanged) for a chain whose genesis consensus type is "vbft": the genesis
// block installs nPeers consensus peers in the governance contract, all ONT
// belongs to the (5n+6)/7-of-n multi-signature address of the peers (which is
// also the operator/"admin" of the governance contract), and every later block
// header carries a VBFT consensus payload and peer signatures that the
// ledger's verifyHeader checks. The block producer is the harness
// (MakeVbftBlock); it follows consensus/vbft's constructProposalMsg /
// constructBlock. Use VbftChain.Open/OpenSplit/Twin, not the embedded Chain's.
type VbftChain struct {
	*Chain
	// Peers are the genesis consensus peers in config order: Peers[i] has
	// governance index i+1, node key Peers[i].PublicKey and is registered with
	// owner address Peers[i].Address.
	Peers []*account.Account
	// Keys maps hex node public key -> account for every node the harness can
	// sign blocks for. Genesis peers are present; add candidate nodes with AddKey.
	Keys map[string]*account.Account
	VBFT *config.VBFTConfig // the genesis VBFT configuration (same object as config.DefConfig.Genesis.VBFT)
	// AutoCommitDpos makes MakeVbftBlock behave like a VBFT proposer at an epoch
	// boundary: when MaxBlockChangeView blocks have passed since the last chain
	// configuration block it puts the unsigned system transaction
	// governance.commitDpos first in the block and announces the next chain
	// configuration in the same block. Off: epochs change only through
	// transactions the caller supplies.
	AutoCommitDpos bool
}

// MainnetVrfValue / MainnetVrfProof seed the VRF chain of every ontology
// network (the same constants are in MainNetConfig, PolarisConfig and config.json).
const (
	MainnetVrfValue = "1c9810aa9822e511d5804a9c4db9dd08497c31087b0daafa34d768a3253441fa20515e2f30f81741102af0ca3cefc4818fef16adb825fbaa8cad78647f3afb590e"
	MainnetVrfProof = "c57741f934042cb8d8b087b44b161db56fc3ffd4ffb675d36cd09f83935be853d8729f3f5298d12d6fd28d45dde515a4b9d7f67682d182ba5118abf451ff1988"
)

// PubHex is the hex node id of an account's public key.
func PubHex(a *account.Account) string {
	return hex.EncodeToString(keypair.SerializePublicKey(a.PublicKey))
}

// VbftChainConfig resets config.DefConfig to a private VBFT network with the given
// genesis peers: a private network id (every height-gated upgrade active from
// genesis, ONT holders' ONG unbinding already redirected to the governance
// contract), gas price 0, event log on.
func VbftChainConfig(peers []*account.Account, o VbftOptions) *config.VBFTConfig {
	n := uint32(len(peers))
	if o.C == 0 {
		o.C = (n - 1) / 3
	}
	if o.L == 0 {
		o.L = 16 * n
	}
	if o.MaxBlockChangeView == 0 {
		o.MaxBlockChangeView = 3000
	}
	if o.MinInitStake == 0 {
		o.MinInitStake = 10000
	}
	if o.BlockMsgDelay == 0 {
		o.BlockMsgDelay = 10000
	}
	if o.HashMsgDelay == 0 {
		o.HashMsgDelay = 10000
	}
	if o.HandshakeTimeout == 0 {
		o.HandshakeTimeout = 10
	}
	v := &config.VBFTConfig{
		N: n, C: o.C, K: n, L: o.L,
		BlockMsgDelay: o.BlockMsgDelay, HashMsgDelay: o.HashMsgDelay,
		PeerHandshakeTimeout: o.HandshakeTimeout, MaxBlockChangeView: o.MaxBlockChangeView,
		MinInitStake: o.MinInitStake,
		AdminOntID:   "did:ont:AMAx993nE6NEqZjwBssUfopxnnvTdob9ij",
		VrfValue:     MainnetVrfValue, VrfProof: MainnetVrfProof,
	}
	pattern := []uint64{10000, 20000, 30000, 40000, 30000, 20000, 10000}
	for i, p := range peers {
		pos := pattern[i%len(pattern)]
		if o.InitPos != nil {
			pos = o.InitPos[i]
		}
		v.Peers = append(v.Peers, &config.VBFTPeerStakeInfo{
			Index: uint32(i + 1), PeerPubkey: PubHex(p), Address: p.Address.ToBase58(), InitPos: pos,
		})
	}
	cfg := config.NewOntologyConfig()
	cfg.Genesis = &config.GenesisConfig{
		SeedList:      []string{},
		ConsensusType: config.CONSENSUS_TYPE_VBFT,
		VBFT:          v,
		DBFT:          &config.DBFTConfig{},
		SOLO:          &config.SOLOConfig{},
	}
	// A private VBFT network gets its id from the hash of its genesis
	// configuration (cmd/ontology: GetDefaultNetworkId). Any id other than
	// main net (1) and polaris (2) activates every height-gated upgrade from
	// genesis; id 3 (solo test mode) must be avoided: there OngInit hands the
	// whole ONG supply to the first bookkeeper instead of the ONT contract, and
	// commitDpos (which unbinds ONG from the ONT contract) can never succeed.
	id, err := cfg.GetDefaultNetworkId()
	if err != nil || id <= config.NETWORK_ID_SOLO_NET {
		id = PrivateNetID
	}
	cfg.P2PNode.NetworkId = id
	cfg.P2PNode.NetworkMagic = id
	cfg.P2PNode.EVMChainId = config.GetEip155ChainID(config.NETWORK_ID_SOLO_NET)
	cfg.Common.GasPrice = 0
	cfg.Common.EnableEventLog = true
	config.DefConfig = cfg
	return v
}

// PrivateNetID is used when the configuration hash happens to collide with a
// reserved network id.
const PrivateNetID = 0x6f6e7404

// NewVbftChain generates nPeers node accounts, installs the process-wide VBFT
// configuration and builds the genesis block exactly as cmd/ontology does
// (bookkeepers = the sorted peer keys). The ledger is not opened yet.
//
// nPeers must be >= 7: the governance contract's InitConfig (CheckVBFTConfig)
// rejects K < 7 and K != len(peers), and a rejected InitConfig leaves a chain
// without any governance state.
func NewVbftChain(c *simkit.Ctx, name string, nPeers int, o VbftOptions) *VbftChain {
	Init()
	if nPeers < 7 {
		c.Harness("NewVbftChain: governance InitConfig needs K = len(peers) >= 7, got %d", nPeers)
	}
	if o.InitPos != nil && len(o.InitPos) != nPeers {
		c.Harness("NewVbftChain: len(InitPos) = %d, want %d", len(o.InitPos), nPeers)
	}
	peers := make([]*account.Account, nPeers)
	keys := map[string]*account.Account{}
	for i := range peers {
		peers[i] = account.NewAccount("")
		keys[PubHex(peers[i])] = peers[i]
	}
	vcfg := VbftChainConfig(peers, o)
	events.DefActorPublisher = nil
	book, err := config.DefConfig.GetBookkeepers()
	c.Must(err, "GetBookkeepers")
	gen, err := genesis.BuildGenesisBlock(book, config.DefConfig.Genesis)
	c.Must(err, "BuildGenesisBlock")
	ch := &Chain{C: c, Name: name, Disk: simkit.NewDisk(), Book: peers[0], Gen: gen, Now: constants.GENESIS_BLOCK_TIMESTAMP}
	ch.Dir = NewDataDir(ch.Disk)
	c.Defer(func() { ch.Close(); ReleaseDataDir(ch.Dir) })
	return &VbftChain{Chain: ch, Peers: peers, Keys: keys, VBFT: vcfg}
}

// Twin returns a second, independent node for the same genesis (own disk).
func (v *VbftChain) Twin(name string) *VbftChain {
	return &VbftChain{Chain: v.Chain.Twin(name), Peers: v.Peers, Keys: v.Keys, VBFT: v.VBFT, AutoCommitDpos: v.AutoCommitDpos}
}

// AddKey lets the harness sign blocks for a further node (a candidate that may
// be elected into the consensus set).
func (v *VbftChain) AddKey(a *account.Account) { v.Keys[PubHex(a)] = a }

// Open opens (or reopens) the ledger on the node's disk image with the peers
// as default bookkeepers, running the real recovery path.
func (v *VbftChain) Open() error { return v.OpenSplit(nil) }

// OpenSplit is Open with a callback between opening the databases and the
// ledger's own initialisation/recovery.
func (v *VbftChain) OpenSplit(between func()) error {
	ch := v.Chain
	if ch.Store != nil {
		return fmt.Errorf("already open")
	}
	st, err := ledgerstore.NewLedgerStore(ch.Dir, 0)
	if err != nil {
		return err
	}
	ch.Opens++
	if between != nil {
		between()
	}
	book, err := config.DefConfig.GetBookkeepers()
	if err == nil {
		err = st.InitLedgerStoreWithGenesisBlock(ch.Gen, book)
	}
	if err != nil {
		func() {
			defer func() { recover() }()
			st.Close()
		}()
		return err
	}
	ch.Store = st
	ch.Ledger = &ledger.Ledger{LedgerStore: st}
	ledger.DefLedger = ch.Ledger
	return nil
}

// AdminM is the number of peer signatures the genesis ONT holder / governance
// admin address needs: (5n+6)/7, as core/genesis computes it.
func (v *VbftChain) AdminM() int { return (5*len(v.Peers) + 6) / 7 }

// AdminKeys are the peers' public keys in canonical (sorted) order.
func (v *VbftChain) AdminKeys() []keypair.PublicKey {
	ks := make([]keypair.PublicKey, len(v.Peers))
	for i, p := range v.Peers {
		ks[i] = p.PublicKey
	}
	return keypair.SortPublicKeys(ks)
}

// AdminAddr is the multi-signature address that holds all ONT at genesis and
// is the operator of the global-params contract, i.e. the address whose
// witness the governance contract's admin methods (approveCandidate,
// blackNode, commitDpos before the epoch's end, updateConfig ...) demand.
func (v *VbftChain) AdminAddr() common.Address {
	a, err := types.AddressFromMultiPubKeys(v.AdminKeys(), v.AdminM())
	v.C.Must(err, "admin address")
	return a
}

// AdminSign appends the admin's m-of-n signature set (signed by the first m
// peers in canonical key order).
func (v *VbftChain) AdminSign(tx *types.MutableTransaction) error {
	keys := v.AdminKeys()
	signers := make([]*account.Account, 0, v.AdminM())
	for _, k := range keys[:v.AdminM()] {
		signers = append(signers, v.Keys[hex.EncodeToString(keypair.SerializePublicKey(k))])
	}
	return MultiSign(tx, uint16(v.AdminM()), keys, signers)
}

// ChainConfigAt returns the chain configuration in force for the block after
// the current tip, and the height of the block that announced it — the values
// a VBFT node derives from the tip header (LastConfigBlockNum / NewChainConfig).
func (v *VbftChain) ChainConfigAt() (*vconfig.ChainConfig, uint32, error) {
	tip, err := v.Store.GetHeaderByHash(v.Store.GetCurrentBlockHash())
	if err != nil {
		return nil, 0, err
	}
	info, err := vconfig.VbftBlock(tip)
	if err != nil {
		return nil, 0, err
	}
	if info.NewChainConfig != nil {
		return info.NewChainConfig, tip.Height, nil
	}
	h, err := v.Store.GetHeaderByHeight(info.LastConfigBlockNum)
	if err != nil {
		return nil, 0, err
	}
	ci, err := vconfig.VbftBlock(h)
	if err != nil {
		return nil, 0, err
	}
	if ci.NewChainConfig == nil {
		return nil, 0, fmt.Errorf("block %d is named as configuration block but carries no chain config", info.LastConfigBlockNum)
	}
	return ci.NewChainConfig, info.LastConfigBlockNum, nil
}

// GovChainConfig is consensus/vbft's unexported getChainConfig(memdb, blkNum)
// spelled with the exported functions it is made of: the chain configuration
// that the governance state yields for block blkNum (peer list from Go map
// iteration over the current peer pool, sorted and cut to K by
// vconfig.GenesisChainConfig). memdb is a write set on top of the ledger (as
// the consensus passes its pre-executed block's), nil = the ledger's tip.
func (v *VbftChain) GovChainConfig(memdb *overlaydb.MemDB, blkNum uint32) (*vconfig.ChainConfig, error) {
	ledger.DefLedger = v.Ledger
	cfg, err := vbft.GetVbftConfigInfo(memdb)
	if err != nil {
		return nil, fmt.Errorf("failed to get chainconfig from leveldb: %s", err)
	}
	peers, err := vbft.GetPeersConfig(memdb)
	if err != nil {
		return nil, fmt.Errorf("failed to get peersinfo from leveldb: %s", err)
	}
	gv, err := vbft.GetGovernanceView(memdb)
	if err != nil {
		return nil, fmt.Errorf("failed to get governanceview failed:%s", err)
	}
	cc, err := vconfig.GenesisChainConfig(cfg, peers, gv.TxHash, blkNum)
	if err != nil {
		return nil, fmt.Errorf("GenesisChainConfig failed: %s", err)
	}
	cc.View = gv.View
	return cc, nil
}

// CommitDposSysTx is the unsigned system transaction a VBFT proposer puts into
// the block that ends an epoch (consensus/vbft creategovernaceTransaction).
func CommitDposSysTx(blkNum uint32) (*types.Transaction, error) {
	m := cutils.BuildNativeTransaction(nutils.GovernanceContractAddress, governance.COMMIT_DPOS, []byte{})
	m.Nonce = blkNum
	return m.IntoImmutable()
}

type vrfData struct {
	BlockNum uint32 `json:"block_num"`
	PrevVrf  []byte `json:"prev_vrf"`
}

// MakeVbftBlock builds the next block on the node's tip the way a VBFT
// proposer does and signs it with as many peers of the chain configuration in
// force as verifyHeader demands (max(n-6n/7, C+1) distinct consensus peers):
// consensus payload {proposer index, VRF value/proof chained to the previous
// block, LastConfigBlockNum, NewChainConfig}. NewChainConfig is set in the
// block after a governance view change (the state at the tip has a higher view
// than the configuration in force), and — with AutoCommitDpos — in the block
// that itself carries the commitDpos system transaction at the epoch's end.
// The proposer is the first peer of the configuration the harness has a key for.
func (v *VbftChain) MakeVbftBlock(txs []*types.Transaction, ts uint32, nonce uint64) *types.Block {
	c := v.C
	cur, cfgHeight, err := v.ChainConfigAt()
	c.Must(err, "chain config at tip")
	prevHash := v.Store.GetCurrentBlockHash()
	prev, err := v.Store.GetHeaderByHash(prevHash)
	c.Must(err, "tip header")
	prevInfo, err := vconfig.VbftBlock(prev)
	c.Must(err, "tip consensus payload")
	h := prev.Height + 1

	// chain configuration update, as Server.makeProposal decides it
	var newCfg *vconfig.ChainConfig
	endOfEpoch := v.AutoCommitDpos && h-cfgHeight >= cur.MaxBlockChangeView
	gv, err := func() (*governance.GovernanceView, error) {
		ledger.DefLedger = v.Ledger
		return vbft.GetGovernanceView(nil)
	}()
	c.Must(err, "governance view")
	if endOfEpoch || gv.View > cur.View {
		newCfg, err = v.GovChainConfig(nil, h)
		c.Must(err, "chain config from governance state")
		if endOfEpoch {
			sys, err := CommitDposSysTx(h)
			c.Must(err, "commitDpos system transaction")
			txs = append([]*types.Transaction{sys}, txs...)
			newCfg.View++
		}
	}
	lastCfg := cfgHeight
	if newCfg != nil {
		lastCfg = h
	}

	// signers: consensus peers of the configuration in force
	var signers []*account.Account
	var proposer uint32
	need := len(cur.Peers) - len(cur.Peers)*6/7
	if int(cur.C)+1 > need {
		need = int(cur.C) + 1
	}
	for _, p := range cur.Peers {
		if a := v.Keys[p.ID]; a != nil && len(signers) < need {
			if len(signers) == 0 {
				proposer = p.Index
			}
			signers = append(signers, a)
		}
	}
	if len(signers) < need {
		c.Harness("MakeVbftBlock: keys for only %d of the %d consensus peers needed at height %d (AddKey the elected candidates)", len(signers), need, h)
	}
	data, err := json.Marshal(&vrfData{BlockNum: h, PrevVrf: prevInfo.VrfValue})
	c.Must(err, "vrf data")
	vrfValue, vrfProof, err := vrf.Vrf(signers[0].PrivateKey, data)
	c.Must(err, "vrf")
	payload, err := json.Marshal(&vconfig.VbftBlockInfo{
		Proposer: proposer, VrfValue: vrfValue, VrfProof: vrfProof, LastConfigBlockNum: lastCfg, NewChainConfig: newCfg,
	})
	c.Must(err, "consensus payload")

	hashes := make([]common.Uint256, 0, len(txs))
	for _, t := range txs {
		hashes = append(hashes, t.Hash())
	}
	txRoot := common.ComputeMerkleRoot(hashes)
	blockRoot := v.Store.GetBlockRootWithNewTxRoots(h, []common.Uint256{txRoot})
	hdr := &types.Header{
		Version: 0, PrevBlockHash: prevHash, TransactionsRoot: txRoot, BlockRoot: blockRoot,
		Timestamp: ts, Height: h, ConsensusData: nonce, ConsensusPayload: payload,
	}
	blk := &types.Block{Header: hdr, Transactions: txs}
	bh := blk.Hash()
	for _, a := range signers {
		sig, err := signature.Sign(a, bh[:])
		c.Must(err, "sign block")
		hdr.Bookkeepers = append(hdr.Bookkeepers, a.PublicKey)
		hdr.SigData = append(hdr.SigData, sig)
	}
	return blk
}
