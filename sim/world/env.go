// Package world builds the simulated worlds (ledger, cluster, ...) out of the
// real ontology code plus the simkit kernel.
package world

import (
	"fmt"
	sneovm "github.com/ontio/ontology/smartcontract/service/neovm"
	"os"
	"strings"
	"sync"
	"sync/atomic"

	"github.com/ontio/ontology/common/config"
	"github.com/ontio/ontology/common/log"
	"github.com/ontio/ontology/common/simhook"
	"github.com/syndtr/goleveldb/leveldb/storage"

	"ontosim/simkit"
)

var (
	initOnce sync.Once
	scratch  string
	dirSeq   int64

	diskMu sync.Mutex
	disks  = map[string]*simkit.Disk{} // data dir -> disk
)

// Init prepares process-global state once: silent logger, scratch directory,
// storage seam.
func Init() {
	initOnce.Do(func() {
		if os.Getenv("VERIF_SYSLOG") != "" {
			log.InitLog(log.InfoLog, log.Stdout) // debugging aid: the node's own log on stdout
		} else {
			log.InitLog(log.MaxLevelLog) // no writers: discard
		}
		scratch = fmt.Sprintf("/dev/shm/ontosim-%d", os.Getpid())
		os.RemoveAll(scratch)
		if err := os.MkdirAll(scratch, 0755); err != nil {
			panic(simkit.HarnessError{Msg: "scratch dir: " + err.Error()})
		}
		if !simhook.Enabled {
			panic(simkit.HarnessError{Msg: "built without -tags verif: hooks are off"})
		}
		simhook.OpenStorageFn = openStorage
	})
	ResetProcessGlobals()
}

// ResetProcessGlobals puts process-global state of the node back to what a
// freshly started process has: the NeoVM price table. Called at the start of
// every run (a run that changes prices on chain must not leak them into the
// next run of this worker process) and whenever a simulated node (re)starts.
func ResetProcessGlobals() {
	for k, v := range sneovm.INIT_GAS_TABLE {
		sneovm.GAS_TABLE.Store(k, v)
	}
}

// Scratch returns the per-process scratch directory (tmpfs).
func Scratch() string { Init(); return scratch }

// NewDataDir returns a fresh directory name under the scratch dir and binds a
// simulated disk to every LevelDB opened below it.
func NewDataDir(d *simkit.Disk) string {
	Init()
	dir := fmt.Sprintf("%s/n%d", scratch, atomic.AddInt64(&dirSeq, 1))
	if err := os.MkdirAll(dir, 0755); err != nil {
		panic(simkit.HarnessError{Msg: "data dir: " + err.Error()})
	}
	diskMu.Lock()
	disks[dir] = d
	diskMu.Unlock()
	return dir
}

// ReleaseDataDir forgets the binding and removes the directory.
func ReleaseDataDir(dir string) {
	diskMu.Lock()
	delete(disks, dir)
	diskMu.Unlock()
	os.RemoveAll(dir)
}

func openStorage(path string) storage.Storage {
	diskMu.Lock()
	defer diskMu.Unlock()
	for dir, d := range disks {
		if strings.HasPrefix(path, dir+string(os.PathSeparator)) {
			return d.Storage(path[len(dir)+1:])
		}
	}
	return nil
}

// SoloConfig resets config.DefConfig to a private solo network (network id 3:
// every height-gated upgrade active from genesis).
func SoloConfig(bookkeeperPubHex string) {
	cfg := config.NewOntologyConfig()
	// as `ontology --testmode` does: the default (mainnet) genesis with the
	// consensus type switched to solo; MainNetConfig itself is not mutated.
	cfg.Genesis = &config.GenesisConfig{
		SeedList:      []string{},
		ConsensusType: config.CONSENSUS_TYPE_SOLO,
		SOLO: &config.SOLOConfig{
			GenBlockTime: config.DEFAULT_GEN_BLOCK_TIME,
			Bookkeepers:  []string{bookkeeperPubHex},
		},
		VBFT: config.MainNetConfig.VBFT,
		DBFT: config.MainNetConfig.DBFT,
	}
	cfg.P2PNode.NetworkId = config.NETWORK_ID_SOLO_NET
	cfg.P2PNode.NetworkMagic = config.GetNetworkMagic(config.NETWORK_ID_SOLO_NET)
	cfg.P2PNode.EVMChainId = config.GetEip155ChainID(config.NETWORK_ID_SOLO_NET)
	cfg.Common.GasPrice = 0
	cfg.Common.EnableEventLog = true
	config.DefConfig = cfg
}
