package world

import (
	"bytes"
	"encoding/hex"
	"fmt"
	"sort"
	"sync"
	"time"

	"github.com/ontio/ontology-crypto/keypair"
	"github.com/ontio/ontology-eventbus/actor"
	"github.com/ontio/ontology-eventbus/eventhub"
	"github.com/ontio/ontology/account"
	"github.com/ontio/ontology/common"
	"github.com/ontio/ontology/common/config"
	"github.com/ontio/ontology/common/simhook"
	"github.com/ontio/ontology/consensus/vbft"
	"github.com/ontio/ontology/core/genesis"
	"github.com/ontio/ontology/core/ledger"
	"github.com/ontio/ontology/core/store/ledgerstore"
	"github.com/ontio/ontology/core/types"
	ontErrors "github.com/ontio/ontology/errors"
	"github.com/ontio/ontology/events"
	p2pcommon "github.com/ontio/ontology/p2pserver/common"
	msgpack "github.com/ontio/ontology/p2pserver/message/msg_pack"
	p2ptypes "github.com/ontio/ontology/p2pserver/message/types"
	"github.com/ontio/ontology/p2pserver/peer"
	txpool "github.com/ontio/ontology/txnpool/common"

	"ontosim/simkit"
)

// VbftConfig sets the private VBFT network of n consensus peers (index 1..n).
func VbftConfig(peers []*account.Account, c uint32) {
	n := uint32(len(peers))
	cfg := config.NewOntologyConfig()
	v := &config.VBFTConfig{
		N: n, C: c, K: n, L: n * 4,
		BlockMsgDelay: 10000, HashMsgDelay: 10000, PeerHandshakeTimeout: 10, MaxBlockChangeView: 100000,
		AdminOntID:   config.PolarisConfig.VBFT.AdminOntID,
		MinInitStake: 10000,
		VrfValue:     config.PolarisConfig.VBFT.VrfValue,
		VrfProof:     config.PolarisConfig.VBFT.VrfProof,
	}
	for i, a := range peers {
		v.Peers = append(v.Peers, &config.VBFTPeerStakeInfo{
			Index: uint32(i + 1), PeerPubkey: hex.EncodeToString(keypair.SerializePublicKey(a.PublicKey)),
			Address: a.Address.ToBase58(), InitPos: 10000,
		})
	}
	cfg.Genesis = &config.GenesisConfig{SeedList: []string{}, ConsensusType: config.CONSENSUS_TYPE_VBFT, VBFT: v,
		DBFT: &config.DBFTConfig{}, SOLO: &config.SOLOConfig{}}
	cfg.P2PNode.NetworkId = 77 // private: every height-gated upgrade active from genesis
	cfg.P2PNode.NetworkMagic = config.GetNetworkMagic(77)
	cfg.P2PNode.EVMChainId = config.GetEip155ChainID(77)
	cfg.Common.GasPrice = 0
	config.DefConfig = cfg
}

// NetMsg is one consensus message in flight on the simulated network, as the
// bytes produced by the real p2p codec.
type NetMsg struct {
	ID       int
	From, To int // node numbers (0-based)
	Seq      int // per-sender sequence
	Wire     []byte
	Desc     string
	Kind     vbft.MsgType
	Blk      uint32
}

// VNode is one consensus node: real ledger on its own SimDisk, real vbft.Server.
type VNode struct {
	I       int // 0-based; consensus index is I+1
	Acc     *account.Account
	Chain   *Chain
	Srv     *vbft.Server
	P2P     *simP2P
	Pool    *actor.PID
	PoolTx  []*types.Transaction // what the tx-pool stub offers to proposals
	Byz     bool
	Crashed bool // crashed at least once in this run (counts as faulty from then on)
	Down    bool
	gen     int
}

// VbftNet is the W-vbft world.
type VbftNet struct {
	C        *simkit.Ctx
	N        int
	Cfault   int
	Nodes    []*VNode
	Sched    *simkit.Sched
	Flight   []*NetMsg // in flight, ordered by (From, Seq, To)
	mu       sync.Mutex
	arrivals []*NetMsg // sent since the last Settle, in the runtime's arrival order
	nextID   int
	sendSeq  []int
	Part     [][]bool // Part[i][j]: link i->j cut
	Gen      *types.Block
	Books    []keypair.PublicKey
	// OnSend lets a property intercept traffic (e.g. a Byzantine sender); return false to swallow.
	OnSend func(m *NetMsg) bool
	Sent   int
	dead   []*vbft.Server // stopped servers (late timer callbacks are still drained at shutdown)
}

type simP2P struct {
	net  *VbftNet
	node int
}

func (p *simP2P) Connect(addr string)                     {}
func (p *simP2P) GetHostInfo() *peer.PeerInfo             { return nil }
func (p *simP2P) GetID() p2pcommon.PeerId                 { return PeerIDOf(p.node) }
func (p *simP2P) GetNeighbors() []*peer.Peer              { return nil }
func (p *simP2P) GetNeighborAddrs() []p2pcommon.PeerAddr  { return nil }
func (p *simP2P) GetConnectionCnt() uint32                { return uint32(p.net.N - 1) }
func (p *simP2P) GetMaxPeerBlockHeight() uint64           { return 0 }
func (p *simP2P) GetPeer(id p2pcommon.PeerId) *peer.Peer  { return nil }
func (p *simP2P) SetHeight(uint64)                        {}
func (p *simP2P) Send(*peer.Peer, p2ptypes.Message) error { return nil }
func (p *simP2P) GetOutConnRecordLen() uint               { return 0 }
func (p *simP2P) IsOwnAddress(addr string) bool           { return false }

func (p *simP2P) Broadcast(msg p2ptypes.Message) {
	for j := 0; j < p.net.N; j++ {
		if j != p.node {
			p.net.enqueue(p.node, j, msg)
		}
	}
}

func (p *simP2P) SendTo(id p2pcommon.PeerId, msg p2ptypes.Message) {
	for j := 0; j < p.net.N; j++ {
		if PeerIDOf(j) == id {
			p.net.enqueue(p.node, j, msg)
			return
		}
	}
}

// PeerIDOf is the p2p id of node i.
func PeerIDOf(i int) p2pcommon.PeerId { return p2pcommon.PseudoPeerIdFromUint64(uint64(i + 1)) }

func (n *VbftNet) enqueue(from, to int, msg p2ptypes.Message) {
	sink := common.NewZeroCopySink(nil)
	p2ptypes.WriteMessage(sink, msg)
	m := &NetMsg{From: from, To: to, Wire: sink.Bytes(), Desc: "non-consensus", Kind: 255}
	if cons, ok := msg.(*p2ptypes.Consensus); ok {
		m.Desc = vbft.SimDescribe(cons.Cons.Data)
		m.Kind, m.Blk = vbft.SimMsgKind(cons.Cons.Data)
	}
	n.Inject(m)
}

// Inject puts a message on the wire (also used by Byzantine drivers). The
// servers send from goroutines the scheduler does not gate (`go p2p.SendTo`,
// one per receiver), so their arrival order is the runtime's: arrivals are
// only collected here and get their identity in Settle, in content order.
func (n *VbftNet) Inject(m *NetMsg) {
	n.mu.Lock()
	n.arrivals = append(n.arrivals, m)
	n.mu.Unlock()
}

// Settle (root goroutine, after quiescence) numbers the messages sent since
// the last call in an order that does not depend on which sending goroutine
// ran first: by sender, receiver, kind, block and bytes.
func (n *VbftNet) Settle() {
	n.mu.Lock()
	arr := n.arrivals
	n.arrivals = nil
	n.mu.Unlock()
	sort.SliceStable(arr, func(i, j int) bool {
		a, b := arr[i], arr[j]
		if a.From != b.From {
			return a.From < b.From
		}
		if a.To != b.To {
			return a.To < b.To
		}
		if a.Kind != b.Kind {
			return a.Kind < b.Kind
		}
		if a.Blk != b.Blk {
			return a.Blk < b.Blk
		}
		return bytes.Compare(a.Wire, b.Wire) < 0
	})
	for _, m := range arr {
		n.nextID++
		m.ID = n.nextID
		n.sendSeq[m.From]++
		m.Seq = n.sendSeq[m.From]
		n.Sent++
		if n.OnSend != nil && !n.OnSend(m) {
			continue
		}
		n.Flight = append(n.Flight, m)
	}
}

// SortFlight orders the in-flight set by (sender, per-sender sequence, receiver): never by content.
func (n *VbftNet) SortFlight() {
	n.Settle()
	sort.SliceStable(n.Flight, func(i, j int) bool {
		a, b := n.Flight[i], n.Flight[j]
		if a.From != b.From {
			return a.From < b.From
		}
		if a.Seq != b.Seq {
			return a.Seq < b.Seq
		}
		return a.To < b.To
	})
}

// Take removes the k-th in-flight message.
func (n *VbftNet) Take(k int) *NetMsg {
	m := n.Flight[k]
	n.Flight = append(n.Flight[:k], n.Flight[k+1:]...)
	return m
}

// Deliver hands wire bytes to node `to` the way the p2p layer does: real
// ReadMessage, payload signature check, sender id, then the consensus actor.
func (n *VbftNet) Deliver(m *NetMsg) string {
	nd := n.Nodes[m.To]
	if nd.Down || nd.Srv == nil {
		return "receiver-down"
	}
	msg, _, err := p2ptypes.ReadMessage(bytes.NewReader(m.Wire))
	if err != nil {
		return "undecodable: " + err.Error()
	}
	cons, ok := msg.(*p2ptypes.Consensus)
	if !ok {
		return "not-consensus"
	}
	if err := cons.Cons.Verify(); err != nil {
		return "bad-payload-signature"
	}
	cons.Cons.PeerId = PeerIDOf(m.From)
	nd.Srv.GetPID().Tell(&cons.Cons)
	return "ok"
}

// poolActor is the tx-pool stub: offers node.PoolTx and accepts every block.
type poolActor struct{ nd *VNode }

func (p *poolActor) Receive(ctx actor.Context) {
	switch msg := ctx.Message().(type) {
	case *txpool.GetTxnPoolReq:
		var out []*txpool.VerifiedTx
		for _, tx := range p.nd.PoolTx {
			out = append(out, &txpool.VerifiedTx{Tx: tx, VerifiedHeight: msg.Height})
		}
		if ctx.Sender() != nil {
			ctx.Sender().Request(&txpool.GetTxnPoolRsp{TxnPool: out}, ctx.Self())
		}
	case *txpool.VerifyBlockReq:
		var res []*txpool.VerifyTxResult
		for _, tx := range msg.Txs {
			res = append(res, &txpool.VerifyTxResult{Height: msg.Height, Tx: tx, ErrCode: ontErrors.ErrNoError})
		}
		if ctx.Sender() != nil {
			ctx.Sender().Request(&txpool.VerifyBlockRsp{TxnPool: res}, ctx.Self())
		}
	}
}

var vbftNetSeq int

// NewVbftNet builds n nodes with a common VBFT genesis, opens their ledgers and
// installs the gate scheduler. Servers are started with StartAll.
func NewVbftNet(c *simkit.Ctx, n, cfault int) *VbftNet {
	Init()
	// events.Init() would spawn a process-wide publisher actor inside this run's
	// bubble; only the hub is needed (the ledger publishes nothing: publisher nil).
	events.DefEvtHub = eventhub.GlobalEventHub
	events.DefActorPublisher = nil
	net := &VbftNet{C: c, N: n, Cfault: cfault, Sched: simkit.NewSched(), sendSeq: make([]int, n)}
	net.Part = make([][]bool, n)
	for i := range net.Part {
		net.Part[i] = make([]bool, n)
	}
	var accs []*account.Account
	for i := 0; i < n; i++ {
		accs = append(accs, account.NewAccount(""))
	}
	VbftConfig(accs, uint32(cfault))
	books, err := config.DefConfig.GetBookkeepers()
	c.Must(err, "GetBookkeepers")
	net.Books = books
	gen, err := genesis.BuildGenesisBlock(books, config.DefConfig.Genesis)
	c.Must(err, "BuildGenesisBlock(vbft)")
	net.Gen = gen
	simhook.YieldFn = net.Sched.Yield
	// Go's map iteration order cannot be seeded; where a server's decision depends
	// on it (which endorser's signatures are counted first) the run owns the order:
	// ascending keys rotated by an amount fixed by the run seed, node and key count
	runSeed := c.Tape.Seed
	simhook.OrderFn = func(site string, a int, keys []uint32) []uint32 {
		if len(keys) < 2 {
			return keys
		}
		r := int(simkit.Mix(runSeed, uint64(a), uint64(len(keys))) % uint64(len(keys)))
		return append(append([]uint32{}, keys[r:]...), keys[:r]...)
	}
	c.Defer(func() { simhook.YieldFn = nil; simhook.OrderFn = nil })
	vbftNetSeq++
	for i := 0; i < n; i++ {
		nd := &VNode{I: i, Acc: accs[i]}
		nd.Chain = &Chain{C: c, Name: fmt.Sprintf("n%d", i), Disk: simkit.NewDisk(), Book: accs[i], Gen: gen, Now: gen.Header.Timestamp}
		nd.Chain.Dir = NewDataDir(nd.Chain.Disk)
		nd.P2P = &simP2P{net: net, node: i}
		net.Nodes = append(net.Nodes, nd)
		c.Must(net.openLedger(nd), "open vbft ledger")
	}
	c.Defer(net.Shutdown)
	return net
}

func (n *VbftNet) openLedger(nd *VNode) error {
	st, err := ledgerstore.NewLedgerStore(nd.Chain.Dir, 0)
	if err != nil {
		return err
	}
	if err := st.InitLedgerStoreWithGenesisBlock(n.Gen, n.Books); err != nil {
		st.Close()
		return err
	}
	nd.Chain.Store = st
	nd.Chain.Ledger = &ledger.Ledger{LedgerStore: st}
	return nil
}

// ReopenLedger opens the node's ledger again on its disk image (after a crash).
func (n *VbftNet) ReopenLedger(nd *VNode) error { return n.openLedger(nd) }

// Enqueue puts a p2p message from node `from` to node `to` on the wire.
func (n *VbftNet) Enqueue(from, to int, msg p2ptypes.Message) { n.enqueue(from, to, msg) }

// SwitchLedger makes nd's ledger the process-global one.
func SwitchLedger(nd *VNode) {
	if nd.Chain.Ledger != nil {
		ledger.DefLedger = nd.Chain.Ledger
	}
}

// StartNode creates and starts the real vbft server of a node.
func (n *VbftNet) StartNode(nd *VNode) error {
	nd.gen++
	ledger.DefLedger = nd.Chain.Ledger
	props := actor.FromProducer(func() actor.Actor { return &poolActor{nd: nd} })
	pid, err := actor.SpawnNamed(props, fmt.Sprintf("simpool_%d_%d_%d", vbftNetSeq, nd.I, nd.gen))
	if err != nil {
		return err
	}
	nd.Pool = pid
	srv, err := vbft.NewVbftServerSim(nd.Acc, pid, nd.P2P, nd.Chain.Ledger, fmt.Sprintf("consensus_vbft_%d_%d_%d", vbftNetSeq, nd.I, nd.gen), uint32(nd.I+1))
	if err != nil {
		return err
	}
	nd.Srv = srv
	nd.Down = false
	return srv.Start()
}

// Switch makes node i's ledger the process-global ledger.DefLedger: the
// "process image" switch done before a goroutine of that node is released.
func (n *VbftNet) Switch(idx1 int) {
	if idx1 >= 1 && idx1 <= n.N {
		if l := n.Nodes[idx1-1].Chain.Ledger; l != nil {
			ledger.DefLedger = l
		}
	}
}

// Drain releases parked goroutines (lowest key first) until the system is quiescent.
func (n *VbftNet) Drain(max int) {
	for i := 0; i < max; i++ {
		Quiesce()
		p := n.Sched.Parked()
		if len(p) == 0 {
			return
		}
		n.Switch(p[0].A)
		n.Sched.Release(p[0])
	}
}

// StopNode shuts a node's server down with the race-free sequence and closes
// nothing else (the ledger stays open unless the caller closes it).
func (n *VbftNet) StopNode(nd *VNode) {
	if nd.Srv == nil {
		return
	}
	n.Settle() // what was sent before the stop is on the wire
	nd.Down = true
	nd.Srv.SimBeginStop()
	// let this node's goroutines run to their exits
	for i := 0; i < 5000; i++ {
		Quiesce()
		var mine *simkit.Gate
		for _, g := range n.Sched.Parked() {
			if g.A == nd.I+1 || g.A > n.N {
				mine = g
				break
			}
		}
		nd.Srv.SimDrain()
		if mine == nil {
			break
		}
		n.Switch(mine.A)
		n.Sched.Release(mine)
	}
	Quiesce()
	nd.Srv.SimDrain()
	nd.Srv.SimFinishStop()
	if nd.Pool != nil {
		nd.Pool.Stop()
	}
	Quiesce()
	// whatever the dying server still sent while its goroutines raced to their exits never left the machine
	n.mu.Lock()
	kept := n.arrivals[:0]
	for _, m := range n.arrivals {
		if m.From != nd.I {
			kept = append(kept, m)
		}
	}
	n.arrivals = kept
	n.mu.Unlock()
	n.Sched.ResetOwner(nd.I + 1)
	n.dead = append(n.dead, nd.Srv)
	nd.Srv = nil
}

// Shutdown stops every server, turns gating off and closes the ledgers.
func (n *VbftNet) Shutdown() {
	for _, nd := range n.Nodes {
		if nd.Srv != nil {
			nd.Down = true
			nd.Srv.SimBeginStop()
		}
	}
	n.Sched.Off()
	for k := 0; k < 4; k++ {
		Quiesce()
		for _, nd := range n.Nodes {
			if nd.Srv != nil {
				nd.Srv.SimDrain()
			}
		}
		for _, s := range n.dead {
			s.SimDrain()
		}
		time.Sleep(time.Second)
	}
	Quiesce()
	for _, nd := range n.Nodes {
		if nd.Srv != nil {
			nd.Srv.SimFinishStop()
			nd.Srv = nil
		}
		if nd.Pool != nil {
			nd.Pool.Stop()
		}
	}
	Quiesce()
	for _, nd := range n.Nodes {
		nd.Chain.Close()
		ReleaseDataDir(nd.Chain.Dir)
	}
	simhook.YieldFn = nil
	simhook.OrderFn = nil
}

var _ = msgpack.NewConsensus
